import HappyProofs.C19.StreamRead
/-!
# C19 — what a retention sweep keeps

For every schedule the model's run satisfies `jRetention`: without a policy nothing is dropped,
size retention keeps the newest `min(n, count)` records of every partition, age retention keeps
exactly the records younger than the maximum age (judged with the append instants the judge saw).
-/
namespace HappyModel.C19

structure PInv (cfg : SCfg) (s : Stream) (j : PSt) : Prop where
  next : j.next = s.hw
  lo : ∀ p, p < cfg.n → j.lo.getD p 0 + (s.part p).length = s.hwOf p
  ts : ∀ p, p < cfg.n → ∀ r ∈ s.part p, j.tsOf p r.off = r.ts

theorem pinv_init (cfg : SCfg) : PInv cfg (Stream.init cfg.n) (PSt.init cfg.n) := by
  have hp : ∀ p, (Stream.init cfg.n).part p = [] := by
    intro p
    simp only [Stream.init, Stream.part, List.getD_eq_getElem?_getD, List.getElem?_replicate]
    split <;> rfl
  refine ⟨rfl, ?_, ?_⟩
  · intro p _
    simp only [PSt.init, Stream.init, Stream.part, Stream.hwOf, List.getD_eq_getElem?_getD,
      List.getElem?_replicate]
    split <;> rfl
  · intro p _ r hr; rw [hp] at hr; cases hr

theorem mem_map_off {l : List SRec} {o : Nat} (h : o ∈ l.map (·.off)) : ∃ r ∈ l, r.off = o := by
  obtain ⟨r, hr, e⟩ := List.mem_map.mp h
  exact ⟨r, hr, e⟩

theorem keepOk_model (cfg : SCfg) (s : Stream) (j : PSt) (t : Nat) (hi : LInv cfg s t)
    (hr : PInv cfg s j) (p : Nat) (hp : p < cfg.n) :
    keepOk cfg.ret t j p ((s.retention cfg t).kept.getD p []) = none ∧
      (j.next.getD p 0 - ((s.retention cfg t).kept.getD p []).length)
        + ((s.retention cfg t).part p).length = (s.retention cfg t).hwOf p := by
  have hi' := log_retention_inv cfg s t hi
  have hok' := hi'.ok p hp
  have hok := hi.ok p hp
  have hhw : (s.retention cfg t).hwOf p = s.hwOf p := rfl
  have hnx : j.next.getD p 0 = s.hwOf p := by unfold Stream.hwOf; rw [hr.next]
  have hle' := hok'.length_le
  have hle := hok.length_le
  have hlo := hr.lo p hp
  rw [hhw] at hle'
  have hklen : ((s.retention cfg t).kept.getD p []).length = ((s.retention cfg t).part p).length := by
    rw [kept_getD, List.length_map]
  refine ⟨?_, by rw [hklen, hnx, hhw]; omega⟩
  have hpart := part_retention cfg s t p
  cases hret : cfg.ret with
  | none =>
    have : ((s.retention cfg t).part p).length = (s.part p).length := by
      rw [hpart, hret]; rfl
    simp only [keepOk, hklen, hnx]
    rw [if_pos (by rw [beq_iff_eq]; omega)]
  | size m =>
    have : ((s.retention cfg t).part p).length = min m (s.part p).length := by
      rw [hpart, hret]; simp only [retainPart, List.length_drop]; omega
    simp only [keepOk, hklen, hnx]
    rw [if_pos (by rw [beq_iff_eq]; omega)]
  | age ns =>
    have hpa : (s.retention cfg t).part p = (s.part p).filter (fun r => decide (t - r.ts < ns)) := by
      rw [hpart, hret]; rfl
    have hm' := hok'.map_off
    have hm := hok.map_off
    rw [hhw] at hm'
    have h1 : ((List.range' (s.hwOf p - ((s.retention cfg t).part p).length)
        (s.hwOf p - (s.hwOf p - ((s.retention cfg t).part p).length))).all
          (fun o => decide (t - j.tsOf p o < ns))) = true := by
      rw [List.all_eq_true]
      intro o ho
      have e : s.hwOf p - (s.hwOf p - ((s.retention cfg t).part p).length)
          = ((s.retention cfg t).part p).length := by omega
      rw [e, ← hm'] at ho
      obtain ⟨r, hrm, rfl⟩ := mem_map_off ho
      rw [hpa] at hrm
      obtain ⟨hr1, hr2⟩ := List.mem_filter.mp hrm
      rw [hr.ts p hp r hr1]
      exact hr2
    have h2 : ((List.range' (j.lo.getD p 0)
        (s.hwOf p - ((s.retention cfg t).part p).length - j.lo.getD p 0)).all
          (fun o => !decide (t - j.tsOf p o < ns))) = true := by
      rw [List.all_eq_true]
      intro o ho
      obtain ⟨ho1, ho2⟩ := List.mem_range'_1.mp ho
      have hmem : o ∈ (s.part p).map (·.off) := by
        rw [hm]; exact List.mem_range'_1.mpr ⟨by omega, by omega⟩
      obtain ⟨r, hrm, rfl⟩ := mem_map_off hmem
      rw [hr.ts p hp r hrm]
      by_cases hpred : t - r.ts < ns
      · exfalso
        have hin : r ∈ (s.retention cfg t).part p := by
          rw [hpa]; exact List.mem_filter.mpr ⟨hrm, by simpa using hpred⟩
        have : r.off ∈ ((s.retention cfg t).part p).map (·.off) := List.mem_map.mpr ⟨r, hin, rfl⟩
        rw [hm'] at this
        have := (List.mem_range'_1.mp this).1
        omega
      · simp [hpred]
    simp only [keepOk, hklen, hnx, h1, h2, Bool.and_self, if_true]

theorem pstep_model (cfg : SCfg) (hn : 0 < cfg.n) (s : Stream) (j : PSt) (t : Nat) (a : SAct)
    (hi : LInv cfg s t) (hr : PInv cfg s j) :
    ∃ j', j.step cfg.n cfg.ret ⟨t, a, (s.step cfg t a).2⟩ = .ok j' ∧ PInv cfg (s.step cfg t a).1 j' := by
  cases a with
  | append key h =>
    have hp : h % cfg.n < cfg.n := Nat.mod_lt _ hn
    refine ⟨PSt.mk j.lo (j.next.set (h % cfg.n) (s.hwOf (h % cfg.n) + 1))
      (((h % cfg.n, s.hwOf (h % cfg.n)), t) :: j.ts), rfl, ?_⟩
    have hpart : ∀ q, (s.append cfg t key h).1.part q =
        if q = h % cfg.n then s.part (h % cfg.n) ++ [⟨s.hwOf (h % cfg.n), key, t⟩] else s.part q :=
      fun q => getD_set s.parts _ q _ [] (by rw [hi.pl]; exact hp)
    have hhw : ∀ q, (s.append cfg t key h).1.hwOf q =
        if q = h % cfg.n then s.hwOf (h % cfg.n) + 1 else s.hwOf q :=
      fun q => getD_set s.hw _ q _ 0 (by rw [hi.hl]; exact hp)
    refine ⟨?_, ?_, ?_⟩
    · show j.next.set _ _ = s.hw.set _ _
      rw [hr.next]
    · intro q hq
      show j.lo.getD q 0 + ((s.append cfg t key h).1.part q).length = (s.append cfg t key h).1.hwOf q
      rw [hpart, hhw]
      have := hr.lo q hq
      split
      · next e => subst e; rw [List.length_append]; simp only [List.length_cons, List.length_nil]; omega
      · exact this
    · intro q hq r hrm
      change r ∈ (s.append cfg t key h).1.part q at hrm
      show ((((h % cfg.n, s.hwOf (h % cfg.n)), t) :: j.ts).lookup (q, r.off)).getD 0 = r.ts
      rw [hpart] at hrm
      rw [List.lookup_cons]
      split at hrm
      · next e =>
        subst e
        rcases List.mem_append.mp hrm with hm | hm
        · have hb := ((hi.ok _ hp).bounds r hm).1
          have hne : ((h % cfg.n, r.off) == (h % cfg.n, s.hwOf (h % cfg.n))) = false := by
            simp; omega
          rw [hne]
          exact hr.ts _ hp r hm
        · rw [List.mem_singleton.mp hm]
          simp
      · next e =>
        have hne : ((q, r.off) == (h % cfg.n, s.hwOf (h % cfg.n))) = false := by
          simp; intro e'; exact absurd e' e
        rw [hne]
        exact hr.ts q hq r hrm
  | retention =>
    have hnone : (List.range cfg.n).findSome?
        (fun p => keepOk cfg.ret t j p ((s.retention cfg t).kept.getD p [])) = none := by
      rw [List.findSome?_eq_none_iff]
      intro p hp
      exact (keepOk_model cfg s j t hi hr p (List.mem_range.mp hp)).1
    refine ⟨PSt.mk ((List.range cfg.n).map
      (fun p => j.next.getD p 0 - ((s.retention cfg t).kept.getD p []).length)) j.next j.ts, ?_, ?_⟩
    · simp only [Stream.step, PSt.step, hnone]
    · refine ⟨hr.next, ?_, ?_⟩
      · intro p hp
        show ((List.range cfg.n).map _).getD p 0 + _ = _
        rw [getD_map_range _ _ _ hp]
        exact (keepOk_model cfg s j t hi hr p hp).2
      · intro p hp r hrm
        change r ∈ (s.retention cfg t).part p at hrm
        obtain ⟨k, hk⟩ := retainPart_eq_drop cfg.ret t (s.part p) (hi.ts p hp)
        rw [part_retention, hk] at hrm
        exact hr.ts p hp r (List.mem_of_mem_drop hrm)
  | commit c offs =>
    obtain ⟨cm, hcm⟩ := log_commit_eq cfg s c offs
    refine ⟨j, rfl, ?_⟩
    show PInv cfg (s.commit cfg c offs) j
    rw [hcm]
    exact ⟨hr.next, hr.lo, hr.ts⟩
  | read p off max => exact ⟨j, rfl, hr⟩
  | poll c max => exact ⟨j, rfl, hr⟩
  | joinA c => exact ⟨j, rfl, ⟨hr.next, hr.lo, hr.ts⟩⟩
  | joinB c => exact ⟨j, rfl, ⟨hr.next, hr.lo, hr.ts⟩⟩
  | leaveA c => exact ⟨j, rfl, ⟨hr.next, hr.lo, hr.ts⟩⟩
  | leaveB c => exact ⟨j, rfl, ⟨hr.next, hr.lo, hr.ts⟩⟩

theorem jRetention_run (cfg : SCfg) (hn : 0 < cfg.n) (s : Stream) (T : Nat) (j : PSt)
    (sched : List (Nat × SAct)) (hi : LInv cfg s T) (hT : ∀ x ∈ sched, T ≤ x.1)
    (ht : TimesMono sched) (hr : PInv cfg s j) :
    jRetention cfg.n cfg.ret j (Stream.run cfg s sched) = none := by
  induction sched generalizing s T j with
  | nil => rfl
  | cons x rest ih =>
    obtain ⟨t, a⟩ := x
    have hi' : LInv cfg s t := hi.mono (hT _ (List.mem_cons_self ..))
    have hs := log_step_inv cfg hn s t a hi'
    obtain ⟨ht1, ht'⟩ := List.pairwise_cons.mp (show ((t :: rest.map (·.1)).Pairwise (· ≤ ·)) from ht)
    have hT' : ∀ x ∈ rest, t ≤ x.1 := fun x hx => ht1 _ (List.mem_map.mpr ⟨x, hx, rfl⟩)
    obtain ⟨j', hj, hr'⟩ := pstep_model cfg hn s j t a hi' hr
    simp only [Stream.run, jRetention, hj]
    exact ih _ t j' hs hT' ht' hr'

/-- a retention sweep keeps what its policy says: everything without a policy, the newest
    `min(n, count)` records per partition under size retention, exactly the records younger than
    the maximum age under age retention -/
theorem retention_keeps_policy (cfg : SCfg) (hn : 0 < cfg.n) (sched : List (Nat × SAct))
    (ht : TimesMono sched) :
    jRetention cfg.n cfg.ret (PSt.init cfg.n) (Stream.run cfg (Stream.init cfg.n) sched) = none :=
  jRetention_run cfg hn _ 0 _ sched (log_init_inv cfg.n cfg rfl) (fun _ _ => Nat.zero_le _) ht
    (pinv_init cfg)

/-- non-vacuity: an age sweep that drops two of three records, and the judge rejecting sweeps that
    keep too much / too little -/
example : (Stream.run {n := 1, ret := .age 3} (Stream.init 1)
    [(0, .append 7 0), (1, .append 7 0), (4, .append 7 0), (5, .retention)]).map (·.out) =
    [.appended 0 0, .appended 0 1, .appended 0 2, .total 1 [[2]]] := by decide
example : jRetention 1 (.age 3) (PSt.init 1)
    [⟨0, .append 7 0, .appended 0 0⟩, ⟨1, .append 7 0, .appended 0 1⟩, ⟨4, .append 7 0, .appended 0 2⟩,
     ⟨5, .retention, .total 2 [[1, 2]]⟩] = some "log/retention/age-bound" := by decide
example : jRetention 1 (.size 2) (PSt.init 1)
    [⟨0, .append 7 0, .appended 0 0⟩, ⟨1, .append 7 0, .appended 0 1⟩, ⟨4, .append 7 0, .appended 0 2⟩,
     ⟨5, .retention, .total 1 [[2]]⟩] = some "log/retention/size-bound" := by decide

end HappyModel.C19
