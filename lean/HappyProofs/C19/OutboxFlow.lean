import HappyModel.C19.Outbox
/-!
Flow of relay events through the engine's heap, for both variants of the OutboxRelay model: what the
downstream has received, followed by what is still in the heap, is what was sent (`run_flow`).
-/
namespace HappyModel.C19.Outbox
open List

def ids (l : List (Nat × Nat)) : List Nat := l.map Prod.fst

theorem ids_append (a b : List (Nat × Nat)) : ids (a ++ b) = ids a ++ ids b := by simp [ids]

/-- a piece of a segment that only sends: nothing received, the heap grows by what was sent -/
def Sends (s : St) (r : St × List Ev) : Prop :=
  evGots r.2 = [] ∧ ids r.1.flight = ids s.flight ++ evEmits r.2

theorem evEmits_append (a b : List Ev) : evEmits (a ++ b) = evEmits a ++ evEmits b := by
  induction a with
  | nil => rfl
  | cons e es ih => cases e <;> simp [evEmits, ih]

theorem evGots_append (a b : List Ev) : evGots (a ++ b) = evGots a ++ evGots b := by
  induction a with
  | nil => rfl
  | cons e es ih => cases e <;> simp [evGots, ih]

theorem relayAll_sends (t : Nat) (l : List Nat) (s : St) : Sends s (relayAll t s l) := by
  induction l generalizing s with
  | nil => simp [Sends, relayAll, evGots, evEmits]
  | cons k ks ih =>
    have h := ih (relayOne t s k)
    simp only [Sends, relayAll, evGots, evEmits] at h ⊢
    refine ⟨h.1, ?_⟩
    rw [h.2]; simp [relayOne, ids]

theorem finish_sends (cfg : Cfg) (t : Nat) (s : St) : Sends s (finish cfg t s) := by
  unfold finish resched endCycle
  split <;> split <;> simp [Sends, evGots, evEmits, schedPoll]

theorem advance_sends (cfg : Cfg) (t p : Nat) (rest : List Nat) (s : St) :
    Sends s (advance cfg t s p rest) := by
  unfold advance
  split
  · have h1 := relayAll_sends t rest s
    have h2 := finish_sends cfg t (relayAll t s rest).1
    simp only [Sends] at h1 h2 ⊢
    refine ⟨by rw [evGots_append, h1.1, h2.1]; rfl, ?_⟩
    rw [h2.2, h1.2, evEmits_append, append_assoc]
  · cases rest with
    | nil => exact finish_sends cfg t s
    | cons k ks => simp [Sends, evGots, evEmits, relayOne, ids]

theorem pollStart_sends (cfg : Cfg) (t p : Nat) (s : St) : Sends s (pollStart cfg t s p) := by
  unfold pollStart
  split
  · have h := advance_sends cfg t p ((pendingFrom 1 s.flags).take cfg.batch)
      { s with scheduled := false, cycles := s.cycles + 1 }
    simp only [Sends, evGots, evEmits] at h ⊢
    exact h
  · split
    · simp [Sends, evGots, evEmits]
    · have h := advance_sends cfg t p ((pendingFrom 1 s.flags).take cfg.batch)
        { s with running := true, cycles := s.cycles + 1 }
      simp only [Sends, evGots, evEmits] at h ⊢
      exact h

/-- one segment: received ++ heap after = heap before ++ sent -/
theorem step_flow (cfg : Cfg) (s : St) (g : Seg) :
    evGots (step cfg s g).2 ++ ids (step cfg s g).1.flight = ids s.flight ++ evEmits (step cfg s g).2 := by
  obtain ⟨t, a⟩ := g
  have sends : ∀ r : St × List Ev, Sends s r → evGots r.2 ++ ids r.1.flight = ids s.flight ++ evEmits r.2 := by
    intro r h; rw [h.1, h.2]; rfl
  cases a with
  | write => simp [step, evGots, evEmits, ids]
  | prime => simp [step, evGots, evEmits, ids, schedPoll]
  | nudge => simp only [step]; split <;> simp [evGots, evEmits, ids, schedPoll]
  | poll p => exact sends _ (pollStart_sends cfg t p s)
  | resume p =>
    simp only [step]
    split
    · simp [evGots, evEmits]
    · rename_i r _
      exact sends _ (advance_sends cfg t p r.1 { s with polls := r.2 })
  | recv =>
    simp only [step]
    split
    · split <;> simp_all [evGots, evEmits, ids]
    · simp_all [evGots, evEmits, ids]
  | fin => simp [step, evGots, evEmits]

/-- whole run: what the downstream received, then what is still in the heap = what was in the heap,
then what was sent -/
theorem run_flow (cfg : Cfg) (segs : List Seg) (s : St) :
    gotIds (run cfg s segs) ++ ids (runSt cfg s segs).flight = ids s.flight ++ emitIds (run cfg s segs) := by
  induction segs generalizing s with
  | nil => simp [run, runSt, gotIds, emitIds]
  | cons g gs ih =>
    simp only [run, runSt, gotIds, emitIds]
    rw [append_assoc, ih, ← append_assoc, step_flow, append_assoc]

end HappyModel.C19.Outbox
