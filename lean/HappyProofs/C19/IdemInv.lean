import HappyModel.C19.Idem
/-!
C19 / idem — the invariant that ties the model state to what the observed history says, and the
lemma that the counters / chain clauses of the Spec follow from it.
-/
namespace HappyModel.C19.Idem

theorem chk_none {b : Bool} {sig : String} {rest : Option String} (hb : b = true) (hr : rest = none) :
    chk b sig rest = none := by
  simp [chk, hb, hr]

theorem filter_split_length {α : Type} (p : α → Bool) (l : List α) :
    (l.filter (fun e => !p e)).length + (l.filter p).length = l.length := by
  induction l with
  | nil => rfl
  | cons a l ih =>
    by_cases h : p a
    · simp [h]; omega
    · simp [h]; omega

/-- model state ↔ observed history (`lo` = a lower bound for the time of the next delivery) -/
structure Inv (cfg : Cfg) (s : St) (h : List Obs) (lo : Nat) : Prop where
  cache : s.cache = live cfg h
  infl : s.infl = flying h
  sent : s.sent = awaiting h
  work : s.work = working h
  fins : s.fins = finished h
  pend : s.pend = pendingCl h
  total : s.total = nReq h
  hits : s.hits = nSup h
  misses : s.misses = nMiss h
  stored : s.stored = nStored h
  addup : s.total = s.hits + s.misses + nKeyless h
  size : s.cache.length + s.expired = s.stored
  bound : s.cache.length ≤ cfg.maxE
  idle : s.cache = [] → s.infl = [] → s.pend = []
  busy : (s.cache ≠ [] ∨ s.infl ≠ []) → ∃ p, s.pend = [p]
  gap : ∀ x p, lastSweep h = some x → p ∈ s.pend → x + cfg.interval ≤ p
  mono : ∀ x, lastSweep h = some x → x ≤ lo

theorem inv_init (cfg : Cfg) (lo : Nat) : Inv cfg {} [] lo := by
  refine ⟨rfl, rfl, rfl, rfl, rfl, rfl, rfl, rfl, rfl, rfl, rfl, rfl, Nat.zero_le _, fun _ _ => rfl, ?_, ?_, ?_⟩
  · intro h; rcases h with h | h <;> exact absurd rfl h
  · intro x p h; simp [lastSweep] at h
  · intro x h; simp [lastSweep] at h

theorem ctrCheck_none (cfg : Cfg) (h : List Obs) (b : Bool) (c : Ctr)
    (e1 : c.total = c.hits + c.misses + nKeyless h) (e2 : c.total = nReq h) (e3 : c.hits = nSup h)
    (e4 : c.misses = nMiss h) (e5 : c.stored = nStored h) (e6 : c.csize + c.expired = c.stored)
    (e7 : c.csize ≤ cfg.maxE) (e8 : c.csize = (live cfg h).length) (e9 : c.nfl = (flying h).length) :
    ctrCheck cfg h b c = none := by
  unfold ctrCheck
  refine chk_none (by simpa using e1) ?_
  refine chk_none (by simpa using e2) ?_
  refine chk_none (by simp [e3, e4]) ?_
  refine chk_none (by simpa using e5) ?_
  refine chk_none (by simpa using e6) ?_
  refine chk_none (by simpa using e7) ?_
  refine chk_none (by simp [e8]) ?_
  refine chk_none (by simp [e8]) ?_
  refine chk_none (by simpa using e8) ?_
  exact chk_none (by simpa using e9) rfl

/-- the counter clauses of the Spec hold of the registers of a state that satisfies the invariant -/
theorem ctr_ok {cfg : Cfg} {s : St} {h : List Obs} {lo : Nat} (I : Inv cfg s h lo) (b : Bool) :
    ctrCheck cfg h b s.ctr = none :=
  ctrCheck_none cfg h b s.ctr I.addup I.total I.hits I.misses I.stored I.size I.bound
    (by show s.cache.length = _; rw [I.cache]) (by show s.infl.length = _; rw [I.infl])

/-- something to expire ⇒ a sweep is pending -/
theorem chain_ok {cfg : Cfg} {s : St} {h : List Obs} {lo : Nat} (I : Inv cfg s h lo) : chainOk cfg h = true := by
  unfold chainOk
  rw [← I.cache, ← I.infl, ← I.pend]
  by_cases hc : s.cache = []
  · by_cases hf : s.infl = []
    · simp [hc, hf]
    · obtain ⟨p, hp⟩ := I.busy (Or.inr hf)
      simp [hp]
  · obtain ⟨p, hp⟩ := I.busy (Or.inl hc)
    simp [hp]

end HappyModel.C19.Idem
