import HappyProofs.C19.WinSessJudge
/-!
Session windows: one action of the model against core *and* extra clauses, and the run.
Hypothesis on the schedule: record ids are distinct (`procIds sched` has no duplicates) — the judge picks the
members of an emitted session by id, so with a repeated id it would (rightly) not recognise the session.
-/
namespace HappyModel.C19.Win
set_option linter.unusedVariables false

/-- ids of the records a schedule feeds in -/
def procIds : List Line → List Nat
  | [] => []
  | ln :: rest =>
    match ln.act with
    | .proc r => r.id :: procIds rest
    | _ => procIds rest

/-- what is left after removing emitted sessions is a sublist of the pending records -/
theorem sessEms_sublist (cfg : Cfg) (j : JSt) : ∀ (ems : List Em) (pend : List Rec),
    (sessEms cfg j pend ems).2.Sublist pend := by
  intro ems
  induction ems with
  | nil => intro pend; simp [sessEms]
  | cons em rest ih =>
    intro pend
    simp only [sessEms]
    exact (ih _).trans (by simp only [sessEm]; exact List.filter_sublist)

theorem stepProc_wins (cfg : Cfg) (t : Nat) (r : Rec) (s : St) :
    (stepProc cfg t r s).1.wins =
      if isLate cfg s.wm r.et = true ∧ cfg.policy < 2 then s.wins else addWindows cfg r s.wins := by
  unfold stepProc
  by_cases hl : isLate cfg s.wm r.et = true
  · by_cases hp0 : cfg.policy = 0
    · simp [hl, hp0]
    · by_cases hp1 : cfg.policy = 1
      · simp [hl, hp1]
      · have : ¬ cfg.policy < 2 := by omega
        simp [hl, hp0, hp1, this]
  · simp [hl]

theorem afterProc_pend (cfg : Cfg) (hk : cfg.kind = 2) (t : Nat) (j : JSt) (r : Rec) :
    (afterProc cfg t j r).pend = if lateExp cfg j r = true ∧ cfg.policy < 2 then j.pend else j.pend ++ [r] := by
  have hk2 : (cfg.kind == 2) = true := by simp [hk]
  simp only [afterProc, accepted, hk2, Bool.and_true]
  by_cases hl : lateExp cfg j r = true
  · by_cases hp : cfg.policy < 2
    · have : ¬ 2 ≤ cfg.policy := by omega
      simp [hl, hp, this]
    · have : 2 ≤ cfg.policy := by omega
      simp [hl, hp, this]
  · simp [hl]

theorem RS.of_same {gap : Nat} {s s' : St} {j j' : JSt} (h : RS gap s j) (h0 : R0 s' j') (hw : s'.wins = s.wins)
    (hp : j'.pend = j.pend) : RS gap s' j' :=
  ⟨h0, hw ▸ h.sinv, hw ▸ h.good, by rw [hp, hw]; exact h.perm, hp ▸ h.ids⟩

/-- what is still pending after a firing is either open or has a pending successor within the gap -/
theorem closure_sess (cfg : Cfg) (s : St) (j : JSt) (wm : Nat) (h : RS cfg.gap s j)
    (hopen : ∀ w ∈ s.wins, wm < w.e) : sessClosure cfg { j with wm := wm } j.pend = true := by
  simp only [sessClosure, List.all_eq_true, Bool.or_eq_true, decide_eq_true_eq]
  intro r hr
  obtain ⟨w, hw, hrw⟩ := h.owner r hr
  cases hs : hasSucc cfg.gap j.pend r with
  | true => exact Or.inr rfl
  | false =>
    left
    have := (h.noSucc r w hw hrw).1 hs
    have := hopen w hw
    omega

theorem sessClosure_wm (cfg : Cfg) (j : JSt) (pend : List Rec) :
    sessClosure cfg j pend = sessClosure cfg { j with wm := j.wm } pend := rfl

/-- one action of the session model: every clause of the judge (core and extra) holds, the relation is kept -/
theorem step_ok_rs (cfg : Cfg) (hk : cfg.kind = 2) (s : St) (j : JSt) (ln : Line) (h : RS cfg.gap s j)
    (hl : legitLine s ln = true) (hfresh : ∀ r, ln.act = .proc r → r.id ∉ j.pend.map (·.id)) :
    firstFail (coreChecks cfg j ln (step cfg s ln).2 ++ extraChecks cfg j ln (step cfg s ln).2) = none ∧
    RS cfg.gap (step cfg s ln).1 (after cfg j ln (step cfg s ln).2) := by
  have hk2 : (cfg.kind == 2) = true := by simp [hk]
  obtain ⟨hcore, h0⟩ := step_ok_sess cfg hk s j ln h.r0 hl
  have hsinv := step_sinv cfg hk s ln h.sinv
  obtain ⟨t, act⟩ := ln
  cases act with
  | proc r =>
    have hwm : s.wm = j.wm := h.r0.1
    have hR : RS cfg.gap (step cfg s ⟨t, .proc r⟩).1 (after cfg j ⟨t, .proc r⟩ (step cfg s ⟨t, .proc r⟩).2) := by
      refine ⟨h0, hsinv, ?_, ?_, ?_⟩
      · simp only [step, stepProc_wins]
        split
        · exact h.good
        · simp only [addWindows, hk, if_true]
          exact sessAdd_goodS cfg.gap r s.wins h.good
      · simp only [step, after, stepProc_wins, afterProc_pend cfg hk, isLate, lateExp, hwm]
        by_cases hc : decide (r.et + cfg.late < j.wm) = true ∧ cfg.policy < 2
        · simp only [hc, and_self, if_true]
          exact h.perm
        · simp only [hc, if_false, addWindows, hk, if_true]
          exact (List.Perm.append_right _ h.perm).trans (sessAdd_recs cfg.gap r s.wins).symm
      · simp only [step, after, afterProc_pend cfg hk]
        split
        · exact h.ids
        · rw [List.map_append, List.nodup_append]
          refine ⟨h.ids, by simp, ?_⟩
          intro a ha b hb
          simp only [List.map_cons, List.map_nil, List.mem_singleton] at hb
          subst hb
          intro e; subst e
          exact hfresh r rfl ha
    refine ⟨firstFail_append _ _ hcore ?_, hR⟩
    apply firstFail_none
    intro c hc
    simp only [step, extraChecks] at hc
    exact aw_sess cfg hk _ _ hR c hc
  | wmA ext w =>
    have hw : (stepWmA t ext w s).1.wins = s.wins := by
      unfold stepWmA; cases ext <;> simp <;> split <;> rfl
    have hR : RS cfg.gap (step cfg s ⟨t, .wmA ext w⟩).1 (after cfg j ⟨t, .wmA ext w⟩ (step cfg s ⟨t, .wmA ext w⟩).2) :=
      h.of_same h0 (by simpa [step] using hw) (by simp [after])
    refine ⟨firstFail_append _ _ hcore ?_, hR⟩
    apply firstFail_none
    intro c hc
    simp only [step, extraChecks] at hc
    exact aw_sess cfg hk _ _ hR c hc
  | wmB =>
    have hwm : s.wm = j.wm := h.r0.1
    -- the emitted sessions E and the kept ones K
    have hperm : ((s.wins.filter (closable s.wm)) ++ (s.wins.filter fun w => !closable s.wm w)).Perm s.wins :=
      List.filter_append_perm _ _
    have hp2 : j.pend.Perm (recsOf ((s.wins.filter (closable s.wm)) ++ (s.wins.filter fun w => !closable s.wm w))) :=
      h.perm.trans (by unfold recsOf; exact (List.Perm.flatMap_right (fun w : Win => w.recs) hperm).symm)
    have hloop := sessEms_ok cfg j (s.wins.filter (closable s.wm)) (s.wins.filter fun w => !closable s.wm w) j.pend
      hp2 h.ids
      (fun w hw => h.good w (hperm.mem_iff.1 hw))
      ((List.Perm.pairwise_iff (fun {a b} => sepKey_symm) hperm).2 h.sinv.2)
      (fun w hw => by
        have := (List.mem_filter.1 hw).2
        simp only [closable, Bool.and_eq_true, decide_eq_true_eq] at this
        omega)
    have hems : (stepWmB cfg t s).2 = (s.wins.filter (closable s.wm)).map toEm := by simp [stepWmB]
    have hwins : (stepWmB cfg t s).1.wins = s.wins.filter fun w => !closable s.wm w := by simp [stepWmB, hk]
    have hR : RS cfg.gap (step cfg s ⟨t, .wmB⟩).1 (after cfg j ⟨t, .wmB⟩ (step cfg s ⟨t, .wmB⟩).2) := by
      refine ⟨h0, hsinv, ?_, ?_, ?_⟩
      · simp only [step, hwins]
        intro w hw; exact h.good w (List.mem_filter.1 hw).1
      · simp only [step, after, afterFire, hk2, if_true, hwins, hems]
        exact hloop.2
      · simp only [step, after, afterFire, hk2, if_true, hems]
        exact List.Nodup.sublist (List.Sublist.map _ (sessEms_sublist cfg j _ j.pend)) h.ids
    refine ⟨firstFail_append _ _ hcore ?_, hR⟩
    apply firstFail_none
    intro c hc
    simp only [step, extraChecks, hk2, if_true, List.mem_append, List.mem_cons, List.not_mem_nil, or_false] at hc
    rcases hc with (hc | hc) | hc
    · rw [hems] at hc
      exact hloop.1 c hc
    · subst hc
      -- closed sessions were all emitted: the kept ones are still open
      have hopen : ∀ w ∈ (step cfg s ⟨t, .wmB⟩).1.wins, j.wm < w.e := by
        simp only [step, hwins]
        intro w hw
        obtain ⟨hw1, hw2⟩ := List.mem_filter.1 hw
        have hem := (h.good w hw1).em
        simp only [closable, hem, Bool.not_false, Bool.true_and, Bool.not_eq_true', decide_eq_false_iff_not] at hw2
        omega
      have := closure_sess cfg _ _ j.wm hR hopen
      simpa [step, after, afterFire, hk2, sessClosure] using this
    · exact aw_sess cfg hk _ _ hR c hc
  | lateRecv id =>
    have hw : (stepLate id s).1.wins = s.wins := by
      unfold stepLate; split <;> rfl
    have hR : RS cfg.gap (step cfg s ⟨t, .lateRecv id⟩).1 (after cfg j ⟨t, .lateRecv id⟩ (step cfg s ⟨t, .lateRecv id⟩).2) :=
      h.of_same h0 (by simpa [step] using hw) (by simp [after])
    refine ⟨firstFail_append _ _ hcore ?_, hR⟩
    apply firstFail_none
    intro c hc
    simp only [extraChecks] at hc
    simp at hc
  | fin =>
    have hR : RS cfg.gap (step cfg s ⟨t, .fin⟩).1 (after cfg j ⟨t, .fin⟩ (step cfg s ⟨t, .fin⟩).2) :=
      h.of_same h0 (by simp [step]) (by simp [after])
    refine ⟨firstFail_append _ _ hcore ?_, hR⟩
    apply firstFail_none
    intro c hc
    simp only [step, extraChecks] at hc
    exact aw_sess cfg hk _ _ h c hc

/-- pending ids come from records already fed in -/
theorem after_pend_ids (cfg : Cfg) (hk : cfg.kind = 2) (j : JSt) (ln : Line) (out : Out) :
    ∀ i ∈ (after cfg j ln out).pend.map (·.id), i ∈ j.pend.map (·.id) ∨ ∃ r, ln.act = .proc r ∧ r.id = i := by
  have hk2 : (cfg.kind == 2) = true := by simp [hk]
  obtain ⟨t, act⟩ := ln
  intro i hi
  cases act with
  | proc r =>
    simp only [after, afterProc_pend cfg hk] at hi
    split at hi
    · exact Or.inl hi
    · rw [List.map_append, List.mem_append] at hi
      rcases hi with hi | hi
      · exact Or.inl hi
      · simp only [List.map_cons, List.map_nil, List.mem_singleton] at hi
        exact Or.inr ⟨r, rfl, hi.symm⟩
  | wmA ext w => exact Or.inl (by simpa [after] using hi)
  | wmB =>
    left
    cases out with
    | emits n ems st =>
      simp only [after, afterFire, hk2, if_true] at hi
      exact (List.Sublist.map (·.id) (sessEms_sublist cfg j ems j.pend)).subset hi
    | proc _ _ => simpa [after] using hi
    | wm _ _ => simpa [after] using hi
    | late _ _ => simpa [after] using hi
    | fin _ _ => simpa [after] using hi
  | lateRecv id => exact Or.inl (by simpa [after] using hi)
  | fin => exact Or.inl (by simpa [after] using hi)

theorem judge_safety_run_sess (cfg : Cfg) (hk : cfg.kind = 2) :
    ∀ (sched : List Line) (s : St) (j : JSt), RS cfg.gap s j → legit cfg s sched = true →
      (procIds sched).Nodup → (∀ i ∈ j.pend.map (·.id), i ∉ procIds sched) →
      judgeSafety cfg j (sched.zip (run cfg s sched)) = none := by
  intro sched
  induction sched with
  | nil => intro s j _ _ _ _; rfl
  | cons ln rest ih =>
    intro s j h hl hnd hdis
    simp only [legit, Bool.and_eq_true] at hl
    have hfresh : ∀ r, ln.act = .proc r → r.id ∉ j.pend.map (·.id) := by
      intro r hr hmem
      exact hdis r.id hmem (by simp [procIds, hr])
    obtain ⟨hok, hR⟩ := step_ok_rs cfg hk s j ln h hl.1 hfresh
    simp only [run, List.zip_cons_cons, judgeSafety, judgeWith, hok]
    refine ih _ _ hR hl.2 ?_ ?_
    · cases hact : ln.act <;> simp only [procIds, hact] at hnd <;> first | exact hnd | exact (List.nodup_cons.1 hnd).2
    · intro i hi hin
      rcases after_pend_ids cfg hk j ln _ i hi with hi | ⟨r, hr, rfl⟩
      · refine hdis i hi ?_
        cases hact : ln.act <;> simp only [procIds, hact] <;> first | exact hin | exact List.mem_cons_of_mem _ hin
      · simp only [procIds, hr] at hnd
        exact (List.nodup_cons.1 hnd).1 hin

end HappyModel.C19.Win
