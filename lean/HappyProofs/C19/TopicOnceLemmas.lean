import HappyModel.C19.StreamSpec
/-!
# C19 — list and `setActive` facts used by `HappyProofs.C19.TopicOnce`
-/
namespace HappyModel.C19

/-! ### list facts -/

theorem dupFree_iff (l : List Nat) : dupFree l = true ↔ l.Nodup := by
  induction l with
  | nil => simp [dupFree]
  | cons x xs ih => simp [dupFree, ih, List.nodup_cons]

theorem sameSet_of_mem {a b : List Nat} (h : ∀ c, c ∈ b ↔ c ∈ a) : sameSet a b = true := by
  simp only [sameSet, Bool.and_eq_true, List.all_eq_true, List.contains_iff_mem]
  exact ⟨fun x hx => (h x).mpr hx, fun x hx => (h x).mp hx⟩

theorem mem_insertNew {l : List Nat} {k x : Nat} : x ∈ insertNew l k ↔ x ∈ l ∨ x = k := by
  unfold insertNew
  split
  · rename_i hk
    constructor
    · exact Or.inl
    · rintro (h | h)
      · exact h
      · exact h ▸ hk
  · simp

theorem topic_insertNew_nodup {l : List Nat} (h : l.Nodup) (k : Nat) : (insertNew l k).Nodup := by
  unfold insertNew
  split
  · exact h
  · rename_i hk
    rw [List.nodup_append]
    refine ⟨h, by simp, ?_⟩
    intro a ha b hb
    simp only [List.mem_singleton] at hb
    subst hb
    intro hab
    subst hab
    exact hk ha

theorem lookup_mem' {β : Type} {l : List (Nat × β)} {m : Nat} {v : β} (h : l.lookup m = some v) :
    (m, v) ∈ l := by
  induction l with
  | nil => simp at h
  | cons e rest ih =>
    obtain ⟨k, w⟩ := e
    rw [List.lookup_cons] at h
    by_cases hk : m = k
    · subst hk; simp at h; simp [h]
    · have : (m == k) = false := by simpa using hk
      rw [this] at h
      exact List.mem_cons_of_mem _ (ih h)

/-- with distinct keys, the entry found by `lookup m` is the only one `filter (·.1 != m)` drops -/
theorem flatMap_lookup_perm {β γ : Type} (l : List (Nat × β)) (f : Nat × β → List γ) (m : Nat)
    (v : β) (hnd : (l.map (·.1)).Nodup) (h : l.lookup m = some v) :
    (l.flatMap f).Perm (f (m, v) ++ (l.filter (fun e => e.1 != m)).flatMap f) := by
  induction l with
  | nil => simp at h
  | cons e rest ih =>
    obtain ⟨k, w⟩ := e
    rw [List.map_cons, List.nodup_cons] at hnd
    rw [List.lookup_cons] at h
    by_cases hk : m = k
    · subst hk
      simp only [BEq.rfl, Option.some.injEq] at h
      subst h
      have hfil : rest.filter (fun e => e.1 != m) = rest := by
        rw [List.filter_eq_self]
        intro a ha
        have : a.1 ≠ m := fun hc => hnd.1 (hc ▸ List.mem_map_of_mem (f := (·.1)) ha)
        simpa using this
      simp [hfil]
    · have hb : (m == k) = false := by simpa using hk
      rw [hb] at h
      have hk' : (k != m) = true := by simpa using fun hc : k = m => hk hc.symm
      simp only [List.flatMap_cons, List.filter_cons, hk', if_true]
      exact (List.Perm.append_left _ (ih hnd.2 h)).trans (List.perm_append_comm_assoc _ _ _)

theorem map_erase_perm {α β : Type} [BEq α] [LawfulBEq α] [BEq β] [LawfulBEq β] (f : α → β)
    (l : List α) (a : α) (h : a ∈ l) : ((l.erase a).map f).Perm ((l.map f).erase (f a)) := by
  induction l with
  | nil => simp at h
  | cons b rest ih =>
    by_cases hba : b = a
    · subst hba; simp
    · have hne : (b == a) = false := by simpa using hba
      have hr : a ∈ rest := by
        rcases List.mem_cons.mp h with h | h
        · exact absurd h.symm hba
        · exact h
      rw [List.erase_cons, hne, List.map_cons, List.erase_cons]
      simp only [Bool.false_eq_true, if_false, List.map_cons]
      by_cases hf : f b = f a
      · simp only [hf, BEq.rfl, if_true]
        have h1 : (rest.map f).Perm (f a :: (rest.map f).erase (f a)) :=
          List.perm_cons_erase (List.mem_map_of_mem hr)
        exact ((ih hr).cons (f a)).trans h1.symm
      · have : (f b == f a) = false := by simpa using hf
        simp only [this]
        exact (ih hr).cons _

/-! ### `setActive` -/

theorem setActive_keys (c : Nat) (b : Bool) (l : List (Nat × Bool)) :
    (setActive c b l).map (·.1) = l.map (·.1) := by
  induction l with
  | nil => rfl
  | cons e rest ih =>
    simp only [setActive, List.map_cons] at ih ⊢
    rw [ih]
    by_cases h : e.1 = c <;> simp [h]

theorem mem_setActive (c : Nat) (b : Bool) (l : List (Nat × Bool)) (x : Nat) (v : Bool) :
    (x, v) ∈ setActive c b l ↔
      (x ≠ c ∧ (x, v) ∈ l) ∨ (x = c ∧ v = b ∧ c ∈ l.map (·.1)) := by
  induction l with
  | nil => simp [setActive]
  | cons e rest ih =>
    obtain ⟨k, w⟩ := e
    simp only [setActive, List.map_cons, List.mem_cons] at ih ⊢
    rw [ih]
    by_cases h : k = c
    · subst h; simp only [if_true, Prod.mk.injEq]; grind
    · simp only [h, if_false, Prod.mk.injEq]; grind

theorem mem_active_iff (subs : List (Nat × Bool)) (x : Nat) :
    x ∈ (subs.filter (·.2)).map (·.1) ↔ (x, true) ∈ subs := by
  constructor
  · intro h
    obtain ⟨⟨a, b⟩, hm, rfl⟩ := List.mem_map.mp h
    have := List.mem_filter.mp hm
    simp only at this
    obtain ⟨h1, h2⟩ := this
    subst h2
    exact h1
  · intro h
    exact List.mem_map.mpr ⟨(x, true), List.mem_filter.mpr ⟨h, rfl⟩, rfl⟩

theorem active_nodup (subs : List (Nat × Bool)) (h : (subs.map (·.1)).Nodup) :
    ((subs.filter (·.2)).map (·.1)).Nodup :=
  List.Nodup.sublist ((List.filter_sublist (l := subs)).map _) h

end HappyModel.C19
