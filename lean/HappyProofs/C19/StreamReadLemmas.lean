import HappyModel.C19.ReadSpec
import HappyProofs.C19.StreamLog
/-!
# C19 — what a read returns: list lemmas

The offsets of a partition are the run `hw - length … hw - 1` (`OkFrom`), the lower bound of a read
keeps the run from `max off lo`, the limit keeps its first `min m count` elements — which is how
the Spec (`RSt.expRead`) words "the retained records with offset ≥ o, the first min(m, count)".
-/
namespace HappyModel.C19

theorem OkFrom.length_le {hw : Nat} {l : List SRec} (h : OkFrom hw l) : l.length ≤ hw := by
  cases l with
  | nil => exact Nat.zero_le _
  | cons a rest => have := h.1; simp only [List.length_cons]; omega

/-- the retained offsets of a partition are one contiguous run ending just below the high watermark -/
theorem OkFrom.map_off {hw : Nat} {l : List SRec} (h : OkFrom hw l) :
    l.map (·.off) = List.range' (hw - l.length) l.length := by
  induction l with
  | nil => rfl
  | cons a rest ih =>
    obtain ⟨h1, h2⟩ := h
    have hl := h2.length_le
    rw [List.map_cons, ih h2, List.length_cons, List.range'_succ]
    have e1 : a.off = hw - (rest.length + 1) := by omega
    have e2 : hw - (rest.length + 1) + 1 = hw - rest.length := by omega
    rw [e1, e2]

theorem filter_range'_ge (a k off : Nat) :
    (List.range' a k).filter (fun x => decide (off ≤ x)) = List.range' (max off a) (a + k - max off a) := by
  induction k generalizing a with
  | zero =>
    have : a + 0 - max off a = 0 := by omega
    rw [this]; rfl
  | succ k ih =>
    rw [List.range'_succ]
    by_cases h : off ≤ a
    · rw [List.filter_cons_of_pos (by simpa using h), ih]
      have e1 : max off (a + 1) = a + 1 := by omega
      have e2 : max off a = a := by omega
      rw [e1, e2]
      have e3 : a + 1 + k - (a + 1) = k := by omega
      have e4 : a + (k + 1) - a = k + 1 := by omega
      rw [e3, e4, List.range'_succ]
    · rw [List.filter_cons_of_neg (by simpa using h), ih]
      have e1 : max off (a + 1) = max off a := by omega
      rw [e1]
      have e2 : a + 1 + k = a + (k + 1) := by omega
      rw [e2]

theorem take_range' (a k m : Nat) : (List.range' a k).take m = List.range' a (min m k) := by
  induction k generalizing a m with
  | zero => rw [Nat.min_zero]; simp
  | succ k ih =>
    cases m with
    | zero => rw [Nat.zero_min]; simp
    | succ m =>
      rw [List.range'_succ, List.take_succ_cons, ih]
      have : min (m + 1) (k + 1) = min m k + 1 := by omega
      rw [this, List.range'_succ]

/-- filter by a lower bound, take a limit, project the offsets -/
theorem read_offsets {hw : Nat} {l : List SRec} (h : OkFrom hw l) (off m : Nat) :
    ((l.filter (fun r => decide (off ≤ r.off))).take m).map (·.off) =
      List.range' (max off (hw - l.length)) (min m (hw - max off (hw - l.length))) := by
  have hf : l.filter (fun r => decide (off ≤ r.off)) =
      l.filter ((fun x => decide (off ≤ x)) ∘ (fun r : SRec => r.off)) := rfl
  rw [List.map_take, hf, ← List.filter_map, h.map_off, filter_range'_ge, take_range']
  have hl := h.length_le
  have : hw - l.length + l.length = hw := by omega
  rw [this]

/-- `readPart` in the Spec's words -/
theorem readPart_eq (cfg : SCfg) (s : Stream) (j : RSt) (p off m : Nat)
    (hok : p < cfg.n → OkFrom (s.hwOf p) (s.part p))
    (hnx : j.nextOf p = s.hwOf p) (hlo : p < cfg.n → j.loOf p + (s.part p).length = s.hwOf p) :
    s.readPart cfg p off m = j.expRead cfg.n p off (if m = 0 then 1 else m) := by
  unfold Stream.readPart RSt.expRead
  by_cases hp : p < cfg.n
  · rw [if_pos hp, if_pos hp]
    have e : (fun r : SRec => (p, r.off)) = (fun o => (p, o)) ∘ (fun r : SRec => r.off) := rfl
    rw [e, ← List.map_map, read_offsets (hok hp), hnx]
    have : s.hwOf p - (s.part p).length = j.loOf p := by have := hlo hp; omega
    rw [this]
  · rw [if_neg hp, if_neg hp]

theorem lookup_getD_eq (l : List ((Nat × Nat) × Nat)) (c p : Nat) :
    lastOf l c p = (l.lookup (c, p)).getD 0 := rfl

/-- a poll in the Spec's words -/
theorem pollGo_eq (cfg : SCfg) (s : Stream) (j : RSt) (c max : Nat)
    (hok : ∀ p, p < cfg.n → OkFrom (s.hwOf p) (s.part p))
    (hnx : ∀ p, j.nextOf p = s.hwOf p)
    (hlo : ∀ p, p < cfg.n → j.loOf p + (s.part p).length = s.hwOf p)
    (hcom : j.com = s.committed) (ps : List Nat) (acc : List (Nat × Nat)) :
    Stream.pollGo cfg s c max ps acc = RSt.expPoll cfg.n j c max ps acc := by
  induction ps generalizing acc with
  | nil => rfl
  | cons p ps ih =>
    simp only [Stream.pollGo, RSt.expPoll]
    split
    · rfl
    · next hlt =>
      have hm : (if max - acc.length = 0 then 1 else max - acc.length) = max - acc.length := by
        rw [if_neg (by omega)]
      rw [readPart_eq cfg s j p _ _ (hok p) (hnx p) (hlo p), hm, ih]
      have : s.committedOf c p = lastOf j.com c p := by rw [hcom]; rfl
      rw [this]

/-- `(List.range n).map f` read at an index below `n` -/
theorem getD_map_range (n p : Nat) (f : Nat → Nat) (h : p < n) :
    ((List.range n).map f).getD p 0 = f p := by
  simp [List.getD_eq_getElem?_getD, h]

theorem kept_getD (s : Stream) (p : Nat) : s.kept.getD p [] = (s.part p).map (·.off) := by
  simp only [Stream.kept, Stream.part, List.getD_eq_getElem?_getD, List.getElem?_map]
  cases s.parts[p]? <;> rfl

theorem kept_total (s : Stream) : (s.kept.map List.length).sum = s.total := by
  simp only [Stream.kept, Stream.total, List.map_map]
  congr 1
  apply List.map_congr_left
  intro l _
  simp

/-- without the legacy overwrite a commit records the largest offset -/
theorem commit_noteMax (cfg : SCfg) (hc : cfg.legacyCommit = false) (s : Stream) (c : Nat)
    (offs : List (Nat × Nat)) : (s.commit cfg c offs).committed = noteMax s.committed c offs := by
  induction offs generalizing s with
  | nil => rfl
  | cons po rest ih =>
    rw [Stream.commit, ih, noteMax]
    simp only [Stream.commitOne, hc, Bool.false_eq_true, if_false]
    rfl

end HappyModel.C19
