import HappyProofs.C19.WinAssign
import HappyProofs.C19.WinFire
/-!
One action of the tumbling / sliding model against the core judge: all clauses hold and the relation
between the model state and the judge's bookkeeping is preserved.
-/
namespace HappyModel.C19.Win

/-- model state ↔ judge bookkeeping -/
def R (s : St) (j : JSt) : Prop :=
  s.wm = j.wm ∧ s.fly = j.fly ∧ s.ep = j.ep ∧ s.we = j.we ∧ s.le = j.le ∧ s.ld = j.ld ∧ s.lu = j.lu ∧
  s.ls = j.ls ∧ j.le = j.ld + j.lu + j.ls ∧ WinRel s.wins j.obl

theorem R_init : R {} {} := ⟨rfl, rfl, rfl, rfl, rfl, rfl, rfl, rfl, rfl, winRel_nil⟩

/-- schedule well-formedness (engine facts): a `LateEvent` is delivered only if one with that record
is in flight, and none is in flight when the run ends -/
def legitLine (s : St) (ln : Line) : Bool :=
  match ln.act with
  | .lateRecv id => (s.fly.find? fun r => r.id == id).isSome
  | .fin => s.fly.isEmpty
  | _ => true

def legit (cfg : Cfg) : St → List Line → Bool
  | _, [] => true
  | s, ln :: rest => legitLine s ln && legit cfg (step cfg s ln).1 rest

theorem statChecks_ok (s : St) (j : JSt) (h : R s j) : ∀ c ∈ statChecks j s.stats, c.1 = true := by
  obtain ⟨hwm, _, hep, hwe, hle, hld, hlu, hls, hsum, _⟩ := h
  intro c hc
  simp only [statChecks, List.mem_cons, List.not_mem_nil, or_false] at hc
  rcases hc with hc | hc | hc
  · subst hc; simp [countersOk, St.stats, hep, hwe, hle, hld, hlu, hls]
  · subst hc; simp [St.stats, hle, hld, hlu, hls]; exact hsum
  · subst hc; simp [St.stats, hwm]

section startDaemon
variable (cfg : Cfg) (t : Nat) (r : Rec) (s : St)
@[simp] theorem startDaemon_wins : (startDaemon cfg t r s).wins = s.wins := by unfold startDaemon; split <;> rfl
@[simp] theorem startDaemon_wm : (startDaemon cfg t r s).wm = s.wm := by unfold startDaemon; split <;> rfl
@[simp] theorem startDaemon_fly : (startDaemon cfg t r s).fly = s.fly := by unfold startDaemon; split <;> rfl
@[simp] theorem startDaemon_ep : (startDaemon cfg t r s).ep = s.ep := by unfold startDaemon; split <;> rfl
@[simp] theorem startDaemon_we : (startDaemon cfg t r s).we = s.we := by unfold startDaemon; split <;> rfl
@[simp] theorem startDaemon_le : (startDaemon cfg t r s).le = s.le := by unfold startDaemon; split <;> rfl
@[simp] theorem startDaemon_ld : (startDaemon cfg t r s).ld = s.ld := by unfold startDaemon; split <;> rfl
@[simp] theorem startDaemon_lu : (startDaemon cfg t r s).lu = s.lu := by unfold startDaemon; split <;> rfl
@[simp] theorem startDaemon_ls : (startDaemon cfg t r s).ls = s.ls := by unfold startDaemon; split <;> rfl
end startDaemon

theorem addWindows_rel (cfg : Cfg) (hk : cfg.kind ≠ 2) (hs : cfg.kind = 0 ∨ 0 < cfg.slide) (r : Rec)
    (wins : List Win) (obl : List Obl) (h : WinRel wins obl) :
    WinRel (addWindows cfg r wins) (obl ++ (specWindows cfg r.et).map (mkObl r)) := by
  simp only [addWindows, hk, if_false]
  rw [assign_eq_specWindows cfg r.et hs]
  exact addAll_rel r _ _ _ h

theorem stepProc_ok (cfg : Cfg) (hk : cfg.kind ≠ 2) (hs : cfg.kind = 0 ∨ 0 < cfg.slide) (t : Nat) (r : Rec)
    (s : St) (j : JSt) (h : R s j) :
    (stepProc cfg t r s).2 = expStatus cfg j r ∧ R (stepProc cfg t r s).1 (afterProc cfg t j r) := by
  obtain ⟨hwm, hfly, hep, hwe, hle, hld, hlu, hls, hsum, hwin⟩ := h
  have hk2 : (cfg.kind == 2) = false := by simp [hk]
  by_cases hl : r.et + cfg.late < j.wm
  · by_cases hp0 : cfg.policy = 0
    · refine ⟨by simp [stepProc, isLate, hwm, hl, hp0, expStatus, lateExp], ?_⟩
      simp [R, stepProc, isLate, hwm, hl, hp0, afterProc, expStatus, lateExp, accepted, hfly, hep, hwe, hle,
        hld, hlu, hls]
      exact ⟨by omega, hwin⟩
    · by_cases hp1 : cfg.policy = 1
      · refine ⟨by simp [stepProc, isLate, hwm, hl, hp1, expStatus, lateExp], ?_⟩
        simp [R, stepProc, isLate, hwm, hl, hp1, afterProc, expStatus, lateExp, accepted, hfly, hep, hwe, hle,
          hld, hlu, hls]
        exact ⟨by omega, hwin⟩
      · have hp2 : 2 ≤ cfg.policy := by omega
        have hmin : min cfg.policy 2 = 2 := by omega
        refine ⟨by simp [stepProc, isLate, hwm, hl, hp0, hp1, expStatus, lateExp, hmin], ?_⟩
        have hw := addWindows_rel cfg hk hs r s.wins j.obl hwin
        simp [R, stepProc, isLate, hwm, hl, hp0, hp1, afterProc, expStatus, lateExp, accepted, hfly, hep, hwe,
          hle, hld, hlu, hls, hmin, hp2, hk2]
        exact ⟨by omega, hw⟩
  · refine ⟨by simp [stepProc, isLate, hwm, hl, expStatus, lateExp], ?_⟩
    have hw := addWindows_rel cfg hk hs r s.wins j.obl hwin
    simp [R, stepProc, isLate, hwm, hl, afterProc, expStatus, lateExp, accepted, hfly, hep, hwe, hle, hld, hlu,
      hls, hk2]
    exact ⟨hsum, hw⟩

theorem stepWmA_ok (t : Nat) (ext : Bool) (w : Nat) (s : St) (j : JSt) (h : R s j) :
    R (stepWmA t ext w s).1 { j with wm := max j.wm w } := by
  obtain ⟨hwm, hfly, hep, hwe, hle, hld, hlu, hls, hsum, hwin⟩ := h
  unfold stepWmA
  cases ext with
  | true => exact ⟨by simp [hwm], hfly, hep, hwe, hle, hld, hlu, hls, hsum, hwin⟩
  | false =>
    by_cases hc : s.wq.contains (t, w) = true
    · simp only [Bool.false_eq_true, if_false, hc, if_true]
      exact ⟨by simp [hwm], hfly, hep, hwe, hle, hld, hlu, hls, hsum, hwin⟩
    · simp only [Bool.false_eq_true, if_false, hc]
      exact ⟨by simp [hwm], hfly, hep, hwe, hle, hld, hlu, hls, hsum, hwin⟩

theorem stepWmB_ok (cfg : Cfg) (hk : cfg.kind ≠ 2) (t : Nat) (s : St) (j : JSt) (h : R s j) :
    (stepWmB cfg t s).2 = (s.wins.filter (closable j.wm)).map toEm ∧
    R (stepWmB cfg t s).1 (afterFire cfg t j (stepWmB cfg t s).2) := by
  obtain ⟨hwm, hfly, hep, hwe, hle, hld, hlu, hls, hsum, hwin⟩ := h
  have hk2 : (cfg.kind == 2) = false := by simp [hk]
  refine ⟨by simp [stepWmB, hwm], ?_⟩
  have hw := fire_rel j.wm s.wins j.obl hwin
  simp only [R, stepWmB, afterFire, hk, if_false, hk2, hwm]
  exact ⟨trivial, hfly, hep, by simp [hwe], hle, hld, hlu, hls, hsum, hw⟩

/-- one action: the judge's core clauses accept the model's output, and the relation is kept -/
theorem step_ok (cfg : Cfg) (hk : cfg.kind ≠ 2) (hs : cfg.kind = 0 ∨ 0 < cfg.slide) (s : St) (j : JSt)
    (ln : Line) (h : R s j) (hl : legitLine s ln = true) :
    firstFail (coreChecks cfg j ln (step cfg s ln).2) = none ∧
    R (step cfg s ln).1 (after cfg j ln (step cfg s ln).2) := by
  obtain ⟨t, act⟩ := ln
  cases act with
  | proc r =>
    obtain ⟨hst, hR⟩ := stepProc_ok cfg hk hs t r s j h
    refine ⟨?_, by simpa [step, after] using hR⟩
    apply firstFail_none
    intro c hc
    simp only [step, coreChecks, after, List.mem_cons] at hc
    rcases hc with hc | hc
    · subst hc; simp [hst]
    · exact statChecks_ok _ _ hR c hc
  | wmA ext w =>
    have hR := stepWmA_ok t ext w s j h
    refine ⟨?_, by simpa [step, after] using hR⟩
    apply firstFail_none
    intro c hc
    simp only [step, coreChecks, after] at hc
    exact statChecks_ok _ _ hR c hc
  | wmB =>
    obtain ⟨hems, hR⟩ := stepWmB_ok cfg hk t s j h
    have hk2 : (cfg.kind == 2) = false := by simp [hk]
    refine ⟨?_, by simpa [step, after] using hR⟩
    apply firstFail_none
    intro c hc
    simp only [step, coreChecks, after, hk2, Bool.false_eq_true, if_false, List.mem_append] at hc
    rcases hc with hc | hc
    · rw [hems] at hc
      exact fire_checks j s.wins h.2.2.2.2.2.2.2.2.2 c hc
    · exact statChecks_ok _ _ hR c hc
  | lateRecv id =>
    obtain ⟨hwm, hfly, hep, hwe, hle, hld, hlu, hls, hsum, hwin⟩ := h
    simp only [legitLine] at hl
    cases hf : s.fly.find? (fun r => r.id == id) with
    | none => rw [hf] at hl; exact absurd hl (by decide)
    | some r =>
      have hmem := List.mem_of_find?_eq_some hf
      have hid : (r.id == id) = true := by simpa using List.find?_some hf
      refine ⟨?_, ?_⟩
      · apply firstFail_none
        intro c hc
        simp only [step, stepLate, hf, coreChecks, List.mem_cons, List.not_mem_nil, or_false] at hc
        subst hc
        simp only [Bool.true_and, List.any_eq_true]
        exact ⟨r, hfly ▸ hmem, by simp [hid]⟩
      · simp only [step, stepLate, hf, after]
        exact ⟨hwm, by simp [hfly], hep, hwe, hle, hld, hlu, hls, hsum, hwin⟩
  | fin =>
    simp only [legitLine] at hl
    refine ⟨?_, by simpa [step, after] using h⟩
    apply firstFail_none
    intro c hc
    simp only [step, coreChecks, List.mem_cons] at hc
    rcases hc with hc | hc
    · subst hc
      have hfly := h.2.1
      have : s.fly = [] := by simpa using hl
      simp [← hfly, this]
    · exact statChecks_ok _ _ h c hc

end HappyModel.C19.Win
