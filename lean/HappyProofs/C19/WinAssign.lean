import HappyModel.C19.Win
/-!
Window assignment: the code's loops (`assign`) against the definition (`specWindows`).
-/
namespace HappyModel.C19.Win

theorem div_mul_le' (a b : Nat) : a / b * b ≤ a := Nat.div_mul_le_self a b

theorem lt_div_mul_add' (a b : Nat) (hb : 0 < b) : a < a / b * b + b := by
  have h1 := Nat.div_add_mod a b
  have h2 := Nat.mod_lt a hb
  have h3 : b * (a / b) = a / b * b := Nat.mul_comm _ _
  omega

/-- a tumbling window processor puts an event time into exactly one window: the size-aligned one
that contains it -/
theorem tumbling_assigns_exactly_one (cfg : Cfg) (et : Nat) (hk : cfg.kind = 0) (hs : 0 < cfg.size) :
    ∃ s, assign cfg et = [(s, s + cfg.size)] ∧ s ≤ et ∧ et < s + cfg.size ∧ cfg.size ∣ s := by
  refine ⟨et / cfg.size * cfg.size, ?_, div_mul_le' _ _, lt_div_mul_add' _ _ hs, Nat.dvd_mul_left _ _⟩
  simp [assign, hk]

example : assign { kind := 0, size := 4, slide := 0, gap := 0, late := 0, policy := 0, side := false, interval := 1 } 11
    = [(8, 12)] := by decide

/-- membership in `specWindows` for sliding windows is the definition of "the window contains `et`" -/
theorem mem_specWindows_iff (cfg : Cfg) (et s e : Nat) (hk : cfg.kind ≠ 0) (hs : 0 < cfg.slide) :
    (s, e) ∈ specWindows cfg et ↔ (∃ j, s = j * cfg.slide) ∧ e = s + cfg.size ∧ s ≤ et ∧ et < e := by
  simp only [specWindows, hk, if_false, List.mem_map, List.mem_filter, List.mem_range, decide_eq_true_eq,
    Prod.mk.injEq]
  constructor
  · rintro ⟨j, ⟨hj, hlt⟩, rfl, rfl⟩
    refine ⟨⟨j, rfl⟩, rfl, ?_, hlt⟩
    have := (Nat.le_div_iff_mul_le hs).mp (Nat.lt_succ_iff.mp hj)
    exact this
  · rintro ⟨⟨j, rfl⟩, rfl, hle, hlt⟩
    exact ⟨j, ⟨Nat.lt_succ_iff.mpr ((Nat.le_div_iff_mul_le hs).mpr hle), hlt⟩, rfl, rfl⟩

example : specWindows { kind := 1, size := 4, slide := 2, gap := 0, late := 0, policy := 0, side := false, interval := 1 } 7
    = [(4, 8), (6, 10)] := by decide

/-! ### the code's loop computes `specWindows` -/

theorem filter_range_eq_nil (P : Nat → Bool) (hmono : ∀ j, P j = true → P (j + 1) = true) :
    ∀ n, P n = false → (List.range (n + 1)).filter P = [] := by
  intro n
  induction n with
  | zero => intro h; simp [List.range_succ, h]
  | succ m ih =>
    intro h
    have hm : P m = false := by
      cases hpm : P m with
      | false => rfl
      | true => rw [hmono m hpm] at h; exact absurd h (by decide)
    rw [List.range_succ, List.filter_append, ih hm]
    simp [h]

theorem slideLoop_succ (size slide et f start : Nat) :
    slideLoop size slide et (f + 1) start =
      if et < start + size then
        start :: (if start < slide then [] else slideLoop size slide et f (start - slide))
      else [] := rfl

theorem slideLoop_eq (size slide et : Nat) (hs : 0 < slide) :
    ∀ n, (slideLoop size slide et (n + 1) (n * slide)).reverse =
      ((List.range (n + 1)).filter fun j => decide (et < j * slide + size)).map (· * slide) := by
  have hmono : ∀ j, decide (et < j * slide + size) = true → decide (et < (j + 1) * slide + size) = true := by
    intro j h
    have h' := of_decide_eq_true h
    have : (j + 1) * slide = j * slide + slide := Nat.succ_mul j slide
    exact decide_eq_true (by omega)
  intro n
  induction n with
  | zero =>
    by_cases h : et < size
    · simp [slideLoop, h, hs, List.range_succ]
    · simp [slideLoop, h, List.range_succ]
  | succ m ih =>
    by_cases h : et < (m + 1) * slide + size
    · have hge : ¬ (m + 1) * slide < slide := by
        have : (m + 1) * slide = m * slide + slide := Nat.succ_mul m slide
        omega
      have hsub : (m + 1) * slide - slide = m * slide := by
        have : (m + 1) * slide = m * slide + slide := Nat.succ_mul m slide
        omega
      rw [List.range_succ (n := m + 1), List.filter_append, List.map_append, slideLoop_succ]
      simp only [h, if_true, hge, if_false, hsub, List.reverse_cons, ih]
      simp [h]
    · have hf : (fun j => decide (et < j * slide + size)) (m + 1) = false := by simp [h]
      rw [filter_range_eq_nil _ hmono (m + 1) hf, slideLoop_succ]
      simp [h]

/-- for every event time the windows the code's `assign_windows` returns are exactly the windows that
contain it (same list, ascending) -/
theorem assign_eq_specWindows (cfg : Cfg) (et : Nat) (hs : cfg.kind = 0 ∨ 0 < cfg.slide) :
    assign cfg et = specWindows cfg et := by
  by_cases hk : cfg.kind = 0
  · simp [assign, specWindows, hk]
  · have hs' : 0 < cfg.slide := by cases hs with
      | inl h => exact absurd h hk
      | inr h => exact h
    simp only [assign, specWindows, hk, if_false]
    rw [slideLoop_eq cfg.size cfg.slide et hs' (et / cfg.slide)]
    simp [List.map_map, Function.comp_def]

/-! ### how many windows -/

theorem filter_ge_range_length (a : Nat) : ∀ n, ((List.range n).filter fun j => decide (a ≤ j)).length = n - a := by
  intro n
  induction n with
  | zero => simp
  | succ m ih =>
    rw [List.range_succ, List.filter_append, List.length_append, ih]
    by_cases h : a ≤ m
    · simp [h]; omega
    · simp [h]; omega

/-- a sliding window whose size is `m` slides puts every event time (late enough that no window would
start before 0) into exactly `m = size / slide` windows -/
theorem sliding_assigns_size_div_slide (cfg : Cfg) (et m : Nat) (hk : cfg.kind ≠ 0) (hs : 0 < cfg.slide)
    (hm : cfg.size = m * cfg.slide) (hearly : cfg.size ≤ et + cfg.slide) :
    (assign cfg et).length = m := by
  rw [assign_eq_specWindows cfg et (Or.inr hs)]
  simp only [specWindows, hk, if_false, List.length_map]
  have hq : m ≤ et / cfg.slide + 1 := by
    rcases Nat.eq_zero_or_pos m with h0 | hpos
    · rw [h0]; exact Nat.zero_le _
    · have h1 : (m - 1) * cfg.slide ≤ et := by
        have : m * cfg.slide = (m - 1) * cfg.slide + cfg.slide := by
          have : m = (m - 1) + 1 := by omega
          conv => lhs; rw [this, Nat.succ_mul]
        omega
      have := (Nat.le_div_iff_mul_le hs).mpr h1
      generalize et / cfg.slide = q at this ⊢
      omega
  have hP : (fun j => decide (et < j * cfg.slide + cfg.size)) =
      fun j => decide (et / cfg.slide + 1 - m ≤ j) := by
    funext j
    have e1 : j * cfg.slide + cfg.size = (j + m) * cfg.slide := by rw [hm, Nat.add_mul]
    have e2 : et < (j + m) * cfg.slide ↔ et / cfg.slide < j + m := (Nat.div_lt_iff_lt_mul hs).symm
    rw [e1]
    generalize et / cfg.slide = q at e2 hq ⊢
    by_cases h : q < j + m
    · have h2 : q + 1 - m ≤ j := by omega
      simp [e2.mpr h, h2]
    · have h2 : ¬ q + 1 - m ≤ j := by omega
      have h3 : ¬ et < (j + m) * cfg.slide := fun hh => h (e2.mp hh)
      simp [h3, h2]
  rw [hP, filter_ge_range_length]
  generalize et / cfg.slide = q at hq ⊢
  omega

example : (assign { kind := 1, size := 6, slide := 2, gap := 0, late := 0, policy := 0, side := false, interval := 1 } 9).length = 3 := by
  decide

/-- early event times belong to fewer windows (the code stops at a negative start) -/
example : (assign { kind := 1, size := 6, slide := 2, gap := 0, late := 0, policy := 0, side := false, interval := 1 } 1).length = 1 := by
  decide

end HappyModel.C19.Win
