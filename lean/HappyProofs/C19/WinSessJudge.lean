import HappyProofs.C19.WinSessConn
import HappyProofs.C19.WinFull
/-!
Session windows against the *extra* clauses of the judge: every emitted session consists of pending records of its
key, spans `[min et, max et + gap]`, is gap-connected and maximal; after a firing no closed session is left;
`active_windows` is the number of gap groups of the pending records.

`RS` relates the model state to the judge's bookkeeping: the judge's pending records are, as a multiset, the
records of the model's sessions; ids of pending records are distinct (a hypothesis on the schedule: record ids are
distinct — the judge identifies the members of an emitted session by id).
-/
namespace HappyModel.C19.Win
set_option linter.unusedVariables false

/-! ### small facts about the judge's helper functions -/

theorem hasSucc_iff (gap : Nat) (l : List Rec) (r : Rec) :
    hasSucc gap l r = true ↔ ∃ r' ∈ l, r'.key = r.key ∧ r.et < r'.et ∧ r'.et ≤ r.et + gap := by
  simp [hasSucc, and_assoc]

theorem foldl_max_ge (l : List Rec) : ∀ a : Nat, a ≤ l.foldl (fun m x => max m x.et) a ∧
    ∀ r ∈ l, r.et ≤ l.foldl (fun m x => max m x.et) a := by
  induction l with
  | nil => intro a; simp
  | cons x l ih =>
    intro a
    simp only [List.foldl_cons, List.mem_cons]
    have h := ih (max a x.et)
    refine ⟨by omega, ?_⟩
    rintro r (rfl | hr)
    · omega
    · exact h.2 r hr

theorem foldl_max_le (l : List Rec) (M : Nat) (h : ∀ r ∈ l, r.et ≤ M) : ∀ a : Nat, a ≤ M →
    l.foldl (fun m x => max m x.et) a ≤ M := by
  induction l with
  | nil => intro a ha; simpa
  | cons x l ih =>
    intro a ha
    simp only [List.foldl_cons]
    exact ih (fun r hr => h r (List.mem_cons_of_mem _ hr)) _ (by have := h x (by simp); omega)

theorem maxEt_eq (l : List Rec) (M : Nat) (h1 : ∀ r ∈ l, r.et ≤ M) (h2 : ∃ r ∈ l, r.et = M) : maxEt l = M := by
  obtain ⟨r, hr, rfl⟩ := h2
  have a := (foldl_max_ge l 0).2 r hr
  have b := foldl_max_le l r.et h1 0 (Nat.zero_le _)
  unfold maxEt; omega

theorem foldl_min_le (l : List Rec) : ∀ a : Nat, l.foldl (fun m x => min m x.et) a ≤ a ∧
    ∀ r ∈ l, l.foldl (fun m x => min m x.et) a ≤ r.et := by
  induction l with
  | nil => intro a; simp
  | cons x l ih =>
    intro a
    simp only [List.foldl_cons, List.mem_cons]
    have h := ih (min a x.et)
    refine ⟨by omega, ?_⟩
    rintro r (rfl | hr)
    · omega
    · exact h.2 r hr

theorem foldl_min_ge (l : List Rec) (m : Nat) (h : ∀ r ∈ l, m ≤ r.et) : ∀ a : Nat, m ≤ a →
    m ≤ l.foldl (fun m x => min m x.et) a := by
  induction l with
  | nil => intro a ha; simpa
  | cons x l ih =>
    intro a ha
    simp only [List.foldl_cons]
    exact ih (fun r hr => h r (List.mem_cons_of_mem _ hr)) _ (by have := h x (by simp); omega)

theorem minEt_eq (l : List Rec) (m : Nat) (h1 : ∀ r ∈ l, m ≤ r.et) (h2 : ∃ r ∈ l, r.et = m) : minEt l = m := by
  obtain ⟨r, hr, rfl⟩ := h2
  cases l with
  | nil => cases hr
  | cons x l =>
    simp only [minEt]
    have a := foldl_min_le l x.et
    have b := foldl_min_ge l r.et (fun y hy => h1 y (List.mem_cons_of_mem _ hy)) x.et (h1 x (by simp))
    rcases List.mem_cons.1 hr with rfl | hr
    · omega
    · have := a.2 r hr; omega

theorem insertNat_comm (a b : Nat) : ∀ l : List Nat, insertNat a (insertNat b l) = insertNat b (insertNat a l) := by
  intro l
  induction l with
  | nil =>
    simp only [insertNat]
    by_cases h1 : a ≤ b <;> by_cases h2 : b ≤ a <;> simp [h1, h2]
    all_goals omega
  | cons c l ih =>
    simp only [insertNat]
    by_cases h1 : a ≤ c <;> by_cases h2 : b ≤ c <;> by_cases h3 : a ≤ b <;> by_cases h4 : b ≤ a <;>
      simp [insertNat, h1, h2, h3, h4, ih] <;> omega

theorem sortNat_perm {l1 l2 : List Nat} (h : l1.Perm l2) : sortNat l1 = sortNat l2 := by
  induction h using List.Perm.recOnSwap' with
  | nil => rfl
  | cons x _ ih => simp [sortNat, ih]
  | swap' x y _ ih => simp only [sortNat, ih]; exact insertNat_comm _ _ _
  | trans _ _ ih1 ih2 => exact ih1.trans ih2

theorem sumVals_perm {l1 l2 : List Rec} (h : l1.Perm l2) : sumVals l1 = sumVals l2 :=
  List.Perm.sum_nat (h.map _)

theorem mem_recsOf (r : Rec) (wins : List Win) : r ∈ recsOf wins ↔ ∃ w ∈ wins, r ∈ w.recs := by
  simp [recsOf, List.mem_flatMap]

theorem sepKey_symm {a b : Win} (h : sepKey a b) : sepKey b a := by
  intro hk; rcases h hk.symm with h | h
  · exact Or.inr h
  · exact Or.inl h

/-! ### one emitted session -/

/-- the judge's membership test for an emitted session -/
def memTest (w : Win) (r : Rec) : Bool := r.key == w.key && (w.recs.map (·.id)).contains r.id

theorem split_members (w : Win) (X pend : List Rec) (hp : pend.Perm (w.recs ++ X))
    (hid : (pend.map (·.id)).Nodup) (hk : ∀ r ∈ w.recs, r.key = w.key) :
    (pend.filter (memTest w)).Perm w.recs ∧ (pend.filter fun r => !memTest w r).Perm X := by
  have hnd : ((w.recs ++ X).map (·.id)).Nodup := (List.Perm.nodup_iff (hp.map _)).1 hid
  rw [List.map_append, List.nodup_append] at hnd
  have hin : ∀ r ∈ w.recs, memTest w r = true := by
    intro r hr
    simp only [memTest, Bool.and_eq_true, beq_iff_eq, List.contains_eq_mem, List.mem_map, decide_eq_true_eq]
    exact ⟨hk r hr, r, hr, rfl⟩
  have hout : ∀ x ∈ X, memTest w x = false := by
    intro x hx
    cases hm : memTest w x with
    | false => rfl
    | true =>
      simp only [memTest, Bool.and_eq_true, beq_iff_eq, List.contains_eq_mem, List.mem_map, decide_eq_true_eq] at hm
      obtain ⟨_, y, hy, hyx⟩ := hm
      exact absurd hyx (hnd.2.2 y.id (List.mem_map.2 ⟨y, hy, rfl⟩) x.id (List.mem_map.2 ⟨x, hx, rfl⟩))
  have e1 : w.recs.filter (memTest w) = w.recs := List.filter_eq_self.2 hin
  have e2 : X.filter (memTest w) = [] := List.filter_eq_nil_iff.2 (fun x hx => by simp [hout x hx])
  have e3 : w.recs.filter (fun r => !memTest w r) = [] := List.filter_eq_nil_iff.2 (fun x hx => by simp [hin x hx])
  have e4 : X.filter (fun r => !memTest w r) = X := List.filter_eq_self.2 (fun x hx => by simp [hout x hx])
  constructor
  · have := hp.filter (memTest w)
    rw [List.filter_append, e1, e2, List.append_nil] at this
    exact this
  · have := hp.filter (fun r => !memTest w r)
    rw [List.filter_append, e3, e4, List.nil_append] at this
    exact this

theorem sessEm_members (cfg : Cfg) (j : JSt) (pend : List Rec) (w : Win) :
    (sessEm cfg j pend (toEm w)).2 = pend.filter (fun r => !memTest w r) := rfl

/-- all six clauses for one emitted session -/
theorem sessEm_ok (cfg : Cfg) (j : JSt) (pend X : List Rec) (w : Win) (others : List Win)
    (hp : pend.Perm (w.recs ++ X)) (hX : ∀ x ∈ X, ∃ w' ∈ others, x ∈ w'.recs)
    (hid : (pend.map (·.id)).Nodup) (g : GoodS cfg.gap w) (go : ∀ w' ∈ others, GoodS cfg.gap w')
    (hsep : ∀ w' ∈ others, sepKey w w') (hcl : w.e ≤ j.wm) :
    (∀ c ∈ (sessEm cfg j pend (toEm w)).1, c.1 = true) ∧ (sessEm cfg j pend (toEm w)).2.Perm X := by
  obtain ⟨hm, hr⟩ := split_members w X pend hp hid g.keys
  refine ⟨?_, hr⟩
  have hmem : ∀ r, r ∈ pend.filter (memTest w) ↔ r ∈ w.recs := fun r => hm.mem_iff
  obtain ⟨rl, hrl, hlo⟩ := g.lo
  obtain ⟨rh, hrh, hhi⟩ := g.hi
  intro c hc
  have hc' : c ∈ [(decide (w.e ≤ j.wm), "win/emit/window-emitted-before-watermark"),
      (!(pend.filter (memTest w)).isEmpty && sortNat (w.recs.map (·.id)) == sortNat ((pend.filter (memTest w)).map (·.id)),
        "win/session/records-not-pending-records-of-the-key"),
      (w.recs.length == (pend.filter (memTest w)).length && sumVals w.recs == sumVals (pend.filter (memTest w)),
        "win/emit/aggregate-wrong"),
      (w.s == minEt (pend.filter (memTest w)) && w.e == maxEt (pend.filter (memTest w)) + cfg.gap,
        "win/session/bounds-do-not-span-the-records"),
      ((pend.filter (memTest w)).all (fun m => m.et + cfg.gap == w.e || hasSucc cfg.gap (pend.filter (memTest w)) m),
        "win/session/records-further-apart-than-the-gap-merged"),
      ((pend.filter fun r => !memTest w r).all
        (fun r => !(r.key == w.key) || decide (r.et + cfg.gap < w.s) || decide (w.e < r.et)),
        "win/session/record-within-gap-left-out")] := hc
  simp only [List.mem_cons, List.not_mem_nil, or_false] at hc'
  rcases hc' with rfl | rfl | rfl | rfl | rfl | rfl
  · simp [hcl]
  · have hne : (pend.filter (memTest w)) ≠ [] := by
      intro h
      have := (hmem rl).2 hrl
      rw [h] at this; cases this
    simp only [Bool.and_eq_true, Bool.not_eq_true', List.isEmpty_eq_false_iff, beq_iff_eq]
    exact ⟨hne, sortNat_perm (hm.symm.map _)⟩
  · simp only [Bool.and_eq_true, beq_iff_eq]
    exact ⟨hm.length_eq.symm, sumVals_perm hm.symm⟩
  · simp only [Bool.and_eq_true, beq_iff_eq]
    constructor
    · exact (minEt_eq _ _ (fun r hr => (g.bnd r ((hmem r).1 hr)).1) ⟨rl, (hmem rl).2 hrl, hlo⟩).symm
    · have := maxEt_eq (pend.filter (memTest w)) (w.e - cfg.gap)
        (fun r hr => by have := (g.bnd r ((hmem r).1 hr)).2; omega) ⟨rh, (hmem rh).2 hrh, by omega⟩
      rw [this]; omega
  · simp only [List.all_eq_true, Bool.or_eq_true, beq_iff_eq]
    intro m hmm
    rcases g.conn m ((hmem m).1 hmm) with h | ⟨r', hr', h1, h2⟩
    · exact Or.inl h
    · right
      rw [hasSucc_iff]
      exact ⟨r', (hmem r').2 hr', (g.keys r' hr').trans (g.keys m ((hmem m).1 hmm)).symm, h1, h2⟩
  · simp only [List.all_eq_true, Bool.or_eq_true, Bool.not_eq_true', beq_eq_false_iff_ne, ne_eq, decide_eq_true_eq]
    intro r hrr
    obtain ⟨w', hw', hrw'⟩ := hX r (hr.mem_iff.1 hrr)
    by_cases hk : r.key = w.key
    · have gk := (go w' hw').keys r hrw'
      have hb := (go w' hw').bnd r hrw'
      rcases hsep w' hw' (hk.symm.trans gk) with h | h
      · exact Or.inr (by omega)
      · exact Or.inl (Or.inr (by omega))
    · exact Or.inl (Or.inl hk)

/-- the loop over the emitted sessions -/
theorem sessEms_ok (cfg : Cfg) (j : JSt) : ∀ (E K : List Win) (pend : List Rec),
    pend.Perm (recsOf (E ++ K)) → (pend.map (·.id)).Nodup → (∀ w ∈ E ++ K, GoodS cfg.gap w) →
    (E ++ K).Pairwise sepKey → (∀ w ∈ E, w.e ≤ j.wm) →
    (∀ c ∈ (sessEms cfg j pend (E.map toEm)).1, c.1 = true) ∧ (sessEms cfg j pend (E.map toEm)).2.Perm (recsOf K) := by
  intro E
  induction E with
  | nil => intro K pend hp _ _ _ _; simpa [sessEms] using hp
  | cons w E ih =>
    intro K pend hp hid hg hpw hcl
    simp only [List.cons_append, List.pairwise_cons] at hpw
    simp only [List.cons_append, recsOf_cons] at hp
    obtain ⟨h1, h2⟩ := sessEm_ok cfg j pend (recsOf (E ++ K)) w (E ++ K) hp
      (fun x hx => (mem_recsOf x _).1 hx) hid (hg w (by simp)) (fun w' hw' => hg w' (by simp [hw']))
      hpw.1 (hcl w (by simp))
    have hid' : ((sessEm cfg j pend (toEm w)).2.map (·.id)).Nodup := by
      rw [sessEm_members]
      exact List.Nodup.sublist (List.Sublist.map _ List.filter_sublist) hid
    obtain ⟨h3, h4⟩ := ih K _ h2 hid' (fun w' hw' => hg w' (by simp [hw'])) hpw.2
      (fun w' hw' => hcl w' (List.mem_cons_of_mem _ hw'))
    simp only [List.map_cons, sessEms]
    refine ⟨?_, h4⟩
    intro c hc
    rcases List.mem_append.1 hc with hc | hc
    · exact h1 c hc
    · exact h3 c hc

/-! ### the relation and what follows from it at any state -/

structure RS (gap : Nat) (s : St) (j : JSt) : Prop where
  r0 : R0 s j
  sinv : SInv gap s.wins
  good : ∀ w ∈ s.wins, GoodS gap w
  perm : j.pend.Perm (recsOf s.wins)
  ids : (j.pend.map (·.id)).Nodup

theorem RS_init (gap : Nat) : RS gap {} {} :=
  ⟨R0_init, ⟨by simp, List.Pairwise.nil⟩, by simp, by simp [recsOf], by simp⟩

/-- the session a pending record sits in -/
theorem RS.owner {gap : Nat} {s : St} {j : JSt} (h : RS gap s j) (r : Rec) (hr : r ∈ j.pend) :
    ∃ w ∈ s.wins, r ∈ w.recs := (mem_recsOf r _).1 (h.perm.mem_iff.1 hr)

theorem pairwise_all {wins : List Win} (hp : wins.Pairwise sepKey) (hg : ∀ w ∈ wins, w.s ≤ w.e) :
    ∀ a ∈ wins, ∀ b ∈ wins, a ≠ b → sepKey a b := by
  induction wins with
  | nil => intro a ha; cases ha
  | cons x l ih =>
    rw [List.pairwise_cons] at hp
    intro a ha b hb hab
    rcases List.mem_cons.1 ha with ha1 | ha1
    · rcases List.mem_cons.1 hb with hb1 | hb1
      · exact absurd (ha1.trans hb1.symm) hab
      · rw [ha1]; exact hp.1 b hb1
    · rcases List.mem_cons.1 hb with hb1 | hb1
      · rw [hb1]; exact sepKey_symm (hp.1 a ha1)
      · exact ih hp.2 (fun w hw => hg w (List.mem_cons_of_mem _ hw)) a ha1 b hb1 hab

theorem RS.sep {gap : Nat} {s : St} {j : JSt} (h : RS gap s j) :
    ∀ a ∈ s.wins, ∀ b ∈ s.wins, a ≠ b → sepKey a b :=
  pairwise_all h.sinv.2 (fun w hw => (h.sinv.1 w hw).2.1)

/-- a pending record has no successor among the pending records exactly when it is a last record of its session -/
theorem RS.noSucc {gap : Nat} {s : St} {j : JSt} (h : RS gap s j) (r : Rec) (w : Win) (hw : w ∈ s.wins)
    (hr : r ∈ w.recs) : hasSucc gap j.pend r = false ↔ r.et + gap = w.e := by
  have g := h.good w hw
  constructor
  · intro hns
    rcases g.conn r hr with h1 | ⟨r', hr', h1, h2⟩
    · exact h1
    · have : hasSucc gap j.pend r = true := by
        rw [hasSucc_iff]
        exact ⟨r', h.perm.mem_iff.2 ((mem_recsOf r' _).2 ⟨w, hw, hr'⟩), (g.keys r' hr').trans (g.keys r hr).symm, h1, h2⟩
      rw [this] at hns; cases hns
  · intro he
    cases hs : hasSucc gap j.pend r with
    | false => rfl
    | true =>
      rw [hasSucc_iff] at hs
      obtain ⟨r', hr', hk, h1, h2⟩ := hs
      obtain ⟨w', hw', hrw'⟩ := h.owner r' hr'
      have g' := h.good w' hw'
      by_cases hww : w' = w
      · subst hww
        have := (g'.bnd r' hrw').2; omega
      · have hkk : w'.key = w.key := by rw [← g'.keys r' hrw', hk, g.keys r hr]
        have b' := g'.bnd r' hrw'
        have b := g.bnd r hr
        rcases h.sep w' hw' w hw hww hkk with hh | hh <;> omega

/-- `active_windows` = number of gap groups of the pending records -/
theorem aw_sess (cfg : Cfg) (hk : cfg.kind = 2) (s : St) (j : JSt) (h : RS cfg.gap s j) :
    ∀ c ∈ awCheck cfg j s.stats, c.1 = true := by
  have hk2 : (cfg.kind == 2) = true := by simp [hk]
  intro c hc
  simp only [awCheck, List.mem_cons, List.not_mem_nil, or_false] at hc
  subst hc
  simp only [activeExp, hk2, if_true, St.stats, beq_iff_eq]
  have hall : (s.wins.filter fun w => !w.emitted) = s.wins :=
    List.filter_eq_self.2 (fun w hw => by simp [(h.good w hw).em])
  rw [hall]
  -- every session is represented by (key, max et, 0)
  let f : Win → Nat × Nat × Nat := fun w => (w.key, w.e - cfg.gap, 0)
  have hlen : s.wins.length = (s.wins.map f).length := by simp
  rw [hlen]
  apply List.Perm.length_eq
  have hnd : (s.wins.map f).Nodup := by
    rw [List.nodup_iff_pairwise_ne, List.pairwise_map]
    refine pairwise_imp_of_mem _ ?_ h.sinv.2
    intro a b ha hb hsep hab
    simp only [f, Prod.mk.injEq, and_true] at hab
    obtain ⟨ra, hra, hea⟩ := (h.good a ha).hi
    obtain ⟨rb, hrb, heb⟩ := (h.good b hb).hi
    have ba := (h.sinv.1 a ha).2.1
    have bb := (h.sinv.1 b hb).2.1
    rcases hsep hab.1 with hh | hh <;> omega
  rw [List.perm_ext_iff_of_nodup hnd (nodup_dedupIdents _)]
  intro x
  rw [mem_dedupIdents]
  simp only [List.mem_map, List.mem_filter, Bool.not_eq_eq_eq_not, Bool.not_true]
  constructor
  · rintro ⟨w, hw, rfl⟩
    obtain ⟨rh, hrh, hhi⟩ := (h.good w hw).hi
    refine ⟨rh, ⟨h.perm.mem_iff.2 ((mem_recsOf rh _).2 ⟨w, hw, hrh⟩), (h.noSucc rh w hw hrh).2 hhi⟩, ?_⟩
    simp only [f, Prod.mk.injEq, and_true]
    exact ⟨(h.good w hw).keys rh hrh, by omega⟩
  · rintro ⟨r, ⟨hr, hns⟩, rfl⟩
    obtain ⟨w, hw, hrw⟩ := h.owner r hr
    have := (h.noSucc r w hw hrw).1 hns
    refine ⟨w, hw, ?_⟩
    simp only [f, Prod.mk.injEq, and_true]
    exact ⟨((h.good w hw).keys r hrw).symm, by omega⟩

end HappyModel.C19.Win
