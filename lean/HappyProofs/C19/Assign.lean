import HappyProofs.C19.AssignLemmas
/-!
# C19 — every assignment strategy yields a partition of the partitions among the members

"For any set of partitions and any non-empty set of consumers, each of the range, round-robin and
sticky strategies gives every consumer exactly one entry and puts every partition in exactly one
member's list exactly once, and no foreign partition anywhere; for sticky this holds after every
call of any sequence of calls (joins, leaves, partition-set changes)."
-/
namespace HappyModel.C19

/-! ### sticky: what is kept -/

theorem lookup_mem {prev : Assignment} {c : Nat} {l : List Nat} (h : prev.lookup c = some l) :
    (c, l) ∈ prev := by
  induction prev with
  | nil => simp at h
  | cons e rest ih =>
    obtain ⟨k, l0⟩ := e
    rw [List.lookup_cons] at h
    by_cases hk : c = k
    · subst hk; simp at h; simp [h]
    · have : (c == k) = false := by simpa using hk
      rw [this] at h
      exact List.mem_cons_of_mem _ (ih h)

theorem mem_flat_of_lookup {prev : Assignment} {c x : Nat} {l : List Nat}
    (h : prev.lookup c = some l) (hx : x ∈ l) : x ∈ flat prev :=
  List.mem_flatMap.mpr ⟨(c, l), lookup_mem h, hx⟩

/-- different names look up disjoint lists when the previous lists are pairwise disjoint -/
theorem lookup_disjoint {prev : Assignment} (hnd : (flat prev).Nodup) {c c' x : Nat}
    {l l' : List Nat} (hcc : c ≠ c') (h : prev.lookup c = some l) (h' : prev.lookup c' = some l')
    (hx : x ∈ l) (hx' : x ∈ l') : False := by
  induction prev with
  | nil => simp at h
  | cons e rest ih =>
    obtain ⟨k, l0⟩ := e
    have hnd' : (l0 ++ flat rest).Nodup := hnd
    obtain ⟨_, hr, hdis⟩ := List.nodup_append.mp hnd'
    rw [List.lookup_cons] at h h'
    by_cases hk : c = k
    · have hk' : (c' == k) = false := by simpa using fun e => hcc (hk.trans e.symm)
      subst hk
      simp at h
      rw [hk'] at h'
      subst h
      exact hdis x hx x (mem_flat_of_lookup h' hx') rfl
    · have hkf : (c == k) = false := by simpa using hk
      rw [hkf] at h
      by_cases hk' : c' = k
      · subst hk'
        simp at h'
        subst h'
        exact hdis x hx' x (mem_flat_of_lookup h hx) rfl
      · have hkf' : (c' == k) = false := by simpa using hk'
        rw [hkf'] at h'
        exact ih hr h h'

theorem keys_keepAll (prev : Assignment) (parts scons : List Nat) :
    keys (keepAll prev parts scons) = scons := by
  simp [keys, keepAll, Function.comp_def]

theorem mem_keepFor {prev : Assignment} {parts : List Nat} {c x : Nat}
    (h : x ∈ keepFor prev parts c) : x ∈ parts ∧ ∃ l, prev.lookup c = some l ∧ x ∈ l := by
  unfold keepFor at h
  split at h
  · next l hl =>
    rw [List.mem_filter, List.contains_iff_mem] at h
    exact ⟨h.2, l, hl, h.1⟩
  · simp at h

theorem keepFor_nodup {prev : Assignment} (hnd : (flat prev).Nodup) (parts : List Nat) (c : Nat) :
    (keepFor prev parts c).Nodup := by
  unfold keepFor
  split
  · next l hl =>
    refine List.Sublist.nodup List.filter_sublist ?_
    have hm := lookup_mem hl
    clear hl
    induction prev with
    | nil => simp at hm
    | cons e rest ih =>
      have hnd' : (e.2 ++ flat rest).Nodup := hnd
      obtain ⟨h1, h2, _⟩ := List.nodup_append.mp hnd'
      rcases List.mem_cons.mp hm with he | hr
      · rw [← he] at h1; exact h1
      · exact ih h2 hr
  · exact List.nodup_nil

theorem mem_flat_keepAll {prev : Assignment} {parts scons : List Nat} {x : Nat}
    (h : x ∈ flat (keepAll prev parts scons)) : ∃ c ∈ scons, x ∈ keepFor prev parts c := by
  simp only [flat, keepAll, List.flatMap_map] at h
  exact List.mem_flatMap.mp h

theorem flat_keepAll_sub {prev : Assignment} {parts scons : List Nat} {x : Nat}
    (h : x ∈ flat (keepAll prev parts scons)) : x ∈ parts := by
  obtain ⟨c, _, hc⟩ := mem_flat_keepAll h
  exact (mem_keepFor hc).1

theorem flat_keepAll_nodup {prev : Assignment} (hnd : (flat prev).Nodup) (parts : List Nat)
    {scons : List Nat} (hs : scons.Nodup) : (flat (keepAll prev parts scons)).Nodup := by
  induction scons with
  | nil => exact List.nodup_nil
  | cons c cs ih =>
    have hs' := List.nodup_cons.mp hs
    show (keepFor prev parts c ++ flat (keepAll prev parts cs)).Nodup
    refine List.nodup_append.mpr ⟨keepFor_nodup hnd parts c, ih hs'.2, ?_⟩
    intro x hx y hy hxy
    subst hxy
    obtain ⟨c', hc', hx'⟩ := mem_flat_keepAll hy
    obtain ⟨_, l, hl, hxl⟩ := mem_keepFor hx
    obtain ⟨_, l', hl', hxl'⟩ := mem_keepFor hx'
    have : c ≠ c' := fun e => hs'.1 (e ▸ hc')
    exact lookup_disjoint hnd this hl hl' hxl hxl'

/-! ### sticky: distributing the rest -/

theorem keys_addMin (p : Nat) (a : Assignment) : keys (addMin p a) = keys a := by
  induction a with
  | nil => rfl
  | cons e rest ih =>
    simp only [addMin]
    split
    · rfl
    · show e.1 :: keys (addMin p rest) = e.1 :: keys rest
      rw [ih]

theorem flat_addMin (p : Nat) (a : Assignment) (h : a ≠ []) :
    (flat (addMin p a)).Perm (p :: flat a) := by
  induction a with
  | nil => exact absurd rfl h
  | cons e rest ih =>
    simp only [addMin]
    split
    · simp only [flat, List.flatMap_cons, List.append_assoc]
      exact List.perm_middle
    · next hn =>
      have hr : rest ≠ [] := by
        intro hr; subst hr; simp at hn
      show (e.2 ++ flat (addMin p rest)).Perm (p :: (e.2 ++ flat rest))
      exact (List.Perm.append_left e.2 (ih hr)).trans List.perm_middle

theorem keys_distribute (ps : List Nat) (a : Assignment) : keys (distribute ps a) = keys a := by
  induction ps generalizing a with
  | nil => rfl
  | cons p ps ih => simp only [distribute]; rw [ih, keys_addMin]

theorem flat_distribute (ps : List Nat) (a : Assignment) (h : a ≠ []) :
    (flat (distribute ps a)).Perm (ps ++ flat a) := by
  induction ps generalizing a with
  | nil => exact List.Perm.refl _
  | cons p ps ih =>
    simp only [distribute]
    have h' : addMin p a ≠ [] := by
      intro e
      have := keys_addMin p a
      rw [e] at this
      cases a with
      | nil => exact h rfl
      | cons x xs => simp [keys] at this
    exact (ih _ h').trans ((List.Perm.append_left ps (flat_addMin p a h)).trans List.perm_middle)

theorem keys_sortEach (a : Assignment) : keys (sortEach a) = keys a := by
  simp [keys, sortEach, Function.comp_def]

theorem flat_sortEach (a : Assignment) : (flat (sortEach a)).Perm (flat a) := by
  induction a with
  | nil => exact List.Perm.refl _
  | cons e rest ih =>
    show (sortNat e.2 ++ flat (sortEach rest)).Perm (e.2 ++ flat rest)
    exact List.Perm.append (sortNat_perm _) ih

theorem keys_stickyAssign (prev : Assignment) (parts cons : List Nat) (hne : cons ≠ []) :
    keys (stickyAssign prev parts cons) = sortNat cons := by
  simp only [stickyAssign, if_neg hne]
  rw [keys_sortEach, keys_distribute, keys_keepAll]

theorem flat_stickyAssign (prev : Assignment) (hprev : (flat prev).Nodup) (parts cons : List Nat)
    (hc : cons.Nodup) (hp : parts.Nodup) (hne : cons ≠ []) :
    (flat (stickyAssign prev parts cons)).Perm parts := by
  simp only [stickyAssign, if_neg hne]
  have hk : keepAll prev parts (sortNat cons) ≠ [] := by
    intro e
    have := keys_keepAll prev parts (sortNat cons)
    rw [e] at this
    exact sortNat_ne_nil hne this.symm
  refine (flat_sortEach _).trans ((flat_distribute _ _ hk).trans ?_)
  have hK := flat_keepAll_nodup hprev parts (sortNat_nodup hc)
  have hmemU : ∀ x, x ∈ unassigned parts (keepAll prev parts (sortNat cons)) ↔
      x ∈ parts ∧ x ∉ flat (keepAll prev parts (sortNat cons)) := by
    intro x
    simp only [unassigned, mem_sortNat, List.mem_filter, Bool.not_eq_true', flat]
    rw [← Bool.not_eq_true, List.contains_iff_mem]
  have hU : (unassigned parts (keepAll prev parts (sortNat cons))).Nodup :=
    sortNat_nodup (List.Sublist.nodup List.filter_sublist hp)
  rw [List.perm_ext_iff_of_nodup _ hp]
  · intro x
    rw [List.mem_append, hmemU]
    constructor
    · rintro (h | h)
      · exact h.1
      · exact flat_keepAll_sub h
    · intro h
      by_cases hx : x ∈ flat (keepAll prev parts (sortNat cons))
      · exact Or.inr hx
      · exact Or.inl ⟨h, hx⟩
  · refine List.nodup_append.mpr ⟨hU, hK, ?_⟩
    intro x hx y hy hxy
    subst hxy
    exact ((hmemU x).mp hx).2 hy

/-! ### the property -/

/-- range: contiguous slices of the sorted partitions partition them among the consumers
    (`_hc` is kept for a uniform statement; range and round robin do not need it) -/
theorem range_is_partition (parts cons : List Nat) (_hc : cons.Nodup) (hp : parts.Nodup)
    (hne : cons ≠ []) : isPartition parts cons (rangeAssign parts cons) = true := by
  refine isPartition_of_perm ?_ ?_ hp
  · simp only [rangeAssign, if_neg hne]; exact keys_rangeGo _ _ _ _ _
  · rw [flat_rangeAssign parts cons hne]; exact sortNat_perm parts

example : isPartition [4, 2, 0, 3, 1] [2, 0, 1] (rangeAssign [4, 2, 0, 3, 1] [2, 0, 1]) = true := by
  decide
example : rangeAssign [0, 1, 2, 3, 4] [1, 0] = [(0, [0, 1, 2]), (1, [3, 4])] := by decide
example : rangeAssign [4, 2, 0, 3, 1] [2, 0, 1] = [(0, [0, 1]), (1, [2, 3]), (2, [4])] := by decide
/-- the spec does reject: a dropped partition, a doubly assigned one, a missing member -/
example : isPartition [0, 1, 2] [0, 1] [(0, [0]), (1, [1])] = false := by decide
example : isPartition [0, 1, 2] [0, 1] [(0, [0, 1]), (1, [1, 2])] = false := by decide
example : isPartition [0, 1, 2] [0, 1] [(0, [0, 1, 2])] = false := by decide
example : isPartition [0, 1] [0, 1] [(0, [0, 1, 7]), (1, [])] = false := by decide

/-- round robin: dealing the sorted partitions out by index mod c partitions them -/
theorem rr_is_partition (parts cons : List Nat) (_hc : cons.Nodup) (hp : parts.Nodup)
    (hne : cons ≠ []) : isPartition parts cons (rrAssign parts cons) = true := by
  have hpos : 0 < (sortNat cons).length := List.length_pos_iff.mpr (sortNat_ne_nil hne)
  refine isPartition_of_perm ?_ ?_ hp
  · simp only [rrAssign, if_neg hne]; rw [keys_rrGo, keys_emptyAssign]
  · simp only [rrAssign, if_neg hne]
    have hl : (emptyAssign (sortNat cons)).length = (sortNat cons).length := by
      simp [emptyAssign]
    refine (flat_rrGo _ 0 _ _ hpos hl).trans ?_
    rw [flat_emptyAssign, List.append_nil]
    exact sortNat_perm parts

example : isPartition [4, 2, 0, 3, 1] [2, 0, 1] (rrAssign [4, 2, 0, 3, 1] [2, 0, 1]) = true := by
  decide
example : rrAssign [0, 1, 2, 3, 4] [0, 1] = [(0, [0, 2, 4]), (1, [1, 3])] := by decide
example : rrAssign [4, 2, 0, 3, 1] [2, 0, 1] = [(0, [0, 3]), (1, [1, 4]), (2, [2])] := by decide

/-- sticky, one call: whatever disjoint previous assignment the object remembers -/
theorem sticky_step_is_partition (prev : Assignment) (hprev : (prev.flatMap (·.2)).Nodup)
    (parts cons : List Nat) (hc : cons.Nodup) (hp : parts.Nodup) (hne : cons ≠ []) :
    isPartition parts cons (stickyAssign prev parts cons) = true :=
  isPartition_of_perm (keys_stickyAssign prev parts cons hne)
    (flat_stickyAssign prev hprev parts cons hc hp hne) hp

example : isPartition [0, 1, 2, 3, 4, 5] [2, 0, 1]
    (stickyAssign [(0, [0, 1, 2, 3]), (1, [])] [0, 1, 2, 3, 4, 5] [2, 0, 1]) = true := by decide
example : stickyAssign [] [0, 1, 2, 3] [0] = [(0, [0, 1, 2, 3])] := by decide
/-- a joining member gets nothing when nothing is unassigned: sticky keeps, it does not rebalance -/
example : stickyAssign [(0, [0, 1, 2, 3])] [0, 1, 2, 3] [0, 1] = [(0, [0, 1, 2, 3]), (1, [])] := by
  decide

/-- the invariant threaded through a sequence of calls: the remembered lists are disjoint -/
theorem flat_stickyAssign_nodup (prev : Assignment) (hprev : (flat prev).Nodup)
    (parts cons : List Nat) (hc : cons.Nodup) (hp : parts.Nodup) :
    (flat (stickyAssign prev parts cons)).Nodup := by
  by_cases hne : cons = []
  · simp [stickyAssign, hne]
  · exact (flat_stickyAssign prev hprev parts cons hc hp hne).nodup_iff.mpr hp

theorem callOk_stickyAssign (prev : Assignment) (hprev : (flat prev).Nodup)
    (call : List Nat × List Nat) (hp : call.1.Nodup) (hc : call.2.Nodup) :
    callOk call (stickyAssign prev call.1 call.2) = true := by
  unfold callOk
  by_cases hne : call.2 = []
  · simp [stickyAssign, hne]
  · have : call.2.isEmpty = false := by simpa using hne
    simp only [this]
    exact sticky_step_is_partition prev hprev _ _ hc hp hne

theorem sticky_run_ok (prev : Assignment) (hprev : (flat prev).Nodup)
    (calls : List (List Nat × List Nat)) (h : ∀ c ∈ calls, c.1.Nodup ∧ c.2.Nodup) :
    runOk calls (stickyRun prev calls) = true := by
  induction calls generalizing prev with
  | nil => rfl
  | cons call rest ih =>
    have hc := h call (List.mem_cons_self ..)
    simp only [stickyRun, runOk, Bool.and_eq_true]
    exact ⟨callOk_stickyAssign prev hprev call hc.1 hc.2,
      ih _ (flat_stickyAssign_nodup prev hprev _ _ hc.2 hc.1)
        (fun c hm => h c (List.mem_cons_of_mem _ hm))⟩

/-- sticky, any sequence of calls on a fresh object: every call's result is a partition of that
    call's partitions among that call's consumers (and `{}` when there are no consumers) -/
theorem sticky_is_partition (calls : List (List Nat × List Nat))
    (h : ∀ c ∈ calls, c.1.Nodup ∧ c.2.Nodup) : runOk calls (stickyRun [] calls) = true :=
  sticky_run_ok [] List.nodup_nil calls h

theorem runOk_at {calls : List (List Nat × List Nat)} {res : List Assignment}
    (h : runOk calls res = true) (i : Nat) {call : List Nat × List Nat} {a : Assignment}
    (hc : calls[i]? = some call) (ha : res[i]? = some a) : callOk call a = true := by
  induction calls generalizing res i with
  | nil => simp at hc
  | cons c cs ih =>
    cases res with
    | nil => simp at ha
    | cons r rs =>
      simp only [runOk, Bool.and_eq_true] at h
      cases i with
      | zero =>
        simp only [List.getElem?_cons_zero, Option.some.injEq] at hc ha
        subst hc; subst ha; exact h.1
      | succ i =>
        simp only [List.getElem?_cons_succ] at hc ha
        exact ih h.2 i hc ha

/-- the same, pointwise: the i-th call's result -/
theorem sticky_is_partition_at (calls : List (List Nat × List Nat))
    (h : ∀ c ∈ calls, c.1.Nodup ∧ c.2.Nodup) (i : Nat) (call : List Nat × List Nat)
    (a : Assignment) (hc : calls[i]? = some call) (ha : (stickyRun [] calls)[i]? = some a) :
    (call.2 = [] → a = []) ∧ (call.2 ≠ [] → isPartition call.1 call.2 a = true) := by
  have := runOk_at (sticky_is_partition calls h) i hc ha
  unfold callOk at this
  constructor
  · intro e; simpa [e] using this
  · intro e
    have he : call.2.isEmpty = false := by simpa using e
    simpa [he] using this

theorem stickyRun_length (prev : Assignment) (calls : List (List Nat × List Nat)) :
    (stickyRun prev calls).length = calls.length := by
  induction calls generalizing prev with
  | nil => rfl
  | cons c cs ih => simp [stickyRun, ih]

/-- join, join, leave, everyone leaves, rejoin with fewer partitions -/
example : stickyRun [] [([0, 1, 2, 3], [0]), ([0, 1, 2, 3, 4, 5], [1, 0]),
      ([0, 1, 2, 3, 4, 5], [2, 0, 1]), ([0, 1, 2, 3, 4, 5], [2, 1]), ([0, 1, 2], []),
      ([0, 1, 2], [2, 1])] =
    [[(0, [0, 1, 2, 3])], [(0, [0, 1, 2, 3]), (1, [4, 5])],
     [(0, [0, 1, 2, 3]), (1, [4, 5]), (2, [])], [(1, [2, 4, 5]), (2, [0, 1, 3])], [],
     [(1, [0, 2]), (2, [1])]] := by decide
example : runOk [([0, 1, 2, 3], [0]), ([0, 1, 2, 3, 4, 5], [1, 0]), ([0, 1, 2, 3, 4, 5], [2, 1])]
    (stickyRun [] [([0, 1, 2, 3], [0]), ([0, 1, 2, 3, 4, 5], [1, 0]),
      ([0, 1, 2, 3, 4, 5], [2, 1])]) = true := by decide

/-- the umbrella statement -/
theorem assignment_is_partition :
    (∀ parts cons : List Nat, cons.Nodup → parts.Nodup → cons ≠ [] →
      isPartition parts cons (rangeAssign parts cons) = true) ∧
    (∀ parts cons : List Nat, cons.Nodup → parts.Nodup → cons ≠ [] →
      isPartition parts cons (rrAssign parts cons) = true) ∧
    (∀ calls : List (List Nat × List Nat), (∀ c ∈ calls, c.1.Nodup ∧ c.2.Nodup) →
      runOk calls (stickyRun [] calls) = true) :=
  ⟨range_is_partition, rr_is_partition, sticky_is_partition⟩

end HappyModel.C19
