import HappyModel.C19.Spec
/-!
# C19 — list-level lemmas for "every published message stays accounted for"

`Part p f l`: the pending deque `p` and the in-flight keys `f` partition the live keys `l`
(no duplicates anywhere), and how each queue operation acts on such a partition.
-/
namespace HappyModel.C19
set_option linter.unusedVariables false

/-- pending `p` and in-flight `f` partition the live keys `l` -/
structure Part (p f l : List Nat) : Prop where
  pN : p.Nodup
  fN : f.Nodup
  lN : l.Nodup
  pL : ∀ k ∈ p, k ∈ l ∧ k ∉ f
  fL : ∀ k ∈ f, k ∈ l
  lPF : ∀ k ∈ l, k ∈ p ∨ k ∈ f
  len : p.length + f.length = l.length

theorem Part.nil : Part [] [] [] := by
  refine ⟨?_, ?_, ?_, ?_, ?_, ?_, ?_⟩ <;> simp

theorem Part.not_pending {p f l : List Nat} (h : Part p f l) {k : Nat} (hk : k ∈ f) : k ∉ p :=
  fun hp => (h.pL k hp).2 hk

/-- the message leaves (ack / dead-letter): erase the key everywhere -/
theorem Part.eraseAll {p f l : List Nat} (h : Part p f l) (k : Nat) :
    Part (p.erase k) (f.erase k) (l.erase k) := by
  refine ⟨h.pN.erase k, h.fN.erase k, h.lN.erase k, ?_, ?_, ?_, ?_⟩
  · intro x hx
    rw [h.pN.mem_erase_iff] at hx
    refine ⟨(h.lN.mem_erase_iff).2 ⟨hx.1, (h.pL x hx.2).1⟩, fun hf => ?_⟩
    exact (h.pL x hx.2).2 (List.mem_of_mem_erase hf)
  · intro x hx
    rw [h.fN.mem_erase_iff] at hx
    exact (h.lN.mem_erase_iff).2 ⟨hx.1, h.fL x hx.2⟩
  · intro x hx
    rw [h.lN.mem_erase_iff] at hx
    rcases h.lPF x hx.2 with hp | hf
    · exact Or.inl ((h.pN.mem_erase_iff).2 ⟨hx.1, hp⟩)
    · exact Or.inr ((h.fN.mem_erase_iff).2 ⟨hx.1, hf⟩)
  · have hlen := h.len
    by_cases hl : k ∈ l
    · rcases h.lPF k hl with hp | hf
      · have hf : k ∉ f := (h.pL k hp).2
        have := List.length_pos_of_mem hp
        rw [List.erase_of_not_mem hf, List.length_erase_of_mem hp, List.length_erase_of_mem hl]
        omega
      · have hp : k ∉ p := h.not_pending hf
        have := List.length_pos_of_mem hf
        rw [List.erase_of_not_mem hp, List.length_erase_of_mem hf, List.length_erase_of_mem hl]
        omega
    · have hp : k ∉ p := fun hp => hl (h.pL k hp).1
      have hf : k ∉ f := fun hf => hl (h.fL k hf)
      rw [List.erase_of_not_mem hp, List.erase_of_not_mem hf, List.erase_of_not_mem hl]
      exact hlen

/-- publish: a fresh key joins the back of the pending deque -/
theorem Part.push {p f l : List Nat} (h : Part p f l) {k : Nat} (hk : k ∉ l) :
    Part (p ++ [k]) f (l ++ [k]) := by
  have hp : k ∉ p := fun hp => hk (h.pL k hp).1
  have hf : k ∉ f := fun hf => hk (h.fL k hf)
  refine ⟨?_, h.fN, ?_, ?_, ?_, ?_, ?_⟩
  · simp only [List.nodup_append, List.mem_singleton]
    exact ⟨h.pN, by simp, fun a ha b hb => by subst hb; exact fun e => hp (e ▸ ha)⟩
  · simp only [List.nodup_append, List.mem_singleton]
    exact ⟨h.lN, by simp, fun a ha b hb => by subst hb; exact fun e => hk (e ▸ ha)⟩
  · intro x hx
    simp only [List.mem_append, List.mem_singleton] at hx ⊢
    rcases hx with hx | rfl
    · exact ⟨Or.inl (h.pL x hx).1, (h.pL x hx).2⟩
    · exact ⟨Or.inr rfl, hf⟩
  · intro x hx
    exact List.mem_append_left _ (h.fL x hx)
  · intro x hx
    simp only [List.mem_append, List.mem_singleton] at hx ⊢
    rcases hx with hx | rfl
    · rcases h.lPF x hx with a | a
      · exact Or.inl (Or.inl a)
      · exact Or.inr a
    · exact Or.inl (Or.inr rfl)
  · have := h.len
    simp only [List.length_append, List.length_singleton]
    omega

/-- a live key that is in neither list cannot exist; a live key moves to the back of pending -/
theorem Part.toBack {p f l : List Nat} (h : Part p f l) {k : Nat} (hk : k ∈ l) :
    Part (p.erase k ++ [k]) (f.erase k) l := by
  have hkp : k ∉ p.erase k := h.pN.not_mem_erase
  have hkf : k ∉ f.erase k := h.fN.not_mem_erase
  refine ⟨?_, h.fN.erase k, h.lN, ?_, ?_, ?_, ?_⟩
  · simp only [List.nodup_append, List.mem_singleton]
    exact ⟨h.pN.erase k, by simp, fun a ha b hb => by subst hb; exact fun e => hkp (e ▸ ha)⟩
  · intro x hx
    simp only [List.mem_append, List.mem_singleton] at hx
    rcases hx with hx | rfl
    · have hx' := List.mem_of_mem_erase hx
      exact ⟨(h.pL x hx').1, fun hf => (h.pL x hx').2 (List.mem_of_mem_erase hf)⟩
    · exact ⟨hk, hkf⟩
  · intro x hx
    exact h.fL x (List.mem_of_mem_erase hx)
  · intro x hx
    by_cases e : x = k
    · subst e; exact Or.inl (List.mem_append_right _ (List.mem_singleton.2 rfl))
    · rcases h.lPF x hx with a | a
      · exact Or.inl (List.mem_append_left _ ((List.mem_erase_of_ne e).2 a))
      · exact Or.inr ((List.mem_erase_of_ne e).2 a)
  · have hlen := h.len
    simp only [List.length_append, List.length_singleton]
    rcases h.lPF k hk with hp | hf
    · have hf : k ∉ f := (h.pL k hp).2
      have := List.length_pos_of_mem hp
      rw [List.erase_of_not_mem hf, List.length_erase_of_mem hp]
      omega
    · have hp : k ∉ p := h.not_pending hf
      have := List.length_pos_of_mem hf
      rw [List.erase_of_not_mem hp, List.length_erase_of_mem hf]
      omega

/-- timeout: an in-flight key moves to the front of pending -/
theorem Part.toFront {p f l : List Nat} (h : Part p f l) {k : Nat} (hk : k ∈ f) :
    Part (k :: p) (f.erase k) l := by
  have hkp : k ∉ p := h.not_pending hk
  have hkf : k ∉ f.erase k := h.fN.not_mem_erase
  refine ⟨List.nodup_cons.2 ⟨hkp, h.pN⟩, h.fN.erase k, h.lN, ?_, ?_, ?_, ?_⟩
  · intro x hx
    rcases List.mem_cons.1 hx with rfl | hx
    · exact ⟨h.fL _ hk, hkf⟩
    · exact ⟨(h.pL x hx).1, fun hf => (h.pL x hx).2 (List.mem_of_mem_erase hf)⟩
  · intro x hx
    exact h.fL x (List.mem_of_mem_erase hx)
  · intro x hx
    by_cases e : x = k
    · subst e; exact Or.inl (List.mem_cons_self)
    · rcases h.lPF x hx with a | a
      · exact Or.inl (List.mem_cons_of_mem _ a)
      · exact Or.inr ((List.mem_erase_of_ne e).2 a)
  · have hlen := h.len
    have := List.length_pos_of_mem hk
    rw [List.length_cons, List.length_erase_of_mem hk]
    omega

/-- `_deliver_message`: a live key leaves pending and is in flight afterwards (it may already be
    in flight when a redelivery event meets a message a poll re-delivered meanwhile) -/
theorem Part.toFlight {p f l : List Nat} (h : Part p f l) {k : Nat} (hk : k ∈ l) :
    Part (p.erase k) (insertNew f k) l := by
  unfold insertNew
  by_cases hf : k ∈ f
  · have hp : k ∉ p := h.not_pending hf
    rw [if_pos hf, List.erase_of_not_mem hp]
    exact h
  · have hp : k ∈ p := (h.lPF k hk).resolve_right hf
    have hkp : k ∉ p.erase k := h.pN.not_mem_erase
    rw [if_neg hf]
    refine ⟨h.pN.erase k, ?_, h.lN, ?_, ?_, ?_, ?_⟩
    · simp only [List.nodup_append, List.mem_singleton]
      exact ⟨h.fN, by simp, fun a ha b hb => by subst hb; exact fun e => hf (e ▸ ha)⟩
    · intro x hx
      have hx' := List.mem_of_mem_erase hx
      refine ⟨(h.pL x hx').1, fun hm => ?_⟩
      simp only [List.mem_append, List.mem_singleton] at hm
      rcases hm with hm | rfl
      · exact (h.pL x hx').2 hm
      · exact hkp hx
    · intro x hx
      simp only [List.mem_append, List.mem_singleton] at hx
      rcases hx with hx | rfl
      · exact h.fL x hx
      · exact hk
    · intro x hx
      by_cases e : x = k
      · subst e; exact Or.inr (List.mem_append_right _ (List.mem_singleton.2 rfl))
      · rcases h.lPF x hx with a | a
        · exact Or.inl ((List.mem_erase_of_ne e).2 a)
        · exact Or.inr (List.mem_append_left _ a)
    · have hlen := h.len
      have := List.length_pos_of_mem hp
      simp only [List.length_append, List.length_singleton]
      rw [List.length_erase_of_mem hp]
      omega

end HappyModel.C19
