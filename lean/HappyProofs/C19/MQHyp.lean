import HappyProofs.C19.MQOrder
import HappyProofs.C19.MQReach
import HappyProofs.C19.MQRedeliv
/-!
# C19 — weakening two schedule hypotheses of the message-queue theorems

* `first_deliveries_in_publish_order` assumed `RedelivLegit` (a `redeliv k` action only for a message dispatched
  before — a condition on *model states*).  It follows from the plain engine fact `TimerCausal`: a
  `message_redelivery` event is delivered only if one that `schedule_redelivery` handed out is still outstanding
  (the engine delivers only events that exist).
* `delivery_reaches_consumer` assumed a quiescent end.  Without it the judge's safety clauses still hold at every
  step of every schedule; the only possible objection is the end-of-run one, raised exactly when a delivery is still
  on its way.
-/
namespace HappyModel.C19
set_option linter.unusedVariables false

/-! ### redelivery events exist before they are delivered -/

/-- timers outstanding after one step: a `tmo k` that answered with an event adds one, a delivered
    `message_redelivery` consumes one -/
def timersAfter (out : List Nat) (a : Act) (o : Out) : List Nat :=
  match a with
  | .tmo k => if o = .tmoEv then k :: out else out
  | .redeliv k => out.erase k
  | _ => out

/-- the engine delivers a `message_redelivery` event only if one is outstanding -/
def TimerCausal (cfg : Cfg) : MQ → List Nat → List (Nat × Act) → Prop
  | _, _, [] => True
  | s, out, (t, a) :: rest =>
    (match a with | .redeliv k => k ∈ out | _ => True) ∧
      TimerCausal cfg (s.step cfg t a).1 (timersAfter out a (s.step cfg t a).2) rest

theorem cnt_dispatch (s : MQ) (t k c x : Nat) : s.cnt x ≤ (s.dispatch t k c).cnt x := by
  simp only [MQ.cnt, MQ.dispatch]; exact count_cons_le k x s.dlog

/-- delivery counts never decrease, and whatever is in flight was dispatched at least once -/
theorem cnt_step (cfg : Cfg) (s : MQ) (t : Nat) (a : Act) :
    (∀ x, s.cnt x ≤ (s.step cfg t a).1.cnt x) ∧
    ((∀ x ∈ s.inflight, 1 ≤ s.cnt x) → ∀ x ∈ (s.step cfg t a).1.inflight, 1 ≤ (s.step cfg t a).1.cnt x) := by
  have same : ∀ s' : MQ, s'.dlog = s.dlog → (∀ x ∈ s'.inflight, x ∈ s.inflight) →
      (∀ x, s.cnt x ≤ s'.cnt x) ∧ ((∀ x ∈ s.inflight, 1 ≤ s.cnt x) → ∀ x ∈ s'.inflight, 1 ≤ s'.cnt x) := by
    intro s' h1 h2
    refine ⟨fun x => by simp [MQ.cnt, h1], fun h x hx => ?_⟩
    have := h x (h2 x hx)
    simpa [MQ.cnt, h1] using this
  have deliver : ∀ (s0 : MQ) (k : Nat), s0.dlog = s.dlog → s0.inflight = s.inflight →
      (∀ x, s.cnt x ≤ (s0.deliverBegin t k).1.cnt x) ∧
      ((∀ x ∈ s.inflight, 1 ≤ s.cnt x) → ∀ x ∈ (s0.deliverBegin t k).1.inflight, 1 ≤ (s0.deliverBegin t k).1.cnt x) := by
    intro s0 k hd hi
    unfold MQ.deliverBegin
    split
    · split
      · next c hc =>
        refine ⟨fun x => ?_, fun h x hx => ?_⟩
        · have := cnt_dispatch s0 t k c x
          simpa [MQ.cnt, hd] using this
        · have hx' : x ∈ insertNew s0.inflight k := hx
          rcases (mem_insertNew _ _ _).1 hx' with hx' | rfl
          · have h1 := h x (hi ▸ hx')
            have h2 := cnt_dispatch s0 t x c x
            have h3 := cnt_dispatch s0 t k c x
            simp only [MQ.cnt, hd] at h1 h3 ⊢
            omega
          · simp [MQ.cnt, MQ.dispatch]
      · exact same s0 hd (fun x hx => hi ▸ hx)
    · exact same s0 hd (fun x hx => hi ▸ hx)
  cases a with
  | pub =>
    simp only [MQ.step]; unfold MQ.publish
    split
    · exact same s rfl (fun x hx => hx)
    · exact same _ rfl (fun x hx => hx)
  | poll =>
    simp only [MQ.step]; unfold MQ.pollA
    split
    · exact deliver s _ rfl rfl
    · exact same s rfl (fun x hx => hx)
  | redeliv k => exact deliver { s with sched := s.sched.erase k } k rfl rfl
  | fire d =>
    simp only [MQ.step]; unfold MQ.fire
    split
    · exact same s rfl (fun x hx => hx)
    · split
      · split
        · exact same _ rfl (fun x hx => hx)
        · exact same _ rfl (fun x hx => hx)
      · exact same s rfl (fun x hx => hx)
  | recv d =>
    simp only [MQ.step]; unfold MQ.recv
    split
    · exact same s rfl (fun x hx => hx)
    · split
      · split
        · exact same _ rfl (fun x hx => hx)
        · exact same s rfl (fun x hx => hx)
      · exact same s rfl (fun x hx => hx)
  | ack k =>
    simp only [MQ.step]; unfold MQ.ackMsg
    split
    · exact same _ rfl (fun x hx => List.mem_of_mem_erase hx)
    · exact same s rfl (fun x hx => hx)
  | rej k rq =>
    simp only [MQ.step]; unfold MQ.reject
    split
    · split
      · exact same _ rfl (fun x hx => List.mem_of_mem_erase hx)
      · exact same _ rfl (fun x hx => List.mem_of_mem_erase hx)
    · exact same s rfl (fun x hx => hx)
  | tmo k =>
    simp only [MQ.step]; unfold MQ.timeout
    split
    · split
      · exact same s rfl (fun x hx => hx)
      · split
        · unfold MQ.reject
          split
          · split
            · exact same _ rfl (fun x hx => List.mem_of_mem_erase hx)
            · exact same _ rfl (fun x hx => List.mem_of_mem_erase hx)
          · exact same s rfl (fun x hx => hx)
        · exact same _ rfl (fun x hx => List.mem_of_mem_erase hx)
    · exact same s rfl (fun x hx => hx)
  | sub c => exact same _ rfl (fun x hx => hx)
  | unsub c => exact same _ rfl (fun x hx => hx)

/-- `schedule_redelivery` hands out an event only for a message in flight -/
theorem tmoEv_inflight (cfg : Cfg) (s : MQ) (k : Nat) (h : (s.timeout cfg k).2 = .tmoEv) : k ∈ s.inflight := by
  unfold MQ.timeout at h
  split at h
  · next hk => exact hk
  · cases h

theorem causal_legit (cfg : Cfg) : ∀ (sched : List (Nat × Act)) (s : MQ) (out : List Nat),
    (∀ x ∈ s.inflight, 1 ≤ s.cnt x) → (∀ k ∈ out, 1 ≤ s.cnt k) → TimerCausal cfg s out sched →
      RedelivLegit cfg s sched
  | [], _, _, _, _, _ => trivial
  | (t, a) :: rest, s, out, hI, hO, hc => by
    obtain ⟨hc1, hc2⟩ := hc
    obtain ⟨hmono, hinf⟩ := cnt_step cfg s t a
    refine ⟨?_, causal_legit cfg rest _ _ (hinf hI) ?_ hc2⟩
    · cases a with
      | redeliv k => exact hO k hc1
      | _ => trivial
    · intro k hk
      cases a with
      | tmo k' =>
        simp only [timersAfter] at hk
        split at hk
        · next ho =>
          rcases List.mem_cons.1 hk with rfl | hk
          · have := hI k (tmoEv_inflight cfg s k ho)
            have := hmono k; omega
          · have := hO k hk; have := hmono k; omega
        · have := hO k hk; have := hmono k; omega
      | redeliv k' =>
        have := hO k (List.mem_of_mem_erase hk); have := hmono k; omega
      | pub => have := hO k hk; have := hmono k; omega
      | poll => have := hO k hk; have := hmono k; omega
      | fire d => have := hO k hk; have := hmono k; omega
      | recv d => have := hO k hk; have := hmono k; omega
      | ack k' => have := hO k hk; have := hmono k; omega
      | rej k' rq => have := hO k hk; have := hmono k; omega
      | sub c => have := hO k hk; have := hmono k; omega
      | unsub c => have := hO k hk; have := hmono k; omega

/-- first deliveries follow publish order on every schedule in which the engine delivers only redelivery events
    that exist (handed out by `schedule_redelivery` and not yet delivered) -/
theorem first_deliveries_in_publish_order_causal (cfg : Cfg) (hl : cfg.legacy = false)
    (sched : List (Nat × Act)) (h : TimerCausal cfg {} [] sched) :
    jOrder {} (MQ.run cfg {} sched) = none :=
  first_deliveries_in_publish_order cfg hl sched (causal_legit cfg sched {} [] (by simp) (by simp) h)

/-! ### deliveries: no quiescence hypothesis -/

theorem reach_run_any (cfg : Cfg) (hl : cfg.legacy = false) (sched : List (Nat × Act)) :
    ∀ (s : MQ) (j : ReachSt), RRel cfg.lat s j →
      jReach cfg.lat j (MQ.run cfg s sched) =
        if (MQ.exec cfg s sched).tix = [] then none else some "mq/delivery/never-reached-consumer" := by
  induction sched with
  | nil =>
    intro s j h
    simp only [MQ.run, jReach, MQ.exec, h.tks]
    by_cases hx : s.tix = []
    · simp [hx]
    · have : (s.tix.map tkOf).isEmpty = false := by
        cases hs : s.tix with
        | nil => exact absurd hs hx
        | cons _ _ => rfl
      simp [hx, this]
  | cons x rest ih =>
    intro s j h
    obtain ⟨t, a⟩ := x
    obtain ⟨j', hj, h'⟩ := reach_step cfg hl h t a
    simp only [MQ.run, jReach, hj, MQ.exec]
    exact ih _ _ h'

/-- on every schedule, quiescent at its end or not: every delivery picks a subscribed consumer, is never stamped
    in the past and is received by that consumer exactly once at `t0 + latency`; the judge's only possible objection
    is the end-of-run one, raised exactly when a delivery is still suspended or in the engine's heap -/
theorem delivery_safe_on_every_schedule (cfg : Cfg) (hl : cfg.legacy = false) (sched : List (Nat × Act)) :
    jReach cfg.lat {} (MQ.run cfg {} sched) =
      if (MQ.exec cfg {} sched).tix = [] then none else some "mq/delivery/never-reached-consumer" :=
  reach_run_any cfg hl sched {} {} (rrel_init _)

/-! ### non-vacuity -/

instance decTimerCausal (cfg : Cfg) : ∀ s out sched, Decidable (TimerCausal cfg s out sched)
  | _, _, [] => isTrue trivial
  | s, out, (t, a) :: rest =>
    have : Decidable (TimerCausal cfg (s.step cfg t a).1 (timersAfter out a (s.step cfg t a).2) rest) :=
      decTimerCausal cfg _ _ rest
    match a with
    | .redeliv k => (inferInstance : Decidable (k ∈ out ∧ TimerCausal cfg _ _ rest))
    | .pub | .poll | .fire _ | .recv _ | .ack _ | .rej _ _ | .tmo _ | .sub _ | .unsub _ =>
      (inferInstance : Decidable (True ∧ TimerCausal cfg _ _ rest))

/-- the demo schedule of `MQOrder` (a timeout hands out an event, the event is delivered) is causal; delivering a
    redelivery event nobody handed out, or the same one twice, is not -/
example : TimerCausal ordDemoCfg {} [] ordDemoSched := by decide
example : ¬ TimerCausal ordDemoCfg {} [] [(0, .sub 7), (1, .pub), (2, .poll), (3, .redeliv 0)] := by decide
example : ¬ TimerCausal ordDemoCfg {} []
    [(0, .sub 7), (1, .pub), (3, .poll), (4, .tmo 0), (5, .redeliv 0), (6, .redeliv 0)] := by decide

/-- a run cut off while a delivery is still suspended: the only objection is the end-of-run one -/
example : jReach 5 {} (MQ.run { lat := 5, maxRe := 2 } {} [(0, .sub 0), (1, .pub), (2, .poll)]) =
    some "mq/delivery/never-reached-consumer" := by decide

end HappyModel.C19
