import HappyModel.C19.Outbox
/-!
Invariant of the repaired OutboxRelay model, coupled with the state of the Spec judge reading the
model's own transcript (`Inv`), and its preservation by the pieces of a segment.

The relayed flags are always a prefix (`replicate n true ++ replicate (w - n) false`, n = entries
relayed); at most one poll generator is suspended and the rest of its batch is `n+1, n+2, …`.
-/
namespace HappyModel.C19.Outbox
open List

/-! ### list facts -/

theorem pendingFrom_false (b u : Nat) : pendingFrom b (replicate u false) = range' b u := by
  induction u generalizing b with
  | zero => simp [pendingFrom]
  | succ u ih => simp [replicate_succ, pendingFrom, range'_succ, ih]

theorem pendingFrom_prefix (b m u : Nat) :
    pendingFrom b (replicate m true ++ replicate u false) = range' (b + m) u := by
  induction m generalizing b with
  | zero => simpa using pendingFrom_false b u
  | succ m ih =>
    simp only [replicate_succ, cons_append, pendingFrom, if_true]
    rw [ih]; congr 1; omega

theorem markFrom_prefix (b m : Nat) (rest : List Bool) :
    markFrom b (replicate m true ++ false :: rest) (b + m) = replicate (m + 1) true ++ rest := by
  induction m generalizing b with
  | zero => simp [markFrom]
  | succ m ih =>
    have h1 : ¬ (b + (m + 1) = b) := by omega
    have h2 : b + (m + 1) = (b + 1) + m := by omega
    simp only [replicate_succ, cons_append, markFrom, h1, if_false]
    rw [h2, ih]; simp [replicate_succ]

theorem take_range'_min (k a u : Nat) :
    ∃ r, (range' a u).take k = range' a r ∧ r ≤ u ∧ (r < k → r = u) := by
  rcases Nat.le_total u k with h | h
  · exact ⟨u, take_range'_of_length_le h, Nat.le_refl _, fun _ => rfl⟩
  · exact ⟨k, take_range'_of_length_ge h, h, fun h' => absurd h' (Nat.lt_irrefl _)⟩

theorem range'_snoc (c : Nat) : range' 1 c ++ [c + 1] = range' 1 (c + 1) := by
  rw [range'_concat]; simp [Nat.add_comm]

theorem eraseFirst_head (x : Nat × Nat) (l : List (Nat × Nat)) : eraseFirst x (x :: l) = l := by
  simp [eraseFirst]

theorem jevs_append (batch t : Nat) (j : JSt) (a b : List Ev) :
    jevs batch t j (a ++ b) = match jevs batch t j a with
      | .error x => .error x
      | .ok j' => jevs batch t j' b := by
  induction a generalizing j with
  | nil => rfl
  | cons e es ih =>
    simp only [cons_append, jevs]
    cases jev batch t j e with
    | error x => rfl
    | ok j' => exact ih j'

/-! ### the coupled invariant -/

structure Core (s : St) (j : JSt) : Prop where
  flags : s.flags = replicate s.relayedCnt true ++ replicate (s.written - s.relayedCnt) false
  le : s.relayedCnt ≤ s.written
  jw : j.writes = s.written
  sent : j.sent = range' 1 s.relayedCnt
  hi : j.hi = s.relayedCnt
  fl : j.flight = s.flight
  clean : j.clean = true → s.relayedCnt = s.written

/-- a poll cycle is in progress and `r` entries of its batch are still to be relayed -/
structure Busy (batch : Nat) (s : St) (j : JSt) (r : Nat) : Prop where
  core : Core s j
  running : s.running = true
  opn : j.opn = 1
  bound : s.relayedCnt + r ≤ s.written
  drain : j.dirty = false → j.busyEmits + r < batch → s.relayedCnt + r = s.written

inductive Inv (batch : Nat) (s : St) (j : JSt) : Prop
  | idle : Core s j → s.running = false → s.polls = [] → j.opn = 0 → Inv batch s j
  | busy (p r : Nat) : Busy batch s j r → s.polls = [⟨p, range' (s.relayedCnt + 1) r⟩] → Inv batch s j

theorem Inv.core {batch : Nat} {s : St} {j : JSt} (h : Inv batch s j) : Core s j := by
  cases h with
  | idle c _ _ _ => exact c
  | busy _ _ b _ => exact b.core

theorem checkCtr_of_core {s : St} {j : JSt} (h : Core s j) : checkCtr j (ctrOf s) = true := by
  have hl : s.flags.length = s.written := by
    rw [h.flags, length_append, length_replicate, length_replicate]; have := h.le; omega
  have hp : (pendingFrom 1 s.flags).length = s.written - s.relayedCnt := by
    rw [h.flags, pendingFrom_prefix, length_range']
  have := h.le
  simp [checkCtr, ctrOf, hl, hp, h.jw, h.sent]
  omega

theorem Core.frame {s s' : St} {j : JSt} (h : Core s j) (hf : s'.flags = s.flags)
    (hw : s'.written = s.written) (hc : s'.relayedCnt = s.relayedCnt) (hfl : s'.flight = s.flight) :
    Core s' j :=
  ⟨by rw [hf, hc, hw]; exact h.flags, by rw [hc, hw]; exact h.le, by rw [hw]; exact h.jw,
   by rw [hc]; exact h.sent, by rw [hc]; exact h.hi, by rw [hfl]; exact h.fl,
   by rw [hc, hw]; exact h.clean⟩

theorem Inv.frame {batch : Nat} {s s' : St} {j : JSt} (h : Inv batch s j) (hf : s'.flags = s.flags)
    (hw : s'.written = s.written) (hc : s'.relayedCnt = s.relayedCnt) (hfl : s'.flight = s.flight)
    (hr : s'.running = s.running) (hp : s'.polls = s.polls) : Inv batch s' j := by
  cases h with
  | idle c r p o => exact Inv.idle (c.frame hf hw hc hfl) (by rw [hr]; exact r) (by rw [hp]; exact p) o
  | busy p r b q =>
    refine Inv.busy p r ⟨b.core.frame hf hw hc hfl, by rw [hr]; exact b.running, b.opn,
      by rw [hc, hw]; exact b.bound, by rw [hc, hw]; exact b.drain⟩ (by rw [hp, hc]; exact q)

/-! ### one relay iteration -/

theorem relayOne_busy {batch t : Nat} {s : St} {j : JSt} {r : Nat} (h : Busy batch s j (r + 1)) :
    ∃ j', jev batch t j (.emit (s.relayedCnt + 1) t) = .ok j' ∧
      Busy batch (relayOne t s (s.relayedCnt + 1)) j' r := by
  have hb := h.bound
  have c := h.core
  refine ⟨{ j with sent := j.sent ++ [s.relayedCnt + 1], hi := s.relayedCnt + 1,
                   flight := j.flight ++ [(s.relayedCnt + 1, t)], busyEmits := j.busyEmits + 1 }, ?_, ?_⟩
  · have h1 : ¬ (t < t) := Nat.lt_irrefl t
    have h2 : ¬ (s.relayedCnt + 1 ∈ j.sent) := by
      rw [c.sent, mem_range'_1]; omega
    have h3 : ¬ (s.relayedCnt + 1 = 0 ∨ j.writes < s.relayedCnt + 1) := by
      rw [c.jw]; omega
    have h4 : ¬ (s.relayedCnt + 1 < j.hi) := by rw [c.hi]; omega
    simp only [jev, h1, h2, h3, h4, if_false]
  · have hsplit : s.written - s.relayedCnt = (s.written - (s.relayedCnt + 1)) + 1 := by omega
    have hfl : markFrom 1 s.flags (s.relayedCnt + 1)
        = replicate (s.relayedCnt + 1) true ++ replicate (s.written - (s.relayedCnt + 1)) false := by
      rw [c.flags, hsplit, replicate_succ, Nat.add_comm s.relayedCnt 1, markFrom_prefix]
      simp [Nat.add_comm]
    refine ⟨⟨hfl, ?_, c.jw, ?_, rfl, ?_, ?_⟩, h.running, h.opn, ?_, ?_⟩
    · show s.relayedCnt + 1 ≤ s.written; omega
    · show j.sent ++ [s.relayedCnt + 1] = range' 1 (s.relayedCnt + 1)
      rw [c.sent, range'_snoc]
    · show j.flight ++ [(s.relayedCnt + 1, t)] = s.flight ++ [(s.relayedCnt + 1, t)]
      rw [c.fl]
    · intro hc
      have := c.clean hc
      show s.relayedCnt + 1 = s.written; omega
    · show s.relayedCnt + 1 + r ≤ s.written; omega
    · intro hd hlt
      have := h.drain hd (by show j.busyEmits + (r + 1) < batch; simp only at hlt; omega)
      show s.relayedCnt + 1 + r = s.written; omega

theorem relayAll_polls (t : Nat) (s : St) (l : List Nat) : (relayAll t s l).1.polls = s.polls := by
  induction l generalizing s with
  | nil => rfl
  | cons k ks ih => simp only [relayAll]; rw [ih]; rfl

theorem relayAll_busy {batch t : Nat} (r : Nat) {s : St} {j : JSt} (h : Busy batch s j r) :
    ∃ j', jevs batch t j (relayAll t s (range' (s.relayedCnt + 1) r)).2 = .ok j' ∧
      Busy batch (relayAll t s (range' (s.relayedCnt + 1) r)).1 j' 0 := by
  induction r generalizing s j with
  | zero => exact ⟨j, rfl, h⟩
  | succ r ih =>
    obtain ⟨j1, hj1, hb1⟩ := relayOne_busy (t := t) h
    obtain ⟨j2, hj2, hb2⟩ := ih hb1
    refine ⟨j2, ?_, ?_⟩
    · simp only [range'_succ, relayAll, jevs, hj1]
      exact hj2
    · simp only [range'_succ, relayAll]
      exact hb2

/-! ### the end of a cycle -/

theorem resched_inv {cfg : Cfg} {t : Nat} {s : St} {j : JSt} (h : Inv cfg.batch s j) :
    Inv cfg.batch (resched cfg t s).1 j := by
  unfold resched
  split
  · exact h.frame rfl rfl rfl rfl rfl rfl
  · exact h

theorem resched_evs (cfg : Cfg) (t : Nat) (s : St) :
    ∃ x, (resched cfg t s).2 = [.done, x] ∧ ∀ b t' j, jev b t' j x = .ok j := by
  unfold resched
  split
  · exact ⟨_, rfl, fun _ _ _ => rfl⟩
  · exact ⟨_, rfl, fun _ _ _ => rfl⟩

theorem finish_busy {cfg : Cfg} {t : Nat} {s : St} {j : JSt} (hl : cfg.legacy = false)
    (h : Busy cfg.batch s j 0) (hp : s.polls = []) :
    ∃ j', jevs cfg.batch t j (finish cfg t s).2 = .ok j' ∧ Inv cfg.batch (finish cfg t s).1 j' := by
  have c := h.core
  have hcl : (j.clean || (!j.dirty && decide (j.busyEmits < cfg.batch))) = true →
      s.relayedCnt = s.written := by
    intro hc
    rcases Bool.or_eq_true _ _ |>.mp hc with h1 | h1
    · exact c.clean h1
    · have h2 := Bool.and_eq_true _ _ |>.mp h1
      have hd : j.dirty = false := by simpa using h2.1
      have hlt : j.busyEmits < cfg.batch := by simpa using h2.2
      have := h.drain hd (by omega)
      omega
  have he : endCycle cfg s = { s with running := false, scheduled := false } := by
    simp [endCycle, hl]
  obtain ⟨x, hx, hxj⟩ := resched_evs cfg t (endCycle cfg s)
  refine ⟨{ j with opn := 0, clean := j.clean || (!j.dirty && decide (j.busyEmits < cfg.batch)) }, ?_, ?_⟩
  · have hd : jev cfg.batch t j .done = .ok
        { j with opn := 0, clean := j.clean || (!j.dirty && decide (j.busyEmits < cfg.batch)) } := by
      simp [jev, h.opn]
    unfold finish
    rw [hx]
    simp only [jevs, hd, hxj]
  · unfold finish
    apply resched_inv
    rw [he]
    exact Inv.idle ⟨c.flags, c.le, c.jw, c.sent, c.hi, c.fl, hcl⟩ rfl hp rfl

/-! ### a generator segment -/

theorem advance_busy {cfg : Cfg} {t p : Nat} {s : St} {j : JSt} {r : Nat} (hl : cfg.legacy = false)
    (h : Busy cfg.batch s j r) (hp : s.polls = []) :
    ∃ j', jevs cfg.batch t j (advance cfg t s p (range' (s.relayedCnt + 1) r)).2 = .ok j' ∧
      Inv cfg.batch (advance cfg t s p (range' (s.relayedCnt + 1) r)).1 j' := by
  unfold advance
  by_cases hlat : cfg.lat = 0
  · simp only [hlat, if_true]
    obtain ⟨j1, hj1, hb1⟩ := relayAll_busy (t := t) r h
    have hp1 : (relayAll t s (range' (s.relayedCnt + 1) r)).1.polls = [] := by
      rw [relayAll_polls]; exact hp
    obtain ⟨j2, hj2, hinv⟩ := finish_busy (t := t) hl hb1 hp1
    refine ⟨j2, ?_, hinv⟩
    rw [jevs_append, hj1]; exact hj2
  · simp only [hlat, if_false]
    cases r with
    | zero => exact finish_busy hl h hp
    | succ r =>
      obtain ⟨j1, hj1, hb1⟩ := relayOne_busy (t := t) h
      refine ⟨j1, ?_, ?_⟩
      · simp only [range'_succ, jevs, hj1]
      · simp only [range'_succ]
        have c := hb1.core
        refine Inv.busy p r ⟨⟨c.flags, c.le, c.jw, c.sent, c.hi, c.fl, c.clean⟩, hb1.running, hb1.opn,
          hb1.bound, hb1.drain⟩ ?_
        show (relayOne t s (s.relayedCnt + 1)).polls ++ [⟨p, range' (s.relayedCnt + 1 + 1) r⟩]
          = [⟨p, range' (s.relayedCnt + 1 + 1) r⟩]
        have : (relayOne t s (s.relayedCnt + 1)).polls = [] := hp
        rw [this]; rfl

end HappyModel.C19.Outbox
