import HappyModel.C19.StreamSpec
import HappyProofs.C19.Assign
/-!
# C19 — consumer group: after every rebalance each partition belongs to exactly one member

The group's member list has no duplicates (a join only adds an absent name, a leave erases one),
the lists remembered by the sticky strategy are disjoint, and every rebalance calls the strategy
on `0 … n-1` and the current members — so by `HappyProofs.C19.Assign` every rebalance result is a
partition (or `{}` for an empty group), whatever the order of the join / leave segments.
-/
namespace HappyModel.C19

theorem group_insertNew_nodup {l : List Nat} (h : l.Nodup) (k : Nat) : (insertNew l k).Nodup := by
  unfold insertNew
  split
  · exact h
  · rename_i hk
    rw [List.nodup_append]
    refine ⟨h, by simp, ?_⟩
    intro a ha b hb
    simp only [List.mem_singleton] at hb
    subst hb
    intro hab
    subst hab
    exact hk ha

/-- what the strategy returns is accepted by the spec's `callOk` -/
theorem assignWith_callOk (st : Strategy) (prev : Assignment) (hprev : (flat prev).Nodup)
    (n : Nat) (members : List Nat) (hm : members.Nodup) :
    callOk (List.range n, members) (assignWith st prev (List.range n) members) = true := by
  unfold callOk
  by_cases hne : members = []
  · subst hne
    cases st <;> simp [assignWith, rangeAssign, rrAssign, stickyAssign]
  · have he : members.isEmpty = false := by simpa using hne
    simp only [he]
    cases st with
    | range => exact range_is_partition _ _ hm List.nodup_range hne
    | rr => exact rr_is_partition _ _ hm List.nodup_range hne
    | sticky => exact sticky_step_is_partition prev hprev _ _ hm List.nodup_range hne

/-- the sticky strategy's memory stays disjoint across rebalances -/
theorem rebalance_prev_nodup (cfg : SCfg) (s : Stream) (hm : s.members.Nodup)
    (hp : (flat s.prev).Nodup) : (flat (s.rebalance cfg).prev).Nodup := by
  unfold Stream.rebalance
  by_cases hs : cfg.strat = .sticky
  · simp only [hs, if_true, assignWith]
    exact flat_stickyAssign_nodup s.prev hp _ _ hm List.nodup_range
  · simp only [hs, if_false]
    exact hp

theorem commit_members (cfg : SCfg) (s : Stream) (c : Nat) (offs : List (Nat × Nat)) :
    (s.commit cfg c offs).members = s.members ∧ (s.commit cfg c offs).prev = s.prev := by
  induction offs generalizing s with
  | nil => exact ⟨rfl, rfl⟩
  | cons po rest ih =>
    simp only [Stream.commit]
    have := ih (s.commitOne cfg c po)
    exact this

theorem rebalance_run (cfg : SCfg) (s : Stream) (hm : s.members.Nodup)
    (hp : (flat s.prev).Nodup) (sched : List (Nat × SAct)) :
    jRebalance cfg.n s.members (Stream.run cfg s sched) = none := by
  induction sched generalizing s with
  | nil => rfl
  | cons ta rest ih =>
    obtain ⟨t, a⟩ := ta
    cases a with
    | append key h =>
      simp only [Stream.run, jRebalance, Stream.step, Stream.append]
      exact ih (s.append cfg t key h).1 hm hp
    | read p off mx =>
      simp only [Stream.run, jRebalance, Stream.step]
      exact ih _ hm hp
    | retention =>
      simp only [Stream.run, jRebalance, Stream.step]
      exact ih (s.retention cfg t) hm hp
    | joinA c =>
      simp only [Stream.run, jRebalance, Stream.step]
      exact ih { s with members := insertNew s.members c } (group_insertNew_nodup hm c) hp
    | leaveA c =>
      simp only [Stream.run, jRebalance, Stream.step]
      exact ih { s with members := s.members.erase c, asg := s.asg.filter (fun e => e.1 != c) }
        (hm.erase c) hp
    | joinB c =>
      simp only [Stream.run, jRebalance, Stream.step]
      have hok := assignWith_callOk cfg.strat s.prev hp cfg.n s.members hm
      have : (s.rebalance cfg).asg = assignWith cfg.strat s.prev (List.range cfg.n) s.members := rfl
      rw [this, if_pos hok]
      exact ih (s.rebalance cfg) hm (rebalance_prev_nodup cfg s hm hp)
    | leaveB c =>
      simp only [Stream.run, jRebalance, Stream.step]
      have hok := assignWith_callOk cfg.strat s.prev hp cfg.n s.members hm
      have : (s.rebalance cfg).asg = assignWith cfg.strat s.prev (List.range cfg.n) s.members := rfl
      rw [this, if_pos hok]
      exact ih (s.rebalance cfg) hm (rebalance_prev_nodup cfg s hm hp)
    | commit c offs =>
      simp only [Stream.run, jRebalance, Stream.step]
      have h := commit_members cfg s c offs
      have := ih (s.commit cfg c offs) (h.1 ▸ hm) (h.2 ▸ hp)
      rw [h.1] at this
      exact this
    | poll c mx =>
      simp only [Stream.run, jRebalance, Stream.step]
      exact ih _ hm hp

/-- after every rebalance each partition belongs to exactly one member (all three strategies,
    every join/leave order, overlapping rebalances included) -/
theorem rebalance_is_partition (cfg : SCfg) (sched : List (Nat × SAct)) :
    jRebalance cfg.n [] (Stream.run cfg (Stream.init cfg.n) sched) = none :=
  rebalance_run cfg (Stream.init cfg.n) List.nodup_nil List.nodup_nil sched

/-! ### the statement is not vacuous: 5 partitions, three joins whose segments overlap, a leave
overlapping a join, every strategy; and the judge does reject a wrong assignment -/

def groupDemoSched : List (Nat × SAct) :=
  [(0, .joinA 2), (1, .joinA 0), (2, .joinB 2), (3, .joinA 1), (4, .joinB 0), (5, .leaveA 2),
   (6, .joinB 1), (7, .leaveB 2), (8, .leaveA 0), (9, .leaveA 1), (10, .leaveB 0), (11, .leaveB 1)]

example : jRebalance 5 [] (Stream.run { n := 5, strat := .range } (Stream.init 5) groupDemoSched) = none := by
  decide
example : jRebalance 5 [] (Stream.run { n := 5, strat := .rr } (Stream.init 5) groupDemoSched) = none := by
  decide
example : jRebalance 5 [] (Stream.run { n := 5, strat := .sticky } (Stream.init 5) groupDemoSched) = none := by
  decide
example : ((Stream.run { n := 5, strat := .sticky } (Stream.init 5) groupDemoSched).map (·.out)).getD 6 .unit
    = .rebalanced 3 [(0, [0, 2, 4]), (1, [1, 3])] [1, 3] := by decide
example : ((Stream.run { n := 5, strat := .range } (Stream.init 5) groupDemoSched).map (·.out)).getD 4 .unit
    = .rebalanced 2 [(0, [0, 1]), (1, [2, 3]), (2, [4])] [0, 1] := by decide
example : jRebalance 2 [] [⟨0, .joinA 0, .unit⟩, ⟨1, .joinA 1, .unit⟩,
    ⟨2, .joinB 0, .rebalanced 1 [(0, [0, 1]), (1, [1])] [0, 1]⟩] = some "group/assignment/not-a-partition" := by
  decide

end HappyModel.C19
