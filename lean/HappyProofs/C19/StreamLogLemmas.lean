import HappyModel.C19.StreamSpec
import HappyProofs.C19.StreamCommit
/-!
# C19 — event log: lemmas for "offsets are gap-free and increasing"

Consecutive offsets ending just below the high watermark (`OkFrom`), suffixes kept by retention and
by the lower bound of a read, and what `readPart` / `pollGo` return.
-/
namespace HappyModel.C19

/-! ### the judge's table -/

theorem nextOf_setNext (l : List (Nat × Nat)) (p v q : Nat) :
    nextOf (setNext l p v) q = if q = p then v else nextOf l q := by
  unfold nextOf setNext
  by_cases h : q = p
  · subst h; simp
  · have h1 : (q == p) = false := by simpa using h
    rw [List.lookup_cons, h1, lookup_filter_ne _ h, if_neg h]

/-! ### consecutive offsets ending just below the high watermark -/

/-- the record with `k` successors has offset `hw - (k + 1)` -/
def OkFrom (hw : Nat) : List SRec → Prop
  | [] => True
  | r :: rs => r.off + (rs.length + 1) = hw ∧ OkFrom hw rs

theorem OkFrom.bounds {hw : Nat} {l : List SRec} (h : OkFrom hw l) :
    ∀ r ∈ l, r.off < hw ∧ hw ≤ r.off + l.length := by
  induction l with
  | nil => intro r hr; cases hr
  | cons a rest ih =>
    intro r hr
    obtain ⟨h1, h2⟩ := h
    rcases List.mem_cons.mp hr with rfl | hm
    · simp only [List.length_cons]; omega
    · have := ih h2 r hm; simp only [List.length_cons]; omega

theorem OkFrom.drop {hw : Nat} {l : List SRec} (h : OkFrom hw l) (k : Nat) :
    OkFrom hw (l.drop k) := by
  induction l generalizing k with
  | nil => rw [List.drop_nil]; exact h
  | cons a rest ih =>
    cases k with
    | zero => exact h
    | succ k => exact ih h.2 k

theorem OkFrom.snoc {hw : Nat} {l : List SRec} (h : OkFrom hw l) (key t : Nat) :
    OkFrom (hw + 1) (l ++ [⟨hw, key, t⟩]) := by
  induction l with
  | nil => exact ⟨rfl, trivial⟩
  | cons a rest ih =>
    obtain ⟨h1, h2⟩ := h
    refine ⟨?_, ih h2⟩
    show a.off + ((rest ++ [(⟨hw, key, t⟩ : SRec)]).length + 1) = hw + 1
    rw [List.length_append]; simp only [List.length_cons, List.length_nil]; omega

theorem OkFrom.pairwise {hw : Nat} {l : List SRec} (h : OkFrom hw l) :
    l.Pairwise (fun a b => a.off < b.off) := by
  induction l with
  | nil => exact List.Pairwise.nil
  | cons a rest ih =>
    obtain ⟨h1, h2⟩ := h
    refine List.pairwise_cons.mpr ⟨?_, ih h2⟩
    intro b hb
    have := h2.bounds b hb
    omega

/-- an upward-closed filter keeps a suffix -/
theorem filter_eq_drop {α : Type} (P : α → Bool) (l : List α)
    (h : l.Pairwise (fun a b => P a = true → P b = true)) : ∃ k, l.filter P = l.drop k := by
  induction l with
  | nil => exact ⟨0, rfl⟩
  | cons a rest ih =>
    obtain ⟨h1, h2⟩ := List.pairwise_cons.mp h
    by_cases ha : P a = true
    · refine ⟨0, ?_⟩
      rw [List.drop_zero, List.filter_eq_self]
      intro b hb
      rcases List.mem_cons.mp hb with rfl | hm
      · exact ha
      · exact h1 b hm ha
    · obtain ⟨k, hk⟩ := ih h2
      exact ⟨k + 1, by rw [List.filter_cons_of_neg ha, List.drop_succ_cons, hk]⟩

theorem retainPart_eq_drop (ret : Retention) (t : Nat) (l : List SRec)
    (h : l.Pairwise (fun a b => a.ts ≤ b.ts)) : ∃ k, retainPart ret t l = l.drop k := by
  cases ret with
  | none => exact ⟨0, rfl⟩
  | size n => exact ⟨_, rfl⟩
  | age ns =>
    refine filter_eq_drop _ l (h.imp ?_)
    intro a b hab
    simp only [decide_eq_true_eq]
    omega

/-! ### what a read returns -/

theorem consecutive_map_take {hw : Nat} {l : List SRec} (h : OkFrom hw l) (p m : Nat) :
    consecutive ((l.take m).map (fun r => (p, r.off))) = true := by
  induction l generalizing m with
  | nil => simp [consecutive]
  | cons a rest ih =>
    cases m with
    | zero => simp [consecutive]
    | succ m =>
      cases rest with
      | nil => simp [consecutive]
      | cons b rest' =>
        cases m with
        | zero => simp [consecutive]
        | succ m =>
          have := ih h.2 (m + 1)
          simp only [List.take_succ_cons, List.map_cons] at this ⊢
          obtain ⟨h1, h2, _⟩ := h
          have e : b.off = a.off + 1 := by simp only [List.length_cons] at h1; omega
          rw [e] at this
          simp only [consecutive, this, Bool.and_true, e, beq_self_eq_true, Bool.or_true]

theorem consecutive_append (a b : List (Nat × Nat)) (ha : consecutive a = true)
    (hb : consecutive b = true) (hd : ∀ x ∈ a, ∀ y ∈ b, x.1 ≠ y.1) :
    consecutive (a ++ b) = true := by
  induction a with
  | nil => exact hb
  | cons x a' ih =>
    cases a' with
    | nil =>
      cases b with
      | nil => rfl
      | cons y b' =>
        simp only [List.cons_append, List.nil_append, consecutive, Bool.and_eq_true,
          Bool.or_eq_true, bne_iff_ne]
        exact ⟨Or.inl (hd x (List.mem_cons_self ..) y (List.mem_cons_self ..)), hb⟩
    | cons x' a'' =>
      simp only [List.cons_append, consecutive, Bool.and_eq_true] at ha ⊢
      exact ⟨ha.1, ih ha.2 (fun u hu => hd u (List.mem_cons_of_mem _ hu))⟩

theorem readPart_consecutive (cfg : SCfg) (s : Stream) (p off max : Nat)
    (h : p < cfg.n → OkFrom (s.hwOf p) (s.part p)) :
    consecutive (s.readPart cfg p off max) = true := by
  unfold Stream.readPart
  split
  · next hp =>
    have hok := h hp
    obtain ⟨k, hk⟩ := filter_eq_drop (fun r : SRec => decide (off ≤ r.off)) (s.part p)
      (hok.pairwise.imp (by intro a b hab; simp only [decide_eq_true_eq]; omega))
    rw [hk]
    exact consecutive_map_take (hok.drop k) p _
  · rfl

theorem readPart_mem (cfg : SCfg) (s : Stream) (p off max : Nat)
    (h : p < cfg.n → OkFrom (s.hwOf p) (s.part p)) :
    ∀ po ∈ s.readPart cfg p off max, po.1 = p ∧ p < cfg.n ∧ off ≤ po.2 ∧ po.2 < s.hwOf p := by
  unfold Stream.readPart
  split
  · next hp =>
    intro po hpo
    obtain ⟨r, hr, rfl⟩ := List.mem_map.mp hpo
    obtain ⟨hr1, hr2⟩ := List.mem_filter.mp (List.mem_of_mem_take hr)
    exact ⟨rfl, hp, by simpa using hr2, ((h hp).bounds r hr1).1⟩
  · intro po hpo; cases hpo

/-- a poll over distinct partitions -/
theorem pollGo_ok (cfg : SCfg) (s : Stream) (c max : Nat)
    (hok : ∀ p, p < cfg.n → OkFrom (s.hwOf p) (s.part p)) (ps : List Nat) (acc : List (Nat × Nat))
    (hnd : ps.Nodup) (hc : consecutive acc = true) (hd : ∀ x ∈ acc, x.1 ∉ ps)
    (hq : ∀ x ∈ acc, x.1 < cfg.n ∧ x.2 < s.hwOf x.1) :
    consecutive (Stream.pollGo cfg s c max ps acc) = true ∧
      ∀ x ∈ Stream.pollGo cfg s c max ps acc, x.1 < cfg.n ∧ x.2 < s.hwOf x.1 := by
  induction ps generalizing acc with
  | nil => exact ⟨hc, hq⟩
  | cons p ps ih =>
    simp only [Stream.pollGo]
    split
    · exact ⟨hc, hq⟩
    · obtain ⟨hp, hnd'⟩ := List.nodup_cons.mp hnd
      have hm := readPart_mem cfg s p (s.committedOf c p) (max - acc.length) (hok p)
      apply ih _ hnd'
      · refine consecutive_append _ _ hc (readPart_consecutive _ _ _ _ _ (hok p)) ?_
        intro x hx y hy e
        exact hd x hx (by rw [e, (hm y hy).1]; exact List.mem_cons_self ..)
      · intro x hx
        rcases List.mem_append.mp hx with h | h
        · exact fun hmem => hd x h (List.mem_cons_of_mem _ hmem)
        · rw [(hm x h).1]; exact hp
      · intro x hx
        rcases List.mem_append.mp hx with h | h
        · exact hq x h
        · obtain ⟨h1, h2, _, h4⟩ := hm x h
          rw [h1]; exact ⟨h2, h4⟩

end HappyModel.C19
