import HappyProofs.C15.WalCore
/-! The WAL invariant is preserved by every segment of every frame. -/
namespace HappyModel.C15
open HappyModel.C14

theorem adv_b_some {cfg : Cfg} {st : St} {n : Nat} {f : Frame} {b : Nat} (h : f.b = some b) :
    (advFrame cfg st n f).b = some b ∧ (advFrame cfg st n f).seq0 = f.seq0 := by
  simp [advFrame, h, Option.orElse]

theorem adv_b_none {cfg : Cfg} {st : St} {n : Nat} {f : Frame} (h : f.b = none) :
    (advFrame cfg st n f).b = some n ∧ (advFrame cfg st n f).seq0 = st.nextSeq := by
  simp [advFrame, h, Option.orElse]

/-- assembling the invariant after one frame ran -/
theorem winv_finish {cfg : Cfg} {start : Nat → Pc} {st st' : St} {n : Nat} {log log' : List Ev} {g g' : Ghost}
    {pre post : List Frame} {f f' : Frame} {qx : Option Nat}
    (hL : LInv cfg start ⟨st, pre ++ f :: post, n⟩ log) (hW : WInv start ⟨st, pre ++ f :: post, n⟩ log g)
    (hcore : WCore st' log' g') (hrel : Rel st g st' g' qx)
    (hqx : ∀ h, h ∈ pre ∨ h ∈ post → ∀ q, h.pc.logging = some q → some q ≠ qx)
    (hid : f'.id = f.id)
    (hb1 : ∀ b, f.b = some b → f'.b = some b ∧ f'.seq0 = f.seq0)
    (hb0 : f.b = none → f'.b = some n ∧ f'.seq0 = st.nextSeq)
    (hwalF : ∀ e ∈ st'.wal, e ∈ st.wal ∨ (f'.seq0 = e.seq ∧ start f.id = .pStart e.key e.cell))
    (hfw : FW start st' g' f') :
    WInv start ⟨st', pre ++ f' :: post, n + 1⟩ log' g' := by
  have hfb' : f'.b ≠ none := by
    cases hfb : f.b with
    | none => rw [(hb0 hfb).1]; simp
    | some b => rw [(hb1 b hfb).1]; simp
  have hmemo : ∀ h, h ∈ pre ∨ h ∈ post → h ∈ pre ++ f :: post := by
    intro h hh; rcases hh with hh | hh <;> simp [hh]
  have hfm : f ∈ pre ++ f :: post := by simp
  have hsplit : ∀ h, h ∈ pre ++ f' :: post → (h ∈ pre ∨ h ∈ post) ∨ h = f' := by
    intro h hh
    simp only [List.mem_append, List.mem_cons] at hh
    rcases hh with hh | rfl | hh
    · exact Or.inl (Or.inl hh)
    · exact Or.inr rfl
    · exact Or.inl (Or.inr hh)
  have hstart : ∀ h, h ∈ pre ∨ h ∈ post → ∀ b, h.b = some b → b < n := fun h hh b hb =>
    ((hL.frames h (hmemo h hh)).started b hb).1
  have hwrite' : IsWrite start f' ↔ IsWrite start f := by unfold IsWrite; rw [hid]
  refine ⟨hcore, ?_, ?_, ?_, ?_⟩
  · intro e he
    rcases hwalF e he with he | ⟨h1, h2⟩
    · obtain ⟨h, hh, e1, e2, e3⟩ := hW.walFrame e he
      simp only [List.mem_append, List.mem_cons] at hh
      rcases hh with hh | rfl | hh
      · exact ⟨h, by simp [hh], e1, e2, e3⟩
      · cases hfb : h.b with
        | none => exact absurd hfb e1
        | some b =>
          refine ⟨f', by simp, hfb', ?_, by rw [hid]; exact e3⟩
          rw [(hb1 b hfb).2]; exact e2
      · exact ⟨h, by simp [hh], e1, e2, e3⟩
    · exact ⟨f', by simp, hfb', h1, by rw [hid]; exact h2⟩
  · intro h1 hh1 h2 hh2 b e1 e2
    rcases hsplit h1 hh1 with o1 | rfl <;> rcases hsplit h2 hh2 with o2 | rfl
    · exact hW.bDistinct h1 (hmemo h1 o1) h2 (hmemo h2 o2) b e1 e2
    · cases hfb : f.b with
      | none => rw [(hb0 hfb).1] at e2; injection e2 with e2; have := hstart h1 o1 b e1; omega
      | some b0 =>
        rw [(hb1 b0 hfb).1] at e2; injection e2 with e2; subst e2
        rw [hid]; exact hW.bDistinct h1 (hmemo h1 o1) f hfm b0 e1 hfb
    · cases hfb : f.b with
      | none => rw [(hb0 hfb).1] at e1; injection e1 with e1; have := hstart h2 o2 b e2; omega
      | some b0 =>
        rw [(hb1 b0 hfb).1] at e1; injection e1 with e1; subst e1
        rw [hid]; exact hW.bDistinct f hfm h2 (hmemo h2 o2) b0 hfb e2
    · rfl
  · intro h1 hh1 h2 hh2 b b' e1 e2 hlt w1 w2
    rcases hsplit h1 hh1 with o1 | rfl <;> rcases hsplit h2 hh2 with o2 | rfl
    · exact hW.seqOrd h1 (hmemo h1 o1) h2 (hmemo h2 o2) b b' e1 e2 hlt w1 w2
    · cases hfb : f.b with
      | none =>
        rw [(hb0 hfb).2]
        exact ((hW.fw h1 (hmemo h1 o1)).seq (by rw [e1]; simp)).2 w1
      | some b0 =>
        rw [(hb1 b0 hfb).1] at e2; injection e2 with e2; subst e2
        rw [(hb1 b0 hfb).2]
        exact hW.seqOrd h1 (hmemo h1 o1) f hfm b b0 e1 hfb hlt w1 (hwrite'.mp w2)
    · cases hfb : f.b with
      | none => rw [(hb0 hfb).1] at e1; injection e1 with e1; have := hstart h2 o2 b' e2; omega
      | some b0 =>
        rw [(hb1 b0 hfb).1] at e1; injection e1 with e1; subst e1
        rw [(hb1 b0 hfb).2]
        exact hW.seqOrd f hfm h2 (hmemo h2 o2) b0 b' hfb e2 hlt (hwrite'.mp w1) w2
    · rw [e1] at e2; injection e2 with e2; omega
  · intro h hh
    rcases hsplit h hh with o | rfl
    · exact (hW.fw h (hmemo h o)).mono hrel (hqx h o)
    · exact hfw

/-- per-frame facts of a frame whose new program counter neither logs nor flushes -/
theorem fw_plain {start : Nat → Pc} {st' : St} {g' : Ghost} {f' : Frame}
    (hseq : f'.b ≠ none → 1 ≤ f'.seq0 ∧ (IsWrite start f' → f'.seq0 < st'.nextSeq))
    (hl : f'.pc.logging = none) (hf : ∀ t b, f'.pc ≠ .pFlush t b) : FW start st' g' f' :=
  ⟨hseq, fun q h => (by rw [hl] at h; cases h), fun t b h => absurd h (hf t b)⟩

theorem compactStart_eq (cfg : Cfg) (s : St) : ∃ c, (compactStart cfg s).1 = { s with compacting := c } := by
  unfold compactStart
  split
  · exact ⟨s.compacting, rfl⟩
  · split
    · exact ⟨s.compacting, rfl⟩
    · split
      · exact ⟨s.compacting, rfl⟩
      · exact ⟨true, rfl⟩

theorem shouldSync_eq (p : Policy) (s : St) : ∃ o, (shouldSync p s).2 = { s with oracle := o } := by
  cases p
  · exact ⟨s.oracle, rfl⟩
  · exact ⟨s.oracle, rfl⟩
  · exact ⟨s.oracle.tail, rfl⟩

end HappyModel.C15
