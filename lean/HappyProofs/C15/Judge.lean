import HappyProofs.C15.Sem
import HappyProofs.C15.Crash
/-!
# C15 — the semantic crash facts imply that the Spec judge accepts the model's own observations

`CrashFacts` (frames vocabulary) ⟹ `judgeCrash … = none` (observation vocabulary of `Spec.lean`).
-/
namespace HappyModel.C15
open HappyModel.C14

/-! ### small list lemmas -/

theorem lookup_mem {α : Type} (l : List (Nat × α)) (i : Nat) (x : α) (h : l.lookup i = some x) :
    (i, x) ∈ l := by
  induction l with
  | nil => cases h
  | cons a r ih =>
    obtain ⟨j, y⟩ := a
    simp only [List.lookup] at h
    split at h
    · rename_i heq
      have hij : i = j := by simpa using heq
      injection h with h
      subst hij; subst h
      exact List.mem_cons_self ..
    · exact List.mem_cons_of_mem _ (ih h)

/-- in a list whose `filterMap g` image has no duplicates, `g a = some v` names `a` -/
theorem filterMap_nodup_inj {α β : Type} (g : α → Option β) (l : List α) (hn : (l.filterMap g).Nodup)
    (a b : α) (v : β) (ha : a ∈ l) (hb : b ∈ l) (hga : g a = some v) (hgb : g b = some v) : a = b := by
  induction l with
  | nil => cases ha
  | cons x r ih =>
    cases hgx : g x with
    | none =>
      rw [List.filterMap_cons, hgx] at hn
      rcases List.mem_cons.mp ha with rfl | ha'
      · rw [hgx] at hga; cases hga
      · rcases List.mem_cons.mp hb with rfl | hb'
        · rw [hgx] at hgb; cases hgb
        · exact ih hn ha' hb'
    | some u =>
      rw [List.filterMap_cons, hgx] at hn
      have hn' := List.nodup_cons.mp hn
      rcases List.mem_cons.mp ha with rfl | ha'
      · rcases List.mem_cons.mp hb with rfl | hb'
        · rfl
        · exfalso
          rw [hgx] at hga
          injection hga with hga
          subst hga
          exact hn'.1 (List.mem_filterMap.mpr ⟨b, hb', hgb⟩)
      · rcases List.mem_cons.mp hb with rfl | hb'
        · exfalso
          rw [hgx] at hgb
          injection hgb with hgb
          subst hgb
          exact hn'.1 (List.mem_filterMap.mpr ⟨a, ha', hga⟩)
        · exact ih hn'.2 ha' hb'

theorem map_nodup_inj {α β : Type} (g : α → β) (l : List α) (hn : (l.map g).Nodup)
    (a b : α) (ha : a ∈ l) (hb : b ∈ l) (hg : g a = g b) : a = b := by
  induction l with
  | nil => cases ha
  | cons x r ih =>
    rw [List.map_cons] at hn
    have hn' := List.nodup_cons.mp hn
    rcases List.mem_cons.mp ha with rfl | ha'
    · rcases List.mem_cons.mp hb with rfl | hb'
      · rfl
      · exact absurd (hg ▸ List.mem_map_of_mem hb') hn'.1
    · rcases List.mem_cons.mp hb with rfl | hb'
      · exact absurd (hg ▸ List.mem_map_of_mem ha') hn'.1
      · exact ih hn'.2 ha' hb'

/-! ### the write record of a frame -/

/-- the function `wObsOf` maps over the frames -/
def recOf (ops : List (Nat × OKind)) (f : Frame) : Option WRec :=
  match f.b, ops.lookup f.id with
  | some b, some (.put k v) => some ⟨f.id, k, some v, f.seq0, b, f.e⟩
  | some b, some (.del k) => some ⟨f.id, k, none, f.seq0, b, f.e⟩
  | _, _ => none

theorem wObsOf_eq (ops : List (Nat × OKind)) (y : Sys) : wObsOf ops y = y.frames.filterMap (recOf ops) := rfl

theorem startFor_pStart {ops : List (Nat × OKind)} {i : Nat} {k : Key} {c : Cell}
    (h : startFor ops i = .pStart k c) :
    (∃ v, c = some v ∧ ops.lookup i = some (.put k v)) ∨ (c = none ∧ ops.lookup i = some (.del k)) := by
  unfold startFor at h
  cases hl : ops.lookup i with
  | none => rw [hl] at h; cases h
  | some kind =>
    rw [hl] at h
    cases kind with
    | put k' v =>
      simp only [Driver.startPc] at h
      injection h with h1 h2
      subst h1; subst h2
      exact Or.inl ⟨v, rfl, rfl⟩
    | del k' =>
      simp only [Driver.startPc] at h
      injection h with h1 h2
      subst h1; subst h2
      exact Or.inr ⟨rfl, rfl⟩
    | get k' => simp only [Driver.startPc] at h; cases h
    | scan lo hi => simp only [Driver.startPc] at h; cases h

/-- a started write frame has a record -/
theorem recOf_of_start {ops : List (Nat × OKind)} {f : Frame} {b : Nat} {k : Key} {c : Cell}
    (hb : f.b = some b) (hs : startFor ops f.id = .pStart k c) :
    recOf ops f = some ⟨f.id, k, c, f.seq0, b, f.e⟩ := by
  unfold recOf
  rcases startFor_pStart hs with ⟨v, rfl, hl⟩ | ⟨rfl, hl⟩
  · rw [hb, hl]
  · rw [hb, hl]

/-- a record comes from a started write frame -/
theorem recOf_some {ops : List (Nat × OKind)} {f : Frame} {r : WRec} (h : recOf ops f = some r) :
    f.b = some r.b ∧ r.id = f.id ∧ r.seq = f.seq0 ∧ r.e = f.e ∧ startFor ops f.id = .pStart r.key r.cell := by
  unfold recOf at h
  unfold startFor
  cases hb : f.b with
  | none => rw [hb] at h; cases h
  | some b =>
    cases hl : ops.lookup f.id with
    | none => rw [hb, hl] at h; cases h
    | some kind =>
      rw [hb, hl] at h
      cases kind with
      | put k v =>
        simp only at h
        injection h with h; subst h
        exact ⟨rfl, rfl, rfl, rfl, rfl⟩
      | del k =>
        simp only at h
        injection h with h; subst h
        exact ⟨rfl, rfl, rfl, rfl, rfl⟩
      | get k => cases h
      | scan lo hi => cases h

theorem mem_wObsOf {ops : List (Nat × OKind)} {y : Sys} {r : WRec} :
    r ∈ wObsOf ops y ↔ ∃ f ∈ y.frames, recOf ops f = some r := by
  rw [wObsOf_eq]; exact List.mem_filterMap

/-- put values are pairwise distinct: a value names its operation -/
theorem put_value_names_id {ops : List (Nat × OKind)} (hd : DistinctPuts ops) {i j : Nat} {k k' : Key} {v : Nat}
    (hi : startFor ops i = .pStart k (some v)) (hj : startFor ops j = .pStart k' (some v)) : i = j := by
  rcases startFor_pStart hi with ⟨v1, h1, l1⟩ | ⟨h1, _⟩
  · rcases startFor_pStart hj with ⟨v2, h2, l2⟩ | ⟨h2, _⟩
    · injection h1 with h1; injection h2 with h2
      subst h1; subst h2
      have m1 := lookup_mem ops i _ l1
      have m2 := lookup_mem ops j _ l2
      have := filterMap_nodup_inj _ ops hd.2 (i, OKind.put k v) (j, OKind.put k' v) v m1 m2 rfl rfl
      injection this
    · cases h2
  · cases h1

/-! ### `supersededBy` -/

theorem supersededBy_none {ops : List (Nat × OKind)} {y : Sys} {k : Key} {w : Frame}
    (hns : NotSuperseded (startFor ops) y k w) (r : WRec) (hid : r.id = w.id) (he : r.e = w.e) :
    supersededBy (wObsOf ops y) y.st.synced k r = none := by
  unfold supersededBy
  rw [List.find?_eq_none]
  intro r' hr' hp
  obtain ⟨w', hw', hrec⟩ := mem_wObsOf.mp hr'
  obtain ⟨hb', hid', hseq', _, hst'⟩ := recOf_some hrec
  simp only [Bool.and_eq_true, beq_iff_eq, bne_iff_ne, ne_eq, WRec.durable, decide_eq_true_eq] at hp
  obtain ⟨⟨⟨hk, hne⟩, hdur⟩, hlt⟩ := hp
  cases hre : r.e with
  | none => rw [hre] at hlt; cases hlt
  | some e =>
    rw [hre] at hlt
    simp only [decide_eq_true_eq] at hlt
    have hne' : w'.id ≠ w.id := by rw [← hid', ← hid]; exact hne
    rw [hk] at hst'
    rw [hseq'] at hdur
    exact hns w' hw' hne' r'.b r'.cell hb' hst' hdur e (by rw [← he, hre]) hlt

/-! ### one key -/

theorem judgeKey_of_facts {ops : List (Nat × OKind)} {y : Sys}
    (hd : DistinctPuts ops) (hids : (y.frames.map (·.id)).Nodup) (hC : CrashFacts (startFor ops) y) (k : Key) :
    judgeKey (wObsOf ops y) y.st.synced k (y.st.crash.recover.abs k) = none := by
  cases hx : y.st.crash.recover.abs k with
  | some v =>
    obtain ⟨w, hw, hwb, hws, hns⟩ := hC.some k v hx
    simp only [judgeKey]
    cases hf : (wObsOf ops y).find? fun w => w.key == k && w.cell == some v with
    | none =>
      exfalso
      obtain ⟨b, hb⟩ := Option.ne_none_iff_exists'.mp hwb
      have hmem : (⟨w.id, k, some v, w.seq0, b, w.e⟩ : WRec) ∈ wObsOf ops y :=
        mem_wObsOf.mpr ⟨w, hw, recOf_of_start hb hws⟩
      have := List.find?_eq_none.mp hf _ hmem
      simp at this
    | some r =>
      simp only
      have hp := List.find?_some hf
      have hr := List.mem_of_find?_eq_some hf
      simp only [Bool.and_eq_true, beq_iff_eq] at hp
      obtain ⟨hk, hc⟩ := hp
      obtain ⟨f, hfm, hrec⟩ := mem_wObsOf.mp hr
      obtain ⟨_, hid, _, he, hst⟩ := recOf_some hrec
      rw [hk, hc] at hst
      have hfid : f.id = w.id := put_value_names_id hd hst hws
      have hfw : f = w := map_nodup_inj (·.id) y.frames hids f w hfm hw hfid
      subst hfw
      rw [supersededBy_none hns r hid he]
  | none =>
    simp only [judgeKey]
    rcases hC.none k hx with hA | ⟨d, hdm, hdb, hds, hns⟩
    · have hany : ((wObsOf ops y).any fun w' => w'.key == k && w'.durable y.st.synced) = false := by
        rw [List.any_eq_false]
        intro r hr hp
        obtain ⟨f, hfm, hrec⟩ := mem_wObsOf.mp hr
        obtain ⟨hb, _, hseq, _, hst⟩ := recOf_some hrec
        simp only [Bool.and_eq_true, beq_iff_eq, WRec.durable, decide_eq_true_eq] at hp
        obtain ⟨hk, hdur⟩ := hp
        rw [hk] at hst
        rw [hseq] at hdur
        exact hA f hfm r.cell (by rw [hb]; exact fun h => by cases h) hst hdur
      rw [hany]
      rfl
    · obtain ⟨b, hb⟩ := Option.ne_none_iff_exists'.mp hdb
      have hmem : (⟨d.id, k, none, d.seq0, b, d.e⟩ : WRec) ∈ wObsOf ops y :=
        mem_wObsOf.mpr ⟨d, hdm, recOf_of_start hb hds⟩
      have hany : ((wObsOf ops y).any fun d' => d'.key == k && d'.cell.isNone &&
          (supersededBy (wObsOf ops y) y.st.synced k d').isNone) = true := by
        rw [List.any_eq_true]
        refine ⟨_, hmem, ?_⟩
        rw [supersededBy_none hns _ rfl rfl]
        simp
      rw [hany, Bool.or_true]
      rfl

/-! ### the three read lists agree -/

theorem abs_recover_recover (s : St) (k : Key) : s.recover.recover.abs k = s.recover.abs k := by
  unfold St.abs; rw [recover_idempotent]

theorem abs_second_crash (s : St) (k : Key) :
    s.crash.recover.recover.crash.recover.abs k = s.crash.recover.abs k := by
  have h1 : s.crash.recover.recover.crash = s.crash.recover.crash := rfl
  unfold St.abs
  rw [h1, recover_crash_idempotent]

theorem readsOf_congr (nkeys : Nat) (s t : St) (h : ∀ k, s.abs k = t.abs k) : readsOf nkeys s = readsOf nkeys t := by
  unfold readsOf
  have : s.abs = t.abs := funext h
  rw [this]

/-! ### the judge accepts -/

/-- the model's own observations of a crash (write records, `synced_up_to`, the three rounds of reads)
    satisfy the Spec predicate whenever the semantic crash facts hold -/
theorem judgeCrash_of_facts (cfg : Cfg) (nkeys : Nat) (ops : List (Nat × OKind)) (y : Sys) (log : List Ev)
    (hd : DistinctPuts ops) (hL : LInv cfg (startFor ops) y log) (hC : CrashFacts (startFor ops) y) :
    judgeCrash (wObsOf ops y) y.st.synced (readsOf nkeys y.st.crash.recover)
      (readsOf nkeys y.st.crash.recover.recover) (readsOf nkeys y.st.crash.recover.recover.crash.recover) = none := by
  rw [readsOf_congr nkeys y.st.crash.recover.recover y.st.crash.recover (abs_recover_recover _),
    readsOf_congr nkeys y.st.crash.recover.recover.crash.recover y.st.crash.recover (abs_second_crash _)]
  unfold judgeCrash
  rw [bne_self_eq_false]
  simp only [Bool.false_eq_true, if_false]
  rw [List.findSome?_eq_none_iff]
  rintro ⟨x, i⟩ hx
  have hget := List.mem_zipIdx_iff_getElem?.mp hx
  simp only [readsOf, List.getElem?_map] at hget
  simp only [Option.map_eq_none_iff]
  cases hr : (List.range nkeys)[i]? with
  | none => rw [hr] at hget; cases hget
  | some j =>
    rw [hr] at hget
    simp only [Option.map_some, Option.some.injEq] at hget
    have hlt : i < nkeys := by
      have := (List.getElem?_eq_some_iff.mp hr).1
      simpa using this
    rw [List.getElem?_range hlt] at hr
    injection hr with hr
    subst hr
    rw [← hget]
    exact judgeKey_of_facts hd hL.ids hC i

end HappyModel.C15
