import HappyProofs.C15.Phases
import HappyProofs.C15.Survive
/-!
# C15 — later phases of a sequence of crashes in which no flush / compaction installs (`NoInstall`)

Along such a phase the SSTable levels are constant and the log only grows by appends.  `PInv` is the run
invariant relating the system `y0` a phase starts from to the current system.
-/
namespace HappyModel.C15
open HappyModel.C14

/-- no flush-install and no compaction-install segment executes along the schedule -/
def NoInstall (cfg : Cfg) (y : Sys) (sched : List Nat) : Prop :=
  ∀ n, ∀ f ∈ (y.run cfg (sched.take n)).frames, sched[n]? = some f.id →
    (∀ t b, f.pc ≠ .pFlush t b) ∧ (∀ j, f.pc ≠ .pCompact j)

def installFreePc : Pc → Bool
  | .pFlush _ _ => false
  | .pCompact _ => false
  | _ => true

/-- decidable form, for concrete schedules -/
def noInstallB (cfg : Cfg) (y : Sys) (sched : List Nat) : Bool :=
  (List.range sched.length).all fun n =>
    (y.run cfg (sched.take n)).frames.all fun f => !(sched[n]? == some f.id) || installFreePc f.pc

theorem noInstall_of_B {cfg : Cfg} {y : Sys} {sched : List Nat} (h : noInstallB cfg y sched = true) :
    NoInstall cfg y sched := by
  intro n f hf hs
  have hn : n < sched.length := by
    cases Nat.lt_or_ge n sched.length with
    | inl h => exact h
    | inr h => rw [List.getElem?_eq_none h] at hs; cases hs
  unfold noInstallB at h
  rw [List.all_eq_true] at h
  have h1 := h n (List.mem_range.mpr hn)
  rw [List.all_eq_true] at h1
  have h2 := h1 f hf
  simp only [Bool.or_eq_true, Bool.not_eq_true', beq_eq_false_iff_ne, ne_eq] at h2
  rcases h2 with h2 | h2
  · exact absurd hs h2
  · constructor
    · intro t b hpc; rw [hpc] at h2; cases h2
    · intro j hpc; rw [hpc] at h2; cases h2

/-- the head condition of `NoInstall` -/
def InstallFree (y : Sys) (id : Nat) : Prop :=
  ∀ f ∈ y.frames, f.id = id → (∀ t b, f.pc ≠ .pFlush t b) ∧ (∀ j, f.pc ≠ .pCompact j)

theorem noInstall_cons {cfg : Cfg} {y : Sys} {id : Nat} {ids : List Nat} (h : NoInstall cfg y (id :: ids)) :
    InstallFree y id ∧ NoInstall cfg (y.step cfg id) ids := by
  constructor
  · intro f hf hid
    exact h 0 f hf (by simp [hid])
  · intro n f hf hs
    exact h (n + 1) f hf (by simpa using hs)

/-! ### one segment other than an install -/

theorem stepOp_light {cfg : Cfg} {p : Policy} (hw : cfg.wal = some p) (s : St) (pc : Pc)
    (hf : ∀ t b, pc ≠ .pFlush t b) (hc : ∀ j, pc ≠ .pCompact j) :
    (stepOp cfg s pc).1.levels = s.levels ∧
    ((∃ k c, pc = .pStart k c ∧ (stepOp cfg s pc).1.wal = s.wal ++ [⟨s.nextSeq, k, c⟩] ∧
        (stepOp cfg s pc).1.nextSeq = s.nextSeq + 1) ∨
     ((∀ k c, pc ≠ .pStart k c) ∧ (stepOp cfg s pc).1.wal = s.wal ∧ (stepOp cfg s pc).1.nextSeq = s.nextSeq)) := by
  cases pc with
  | pStart k c =>
    refine ⟨?_, Or.inl ⟨k, c, rfl, ?_, ?_⟩⟩ <;> simp only [stepOp, putStart, hw]
  | pWal k c q =>
    have key : (stepOp cfg s (.pWal k c q)).1.levels = s.levels ∧ (stepOp cfg s (.pWal k c q)).1.wal = s.wal ∧
        (stepOp cfg s (.pWal k c q)).1.nextSeq = s.nextSeq := by
      simp only [stepOp, walWritten, hw]
      obtain ⟨o, ho⟩ := shouldSync_eq p s
      by_cases hb : (shouldSync p s).1 = true
      · simp [hb, ho]
      · simp [hb, ho, memInsert, unpend]
    exact ⟨key.1, Or.inr ⟨(fun _ _ h => by cases h), key.2.1, key.2.2⟩⟩
  | pSync k c q =>
    refine ⟨?_, Or.inr ⟨(fun _ _ h => by cases h), ?_, ?_⟩⟩ <;> simp only [stepOp, walSynced, memInsert, unpend]
  | pMem mid =>
    have key : (stepOp cfg s (.pMem mid)).1.levels = s.levels ∧ (stepOp cfg s (.pMem mid)).1.wal = s.wal ∧
        (stepOp cfg s (.pMem mid)).1.nextSeq = s.nextSeq := by
      simp only [stepOp, afterMem, flushStart]
      split
      · split <;> exact ⟨rfl, rfl, rfl⟩
      · exact ⟨rfl, rfl, rfl⟩
    exact ⟨key.1, Or.inr ⟨(fun _ _ h => by cases h), key.2.1, key.2.2⟩⟩
  | pFlush t b => exact absurd rfl (hf t b)
  | pCompact j => exact absurd rfl (hc j)
  | gStart k =>
    refine ⟨?_, Or.inr ⟨(fun _ _ h => by cases h), ?_, ?_⟩⟩ <;> simp only [stepOp, (getStart_plain cfg s k).1]
  | gAt k i t r =>
    refine ⟨?_, Or.inr ⟨(fun _ _ h => by cases h), ?_, ?_⟩⟩ <;> simp only [stepOp, (getResume_plain cfg s k i t r).1]
  | sStart lo hi =>
    refine ⟨?_, Or.inr ⟨(fun _ _ h => by cases h), ?_, ?_⟩⟩ <;> simp only [stepOp, (scanStart_plain s lo hi).1]
  | sAt lo hi i t r acc =>
    refine ⟨?_, Or.inr ⟨(fun _ _ h => by cases h), ?_, ?_⟩⟩ <;> simp only [stepOp, (scanResume_plain s lo hi i t r acc).1]
  | done r => exact ⟨rfl, Or.inr ⟨(fun _ _ h => by cases h), rfl, rfl⟩⟩

theorem pcCons_isStart {o pc : Pc} (hc : PcCons o pc) (hs : pc.isStart = true) : pc = o := by
  cases o with
  | pStart k c =>
    simp only [PcCons] at hc
    rcases hc with rfl | ⟨q, rfl⟩ | ⟨q, rfl⟩ | ha
    · rfl
    · cases hs
    · cases hs
    · rw [(applied_facts ha).1] at hs; cases hs
  | gStart k =>
    simp only [PcCons] at hc
    rcases hc with rfl | ⟨i, t, r, rfl⟩ | ⟨c, rfl⟩
    · rfl
    · cases hs
    · cases hs
  | sStart lo hi =>
    simp only [PcCons] at hc
    rcases hc with rfl | ⟨i, t, r, acc, rfl⟩ | ⟨c, rfl⟩
    · rfl
    · cases hs
    · cases hs
  | _ => exact absurd hc (by simp [PcCons])

/-! ### the run invariant of a phase without installs -/

/-- operation `i` had not started when the phase began -/
def NewId (y0 : Sys) (i : Nat) : Prop := ∃ f0 ∈ y0.frames, f0.id = i ∧ f0.b = none

/-- a frame that started during the phase -/
def IsNew (y0 : Sys) (f : Frame) : Prop := f.b ≠ none ∧ NewId y0 f.id

/-- `y0`: the system the phase started from; `y`: the current system -/
structure PInv (start : Nat → Pc) (y0 y : Sys) : Prop where
  levels : y.st.levels = y0.st.levels
  wal : ∃ new, y.st.wal = y0.st.wal ++ new ∧ ∀ e ∈ new, y0.st.nextSeq ≤ e.seq
  sorted : (y.st.wal.map (·.seq)).Pairwise (· < ·)
  walLt : ∀ e ∈ y.st.wal, e.seq < y.st.nextSeq
  nseq : y0.st.nextSeq ≤ y.st.nextSeq
  synced : y0.st.synced ≤ y.st.synced
  old : ∀ f ∈ y.frames, f ∈ y0.frames ∨ IsNew y0 f
  bn : ∀ f ∈ y.frames, ∀ b, f.b = some b → b < y.n
  entry : ∀ f ∈ y.frames, IsNew y0 f → ∀ k c, start f.id = .pStart k c →
    y0.st.nextSeq ≤ f.seq0 ∧ f.seq0 < y.st.nextSeq ∧ ∃ e ∈ y.st.wal, e.seq = f.seq0 ∧ e.key = k ∧ e.cell = c
  walFrame : ∀ e ∈ y.st.wal, y0.st.nextSeq ≤ e.seq →
    ∃ f ∈ y.frames, IsNew y0 f ∧ f.seq0 = e.seq ∧ start f.id = .pStart e.key e.cell
  ord : ∀ f ∈ y.frames, ∀ f' ∈ y.frames, IsNew y0 f → IsNew y0 f' → IsWrite start f → IsWrite start f' →
    ∀ b b', f.b = some b → f'.b = some b' → b < b' → f.seq0 < f'.seq0
  ended : ∀ f ∈ y.frames, ∀ b e, f.b = some b → f.e = some e → b ≤ e
  keep : ∀ f ∈ y0.frames, f.b ≠ none → f ∈ y.frames

theorem pinv_step {cfg : Cfg} {p : Policy} {start : Nat → Pc} {y0 y : Sys} {acc : List Nat} (hw : cfg.wal = some p)
    (hA : AInv cfg start y acc) (h : PInv start y0 y) (id : Nat) (hs : SyncOk y id) (hni : InstallFree y id)
    (hun : ∀ f ∈ y0.frames, f.id = id → f.b = none) : PInv start y0 (y.step cfg id) := by
  rcases astep_cases cfg y id with ⟨h0, _⟩ | ⟨pre, f, post, h1, h2, h3, h4, h5, h6⟩
  · rw [h0]
    exact ⟨h.levels, h.wal, h.sorted, h.walLt, h.nseq, h.synced, h.old,
      fun f hf b hb => Nat.lt_succ_of_lt (h.bn f hf b hb), h.entry, h.walFrame, h.ord, h.ended, h.keep⟩
  · rw [h5]
    have hs' := hs f h6
    clear hs h5 h6
    obtain ⟨st, frames, n⟩ := y
    simp only at h1 hs' ⊢
    subst h1
    have hfm : f ∈ pre ++ f :: post := by simp
    have hfree := hni f hfm h2
    have hlight := stepOp_light hw st f.pc hfree.1 hfree.2
    have hmono : st.synced ≤ (stepOp cfg st f.pc).1.synced := by
      rw [synced_stepOp]
      cases hpc : f.pc <;> first | exact Nat.le_refl _ | exact hs' _ _ _ hpc
    have hsplit : ∀ g, g ∈ pre ++ advFrame cfg st n f :: post → (g ∈ pre ∨ g ∈ post) ∨ g = advFrame cfg st n f := by
      intro g hg
      simp only [List.mem_append, List.mem_cons] at hg
      rcases hg with hg | rfl | hg
      · exact Or.inl (Or.inl hg)
      · exact Or.inr rfl
      · exact Or.inl (Or.inr hg)
    have hmemo : ∀ g, g ∈ pre ∨ g ∈ post → g ∈ pre ++ f :: post := by
      intro g hg; rcases hg with hg | hg <;> simp [hg]
    have hmemn : ∀ g, g ∈ pre ∨ g ∈ post → g ∈ pre ++ advFrame cfg st n f :: post := by
      intro g hg; rcases hg with hg | hg <;> simp [hg]
    have hfm' : advFrame cfg st n f ∈ pre ++ advFrame cfg st n f :: post := by simp
    have hb' : (advFrame cfg st n f).b ≠ none := by
      cases hfb : f.b with
      | none => rw [(adv_b_none hfb).1]; simp
      | some b => rw [(adv_b_some hfb).1]; simp
    have hnid : NewId y0 f.id := by
      rcases h.old f hfm with hf0 | hn
      · exact ⟨f, hf0, rfl, hun f hf0 h2⟩
      · exact hn.2
    have hnew' : IsNew y0 (advFrame cfg st n f) := ⟨hb', hnid⟩
    have hcase : (f.b = none ∧ (advFrame cfg st n f).b = some n ∧ (advFrame cfg st n f).seq0 = st.nextSeq ∧
          f.pc = start f.id) ∨
        (∃ b, f.b = some b ∧ (advFrame cfg st n f).b = some b ∧ (advFrame cfg st n f).seq0 = f.seq0 ∧ b < n ∧
          IsNew y0 f ∧ ∀ k c, f.pc ≠ .pStart k c) := by
      cases hfb : f.b with
      | none =>
        exact Or.inl ⟨rfl, (adv_b_none hfb).1, (adv_b_none hfb).2,
          pcCons_isStart (hA.cons f hfm) (hA.unstarted f hfm hfb)⟩
      | some b =>
        refine Or.inr ⟨b, rfl, (adv_b_some hfb).1, (adv_b_some hfb).2, h.bn f hfm b hfb, ⟨by rw [hfb]; simp, hnid⟩, ?_⟩
        intro k c hpc
        have := hA.started f hfm (by rw [hfb]; simp)
        rw [hpc] at this; cases this
    have hnsle : st.nextSeq ≤ (stepOp cfg st f.pc).1.nextSeq := by
      rcases hlight.2 with ⟨_, _, _, _, e⟩ | ⟨_, _, e⟩ <;> omega
    have hsub : ∀ e ∈ st.wal, e ∈ (stepOp cfg st f.pc).1.wal := by
      intro e he
      rcases hlight.2 with ⟨_, _, _, e1, _⟩ | ⟨_, e1, _⟩ <;> rw [e1]
      · exact List.mem_append_left _ he
      · exact he
    have hkeep : ∀ g ∈ pre ++ f :: post, IsNew y0 g →
        ∃ g' ∈ pre ++ advFrame cfg st n f :: post, IsNew y0 g' ∧ g'.seq0 = g.seq0 ∧ g'.id = g.id := by
      intro g hg hgn
      simp only [List.mem_append, List.mem_cons] at hg
      rcases hg with hg | rfl | hg
      · exact ⟨g, hmemn g (Or.inl hg), hgn, rfl, rfl⟩
      · obtain ⟨b, hb⟩ := Option.ne_none_iff_exists'.mp hgn.1
        exact ⟨_, hfm', hnew', (adv_b_some hb).2, rfl⟩
      · exact ⟨g, hmemn g (Or.inr hg), hgn, rfl, rfl⟩
    refine ⟨hlight.1.trans h.levels, ?_, ?_, ?_, Nat.le_trans h.nseq hnsle, Nat.le_trans h.synced hmono, ?_, ?_, ?_, ?_, ?_, ?_, ?_⟩
    · obtain ⟨new, hnew, hge⟩ := h.wal
      rcases hlight.2 with ⟨k, c, _, e1, _⟩ | ⟨_, e1, _⟩
      · refine ⟨new ++ [⟨st.nextSeq, k, c⟩], by rw [e1]; show st.wal ++ _ = _; rw [hnew, List.append_assoc], ?_⟩
        intro e he
        rcases List.mem_append.mp he with he | he
        · exact hge e he
        · rw [List.mem_singleton.mp he]; exact h.nseq
      · exact ⟨new, by rw [e1]; exact hnew, hge⟩
    · rcases hlight.2 with ⟨k, c, _, e1, _⟩ | ⟨_, e1, _⟩
      · rw [e1, List.map_append]
        refine List.pairwise_append.mpr ⟨h.sorted, by simp, ?_⟩
        intro a ha b hb
        obtain ⟨e, he, rfl⟩ := List.mem_map.mp ha
        simp only [List.map_cons, List.map_nil, List.mem_singleton] at hb
        rw [hb]; exact h.walLt e he
      · rw [e1]; exact h.sorted
    · intro e he
      rcases hlight.2 with ⟨k, c, _, e1, e2⟩ | ⟨_, e1, e2⟩
      · rw [e1] at he; rw [e2]
        rcases List.mem_append.mp he with he | he
        · exact Nat.lt_succ_of_lt (h.walLt e he)
        · rw [List.mem_singleton.mp he]; exact Nat.lt_succ_self _
      · rw [e1] at he; rw [e2]; exact h.walLt e he
    · intro g hg
      rcases hsplit g hg with o | rfl
      · exact h.old g (hmemo g o)
      · exact Or.inr hnew'
    · intro g hg b hb
      rcases hsplit g hg with o | rfl
      · exact Nat.lt_succ_of_lt (h.bn g (hmemo g o) b hb)
      · show b < n + 1
        rcases hcase with ⟨_, e1, _, _⟩ | ⟨b0, _, e1, _, hlt, _, _⟩
        · rw [e1] at hb; injection hb with hb; omega
        · rw [e1] at hb; injection hb with hb; omega
    · intro g hg hgn k c hst
      rcases hsplit g hg with o | rfl
      · obtain ⟨a1, a2, e, he, a3⟩ := h.entry g (hmemo g o) hgn k c hst
        exact ⟨a1, Nat.lt_of_lt_of_le a2 hnsle, e, hsub e he, a3⟩
      · have hst' : start f.id = .pStart k c := hst
        rcases hcase with ⟨_, _, e2, hpc⟩ | ⟨b0, _, _, e2, _, hfn, _⟩
        · rw [e2]
          rw [hst'] at hpc
          rcases hlight.2 with ⟨k', c', hpc', e1, e3⟩ | ⟨hnp, _, _⟩
          · rw [hpc] at hpc'
            injection hpc' with hk hc
            subst hk; subst hc
            refine ⟨h.nseq, by rw [e3]; exact Nat.lt_succ_self _, ⟨st.nextSeq, k, c⟩, ?_, rfl, rfl, rfl⟩
            rw [e1]; simp
          · exact absurd hpc (hnp k c)
        · rw [e2]
          obtain ⟨a1, a2, e, he, a3⟩ := h.entry f hfm hfn k c hst'
          exact ⟨a1, Nat.lt_of_lt_of_le a2 hnsle, e, hsub e he, a3⟩
    · intro e he hge
      have hold : e ∈ st.wal → ∃ g ∈ pre ++ advFrame cfg st n f :: post, IsNew y0 g ∧ g.seq0 = e.seq ∧
          start g.id = .pStart e.key e.cell := by
        intro he
        obtain ⟨g, hg, a1, a2, a3⟩ := h.walFrame e he hge
        obtain ⟨g', hg', b1, b2, b3⟩ := hkeep g hg a1
        exact ⟨g', hg', b1, by rw [b2, a2], by rw [b3]; exact a3⟩
      rcases hlight.2 with ⟨k, c, hpc, e1, _⟩ | ⟨_, e1, _⟩
      · rw [e1] at he
        rcases List.mem_append.mp he with he | he
        · exact hold he
        · rw [List.mem_singleton.mp he]
          rcases hcase with ⟨_, _, e2, hpc'⟩ | ⟨_, _, _, _, _, _, hnp⟩
          · refine ⟨_, hfm', hnew', e2, ?_⟩
            show start f.id = _
            rw [← hpc', hpc]
          · exact absurd hpc (hnp k c)
      · rw [e1] at he; exact hold he
    · intro g1 hg1 g2 hg2 n1 n2 w1 w2 b b' hb hb' hlt
      rcases hsplit g1 hg1 with o1 | rfl <;> rcases hsplit g2 hg2 with o2 | rfl
      · exact h.ord g1 (hmemo g1 o1) g2 (hmemo g2 o2) n1 n2 w1 w2 b b' hb hb' hlt
      · rcases hcase with ⟨_, _, e2, _⟩ | ⟨b0, hfb, e1, e2, _, hfn, _⟩
        · rw [e2]
          obtain ⟨k, c, hkc⟩ := w1
          exact (h.entry g1 (hmemo g1 o1) n1 k c hkc).2.1
        · rw [e2]
          rw [e1] at hb'; injection hb' with hb'; subst hb'
          exact h.ord g1 (hmemo g1 o1) f hfm n1 hfn w1 w2 b b0 hb hfb hlt
      · rcases hcase with ⟨_, e1, _, _⟩ | ⟨b0, hfb, e1, e2, _, hfn, _⟩
        · rw [e1] at hb; injection hb with hb
          have : b' < n := h.bn g2 (hmemo g2 o2) b' hb'
          omega
        · rw [e2]
          rw [e1] at hb; injection hb with hb; subst hb
          exact h.ord f hfm g2 (hmemo g2 o2) hfn n2 w1 w2 b0 b' hfb hb' hlt
      · rw [hb] at hb'; injection hb' with hb'; omega
    · intro g hg b e hb he
      rcases hsplit g hg with o | rfl
      · exact h.ended g (hmemo g o) b e hb he
      · have hbn : b ≤ n := by
          rcases hcase with ⟨_, e1, _, _⟩ | ⟨b0, _, e1, _, hlt, _, _⟩
          · rw [e1] at hb; injection hb with hb; omega
          · rw [e1] at hb; injection hb with hb; omega
        simp only [advFrame] at he
        split at he
        · injection he with he; omega
        · cases he
    · intro g hg0 hgb
      have hg := h.keep g hg0 hgb
      simp only [List.mem_append, List.mem_cons] at hg
      rcases hg with hg | rfl | hg
      · exact hmemn g (Or.inl hg)
      · exact absurd (hun g hg0 h2) hgb
      · exact hmemn g (Or.inr hg)

theorem pinv_run {cfg : Cfg} {p : Policy} {start : Nat → Pc} {y0 : Sys} (hw : cfg.wal = some p) (sched : List Nat)
    (y : Sys) (acc : List Nat) (hA : AInv cfg start y acc) (h : PInv start y0 y)
    (hs : syncsInOrderB cfg y sched = true) (hni : NoInstall cfg y sched)
    (hun : ∀ f ∈ y0.frames, f.id ∈ sched → f.b = none) :
    AInv cfg start (y.run cfg sched) (syncDoneRun cfg y acc sched).2 ∧ PInv start y0 (y.run cfg sched) := by
  induction sched generalizing y acc with
  | nil => exact ⟨hA, h⟩
  | cons id ids ih =>
    obtain ⟨h1, h2⟩ := syncsInOrderB_cons hs
    obtain ⟨n1, n2⟩ := noInstall_cons hni
    exact ih _ _ (ainv_step hA id h1)
      (pinv_step hw hA h id h1 n1 (fun f hf hid => hun f hf (by rw [hid]; exact List.mem_cons_self ..))) h2 n2
      (fun f hf hid => hun f hf (List.mem_cons_of_mem _ hid))

end HappyModel.C15
