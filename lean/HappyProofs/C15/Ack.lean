import HappyModel.C15.Sync
import HappyProofs.C15.Judge
import HappyProofs.C15.WalStep
/-!
# C15 — acknowledged writes are durable

`judgeCrashAck` judges durability from what the clients were told as well: a write whose `append` went on after the
sync latency (`syncDoneRun`), or — under `SyncEveryWrite` — a write that returned.  Here: along every run whose
sync completions happen in sequence order (`syncsInOrderB`), every such write has a sequence number
`≤ synced_up_to`, so `ackBound … ≤ synced` and the acknowledgement-based judge coincides with `judgeCrash`.
-/
namespace HappyModel.C15
open HappyModel.C14

/-! ### `synced_up_to` changes only when a sync completes -/

theorem synced_stepOp (cfg : Cfg) (s : St) (pc : Pc) :
    (stepOp cfg s pc).1.synced = match pc with | .pSync _ _ q => q | _ => s.synced := by
  cases pc with
  | pStart k c => simp only [stepOp, putStart]; split <;> rfl
  | pWal k c q =>
    simp only [stepOp, walWritten]
    split
    · rfl
    · rename_i p _
      obtain ⟨o, ho⟩ := shouldSync_eq p s
      by_cases hb : (shouldSync p s).1 = true
      · simp only [hb, if_true, ho]
      · simp only [hb, Bool.false_eq_true, if_false, ho, memInsert, unpend]
  | pSync k c q => simp only [stepOp, walSynced, memInsert, unpend]
  | pMem mid =>
    simp only [stepOp, afterMem, flushStart]
    split
    · split <;> rfl
    · rfl
  | pFlush t b =>
    simp only [stepOp]
    rw [flushInstall_eq]
    split
    · obtain ⟨c, hc⟩ := compactStart_eq cfg (flushS1 cfg s t b)
      rw [hc]; rfl
    · rfl
  | pCompact j => rfl
  | gStart k => simp only [stepOp, (getStart_plain cfg s k).1]
  | gAt k i t r => simp only [stepOp, (getResume_plain cfg s k i t r).1]
  | sStart lo hi => simp only [stepOp, (scanStart_plain s lo hi).1]
  | sAt lo hi i t r acc => simp only [stepOp, (scanResume_plain s lo hi i t r acc).1]
  | done r => rfl

/-! ### one step, with the frame `find?` sees -/

theorem astepFrames_spec (cfg : Cfg) (st : St) (n id : Nat) (fs : List Frame) :
    (stepFrames cfg st n id fs = (st, fs) ∧ ∀ f, fs.find? (fun f => f.id == id) = some f → f.pc.isDone = true) ∨
    ∃ pre f post, fs = pre ++ f :: post ∧ f.id = id ∧ f.pc.isDone = false ∧ (∀ g ∈ pre, g.id ≠ id) ∧
      stepFrames cfg st n id fs = ((stepOp cfg st f.pc).1, pre ++ advFrame cfg st n f :: post) ∧
      fs.find? (fun f => f.id == id) = some f := by
  induction fs with
  | nil => left; exact ⟨rfl, fun f h => by cases h⟩
  | cons f fs ih =>
    unfold stepFrames
    by_cases hid : (f.id == id) = true
    · simp only [hid, if_true, List.find?_cons]
      by_cases hd : f.pc.isDone = true
      · left; simp [hd]
      · right
        refine ⟨[], f, fs, rfl, ?_, ?_, ?_, ?_, rfl⟩
        · simpa using hid
        · simpa using hd
        · intro g hg; cases hg
        · simp only [hd, Bool.false_eq_true, if_false, List.nil_append]
          rfl
    · simp only [hid, Bool.false_eq_true, if_false, List.find?_cons]
      rcases ih with ⟨h, hl⟩ | ⟨pre, g, post, h1, h2, h3, h4, h5, h6⟩
      · left; rw [h]; exact ⟨rfl, hl⟩
      · right
        refine ⟨f :: pre, g, post, by rw [h1]; rfl, h2, h3, ?_, ?_, h6⟩
        · intro x hx
          rcases List.mem_cons.mp hx with rfl | hx
          · simpa using hid
          · exact h4 x hx
        · rw [h5]; rfl

theorem astep_cases (cfg : Cfg) (y : Sys) (id : Nat) :
    (y.step cfg id = { y with n := y.n + 1 } ∧
      ∀ f, y.frames.find? (fun f => f.id == id) = some f → f.pc.isDone = true) ∨
    ∃ pre f post, y.frames = pre ++ f :: post ∧ f.id = id ∧ f.pc.isDone = false ∧ (∀ g ∈ pre, g.id ≠ id) ∧
      y.step cfg id = { st := (stepOp cfg y.st f.pc).1, frames := pre ++ advFrame cfg y.st y.n f :: post, n := y.n + 1 } ∧
      y.frames.find? (fun f => f.id == id) = some f := by
  rcases astepFrames_spec cfg y.st y.n id y.frames with ⟨h, hl⟩ | ⟨pre, f, post, h1, h2, h3, h4, h5, h6⟩
  · left; refine ⟨?_, hl⟩; unfold Sys.step; simp only [h]
  · right; refine ⟨pre, f, post, h1, h2, h3, h4, ?_, h6⟩
    unfold Sys.step; simp only [h5]

/-- is `pc` the program counter after a sync-latency yield? -/
def isSyncPc : Pc → Bool
  | .pSync _ _ _ => true
  | _ => false

theorem atSync_of_find {y : Sys} {id : Nat} {f : Frame} (h : y.frames.find? (fun f => f.id == id) = some f) :
    atSync y id = isSyncPc f.pc := by
  unfold atSync; rw [h]; simp only; cases f.pc <;> rfl

theorem atSync_idle {y : Sys} {id : Nat}
    (h : ∀ f, y.frames.find? (fun f => f.id == id) = some f → f.pc.isDone = true) : atSync y id = false := by
  cases hf : y.frames.find? (fun f => f.id == id) with
  | none => unfold atSync; rw [hf]
  | some f =>
    rw [atSync_of_find hf]
    have := h f hf
    cases hpc : f.pc <;> rw [hpc] at this <;> first | rfl | cases this

/-! ### the run invariant -/

/-- frames, their WAL sequence numbers, and the operations whose sync completed (`acc`) -/
structure AInv (cfg : Cfg) (start : Nat → Pc) (y : Sys) (acc : List Nat) : Prop where
  ids : (y.frames.map (·.id)).Nodup
  cons : ∀ f ∈ y.frames, PcCons (start f.id) f.pc
  unstarted : ∀ f ∈ y.frames, f.b = none → f.pc.isStart = true
  started : ∀ f ∈ y.frames, f.b ≠ none → f.pc.isStart = false
  logq : ∀ f ∈ y.frames, ∀ q, f.pc.logging = some q → f.seq0 = q
  done : ∀ f ∈ y.frames, f.id ∈ acc → f.b ≠ none ∧ f.seq0 ≤ y.st.synced
  ended : ∀ f ∈ y.frames, f.e ≠ none → f.pc.isDone = true
  every : cfg.wal = some .every → ∀ f ∈ y.frames, f.pc.applied = true → (∃ k c, start f.id = .pStart k c) → f.id ∈ acc

/-- the head condition of `syncsInOrderB` -/
def SyncOk (y : Sys) (id : Nat) : Prop :=
  ∀ f, y.frames.find? (fun f => f.id == id) = some f → ∀ k c q, f.pc = .pSync k c q → y.st.synced ≤ q

/-- under `SyncEveryWrite` a write becomes applied only by the segment after the sync-latency yield -/
theorem applied_every {cfg : Cfg} (hw : cfg.wal = some .every) (s : St) {k : Key} {c : Cell} {pc : Pc}
    (hc : PcCons (.pStart k c) pc) (ha : (stepOp cfg s pc).2.applied = true) :
    isSyncPc pc = true ∨ pc.applied = true := by
  simp only [PcCons] at hc
  rcases hc with rfl | ⟨q, rfl⟩ | ⟨q, rfl⟩ | h
  · simp [stepOp, putStart, hw, Pc.applied] at ha
  · simp [stepOp, walWritten, hw, shouldSync, Pc.applied] at ha
  · exact Or.inl rfl
  · exact Or.inr h

theorem ainv_step {cfg : Cfg} {start : Nat → Pc} {y : Sys} {acc : List Nat} (h : AInv cfg start y acc) (id : Nat)
    (hs : SyncOk y id) : AInv cfg start (y.step cfg id) (if atSync y id then id :: acc else acc) := by
  rcases astep_cases cfg y id with ⟨h0, hl⟩ | ⟨pre, f, post, h1, h2, h3, h4, h5, h6⟩
  · rw [h0, atSync_idle hl]
    exact ⟨h.ids, h.cons, h.unstarted, h.started, h.logq, h.done, h.ended, h.every⟩
  · rw [h5, atSync_of_find h6]
    have hs' := hs f h6
    clear hs h5 h6
    obtain ⟨st, frames, n⟩ := y
    simp only at h1 hs' ⊢
    subst h1
    have hfm : f ∈ pre ++ f :: post := by simp
    have hsh := stepOp_shape cfg st (start f.id) f.pc (h.cons f hfm)
    have hids := h.ids
    simp only [List.map_append, List.map_cons] at hids
    have hne : ∀ g, g ∈ pre ∨ g ∈ post → g.id ≠ id := by
      intro g hg
      rw [← h2]
      have h' := List.nodup_append.mp hids
      rcases hg with hg | hg
      · exact h'.2.2 _ (List.mem_map_of_mem hg) _ (List.mem_cons_self ..)
      · have := (List.nodup_cons.mp h'.2.1).1
        exact fun e => this (e ▸ List.mem_map_of_mem hg)
    have hmono : st.synced ≤ (stepOp cfg st f.pc).1.synced := by
      rw [synced_stepOp]
      cases hpc : f.pc <;> first | exact Nat.le_refl _ | exact hs' _ _ _ hpc
    have hsplit : ∀ g, g ∈ pre ++ advFrame cfg st n f :: post → (g ∈ pre ∨ g ∈ post) ∨ g = advFrame cfg st n f := by
      intro g hg
      simp only [List.mem_append, List.mem_cons] at hg
      rcases hg with hg | rfl | hg
      · exact Or.inl (Or.inl hg)
      · exact Or.inr rfl
      · exact Or.inl (Or.inr hg)
    have hmemo : ∀ g, g ∈ pre ∨ g ∈ post → g ∈ pre ++ f :: post := by
      intro g hg; rcases hg with hg | hg <;> simp [hg]
    have hb' : (advFrame cfg st n f).b ≠ none := by
      cases hfb : f.b with
      | none => rw [(adv_b_none hfb).1]; simp
      | some b => rw [(adv_b_some hfb).1]; simp
    have hsub : ∀ x, x ∈ acc → x ∈ (if isSyncPc f.pc = true then id :: acc else acc) := by
      intro x hx; split
      · exact List.mem_cons_of_mem _ hx
      · exact hx
    have hsup : ∀ x, x ∈ (if isSyncPc f.pc = true then id :: acc else acc) → x ∈ acc ∨ (x = id ∧ isSyncPc f.pc = true) := by
      intro x hx; split at hx
      · rename_i hy
        rcases List.mem_cons.mp hx with rfl | hx
        · exact Or.inr ⟨rfl, hy⟩
        · exact Or.inl hx
      · exact Or.inl hx
    refine ⟨?_, ?_, ?_, ?_, ?_, ?_, ?_, ?_⟩
    · simp only [List.map_append, List.map_cons, advFrame]; exact hids
    · intro g hg
      rcases hsplit g hg with o | rfl
      · exact h.cons g (hmemo g o)
      · exact hsh.cons
    · intro g hg hb
      rcases hsplit g hg with o | rfl
      · exact h.unstarted g (hmemo g o) hb
      · exact absurd hb hb'
    · intro g hg hb
      rcases hsplit g hg with o | rfl
      · exact h.started g (hmemo g o) hb
      · exact hsh.notStart
    · intro g hg q hq
      rcases hsplit g hg with o | rfl
      · exact h.logq g (hmemo g o) q hq
      · rcases hsh.logging q hq with ⟨hst, rfl⟩ | hlg
        · cases hfb : f.b with
          | none => exact (adv_b_none hfb).2
          | some b => have := h.started f hfm (by rw [hfb]; simp); rw [hst] at this; cases this
        · cases hfb : f.b with
          | none =>
            have := h.unstarted f hfm hfb
            rw [(isStart_not_done this).2.2] at hlg; cases hlg
          | some b => rw [(adv_b_some hfb).2]; exact h.logq f hfm q hlg
    · intro g hg hin
      rcases hsplit g hg with o | rfl
      · rcases hsup _ hin with hin | ⟨e, _⟩
        · obtain ⟨d1, d2⟩ := h.done g (hmemo g o) hin
          exact ⟨d1, Nat.le_trans d2 hmono⟩
        · exact absurd e (hne g o)
      · refine ⟨hb', ?_⟩
        show (advFrame cfg st n f).seq0 ≤ (stepOp cfg st f.pc).1.synced
        rcases hsup _ hin with hin | ⟨_, hy⟩
        · obtain ⟨d1, d2⟩ := h.done f hfm hin
          obtain ⟨b, hfb⟩ := Option.ne_none_iff_exists'.mp d1
          rw [(adv_b_some hfb).2]
          exact Nat.le_trans d2 hmono
        · cases hpc : f.pc <;> rw [hpc] at hy <;> first | cases hy | skip
          rename_i k c q
          have hq := h.logq f hfm q (by rw [hpc]; rfl)
          cases hfb : f.b with
          | none => have := h.unstarted f hfm hfb; rw [hpc] at this; cases this
          | some b =>
            rw [(adv_b_some hfb).2, hq, synced_stepOp]
            exact Nat.le_refl _
    · intro g hg he
      rcases hsplit g hg with o | rfl
      · exact h.ended g (hmemo g o) he
      · simp only [advFrame] at he ⊢
        by_cases hd : (stepOp cfg st f.pc).2.isDone = true
        · exact hd
        · simp [hd] at he
    · intro hw g hg ha hst
      rcases hsplit g hg with o | rfl
      · exact hsub _ (h.every hw g (hmemo g o) ha hst)
      · obtain ⟨k, c, hkc⟩ := hst
        have hc := h.cons f hfm
        have hkc' : start f.id = .pStart k c := hkc
        rw [hkc'] at hc
        rcases applied_every hw st hc ha with hy | hap
        · show f.id ∈ _
          rw [h2]; simp only [hy, if_true]; exact List.mem_cons_self ..
        · exact hsub _ (h.every hw f hfm hap ⟨k, c, hkc'⟩)

/-! ### along the run -/

theorem syncsInOrderB_cons {cfg : Cfg} {y : Sys} {id : Nat} {ids : List Nat}
    (h : syncsInOrderB cfg y (id :: ids) = true) : SyncOk y id ∧ syncsInOrderB cfg (y.step cfg id) ids = true := by
  simp only [syncsInOrderB, Bool.and_eq_true] at h
  refine ⟨?_, h.2⟩
  intro f hf k c q hpc
  have h1 := h.1
  rw [hf] at h1
  simp only [hpc, decide_eq_true_eq] at h1
  exact h1

/-- the schedule hypothesis is inherited by every prefix of the schedule -/
theorem syncsInOrderB_take {cfg : Cfg} (sched : List Nat) (y : Sys) (h : syncsInOrderB cfg y sched = true) (i : Nat) :
    syncsInOrderB cfg y (sched.take i) = true := by
  induction sched generalizing y i with
  | nil => rw [List.take_nil]; exact h
  | cons id ids ih =>
    cases i with
    | zero => rfl
    | succ i =>
      simp only [List.take_succ_cons, syncsInOrderB, Bool.and_eq_true] at h ⊢
      exact ⟨h.1, ih _ h.2 i⟩

/-- `syncDoneRun` runs the schedule -/
theorem syncDoneRun_fst (cfg : Cfg) (y : Sys) (acc : List Nat) (sched : List Nat) :
    (syncDoneRun cfg y acc sched).1 = y.run cfg sched := by
  induction sched generalizing y acc with
  | nil => rfl
  | cons id ids ih => exact ih _ _

theorem ainv_run {cfg : Cfg} {start : Nat → Pc} (sched : List Nat) (y : Sys) (acc : List Nat)
    (h : AInv cfg start y acc) (hs : syncsInOrderB cfg y sched = true) :
    AInv cfg start (y.run cfg sched) (syncDoneRun cfg y acc sched).2 := by
  induction sched generalizing y acc with
  | nil => exact h
  | cons id ids ih =>
    obtain ⟨h1, h2⟩ := syncsInOrderB_cons hs
    exact ih _ _ (ainv_step h id h1) h2

theorem ainv_sysOf (cfg : Cfg) (oracle : List Bool) {ops : List (Nat × OKind)} (hn : (ops.map (·.1)).Nodup) :
    AInv cfg (startFor ops) (sysOf cfg oracle ops) [] := by
  have hi := sysOf_init cfg oracle ops
  have hst := sysOf_start cfg oracle hn
  refine ⟨by rw [sysOf_ids]; exact hn, ?_, ?_, ?_, ?_, ?_, ?_, ?_⟩
  · intro f hf; rw [hst f hf]; exact pcCons_self (hi.frames f hf).1
  · intro f hf _; exact (hi.frames f hf).1
  · intro f hf hb; exact absurd (hi.frames f hf).2.1 hb
  · intro f hf q hq; rw [(isStart_not_done (hi.frames f hf).1).2.2] at hq; cases hq
  · intro f _ hin; cases hin
  · intro f hf he; exact absurd (hi.frames f hf).2.2 he
  · intro _ f hf ha; rw [(isStart_not_done (hi.frames f hf).1).2.1] at ha; cases ha

/-- the invariant after every schedule whose syncs complete in sequence order -/
theorem ainv_sysOf_run (cfg : Cfg) (ops : List (Nat × OKind)) (oracle : List Bool) (sched : List Nat)
    (hn : (ops.map (·.1)).Nodup) (hs : syncsInOrderB cfg (sysOf cfg oracle ops) sched = true) :
    AInv cfg (startFor ops) ((sysOf cfg oracle ops).run cfg sched) (syncDoneRun cfg (sysOf cfg oracle ops) [] sched).2 :=
  ainv_run sched _ [] (ainv_sysOf cfg oracle hn) hs

/-! ### the theorems -/

/-- a write whose `append` went on after the sync latency is durable: its WAL sequence number is `≤ synced_up_to`,
    for every workload, sync policy and schedule in which syncs complete in sequence order.  (No hypothesis on
    `cfg.wal`: without a WAL no operation ever yields a sync latency.) -/
theorem sync_done_durable (cfg : Cfg) (ops : List (Nat × OKind)) (oracle : List Bool) (sched : List Nat)
    (hd : DistinctPuts ops) (hs : syncsInOrderB cfg (sysOf cfg oracle ops) sched = true) :
    ∀ f ∈ ((sysOf cfg oracle ops).run cfg sched).frames,
      f.id ∈ (syncDoneRun cfg (sysOf cfg oracle ops) [] sched).2 →
      f.seq0 ≤ ((sysOf cfg oracle ops).run cfg sched).st.synced :=
  fun f hf hin => ((ainv_sysOf_run cfg ops oracle sched hd.1 hs).done f hf hin).2

/-- under `SyncEveryWrite` every write that returned had its sync completed -/
theorem acked_every_sync_done (cfg : Cfg) (ops : List (Nat × OKind)) (oracle : List Bool) (sched : List Nat)
    (hw : cfg.wal = some .every) (hd : DistinctPuts ops) (hs : syncsInOrderB cfg (sysOf cfg oracle ops) sched = true) :
    ∀ f ∈ ((sysOf cfg oracle ops).run cfg sched).frames, ∀ k c, startFor ops f.id = .pStart k c → f.e ≠ none →
      f.id ∈ (syncDoneRun cfg (sysOf cfg oracle ops) [] sched).2 := by
  intro f hf k c hst he
  have hA := ainv_sysOf_run cfg ops oracle sched hd.1 hs
  have hdone := hA.ended f hf he
  have hc := hA.cons f hf
  rw [hst] at hc
  simp only [PcCons] at hc
  refine hA.every hw f hf ?_ ⟨k, c, hst⟩
  rcases hc with h | ⟨q, h⟩ | ⟨q, h⟩ | h
  · rw [h] at hdone; cases hdone
  · rw [h] at hdone; cases hdone
  · rw [h] at hdone; cases hdone
  · exact h

theorem foldl_max_le (l : List WRec) (m B : Nat) (hm : m ≤ B) (h : ∀ w ∈ l, w.seq ≤ B) :
    l.foldl (fun m w => max m w.seq) m ≤ B := by
  induction l generalizing m with
  | nil => exact hm
  | cons w r ih =>
    simp only [List.foldl_cons]
    exact ih _ (Nat.max_le.mpr ⟨hm, h w (List.mem_cons_self ..)⟩) (fun x hx => h x (List.mem_cons_of_mem _ hx))

/-- the acknowledgement bound of the Spec never exceeds `synced_up_to` -/
theorem ack_bound_le_synced (cfg : Cfg) (ops : List (Nat × OKind)) (oracle : List Bool) (sched : List Nat) (every : Bool)
    (hd : DistinctPuts ops) (hs : syncsInOrderB cfg (sysOf cfg oracle ops) sched = true)
    (he : every = true → cfg.wal = some .every) :
    ackBound every (wObsOf ops ((sysOf cfg oracle ops).run cfg sched)) (syncDoneRun cfg (sysOf cfg oracle ops) [] sched).2
      ≤ ((sysOf cfg oracle ops).run cfg sched).st.synced := by
  unfold ackBound
  apply foldl_max_le _ 0 _ (Nat.zero_le _)
  intro w hw
  obtain ⟨hwm, hp⟩ := List.mem_filter.mp hw
  obtain ⟨f, hf, hrec⟩ := mem_wObsOf.mp hwm
  obtain ⟨_, hid, hseq, hwe, hst⟩ := recOf_some hrec
  rw [hseq]
  apply sync_done_durable cfg ops oracle sched hd hs f hf
  simp only [Bool.or_eq_true, Bool.and_eq_true, List.contains_iff_mem] at hp
  rcases hp with hp | ⟨hev, hes⟩
  · rw [← hid]; exact hp
  · refine acked_every_sync_done cfg ops oracle sched (he hev) hd hs f hf _ _ hst ?_
    rw [← hwe]; intro hn; rw [hn] at hes; cases hes

end HappyModel.C15
