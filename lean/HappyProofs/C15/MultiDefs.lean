import HappyProofs.C15.WalRunB
/-! Base events of a recovered tree: one per surviving log entry (class 1, newest first) and one per SSTable
    entry (class 2, in lookup order). -/
namespace HappyModel.C15
open HappyModel.C14

/-- base events of the recovered memtable: the surviving log, newest entry first; `n := seq` -/
def memEvs (B : Nat) (w : List WalE) : List Ev := w.reverse.map fun e => ⟨e.seq, B, e.key, e.cell, e.seq⟩

/-- events with strictly decreasing `n` -/
def numEv (id : Nat) : List (Key × Cell) → List Ev
  | [] => []
  | x :: r => ⟨r.length, id, x.1, x.2, 0⟩ :: numEv id r

/-- the SSTable entries in lookup order -/
def flatLv (lv : List (List Tab)) : List (Key × Cell) := lv.flatMap fun l => l.reverse.flatMap (·.data)

def lvEvs (B : Nat) (lv : List (List Tab)) : List Ev := numEv (B + 1) (flatLv lv)

def log0Of (B : Nat) (s : St) : List Ev := memEvs B s.wal ++ lvEvs B s.levels

def ghost0Of (B : Nat) (s : St) : Ghost := { gmem := memEvs B s.wal, gimms := [], glv := lvEvs B s.levels, T := 0 }

/-- static facts about the base events -/
structure Base0 (B S0 : Nat) (W0 : List WalE) (abs0 : Key → Option Nat) (log0 : List Ev) : Prop where
  base : ∀ ev ∈ log0, B ≤ ev.id
  seqLe : ∀ ev ∈ log0, ev.seq ≤ S0
  memN : ∀ ev ∈ log0, ev.id = B → ev.n = ev.seq
  memAll : ∀ e ∈ W0, ∃ ev ∈ log0, ev.id = B ∧ ev.key = e.key ∧ ev.seq = e.seq
  sorted : log0.Pairwise (RBase B)
  abs : ∀ k, abs0 k = (firstOn k log0).join

end HappyModel.C15
