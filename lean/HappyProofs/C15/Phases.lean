import HappyModel.C15.Phases
import HappyProofs.C15.Judge
import HappyProofs.C15.Ack
/-!
# C15 — sequences of crashes (`runPhases`)

A. what a crash and a flush leave behind, for every state (so: at every point of every multi-crash run);
B. facts about every phase of every sequence of crashes from any start system;
C. (in `Props.lean`) the first phase satisfies the whole phase judge;
D. the full multi-crash statement, as a definition (`multi_crash_spec_full`).
-/
namespace HappyModel.C15
open HappyModel.C14

/-! ### A. state-level contracts that make a second crash safe -/

/-- a crash (and the recovery after it) does not rewind `next_sequence`: the surviving log has a gap where the
    unsynced tail was -/
theorem crash_keeps_nextSeq (s : St) : s.crash.nextSeq = s.nextSeq ∧ s.crash.recover.nextSeq = s.nextSeq :=
  ⟨rfl, rfl⟩

/-- a crash keeps exactly the synced entries of the log -/
theorem crash_wal (s : St) : s.crash.wal = s.wal.filter (fun e => e.seq ≤ s.synced) := rfl

/-- a crash keeps the numbers of abandoned appends, the suspended-compaction flag and the SSTable levels -/
theorem crash_keeps_pending (s : St) :
    s.crash.recover.pending = s.pending ∧ s.crash.recover.compacting = s.compacting ∧
    s.crash.recover.levels = s.levels ∧ s.crash.recover.synced = s.synced := ⟨rfl, rfl, rfl, rfl⟩

theorem compactStart_wal (cfg : Cfg) (s : St) : (compactStart cfg s).1.wal = s.wal := by
  unfold compactStart
  split
  · rfl
  · split
    · rfl
    · split <;> rfl

theorem flushInstall_wal (cfg : Cfg) (s : St) (t : Tab) (b : Nat) :
    (flushInstall cfg s t b).1.wal = if cfg.wal.isSome then s.wal.filter (fun e => e.seq > b) else s.wal := by
  unfold flushInstall
  simp only []
  split
  · rw [compactStart_wal]
  · rfl

/-- the truncation contract, whatever gaps the log has: a flush install drops only entries with a sequence
    number ≤ its bound … -/
theorem flushInstall_keeps_newer (cfg : Cfg) (s : St) (t : Tab) (b : Nat) :
    ∀ e ∈ s.wal, b < e.seq → e ∈ (flushInstall cfg s t b).1.wal := by
  intro e he hb
  rw [flushInstall_wal]
  split
  · exact List.mem_filter.mpr ⟨he, by simpa using hb⟩
  · exact he

/-- … and adds none -/
theorem flushInstall_wal_sub (cfg : Cfg) (s : St) (t : Tab) (b : Nat) :
    ∀ e ∈ (flushInstall cfg s t b).1.wal, e ∈ s.wal := by
  intro e he
  rw [flushInstall_wal] at he
  split at he
  · exact (List.mem_filter.mp he).1
  · exact he

/-- what has been recovered once is durable: a second crash + recovery reads the same, every state, every key -/
theorem recovered_is_durable (s : St) (k : Key) :
    s.crash.recover.crash.recover.abs k = s.crash.recover.abs k := by
  unfold St.abs
  rw [recover_crash_idempotent]

/-! ### B. every phase of every sequence of crashes -/

theorem mem_runPhases {cfg : Cfg} {y0 : Sys} {ps : List (List Nat)} {o : PhaseOut}
    (h : o ∈ runPhases cfg y0 ps) : ∃ y sched, o = phaseOut cfg y sched := by
  induction ps generalizing y0 with
  | nil => cases h
  | cons sched rest ih =>
    simp only [runPhases, List.mem_cons] at h
    rcases h with h | h
    · exact ⟨y0, sched, h⟩
    · exact ih h

theorem phaseOut_s1 (cfg : Cfg) (y : Sys) (sched : List Nat) :
    (phaseOut cfg y sched).s1 = (phaseOut cfg y sched).y.st.crash.recover := rfl

theorem phaseOut_s2 (cfg : Cfg) (y : Sys) (sched : List Nat) :
    (phaseOut cfg y sched).s2 = (phaseOut cfg y sched).y.st.crash.recover.recover := rfl

theorem phaseOut_s3 (cfg : Cfg) (y : Sys) (sched : List Nat) :
    (phaseOut cfg y sched).s3 = (phaseOut cfg y sched).y.st.crash.recover.recover.crash.recover := rfl

theorem phaseOut_y (cfg : Cfg) (y : Sys) (sched : List Nat) : (phaseOut cfg y sched).y = y.run cfg sched :=
  syncDoneRun_fst cfg y [] sched

theorem phaseOut_done (cfg : Cfg) (y : Sys) (sched : List Nat) :
    (phaseOut cfg y sched).done = (syncDoneRun cfg y [] sched).2 := rfl

/-- "recovering twice gives the same state as recovering once", at every crash of every sequence of crashes,
    from any start system -/
theorem phase_recover_idempotent (cfg : Cfg) (y0 : Sys) (ps : List (List Nat)) (nkeys : Nat) :
    ∀ o ∈ runPhases cfg y0 ps,
      readsOf nkeys o.s2 = readsOf nkeys o.s1 ∧ readsOf nkeys o.s3 = readsOf nkeys o.s1 := by
  intro o ho
  obtain ⟨y, sched, rfl⟩ := mem_runPhases ho
  rw [phaseOut_s1, phaseOut_s2, phaseOut_s3]
  exact ⟨readsOf_congr nkeys _ _ (abs_recover_recover _), readsOf_congr nkeys _ _ (abs_second_crash _)⟩

/-- a crash cycle with nothing executed in between returns the baseline: from any system whose state came out
    of a crash + recovery -/
theorem idle_phase_keeps_baseline (cfg : Cfg) (y : Sys) (s : St) (hy : y.st = s.crash.recover) (nkeys : Nat) :
    readsOf nkeys (phaseOut cfg y []).s1 = readsOf nkeys y.st := by
  show readsOf nkeys y.st.crash.recover = readsOf nkeys y.st
  rw [hy]
  exact readsOf_congr nkeys _ _ (recovered_is_durable s)

/-- … in particular after every phase of every sequence of crashes -/
theorem idle_phase_after (cfg : Cfg) (y0 : Sys) (ps : List (List Nat)) (nkeys : Nat) :
    ∀ o ∈ runPhases cfg y0 ps, readsOf nkeys (phaseOut cfg o.next []).s1 = readsOf nkeys o.s3 := by
  intro o ho
  obtain ⟨y, sched, rfl⟩ := mem_runPhases ho
  exact idle_phase_keeps_baseline cfg (phaseOut cfg y sched).next
    (phaseOut cfg y sched).y.st.crash.recover.recover rfl nkeys

/-! ### D. the full statement (definition only) -/

/-- the observations of one phase: records of the writes that started during this phase (`prev` = ids of the
    operations that had started before it), the sync completions seen in it, `synced_up_to` at its crash and
    the three rounds of reads -/
def obsOf (ops : List (Nat × OKind)) (nkeys : Nat) (prev : List Nat) (o : PhaseOut) : PhaseObs :=
  { ws := (wObsOf ops o.y).filter fun w => !prev.contains w.id
    syncDone := o.done
    synced := o.y.st.synced
    r1 := readsOf nkeys o.s1
    r2 := readsOf nkeys o.s2
    r3 := readsOf nkeys o.s3 }

def obsOfPhases (ops : List (Nat × OKind)) (nkeys : Nat) : List Nat → List PhaseOut → List PhaseObs
  | _, [] => []
  | prev, o :: rest => obsOf ops nkeys prev o :: obsOfPhases ops nkeys ((wObsOf ops o.y).map (·.id)) rest

/-- the systems the phases start from, with their schedules -/
def phaseStarts (cfg : Cfg) : Sys → List (List Nat) → List (Sys × List Nat)
  | _, [] => []
  | y, sched :: rest => (y, sched) :: phaseStarts cfg (phaseOut cfg y sched).next rest

/-- The Spec predicate for sequences of crashes accepts the model's own observations of every multi-crash run:
    every workload, sync policy, list of phase schedules.  Hypotheses as for `crash_spec_ack`, per phase:
    flushes install in start order and syncs complete in sequence order along the phase's schedule from the
    system the phase starts from; a phase schedules only operations that had not started before it (operations
    in flight at a crash are abandoned); operation ids stay below the identifier space of the baseline records.

    **Proved in full as `multi_crash_spec_full_proved` (`MultiFull.lean`)** — the definition stays here because the
    proof needs the fresh-tree theorems of `Props.lean`.  Independent partial results (here and in `Props.lean`):
    * A — `crash_keeps_nextSeq`, `crash_wal`, `flushInstall_keeps_newer`, `flushInstall_wal_sub`,
      `recovered_is_durable`: the state-level contracts, for every state;
    * B — `phase_recover_idempotent`, `phase_no_invention`, `idle_phase_keeps_baseline`: the
      `recover-idempotent` clauses and the state-level `no-invention` clause at every crash of every sequence of
      crashes, from any start system;
    * C — `multi_crash_first_phase`, `multi_crash_first_of_runPhases`: the whole `judgePhase` for the first phase;
    * D — `multi_crash_spec_partial` (`Props.lean`, proof in `PhasesLight*.lean`): this very statement under the
      additional hypothesis `NoInstall` for the phases after the first crash (no flush-install and no
      compaction-install segment executes there; the first phase is unrestricted).
    The general case (flushes and compactions installing over a recovered state with a gap in the log, abandoned
    pending numbers and abandoned frames) generalises the run invariants `LInv` / `WInv` to base events without
    frames: `LsmSysB`, `LsmBookB`, `WalStepB`, `WalRunB`, `SurviveB`, `Multi*.lean`. -/
def multi_crash_spec_full : Prop :=
  ∀ (cfg : Cfg) (p : Policy) (nkeys : Nat) (ops : List (Nat × OKind)) (oracle : List Bool)
    (ps : List (List Nat)) (every : Bool),
    cfg.wal = some p → 2 ≤ cfg.maxLevels → DistinctPuts ops → (∀ o ∈ ops, o.1 < baselineId 0) →
    (∀ ys ∈ phaseStarts cfg (sysOf cfg oracle ops) ps,
      InOrder cfg ys.1 ys.2 ∧ syncsInOrderB cfg ys.1 ys.2 = true ∧
      ∀ f ∈ ys.1.frames, f.id ∈ ys.2 → f.b = none) →
    (every = true → cfg.wal = some .every) →
    judgePhases every nkeys (List.replicate nkeys none) [] 0
      (obsOfPhases ops nkeys [] (runPhases cfg (sysOf cfg oracle ops) ps)) = none

end HappyModel.C15
