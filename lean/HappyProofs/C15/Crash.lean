import HappyProofs.C15.Recover
import HappyModel.C15.Spec
/-! What `crash(); recover_from_crash()` reads; idempotence of recovery. -/
namespace HappyModel.C15
open HappyModel.C14

/-- the durable part of the log at a crash -/
def durableLog (s : St) : List WalE := s.wal.filter fun e => e.seq ≤ s.synced

/-- what `crash(); recover_from_crash()` makes readable, for every state and every key: the last
    surviving (synced, not truncated) log entry of the key, else what the SSTable levels hold -/
theorem crash_recover_read (s : St) (k : Key) :
    s.crash.recover.read k = match lastFor k (durableLog s) none with
      | some c => some c
      | none => lookLevels k s.levels := by
  simp only [St.read, St.recover, St.crash, lookup_replay, durableLog, List.reverse_nil, lookTabs, List.lookup]
  cases lastFor k (List.filter (fun e => decide (e.seq ≤ s.synced)) s.wal) none <;> rfl

/-- recovering twice reads the same as recovering once (every key, every state) -/
theorem recover_idempotent (s : St) (k : Key) : s.recover.recover.read k = s.recover.read k := by
  simp only [St.read, St.recover, lookup_replay, lastFor_idem]

/-- a second crash + recovery reads the same as the first (every key, every state) -/
theorem recover_crash_idempotent (s : St) (k : Key) :
    s.crash.recover.crash.recover.read k = s.crash.recover.read k := by
  have hd : durableLog s.crash.recover = durableLog s := by
    simp only [durableLog, St.crash, St.recover, List.filter_filter]
    congr 1
    funext a
    exact Bool.and_self _
  rw [crash_recover_read, crash_recover_read, hd]
  rfl

end HappyModel.C15
