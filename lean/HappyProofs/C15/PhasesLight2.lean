import HappyProofs.C15.PhasesLight
/-!
# C15 — what a crash after a phase without installs makes readable (`later_phase_facts`), and the system the
next phase starts from (`kstart_next`)
-/
namespace HappyModel.C15
open HappyModel.C14

theorem lastFor_append (k : Key) (a b : List WalE) (acc : Option Cell) :
    lastFor k (a ++ b) acc = lastFor k b (lastFor k a acc) := by
  induction a generalizing acc with
  | nil => rfl
  | cons e r ih => simp only [List.cons_append, lastFor]; exact ih _

theorem lastFor_skip {k : Key} {b : List WalE} (h : ∀ e ∈ b, e.key ≠ k) (acc : Option Cell) : lastFor k b acc = acc := by
  induction b generalizing acc with
  | nil => rfl
  | cons e r ih =>
    simp only [lastFor]
    have : ¬ k = e.key := fun hk => h e (List.mem_cons_self ..) hk.symm
    rw [if_neg this]
    exact ih (fun e' he' => h e' (List.mem_cons_of_mem _ he')) acc

/-- the state the next phase starts from -/
def _root_.HappyModel.C14.St.recovered (s : St) : St := s.crash.recover.recover.crash.recover

theorem recovered_wal (s : St) : s.recovered.wal = durableLog s := by
  simp only [St.recovered, St.crash, St.recover, durableLog, List.filter_filter]
  congr 1
  funext a
  exact Bool.and_self _

theorem abs_crash_recover (s : St) (k : Key) :
    s.crash.recover.abs k = (match lastFor k (durableLog s) none with
      | some c => some c
      | none => lookLevels k s.levels).join := by
  unfold St.abs; rw [crash_recover_read]; rfl

/-- what the system a later phase starts from satisfies -/
structure KStart (start : Nat → Pc) (y : Sys) : Prop where
  sorted : (y.st.wal.map (·.seq)).Pairwise (· < ·)
  walLt : ∀ e ∈ y.st.wal, e.seq < y.st.nextSeq
  dur : ∀ e ∈ y.st.wal, e.seq ≤ y.st.synced
  abs : ∀ k, y.st.abs k = (match lastFor k y.st.wal none with
      | some c => some c
      | none => lookLevels k y.st.levels).join
  bn : ∀ f ∈ y.frames, ∀ b, f.b = some b → b < y.n
  ended : ∀ f ∈ y.frames, ∀ b e, f.b = some b → f.e = some e → b ≤ e
  baseOld : ∀ k v, y.st.abs k = some v → ∃ f ∈ y.frames, f.b ≠ none ∧ ∃ k', start f.id = .pStart k' (some v)
  ids : (y.frames.map (·.id)).Nodup

theorem not_new_of_mem {y0 : Sys} (hids : (y0.frames.map (·.id)).Nodup) {f : Frame} (hf : f ∈ y0.frames)
    (hn : IsNew y0 f) : False := by
  obtain ⟨hb, f0, hf0, hid, hb0⟩ := hn
  have := map_nodup_inj (·.id) y0.frames hids f0 f hf0 hf hid
  subst this
  exact hb hb0

theorem pinv_refl {start : Nat → Pc} {y : Sys} (hK : KStart start y) : PInv start y y := by
  refine ⟨rfl, ⟨[], by simp, fun e he => by cases he⟩, hK.sorted, hK.walLt, Nat.le_refl _, Nat.le_refl _,
    fun f hf => Or.inl hf, hK.bn, fun f hf hn => (not_new_of_mem hK.ids hf hn).elim, ?_,
    fun f hf _ _ hn => (not_new_of_mem hK.ids hf hn).elim, hK.ended, fun f hf _ => hf⟩
  intro e he hge
  have := hK.walLt e he
  omega

/-- per key: what is read after `crash(); recover_from_crash()` at the end of a phase without installs -/
def PhaseKey (start : Nat → Pc) (y0 y1 : Sys) (k : Key) : Prop :=
  (∃ w ∈ y1.frames, IsNew y0 w ∧ start w.id = .pStart k (y1.st.crash.recover.abs k) ∧
      ∀ w' ∈ y1.frames, IsNew y0 w' → ∀ b' c', w'.b = some b' → start w'.id = .pStart k c' →
        w'.seq0 ≤ y1.st.synced → ∀ e, w.e = some e → ¬ e < b') ∨
  (y1.st.crash.recover.abs k = y0.st.abs k ∧
      ∀ w' ∈ y1.frames, IsNew y0 w' → ∀ c', start w'.id = .pStart k c' → ¬ w'.seq0 ≤ y1.st.synced)

/-- `durable_survive` / `no_resurrection` / `no_invention` for a phase after the first crash in which no flush or
    compaction installs: a key reads the value of a write of this phase that no durable write of this phase to
    the key began after, or it reads its baseline value and no write of this phase to it is durable -/
theorem later_phase_facts {start : Nat → Pc} {y0 y1 : Sys} (hK : KStart start y0) (h : PInv start y0 y1) (k : Key) :
    PhaseKey start y0 y1 k := by
  obtain ⟨new, hnew, hge⟩ := h.wal
  have habs := abs_crash_recover y1.st k
  have hD : durableLog y1.st = y0.st.wal ++ new.filter (fun e => e.seq ≤ y1.st.synced) := by
    unfold durableLog
    rw [hnew, List.filter_append]
    congr 1
    apply List.filter_eq_self.mpr
    intro e he
    simpa using Nat.le_trans (hK.dur e he) h.synced
  have hDs : ((durableLog y1.st).map (·.seq)).Pairwise (· < ·) :=
    List.Pairwise.sublist (List.Sublist.map _ List.filter_sublist) h.sorted
  have hDmem : ∀ e, e ∈ y1.st.wal → e.seq ≤ y1.st.synced → e ∈ durableLog y1.st := by
    intro e he hd
    exact List.mem_filter.mpr ⟨he, by simpa using hd⟩
  by_cases hex : ∃ e ∈ new.filter (fun e => e.seq ≤ y1.st.synced), e.key = k
  · obtain ⟨e1, he1, hk1⟩ := hex
    have he1D : e1 ∈ durableLog y1.st := by rw [hD]; exact List.mem_append_right _ he1
    have hge1 := hge e1 (List.mem_filter.mp he1).1
    left
    cases hlast : lastFor k (durableLog y1.st) none with
    | none => exact absurd hk1 ((lastFor_none hlast).2 e1 he1D)
    | some c =>
      rcases lastFor_last hDs hlast with ⟨h0, _⟩ | ⟨e, he, ek, ec, emax⟩
      · cases h0
      · have hew : e ∈ y1.st.wal := (List.mem_filter.mp he).1
        have hle := emax e1 he1D hk1
        obtain ⟨w, hw, wnew, wseq, wst⟩ := h.walFrame e hew (by omega)
        rw [ek, ec] at wst
        refine ⟨w, hw, wnew, ?_, ?_⟩
        · rw [habs, hlast]; exact wst
        · intro w' hw' n' b' c' hb' hs' hdur e0 he0 hlt
          obtain ⟨bw, hbw⟩ := Option.ne_none_iff_exists'.mp wnew.1
          have hbe := h.ended w hw bw e0 hbw he0
          have hord := h.ord w hw w' hw' wnew n' ⟨k, c, wst⟩ ⟨k, c', hs'⟩ bw b' hbw hb' (by omega)
          obtain ⟨_, _, e', he', a1, a2, _⟩ := h.entry w' hw' n' k c' hs'
          have := emax e' (hDmem e' he' (by rw [a1]; exact hdur)) a2
          omega
  · right
    have hskip : ∀ e ∈ new.filter (fun e => e.seq ≤ y1.st.synced), e.key ≠ k := fun e he hk => hex ⟨e, he, hk⟩
    have hlastEq : lastFor k (durableLog y1.st) none = lastFor k y0.st.wal none := by
      rw [hD, lastFor_append, lastFor_skip hskip]
    refine ⟨?_, ?_⟩
    · rw [habs, hlastEq, h.levels]; exact (hK.abs k).symm
    · intro w' hw' n' c' hs' hdur
      obtain ⟨a0, _, e', he', a1, a2, _⟩ := h.entry w' hw' n' k c' hs'
      rw [hnew] at he'
      rcases List.mem_append.mp he' with he' | he'
      · have := hK.walLt e' he'; omega
      · exact hskip e' (List.mem_filter.mpr ⟨he', by simpa using (by rw [a1]; exact hdur)⟩) a2

/-- the system the next phase starts from satisfies the start conditions again -/
theorem kstart_next {cfg : Cfg} {start : Nat → Pc} {y0 y1 : Sys} {acc : List Nat} (hK : KStart start y0)
    (hA : AInv cfg start y1 acc) (h : PInv start y0 y1) :
    KStart start { y1 with st := y1.st.recovered } := by
  have hwal : ∀ e ∈ y1.st.recovered.wal, e ∈ y1.st.wal ∧ e.seq ≤ y1.st.synced := by
    intro e he
    rw [recovered_wal] at he
    have := List.mem_filter.mp he
    exact ⟨this.1, by simpa using this.2⟩
  have habs : ∀ k, y1.st.recovered.abs k = y1.st.crash.recover.abs k := fun k => abs_second_crash y1.st k
  refine ⟨?_, fun e he => h.walLt e (hwal e he).1, fun e he => (hwal e he).2, ?_, h.bn, h.ended, ?_, hA.ids⟩
  · show (y1.st.recovered.wal.map (·.seq)).Pairwise (· < ·)
    rw [recovered_wal]
    exact List.Pairwise.sublist (List.Sublist.map _ List.filter_sublist) h.sorted
  · intro k
    show y1.st.recovered.abs k = (match lastFor k y1.st.recovered.wal none with
      | some c => some c
      | none => lookLevels k y1.st.levels).join
    rw [habs, recovered_wal]
    exact abs_crash_recover y1.st k
  · intro k v hv
    have hv' : y1.st.crash.recover.abs k = some v := by rw [← habs]; exact hv
    rcases later_phase_facts hK h k with ⟨w, hw, wnew, wst, _⟩ | ⟨hb, _⟩
    · rw [hv'] at wst
      exact ⟨w, hw, wnew.1, k, wst⟩
    · rw [hv'] at hb
      obtain ⟨f, hf, hfb, hst⟩ := hK.baseOld k v hb.symm
      exact ⟨f, h.keep f hf hfb, hfb, hst⟩

end HappyModel.C15
