import HappyProofs.C14.Basic
/-! WAL replay: what `recover_from_crash` leaves in the memtable. -/
namespace HappyModel.C15
open HappyModel.C14

/-- cell of the last log entry for `k` (replay order), or `acc` if there is none -/
def lastFor (k : Key) : List WalE → Option Cell → Option Cell
  | [], acc => acc
  | e :: r, acc => lastFor k r (if k = e.key then some e.cell else acc)

theorem lookup_replay (k : Key) (w : List WalE) (m : Data) :
    (w.foldl (fun m e => ins e.key e.cell m) m).lookup k = lastFor k w (m.lookup k) := by
  induction w generalizing m with
  | nil => rfl
  | cons e r ih =>
    simp only [List.foldl_cons, lastFor]
    rw [ih, lookup_ins]

theorem lastFor_split (k : Key) (w : List WalE) (acc : Option Cell) :
    lastFor k w acc = match lastFor k w none with
      | some c => some c
      | none => acc := by
  induction w generalizing acc with
  | nil => rfl
  | cons e r ih =>
    simp only [lastFor]
    by_cases h : k = e.key
    · simp only [if_pos h]
      rw [ih (some e.cell)]
      cases lastFor k r none <;> rfl
    · simp only [if_neg h]
      rw [ih acc]

theorem lastFor_idem (k : Key) (w : List WalE) (acc : Option Cell) :
    lastFor k w (lastFor k w acc) = lastFor k w acc := by
  rw [lastFor_split k w (lastFor k w acc), lastFor_split k w acc]
  cases lastFor k w none <;> rfl

/-- every cell a replay produces was in the log (or was there before) -/
theorem lastFor_mem (k : Key) (w : List WalE) (acc : Option Cell) (c : Cell)
    (h : lastFor k w acc = some c) : acc = some c ∨ ∃ e ∈ w, e.key = k ∧ e.cell = c := by
  induction w generalizing acc with
  | nil => exact Or.inl h
  | cons e r ih =>
    simp only [lastFor] at h
    rcases ih _ h with h1 | ⟨e', he', hk, hc⟩
    · by_cases hke : k = e.key
      · simp only [hke, if_true] at h1
        exact Or.inr ⟨e, List.mem_cons_self .., hke.symm, by simpa using h1⟩
      · simp only [hke, if_false] at h1
        exact Or.inl h1
    · exact Or.inr ⟨e', List.mem_cons_of_mem _ he', hk, hc⟩

end HappyModel.C15
