import HappyModel.C15.Spec
import HappyProofs.C14.LsmObs
/-! Semantic statement of crash durability in terms of frames; observations of a model run. -/
namespace HappyModel.C15
open HappyModel.C14

/-- no durable write to `k` began after `w` completed -/
def NotSuperseded (start : Nat → Pc) (y : Sys) (k : Key) (w : Frame) : Prop :=
  ∀ w' ∈ y.frames, w'.id ≠ w.id → ∀ b' c', w'.b = some b' → start w'.id = .pStart k c' →
    w'.seq0 ≤ y.st.synced → ∀ e, w.e = some e → ¬ e < b'

/-- what `crash(); recover_from_crash()` makes readable, in terms of the write operations of the run -/
structure CrashFacts (start : Nat → Pc) (y : Sys) : Prop where
  some : ∀ k v, y.st.crash.recover.abs k = some v →
    ∃ w ∈ y.frames, w.b ≠ none ∧ start w.id = .pStart k (some v) ∧ NotSuperseded start y k w
  none : ∀ k, y.st.crash.recover.abs k = none →
    (∀ w ∈ y.frames, ∀ c, w.b ≠ none → start w.id = .pStart k c → ¬ w.seq0 ≤ y.st.synced) ∨
    ∃ d ∈ y.frames, d.b ≠ none ∧ start d.id = .pStart k none ∧ NotSuperseded start y k d

/-- the write observations the driver prints (`wLine`) -/
def wObsOf (ops : List (Nat × OKind)) (y : Sys) : List WRec :=
  y.frames.filterMap fun f =>
    match f.b, ops.lookup f.id with
    | some b, some (.put k v) => some ⟨f.id, k, some v, f.seq0, b, f.e⟩
    | some b, some (.del k) => some ⟨f.id, k, none, f.seq0, b, f.e⟩
    | _, _ => none

def readsOf (nkeys : Nat) (s : St) : List (Option Nat) := (List.range nkeys).map s.abs

end HappyModel.C15
