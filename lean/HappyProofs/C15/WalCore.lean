import HappyProofs.C15.WalInv
/-! The state-level WAL invariant under each kind of segment. -/
namespace HappyModel.C15
open HappyModel.C14

/-- nothing the invariant reads changes -/
theorem core_same {st st' : St} {log : List Ev} {g : Ghost} (h : WCore st log g)
    (e1 : st'.mem = st.mem) (e2 : st'.imms = st.imms)
    (e3 : ∀ k, (lookLevels k st'.levels).join = (lookLevels k st.levels).join) (e4 : st'.memId = st.memId)
    (e5 : st'.wal = st.wal) (e6 : st'.nextSeq = st.nextSeq) (e7 : st'.pending = st.pending) :
    WCore st' log g ∧ Rel st g st' g none := by
  obtain ⟨a1, a2, a3, a4, a5, a6, a7, a8, a9, a10, a11, a12⟩ := h
  refine ⟨⟨a1, ?_, ?_, ?_, ?_, ?_, ?_, ?_, ?_, ?_, ?_, ?_⟩, ⟨?_, ?_, ?_, ?_, ?_, ?_⟩⟩
  · rw [e1]; exact a2
  · rw [e2]; exact a3
  · intro k; rw [e3]; exact a4 k
  · rw [e2]; exact a5
  · rw [e2, e4]; exact a6
  · rw [e5]; exact a7
  · rw [e5, e6]; exact a8
  · rw [e7, e6]; exact a9
  · rw [e5]; exact a10
  · rw [e6]; exact a11
  · rw [e5]; exact a12
  · rw [e6]; exact Nat.le_refl _
  · intro q hq; left; rw [e7]; exact hq
  · intro q hq; left; rw [e7] at hq; exact hq
  · intro e he _; rw [e5]; exact he
  · intro e he; exact Or.inl he
  · intro gi hgi e he; exact Or.inl ⟨gi, hgi, rfl, he⟩

def appendSt (st : St) (k : Key) (c : Cell) : St :=
  { st with wal := st.wal ++ [⟨st.nextSeq, k, c⟩], nextSeq := st.nextSeq + 1, wss := st.wss + 1,
            pending := st.nextSeq :: st.pending }

/-- WAL append (`putStart` with a WAL) -/
theorem core_append {st : St} {log : List Ev} {g : Ghost} (h : WCore st log g) (k : Key) (c : Cell) :
    WCore (appendSt st k c) log g ∧ Rel st g (appendSt st k c) g none := by
  obtain ⟨a1, a2, a3, a4, a5, a6, a7, a8, a9, a10, a11, a12⟩ := h
  refine ⟨⟨a1, a2, a3, a4, a5, a6, ?_, ?_, ?_, ?_, ?_, ?_⟩, ⟨?_, ?_, ?_, ?_, ?_, ?_⟩⟩
  · show ((st.wal ++ [(⟨st.nextSeq, k, c⟩ : WalE)]).map (·.seq)).Pairwise (· < ·)
    rw [List.map_append]
    apply List.pairwise_append.mpr
    refine ⟨a7, by simp, ?_⟩
    intro x hx y hy
    simp only [List.map_cons, List.map_nil, List.mem_singleton] at hy
    obtain ⟨e, he, rfl⟩ := List.mem_map.mp hx
    rw [hy]; exact a8 e he
  · intro e he
    show e.seq < st.nextSeq + 1
    rcases List.mem_append.mp he with he | he
    · exact Nat.lt_succ_of_lt (a8 e he)
    · rw [List.mem_singleton] at he; subst he; exact Nat.lt_succ_self _
  · intro q hq
    show 1 ≤ q ∧ q < st.nextSeq + 1
    rcases List.mem_cons.mp hq with rfl | hq
    · have : 1 ≤ st.nextSeq := by omega
      exact ⟨this, Nat.lt_succ_self _⟩
    · exact ⟨(a9 q hq).1, Nat.lt_succ_of_lt (a9 q hq).2⟩
  · intro e he
    rcases List.mem_append.mp he with he | he
    · exact a10 e he
    · rw [List.mem_singleton] at he; subst he; exact a11
  · exact Nat.lt_succ_of_lt a11
  · intro ev hev
    rcases a12 ev hev with ⟨e, he, r⟩ | r
    · exact Or.inl ⟨e, List.mem_append_left _ he, r⟩
    · exact Or.inr r
  · exact Nat.le_succ _
  · intro q hq; exact Or.inl (List.mem_cons_of_mem _ hq)
  · intro q hq
    rcases List.mem_cons.mp hq with rfl | hq
    · exact Or.inr (Nat.le_refl _)
    · exact Or.inl hq
  · intro e he _; exact List.mem_append_left _ he
  · intro e he; exact Or.inl he
  · intro gi hgi e he; exact Or.inl ⟨gi, hgi, rfl, he⟩

/-- memtable insert of a logged write -/
theorem core_insert {st st1 : St} {log : List Ev} {g : Ghost} (h : WCore st log g) (k : Key) (c : Cell) (q n id : Nat)
    (e1 : st1.mem = st.mem) (e2 : st1.imms = st.imms) (e3 : st1.levels = st.levels) (e4 : st1.memId = st.memId)
    (e5 : st1.wal = st.wal) (e6 : st1.nextSeq = st.nextSeq) (e7 : st1.pending = st.pending)
    (hq : q ∈ st.pending) (hent : ∃ e ∈ st.wal, e.seq = q ∧ e.key = k ∧ e.cell = c) :
    let st' := (memInsert (unpend st1 q) k c).1
    let ev : Ev := ⟨n, id, k, c, q⟩
    WCore st' (ev :: log) { g with gmem := ev :: g.gmem } ∧ Rel st g st' { g with gmem := ev :: g.gmem } (some q) := by
  intro st' ev
  obtain ⟨a1, a2, a3, a4, a5, a6, a7, a8, a9, a10, a11, a12⟩ := h
  have hpend : ∀ x ∈ st'.pending, x ∈ st.pending := by
    intro x hx
    have : x ∈ st1.pending.filter (· != q) := hx
    rw [e7] at this
    exact (List.mem_filter.mp this).1
  refine ⟨⟨?_, ?_, ?_, ?_, ?_, ?_, ?_, ?_, ?_, ?_, ?_, ?_⟩, ⟨?_, ?_, ?_, ?_, ?_, ?_⟩⟩
  · rw [a1]; simp [Ghost.all]
  · intro k'
    show (ins k c st1.mem).lookup k' = firstOn k' (ev :: g.gmem)
    rw [lookup_ins, e1, a2 k']
    simp only [firstOn]
    by_cases hk : k' = k
    · subst hk; simp [ev]
    · have : ¬ k = k' := fun e => hk e.symm
      simp [hk, ev, this]
  · show ImmG st1.imms g.gimms; rw [e2]; exact a3
  · intro k'; show (lookLevels k' st1.levels).join = _; rw [e3]; exact a4 k'
  · show (st1.imms.map (·.id)).Pairwise (· < ·); rw [e2]; exact a5
  · intro u hu
    have hu' : u ∈ st1.imms := hu
    rw [e2] at hu'
    show u.id < st1.memId
    rw [e4]; exact a6 u hu'
  · show (st1.wal.map (·.seq)).Pairwise (· < ·); rw [e5]; exact a7
  · intro e he
    have he' : e ∈ st1.wal := he
    rw [e5] at he'
    show e.seq < st1.nextSeq
    rw [e6]; exact a8 e he'
  · intro x hx
    show 1 ≤ x ∧ x < st1.nextSeq
    rw [e6]; exact a9 x (hpend x hx)
  · intro e he
    have he' : e ∈ st1.wal := he
    rw [e5] at he'
    exact a10 e he'
  · show g.T < st1.nextSeq; rw [e6]; exact a11
  · intro ev' hev'
    have hw : st'.wal = st.wal := e5
    rw [hw]
    rcases List.mem_cons.mp hev' with rfl | hev'
    · exact Or.inl hent
    · exact a12 ev' hev'
  · show st.nextSeq ≤ st1.nextSeq; rw [e6]; exact Nat.le_refl _
  · intro x hx
    by_cases hxq : x = q
    · right; rw [hxq]
    · left
      show x ∈ st1.pending.filter (· != q)
      rw [e7]
      exact List.mem_filter.mpr ⟨hx, by simpa using hxq⟩
  · intro x hx; exact Or.inl (hpend x hx)
  · intro e he _
    show e ∈ st1.wal
    rw [e5]; exact he
  · intro e he
    rcases List.mem_cons.mp he with rfl | he
    · exact Or.inr hq
    · exact Or.inl he
  · intro gi hgi e he; exact Or.inl ⟨gi, hgi, rfl, he⟩

def freezeSt (st : St) : St :=
  { st with imms := st.imms ++ [⟨st.memId, st.mem⟩], frozen := (st.memId, st.mem.length) :: st.frozen,
            mem := [], memId := st.nextId, nextId := st.nextId + 1 }

def freezeG (st : St) (g : Ghost) : Ghost := { g with gmem := [], gimms := g.gimms ++ [(st.memId, g.gmem)] }

/-- freezing the active memtable (`flushStart` with a non-empty memtable) -/
theorem core_freeze {st : St} {log : List Ev} {g : Ghost} (h : WCore st log g) (hid : st.memId < st.nextId) :
    WCore (freezeSt st) log (freezeG st g) ∧ Rel st g (freezeSt st) (freezeG st g) none := by
  obtain ⟨a1, a2, a3, a4, a5, a6, a7, a8, a9, a10, a11, a12⟩ := h
  refine ⟨⟨?_, ?_, ?_, a4, ?_, ?_, a7, a8, a9, a10, a11, a12⟩, ⟨Nat.le_refl _, fun q hq => Or.inl hq, fun q hq => Or.inl hq,
    fun e he _ => he, ?_, ?_⟩⟩
  · rw [a1]
    simp [Ghost.all, freezeG, List.reverse_append, List.flatMap_cons]
  · intro k; rfl
  · exact immG_append a3 ⟨st.memId, st.mem⟩ (st.memId, g.gmem) rfl a2
  · show ((st.imms ++ [(⟨st.memId, st.mem⟩ : Tab)]).map (·.id)).Pairwise (· < ·)
    rw [List.map_append]
    apply List.pairwise_append.mpr
    refine ⟨a5, by simp, ?_⟩
    intro x hx y hy
    simp only [List.map_cons, List.map_nil, List.mem_singleton] at hy
    obtain ⟨u, hu, rfl⟩ := List.mem_map.mp hx
    rw [hy]; exact a6 u hu
  · intro u hu
    show u.id < st.nextId
    rcases List.mem_append.mp hu with hu | hu
    · exact Nat.lt_trans (a6 u hu) hid
    · rw [List.mem_singleton] at hu; subst hu; exact hid
  · intro e he; cases he
  · intro gi hgi e he
    rcases List.mem_append.mp hgi with hgi | hgi
    · exact Or.inl ⟨gi, hgi, rfl, he⟩
    · rw [List.mem_singleton] at hgi; subst hgi
      exact Or.inr ⟨he, rfl⟩

theorem immG_cons_inv {t : Tab} {r : List Tab} {gimms : List (Nat × List Ev)} (h : ImmG (t :: r) gimms) :
    ∃ gi gr, gimms = gi :: gr ∧ gi.1 = t.id ∧ (∀ k, t.data.lookup k = firstOn k gi.2) ∧ ImmG r gr := by
  cases gimms with
  | nil => exact h.elim
  | cons gi gr => exact ⟨gi, gr, rfl, h.1.1, h.1.2, h.2⟩

/-- installing the SSTable of the oldest frozen memtable and truncating the log -/
theorem core_install {cfg : Cfg} {st : St} {log : List Ev} {g : Ghost} (h : WCore st log g) (t : Tab) (r : List Tab) (b : Nat)
    (hw : cfg.wal.isSome = true) (himm : st.imms = t :: r) (hid : ∀ i ∈ r, i.id ≠ t.id) (hlv : st.levels ≠ [])
    (hb1 : ∀ q ∈ st.pending, b < q) (hb2 : b < st.nextSeq) (hb3 : ∀ e ∈ g.gmem, b < e.seq)
    (hb4 : ∀ gi ∈ g.gimms, t.id < gi.1 → ∀ e ∈ gi.2, b < e.seq) :
    ∃ g', WCore (flushS1 cfg st t b) log g' ∧ Rel st g (flushS1 cfg st t b) g' none := by
  obtain ⟨a1, a2, a3, a4, a5, a6, a7, a8, a9, a10, a11, a12⟩ := h
  rw [himm] at a3 a5 a6
  obtain ⟨gi, gr, hg, hgi1, hgi2, hgr⟩ := immG_cons_inv a3
  have himms' : (flushS1 cfg st t b).imms = r := by
    show st.imms.filter (fun i => i.id != t.id) = r
    rw [himm]
    simp [List.filter_cons, lookTabs_filter_ne 0 t.id r hid]
  have hwal' : (flushS1 cfg st t b).wal = st.wal.filter (fun e => e.seq > b) := by
    show (if cfg.wal.isSome then st.wal.filter (fun e => e.seq > b) else st.wal) = _
    rw [hw]; rfl
  have hlater : ∀ gi' ∈ gr, t.id < gi'.1 := by
    intro gi' hgi'
    obtain ⟨t', ht', e⟩ := immG_mem hgr hgi'
    rw [← e]
    simp only [List.map_cons, List.pairwise_cons] at a5
    exact a5.1 _ (List.mem_map_of_mem ht')
  refine ⟨{ g with gimms := gr, glv := gi.2 ++ g.glv, T := max g.T b }, ⟨?_, a2, ?_, ?_, ?_, ?_, ?_, ?_, a9, ?_, ?_, ?_⟩,
    ⟨Nat.le_refl _, fun q hq => Or.inl hq, fun q hq => Or.inl hq, ?_, fun e he => Or.inl he, ?_⟩⟩
  · rw [a1]
    simp [Ghost.all, hg, List.flatMap_append, List.flatMap_cons]
  · rw [himms']; exact hgr
  · intro k
    show (lookLevels k (modAt st.levels 0 (· ++ [t]))).join = (firstOn k (gi.2 ++ g.glv)).join
    rw [lookLevels_modAt0 k st.levels t hlv, firstOn_append, hgi2 k]
    exact or_join_congr _ _ _ (a4 k)
  · rw [himms']
    simp only [List.map_cons, List.pairwise_cons] at a5
    exact a5.2
  · intro u hu
    rw [himms'] at hu
    exact a6 u (List.mem_cons_of_mem _ hu)
  · rw [hwal']
    exact List.Pairwise.sublist (List.Sublist.map _ List.filter_sublist) a7
  · intro e he
    rw [hwal'] at he
    exact a8 e (List.mem_filter.mp he).1
  · intro e he
    rw [hwal'] at he
    have h1 := a10 e (List.mem_filter.mp he).1
    have h2 : b < e.seq := by simpa using (List.mem_filter.mp he).2
    show max g.T b < e.seq
    omega
  · show max g.T b < st.nextSeq
    omega
  · intro ev hev
    rw [hwal']
    show _ ∨ (ev ∈ gi.2 ++ g.glv ∧ ev.seq ≤ max g.T b)
    rcases a12 ev hev with ⟨e, he, e1, e2, e3⟩ | ⟨h1, h2⟩
    · by_cases hbe : b < e.seq
      · exact Or.inl ⟨e, List.mem_filter.mpr ⟨he, by simpa using hbe⟩, e1, e2, e3⟩
      · right
        have hle : ev.seq ≤ b := by omega
        rw [a1] at hev
        simp only [Ghost.all, hg, List.reverse_cons, List.flatMap_append, List.flatMap_cons, List.flatMap_nil,
          List.append_nil, List.mem_append, List.mem_flatMap, List.mem_reverse] at hev
        refine ⟨?_, by omega⟩
        rcases hev with (hev | ⟨gi', hgi', hev⟩ | hev) | hev
        · have := hb3 ev hev; omega
        · have := hb4 gi' (by rw [hg]; exact List.mem_cons_of_mem _ hgi') (hlater gi' hgi') ev hev; omega
        · exact List.mem_append_left _ hev
        · exact List.mem_append_right _ hev
    · exact Or.inr ⟨List.mem_append_right _ h1, by omega⟩
  · intro e he hp
    rw [hwal']
    exact List.mem_filter.mpr ⟨he, by simpa using hb1 _ hp⟩
  · intro gi' hgi' e he
    exact Or.inl ⟨gi', by rw [hg]; exact List.mem_cons_of_mem _ hgi', rfl, he⟩

end HappyModel.C15
