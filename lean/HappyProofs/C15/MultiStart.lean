import HappyProofs.C15.MultiBase
import HappyProofs.C15.MultiSim
import HappyProofs.C15.SurviveB
/-! The invariants `LInvB` / `WInvB` hold for the system a later phase starts from, once the abandoned frames
    are dropped. -/
namespace HappyModel.C15
open HappyModel.C14

/-- what the recovered system a later phase starts from satisfies, beyond `KStart` -/
structure KX (cfg : Cfg) (B : Nat) (start : Nat → Pc) (y : Sys) : Prop where
  sinv : SInv cfg y.st
  mem : y.st.mem = y.st.wal.foldl (fun m e => ins e.key e.cell m) []
  imms : y.st.imms = []
  pend : ∀ q ∈ y.st.pending, 1 ≤ q ∧ q < y.st.nextSeq
  walPos : ∀ e ∈ y.st.wal, 1 ≤ e.seq
  nseq : 1 ≤ y.st.nextSeq
  idLt : ∀ f ∈ y.frames, f.id < B
  starts : ∀ f ∈ y.frames, (start f.id).isStart = true

/-- ids that do not belong to a frame that has started -/
def liveOf (y0 : Sys) (id : Nat) : Bool := !(y0.frames.any fun f => f.id == id && f.b.isSome)

theorem live_iff {y0 : Sys} (hids : (y0.frames.map (·.id)).Nodup) {f : Frame} (hf : f ∈ y0.frames) :
    liveOf y0 f.id = true ↔ f.b = none := by
  unfold liveOf
  constructor
  · intro h
    cases hb : f.b with
    | none => rfl
    | some b =>
      have : (y0.frames.any fun g => g.id == f.id && g.b.isSome) = true :=
        List.any_eq_true.mpr ⟨f, hf, by simp [hb]⟩
      rw [this] at h; cases h
  · intro hb
    cases hany : (y0.frames.any fun g => g.id == f.id && g.b.isSome) with
    | false => rfl
    | true =>
      obtain ⟨g, hg, hp⟩ := List.any_eq_true.mp hany
      simp only [Bool.and_eq_true, beq_iff_eq] at hp
      have := map_nodup_inj (·.id) y0.frames hids g f hg hf hp.1
      rw [this, hb] at hp
      cases hp.2

theorem live_sched {y0 : Sys} {sched : List Nat} (hun : ∀ f ∈ y0.frames, f.id ∈ sched → f.b = none) :
    ∀ id ∈ sched, liveOf y0 id = true := by
  intro id hid
  unfold liveOf
  cases hany : (y0.frames.any fun g => g.id == id && g.b.isSome) with
  | false => rfl
  | true =>
    obtain ⟨g, hg, hp⟩ := List.any_eq_true.mp hany
    simp only [Bool.and_eq_true, beq_iff_eq] at hp
    have := hun g hg (by rw [hp.1]; exact hid)
    rw [this] at hp
    cases hp.2

section
variable {cfg : Cfg} {B : Nat} {start : Nat → Pc} {y0 : Sys} {acc : List Nat}

theorem live_frame (hA : AInv cfg start y0 acc) {f : Frame} (hf : f ∈ (y0.live (liveOf y0)).frames) :
    f ∈ y0.frames ∧ f.b = none ∧ f.pc.isStart = true ∧ f.pc = start f.id ∧ f.e = none := by
  have hf' := List.mem_filter.mp hf
  have hb := (live_iff hA.ids hf'.1).mp hf'.2
  have hs := hA.unstarted f hf'.1 hb
  refine ⟨hf'.1, hb, hs, pcCons_isStart (hA.cons f hf'.1) hs, ?_⟩
  cases he : f.e with
  | none => rfl
  | some e =>
    have := hA.ended f hf'.1 (by rw [he]; simp)
    rw [(isStart_not_done hs).1] at this; cases this

theorem linvB_start (hK : KStart start y0) (hA : AInv cfg start y0 acc) (hX : KX cfg B start y0) :
    LInvB cfg B start (y0.live (liveOf y0)) (log0Of B y0.st) := by
  have hB := base0_of B y0.st hK.sorted hK.dur hX.mem hX.imms
  have hbase : ∀ ev ∈ log0Of B y0.st, ev.id < B → False := fun ev hev h => by have := hB.base ev hev; omega
  refine ⟨⟨hX.sinv, ?_, ?_, ?_⟩, ?_, ?_, ?_, ?_, abs_log0 B y0.st hX.mem hX.imms, ?_, ?_, log0_sorted B y0.st hK.sorted, ?_⟩
  · intro f hf
    exact (plain_ok (start_plain (live_frame hA hf).2.2.1)).1
  · have : (y0.live (liveOf y0)).frames.countP (fun f => f.pc.isCompact) = 0 := by
      apply List.countP_eq_zero.mpr
      intro f hf
      rw [(plain_ok (cfg := cfg) (s := y0.st) (start_plain (live_frame hA hf).2.2.1)).2.1]
      simp
    rw [this]; exact Nat.zero_le _
  · have : (y0.live (liveOf y0)).frames.filterMap (fun f => flushId f.pc) = [] := by
      apply List.filterMap_eq_nil_iff.mpr
      intro f hf
      exact (plain_ok (cfg := cfg) (s := y0.st) (start_plain (live_frame hA hf).2.2.1)).2.2
    rw [this]; exact List.nodup_nil
  · exact List.Nodup.sublist (List.Sublist.map _ List.filter_sublist) hA.ids
  · intro f hf; exact hX.idLt f (live_frame hA hf).1
  · intro f hf
    obtain ⟨hf0, hb, hs, hst, he⟩ := live_frame hA hf
    obtain ⟨d1, d2, d3⟩ := isStart_not_done hs
    refine ⟨(by rw [← hst]; exact pcCons_self hs), fun _ => ⟨hst, he⟩, fun b hb' => (by rw [hb] at hb'; cases hb'),
      fun e he' => (by rw [he] at he'; cases he'), fun hd => (by rw [d1] at hd; cases hd), ?_,
      fun ha => (by rw [d2] at ha; cases ha), fun q hq => (by rw [d3] at hq; cases hq)⟩
    intro _ ev hev hid
    exact hbase ev hev (by rw [hid]; exact hX.idLt f hf0)
  · intro f hf; exact hX.starts f (live_frame hA hf).1
  · intro e he hb; exact (hbase e he hb).elim
  · intro e he hb; exact (hbase e he hb).elim
  · intro e1 he1 e2 _ _ hb; exact (hbase e1 he1 hb).elim

theorem winvB_start (hK : KStart start y0) (hA : AInv cfg start y0 acc) (hX : KX cfg B start y0) :
    WInvB start y0.st.nextSeq y0.st.wal (y0.live (liveOf y0)) (log0Of B y0.st) (ghost0Of B y0.st) := by
  refine ⟨wcore0 B y0.st hK.sorted hX.mem hX.imms hK.walLt hX.pend hX.walPos hX.nseq, ?_, ?_, ?_, ?_, Nat.le_refl _, ?_,
    fun e he _ => he⟩
  · intro e he hge
    have := hK.walLt e he
    exact absurd hge (by show ¬ y0.st.nextSeq ≤ e.seq; omega)
  · intro f hf f' _ b hb; rw [(live_frame hA hf).2.1] at hb; cases hb
  · intro f hf f' _ b b' hb; rw [(live_frame hA hf).2.1] at hb; cases hb
  · intro f hf
    obtain ⟨_, hb, hs, _, _⟩ := live_frame hA hf
    refine ⟨fun h => absurd hb h, fun q hq => (by rw [(isStart_not_done hs).2.2] at hq; cases hq), ?_⟩
    intro t b' hp; rw [hp] at hs; cases hs
  · intro f hf h; exact absurd (live_frame hA hf).2.1 h

end

end HappyModel.C15
