import HappyProofs.C15.PhasesLight4
/-! Auxiliary facts for multi-phase crash runs: the state invariant across crash / recovery, frame ids and
provenance along a run, monotonicity of `synced_up_to`, shape of one ghost-log step. -/
namespace HappyModel.C15
open HappyModel.C14

/-! ### 1. the state invariant across crash and recovery -/

theorem sinv_crash {cfg : Cfg} {s : St} (h : SInv cfg s) : SInv cfg s.crash := by
  obtain ⟨h1, h2, h3, h4, h5, h6, h7, h8⟩ := h
  refine ⟨h1, sorted_nil, ?_, ?_, ?_, ?_, ?_, ?_⟩
  · intro t ht; cases ht
  · exact List.Pairwise.nil
  · intro i t _ u hu; cases hu
  · intro i t ht
    have := (h6 i t ht).1
    exact ⟨Nat.lt_succ_of_lt this, Nat.ne_of_lt this⟩
  · intro u hu; cases hu
  · exact Nat.lt_succ_self _

theorem sorted_foldl_ins (l : List WalE) (m : Data) (h : Sorted m) :
    Sorted (l.foldl (fun m e => ins e.key e.cell m) m) := by
  induction l generalizing m with
  | nil => exact h
  | cons e r ih => exact ih _ (sorted_ins _ _ _ h)

theorem sinv_recover {cfg : Cfg} {s : St} (h : SInv cfg s) : SInv cfg s.recover :=
  h.of_eq rfl rfl rfl rfl (sorted_foldl_ins _ _ h.memSorted)

theorem sinv_recovered {cfg : Cfg} {s : St} (h : SInv cfg s) : SInv cfg s.recovered :=
  sinv_recover (sinv_crash (sinv_recover (sinv_recover (sinv_crash h))))

/-! ### 2. the recovered state -/

theorem recovered_mem (s : St) :
    s.recovered.mem = s.recovered.wal.foldl (fun m e => ins e.key e.cell m) [] := rfl

theorem recovered_simple (s : St) :
    s.recovered.imms = [] ∧ s.recovered.pending = s.pending ∧ s.recovered.nextSeq = s.nextSeq ∧
    s.recovered.synced = s.synced ∧ s.recovered.levels = s.levels :=
  ⟨rfl, rfl, rfl, rfl, rfl⟩

/-! ### 3. ids and the segment counter along a run -/

theorem advFrame_id (cfg : Cfg) (st : St) (n : Nat) (f : Frame) : (advFrame cfg st n f).id = f.id := rfl

theorem advFrame_b_ne_none (cfg : Cfg) (st : St) (n : Nat) (f : Frame) : (advFrame cfg st n f).b ≠ none := by
  cases hfb : f.b with
  | none => rw [(adv_b_none hfb).1]; simp
  | some b => rw [(adv_b_some hfb).1]; simp

theorem step_ids (cfg : Cfg) (y : Sys) (id : Nat) :
    (y.step cfg id).frames.map (·.id) = y.frames.map (·.id) := by
  rcases step_cases cfg y id with h0 | ⟨pre, f, post, h1, _, _, _, h5⟩
  · rw [h0]
  · rw [h5, h1]
    simp only [List.map_append, List.map_cons, advFrame_id]

theorem step_n (cfg : Cfg) (y : Sys) (id : Nat) : (y.step cfg id).n = y.n + 1 := rfl

theorem run_ids (cfg : Cfg) (sched : List Nat) (y : Sys) :
    (y.run cfg sched).frames.map (·.id) = y.frames.map (·.id) := by
  induction sched generalizing y with
  | nil => rfl
  | cons id ids ih =>
    show ((y.step cfg id).run cfg ids).frames.map (·.id) = _
    rw [ih, step_ids]

theorem run_n (cfg : Cfg) (sched : List Nat) (y : Sys) : (y.run cfg sched).n = y.n + sched.length := by
  induction sched generalizing y with
  | nil => rfl
  | cons id ids ih =>
    show ((y.step cfg id).run cfg ids).n = _
    rw [ih, step_n, List.length_cons]
    omega

/-! ### 4. provenance of the frames of a run -/

theorem step_old_or_new (cfg : Cfg) (y : Sys) (id : Nat) :
    ∀ f ∈ (y.step cfg id).frames, f ∈ y.frames ∨ (f.b ≠ none ∧ f.id = id ∧ ∃ f0 ∈ y.frames, f0.id = f.id) := by
  intro g hg
  rcases step_cases cfg y id with h0 | ⟨pre, f, post, h1, h2, _, _, h5⟩
  · rw [h0] at hg; exact Or.inl hg
  · rw [h5] at hg
    simp only [List.mem_append, List.mem_cons] at hg
    rcases hg with hg | rfl | hg
    · left; rw [h1]; simp [hg]
    · right
      refine ⟨advFrame_b_ne_none _ _ _ _, h2, f, ?_, rfl⟩
      rw [h1]; simp
    · left; rw [h1]; simp [hg]

theorem run_old_or_new (cfg : Cfg) (sched : List Nat) (y : Sys) :
    ∀ f ∈ (y.run cfg sched).frames,
      f ∈ y.frames ∨ (f.b ≠ none ∧ f.id ∈ sched ∧ ∃ f0 ∈ y.frames, f0.id = f.id) := by
  induction sched generalizing y with
  | nil => intro f hf; exact Or.inl hf
  | cons id ids ih =>
    intro f hf
    have hids : ∃ f0 ∈ y.frames, f0.id = f.id := by
      have hm : f.id ∈ (y.run cfg (id :: ids)).frames.map (·.id) := List.mem_map.mpr ⟨f, hf, rfl⟩
      rw [run_ids] at hm
      obtain ⟨f0, hf0, he⟩ := List.mem_map.mp hm
      exact ⟨f0, hf0, he⟩
    have hf' : f ∈ ((y.step cfg id).run cfg ids).frames := hf
    rcases ih (y.step cfg id) f hf' with h | ⟨hb, hin, _⟩
    · rcases step_old_or_new cfg y id f h with h | ⟨hb, he, _⟩
      · exact Or.inl h
      · exact Or.inr ⟨hb, by rw [he]; exact List.mem_cons_self .., hids⟩
    · exact Or.inr ⟨hb, List.mem_cons_of_mem _ hin, hids⟩

/-! ### 5. `synced_up_to` never decreases when syncs complete in order -/

theorem synced_mono_step (cfg : Cfg) (y : Sys) (id : Nat) (hs : SyncOk y id) :
    y.st.synced ≤ (y.step cfg id).st.synced := by
  rcases astep_cases cfg y id with ⟨h0, _⟩ | ⟨pre, f, post, _, _, _, _, h5, h6⟩
  · rw [h0]; exact Nat.le_refl _
  · rw [h5]
    have hs' := hs f h6
    show y.st.synced ≤ (stepOp cfg y.st f.pc).1.synced
    rw [synced_stepOp]
    cases hpc : f.pc <;> first | exact Nat.le_refl _ | exact hs' _ _ _ hpc

theorem synced_mono_run (cfg : Cfg) (sched : List Nat) (y : Sys) (hs : syncsInOrderB cfg y sched = true) :
    y.st.synced ≤ (y.run cfg sched).st.synced := by
  induction sched generalizing y with
  | nil => exact Nat.le_refl _
  | cons id ids ih =>
    obtain ⟨h1, h2⟩ := syncsInOrderB_cons hs
    exact Nat.le_trans (synced_mono_step cfg y id h1) (ih _ h2)

/-! ### 6. one step of the ghost log -/

theorem logStep_cases (cfg : Cfg) (y : Sys) (log : List Ev) (id : Nat) :
    logStep cfg y log id = log ∨
    ∃ ev f, f ∈ y.frames ∧ ev.id = f.id ∧ logStep cfg y log id = ev :: log := by
  rcases gstep_cases cfg y id with ⟨_, hl⟩ | ⟨pre, f, post, h1, _, _, _, _, h6⟩
  · exact Or.inl (hl log)
  · rw [h6 log]
    unfold evOf
    split
    · rename_i k c q _
      right
      exact ⟨⟨y.n, f.id, k, c, q⟩, f, by rw [h1]; simp, rfl, rfl⟩
    · left; rfl

end HappyModel.C15
