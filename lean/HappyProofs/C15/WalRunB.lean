import HappyProofs.C15.WalStepB
/-! The WAL invariant (recovered start) along every in-order run. -/
namespace HappyModel.C15
open HappyModel.C14

/-- other logging frames have a different sequence number -/
theorem other_logging_neB {cfg : Cfg} {p : Policy} {B N0 : Nat} {W0 : List WalE} {start : Nat → Pc} {st : St} {n : Nat} {log : List Ev} {g : Ghost}
    {pre post : List Frame} {f : Frame} (hw : cfg.wal = some p)
    (hL : LInvB cfg B start ⟨st, pre ++ f :: post, n⟩ log) (hW : WInvB start N0 W0 ⟨st, pre ++ f :: post, n⟩ log g)
    {q : Nat} (hfq : f.pc.logging = some q) :
    ∀ h, h ∈ pre ∨ h ∈ post → ∀ q', h.pc.logging = some q' → some q' ≠ some q := by
  intro h hh q' hq' e
  injection e with e
  subst e
  have hwn : cfg.wal ≠ none := by rw [hw]; simp
  have hfm : f ∈ pre ++ f :: post := by simp
  have hhm : h ∈ pre ++ f :: post := by rcases hh with hh | hh <;> simp [hh]
  have hF := hL.frames f hfm
  have hH := hL.frames h hhm
  have s1 : f.seq0 = q' := hF.logSeq q' hfq hwn
  have s2 : h.seq0 = q' := hH.logSeq q' hq' hwn
  have w1 : IsWrite start f := pcCons_logging hF.cons hfq
  have w2 : IsWrite start h := pcCons_logging hH.cons hq'
  -- both started
  have st1 : ∃ b, f.b = some b := by
    cases hb : f.b with
    | none =>
      have := (hF.unstarted hb).1
      have hs := hL.starts f hfm
      rw [← this] at hs
      rw [(isStart_not_done hs).2.2] at hfq; cases hfq
    | some b => exact ⟨b, rfl⟩
  have st2 : ∃ b, h.b = some b := by
    cases hb : h.b with
    | none =>
      have := (hH.unstarted hb).1
      have hs := hL.starts h hhm
      rw [← this] at hs
      rw [(isStart_not_done hs).2.2] at hq'; cases hq'
    | some b => exact ⟨b, rfl⟩
  obtain ⟨b1, hb1⟩ := st1
  obtain ⟨b2, hb2⟩ := st2
  have hidne : h.id ≠ f.id := by
    have hids := hL.ids
    simp only [List.map_append, List.map_cons] at hids
    have h' := List.nodup_append.mp hids
    rcases hh with hh | hh
    · exact h'.2.2 _ (List.mem_map_of_mem hh) _ (List.mem_cons_self ..)
    · have := (List.nodup_cons.mp h'.2.1).1
      exact fun e => this (e ▸ List.mem_map_of_mem hh)
  rcases Nat.lt_trichotomy b1 b2 with hlt | heq | hgt
  · have := hW.seqOrd f hfm h hhm b1 b2 hb1 hb2 hlt w1 w2; omega
  · subst heq; exact hidne (hW.bDistinct h hhm f hfm b1 hb2 hb1)
  · have := hW.seqOrd h hhm f hfm b2 b1 hb2 hb1 hgt w2 w1; omega

theorem winvB_step {cfg : Cfg} {p : Policy} {B N0 : Nat} {W0 : List WalE} {start : Nat → Pc} {y : Sys} {log : List Ev} {g : Ghost} (hw : cfg.wal = some p)
    (hL : LInvB cfg B start y log) (id : Nat) (hh : HeadNow y id) (hW : WInvB start N0 W0 y log g) :
    ∃ g', WInvB start N0 W0 (y.step cfg id) (logStep cfg y log id) g' := by
  rcases gstep_cases cfg y id with ⟨h0, hl⟩ | ⟨pre, f, post, h1, h2, h3, h4, h5, h6⟩
  · rw [h0, hl]; exact ⟨g, ⟨hW.core, hW.walFrame, hW.bDistinct, hW.seqOrd, hW.fw, hW.nseq, hW.seqGe, hW.walOld⟩⟩
  · rw [h5, h6]
    obtain ⟨st, frames, n⟩ := y
    simp only at h1
    subst h1
    simp only
    have hfm : f ∈ pre ++ f :: post := by simp
    have hF := hL.frames f hfm
    have hFW := hW.fw f hfm
    have hsinv := hL.sys.sinv
    have hpok := hL.sys.pcs f hfm
    simp only at hF hFW hsinv hpok
    have hone : 1 ≤ st.nextSeq := by have := hW.core.Tlt; simp only at this; omega
    have hwn : cfg.wal ≠ none := by rw [hw]; simp
    have hb1 : ∀ b, f.b = some b → (advFrame cfg st n f).b = some b ∧ (advFrame cfg st n f).seq0 = f.seq0 :=
      fun b hb => adv_b_some hb
    have hb0 : f.b = none → (advFrame cfg st n f).b = some n ∧ (advFrame cfg st n f).seq0 = st.nextSeq :=
      fun hb => adv_b_none hb
    have hseq : ∀ st' : St, st.nextSeq ≤ st'.nextSeq → (f.b = none → IsWrite start f → st.nextSeq < st'.nextSeq) →
        ((advFrame cfg st n f).b ≠ none → 1 ≤ (advFrame cfg st n f).seq0 ∧
          (IsWrite start (advFrame cfg st n f) → (advFrame cfg st n f).seq0 < st'.nextSeq)) := by
      intro st' hle hlt _
      cases hfb : f.b with
      | none => rw [(hb0 hfb).2]; exact ⟨hone, fun w => hlt hfb w⟩
      | some b =>
        rw [(hb1 b hfb).2]
        have := hFW.seq (by rw [hfb]; simp)
        exact ⟨this.1, fun w => Nat.lt_of_lt_of_le (this.2 w) hle⟩
    -- segments that do not touch what the invariant reads
    have same : ∀ (st' : St), (stepOp cfg st f.pc).1 = st' → st'.mem = st.mem → st'.imms = st.imms →
        (∀ k, (lookLevels k st'.levels).join = (lookLevels k st.levels).join) → st'.memId = st.memId →
        st'.wal = st.wal → st'.nextSeq = st.nextSeq → st'.pending = st.pending →
        insOf cfg st f.pc = none → (stepOp cfg st f.pc).2.logging = f.pc.logging →
        (∀ t b, (stepOp cfg st f.pc).2 ≠ .pFlush t b) → (f.b = none → ¬ IsWrite start f) →
        ∃ g', WInvB start N0 W0 ⟨(stepOp cfg st f.pc).1, pre ++ advFrame cfg st n f :: post, n + 1⟩
          ((evOf cfg st n f).toList ++ log) g' := by
      intro st' hst e1 e2 e3 e4 e5 e6 e7 hins hlog hnf hnw
      have hev : evOf cfg st n f = none := by unfold evOf; rw [hins]
      rw [hev, hst]
      simp only [Option.toList, List.nil_append]
      obtain ⟨hc, hr⟩ := core_same hW.core e1 e2 e3 e4 e5 e6 e7
      refine ⟨g, winvB_finish hL hW hc hr (fun _ _ q _ => by simp) rfl hb1 hb0 (fun e he => Or.inl (by rw [e5] at he; exact he)) ?_⟩
      refine ⟨hseq st' (by rw [e6]; exact Nat.le_refl _) (fun hb w => absurd w (hnw hb)), ?_, ?_⟩
      · intro q hq
        have hq' : f.pc.logging = some q := by rw [← hlog]; exact hq
        obtain ⟨a1, e, a2, a3, a4⟩ := hFW.logging q hq'
        exact ⟨by rw [e7]; exact a1, e, by rw [e5]; exact a2, a3, a4⟩
      · intro t b hp; exact absurd hp (hnf t b)
    have hsh := stepOp_shape cfg st (start f.id) f.pc hF.cons
    -- memtable insert of a logged write
    have insert_case : ∀ (st1 : St) (q : Nat) {k : Key} {c : Cell}, st1.mem = st.mem → st1.imms = st.imms → st1.levels = st.levels →
        st1.memId = st.memId → st1.wal = st.wal → st1.nextSeq = st.nextSeq → st1.pending = st.pending →
        stepOp cfg st f.pc = memInsert (unpend st1 q) k c → f.pc.logging = some q → insOf cfg st f.pc = some (k, c, q) →
        f.b ≠ none → start f.id = .pStart k c →
        ∃ g', WInvB start N0 W0 ⟨(stepOp cfg st f.pc).1, pre ++ advFrame cfg st n f :: post, n + 1⟩
          ((evOf cfg st n f).toList ++ log) g' := by
      intro st1 q k c e1 e2 e3 e4 e5 e6 e7 hstep hlogq hins hfbn hs
      obtain ⟨hq, e, he, he1, he2⟩ := hFW.logging q hlogq
      rw [hs] at he2
      injection he2 with hk hc
      have hent : ∃ e ∈ st.wal, e.seq = q ∧ e.key = k ∧ e.cell = c := ⟨e, he, he1, hk.symm, hc.symm⟩
      obtain ⟨hc', hr⟩ := core_insert hW.core k c q n f.id e1 e2 e3 e4 e5 e6 e7 hq hent
      have hev : evOf cfg st n f = some ⟨n, f.id, k, c, q⟩ := by unfold evOf; rw [hins]
      rw [hev, hstep]
      simp only [Option.toList, List.singleton_append]
      have hpc' : (advFrame cfg st n f).pc = .pMem st1.memId := by
        show (stepOp cfg st f.pc).2 = _; rw [hstep]; rfl
      refine ⟨_, winvB_finish hL hW hc' hr (other_logging_neB hw hL hW hlogq) rfl hb1 hb0 (fun e' he' => Or.inl ?_) ?_⟩
      · have : e' ∈ st1.wal := he'
        rw [e5] at this; exact this
      · refine fw_plain ?_ (by rw [hpc']; rfl) (by rw [hpc']; intro t b e; cases e)
        refine hseq _ ?_ (fun hb => absurd hb hfbn)
        show st.nextSeq ≤ st1.nextSeq
        rw [e6]; exact Nat.le_refl _
    by_cases hwr : IsWrite start f
    · obtain ⟨k, c, hs⟩ := hwr
      have hcons := hF.cons
      rw [hs] at hcons
      simp only [PcCons] at hcons
      rcases hcons with hpc | ⟨q, hpc⟩ | ⟨q, hpc⟩ | happ
      · -- WAL append
        have hfb : f.b = none := by
          cases hb : f.b with
          | none => rfl
          | some b => have := (hF.started b hb).2; rw [hpc] at this; cases this
        have e1 : stepOp cfg st f.pc = (appendSt st k c, .pWal k c st.nextSeq) := by
          rw [hpc]; simp [stepOp, putStart, hw, appendSt]
        have e2 : evOf cfg st n f = none := by unfold evOf; rw [hpc]; simp [insOf, hw]
        obtain ⟨hc, hr⟩ := core_append hW.core k c
        rw [e2]
        simp only [Option.toList, List.nil_append]
        refine ⟨g, winvB_finish hL hW (by rw [e1]; exact hc) (by rw [e1]; exact hr) (fun _ _ q _ => by simp) rfl hb1 hb0 ?_ ?_⟩
        · intro e he
          rw [e1] at he
          rcases List.mem_append.mp he with he | he
          · exact Or.inl he
          · rw [List.mem_singleton] at he; subst he
            exact Or.inr ⟨(hb0 hfb).2, hs⟩
        · have hpc' : (advFrame cfg st n f).pc = .pWal k c st.nextSeq := by
            show (stepOp cfg st f.pc).2 = _; rw [e1]
          refine ⟨?_, ?_, ?_⟩
          · intro _
            rw [(hb0 hfb).2, e1]
            exact ⟨hone, fun _ => Nat.lt_succ_self _⟩
          · intro q hq
            rw [hpc'] at hq
            simp only [Pc.logging, Option.some.injEq] at hq
            subst hq
            rw [e1]
            exact ⟨List.mem_cons_self .., ⟨st.nextSeq, k, c⟩, by simp [appendSt], rfl, hs⟩
          · intro t b hp; rw [hpc'] at hp; cases hp
      · -- sync decision or memtable insert
        have hfbn : f.b ≠ none := by
          intro hb
          have := (hF.unstarted hb).1
          rw [hs, hpc] at this; cases this
        have hlogq : f.pc.logging = some q := by rw [hpc]; rfl
        obtain ⟨o, ho⟩ := shouldSync_eq p st
        by_cases hb : (shouldSync p st).1 = true
        · have e1 : stepOp cfg st f.pc = ((shouldSync p st).2, .pSync k c q) := by
            rw [hpc]; simp [stepOp, walWritten, hw, hb]
          refine same (shouldSync p st).2 (by rw [e1]) (by rw [ho]) (by rw [ho]) (fun _ => by rw [ho]) (by rw [ho])
            (by rw [ho]) (by rw [ho]) (by rw [ho]) (by rw [hpc]; simp [insOf, hw, hb]) (by rw [e1, hpc]; rfl)
            (by rw [e1]; intro t b e; cases e) (fun hb0' => absurd hb0' hfbn)
        · exact insert_case (shouldSync p st).2 q (by rw [ho]) (by rw [ho]) (by rw [ho]) (by rw [ho]) (by rw [ho]) (by rw [ho])
            (by rw [ho]) (by rw [hpc]; simp [stepOp, walWritten, hw, hb]) hlogq (by rw [hpc]; simp [insOf, hw, hb]) hfbn hs
      · have hfbn : f.b ≠ none := by
          intro hb
          have := (hF.unstarted hb).1
          rw [hs, hpc] at this; cases this
        exact insert_case { st with synced := q, wss := 0 } q rfl rfl rfl rfl rfl rfl rfl (by rw [hpc]; rfl) (by rw [hpc]; rfl)
          (by rw [hpc]; rfl) hfbn hs
      · -- the write is applied: flush start, flush install, compaction install
        have hfbn : f.b ≠ none := by
          intro hb
          have := (hF.unstarted hb).1
          rw [hs] at this; rw [this] at happ; cases happ
        have hnw : f.b = none → ¬ IsWrite start f := fun hb => absurd hb hfbn
        have hins : insOf cfg st f.pc = none := by
          cases hpc : f.pc <;> rw [hpc] at happ <;> first | rfl | cases happ
        cases hpc : f.pc with
        | pMem mid =>
          rw [← hpc]
          by_cases hfr : isFull cfg st mid = true ∧ st.mem.isEmpty = false
          · have e1 : stepOp cfg st f.pc = (freezeSt st, .pFlush ⟨st.memId, st.mem⟩ (truncBound st)) := by
              rw [hpc]; simp [stepOp, afterMem, hfr.1, flushStart, hfr.2, freezeSt]
            obtain ⟨hc, hr⟩ := core_freeze hW.core hsinv.memFresh
            have hev : evOf cfg st n f = none := by unfold evOf; rw [hins]
            rw [hev, e1]
            simp only [Option.toList, List.nil_append]
            have hpc' : (advFrame cfg st n f).pc = .pFlush ⟨st.memId, st.mem⟩ (truncBound st) := by
              show (stepOp cfg st f.pc).2 = _; rw [e1]
            refine ⟨_, winvB_finish hL hW hc hr (fun _ _ q _ => by simp) rfl hb1 hb0 (fun e' he' => Or.inl he') ?_⟩
            refine ⟨hseq _ (Nat.le_refl _) (fun hb => absurd hb hfbn), fun q hq => (by rw [hpc'] at hq; cases hq), ?_⟩
            intro t b hp
            rw [hpc'] at hp
            injection hp with ht hb
            subst ht; subst hb
            refine ⟨?_, ?_, ?_, ?_⟩
            · intro q hq
              exact truncBound_lt st q (Or.inl hq) (hW.core.pendLt q hq).1
            · exact truncBound_lt st st.nextSeq (Or.inr (Nat.le_refl _)) hone
            · intro e he; cases he
            · intro gi hgi hlt e he
              exfalso
              rcases List.mem_append.mp hgi with hgi | hgi
              · obtain ⟨u, hu, hue⟩ := immG_mem hW.core.immG hgi
                have := hW.core.immLt u hu
                simp only at hlt this
                omega
              · rw [List.mem_singleton] at hgi; subst hgi
                simp only at hlt; omega
          · have e1 : stepOp cfg st f.pc = (st, .done .ok) := by
              rw [hpc]
              simp only [stepOp, afterMem, flushStart]
              by_cases h1 : isFull cfg st mid = true
              · have h2 : st.mem.isEmpty = true := by
                  cases hh' : st.mem.isEmpty with
                  | true => rfl
                  | false => exact absurd ⟨h1, hh'⟩ hfr
                simp [h1, h2]
              · simp [h1]
            exact same st (by rw [e1]) rfl rfl (fun _ => rfl) rfl rfl rfl rfl hins (by rw [e1, hpc]; rfl)
              (by rw [e1]; intro t b e; cases e) hnw
        | pFlush t b =>
          rw [← hpc]
          rw [hpc] at hpok
          simp only [POk] at hpok
          have hhead := hh f hfm t b hpc h2
          simp only at hhead
          obtain ⟨r, hr⟩ : ∃ r, st.imms = t :: r := by
            cases himm : st.imms with
            | nil => rw [himm] at hhead; cases hhead
            | cons a r => rw [himm] at hhead; simp at hhead; exact ⟨r, by rw [hhead]⟩
          have hid : ∀ i ∈ r, i.id ≠ t.id := by
            have := hsinv.immIds
            rw [hr] at this
            simp only [List.map_cons, List.nodup_cons, List.mem_map, not_exists, not_and] at this
            exact fun i hi => this.1 i hi
          have hlv : st.levels ≠ [] := by
            intro h0
            have := hsinv.lv.len
            rw [h0] at this
            have := hsinv.lv.two
            simp at *; omega
          obtain ⟨f1, f2, f3, f4⟩ := hFW.flush t b hpc
          obtain ⟨g', hc, hrel⟩ := core_install (cfg := cfg) hW.core t r b (by rw [hw]; rfl) hr hid hlv f1 f2 f3 f4
          have hst : ∃ c', (stepOp cfg st f.pc).1 = { flushS1 cfg st t b with compacting := c' } := by
            rw [hpc]
            show ∃ c', (flushInstall cfg st t b).1 = _
            rw [flushInstall_eq]
            split
            · exact compactStart_eq cfg _
            · exact ⟨_, rfl⟩
          obtain ⟨c', hst⟩ := hst
          have hpcf : flushId (stepOp cfg st f.pc).2 = none := by
            rw [hpc]
            show flushId (flushInstall cfg st t b).2 = none
            rw [flushInstall_eq]
            split
            · exact (compactStart_spec cfg _).2.2
            · rfl
          have happ' : (stepOp cfg st f.pc).2.applied = true := by rw [hsh.noIns hins]; exact happ
          obtain ⟨hc2, _⟩ := core_same (st' := { flushS1 cfg st t b with compacting := c' }) hc rfl rfl (fun _ => rfl) rfl rfl rfl rfl
          have hev : evOf cfg st n f = none := by unfold evOf; rw [hins]
          rw [hev, hst]
          simp only [Option.toList, List.nil_append]
          refine ⟨g', winvB_finish hL hW hc2 ⟨hrel.1, hrel.2, hrel.3, hrel.4, hrel.5, hrel.6⟩ (fun _ _ q _ => by simp) rfl hb1 hb0 ?_ ?_⟩
          · intro e' he'
            left
            have : e' ∈ (flushS1 cfg st t b).wal := he'
            simp only [flushS1] at this
            split at this
            · exact (List.mem_filter.mp this).1
            · exact this
          · refine fw_plain (hseq _ (Nat.le_refl _) (fun hb => absurd hb hfbn)) (applied_facts happ').2 ?_
            intro t' b' e
            have : (stepOp cfg st f.pc).2 = .pFlush t' b' := e
            rw [this] at hpcf; cases hpcf
        | pCompact j =>
          rw [← hpc]
          rw [hpc] at hpok
          simp only [POk] at hpok
          have e1 : stepOp cfg st f.pc = compactInstall st j := by rw [hpc]; rfl
          refine same (compactInstall st j).1 (by rw [e1]) rfl rfl ?_ rfl rfl rfl rfl hins (by rw [e1, hpc]; rfl)
            (by rw [e1]; intro t b e; cases e) hnw
          intro k'
          have := lookLevels_install hsinv.lv hpok.1 st.nextId k' 0 (Nat.zero_le _)
          simp only [List.drop_zero] at this
          exact this
        | done r => rw [hpc] at h3; cases h3
        | pStart _ _ => rw [hpc] at happ; cases happ
        | pWal _ _ _ => rw [hpc] at happ; cases happ
        | pSync _ _ _ => rw [hpc] at happ; cases happ
        | gStart _ => rw [hpc] at happ; cases happ
        | gAt _ _ _ _ => rw [hpc] at happ; cases happ
        | sStart _ _ => rw [hpc] at happ; cases happ
        | sAt _ _ _ _ _ _ => rw [hpc] at happ; cases happ
    · -- gets and scans do not change the state
      obtain ⟨n1, n2, n3⟩ := nonwrite_facts cfg st hF.cons hwr
      obtain ⟨n4, n5⟩ := nonwrite_pc hsh.cons hwr
      exact same st n1 rfl rfl (fun _ => rfl) rfl rfl rfl rfl n2 (by rw [n4, n3]) n5 (fun _ => hwr)

/-- both invariants along every in-order run -/
theorem winvB_run {cfg : Cfg} {p : Policy} {B N0 : Nat} {W0 : List WalE} {start : Nat → Pc} (hw : cfg.wal = some p) (sched : List Nat) (y : Sys)
    (log : List Ev) (hL : LInvB cfg B start y log) (hW : ∃ g, WInvB start N0 W0 y log g) (ho : InOrder cfg y sched) :
    LInvB cfg B start (y.run cfg sched) (logRun cfg y log sched) ∧
      ∃ g, WInvB start N0 W0 (y.run cfg sched) (logRun cfg y log sched) g :=
  grun_induct (fun y log => LInvB cfg B start y log ∧ ∃ g, WInvB start N0 W0 y log g)
    (fun _ _ id h hh => ⟨linvB_step h.1 id hh, by obtain ⟨g, hg⟩ := h.2; exact winvB_step hw h.1 id hh hg⟩)
    sched y log ⟨hL, hW⟩ ho

end HappyModel.C15
