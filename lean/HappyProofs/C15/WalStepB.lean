import HappyProofs.C15.WalRun
import HappyProofs.C14.LsmBookB
/-! The WAL invariant for a tree that starts from a recovered state: log entries below `N0` (the value of
    `next_sequence` at the start) have no frame. -/
namespace HappyModel.C15
open HappyModel.C14

structure WInvB (start : Nat → Pc) (N0 : Nat) (W0 : List WalE) (y : Sys) (log : List Ev) (g : Ghost) : Prop where
  core : WCore y.st log g
  walFrame : ∀ e ∈ y.st.wal, N0 ≤ e.seq → ∃ f ∈ y.frames, f.b ≠ none ∧ f.seq0 = e.seq ∧ start f.id = .pStart e.key e.cell
  bDistinct : ∀ f ∈ y.frames, ∀ f' ∈ y.frames, ∀ b, f.b = some b → f'.b = some b → f.id = f'.id
  seqOrd : ∀ f ∈ y.frames, ∀ f' ∈ y.frames, ∀ b b', f.b = some b → f'.b = some b' → b < b' →
    IsWrite start f → IsWrite start f' → f.seq0 < f'.seq0
  fw : ∀ f ∈ y.frames, FW start y.st g f
  nseq : N0 ≤ y.st.nextSeq
  seqGe : ∀ f ∈ y.frames, f.b ≠ none → N0 ≤ f.seq0
  walOld : ∀ e ∈ y.st.wal, e.seq < N0 → e ∈ W0

/-- assembling the invariant after one frame ran -/
theorem winvB_finish {cfg : Cfg} {B N0 : Nat} {W0 : List WalE} {start : Nat → Pc} {st st' : St} {n : Nat} {log log' : List Ev} {g g' : Ghost}
    {pre post : List Frame} {f f' : Frame} {qx : Option Nat}
    (hL : LInvB cfg B start ⟨st, pre ++ f :: post, n⟩ log) (hW : WInvB start N0 W0 ⟨st, pre ++ f :: post, n⟩ log g)
    (hcore : WCore st' log' g') (hrel : Rel st g st' g' qx)
    (hqx : ∀ h, h ∈ pre ∨ h ∈ post → ∀ q, h.pc.logging = some q → some q ≠ qx)
    (hid : f'.id = f.id)
    (hb1 : ∀ b, f.b = some b → f'.b = some b ∧ f'.seq0 = f.seq0)
    (hb0 : f.b = none → f'.b = some n ∧ f'.seq0 = st.nextSeq)
    (hwalF : ∀ e ∈ st'.wal, e ∈ st.wal ∨ (f'.seq0 = e.seq ∧ start f.id = .pStart e.key e.cell))
    (hfw : FW start st' g' f') :
    WInvB start N0 W0 ⟨st', pre ++ f' :: post, n + 1⟩ log' g' := by
  have hfb' : f'.b ≠ none := by
    cases hfb : f.b with
    | none => rw [(hb0 hfb).1]; simp
    | some b => rw [(hb1 b hfb).1]; simp
  have hmemo : ∀ h, h ∈ pre ∨ h ∈ post → h ∈ pre ++ f :: post := by
    intro h hh; rcases hh with hh | hh <;> simp [hh]
  have hfm : f ∈ pre ++ f :: post := by simp
  have hsplit : ∀ h, h ∈ pre ++ f' :: post → (h ∈ pre ∨ h ∈ post) ∨ h = f' := by
    intro h hh
    simp only [List.mem_append, List.mem_cons] at hh
    rcases hh with hh | rfl | hh
    · exact Or.inl (Or.inl hh)
    · exact Or.inr rfl
    · exact Or.inl (Or.inr hh)
  have hstart : ∀ h, h ∈ pre ∨ h ∈ post → ∀ b, h.b = some b → b < n := fun h hh b hb =>
    ((hL.frames h (hmemo h hh)).started b hb).1
  have hwrite' : IsWrite start f' ↔ IsWrite start f := by unfold IsWrite; rw [hid]
  have hge' : N0 ≤ f'.seq0 := by
    cases hfb : f.b with
    | none => rw [(hb0 hfb).2]; exact hW.nseq
    | some b => rw [(hb1 b hfb).2]; exact hW.seqGe f hfm (by rw [hfb]; simp)
  refine ⟨hcore, ?_, ?_, ?_, ?_, Nat.le_trans hW.nseq hrel.nextSeq, ?_, ?_⟩
  · intro e he hge
    rcases hwalF e he with he | ⟨h1, h2⟩
    · obtain ⟨h, hh, e1, e2, e3⟩ := hW.walFrame e he hge
      simp only [List.mem_append, List.mem_cons] at hh
      rcases hh with hh | rfl | hh
      · exact ⟨h, by simp [hh], e1, e2, e3⟩
      · cases hfb : h.b with
        | none => exact absurd hfb e1
        | some b =>
          refine ⟨f', by simp, hfb', ?_, by rw [hid]; exact e3⟩
          rw [(hb1 b hfb).2]; exact e2
      · exact ⟨h, by simp [hh], e1, e2, e3⟩
    · exact ⟨f', by simp, hfb', h1, by rw [hid]; exact h2⟩
  · intro h1 hh1 h2 hh2 b e1 e2
    rcases hsplit h1 hh1 with o1 | rfl <;> rcases hsplit h2 hh2 with o2 | rfl
    · exact hW.bDistinct h1 (hmemo h1 o1) h2 (hmemo h2 o2) b e1 e2
    · cases hfb : f.b with
      | none => rw [(hb0 hfb).1] at e2; injection e2 with e2; have := hstart h1 o1 b e1; omega
      | some b0 =>
        rw [(hb1 b0 hfb).1] at e2; injection e2 with e2; subst e2
        rw [hid]; exact hW.bDistinct h1 (hmemo h1 o1) f hfm b0 e1 hfb
    · cases hfb : f.b with
      | none => rw [(hb0 hfb).1] at e1; injection e1 with e1; have := hstart h2 o2 b e2; omega
      | some b0 =>
        rw [(hb1 b0 hfb).1] at e1; injection e1 with e1; subst e1
        rw [hid]; exact hW.bDistinct f hfm h2 (hmemo h2 o2) b0 hfb e2
    · rfl
  · intro h1 hh1 h2 hh2 b b' e1 e2 hlt w1 w2
    rcases hsplit h1 hh1 with o1 | rfl <;> rcases hsplit h2 hh2 with o2 | rfl
    · exact hW.seqOrd h1 (hmemo h1 o1) h2 (hmemo h2 o2) b b' e1 e2 hlt w1 w2
    · cases hfb : f.b with
      | none =>
        rw [(hb0 hfb).2]
        exact ((hW.fw h1 (hmemo h1 o1)).seq (by rw [e1]; simp)).2 w1
      | some b0 =>
        rw [(hb1 b0 hfb).1] at e2; injection e2 with e2; subst e2
        rw [(hb1 b0 hfb).2]
        exact hW.seqOrd h1 (hmemo h1 o1) f hfm b b0 e1 hfb hlt w1 (hwrite'.mp w2)
    · cases hfb : f.b with
      | none => rw [(hb0 hfb).1] at e1; injection e1 with e1; have := hstart h2 o2 b' e2; omega
      | some b0 =>
        rw [(hb1 b0 hfb).1] at e1; injection e1 with e1; subst e1
        rw [(hb1 b0 hfb).2]
        exact hW.seqOrd f hfm h2 (hmemo h2 o2) b0 b' hfb e2 hlt (hwrite'.mp w1) w2
    · rw [e1] at e2; injection e2 with e2; omega
  · intro h hh
    rcases hsplit h hh with o | rfl
    · exact (hW.fw h (hmemo h o)).mono hrel (hqx h o)
    · exact hfw
  · intro h hh hb
    rcases hsplit h hh with o | rfl
    · exact hW.seqGe h (hmemo h o) hb
    · exact hge'
  · intro e he hlt
    rcases hwalF e he with he | ⟨h1, _⟩
    · exact hW.walOld e he hlt
    · omega

end HappyModel.C15
