import HappyProofs.C15.Crash
import HappyProofs.C15.Survive
import HappyProofs.C15.Judge
import HappyProofs.C15.Ack
import HappyProofs.C15.Phases
import HappyProofs.C15.PhasesLight
import HappyProofs.C15.PhasesLight2
import HappyProofs.C15.PhasesLight3
import HappyProofs.C15.PhasesLight4
import HappyProofs.C14.LsmFinal
/-!
# C15 — property theorems (WAL + crash recovery)

"after crash and recovery every write whose write-ahead-log sync had completed before the crash is
readable with its latest durable value, no overwritten or deleted value is resurrected, no value that
was never written appears, and recovering twice gives the same state as recovering once."

A crash is `St.crash` applied to *any* state (so: between any two segments of any interleaving),
recovery is `St.recover`.
-/
namespace HappyModel.C15
open HappyModel.C14

/-- `durable_survive`, the part that is proved: a synced log entry that has not been truncated
    decides the recovered value of its key (the latest such entry wins), for every state.
    The unproved part is the invariant that truncation only removes entries already in an
    installed SSTable (see `durable_survive_full`). -/
theorem durable_survive_partial (s : St) (k : Key) (c : Cell)
    (h : lastFor k (durableLog s) none = some c) : s.crash.recover.abs k = c := by
  unfold St.abs
  rw [crash_recover_read, h]
  rfl

/-- `no_invention`, state level: a recovered value is the cell of a surviving log entry for that key
    or is held by an SSTable level -/
theorem no_invention (s : St) (k : Key) (c : Cell) (h : s.crash.recover.read k = some c) :
    (∃ e ∈ s.wal, e.seq ≤ s.synced ∧ e.key = k ∧ e.cell = c) ∨ lookLevels k s.levels = some c := by
  rw [crash_recover_read] at h
  cases hl : lastFor k (durableLog s) none with
  | none => rw [hl] at h; exact Or.inr h
  | some c' =>
    rw [hl] at h
    have hc : c' = c := by simpa using h
    subst hc
    rcases lastFor_mem k _ none c' hl with h0 | ⟨e, he, hk, hc⟩
    · cases h0
    · have := List.mem_filter.mp he
      exact Or.inl ⟨e, this.1, by simpa using this.2, hk, hc⟩

/-- the flush's truncation bound is below every pending sequence number and below every sequence
    number handed out later: entries not yet applied to a memtable are never truncated -/
theorem trunc_bound_lt_pending (s : St) (q : Nat) (h : q ∈ s.pending ∨ s.nextSeq ≤ q) (hq : 1 ≤ q) :
    truncBound s < q := by
  have key : ∀ (l : List Nat) (d : Nat), (q ∈ l ∨ d ≤ q) → minList l d ≤ q := by
    intro l
    induction l with
    | nil => intro d h; rcases h with h | h
             · cases h
             · exact h
    | cons x xs ih =>
      intro d h
      simp only [minList]
      apply ih
      rcases h with h | h
      · rcases List.mem_cons.mp h with rfl | h'
        · exact Or.inr (Nat.min_le_left ..)
        · exact Or.inl h'
      · exact Or.inr (Nat.le_trans (Nat.min_le_right ..) h)
  have := key s.pending s.nextSeq h
  unfold truncBound
  omega

/-! ### every workload, sync policy, schedule and crash index

`sysOf cfg oracle ops` is a fresh tree with the operations `ops` not yet started; `sched` is any schedule of
generator segments; the crash happens after `sched` (so: at any index of any longer schedule,
`crash_spec_at_every_index`).  Hypotheses: a WAL is configured (any sync policy `p`), at least two levels,
operation ids and put values pairwise distinct (the judge identifies a write by its value), and flushes
install in start order (`InOrder`; holds in the engine because all flush writes cost one page). -/

/-- run invariants behind the three theorems below -/
theorem crash_invariants (cfg : Cfg) (p : Policy) (ops : List (Nat × OKind)) (oracle : List Bool) (sched : List Nat)
    (hw : cfg.wal = some p) (h2 : 2 ≤ cfg.maxLevels) (hd : DistinctPuts ops)
    (ho : InOrder cfg (sysOf cfg oracle ops) sched) :
    LInv cfg (startFor ops) ((sysOf cfg oracle ops).run cfg sched) (logRun cfg (sysOf cfg oracle ops) [] sched) ∧
    ∃ g, WInv (startFor ops) ((sysOf cfg oracle ops).run cfg sched) (logRun cfg (sysOf cfg oracle ops) [] sched) g :=
  winv_run hw sched _ [] (linv_sysOf cfg oracle hd h2) ⟨{}, winv_init (sysOf_init cfg oracle ops) _⟩ ho

/-- `durable_survive` + `no_resurrection` + `no_invention`, in terms of the operations of the run: after
    `crash(); recover_from_crash()` a key reads `some v` only if `v` was written by a started `put k v` that no
    durable write to `k` (WAL sequence number ≤ `synced_up_to`) began after; it reads `None` only if no started
    write to `k` is durable, or some started `delete k` is superseded by no durable write -/
theorem crash_facts_run (cfg : Cfg) (p : Policy) (ops : List (Nat × OKind)) (oracle : List Bool) (sched : List Nat)
    (hw : cfg.wal = some p) (h2 : 2 ≤ cfg.maxLevels) (hd : DistinctPuts ops)
    (ho : InOrder cfg (sysOf cfg oracle ops) sched) :
    CrashFacts (startFor ops) ((sysOf cfg oracle ops).run cfg sched) := by
  obtain ⟨hL, g, hW⟩ := crash_invariants cfg p ops oracle sched hw h2 hd ho
  exact crash_facts hw hL hW

/-- `durable_survive`: if some started write to `k` is durable at the crash, the recovered value of `k` is the
    value of a put (or the absence left by a delete) that no durable write to `k` began after — the key is not
    lost and not rolled back behind a durable write -/
theorem durable_survive (cfg : Cfg) (p : Policy) (ops : List (Nat × OKind)) (oracle : List Bool) (sched : List Nat)
    (hw : cfg.wal = some p) (h2 : 2 ≤ cfg.maxLevels) (hd : DistinctPuts ops)
    (ho : InOrder cfg (sysOf cfg oracle ops) sched) (k : Key)
    (w0 : Frame) (hw0 : w0 ∈ ((sysOf cfg oracle ops).run cfg sched).frames) (c0 : Cell) (hb0 : w0.b ≠ none)
    (hs0 : startFor ops w0.id = .pStart k c0) (hdur : w0.seq0 ≤ ((sysOf cfg oracle ops).run cfg sched).st.synced) :
    ∃ w ∈ ((sysOf cfg oracle ops).run cfg sched).frames, w.b ≠ none ∧
      startFor ops w.id = .pStart k (((sysOf cfg oracle ops).run cfg sched).st.crash.recover.abs k) ∧
      NotSuperseded (startFor ops) ((sysOf cfg oracle ops).run cfg sched) k w := by
  have hC := crash_facts_run cfg p ops oracle sched hw h2 hd ho
  cases hx : ((sysOf cfg oracle ops).run cfg sched).st.crash.recover.abs k with
  | some v => exact hC.some k v hx
  | none =>
    rcases hC.none k hx with h | h
    · exact absurd hdur (h w0 hw0 c0 hb0 hs0)
    · exact h

/-- `no_resurrection`: a value that comes back after crash + recovery was not overwritten or deleted by a
    durable write that began after its own write had completed -/
theorem no_resurrection (cfg : Cfg) (p : Policy) (ops : List (Nat × OKind)) (oracle : List Bool) (sched : List Nat)
    (hw : cfg.wal = some p) (h2 : 2 ≤ cfg.maxLevels) (hd : DistinctPuts ops)
    (ho : InOrder cfg (sysOf cfg oracle ops) sched) (k : Key) (v : Nat)
    (hx : ((sysOf cfg oracle ops).run cfg sched).st.crash.recover.abs k = some v) :
    ∃ w ∈ ((sysOf cfg oracle ops).run cfg sched).frames, w.b ≠ none ∧ startFor ops w.id = .pStart k (some v) ∧
      ∀ w' ∈ ((sysOf cfg oracle ops).run cfg sched).frames, w'.id ≠ w.id → ∀ b' c', w'.b = some b' →
        startFor ops w'.id = .pStart k c' → w'.seq0 ≤ ((sysOf cfg oracle ops).run cfg sched).st.synced →
        ∀ e, w.e = some e → ¬ e < b' :=
  (crash_facts_run cfg p ops oracle sched hw h2 hd ho).some k v hx

/-- the model's own crash observations satisfy the whole Spec predicate (`durable_survive`,
    `no_resurrection`, `no_invention`, `recover_idempotent`), for every workload, sync policy and schedule -/
theorem crash_spec (cfg : Cfg) (p : Policy) (nkeys : Nat) (ops : List (Nat × OKind)) (oracle : List Bool) (sched : List Nat)
    (hw : cfg.wal = some p) (h2 : 2 ≤ cfg.maxLevels) (hd : DistinctPuts ops)
    (ho : InOrder cfg (sysOf cfg oracle ops) sched) :
    judgeCrash (wObsOf ops ((sysOf cfg oracle ops).run cfg sched)) ((sysOf cfg oracle ops).run cfg sched).st.synced
      (readsOf nkeys ((sysOf cfg oracle ops).run cfg sched).st.crash.recover)
      (readsOf nkeys ((sysOf cfg oracle ops).run cfg sched).st.crash.recover.recover)
      (readsOf nkeys ((sysOf cfg oracle ops).run cfg sched).st.crash.recover.recover.crash.recover) = none := by
  obtain ⟨hL, g, hW⟩ := crash_invariants cfg p ops oracle sched hw h2 hd ho
  exact judgeCrash_of_facts cfg nkeys ops _ _ hd hL (crash_facts hw hL hW)

/-- … and so for a crash at every index `i` of the schedule -/
theorem crash_spec_at_every_index (cfg : Cfg) (p : Policy) (nkeys : Nat) (ops : List (Nat × OKind)) (oracle : List Bool)
    (sched : List Nat) (hw : cfg.wal = some p) (h2 : 2 ≤ cfg.maxLevels) (hd : DistinctPuts ops)
    (ho : InOrder cfg (sysOf cfg oracle ops) sched) (i : Nat) :
    judgeCrash (wObsOf ops ((sysOf cfg oracle ops).run cfg (sched.take i)))
      ((sysOf cfg oracle ops).run cfg (sched.take i)).st.synced
      (readsOf nkeys ((sysOf cfg oracle ops).run cfg (sched.take i)).st.crash.recover)
      (readsOf nkeys ((sysOf cfg oracle ops).run cfg (sched.take i)).st.crash.recover.recover)
      (readsOf nkeys ((sysOf cfg oracle ops).run cfg (sched.take i)).st.crash.recover.recover.crash.recover) = none :=
  crash_spec cfg p nkeys ops oracle (sched.take i) hw h2 hd (inOrder_take ho i)

/-! ### durability judged from acknowledgements (`judgeCrashAck`)

`syncDoneRun` collects the operations that went on after a sync-latency yield; `syncsInOrderB` is the schedule
hypothesis that syncs complete in sequence order (every sync costs the same latency; the engine serves equal
times first-in first-out).  Under it nothing the clients were told exceeds `synced_up_to`
(`sync_done_durable`, `acked_every_sync_done`, `ack_bound_le_synced` in `Ack.lean`). -/

/-- the model's own crash observations satisfy the acknowledgement-based Spec predicate as well: every write
    whose sync was seen to complete — and under `SyncEveryWrite` (`every = true`) every write that returned —
    counts as durable, for every workload, sync policy and schedule whose syncs complete in sequence order -/
theorem crash_spec_ack (cfg : Cfg) (p : Policy) (nkeys : Nat) (ops : List (Nat × OKind)) (oracle : List Bool)
    (sched : List Nat) (every : Bool) (hw : cfg.wal = some p) (h2 : 2 ≤ cfg.maxLevels) (hd : DistinctPuts ops)
    (ho : InOrder cfg (sysOf cfg oracle ops) sched) (hs : syncsInOrderB cfg (sysOf cfg oracle ops) sched = true)
    (he : every = true → cfg.wal = some .every) :
    judgeCrashAck every (wObsOf ops ((sysOf cfg oracle ops).run cfg sched))
      (syncDoneRun cfg (sysOf cfg oracle ops) [] sched).2 ((sysOf cfg oracle ops).run cfg sched).st.synced
      (readsOf nkeys ((sysOf cfg oracle ops).run cfg sched).st.crash.recover)
      (readsOf nkeys ((sysOf cfg oracle ops).run cfg sched).st.crash.recover.recover)
      (readsOf nkeys ((sysOf cfg oracle ops).run cfg sched).st.crash.recover.recover.crash.recover) = none := by
  unfold judgeCrashAck
  rw [Nat.max_eq_left (ack_bound_le_synced cfg ops oracle sched every hd hs he)]
  exact crash_spec cfg p nkeys ops oracle sched hw h2 hd ho

/-- … and so for a crash at every index `i` of the schedule -/
theorem crash_spec_ack_at_every_index (cfg : Cfg) (p : Policy) (nkeys : Nat) (ops : List (Nat × OKind))
    (oracle : List Bool) (sched : List Nat) (every : Bool) (hw : cfg.wal = some p) (h2 : 2 ≤ cfg.maxLevels)
    (hd : DistinctPuts ops) (ho : InOrder cfg (sysOf cfg oracle ops) sched)
    (hs : syncsInOrderB cfg (sysOf cfg oracle ops) sched = true) (he : every = true → cfg.wal = some .every) (i : Nat) :
    judgeCrashAck every (wObsOf ops ((sysOf cfg oracle ops).run cfg (sched.take i)))
      (syncDoneRun cfg (sysOf cfg oracle ops) [] (sched.take i)).2
      ((sysOf cfg oracle ops).run cfg (sched.take i)).st.synced
      (readsOf nkeys ((sysOf cfg oracle ops).run cfg (sched.take i)).st.crash.recover)
      (readsOf nkeys ((sysOf cfg oracle ops).run cfg (sched.take i)).st.crash.recover.recover)
      (readsOf nkeys ((sysOf cfg oracle ops).run cfg (sched.take i)).st.crash.recover.recover.crash.recover) = none :=
  crash_spec_ack cfg p nkeys ops oracle (sched.take i) every hw h2 hd (inOrder_take ho i)
    (syncsInOrderB_take sched _ hs i) he

/-! ### sequences of crashes (`runPhases`, `judgePhase`; state-level parts in `Phases.lean`) -/

/-- `no_invention` at every crash of every sequence of crashes, from any start system: a value read after
    `crash(); recover_from_crash()` is the cell of a synced entry of the log at that crash or is held by an
    SSTable level at that crash -/
theorem phase_no_invention (cfg : Cfg) (y0 : Sys) (ps : List (List Nat)) :
    ∀ o ∈ runPhases cfg y0 ps, ∀ k c, o.s1.read k = some c →
      (∃ e ∈ o.y.st.wal, e.seq ≤ o.y.st.synced ∧ e.key = k ∧ e.cell = c) ∨ lookLevels k o.y.st.levels = some c := by
  intro o ho k c h
  obtain ⟨y, sched, rfl⟩ := mem_runPhases ho
  exact no_invention _ k c h

theorem baselineRecs_replicate_none (n : Nat) : baselineRecs (List.replicate n none) = [] := by
  have key : ∀ (n i : Nat) (f : Option Nat × Nat → Option WRec), (∀ k, f (none, k) = none) →
      ((List.replicate n (none : Option Nat)).zipIdx i).filterMap f = [] := by
    intro n
    induction n with
    | zero => intro i f _; rfl
    | succ n ih =>
      intro i f hf
      rw [List.replicate_succ, List.zipIdx_cons, List.filterMap_cons, hf]
      exact ih _ f hf
  exact key n 0 _ (fun _ => rfl)

/-- with no earlier phase (`stale = []`, baseline all `none`) the phase judge is the single-crash judge -/
theorem judgePhase_first (every : Bool) (n : Nat) (ws : List WRec) (syncDone : List Nat) (synced : Nat)
    (r1 r2 r3 : List (Option Nat)) :
    judgePhase every (List.replicate n none) [] ws syncDone synced r1 r2 r3 =
      judgeCrashAck every ws syncDone synced r1 r2 r3 := by
  unfold judgePhase
  split
  · rename_i x k heq
    have hp := List.find?_some heq
    cases x <;> simp at hp
  · rw [baselineRecs_replicate_none, List.nil_append]

/-- the first phase of a multi-crash run satisfies the whole phase judge (`durable_survive`, `no_resurrection`,
    `no_invention`, `recover_idempotent`, acknowledgement-based durability): every workload, sync policy, schedule -/
theorem multi_crash_first_phase (cfg : Cfg) (p : Policy) (nkeys : Nat) (ops : List (Nat × OKind)) (oracle : List Bool)
    (sched : List Nat) (every : Bool) (hw : cfg.wal = some p) (h2 : 2 ≤ cfg.maxLevels) (hd : DistinctPuts ops)
    (ho : InOrder cfg (sysOf cfg oracle ops) sched) (hs : syncsInOrderB cfg (sysOf cfg oracle ops) sched = true)
    (he : every = true → cfg.wal = some .every) :
    judgePhase every (List.replicate nkeys none) [] (wObsOf ops (phaseOut cfg (sysOf cfg oracle ops) sched).y)
      (phaseOut cfg (sysOf cfg oracle ops) sched).done (phaseOut cfg (sysOf cfg oracle ops) sched).y.st.synced
      (readsOf nkeys (phaseOut cfg (sysOf cfg oracle ops) sched).s1)
      (readsOf nkeys (phaseOut cfg (sysOf cfg oracle ops) sched).s2)
      (readsOf nkeys (phaseOut cfg (sysOf cfg oracle ops) sched).s3) = none := by
  rw [judgePhase_first, phaseOut_s1, phaseOut_s2, phaseOut_s3, phaseOut_done, phaseOut_y]
  exact crash_spec_ack cfg p nkeys ops oracle sched every hw h2 hd ho hs he

theorem obsOf_nil_prev (ops : List (Nat × OKind)) (nkeys : Nat) (o : PhaseOut) :
    (obsOf ops nkeys [] o).ws = wObsOf ops o.y := by
  simp [obsOf]

/-- the first element of `runPhases` is that phase, so the first step of `judgePhases` on the model's own
    observations of any multi-crash run passes -/
theorem multi_crash_first_of_runPhases (cfg : Cfg) (p : Policy) (nkeys : Nat) (ops : List (Nat × OKind))
    (oracle : List Bool) (sched : List Nat) (rest : List (List Nat)) (every : Bool) (hw : cfg.wal = some p)
    (h2 : 2 ≤ cfg.maxLevels) (hd : DistinctPuts ops) (ho : InOrder cfg (sysOf cfg oracle ops) sched)
    (hs : syncsInOrderB cfg (sysOf cfg oracle ops) sched = true) (he : every = true → cfg.wal = some .every) :
    (runPhases cfg (sysOf cfg oracle ops) (sched :: rest)).head? = some (phaseOut cfg (sysOf cfg oracle ops) sched) ∧
    judgePhases every nkeys (List.replicate nkeys none) [] 0
      ((obsOfPhases ops nkeys [] (runPhases cfg (sysOf cfg oracle ops) (sched :: rest))).take 1) = none := by
  refine ⟨rfl, ?_⟩
  have hj := multi_crash_first_phase cfg p nkeys ops oracle sched every hw h2 hd ho hs he
  have hlen : (readsOf nkeys (phaseOut cfg (sysOf cfg oracle ops) sched).s1).length = nkeys := by
    simp [readsOf]
  rw [← obsOf_nil_prev ops nkeys] at hj
  simp only [runPhases, obsOfPhases, List.take_succ_cons, List.take_zero, judgePhases]
  rw [if_neg (by simpa [obsOf] using hlen)]
  have hj' : judgePhase every (List.replicate nkeys none) [] (obsOf ops nkeys [] (phaseOut cfg (sysOf cfg oracle ops) sched)).ws
      (obsOf ops nkeys [] (phaseOut cfg (sysOf cfg oracle ops) sched)).syncDone
      (obsOf ops nkeys [] (phaseOut cfg (sysOf cfg oracle ops) sched)).synced
      (obsOf ops nkeys [] (phaseOut cfg (sysOf cfg oracle ops) sched)).r1
      (obsOf ops nkeys [] (phaseOut cfg (sysOf cfg oracle ops) sched)).r2
      (obsOf ops nkeys [] (phaseOut cfg (sysOf cfg oracle ops) sched)).r3 = none := hj
  rw [hj']

/-! ### non-vacuity -/

def exSt : St :=
  { mem := [(0, some 5)], imms := [⟨2, [(1, some 6)]⟩], levels := [[⟨1, [(2, some 3), (1, some 4)]⟩], []],
    wal := [⟨3, 1, some 6⟩, ⟨4, 0, some 5⟩, ⟨5, 1, none⟩], nextSeq := 6, synced := 4, pending := [5] }

example : lastFor 1 (durableLog exSt) none = some (some 6) ∧ exSt.crash.recover.abs 1 = some 6 ∧
    exSt.crash.recover.abs 0 = some 5 ∧ exSt.crash.recover.abs 2 = some 3 ∧
    truncBound exSt = 4 ∧ (5 ∈ exSt.pending ∨ exSt.nextSeq ≤ 5) := by decide

example : (List.range 3).map exSt.crash.recover.recover.abs = (List.range 3).map exSt.crash.recover.abs := by decide

/-- non-vacuity of `crash_spec`: WAL with sync on every write, two writers and a deleter, a flush that truncates
    the log, a compaction; all hypotheses hold, a sync has completed, the log has been truncated -/
def exOps : List (Nat × OKind) := [(1, .put 0 7), (2, .del 0), (3, .put 1 9), (4, .put 0 5)]
def exSched : List Nat := [1, 2, 1, 1, 1, 1, 2, 2, 2, 2, 3, 3, 3, 3, 3, 3, 4, 4]
def exCfg : Cfg := { memSize := 1, maxLevels := 2, strat := .sizeTiered 2, wal := some .every }

example : exCfg.wal = some .every ∧ 2 ≤ exCfg.maxLevels ∧ DistinctPuts exOps ∧
    inOrderB exCfg (sysOf exCfg [] exOps) exSched = true ∧
    1 ≤ ((sysOf exCfg [] exOps).run exCfg exSched).st.synced ∧
    ((sysOf exCfg [] exOps).run exCfg exSched).st.wal.length < ((sysOf exCfg [] exOps).run exCfg exSched).st.nextSeq - 1 := by
  refine ⟨rfl, by decide, ⟨by decide, by decide⟩, by decide, by decide, by decide⟩

/-- non-vacuity of `crash_spec_ack` on the same run: syncs complete in sequence order; the syncs of operations 1, 2, 3
    were seen to complete and these three writes returned; operation 4 is still at its sync-latency yield at the
    crash; the acknowledgement bound is positive and equals `synced_up_to` -/
example : syncsInOrderB exCfg (sysOf exCfg [] exOps) exSched = true ∧
    (syncDoneRun exCfg (sysOf exCfg [] exOps) [] exSched).2 = [3, 2, 1] ∧
    (wObsOf exOps ((sysOf exCfg [] exOps).run exCfg exSched)).map (fun w => (w.id, w.seq, w.e.isSome)) =
      [(1, 1, true), (2, 2, true), (3, 3, true), (4, 4, false)] ∧
    atSync ((sysOf exCfg [] exOps).run exCfg exSched) 4 = true ∧
    ackBound true (wObsOf exOps ((sysOf exCfg [] exOps).run exCfg exSched))
      (syncDoneRun exCfg (sysOf exCfg [] exOps) [] exSched).2 = 3 ∧
    ((sysOf exCfg [] exOps).run exCfg exSched).st.synced = 3 := by
  refine ⟨by decide, by decide, by decide, by decide, by decide, by decide⟩

/-- two writers whose syncs overlap: operation 2 waits at its sync-latency yield while operation 1's sync completes;
    the syncs complete in sequence order, both are in the done list, and a crash before operation 2's sync
    completes (index 5) has only operation 1 acknowledged -/
def exOps2 : List (Nat × OKind) := [(1, .put 0 7), (2, .put 1 9)]
def exSched2 : List Nat := [1, 2, 1, 2, 1, 2, 1, 2, 1, 2]

example : DistinctPuts exOps2 ∧ inOrderB exCfg (sysOf exCfg [] exOps2) exSched2 = true ∧
    syncsInOrderB exCfg (sysOf exCfg [] exOps2) exSched2 = true ∧
    atSync ((sysOf exCfg [] exOps2).run exCfg (exSched2.take 4)) 1 = true ∧
    atSync ((sysOf exCfg [] exOps2).run exCfg (exSched2.take 4)) 2 = true ∧
    (syncDoneRun exCfg (sysOf exCfg [] exOps2) [] (exSched2.take 5)).2 = [1] ∧
    ((sysOf exCfg [] exOps2).run exCfg (exSched2.take 5)).st.synced = 1 ∧
    (syncDoneRun exCfg (sysOf exCfg [] exOps2) [] exSched2).2 = [2, 1] ∧
    ((sysOf exCfg [] exOps2).run exCfg exSched2).st.synced = 2 := by
  refine ⟨⟨by decide, by decide⟩, by decide, by decide, by decide, by decide, by decide, by decide, by decide, by decide⟩

/-- the schedule hypothesis is not idle: when operation 2's sync completes before operation 1's, `synced_up_to` goes
    back to 1 although operation 2 (sequence number 2) was told its sync had completed — `syncsInOrderB` is false
    and the acknowledgement bound exceeds `synced_up_to` -/
example : syncsInOrderB exCfg (sysOf exCfg [] exOps2) [1, 2, 1, 2, 2, 1] = false ∧
    ((sysOf exCfg [] exOps2).run exCfg [1, 2, 1, 2, 2, 1]).st.synced = 1 ∧
    ackBound true (wObsOf exOps2 ((sysOf exCfg [] exOps2).run exCfg [1, 2, 1, 2, 2, 1]))
      (syncDoneRun exCfg (sysOf exCfg [] exOps2) [] [1, 2, 1, 2, 2, 1]).2 = 2 := by
  refine ⟨by decide, by decide, by decide⟩

/-- non-vacuity for sequences of crashes: batch sync policy, two phases.  Phase 1 completes operations 1 and 2
    (synced, flushed, log truncated) and runs operation 3 for two segments: its entry (sequence number 3) is
    appended but never synced, the crash drops it and `next_sequence` stays 4 — the log has a gap, and a crash
    in phase 2 leaves entries 4, 5.  Phase 2 runs operations 1001–1003 (a second flush and a compaction). -/
def mcCfg : Cfg := { memSize := 2, maxLevels := 2, strat := .sizeTiered 2, wal := some (.batch 2) }
def mcOps : List (Nat × OKind) :=
  [(1, .put 0 7), (2, .put 1 8), (3, .put 0 9), (1001, .put 1 11), (1002, .put 2 12), (1003, .put 0 13)]
def mcSched1 : List Nat := [1, 1, 1, 2, 2, 2, 2, 2, 3, 3]
def mcSched2 : List Nat := [1001, 1001, 1001, 1002, 1002, 1002, 1002, 1002, 1002, 1003, 1003, 1003]
def mcO1 : PhaseOut := phaseOut mcCfg (sysOf mcCfg [] mcOps) mcSched1
def mcObs : List PhaseObs := obsOfPhases mcOps 3 [] (runPhases mcCfg (sysOf mcCfg [] mcOps) [mcSched1, mcSched2])

example : mcO1.y.st.wal.map (·.seq) = [3] ∧ mcO1.y.st.synced = 2 ∧ mcO1.y.st.nextSeq = 4 ∧
    mcO1.s3.wal.map (·.seq) = [] ∧ mcO1.s3.nextSeq = 4 ∧ readsOf 3 mcO1.s3 = [some 7, some 8, none] ∧
    (phaseOut mcCfg mcO1.next (mcSched2.take 6)).s3.wal.map (·.seq) = [4, 5] ∧
    (phaseOut mcCfg mcO1.next (mcSched2.take 6)).s3.nextSeq = 6 := by
  refine ⟨by decide, by decide, by decide, by decide, by decide, by decide, by decide, by decide⟩

/-- the hypotheses of `multi_crash_spec_full` hold on this run (in their Boolean forms) -/
example : DistinctPuts mcOps ∧
    (phaseStarts mcCfg (sysOf mcCfg [] mcOps) [mcSched1, mcSched2]).all (fun ys =>
      inOrderB mcCfg ys.1 ys.2 && syncsInOrderB mcCfg ys.1 ys.2 &&
      ys.1.frames.all fun f => !ys.2.contains f.id || f.b.isNone) = true := by
  refine ⟨⟨by decide, by decide⟩, by decide⟩

example : mcObs.map (fun p => (p.ws.map fun w => (w.id, w.seq, w.e.isSome), p.syncDone, p.synced, p.r1)) =
    [([(1, 1, true), (2, 2, true), (3, 3, false)], [2], 2, [some 7, some 8, none]),
     ([(1001, 4, true), (1002, 5, true), (1003, 6, true)], [1002], 5, [some 7, some 11, some 12])] := by decide

/-- the Spec accepts the model on this lossy-first-crash run -/
example : judgePhases false 3 (List.replicate 3 none) [] 0 mcObs = none := by decide

/-- … and is not idle on it: the value lost at the first crash coming back after the second (9), the baseline
    value of key 0 lost, or the baseline value of key 1 back although a durable write replaced it, are rejected;
    the unsynced last write (13) may or may not survive -/
def mcTamper (r : List (Option Nat)) : List PhaseObs :=
  mcObs.take 1 ++ (mcObs.drop 1).map fun p => { p with r1 := r, r2 := r, r3 := r }

example : judgePhases false 3 (List.replicate 3 none) [] 0 (mcTamper [some 7, some 11, some 12]) = none ∧
    (judgePhases false 3 (List.replicate 3 none) [] 0 (mcTamper [some 9, some 11, some 12])).isSome = true ∧
    (judgePhases false 3 (List.replicate 3 none) [] 0 (mcTamper [none, some 11, some 12])).isSome = true ∧
    judgePhases false 3 (List.replicate 3 none) [] 0 (mcTamper [some 13, some 11, some 12]) = none ∧
    (judgePhases false 3 (List.replicate 3 none) [] 0 (mcTamper [some 7, some 8, some 12])).isSome = true := by
  refine ⟨by decide, by decide, by decide, by decide, by decide⟩

/-! ### sequences of crashes, every phase: no flush / compaction install after the first crash -/

/-- `multi_crash_spec_full` under the extra hypothesis `NoInstall` for the phases after the first crash: the Spec
    predicate for sequences of crashes accepts the model's own observations of EVERY phase.  The first phase is
    arbitrary (flushes, truncation, compactions: `multi_crash_first_phase`); in the later phases memtables may be
    frozen (`flushStart`) but no flush install / compaction install segment executes, so the SSTable levels are
    constant and the log only grows (`PInv`, `later_phase_facts`, `later_phase_judge` in `PhasesLight*.lean`). -/
theorem multi_crash_spec_partial (cfg : Cfg) (p : Policy) (nkeys : Nat) (ops : List (Nat × OKind)) (oracle : List Bool)
    (ps : List (List Nat)) (every : Bool)
    (hw : cfg.wal = some p) (h2 : 2 ≤ cfg.maxLevels) (hd : DistinctPuts ops) (_hid : ∀ o ∈ ops, o.1 < baselineId 0)
    (hph : ∀ ys ∈ phaseStarts cfg (sysOf cfg oracle ops) ps,
      InOrder cfg ys.1 ys.2 ∧ syncsInOrderB cfg ys.1 ys.2 = true ∧ ∀ f ∈ ys.1.frames, f.id ∈ ys.2 → f.b = none)
    (hni : ∀ ys ∈ (phaseStarts cfg (sysOf cfg oracle ops) ps).tail, NoInstall cfg ys.1 ys.2)
    (he : every = true → cfg.wal = some .every) :
    judgePhases every nkeys (List.replicate nkeys none) [] 0
      (obsOfPhases ops nkeys [] (runPhases cfg (sysOf cfg oracle ops) ps)) = none := by
  cases ps with
  | nil => rfl
  | cons sched rest =>
    have h0 := hph (sysOf cfg oracle ops, sched) (by simp [phaseStarts])
    have hj := multi_crash_first_phase cfg p nkeys ops oracle sched every hw h2 hd h0.1 h0.2.1 he
    rw [← obsOf_nil_prev ops nkeys] at hj
    simp only [runPhases, obsOfPhases, judgePhases]
    rw [if_neg (by simp [obsOf, readsOf])]
    have hj' : judgePhase every (List.replicate nkeys none) [] (obsOf ops nkeys [] (phaseOut cfg (sysOf cfg oracle ops) sched)).ws
        (obsOf ops nkeys [] (phaseOut cfg (sysOf cfg oracle ops) sched)).syncDone
        (obsOf ops nkeys [] (phaseOut cfg (sysOf cfg oracle ops) sched)).synced
        (obsOf ops nkeys [] (phaseOut cfg (sysOf cfg oracle ops) sched)).r1
        (obsOf ops nkeys [] (phaseOut cfg (sysOf cfg oracle ops) sched)).r2
        (obsOf ops nkeys [] (phaseOut cfg (sysOf cfg oracle ops) sched)).r3 = none := hj
    rw [hj']
    simp only
    have hA : AInv cfg (startFor ops) (phaseOut cfg (sysOf cfg oracle ops) sched).next
        (syncDoneRun cfg (sysOf cfg oracle ops) [] sched).2 := by
      rw [next_eq]
      exact ainv_recovered (ainv_sysOf_run cfg ops oracle sched hd.1 h0.2.1)
    exact judgePhases_later nkeys every hw hd he rest (phaseOut cfg (sysOf cfg oracle ops) sched).next _ _ _
      (kstart_first oracle sched hw h2 hd h0.1) hA
      (fun ys hys =>
        ⟨(hph ys (by simp only [phaseStarts]; exact List.mem_cons_of_mem _ hys)).2.1,
         (hph ys (by simp only [phaseStarts]; exact List.mem_cons_of_mem _ hys)).2.2,
         hni ys (by simpa only [phaseStarts, List.tail_cons] using hys)⟩)

/-- Boolean form of the per-phase hypotheses -/
theorem phase_hyps_of_B {cfg : Cfg} {y : Sys} {ps : List (List Nat)}
    (h : (phaseStarts cfg y ps).all (fun ys =>
      inOrderB cfg ys.1 ys.2 && syncsInOrderB cfg ys.1 ys.2 &&
      ys.1.frames.all fun f => !ys.2.contains f.id || f.b.isNone) = true) :
    ∀ ys ∈ phaseStarts cfg y ps,
      InOrder cfg ys.1 ys.2 ∧ syncsInOrderB cfg ys.1 ys.2 = true ∧ ∀ f ∈ ys.1.frames, f.id ∈ ys.2 → f.b = none := by
  intro ys hys
  have h1 := List.all_eq_true.mp h ys hys
  simp only [Bool.and_eq_true] at h1
  obtain ⟨⟨a, b⟩, c⟩ := h1
  refine ⟨inOrder_of_B a, b, ?_⟩
  intro f hf hin
  have := List.all_eq_true.mp c f hf
  simp only [Bool.or_eq_true, Bool.not_eq_true', Option.isNone_iff_eq_none] at this
  rcases this with h | h
  · rw [← List.contains_iff_mem] at hin
    rw [hin] at h
    cases h
  · exact h

/-- non-vacuity of `multi_crash_spec_partial`: the lossy first crash of `mcSched1` (the entry of operation 3 is
    dropped, `next_sequence` stays 4), then a second phase in which operation 1002 freezes the full memtable
    (`flushStart`) but its install never runs before the second crash; operation 1003 writes into the new memtable
    without a sync.  All hypotheses hold; the theorem applies. -/
def mcSched2n : List Nat := [1001, 1001, 1001, 1002, 1002, 1002, 1002, 1003, 1003, 1003]

example : (phaseStarts mcCfg (sysOf mcCfg [] mcOps) [mcSched1, mcSched2n]).tail.all
      (fun ys => noInstallB mcCfg ys.1 ys.2) = true ∧
    (mcO1.next.run mcCfg mcSched2n).st.imms.length = 1 ∧
    (mcO1.next.run mcCfg mcSched2n).st.wal.map (·.seq) = [4, 5, 6] ∧
    (mcO1.next.run mcCfg mcSched2n).st.synced = 5 ∧
    readsOf 3 mcO1.s3 = [some 7, some 8, none] ∧
    readsOf 3 (phaseOut mcCfg mcO1.next mcSched2n).s3 = [some 7, some 11, some 12] := by
  refine ⟨by decide, by decide, by decide, by decide, by decide, by decide⟩

example : judgePhases false 3 (List.replicate 3 none) [] 0
    (obsOfPhases mcOps 3 [] (runPhases mcCfg (sysOf mcCfg [] mcOps) [mcSched1, mcSched2n])) = none := by
  refine multi_crash_spec_partial mcCfg (.batch 2) 3 mcOps [] [mcSched1, mcSched2n] false rfl (by decide)
    ⟨by decide, by decide⟩ (by decide) (phase_hyps_of_B (by decide)) ?_ (fun h => by cases h)
  intro ys hys
  have h : (phaseStarts mcCfg (sysOf mcCfg [] mcOps) [mcSched1, mcSched2n]).tail.all
      (fun ys => noInstallB mcCfg ys.1 ys.2) = true := by decide
  exact noInstall_of_B (List.all_eq_true.mp h ys hys)

end HappyModel.C15
