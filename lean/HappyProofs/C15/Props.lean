import HappyProofs.C15.Crash
/-!
# C15 — property theorems (WAL + crash recovery)

"after crash and recovery every write whose write-ahead-log sync had completed before the crash is
readable with its latest durable value, no overwritten or deleted value is resurrected, no value that
was never written appears, and recovering twice gives the same state as recovering once."

A crash is `St.crash` applied to *any* state (so: between any two segments of any interleaving),
recovery is `St.recover`.
-/
namespace HappyModel.C15
open HappyModel.C14

/-- `durable_survive`, the part that is proved: a synced log entry that has not been truncated
    decides the recovered value of its key (the latest such entry wins), for every state.
    The unproved part is the invariant that truncation only removes entries already in an
    installed SSTable (see `durable_survive_full`). -/
theorem durable_survive_partial (s : St) (k : Key) (c : Cell)
    (h : lastFor k (durableLog s) none = some c) : s.crash.recover.abs k = c := by
  unfold St.abs
  rw [crash_recover_read, h]
  rfl

/-- `no_invention`, state level: a recovered value is the cell of a surviving log entry for that key
    or is held by an SSTable level -/
theorem no_invention (s : St) (k : Key) (c : Cell) (h : s.crash.recover.read k = some c) :
    (∃ e ∈ s.wal, e.seq ≤ s.synced ∧ e.key = k ∧ e.cell = c) ∨ lookLevels k s.levels = some c := by
  rw [crash_recover_read] at h
  cases hl : lastFor k (durableLog s) none with
  | none => rw [hl] at h; exact Or.inr h
  | some c' =>
    rw [hl] at h
    have hc : c' = c := by simpa using h
    subst hc
    rcases lastFor_mem k _ none c' hl with h0 | ⟨e, he, hk, hc⟩
    · cases h0
    · have := List.mem_filter.mp he
      exact Or.inl ⟨e, this.1, by simpa using this.2, hk, hc⟩

/-- the flush's truncation bound is below every pending sequence number and below every sequence
    number handed out later: entries not yet applied to a memtable are never truncated -/
theorem trunc_bound_lt_pending (s : St) (q : Nat) (h : q ∈ s.pending ∨ s.nextSeq ≤ q) (hq : 1 ≤ q) :
    truncBound s < q := by
  have key : ∀ (l : List Nat) (d : Nat), (q ∈ l ∨ d ≤ q) → minList l d ≤ q := by
    intro l
    induction l with
    | nil => intro d h; rcases h with h | h
             · cases h
             · exact h
    | cons x xs ih =>
      intro d h
      simp only [minList]
      apply ih
      rcases h with h | h
      · rcases List.mem_cons.mp h with rfl | h'
        · exact Or.inr (Nat.min_le_left ..)
        · exact Or.inl h'
      · exact Or.inr (Nat.le_trans (Nat.min_le_right ..) h)
  have := key s.pending s.nextSeq h
  unfold truncBound
  omega

/-! ### full statements that are not proved -/

/-- every durable write is either still in the log or in an SSTable of the levels: the invariant
    that makes `durable_survive_partial` the whole property -/
def durable_survive_full : Prop :=
  ∀ (cfg : Cfg) (ops : List (Nat × Pc)) (oracle : List Bool) (sched : List Nat),
    let y := Sys.run cfg { st := St.init cfg oracle, frames := ops.map fun o => { id := o.1, pc := o.2 } } sched
    ∀ k seq c, (∃ f ∈ y.frames, f.seq0 = seq ∧ seq ≤ y.st.synced ∧
        (f.pc = .pWal k c seq ∨ f.pc = .pSync k c seq)) →
      ∃ e ∈ durableLog y.st, e.key = k ∧ seq ≤ e.seq

/-! ### non-vacuity -/

def exSt : St :=
  { mem := [(0, some 5)], imms := [⟨2, [(1, some 6)]⟩], levels := [[⟨1, [(2, some 3), (1, some 4)]⟩], []],
    wal := [⟨3, 1, some 6⟩, ⟨4, 0, some 5⟩, ⟨5, 1, none⟩], nextSeq := 6, synced := 4, pending := [5] }

example : lastFor 1 (durableLog exSt) none = some (some 6) ∧ exSt.crash.recover.abs 1 = some 6 ∧
    exSt.crash.recover.abs 0 = some 5 ∧ exSt.crash.recover.abs 2 = some 3 ∧
    truncBound exSt = 4 ∧ (5 ∈ exSt.pending ∨ exSt.nextSeq ≤ 5) := by decide

example : (List.range 3).map exSt.crash.recover.recover.abs = (List.range 3).map exSt.crash.recover.abs := by decide

end HappyModel.C15
