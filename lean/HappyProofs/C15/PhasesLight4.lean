import HappyProofs.C15.PhasesLight3
/-!
# C15 — one later phase without installs satisfies the phase judge (`later_phase_judge`); every later phase of a
sequence of crashes does (`judgePhases_later`); the first phase hands over a system satisfying `KStart`
-/
namespace HappyModel.C15
open HappyModel.C14

theorem syncDoneRun_acc (cfg : Cfg) (sched : List Nat) (y : Sys) (acc : List Nat) :
    (syncDoneRun cfg y acc sched).2 = (syncDoneRun cfg y [] sched).2 ++ acc := by
  induction sched generalizing y acc with
  | nil => rfl
  | cons id ids ih =>
    simp only [syncDoneRun]
    rw [ih, ih (y.step cfg id) (if atSync y id = true then [id] else [])]
    by_cases h : atSync y id = true <;> simp [h]

/-- nothing the clients were told during the phase exceeds `synced_up_to` -/
theorem ack_bound_phase {cfg : Cfg} {ops : List (Nat × OKind)} {nkeys : Nat} {y0 y1 : Sys} {acc done : List Nat}
    {every : Bool} (hA1 : AInv cfg (startFor ops) y1 acc) (hold : ∀ f ∈ y1.frames, f ∈ y0.frames ∨ IsNew y0 f)
    (hsub : ∀ i ∈ done, i ∈ acc) (he : every = true → cfg.wal = some .every) :
    ackBound every (baselineRecs (readsOf nkeys y0.st) ++ phaseWs ops y0 y1) done ≤ y1.st.synced := by
  unfold ackBound
  apply foldl_max_le _ 0 _ (Nat.zero_le _)
  intro w hw
  obtain ⟨hwm, hp⟩ := List.mem_filter.mp hw
  rcases List.mem_append.mp hwm with hb | hwm
  · rw [(base_rec_abs hb).2.2.1]; exact Nat.zero_le _
  · obtain ⟨f, hf, _, hrec⟩ := new_of_mem_phaseWs hold hwm
    obtain ⟨_, hid, hseq, hwe, hst⟩ := recOf_some hrec
    rw [hseq]
    refine (hA1.done f hf ?_).2
    simp only [Bool.or_eq_true, Bool.and_eq_true, List.contains_iff_mem] at hp
    rcases hp with hp | ⟨hev, hes⟩
    · rw [← hid]; exact hsub _ hp
    · have hne : f.e ≠ none := by rw [← hwe]; intro hn; rw [hn] at hes; cases hes
      have hdone := hA1.ended f hf hne
      have hc := hA1.cons f hf
      rw [hst] at hc
      simp only [PcCons] at hc
      refine hA1.every (he hev) f hf ?_ ⟨_, _, hst⟩
      rcases hc with h | ⟨q, h⟩ | ⟨q, h⟩ | h
      · rw [h] at hdone; cases hdone
      · rw [h] at hdone; cases hdone
      · rw [h] at hdone; cases hdone
      · exact h

theorem next_eq (cfg : Cfg) (y0 : Sys) (sched : List Nat) :
    (phaseOut cfg y0 sched).next = { y0.run cfg sched with st := (y0.run cfg sched).st.recovered } := by
  unfold PhaseOut.next
  rw [phaseOut_s3, phaseOut_y]
  rfl

theorem ainv_recovered {cfg : Cfg} {start : Nat → Pc} {y1 : Sys} {acc : List Nat} (h : AInv cfg start y1 acc) :
    AInv cfg start { y1 with st := y1.st.recovered } acc :=
  ⟨h.ids, h.cons, h.unstarted, h.started, h.logq, h.done, h.ended, h.every⟩

/-- one phase after the first crash in which no flush or compaction installs: the phase judge accepts the model's
    own observations (for every list `stale` of earlier values), and the next phase starts from a system
    satisfying the start conditions again -/
theorem later_phase_judge {cfg : Cfg} {p : Policy} {ops : List (Nat × OKind)} {y0 : Sys} {acc : List Nat}
    (nkeys : Nat) (sched : List Nat) (every : Bool) (stale : List Nat)
    (hw : cfg.wal = some p) (hd : DistinctPuts ops) (hK : KStart (startFor ops) y0)
    (hA : AInv cfg (startFor ops) y0 acc) (hs : syncsInOrderB cfg y0 sched = true) (hni : NoInstall cfg y0 sched)
    (hun : ∀ f ∈ y0.frames, f.id ∈ sched → f.b = none) (he : every = true → cfg.wal = some .every) :
    judgePhase every (readsOf nkeys y0.st) stale (phaseWs ops y0 (phaseOut cfg y0 sched).y) (phaseOut cfg y0 sched).done
      (phaseOut cfg y0 sched).y.st.synced (readsOf nkeys (phaseOut cfg y0 sched).s1)
      (readsOf nkeys (phaseOut cfg y0 sched).s2) (readsOf nkeys (phaseOut cfg y0 sched).s3) = none ∧
    KStart (startFor ops) (phaseOut cfg y0 sched).next ∧
    AInv cfg (startFor ops) (phaseOut cfg y0 sched).next ((phaseOut cfg y0 sched).done ++ acc) := by
  obtain ⟨hA1, hP⟩ := pinv_run hw sched y0 acc hA (pinv_refl hK) hs hni hun
  rw [syncDoneRun_acc] at hA1
  rw [next_eq, phaseOut_s1, phaseOut_s2, phaseOut_s3, phaseOut_done, phaseOut_y]
  refine ⟨?_, kstart_next hK hA1 hP, ainv_recovered hA1⟩
  exact judgePhase_of_facts hd hK hA1.ids hP.old (later_phase_facts hK hP) every stale _
    (ack_bound_phase hA1 hP.old (fun i hi => List.mem_append_left _ hi) he)

/-- every phase of a sequence of crashes that starts from a system satisfying the start conditions -/
theorem judgePhases_later {cfg : Cfg} {p : Policy} {ops : List (Nat × OKind)} (nkeys : Nat) (every : Bool)
    (hw : cfg.wal = some p) (hd : DistinctPuts ops) (he : every = true → cfg.wal = some .every) :
    ∀ (ps : List (List Nat)) (y0 : Sys) (acc stale : List Nat) (i : Nat),
      KStart (startFor ops) y0 → AInv cfg (startFor ops) y0 acc →
      (∀ ys ∈ phaseStarts cfg y0 ps, syncsInOrderB cfg ys.1 ys.2 = true ∧
        (∀ f ∈ ys.1.frames, f.id ∈ ys.2 → f.b = none) ∧ NoInstall cfg ys.1 ys.2) →
      judgePhases every nkeys (readsOf nkeys y0.st) stale i
        (obsOfPhases ops nkeys ((wObsOf ops y0).map (·.id)) (runPhases cfg y0 ps)) = none := by
  intro ps
  induction ps with
  | nil => intro y0 acc stale i _ _ _; rfl
  | cons sched rest ih =>
    intro y0 acc stale i hK hA hph
    have h0 := hph (y0, sched) (by simp [phaseStarts])
    obtain ⟨hj, hK', hA'⟩ := later_phase_judge nkeys sched every stale hw hd hK hA h0.1 h0.2.2 h0.2.1 he
    simp only [runPhases, obsOfPhases, judgePhases]
    rw [if_neg (by simp [obsOf, readsOf])]
    have hj' : judgePhase every (readsOf nkeys y0.st) stale
        (obsOf ops nkeys ((wObsOf ops y0).map (·.id)) (phaseOut cfg y0 sched)).ws
        (obsOf ops nkeys ((wObsOf ops y0).map (·.id)) (phaseOut cfg y0 sched)).syncDone
        (obsOf ops nkeys ((wObsOf ops y0).map (·.id)) (phaseOut cfg y0 sched)).synced
        (obsOf ops nkeys ((wObsOf ops y0).map (·.id)) (phaseOut cfg y0 sched)).r1
        (obsOf ops nkeys ((wObsOf ops y0).map (·.id)) (phaseOut cfg y0 sched)).r2
        (obsOf ops nkeys ((wObsOf ops y0).map (·.id)) (phaseOut cfg y0 sched)).r3 = none := hj
    rw [hj']
    simp only
    exact ih (phaseOut cfg y0 sched).next _ _ (i + 1) hK' hA'
      (fun ys hys => hph ys (by simp only [phaseStarts]; exact List.mem_cons_of_mem _ hys))

/-- the first phase (any flushes and compactions) hands over a system satisfying the start conditions -/
theorem kstart_first {cfg : Cfg} {p : Policy} {ops : List (Nat × OKind)} (oracle : List Bool) (sched : List Nat)
    (hw : cfg.wal = some p) (h2 : 2 ≤ cfg.maxLevels) (hd : DistinctPuts ops)
    (ho : InOrder cfg (sysOf cfg oracle ops) sched) :
    KStart (startFor ops) (phaseOut cfg (sysOf cfg oracle ops) sched).next := by
  obtain ⟨hL, g, hW⟩ := winv_run hw sched _ [] (linv_sysOf cfg oracle hd h2)
    ⟨{}, winv_init (sysOf_init cfg oracle ops) (startFor ops)⟩ ho
  rw [next_eq]
  generalize (sysOf cfg oracle ops).run cfg sched = y1 at hL hW
  have hwal : ∀ e ∈ y1.st.recovered.wal, e ∈ y1.st.wal ∧ e.seq ≤ y1.st.synced := by
    intro e he
    rw [recovered_wal] at he
    have := List.mem_filter.mp he
    exact ⟨this.1, by simpa using this.2⟩
  have habs : ∀ k, y1.st.recovered.abs k = y1.st.crash.recover.abs k := fun k => abs_second_crash y1.st k
  refine ⟨?_, fun e he => hW.core.walLt e (hwal e he).1, fun e he => (hwal e he).2, ?_,
    fun f hf b hb => ((hL.frames f hf).started b hb).1, ?_, ?_, hL.ids⟩
  · show (y1.st.recovered.wal.map (·.seq)).Pairwise (· < ·)
    rw [recovered_wal]
    exact List.Pairwise.sublist (List.Sublist.map _ List.filter_sublist) hW.core.walSorted
  · intro k
    show y1.st.recovered.abs k = (match lastFor k y1.st.recovered.wal none with
      | some c => some c
      | none => lookLevels k y1.st.levels).join
    rw [habs, recovered_wal]
    exact abs_crash_recover y1.st k
  · intro f hf b e hb he
    obtain ⟨b', hb', hle⟩ := ((hL.frames f hf).ended e he).2.2
    have hfb : f.b = some b := hb
    rw [hfb] at hb'
    injection hb' with hb'
    omega
  · intro k v hv
    have hv' : y1.st.crash.recover.abs k = some v := by rw [← habs]; exact hv
    obtain ⟨w, hwm, hwb, hws, _⟩ := (crash_facts hw hL hW).some k v hv'
    exact ⟨w, hwm, hwb, k, hws⟩

end HappyModel.C15
