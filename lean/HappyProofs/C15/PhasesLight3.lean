import HappyProofs.C15.PhasesLight2
/-!
# C15 — the phase judge accepts the model's observations of a phase without installs

`PhaseKey` facts (frames vocabulary) ⟹ `judgePhase … = none` (observation vocabulary of `Spec.lean`).
-/
namespace HappyModel.C15
open HappyModel.C14

/-- records of the writes that started during the phase `y0 → y1` (the `ws` of `obsOf`) -/
def phaseWs (ops : List (Nat × OKind)) (y0 y1 : Sys) : List WRec :=
  (wObsOf ops y1).filter fun w => !((wObsOf ops y0).map (·.id)).contains w.id

theorem mem_phaseWs_of_new {ops : List (Nat × OKind)} {y0 y1 : Sys} (hids0 : (y0.frames.map (·.id)).Nodup)
    {f : Frame} {r : WRec} (hf : f ∈ y1.frames) (hn : IsNew y0 f) (hr : recOf ops f = some r) :
    r ∈ phaseWs ops y0 y1 := by
  refine List.mem_filter.mpr ⟨mem_wObsOf.mpr ⟨f, hf, hr⟩, ?_⟩
  cases hc : ((wObsOf ops y0).map (·.id)).contains r.id with
  | false => rfl
  | true =>
    exfalso
    have hm := List.contains_iff_mem.mp hc
    obtain ⟨r', hr', hid⟩ := List.mem_map.mp hm
    obtain ⟨f1, hf1, hrec1⟩ := mem_wObsOf.mp hr'
    obtain ⟨hb1, hid1, _⟩ := recOf_some hrec1
    obtain ⟨_, hid2, _⟩ := recOf_some hr
    obtain ⟨f0, hf0, hid0, hb0⟩ := hn.2
    have : f1 = f0 := map_nodup_inj (·.id) y0.frames hids0 f1 f0 hf1 hf0 (by rw [← hid1, hid, hid2, hid0])
    subst this
    rw [hb0] at hb1; cases hb1

theorem new_of_mem_phaseWs {ops : List (Nat × OKind)} {y0 y1 : Sys}
    (hold : ∀ f ∈ y1.frames, f ∈ y0.frames ∨ IsNew y0 f) {r : WRec} (hr : r ∈ phaseWs ops y0 y1) :
    ∃ f ∈ y1.frames, IsNew y0 f ∧ recOf ops f = some r := by
  obtain ⟨hm, hp⟩ := List.mem_filter.mp hr
  obtain ⟨f, hf, hrec⟩ := mem_wObsOf.mp hm
  rcases hold f hf with h0 | hn
  · exfalso
    have : r.id ∈ (wObsOf ops y0).map (·.id) := List.mem_map.mpr ⟨r, mem_wObsOf.mpr ⟨f, h0, hrec⟩, rfl⟩
    rw [← List.contains_iff_mem] at this
    rw [this] at hp
    cases hp
  · exact ⟨f, hf, hn, hrec⟩

theorem mem_baselineRecs {base : List (Option Nat)} {r : WRec} :
    r ∈ baselineRecs base ↔ ∃ k v, base[k]? = some (some v) ∧ r = ⟨baselineId k, k, some v, 0, 0, some 0⟩ := by
  unfold baselineRecs
  rw [List.mem_filterMap]
  constructor
  · rintro ⟨⟨x, k⟩, hm, hr⟩
    have hg := List.mem_zipIdx_iff_getElem?.mp hm
    cases x with
    | none => simp at hr
    | some v =>
      simp only [Option.map_some, Option.some.injEq] at hr
      exact ⟨k, v, hg, hr.symm⟩
  · rintro ⟨k, v, hg, rfl⟩
    exact ⟨(some v, k), List.mem_zipIdx_iff_getElem?.mpr hg, rfl⟩

theorem readsOf_getElem? (nkeys : Nat) (s : St) (k : Nat) :
    (readsOf nkeys s)[k]? = if k < nkeys then some (s.abs k) else none := by
  unfold readsOf
  rw [List.getElem?_map]
  by_cases h : k < nkeys
  · rw [List.getElem?_range h, if_pos h]; rfl
  · rw [if_neg h, List.getElem?_eq_none (by simpa using h)]; rfl

section
variable {ops : List (Nat × OKind)} {nkeys : Nat} {y0 y1 : Sys}

theorem base_rec_abs {r : WRec} (h : r ∈ baselineRecs (readsOf nkeys y0.st)) :
    r.b = 0 ∧ r.e = some 0 ∧ r.seq = 0 ∧ ∃ v, r.cell = some v ∧ y0.st.abs r.key = some v := by
  obtain ⟨k, v, hg, rfl⟩ := mem_baselineRecs.mp h
  rw [readsOf_getElem?] at hg
  split at hg
  · injection hg with hg; exact ⟨rfl, rfl, rfl, v, rfl, hg⟩
  · cases hg

theorem supersededBy_phase (hold : ∀ f ∈ y1.frames, f ∈ y0.frames ∨ IsNew y0 f) {k : Key} {S : Nat} {r : WRec}
    (hns : ∀ w' ∈ y1.frames, IsNew y0 w' → ∀ b' c', w'.b = some b' → startFor ops w'.id = .pStart k c' →
      w'.seq0 ≤ S → ∀ e, r.e = some e → ¬ e < b') :
    supersededBy (baselineRecs (readsOf nkeys y0.st) ++ phaseWs ops y0 y1) S k r = none := by
  unfold supersededBy
  rw [List.find?_eq_none]
  intro r' hr' hp
  simp only [Bool.and_eq_true, beq_iff_eq, bne_iff_ne, ne_eq, WRec.durable, decide_eq_true_eq] at hp
  obtain ⟨⟨⟨hk, hne⟩, hdur⟩, hlt⟩ := hp
  cases hre : r.e with
  | none => rw [hre] at hlt; cases hlt
  | some e =>
    rw [hre] at hlt
    simp only [decide_eq_true_eq] at hlt
    rcases List.mem_append.mp hr' with hb | hw
    · have := (base_rec_abs hb).1; omega
    · obtain ⟨w', hw', hn', hrec⟩ := new_of_mem_phaseWs hold hw
      obtain ⟨hb', _, hseq', _, hst'⟩ := recOf_some hrec
      rw [hk] at hst'; rw [hseq'] at hdur
      exact hns w' hw' hn' r'.b r'.cell hb' hst' hdur e hre hlt

theorem judgeKey_phase (hd : DistinctPuts ops) (hK : KStart (startFor ops) y0) (hids1 : (y1.frames.map (·.id)).Nodup)
    (hold : ∀ f ∈ y1.frames, f ∈ y0.frames ∨ IsNew y0 f) (k : Key) (hk : k < nkeys)
    (hF : PhaseKey (startFor ops) y0 y1 k) :
    judgeKey (baselineRecs (readsOf nkeys y0.st) ++ phaseWs ops y0 y1) y1.st.synced k
      (y1.st.crash.recover.abs k) = none := by
  rcases hF with ⟨w, hw, wnew, wst, hns⟩ | ⟨hxb, hnd⟩
  · obtain ⟨b, hb⟩ := Option.ne_none_iff_exists'.mp wnew.1
    have hmem := mem_phaseWs_of_new hK.ids hw wnew (recOf_of_start hb wst)
    have hsup : ∀ r : WRec, r.e = w.e →
        supersededBy (baselineRecs (readsOf nkeys y0.st) ++ phaseWs ops y0 y1) y1.st.synced k r = none := by
      intro r he
      refine supersededBy_phase hold ?_
      intro w' hw' n' b' c' hb' hs' hdur e hre
      exact hns w' hw' n' b' c' hb' hs' hdur e (by rw [← he]; exact hre)
    cases hx : y1.st.crash.recover.abs k with
    | some v =>
      rw [hx] at wst hmem
      simp only [judgeKey]
      cases hf : (baselineRecs (readsOf nkeys y0.st) ++ phaseWs ops y0 y1).find?
          fun w => w.key == k && w.cell == some v with
      | none =>
        exfalso
        have := List.find?_eq_none.mp hf _ (List.mem_append_right _ hmem)
        simp at this
      | some r =>
        simp only
        have hp := List.find?_some hf
        have hr := List.mem_of_find?_eq_some hf
        simp only [Bool.and_eq_true, beq_iff_eq] at hp
        obtain ⟨hkr, hcr⟩ := hp
        rcases List.mem_append.mp hr with hbm | hwm
        · exfalso
          obtain ⟨_, _, _, v', hc', ha'⟩ := base_rec_abs hbm
          rw [hcr] at hc'
          injection hc' with hc'
          subst hc'
          rw [hkr] at ha'
          obtain ⟨f0, hf0, hfb0, k', hst0⟩ := hK.baseOld k v ha'
          have hid := put_value_names_id hd hst0 wst
          obtain ⟨f1, hf1, hid1, hb1⟩ := wnew.2
          have : f0 = f1 := map_nodup_inj (·.id) y0.frames hK.ids f0 f1 hf0 hf1 (by rw [hid, hid1])
          subst this
          exact hfb0 hb1
        · obtain ⟨f, hfm, hfn, hrec⟩ := new_of_mem_phaseWs hold hwm
          obtain ⟨_, hid, _, he, hst⟩ := recOf_some hrec
          rw [hkr, hcr] at hst
          have hfid := put_value_names_id hd hst wst
          have hfw : f = w := map_nodup_inj (·.id) y1.frames hids1 f w hfm hw hfid
          subst hfw
          rw [hsup r he]
    | none =>
      rw [hx] at hmem
      simp only [judgeKey]
      have hany : ((baselineRecs (readsOf nkeys y0.st) ++ phaseWs ops y0 y1).any fun d => d.key == k && d.cell.isNone &&
          (supersededBy (baselineRecs (readsOf nkeys y0.st) ++ phaseWs ops y0 y1) y1.st.synced k d).isNone) = true := by
        rw [List.any_eq_true]
        refine ⟨_, List.mem_append_right _ hmem, ?_⟩
        rw [hsup _ rfl]
        simp
      rw [hany, Bool.or_true]
      rfl
  · have hsup : ∀ r : WRec,
        supersededBy (baselineRecs (readsOf nkeys y0.st) ++ phaseWs ops y0 y1) y1.st.synced k r = none := by
      intro r
      refine supersededBy_phase hold ?_
      intro w' hw' n' b' c' hb' hs' hdur _ _
      exact absurd hdur (hnd w' hw' n' c' hs')
    cases hx : y1.st.crash.recover.abs k with
    | some v =>
      have hb : y0.st.abs k = some v := by rw [← hxb, hx]
      have hrec0 : (⟨baselineId k, k, some v, 0, 0, some 0⟩ : WRec) ∈ baselineRecs (readsOf nkeys y0.st) :=
        mem_baselineRecs.mpr ⟨k, v, by rw [readsOf_getElem?, if_pos hk, hb], rfl⟩
      simp only [judgeKey]
      cases hf : (baselineRecs (readsOf nkeys y0.st) ++ phaseWs ops y0 y1).find?
          fun w => w.key == k && w.cell == some v with
      | none =>
        exfalso
        have := List.find?_eq_none.mp hf _ (List.mem_append_left _ hrec0)
        simp at this
      | some r =>
        simp only
        rw [hsup r]
    | none =>
      have hb : y0.st.abs k = none := by rw [← hxb, hx]
      simp only [judgeKey]
      have hany : ((baselineRecs (readsOf nkeys y0.st) ++ phaseWs ops y0 y1).any fun w' =>
          w'.key == k && w'.durable y1.st.synced) = false := by
        rw [List.any_eq_false]
        intro r hr hp
        simp only [Bool.and_eq_true, beq_iff_eq, WRec.durable, decide_eq_true_eq] at hp
        obtain ⟨hkr, hdur⟩ := hp
        rcases List.mem_append.mp hr with hbm | hwm
        · obtain ⟨_, _, _, v', _, ha'⟩ := base_rec_abs hbm
          rw [hkr, hb] at ha'
          cases ha'
        · obtain ⟨f, hfm, hfn, hrec⟩ := new_of_mem_phaseWs hold hwm
          obtain ⟨_, _, hseq, _, hst⟩ := recOf_some hrec
          rw [hkr] at hst
          rw [hseq] at hdur
          exact hnd f hfm hfn r.cell hst hdur
      rw [hany]
      rfl

/-- the phase judge accepts the model's own observations of a phase whenever the per-key facts hold and nothing the
    clients were told exceeds `synced_up_to`; for every list `stale` of earlier values -/
theorem judgePhase_of_facts (hd : DistinctPuts ops) (hK : KStart (startFor ops) y0)
    (hids1 : (y1.frames.map (·.id)).Nodup) (hold : ∀ f ∈ y1.frames, f ∈ y0.frames ∨ IsNew y0 f)
    (hF : ∀ k, PhaseKey (startFor ops) y0 y1 k) (every : Bool) (stale done : List Nat)
    (hack : ackBound every (baselineRecs (readsOf nkeys y0.st) ++ phaseWs ops y0 y1) done ≤ y1.st.synced) :
    judgePhase every (readsOf nkeys y0.st) stale (phaseWs ops y0 y1) done y1.st.synced
      (readsOf nkeys y1.st.crash.recover) (readsOf nkeys y1.st.crash.recover.recover)
      (readsOf nkeys y1.st.crash.recover.recover.crash.recover) = none := by
  rw [readsOf_congr nkeys y1.st.crash.recover.recover y1.st.crash.recover (abs_recover_recover _),
    readsOf_congr nkeys y1.st.crash.recover.recover.crash.recover y1.st.crash.recover (abs_second_crash _)]
  have hzip : ∀ x i, (x, i) ∈ (readsOf nkeys y1.st.crash.recover).zipIdx →
      i < nkeys ∧ x = y1.st.crash.recover.abs i := by
    intro x i hx
    have hget := List.mem_zipIdx_iff_getElem?.mp hx
    rw [readsOf_getElem?] at hget
    split at hget
    · rename_i hi
      injection hget with hget
      exact ⟨hi, hget.symm⟩
    · cases hget
  unfold judgePhase
  split
  · rename_i x k heq
    exfalso
    have hp := List.find?_some heq
    obtain ⟨hi, rfl⟩ := hzip _ _ (List.mem_of_find?_eq_some heq)
    cases hx : y1.st.crash.recover.abs k with
    | none => simp [hx] at hp
    | some v =>
      simp only [hx, Bool.and_eq_true, Bool.not_eq_true', bne_iff_ne, ne_eq] at hp
      obtain ⟨⟨h1, h2⟩, _⟩ := hp
      rcases hF k with ⟨w, hw, wnew, wst, _⟩ | ⟨hxb, _⟩
      · obtain ⟨b, hb⟩ := Option.ne_none_iff_exists'.mp wnew.1
        have hmem := mem_phaseWs_of_new hK.ids hw wnew (recOf_of_start hb wst)
        rw [hx] at hmem
        have := List.any_eq_false.mp h1 _ hmem
        simp at this
      · apply h2
        rw [List.getD_eq_getElem?_getD, readsOf_getElem?, if_pos hi, ← hxb, hx]
        rfl
  · unfold judgeCrashAck
    rw [Nat.max_eq_left hack]
    unfold judgeCrash
    rw [bne_self_eq_false]
    simp only [Bool.false_eq_true, if_false]
    rw [List.findSome?_eq_none_iff]
    rintro ⟨x, i⟩ hx
    obtain ⟨hi, rfl⟩ := hzip x i hx
    simp only [Option.map_eq_none_iff]
    exact judgeKey_phase hd hK hids1 hold i hi (hF i)

end

end HappyModel.C15
