import HappyProofs.C15.MultiFull
/-! Non-vacuity of `multi_crash_spec_full_proved`: a second phase in which a flush installs (and truncates the
    log) and a compaction is started, after a lossy first crash. -/
namespace HappyModel.C15
open HappyModel.C14

example : (phaseStarts mcCfg (sysOf mcCfg [] mcOps) [mcSched1, mcSched2]).tail.all
      (fun ys => noInstallB mcCfg ys.1 ys.2) = false ∧
    (mcO1.next.run mcCfg mcSched2).st.levels ≠ mcO1.next.st.levels := by
  refine ⟨by decide, by decide⟩

example : judgePhases false 3 (List.replicate 3 none) [] 0
    (obsOfPhases mcOps 3 [] (runPhases mcCfg (sysOf mcCfg [] mcOps) [mcSched1, mcSched2])) = none :=
  multi_crash_spec_full_proved mcCfg (.batch 2) 3 mcOps [] [mcSched1, mcSched2] false rfl (by decide)
    ⟨by decide, by decide⟩ (by decide) (phase_hyps_of_B (by decide)) (fun h => by cases h)

end HappyModel.C15
