import HappyProofs.C15.PhasesLight4
/-!
# Dropping dead frames does not change a run

`L : Nat → Bool` marks the "live" operation ids.  A schedule that only names live ids never advances a dead
frame, so filtering the dead frames out commutes with `Sys.step` / `Sys.run`, and every schedule hypothesis
(`InOrder`, `syncsInOrderB`) and observation (`syncDoneRun`) is unchanged.
-/
namespace HappyModel.C15
open HappyModel.C14

/-- declared in the namespace of `Sys` so that `y.live L` resolves -/
def _root_.HappyModel.C14.Sys.live (L : Nat → Bool) (y : Sys) : Sys := { y with frames := y.frames.filter (fun f => L f.id) }

@[simp] theorem _root_.HappyModel.C14.Sys.live_st (L : Nat → Bool) (y : Sys) : (y.live L).st = y.st := rfl
@[simp] theorem _root_.HappyModel.C14.Sys.live_n (L : Nat → Bool) (y : Sys) : (y.live L).n = y.n := rfl
@[simp] theorem _root_.HappyModel.C14.Sys.live_frames (L : Nat → Bool) (y : Sys) :
    (y.live L).frames = y.frames.filter (fun f => L f.id) := rfl

/-! ### 1. one step of the frame list -/

theorem stepFrames_live (cfg : Cfg) (st : St) (n id : Nat) (L : Nat → Bool) (hL : L id = true)
    (fs : List Frame) :
    stepFrames cfg st n id (fs.filter (fun f => L f.id)) =
      ((stepFrames cfg st n id fs).1, (stepFrames cfg st n id fs).2.filter (fun f => L f.id)) := by
  induction fs with
  | nil => simp [stepFrames]
  | cons f fs ih =>
    by_cases hid : (f.id == id) = true
    · have hfid : f.id = id := by simpa using hid
      have hLf : L f.id = true := by rw [hfid]; exact hL
      rw [List.filter_cons_of_pos (by simpa using hLf)]
      by_cases hd : f.pc.isDone = true
      · simp only [stepFrames, hid, hd, if_true]
        rw [List.filter_cons_of_pos (by simpa using hLf)]
      · simp only [stepFrames, hid, hd, if_true]
        simp only [Bool.false_eq_true, if_false]
        rw [List.filter_cons_of_pos (by simpa using hLf)]
    · by_cases hLf : L f.id = true
      · rw [List.filter_cons_of_pos (by simpa using hLf)]
        simp only [stepFrames, hid, Bool.false_eq_true, if_false]
        rw [ih, List.filter_cons_of_pos (by simpa using hLf)]
      · rw [List.filter_cons_of_neg (by simpa using hLf)]
        simp only [stepFrames, hid, Bool.false_eq_true, if_false]
        rw [ih, List.filter_cons_of_neg (by simpa using hLf)]

/-- the dead part of the frame list is untouched by a live step -/
theorem stepFrames_dead (cfg : Cfg) (st : St) (n id : Nat) (L : Nat → Bool) (hL : L id = true)
    (fs : List Frame) :
    (stepFrames cfg st n id fs).2.filter (fun f => !L f.id) = fs.filter (fun f => !L f.id) := by
  induction fs with
  | nil => simp [stepFrames]
  | cons f fs ih =>
    by_cases hid : (f.id == id) = true
    · have hfid : f.id = id := by simpa using hid
      have hLf : L f.id = true := by rw [hfid]; exact hL
      by_cases hd : f.pc.isDone = true
      · simp only [stepFrames, hid, hd, if_true]
      · simp only [stepFrames, hid, hd, if_true]
        simp only [Bool.false_eq_true, if_false]
        rw [List.filter_cons_of_neg (by simp [hLf]), List.filter_cons_of_neg (by simp [hLf])]
    · simp only [stepFrames, hid, Bool.false_eq_true, if_false]
      simp only [List.filter_cons, ih]

/-! ### 2. one step of the system -/

theorem step_live (cfg : Cfg) (L : Nat → Bool) (y : Sys) (id : Nat) (hL : L id = true) :
    (y.live L).step cfg id = (y.step cfg id).live L := by
  unfold Sys.step Sys.live
  simp only [stepFrames_live cfg y.st y.n id L hL y.frames]

theorem step_dead_frames (cfg : Cfg) (L : Nat → Bool) (y : Sys) (id : Nat) (hL : L id = true) :
    (y.step cfg id).frames.filter (fun f => !L f.id) = y.frames.filter (fun f => !L f.id) := by
  unfold Sys.step
  exact stepFrames_dead cfg y.st y.n id L hL y.frames

/-! ### 3. a whole run -/

theorem run_live (cfg : Cfg) (L : Nat → Bool) (sched : List Nat) (y : Sys)
    (hL : ∀ id ∈ sched, L id = true) :
    (y.live L).run cfg sched = (y.run cfg sched).live L := by
  induction sched generalizing y with
  | nil => rfl
  | cons id ids ih =>
    simp only [Sys.run]
    rw [step_live cfg L y id (hL id (by simp))]
    exact ih _ (fun i hi => hL i (by simp [hi]))

theorem run_live_st (cfg : Cfg) (L : Nat → Bool) (sched : List Nat) (y : Sys)
    (hL : ∀ id ∈ sched, L id = true) :
    ((y.live L).run cfg sched).st = (y.run cfg sched).st := by
  rw [run_live cfg L sched y hL]; rfl

theorem run_live_n (cfg : Cfg) (L : Nat → Bool) (sched : List Nat) (y : Sys)
    (hL : ∀ id ∈ sched, L id = true) :
    ((y.live L).run cfg sched).n = (y.run cfg sched).n := by
  rw [run_live cfg L sched y hL]; rfl

theorem run_live_frames (cfg : Cfg) (L : Nat → Bool) (sched : List Nat) (y : Sys)
    (hL : ∀ id ∈ sched, L id = true) :
    ((y.live L).run cfg sched).frames = (y.run cfg sched).frames.filter (fun f => L f.id) := by
  rw [run_live cfg L sched y hL]; rfl

/-! ### 4. dead frames are untouched -/

theorem run_dead_frames (cfg : Cfg) (L : Nat → Bool) (sched : List Nat) (y : Sys)
    (hL : ∀ id ∈ sched, L id = true) :
    (y.run cfg sched).frames.filter (fun f => !L f.id) = y.frames.filter (fun f => !L f.id) := by
  induction sched generalizing y with
  | nil => rfl
  | cons id ids ih =>
    simp only [Sys.run]
    rw [ih _ (fun i hi => hL i (by simp [hi]))]
    exact step_dead_frames cfg L y id (hL id (by simp))

theorem run_dead_mem_of_run (cfg : Cfg) (L : Nat → Bool) (sched : List Nat) (y : Sys)
    (hL : ∀ id ∈ sched, L id = true) (f : Frame)
    (hf : f ∈ (y.run cfg sched).frames) (hd : L f.id = false) : f ∈ y.frames := by
  have h : f ∈ (y.run cfg sched).frames.filter (fun f => !L f.id) :=
    List.mem_filter.mpr ⟨hf, by simp [hd]⟩
  rw [run_dead_frames cfg L sched y hL] at h
  exact (List.mem_filter.mp h).1

theorem run_dead_mem_run (cfg : Cfg) (L : Nat → Bool) (sched : List Nat) (y : Sys)
    (hL : ∀ id ∈ sched, L id = true) (f : Frame)
    (hf : f ∈ y.frames) (hd : L f.id = false) : f ∈ (y.run cfg sched).frames := by
  have h : f ∈ y.frames.filter (fun f => !L f.id) :=
    List.mem_filter.mpr ⟨hf, by simp [hd]⟩
  rw [← run_dead_frames cfg L sched y hL] at h
  exact (List.mem_filter.mp h).1

/-! ### 5. the flush-order schedule hypothesis -/

theorem inOrder_live (cfg : Cfg) (L : Nat → Bool) (sched : List Nat) (y : Sys)
    (hL : ∀ id ∈ sched, L id = true) (ho : InOrder cfg y sched) :
    InOrder cfg (y.live L) sched := by
  intro n f hf t b hpc hs
  have hLt : ∀ id ∈ sched.take n, L id = true := fun i hi => hL i (List.mem_of_mem_take hi)
  rw [run_live cfg L (sched.take n) y hLt] at hf ⊢
  have hf' : f ∈ (y.run cfg (sched.take n)).frames := (List.mem_filter.mp hf).1
  exact ho n f hf' t b hpc hs

theorem headNow_live (L : Nat → Bool) (y : Sys) (id : Nat) (h : HeadNow y id) : HeadNow (y.live L) id := by
  intro f hf t b hpc hid
  exact h f (List.mem_filter.mp hf).1 t b hpc hid

/-! ### 6. the sync-order schedule hypothesis and the `syncDone` observation -/

theorem find?_id_filter (L : Nat → Bool) (id : Nat) (hL : L id = true) (fs : List Frame) :
    (fs.filter (fun f => L f.id)).find? (fun f => f.id == id) = fs.find? (fun f => f.id == id) := by
  induction fs with
  | nil => rfl
  | cons f fs ih =>
    by_cases hid : (f.id == id) = true
    · have hfid : f.id = id := by simpa using hid
      have hLf : L f.id = true := by rw [hfid]; exact hL
      rw [List.filter_cons_of_pos (by simpa using hLf)]
      simp only [List.find?_cons, hid]
    · by_cases hLf : L f.id = true
      · rw [List.filter_cons_of_pos (by simpa using hLf)]
        simp only [List.find?_cons, hid, ih]
      · rw [List.filter_cons_of_neg (by simpa using hLf)]
        simp only [List.find?_cons, hid, ih]

theorem atSync_live (L : Nat → Bool) (y : Sys) (id : Nat) (hL : L id = true) :
    atSync (y.live L) id = atSync y id := by
  unfold atSync
  rw [Sys.live_frames, find?_id_filter L id hL]

theorem syncsInOrderB_live (cfg : Cfg) (L : Nat → Bool) (sched : List Nat) (y : Sys)
    (hL : ∀ id ∈ sched, L id = true) :
    syncsInOrderB cfg (y.live L) sched = syncsInOrderB cfg y sched := by
  induction sched generalizing y with
  | nil => rfl
  | cons id ids ih =>
    have h1 : L id = true := hL id (by simp)
    simp only [syncsInOrderB]
    rw [step_live cfg L y id h1, ih _ (fun i hi => hL i (by simp [hi])),
      Sys.live_frames, find?_id_filter L id h1, Sys.live_st]

theorem syncDoneRun_live (cfg : Cfg) (L : Nat → Bool) (sched : List Nat) (y : Sys) (acc : List Nat)
    (hL : ∀ id ∈ sched, L id = true) :
    (syncDoneRun cfg (y.live L) acc sched).2 = (syncDoneRun cfg y acc sched).2 := by
  induction sched generalizing y acc with
  | nil => rfl
  | cons id ids ih =>
    have h1 : L id = true := hL id (by simp)
    simp only [syncDoneRun]
    rw [step_live cfg L y id h1, atSync_live L y id h1]
    exact ih _ _ (fun i hi => hL i (by simp [hi]))

theorem syncDoneRun_live_fst (cfg : Cfg) (L : Nat → Bool) (sched : List Nat) (y : Sys) (acc : List Nat)
    (hL : ∀ id ∈ sched, L id = true) :
    (syncDoneRun cfg (y.live L) acc sched).1 = (syncDoneRun cfg y acc sched).1.live L := by
  induction sched generalizing y acc with
  | nil => rfl
  | cons id ids ih =>
    have h1 : L id = true := hL id (by simp)
    simp only [syncDoneRun]
    rw [step_live cfg L y id h1, atSync_live L y id h1]
    exact ih _ _ (fun i hi => hL i (by simp [hi]))

end HappyModel.C15
