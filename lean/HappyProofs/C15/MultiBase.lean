import HappyProofs.C15.MultiDefs
namespace HappyModel.C15
open HappyModel.C14

/-! Pure list lemmas about the base events of a recovered tree. -/

theorem memEvs_cons (B : Nat) (e : WalE) (r : List WalE) :
    memEvs B (e :: r) = memEvs B r ++ [⟨e.seq, B, e.key, e.cell, e.seq⟩] := by
  simp [memEvs, List.reverse_cons, List.map_append]

theorem lookup_replayB (B : Nat) (k : Key) (w : List WalE) (m : Data) :
    (w.foldl (fun m e => ins e.key e.cell m) m).lookup k = (firstOn k (memEvs B w)).or (m.lookup k) := by
  induction w generalizing m with
  | nil => simp [memEvs, firstOn]
  | cons e r ih =>
    rw [List.foldl_cons, ih, memEvs_cons, firstOn_append, Option.or_assoc, lookup_ins]
    congr 1
    simp only [firstOn]
    by_cases h : k = e.key
    · subst h; simp
    · have h' : ¬ e.key = k := fun h' => h h'.symm
      simp [h, h']

theorem lookup_replayB_nil (B : Nat) (k : Key) (w : List WalE) :
    (w.foldl (fun m e => ins e.key e.cell m) []).lookup k = firstOn k (memEvs B w) := by
  rw [lookup_replayB B]; simp

theorem firstOn_numEv (id : Nat) (k : Key) (d : List (Key × Cell)) : firstOn k (numEv id d) = d.lookup k := by
  induction d with
  | nil => simp [numEv, firstOn]
  | cons x r ih =>
    simp only [numEv, firstOn, List.lookup]
    by_cases h : x.1 = k
    · have : (k == x.1) = true := by simp [h]
      simp [h]
    · have h' : ¬ k = x.1 := fun h' => h h'.symm
      have : (k == x.1) = false := by simp [h']
      simp [h, this, ih]

theorem lookup_append (k : Key) (a b : List (Key × Cell)) : (a ++ b).lookup k = (a.lookup k).or (b.lookup k) := by
  induction a with
  | nil => simp
  | cons x r ih =>
    simp only [List.cons_append, List.lookup]
    cases (k == x.1)
    · simpa using ih
    · simp

theorem lookup_flatTabs (k : Key) (l : List Tab) : (l.flatMap (·.data)).lookup k = lookTabs k l := by
  induction l with
  | nil => simp [lookTabs]
  | cons t r ih => rw [List.flatMap_cons, lookup_append, ih, lookTabs_cons]

theorem lookup_flatLv (k : Key) (lv : List (List Tab)) : (flatLv lv).lookup k = lookLevels k lv := by
  induction lv with
  | nil => simp [flatLv, lookLevels]
  | cons l ls ih =>
    unfold flatLv at ih ⊢
    rw [List.flatMap_cons, lookup_append, ih, lookup_flatTabs, lookLevels_cons]

theorem firstOn_lvEvs (B : Nat) (k : Key) (lv : List (List Tab)) : firstOn k (lvEvs B lv) = lookLevels k lv := by
  unfold lvEvs; rw [firstOn_numEv, lookup_flatLv]

theorem numEv_facts (id : Nat) (d : List (Key × Cell)) :
    (∀ ev ∈ numEv id d, ev.id = id ∧ ev.seq = 0 ∧ ev.n < d.length) ∧
      (numEv id d).Pairwise (fun a b => a.n > b.n) := by
  induction d with
  | nil => simp [numEv]
  | cons x r ih =>
    obtain ⟨ih1, ih2⟩ := ih
    constructor
    · intro ev hev
      simp only [numEv, List.mem_cons] at hev
      rcases hev with rfl | hev
      · simp
      · obtain ⟨a, b, c⟩ := ih1 ev hev
        exact ⟨a, b, by simp only [List.length_cons]; omega⟩
    · simp only [numEv]
      refine List.pairwise_cons.mpr ⟨?_, ih2⟩
      intro ev hev
      exact (ih1 ev hev).2.2

theorem memEvs_facts (B : Nat) (w : List WalE) :
    ∀ ev ∈ memEvs B w, ev.id = B ∧ ev.n = ev.seq ∧ ∃ e ∈ w, e.seq = ev.seq ∧ e.key = ev.key ∧ e.cell = ev.cell := by
  intro ev hev
  simp only [memEvs, List.mem_map, List.mem_reverse] at hev
  obtain ⟨e, he, rfl⟩ := hev
  exact ⟨rfl, rfl, e, he, rfl, rfl, rfl⟩

theorem memEvs_all (B : Nat) (w : List WalE) :
    ∀ e ∈ w, ∃ ev ∈ memEvs B w, ev.id = B ∧ ev.key = e.key ∧ ev.seq = e.seq := by
  intro e he
  refine ⟨⟨e.seq, B, e.key, e.cell, e.seq⟩, ?_, rfl, rfl, rfl⟩
  simp only [memEvs, List.mem_map, List.mem_reverse]
  exact ⟨e, he, rfl⟩

theorem memEvs_sorted (B : Nat) (w : List WalE) (hs : (w.map (·.seq)).Pairwise (· < ·)) :
    (memEvs B w).Pairwise (fun a b => a.n > b.n) := by
  unfold memEvs
  rw [List.pairwise_map, List.pairwise_reverse]
  rw [List.pairwise_map] at hs
  exact hs

theorem cls_of_eq {B : Nat} {e : Ev} (h : e.id = B) : e.cls B = 1 := by
  unfold Ev.cls; simp [h]

theorem cls_of_succ {B : Nat} {e : Ev} (h : e.id = B + 1) : e.cls B = 2 := by
  unfold Ev.cls
  have h1 : ¬ e.id < B := by omega
  have h2 : ¬ e.id = B := by omega
  simp [h1, h2]

theorem lvEvs_facts (B : Nat) (lv : List (List Tab)) :
    (∀ ev ∈ lvEvs B lv, ev.id = B + 1 ∧ ev.seq = 0) ∧ (lvEvs B lv).Pairwise (fun a b => a.n > b.n) := by
  obtain ⟨h1, h2⟩ := numEv_facts (B + 1) (flatLv lv)
  exact ⟨fun ev hev => ⟨(h1 ev hev).1, (h1 ev hev).2.1⟩, h2⟩

theorem pairwise_imp_mem {α : Type} {R S : α → α → Prop} {l : List α} (h : l.Pairwise R)
    (himp : ∀ a ∈ l, ∀ b ∈ l, R a b → S a b) : l.Pairwise S := by
  induction l with
  | nil => exact List.Pairwise.nil
  | cons x r ih =>
    obtain ⟨hx, hr⟩ := List.pairwise_cons.mp h
    refine List.pairwise_cons.mpr ⟨?_, ?_⟩
    · intro b hb
      exact himp x (List.mem_cons_self ..) b (List.mem_cons_of_mem _ hb) (hx b hb)
    · exact ih hr fun a ha b hb => himp a (List.mem_cons_of_mem _ ha) b (List.mem_cons_of_mem _ hb)

theorem log0_sorted (B : Nat) (s : St) (hs : (s.wal.map (·.seq)).Pairwise (· < ·)) :
    (log0Of B s).Pairwise (RBase B) := by
  unfold log0Of
  obtain ⟨hl1, hl2⟩ := lvEvs_facts B s.levels
  refine List.pairwise_append.mpr ⟨?_, ?_, ?_⟩
  · refine pairwise_imp_mem (memEvs_sorted B s.wal hs) ?_
    intro a ha b hb hab
    right
    rw [cls_of_eq (memEvs_facts B s.wal a ha).1, cls_of_eq (memEvs_facts B s.wal b hb).1]
    exact ⟨rfl, hab⟩
  · refine pairwise_imp_mem hl2 ?_
    intro a ha b hb hab
    right
    rw [cls_of_succ (hl1 a ha).1, cls_of_succ (hl1 b hb).1]
    exact ⟨rfl, hab⟩
  · intro a ha b hb
    left
    rw [cls_of_eq (memEvs_facts B s.wal a ha).1, cls_of_succ (hl1 b hb).1]
    exact Nat.lt_succ_self 1

theorem abs_log0 (B : Nat) (s : St) (hmem : s.mem = s.wal.foldl (fun m e => ins e.key e.cell m) [])
    (himm : s.imms = []) : ∀ k, s.abs k = (firstOn k (log0Of B s)).join := by
  intro k
  unfold St.abs St.read log0Of
  rw [firstOn_append, firstOn_lvEvs, himm, hmem, lookup_replayB_nil B]
  simp only [List.reverse_nil, lookTabs]
  cases firstOn k (memEvs B s.wal) <;> cases lookLevels k s.levels <;> rfl

theorem base0_of (B : Nat) (s : St) (hs : (s.wal.map (·.seq)).Pairwise (· < ·))
    (hdur : ∀ e ∈ s.wal, e.seq ≤ s.synced) (hmem : s.mem = s.wal.foldl (fun m e => ins e.key e.cell m) [])
    (himm : s.imms = []) : Base0 B s.synced s.wal s.abs (log0Of B s) := by
  obtain ⟨hl1, _⟩ := lvEvs_facts B s.levels
  have hmemEv := memEvs_facts B s.wal
  refine ⟨?_, ?_, ?_, ?_, log0_sorted B s hs, abs_log0 B s hmem himm⟩
  · intro ev hev
    rcases List.mem_append.mp hev with h | h
    · exact Nat.le_of_eq (hmemEv ev h).1.symm
    · rw [(hl1 ev h).1]; exact Nat.le_succ B
  · intro ev hev
    rcases List.mem_append.mp hev with h | h
    · obtain ⟨_, _, e, he, h1, _⟩ := hmemEv ev h
      rw [← h1]; exact hdur e he
    · rw [(hl1 ev h).2]; exact Nat.zero_le _
  · intro ev hev hid
    rcases List.mem_append.mp hev with h | h
    · exact (hmemEv ev h).2.1
    · have := (hl1 ev h).1; omega
  · intro e he
    obtain ⟨ev, hev, h⟩ := memEvs_all B s.wal e he
    exact ⟨ev, List.mem_append_left _ hev, h⟩

theorem wcore0 (B : Nat) (s : St) (hs : (s.wal.map (·.seq)).Pairwise (· < ·))
    (hmem : s.mem = s.wal.foldl (fun m e => ins e.key e.cell m) []) (himm : s.imms = [])
    (hlt : ∀ e ∈ s.wal, e.seq < s.nextSeq) (hpend : ∀ q ∈ s.pending, 1 ≤ q ∧ q < s.nextSeq)
    (hpos : ∀ e ∈ s.wal, 1 ≤ e.seq) (hn : 1 ≤ s.nextSeq) : WCore s (log0Of B s) (ghost0Of B s) := by
  obtain ⟨hl1, _⟩ := lvEvs_facts B s.levels
  refine ⟨?_, ?_, ?_, ?_, ?_, ?_, hs, hlt, hpend, ?_, ?_, ?_⟩
  · simp [Ghost.all, ghost0Of, log0Of]
  · intro k
    simp only [ghost0Of]
    rw [hmem, lookup_replayB_nil B]
  · rw [himm]; simp only [ghost0Of]; exact True.intro
  · intro k
    simp only [ghost0Of]
    rw [firstOn_lvEvs]
  · rw [himm]; exact List.Pairwise.nil
  · rw [himm]; intro u hu; cases hu
  · intro e he
    simp only [ghost0Of]
    exact hpos e he
  · simp only [ghost0Of]
    exact hn
  · intro ev hev
    simp only [ghost0Of]
    rcases List.mem_append.mp hev with h | h
    · left
      exact (memEvs_facts B s.wal ev h).2.2
    · right
      exact ⟨h, Nat.le_of_eq (hl1 ev h).2⟩

end HappyModel.C15
