import HappyProofs.C15.Sem
/-! WAL / flush invariant: which memtable inserts are in the levels, which log entries may be truncated. -/
namespace HappyModel.C15
open HappyModel.C14

/-- ghost partition of the insert log: active memtable, frozen memtables (oldest first, tagged with the
    memtable id), installed SSTables; `T` = largest truncation bound applied so far -/
structure Ghost where
  gmem : List Ev := []
  gimms : List (Nat × List Ev) := []
  glv : List Ev := []
  T : Nat := 0

def Ghost.all (g : Ghost) : List Ev := g.gmem ++ (g.gimms.reverse.flatMap (·.2)) ++ g.glv

/-- per-frame part -/
structure FW (start : Nat → Pc) (st : St) (g : Ghost) (f : Frame) : Prop where
  seq : f.b ≠ none → 1 ≤ f.seq0 ∧ ((∃ k c, start f.id = .pStart k c) → f.seq0 < st.nextSeq)
  logging : ∀ q, f.pc.logging = some q → q ∈ st.pending ∧ ∃ e ∈ st.wal, e.seq = q ∧ start f.id = .pStart e.key e.cell
  flush : ∀ t b, f.pc = .pFlush t b → (∀ q ∈ st.pending, b < q) ∧ b < st.nextSeq ∧ (∀ e ∈ g.gmem, b < e.seq) ∧
    (∀ gi ∈ g.gimms, t.id < gi.1 → ∀ e ∈ gi.2, b < e.seq)

/-- frozen memtables and their ghost event lists, in step -/
def ImmG : List Tab → List (Nat × List Ev) → Prop
  | [], [] => True
  | t :: r, gi :: gr => (gi.1 = t.id ∧ ∀ k, t.data.lookup k = firstOn k gi.2) ∧ ImmG r gr
  | _, _ => False

def IsWrite (start : Nat → Pc) (f : Frame) : Prop := ∃ k c, start f.id = .pStart k c

/-- state-level part -/
structure WCore (st : St) (log : List Ev) (g : Ghost) : Prop where
  logEq : log = g.all
  memG : ∀ k, st.mem.lookup k = firstOn k g.gmem
  immG : ImmG st.imms g.gimms
  lvG : ∀ k, (lookLevels k st.levels).join = (firstOn k g.glv).join
  immOrd : (st.imms.map (·.id)).Pairwise (· < ·)
  immLt : ∀ u ∈ st.imms, u.id < st.memId
  walSorted : (st.wal.map (·.seq)).Pairwise (· < ·)
  walLt : ∀ e ∈ st.wal, e.seq < st.nextSeq
  pendLt : ∀ q ∈ st.pending, 1 ≤ q ∧ q < st.nextSeq
  truncT : ∀ e ∈ st.wal, g.T < e.seq
  Tlt : g.T < st.nextSeq
  evDur : ∀ ev ∈ log, (∃ e ∈ st.wal, e.seq = ev.seq ∧ e.key = ev.key ∧ e.cell = ev.cell) ∨ (ev ∈ g.glv ∧ ev.seq ≤ g.T)

structure WInv (start : Nat → Pc) (y : Sys) (log : List Ev) (g : Ghost) : Prop where
  core : WCore y.st log g
  walFrame : ∀ e ∈ y.st.wal, ∃ f ∈ y.frames, f.b ≠ none ∧ f.seq0 = e.seq ∧ start f.id = .pStart e.key e.cell
  bDistinct : ∀ f ∈ y.frames, ∀ f' ∈ y.frames, ∀ b, f.b = some b → f'.b = some b → f.id = f'.id
  seqOrd : ∀ f ∈ y.frames, ∀ f' ∈ y.frames, ∀ b b', f.b = some b → f'.b = some b' → b < b' →
    IsWrite start f → IsWrite start f' → f.seq0 < f'.seq0
  fw : ∀ f ∈ y.frames, FW start y.st g f

/-! ### helpers -/

theorem firstOn_append (k : Key) (a b : List Ev) : firstOn k (a ++ b) = (firstOn k a).or (firstOn k b) := by
  induction a with
  | nil => simp [firstOn]
  | cons e r ih =>
    simp only [List.cons_append, firstOn]
    split
    · rfl
    · exact ih

theorem lookLevels_modAt0 (k : Key) (lv : List (List Tab)) (t : Tab) (h : lv ≠ []) :
    lookLevels k (modAt lv 0 (· ++ [t])) = (t.data.lookup k).or (lookLevels k lv) := by
  cases lv with
  | nil => exact absurd rfl h
  | cons l r =>
    simp only [modAt, lookLevels_cons, List.reverse_append, List.reverse_cons, List.reverse_nil, List.nil_append,
      List.singleton_append, lookTabs_cons, Option.or_assoc]

theorem minList_le (q : Nat) (l : List Nat) (d : Nat) (h : q ∈ l ∨ d ≤ q) : minList l d ≤ q := by
  induction l generalizing d with
  | nil =>
    rcases h with h | h
    · cases h
    · exact h
  | cons x xs ih =>
    simp only [minList]
    apply ih
    rcases h with h | h
    · rcases List.mem_cons.mp h with rfl | h'
      · exact Or.inr (Nat.min_le_left ..)
      · exact Or.inl h'
    · exact Or.inr (Nat.le_trans (Nat.min_le_right ..) h)

theorem truncBound_lt (s : St) (q : Nat) (h : q ∈ s.pending ∨ s.nextSeq ≤ q) (hq : 1 ≤ q) : truncBound s < q := by
  have := minList_le q s.pending s.nextSeq h
  unfold truncBound
  omega

theorem shouldSync_same (p : Policy) (s : St) :
    (shouldSync p s).2 = { s with oracle := (shouldSync p s).2.oracle } := by
  cases p <;> rfl

/-- relation between two (state, ghost) pairs under which the per-frame facts of a frame that did not
    run are preserved; `qx` is the sequence number that stopped being pending -/
structure Rel (st : St) (g : Ghost) (st' : St) (g' : Ghost) (qx : Option Nat) : Prop where
  nextSeq : st.nextSeq ≤ st'.nextSeq
  pendKeep : ∀ q ∈ st.pending, q ∈ st'.pending ∨ some q = qx
  pendNew : ∀ q ∈ st'.pending, q ∈ st.pending ∨ st.nextSeq ≤ q
  walKeep : ∀ e ∈ st.wal, e.seq ∈ st.pending → e ∈ st'.wal
  gmemNew : ∀ e ∈ g'.gmem, e ∈ g.gmem ∨ e.seq ∈ st.pending
  gimmsNew : ∀ gi ∈ g'.gimms, ∀ e ∈ gi.2, (∃ gi0 ∈ g.gimms, gi0.1 = gi.1 ∧ e ∈ gi0.2) ∨ (e ∈ g.gmem ∧ gi.1 = st.memId)

theorem FW.mono {start : Nat → Pc} {st st' : St} {g g' : Ghost} {qx : Option Nat} {f : Frame}
    (h : FW start st g f) (r : Rel st g st' g' qx) (hq : ∀ q, f.pc.logging = some q → some q ≠ qx) :
    FW start st' g' f := by
  refine ⟨?_, ?_, ?_⟩
  · intro hb
    obtain ⟨h1, h2⟩ := h.seq hb
    exact ⟨h1, fun hw => Nat.lt_of_lt_of_le (h2 hw) r.nextSeq⟩
  · intro q hl
    obtain ⟨h1, e, he, h2, h3⟩ := h.logging q hl
    refine ⟨?_, e, r.walKeep e he (by rw [h2]; exact h1), h2, h3⟩
    rcases r.pendKeep q h1 with h | h
    · exact h
    · exact absurd h (hq q hl)
  · intro t b hp
    obtain ⟨h1, h2, h3, h4⟩ := h.flush t b hp
    refine ⟨?_, Nat.lt_of_lt_of_le h2 r.nextSeq, ?_, ?_⟩
    · intro q hq'
      rcases r.pendNew q hq' with h | h
      · exact h1 q h
      · omega
    · intro e he
      rcases r.gmemNew e he with h | h
      · exact h3 e h
      · exact h1 _ h
    · intro gi hgi hlt e he
      rcases r.gimmsNew gi hgi e he with ⟨gi0, h0, h0', h0''⟩ | ⟨h0, h0'⟩
      · exact h4 gi0 h0 (by rw [h0']; exact hlt) e h0''
      · exact h3 e h0

theorem immG_append {imms : List Tab} {gimms : List (Nat × List Ev)} (h : ImmG imms gimms) (t : Tab) (gi : Nat × List Ev)
    (h1 : gi.1 = t.id) (h2 : ∀ k, t.data.lookup k = firstOn k gi.2) : ImmG (imms ++ [t]) (gimms ++ [gi]) := by
  induction imms generalizing gimms with
  | nil =>
    cases gimms with
    | nil => exact ⟨⟨h1, h2⟩, trivial⟩
    | cons a b => exact h.elim
  | cons u r ih =>
    cases gimms with
    | nil => exact h.elim
    | cons a b => exact ⟨h.1, ih h.2⟩

theorem immG_mem {imms : List Tab} {gimms : List (Nat × List Ev)} (h : ImmG imms gimms) {gi : Nat × List Ev}
    (hg : gi ∈ gimms) : ∃ t ∈ imms, t.id = gi.1 := by
  induction imms generalizing gimms with
  | nil =>
    cases gimms with
    | nil => cases hg
    | cons a b => exact h.elim
  | cons u r ih =>
    cases gimms with
    | nil => exact h.elim
    | cons a b =>
      rcases List.mem_cons.mp hg with rfl | hg
      · exact ⟨u, List.mem_cons_self .., h.1.1.symm⟩
      · obtain ⟨t, ht, e⟩ := ih h.2 hg
        exact ⟨t, List.mem_cons_of_mem _ ht, e⟩

end HappyModel.C15
