import HappyProofs.C15.WalRun
import HappyProofs.C15.Crash
import HappyProofs.C14.LsmJudge
/-! From the WAL invariant to the crash facts: what recovery reads, in terms of the write operations. -/
namespace HappyModel.C15
open HappyModel.C14

theorem winv_init {cfg : Cfg} {y : Sys} (h : InitSys cfg y) (start : Nat → Pc) : WInv start y [] {} := by
  obtain ⟨oracle, hst⟩ := h.st
  have hfr : ∀ f ∈ y.frames, f.b = none ∧ f.pc.logging = none ∧ ∀ t b, f.pc ≠ .pFlush t b := by
    intro f hf
    obtain ⟨a, b, _⟩ := h.frames f hf
    refine ⟨b, (isStart_not_done a).2.2, ?_⟩
    intro t b' e; rw [e] at a; cases a
  refine ⟨?_, ?_, ?_, ?_, ?_⟩
  · rw [hst]
    exact {
      logEq := rfl
      memG := fun _ => rfl
      immG := trivial
      lvG := fun k => by simp [St.init, lookLevels_replicate_nil, firstOn]
      immOrd := List.Pairwise.nil
      immLt := fun u hu => by cases hu
      walSorted := List.Pairwise.nil
      walLt := fun e he => by cases he
      pendLt := fun q hq => by cases hq
      truncT := fun e he => by cases he
      Tlt := by simp [St.init]
      evDur := fun e he => by cases he }
  · intro e he; rw [hst] at he; cases he
  · intro f hf f' _ b hb; rw [(hfr f hf).1] at hb; cases hb
  · intro f hf f' _ b b' hb; rw [(hfr f hf).1] at hb; cases hb
  · intro f hf
    obtain ⟨a, b, c⟩ := hfr f hf
    exact ⟨fun hb => absurd a hb, fun q hq => (by rw [b] at hq; cases hq), fun t b' hp => absurd hp (c t b')⟩

/-- both invariants along every in-order run -/
theorem winv_run {cfg : Cfg} {p : Policy} {start : Nat → Pc} (hw : cfg.wal = some p) (sched : List Nat) (y : Sys) (log : List Ev)
    (hL : LInv cfg start y log) (hW : ∃ g, WInv start y log g) (ho : InOrder cfg y sched) :
    LInv cfg start (y.run cfg sched) (logRun cfg y log sched) ∧ ∃ g, WInv start (y.run cfg sched) (logRun cfg y log sched) g :=
  grun_induct (fun y log => LInv cfg start y log ∧ ∃ g, WInv start y log g)
    (fun _ _ id h hh => ⟨linv_step h.1 id hh, by obtain ⟨g, hg⟩ := h.2; exact winv_step hw h.1 id hh hg⟩)
    sched y log ⟨hL, hW⟩ ho

/-! ### the last entry of a key in a log sorted by sequence number -/

theorem lastFor_none {k : Key} {w : List WalE} {acc : Option Cell} (h : lastFor k w acc = none) :
    acc = none ∧ ∀ e ∈ w, e.key ≠ k := by
  induction w generalizing acc with
  | nil => exact ⟨h, fun e he => by cases he⟩
  | cons e r ih =>
    simp only [lastFor] at h
    obtain ⟨h1, h2⟩ := ih h
    by_cases hk : k = e.key
    · simp [hk] at h1
    · simp only [hk, if_false] at h1
      refine ⟨h1, fun e' he' => ?_⟩
      rcases List.mem_cons.mp he' with rfl | he'
      · exact fun e => hk e.symm
      · exact h2 e' he'

theorem lastFor_last {k : Key} {w : List WalE} {acc : Option Cell} {c : Cell}
    (hs : (w.map (·.seq)).Pairwise (· < ·)) (h : lastFor k w acc = some c) :
    (acc = some c ∧ ∀ e ∈ w, e.key ≠ k) ∨
    ∃ e ∈ w, e.key = k ∧ e.cell = c ∧ ∀ e' ∈ w, e'.key = k → e'.seq ≤ e.seq := by
  induction w generalizing acc with
  | nil => exact Or.inl ⟨h, fun e he => by cases he⟩
  | cons e r ih =>
    simp only [lastFor] at h
    simp only [List.map_cons, List.pairwise_cons] at hs
    rcases ih hs.2 h with ⟨h1, h2⟩ | ⟨e1, he1, a1, a2, a3⟩
    · by_cases hk : k = e.key
      · simp only [hk, if_true] at h1
        right
        refine ⟨e, List.mem_cons_self .., hk.symm, by simpa using h1, ?_⟩
        intro e' he' hk'
        rcases List.mem_cons.mp he' with rfl | he'
        · exact Nat.le_refl _
        · exact absurd hk' (by rw [hk] at h2 ⊢; exact h2 e' he')
      · simp only [hk, if_false] at h1
        left
        refine ⟨h1, fun e' he' => ?_⟩
        rcases List.mem_cons.mp he' with rfl | he'
        · exact fun e => hk e.symm
        · exact h2 e' he'
    · right
      refine ⟨e1, List.mem_cons_of_mem _ he1, a1, a2, ?_⟩
      intro e' he' hk'
      rcases List.mem_cons.mp he' with rfl | he'
      · exact Nat.le_of_lt (hs.1 _ (List.mem_map_of_mem he1))
      · exact a3 e' he' hk'

/-! ### durable writes are in the surviving log or in the levels -/

section
variable {cfg : Cfg} {p : Policy} {start : Nat → Pc} {y : Sys} {log : List Ev} {g : Ghost}

theorem durable_cases (hw : cfg.wal = some p) (hL : LInv cfg start y log) (hW : WInv start y log g)
    {w' : Frame} (hw' : w' ∈ y.frames) {b' : Nat} (hb' : w'.b = some b') {k : Key} {c' : Cell}
    (hs' : start w'.id = .pStart k c') (hdur : w'.seq0 ≤ y.st.synced) :
    (∃ e' ∈ durableLog y.st, e'.key = k ∧ e'.seq = w'.seq0) ∨
    (∃ ev' ∈ g.glv, ev'.key = k ∧ b' ≤ ev'.n ∧ ev'.seq ≤ g.T ∧ ev'.seq = w'.seq0) := by
  have hwn : cfg.wal ≠ none := by rw [hw]; simp
  have hF := hL.frames w' hw'
  have hcons := hF.cons
  rw [hs'] at hcons
  simp only [PcCons] at hcons
  have hlog : ∀ q, w'.pc.logging = some q → ∃ e' ∈ durableLog y.st, e'.key = k ∧ e'.seq = w'.seq0 := by
    intro q hq
    have hq0 := hF.logSeq q hq hwn
    obtain ⟨_, e, he, he1, he2⟩ := (hW.fw w' hw').logging q hq
    rw [hs'] at he2
    injection he2 with hk _
    refine ⟨e, List.mem_filter.mpr ⟨he, ?_⟩, hk.symm, by rw [he1, hq0]⟩
    simp only [decide_eq_true_eq]
    rw [he1, ← hq0]; exact hdur
  rcases hcons with hpc | ⟨q, hpc⟩ | ⟨q, hpc⟩ | happ
  · have := (hF.started b' hb').2
    rw [hpc] at this; cases this
  · exact Or.inl (hlog q (by rw [hpc]; rfl))
  · exact Or.inl (hlog q (by rw [hpc]; rfl))
  · obtain ⟨ev, hev, e1, e2, e3, ⟨b, hb, hbe⟩, _, e6⟩ := hF.hasEv happ k c' hs'
    rw [hb'] at hb
    injection hb with hb
    subst hb
    rcases hW.core.evDur ev hev with ⟨e, he, a1, a2, a3⟩ | ⟨a1, a2⟩
    · left
      refine ⟨e, List.mem_filter.mpr ⟨he, ?_⟩, by rw [a2, e2], by rw [a1, e6 hwn]⟩
      simp only [decide_eq_true_eq]
      rw [a1, e6 hwn]; exact hdur
    · exact Or.inr ⟨ev, a1, e2, hbe, a2, e6 hwn⟩

/-- the frame of an event: applied, started before the event, ended (if at all) after it -/
theorem frame_of_event (hL : LInv cfg start y log) {ev : Ev} (hev : ev ∈ log) :
    ∃ w ∈ y.frames, w.id = ev.id ∧ start w.id = .pStart ev.key ev.cell ∧ (∃ b, w.b = some b ∧ b ≤ ev.n) ∧
      ∀ e, w.e = some e → ev.n ≤ e := by
  obtain ⟨w, hw, e1, e2⟩ := hL.evFrame ev hev
  have hF := hL.frames w hw
  have happ : w.pc.applied = true := by
    cases h : w.pc.applied with
    | true => rfl
    | false => exact absurd e1.symm (hF.noEv h ev hev)
  obtain ⟨ev2, hev2, a1, _, _, a4, a5, _⟩ := hF.hasEv happ _ _ e2
  have : ev2 = ev := eq_of_nodup_map (·.id) hL.evIds ev2 hev2 ev hev (by rw [a1, e1])
  subst this
  exact ⟨w, hw, e1, e2, a4, a5⟩

theorem recovered_cases (hw : cfg.wal = some p) (hL : LInv cfg start y log) (hW : WInv start y log g) (k : Key) :
    (∃ c w, y.st.crash.recover.abs k = c ∧ w ∈ y.frames ∧ w.b ≠ none ∧ start w.id = .pStart k c ∧ NotSuperseded start y k w) ∨
    (y.st.crash.recover.abs k = none ∧
      ∀ w ∈ y.frames, ∀ c, w.b ≠ none → start w.id = .pStart k c → ¬ w.seq0 ≤ y.st.synced) := by
  have hDs : ((durableLog y.st).map (·.seq)).Pairwise (· < ·) :=
    List.Pairwise.sublist (List.Sublist.map _ List.filter_sublist) hW.core.walSorted
  have hglv : g.glv.Pairwise (fun a b => a.n > b.n) := by
    have h1 : log.Pairwise (fun a b => a.n > b.n) := List.pairwise_map.mp hL.sortedN
    rw [hW.core.logEq] at h1
    exact List.Pairwise.sublist (List.sublist_append_right _ _) h1
  have hglvlog : ∀ ev ∈ g.glv, ev ∈ log := by
    intro ev hev
    rw [hW.core.logEq]
    exact List.mem_append_right _ hev
  have habs : y.st.crash.recover.abs k = (match lastFor k (durableLog y.st) none with
      | some c => some c
      | none => lookLevels k y.st.levels).join := by
    unfold St.abs; rw [crash_recover_read]; rfl
  cases hlast : lastFor k (durableLog y.st) none with
  | some c =>
    left
    rw [hlast] at habs
    rcases lastFor_last hDs hlast with ⟨h0, _⟩ | ⟨e, he, ek, ec, emax⟩
    · cases h0
    · have hew : e ∈ y.st.wal := (List.mem_filter.mp he).1
      obtain ⟨w, hwf, wb, wseq, wst⟩ := hW.walFrame e hew
      rw [ek, ec] at wst
      refine ⟨c, w, habs, hwf, wb, wst, ?_⟩
      intro w' hw' hne b' c' hb' hs' hdur e0 he0 hlt
      obtain ⟨bw, hbw, hle⟩ := ((hL.frames w hwf).ended e0 he0).2.2
      have hord := hW.seqOrd w hwf w' hw' bw b' hbw hb' (by omega) ⟨k, c, wst⟩ ⟨k, c', hs'⟩
      rcases durable_cases hw hL hW hw' hb' hs' hdur with ⟨e', he', a1, a2⟩ | ⟨ev', hev', a1, a2, a3, a4⟩
      · have := emax e' he' a1; omega
      · have := hW.core.truncT e hew; omega
  | none =>
    rw [hlast] at habs
    simp only at habs
    rw [hW.core.lvG k] at habs
    have hnoD := (lastFor_none hlast).2
    cases hfirst : firstOn k g.glv with
    | some c =>
      left
      rw [hfirst] at habs
      obtain ⟨ev, hev, ek, ec, emax⟩ := firstOn_some hglv hfirst
      obtain ⟨w, hwf, wid, wst, ⟨bw, hbw, hbe⟩, wend⟩ := frame_of_event hL (hglvlog ev hev)
      rw [ek, ec] at wst
      refine ⟨c, w, habs, hwf, by rw [hbw]; simp, wst, ?_⟩
      intro w' hw' hne b' c' hb' hs' hdur e0 he0 hlt
      have := wend e0 he0
      rcases durable_cases hw hL hW hw' hb' hs' hdur with ⟨e', he', a1, a2⟩ | ⟨ev', hev', a1, a2, a3, a4⟩
      · exact hnoD e' he' a1
      · have := emax ev' hev' a1; omega
    | none =>
      right
      rw [hfirst] at habs
      refine ⟨habs, ?_⟩
      intro w hwf c hb hs hdur
      cases hbw : w.b with
      | none => exact hb hbw
      | some b' =>
        rcases durable_cases hw hL hW hwf hbw hs hdur with ⟨e', he', a1, a2⟩ | ⟨ev', hev', a1, a2, a3, a4⟩
        · exact hnoD e' he' a1
        · exact firstOn_none hfirst ev' hev' a1

/-- `durable_survive` and `no_resurrection`, semantic form -/
theorem crash_facts (hw : cfg.wal = some p) (hL : LInv cfg start y log) (hW : WInv start y log g) : CrashFacts start y := by
  constructor
  · intro k v hv
    rcases recovered_cases hw hL hW k with ⟨c, w, h1, h2, h3, h4, h5⟩ | ⟨h1, _⟩
    · rw [hv] at h1; subst h1
      exact ⟨w, h2, h3, h4, h5⟩
    · rw [hv] at h1; cases h1
  · intro k hn
    rcases recovered_cases hw hL hW k with ⟨c, w, h1, h2, h3, h4, h5⟩ | ⟨_, h2⟩
    · rw [hn] at h1; subst h1
      exact Or.inr ⟨w, h2, h3, h4, h5⟩
    · exact Or.inl h2

end

end HappyModel.C15
