import HappyProofs.C15.MultiStart
import HappyProofs.C15.MultiAux
import HappyProofs.C15.Props
/-!
# C15 — the full multi-crash statement (`multi_crash_spec_full_proved`)

Every phase after the first crash starts from a recovered state.  The abandoned frames are dropped
(`Sys.live`, `run_live`), the data present at the start is described by base events (`log0Of`), the invariants
`LInvB` / `WInvB` hold along the phase whatever flushes and compactions install (`winvB_run`), and
`recovered_casesB` yields the per-key facts `PhaseKey` that the judge link `judgePhase_of_facts` needs.
-/
namespace HappyModel.C15
open HappyModel.C14

/-- both invariants and the shape of the ghost log along every in-order run -/
theorem runB {cfg : Cfg} {p : Policy} {B N0 : Nat} {W0 : List WalE} {start : Nat → Pc} (hw : cfg.wal = some p)
    (log0 : List Ev) (sched : List Nat) (y : Sys) (log : List Ev)
    (hL : LInvB cfg B start y log) (hW : ∃ g, WInvB start N0 W0 y log g)
    (hsp : ∃ new, log = new ++ log0 ∧ ∀ e ∈ new, e.id < B) (ho : InOrder cfg y sched) :
    LInvB cfg B start (y.run cfg sched) (logRun cfg y log sched) ∧
      (∃ g, WInvB start N0 W0 (y.run cfg sched) (logRun cfg y log sched) g) ∧
      ∃ new, logRun cfg y log sched = new ++ log0 ∧ ∀ e ∈ new, e.id < B :=
  grun_induct (fun y log => LInvB cfg B start y log ∧ (∃ g, WInvB start N0 W0 y log g) ∧
      ∃ new, log = new ++ log0 ∧ ∀ e ∈ new, e.id < B)
    (fun y log id h hh => ⟨linvB_step h.1 id hh, (by obtain ⟨g, hg⟩ := h.2.1; exact winvB_step hw h.1 id hh hg), by
      obtain ⟨new, hn, hb⟩ := h.2.2
      rcases logStep_cases cfg y log id with e | ⟨ev, f, hf, hid, e⟩
      · rw [e]; exact ⟨new, hn, hb⟩
      · rw [e]
        refine ⟨ev :: new, by rw [hn]; rfl, ?_⟩
        intro x hx
        rcases List.mem_cons.mp hx with h1 | h1
        · rw [h1, hid]; exact h.1.idLt f hf
        · exact hb x h1⟩)
    sched y log ⟨hL, hW, hsp⟩ ho

/-- one phase after the first crash, whatever installs: the phase judge accepts the model's own observations (for
    every list `stale` of earlier values), and the next phase starts from a system satisfying the start conditions
    again -/
theorem later_phase_judgeB {cfg : Cfg} {p : Policy} {ops : List (Nat × OKind)} {y0 : Sys} {acc : List Nat}
    (nkeys : Nat) (sched : List Nat) (every : Bool) (stale : List Nat)
    (hw : cfg.wal = some p) (hd : DistinctPuts ops) (hK : KStart (startFor ops) y0)
    (hA : AInv cfg (startFor ops) y0 acc) (hX : KX cfg (baselineId 0) (startFor ops) y0)
    (ho : InOrder cfg y0 sched) (hs : syncsInOrderB cfg y0 sched = true)
    (hun : ∀ f ∈ y0.frames, f.id ∈ sched → f.b = none) (he : every = true → cfg.wal = some .every) :
    judgePhase every (readsOf nkeys y0.st) stale (phaseWs ops y0 (phaseOut cfg y0 sched).y) (phaseOut cfg y0 sched).done
      (phaseOut cfg y0 sched).y.st.synced (readsOf nkeys (phaseOut cfg y0 sched).s1)
      (readsOf nkeys (phaseOut cfg y0 sched).s2) (readsOf nkeys (phaseOut cfg y0 sched).s3) = none ∧
    KStart (startFor ops) (phaseOut cfg y0 sched).next ∧
    AInv cfg (startFor ops) (phaseOut cfg y0 sched).next ((phaseOut cfg y0 sched).done ++ acc) ∧
    KX cfg (baselineId 0) (startFor ops) (phaseOut cfg y0 sched).next := by
  have hLs := live_sched hun
  obtain ⟨hL1, ⟨g, hW1⟩, hsp⟩ := runB hw (log0Of (baselineId 0) y0.st) sched (y0.live (liveOf y0)) _
    (linvB_start hK hA hX) ⟨_, winvB_start hK hA hX⟩ ⟨[], rfl, fun e he => by cases he⟩
    (inOrder_live cfg (liveOf y0) sched y0 hLs ho)
  rw [run_live cfg (liveOf y0) sched y0 hLs] at hL1 hW1
  have hA1 := ainv_run sched y0 acc hA hs
  rw [syncDoneRun_acc] at hA1
  have hold0 := run_old_or_new cfg sched y0
  have hdead1 := run_dead_mem_of_run cfg (liveOf y0) sched y0 hLs
  have hdead2 := run_dead_mem_run cfg (liveOf y0) sched y0 hLs
  have hn1 := run_n cfg sched y0
  have hsyn := synced_mono_run cfg sched y0 hs
  rw [next_eq, phaseOut_s1, phaseOut_s2, phaseOut_s3, phaseOut_done, phaseOut_y]
  generalize y0.run cfg sched = y1 at *
  generalize logRun cfg (y0.live (liveOf y0)) (log0Of (baselineId 0) y0.st) sched = log1 at *
  have hold : ∀ f ∈ y1.frames, f ∈ y0.frames ∨ IsNew y0 f := by
    intro f hf
    rcases hold0 f hf with h | ⟨hb, hid, f0, hf0, hid0⟩
    · exact Or.inl h
    · exact Or.inr ⟨hb, f0, hf0, hid0, hun f0 hf0 (by rw [hid0]; exact hid)⟩
  have hnewlive : ∀ f, IsNew y0 f → liveOf y0 f.id = true := by
    intro f hn
    obtain ⟨_, f0, hf0, hid, hb0⟩ := hn
    rw [← hid]; exact (live_iff hK.ids hf0).mpr hb0
  have hlive : ∀ f ∈ y1.frames, liveOf y0 f.id = true → f ∈ (y1.live (liveOf y0)).frames :=
    fun f hf hl => List.mem_filter.mpr ⟨hf, hl⟩
  have hsub : ∀ f ∈ (y1.live (liveOf y0)).frames, f ∈ y1.frames := fun f hf => (List.mem_filter.mp hf).1
  have hlivenew : ∀ f ∈ (y1.live (liveOf y0)).frames, f.b ≠ none → IsNew y0 f := by
    intro f hf hb
    have hf' := List.mem_filter.mp hf
    rcases hold f hf'.1 with h | h
    · exact absurd ((live_iff hK.ids h).mp hf'.2) hb
    · exact h
  have hstarted_dead : ∀ f ∈ y0.frames, f.b ≠ none → liveOf y0 f.id = false := by
    intro f hf hb
    cases hl : liveOf y0 f.id with
    | false => rfl
    | true => exact absurd ((live_iff hK.ids hf).mp hl) hb
  have hB := base0_of (baselineId 0) y0.st hK.sorted hK.dur hX.mem hX.imms
  have hF : ∀ k, PhaseKey (startFor ops) y0 y1 k := by
    intro k
    rcases recovered_casesB hw hL1 hW1 hB hsp hsyn k with ⟨w, hwf, wb, wst, hns⟩ | ⟨ha, hno⟩
    · refine Or.inl ⟨w, hsub w hwf, hlivenew w hwf wb, wst, ?_⟩
      intro w' hw' hn' b' c' hb' hs' hdur e hee
      exact hns w' (hlive w' hw' (hnewlive w' hn')) b' c' hb' hs' hdur e hee
    · refine Or.inr ⟨ha, ?_⟩
      intro w' hw' hn' c' hs'
      exact hno w' (hlive w' hw' (hnewlive w' hn')) hn'.1 c' hs'
  have hwal : ∀ e ∈ y1.st.recovered.wal, e ∈ y1.st.wal ∧ e.seq ≤ y1.st.synced := by
    intro e hee
    rw [recovered_wal] at hee
    have := List.mem_filter.mp hee
    exact ⟨this.1, by simpa using this.2⟩
  have habs : ∀ k, y1.st.recovered.abs k = y1.st.crash.recover.abs k := fun k => abs_second_crash y1.st k
  have hsplitf : ∀ f ∈ y1.frames, f ∈ (y1.live (liveOf y0)).frames ∨ (f ∈ y0.frames ∧ liveOf y0 f.id = false) := by
    intro f hf
    by_cases hl : liveOf y0 f.id = true
    · exact Or.inl (hlive f hf hl)
    · have hl' : liveOf y0 f.id = false := by simpa using hl
      exact Or.inr ⟨hdead1 f hf hl', hl'⟩
  refine ⟨?_, ?_, ainv_recovered hA1, ?_⟩
  · exact judgePhase_of_facts hd hK hA1.ids hold hF every stale _
      (ack_bound_phase hA1 hold (fun i hi => List.mem_append_left _ hi) he)
  · refine ⟨?_, fun e hee => hW1.core.walLt e (hwal e hee).1, fun e hee => (hwal e hee).2, ?_, ?_, ?_, ?_, hA1.ids⟩
    · show (y1.st.recovered.wal.map (·.seq)).Pairwise (· < ·)
      rw [recovered_wal]
      exact List.Pairwise.sublist (List.Sublist.map _ List.filter_sublist) hW1.core.walSorted
    · intro k
      show y1.st.recovered.abs k = (match lastFor k y1.st.recovered.wal none with
        | some c => some c
        | none => lookLevels k y1.st.levels).join
      rw [habs, recovered_wal]
      exact abs_crash_recover y1.st k
    · intro f hf b hb
      show b < y1.n
      rcases hsplitf f hf with h | ⟨h, _⟩
      · exact ((hL1.frames f h).started b hb).1
      · have := hK.bn f h b hb; omega
    · intro f hf b e hb hee
      rcases hsplitf f hf with h | ⟨h, _⟩
      · obtain ⟨b', hb', hle⟩ := ((hL1.frames f h).ended e hee).2.2
        rw [hb] at hb'
        injection hb' with hb'
        omega
      · exact hK.ended f h b e hb hee
    · intro k v hv
      have hv' : y1.st.crash.recover.abs k = some v := by rw [← habs]; exact hv
      rcases hF k with ⟨w, hwm, wnew, wst, _⟩ | ⟨hb, _⟩
      · rw [hv'] at wst
        exact ⟨w, hwm, wnew.1, k, wst⟩
      · rw [hv'] at hb
        obtain ⟨f, hf, hfb, hst⟩ := hK.baseOld k v hb.symm
        exact ⟨f, hdead2 f hf (hstarted_dead f hf hfb), hfb, hst⟩
  · refine ⟨sinv_recovered hL1.sys.sinv, recovered_mem _, (recovered_simple _).1, ?_, ?_, ?_, ?_, ?_⟩
    · intro q hq
      exact hW1.core.pendLt q hq
    · intro e hee
      have := hW1.core.truncT e (hwal e hee).1
      omega
    · have := hW1.core.Tlt
      show 1 ≤ y1.st.nextSeq
      have h' : g.T < y1.st.nextSeq := this
      omega
    · intro f hf
      rcases hsplitf f hf with h | ⟨h, _⟩
      · exact hL1.idLt f h
      · exact hX.idLt f h
    · intro f hf
      rcases hsplitf f hf with h | ⟨h, _⟩
      · exact hL1.starts f h
      · exact hX.starts f h

/-- every phase of a sequence of crashes that starts from a system satisfying the start conditions -/
theorem judgePhases_laterB {cfg : Cfg} {p : Policy} {ops : List (Nat × OKind)} (nkeys : Nat) (every : Bool)
    (hw : cfg.wal = some p) (hd : DistinctPuts ops) (he : every = true → cfg.wal = some .every) :
    ∀ (ps : List (List Nat)) (y0 : Sys) (acc stale : List Nat) (i : Nat),
      KStart (startFor ops) y0 → AInv cfg (startFor ops) y0 acc → KX cfg (baselineId 0) (startFor ops) y0 →
      (∀ ys ∈ phaseStarts cfg y0 ps, InOrder cfg ys.1 ys.2 ∧ syncsInOrderB cfg ys.1 ys.2 = true ∧
        (∀ f ∈ ys.1.frames, f.id ∈ ys.2 → f.b = none)) →
      judgePhases every nkeys (readsOf nkeys y0.st) stale i
        (obsOfPhases ops nkeys ((wObsOf ops y0).map (·.id)) (runPhases cfg y0 ps)) = none := by
  intro ps
  induction ps with
  | nil => intro y0 acc stale i _ _ _ _; rfl
  | cons sched rest ih =>
    intro y0 acc stale i hK hA hX hph
    have h0 := hph (y0, sched) (by simp [phaseStarts])
    obtain ⟨hj, hK', hA', hX'⟩ := later_phase_judgeB nkeys sched every stale hw hd hK hA hX h0.1 h0.2.1 h0.2.2 he
    simp only [runPhases, obsOfPhases, judgePhases]
    rw [if_neg (by simp [obsOf, readsOf])]
    have hj' : judgePhase every (readsOf nkeys y0.st) stale
        (obsOf ops nkeys ((wObsOf ops y0).map (·.id)) (phaseOut cfg y0 sched)).ws
        (obsOf ops nkeys ((wObsOf ops y0).map (·.id)) (phaseOut cfg y0 sched)).syncDone
        (obsOf ops nkeys ((wObsOf ops y0).map (·.id)) (phaseOut cfg y0 sched)).synced
        (obsOf ops nkeys ((wObsOf ops y0).map (·.id)) (phaseOut cfg y0 sched)).r1
        (obsOf ops nkeys ((wObsOf ops y0).map (·.id)) (phaseOut cfg y0 sched)).r2
        (obsOf ops nkeys ((wObsOf ops y0).map (·.id)) (phaseOut cfg y0 sched)).r3 = none := hj
    rw [hj']
    simp only
    exact ih (phaseOut cfg y0 sched).next _ _ (i + 1) hK' hA' hX'
      (fun ys hys => hph ys (by simp only [phaseStarts]; exact List.mem_cons_of_mem _ hys))

/-- the first phase hands over a system satisfying the additional start conditions -/
theorem kx_first {cfg : Cfg} {p : Policy} {ops : List (Nat × OKind)} (oracle : List Bool) (sched : List Nat)
    (hw : cfg.wal = some p) (h2 : 2 ≤ cfg.maxLevels) (hd : DistinctPuts ops) (hid : ∀ o ∈ ops, o.1 < baselineId 0)
    (ho : InOrder cfg (sysOf cfg oracle ops) sched) :
    KX cfg (baselineId 0) (startFor ops) (phaseOut cfg (sysOf cfg oracle ops) sched).next := by
  obtain ⟨hL, g, hW⟩ := winv_run hw sched _ [] (linv_sysOf cfg oracle hd h2)
    ⟨{}, winv_init (sysOf_init cfg oracle ops) (startFor ops)⟩ ho
  have hids := run_ids cfg sched (sysOf cfg oracle ops)
  rw [next_eq]
  generalize (sysOf cfg oracle ops).run cfg sched = y1 at hL hW hids
  have hwal : ∀ e ∈ y1.st.recovered.wal, e ∈ y1.st.wal ∧ e.seq ≤ y1.st.synced := by
    intro e he
    rw [recovered_wal] at he
    have := List.mem_filter.mp he
    exact ⟨this.1, by simpa using this.2⟩
  refine ⟨sinv_recovered hL.sys.sinv, recovered_mem _, (recovered_simple _).1, ?_, ?_, ?_, ?_, fun f hf => hL.starts f hf⟩
  · intro q hq
    exact hW.core.pendLt q hq
  · intro e hee
    have := hW.core.truncT e (hwal e hee).1
    omega
  · have h' : g.T < y1.st.nextSeq := hW.core.Tlt
    show 1 ≤ y1.st.nextSeq
    omega
  · intro f hf
    have hm : f.id ∈ y1.frames.map (·.id) := List.mem_map_of_mem hf
    rw [hids, sysOf_ids] at hm
    obtain ⟨o, ho', hoe⟩ := List.mem_map.mp hm
    rw [← hoe]; exact hid o ho'

/-- **The full multi-crash statement.** -/
theorem multi_crash_spec_full_proved : multi_crash_spec_full := by
  intro cfg p nkeys ops oracle ps every hw h2 hd hid hph he
  cases ps with
  | nil => rfl
  | cons sched rest =>
    have h0 := hph (sysOf cfg oracle ops, sched) (by simp [phaseStarts])
    have hj := multi_crash_first_phase cfg p nkeys ops oracle sched every hw h2 hd h0.1 h0.2.1 he
    rw [← obsOf_nil_prev ops nkeys] at hj
    simp only [runPhases, obsOfPhases, judgePhases]
    rw [if_neg (by simp [obsOf, readsOf])]
    have hj' : judgePhase every (List.replicate nkeys none) [] (obsOf ops nkeys [] (phaseOut cfg (sysOf cfg oracle ops) sched)).ws
        (obsOf ops nkeys [] (phaseOut cfg (sysOf cfg oracle ops) sched)).syncDone
        (obsOf ops nkeys [] (phaseOut cfg (sysOf cfg oracle ops) sched)).synced
        (obsOf ops nkeys [] (phaseOut cfg (sysOf cfg oracle ops) sched)).r1
        (obsOf ops nkeys [] (phaseOut cfg (sysOf cfg oracle ops) sched)).r2
        (obsOf ops nkeys [] (phaseOut cfg (sysOf cfg oracle ops) sched)).r3 = none := hj
    rw [hj']
    simp only
    have hA : AInv cfg (startFor ops) (phaseOut cfg (sysOf cfg oracle ops) sched).next
        (syncDoneRun cfg (sysOf cfg oracle ops) [] sched).2 := by
      rw [next_eq]
      exact ainv_recovered (ainv_sysOf_run cfg ops oracle sched hd.1 h0.2.1)
    exact judgePhases_laterB nkeys every hw hd he rest (phaseOut cfg (sysOf cfg oracle ops) sched).next _ _ _
      (kstart_first oracle sched hw h2 hd h0.1) hA (kx_first oracle sched hw h2 hd hid h0.1)
      (fun ys hys => hph ys (by simp only [phaseStarts]; exact List.mem_cons_of_mem _ hys))

end HappyModel.C15
