import HappyProofs.C15.MultiDefs
import HappyProofs.C15.PhasesLight4
/-! From the invariants of a tree that started from a recovered state to the per-key crash facts of the phase. -/
namespace HappyModel.C15
open HappyModel.C14

theorem cls_base {B : Nat} {e : Ev} (h : B ≤ e.id) : 1 ≤ e.cls B ∧ (e.cls B = 1 ↔ e.id = B) := by
  unfold Ev.cls
  have : ¬ e.id < B := by omega
  rw [if_neg this]
  split
  · simp [*]
  · simp [*]

theorem firstOn_someR {R : Ev → Ev → Prop} {k : Key} {c : Cell} : ∀ {l : List Ev}, l.Pairwise R → firstOn k l = some c →
    ∃ ev ∈ l, ev.key = k ∧ ev.cell = c ∧ ∀ ev' ∈ l, ev'.key = k → ev' = ev ∨ R ev ev'
  | [], _, h => by cases h
  | e :: r, hs, h => by
    unfold firstOn at h
    have hs' := List.pairwise_cons.mp hs
    by_cases hk : e.key = k
    · rw [if_pos hk] at h
      injection h with h
      refine ⟨e, List.mem_cons_self .., hk, h, ?_⟩
      intro ev' hev' _
      rcases List.mem_cons.mp hev' with h1 | hev'
      · exact Or.inl h1
      · exact Or.inr (hs'.1 ev' hev')
    · rw [if_neg hk] at h
      obtain ⟨ev, hev, h1, h2, h3⟩ := firstOn_someR hs'.2 h
      refine ⟨ev, List.mem_cons_of_mem _ hev, h1, h2, ?_⟩
      intro ev' hev' hk'
      rcases List.mem_cons.mp hev' with h1 | hev'
      · rw [h1] at hk'; exact absurd hk' hk
      · exact h3 ev' hev' hk'

theorem firstOn_eq_none {k : Key} : ∀ {l : List Ev}, (∀ ev ∈ l, ev.key ≠ k) → firstOn k l = none
  | [], _ => rfl
  | e :: r, h => by
    unfold firstOn
    rw [if_neg (h e (List.mem_cons_self ..))]
    exact firstOn_eq_none (fun ev hev => h ev (List.mem_cons_of_mem _ hev))

theorem rb_asymm {B : Nat} {a b : Ev} (h1 : RBase B a b) (h2 : RBase B b a) : False := by
  unfold RBase at h1 h2
  omega

/-- the first base event on a key carries the baseline value -/
theorem base_val {B S0 : Nat} {W0 : List WalE} {abs0 : Key → Option Nat} {log0 : List Ev} (hB : Base0 B S0 W0 abs0 log0)
    {ev : Ev} (hev : ev ∈ log0) (hmax : ∀ ev' ∈ log0, ev'.key = ev.key → ev' = ev ∨ RBase B ev ev') :
    ev.cell = abs0 ev.key := by
  rw [hB.abs]
  cases hf : firstOn ev.key log0 with
  | none => exact absurd rfl (firstOn_none hf ev hev)
  | some c =>
    obtain ⟨ev1, h1, k1, c1, m1⟩ := firstOn_someR hB.sorted hf
    show ev.cell = c
    rcases m1 ev hev rfl with h | h
    · rw [← c1, h]
    · rcases hmax ev1 h1 k1 with h' | h'
      · rw [← c1, h']
      · exact (rb_asymm h h').elim

theorem wal_eq_of_seq {w : List WalE} (hs : (w.map (·.seq)).Pairwise (· < ·)) {a b : WalE} (ha : a ∈ w) (hb : b ∈ w)
    (h : a.seq = b.seq) : a = b :=
  eq_of_nodup_map (·.seq) (List.Pairwise.imp (fun h => Nat.ne_of_lt h) hs) a ha b hb h

section
variable {cfg : Cfg} {p : Policy} {B N0 : Nat} {W0 : List WalE} {start : Nat → Pc} {y : Sys} {log : List Ev} {g : Ghost}

theorem durable_casesB (hw : cfg.wal = some p) (hL : LInvB cfg B start y log) (hW : WInvB start N0 W0 y log g)
    {w' : Frame} (hw' : w' ∈ y.frames) {b' : Nat} (hb' : w'.b = some b') {k : Key} {c' : Cell}
    (hs' : start w'.id = .pStart k c') (hdur : w'.seq0 ≤ y.st.synced) :
    (∃ e' ∈ durableLog y.st, e'.key = k ∧ e'.seq = w'.seq0) ∨
    (∃ ev' ∈ g.glv, ev'.key = k ∧ b' ≤ ev'.n ∧ ev'.seq ≤ g.T ∧ ev'.seq = w'.seq0 ∧ ev'.id = w'.id) := by
  have hwn : cfg.wal ≠ none := by rw [hw]; simp
  have hF := hL.frames w' hw'
  have hcons := hF.cons
  rw [hs'] at hcons
  simp only [PcCons] at hcons
  have hlog : ∀ q, w'.pc.logging = some q → ∃ e' ∈ durableLog y.st, e'.key = k ∧ e'.seq = w'.seq0 := by
    intro q hq
    have hq0 := hF.logSeq q hq hwn
    obtain ⟨_, e, he, he1, he2⟩ := (hW.fw w' hw').logging q hq
    rw [hs'] at he2
    injection he2 with hk _
    refine ⟨e, List.mem_filter.mpr ⟨he, ?_⟩, hk.symm, by rw [he1, hq0]⟩
    simp only [decide_eq_true_eq]
    rw [he1, ← hq0]; exact hdur
  rcases hcons with hpc | ⟨q, hpc⟩ | ⟨q, hpc⟩ | happ
  · have := (hF.started b' hb').2
    rw [hpc] at this; cases this
  · exact Or.inl (hlog q (by rw [hpc]; rfl))
  · exact Or.inl (hlog q (by rw [hpc]; rfl))
  · obtain ⟨ev, hev, e1, e2, e3, ⟨b, hb, hbe⟩, _, e6⟩ := hF.hasEv happ k c' hs'
    rw [hb'] at hb
    injection hb with hb
    subst hb
    rcases hW.core.evDur ev hev with ⟨e, he, a1, a2, a3⟩ | ⟨a1, a2⟩
    · left
      refine ⟨e, List.mem_filter.mpr ⟨he, ?_⟩, by rw [a2, e2], by rw [a1, e6 hwn]⟩
      simp only [decide_eq_true_eq]
      rw [a1, e6 hwn]; exact hdur
    · exact Or.inr ⟨ev, a1, e2, hbe, a2, e6 hwn, e1⟩

/-- the frame of an event of this phase: applied, started before the event, ended (if at all) after it -/
theorem frame_of_eventB (hL : LInvB cfg B start y log) {ev : Ev} (hev : ev ∈ log) (hb : ev.id < B) :
    ∃ w ∈ y.frames, w.id = ev.id ∧ start w.id = .pStart ev.key ev.cell ∧ (∃ b, w.b = some b ∧ b ≤ ev.n) ∧
      ∀ e, w.e = some e → ev.n ≤ e := by
  obtain ⟨w, hw, e1, e2⟩ := hL.evFrame ev hev hb
  have hF := hL.frames w hw
  have happ : w.pc.applied = true := by
    cases h : w.pc.applied with
    | true => rfl
    | false => exact absurd e1.symm (hF.noEv h ev hev)
  obtain ⟨ev2, hev2, a1, _, _, a4, a5, _⟩ := hF.hasEv happ _ _ e2
  have : ev2 = ev := hL.evIds ev2 hev2 ev hev (by rw [a1, e1]) (by rw [a1, e1]; exact hb)
  subst this
  exact ⟨w, hw, e1, e2, a4, a5⟩

/-- what is read after `crash(); recover_from_crash()` at the end of a phase that started from a recovered state:
    the value of a write of this phase that no durable write of this phase to the key began after, or the
    baseline value and no write of this phase to the key is durable -/
theorem recovered_casesB {S0 : Nat} {abs0 : Key → Option Nat} {log0 : List Ev}
    (hw : cfg.wal = some p) (hL : LInvB cfg B start y log) (hW : WInvB start N0 W0 y log g)
    (hB : Base0 B S0 W0 abs0 log0) (hsplit : ∃ new, log = new ++ log0 ∧ ∀ e ∈ new, e.id < B)
    (hS : S0 ≤ y.st.synced) (k : Key) :
    (∃ w ∈ y.frames, w.b ≠ none ∧ start w.id = .pStart k (y.st.crash.recover.abs k) ∧
      ∀ w' ∈ y.frames, ∀ b' c', w'.b = some b' → start w'.id = .pStart k c' → w'.seq0 ≤ y.st.synced →
        ∀ e, w.e = some e → ¬ e < b') ∨
    (y.st.crash.recover.abs k = abs0 k ∧
      ∀ w' ∈ y.frames, w'.b ≠ none → ∀ c', start w'.id = .pStart k c' → ¬ w'.seq0 ≤ y.st.synced) := by
  obtain ⟨new, hnew, hnewB⟩ := hsplit
  have hDs : ((durableLog y.st).map (·.seq)).Pairwise (· < ·) :=
    List.Pairwise.sublist (List.Sublist.map _ List.filter_sublist) hW.core.walSorted
  have hglv : g.glv.Pairwise (RBase B) := by
    have h1 := hL.sortedN
    rw [hW.core.logEq] at h1
    exact List.Pairwise.sublist (List.sublist_append_right _ _) h1
  have hglvlog : ∀ ev ∈ g.glv, ev ∈ log := by
    intro ev hev
    rw [hW.core.logEq]
    exact List.mem_append_right _ hev
  have hlog0 : ∀ ev ∈ log0, ev ∈ log := fun ev hev => by rw [hnew]; exact List.mem_append_right _ hev
  have hbase0 : ∀ ev ∈ log, B ≤ ev.id → ev ∈ log0 := by
    intro ev hev hb
    rw [hnew] at hev
    rcases List.mem_append.mp hev with h | h
    · have := hnewB ev h; omega
    · exact h
  have hdurable : ∀ e ∈ y.st.wal, e.seq ≤ y.st.synced → e ∈ durableLog y.st := by
    intro e he hd
    exact List.mem_filter.mpr ⟨he, by simpa using hd⟩
  have habs : y.st.crash.recover.abs k = (match lastFor k (durableLog y.st) none with
      | some c => some c
      | none => lookLevels k y.st.levels).join := by
    unfold St.abs; rw [crash_recover_read]; rfl
  cases hlast : lastFor k (durableLog y.st) none with
  | some c =>
    rw [hlast] at habs
    rcases lastFor_last hDs hlast with ⟨h0, _⟩ | ⟨e, he, ek, ec, emax⟩
    · cases h0
    · have hew : e ∈ y.st.wal := (List.mem_filter.mp he).1
      by_cases hge : N0 ≤ e.seq
      · left
        obtain ⟨w, hwf, wb, wseq, wst⟩ := hW.walFrame e hew hge
        rw [ek, ec] at wst
        refine ⟨w, hwf, wb, by rw [habs]; exact wst, ?_⟩
        intro w' hw' b' c' hb' hs' hdur e0 he0 hlt
        obtain ⟨bw, hbw, hle⟩ := ((hL.frames w hwf).ended e0 he0).2.2
        have hord := hW.seqOrd w hwf w' hw' bw b' hbw hb' (by omega) ⟨k, c, wst⟩ ⟨k, c', hs'⟩
        rcases durable_casesB hw hL hW hw' hb' hs' hdur with ⟨e', he', a1, a2⟩ | ⟨ev', hev', a1, a2, a3, a4, _⟩
        · have := emax e' he' a1; omega
        · have := hW.core.truncT e hew; omega
      · right
        have hlt : e.seq < N0 := by omega
        have he0 : e ∈ W0 := hW.walOld e hew hlt
        refine ⟨?_, ?_⟩
        · -- the value is the baseline value
          obtain ⟨eve, heve, eid, ekey, eseq⟩ := hB.memAll e he0
          cases hf : firstOn k log0 with
          | none => exact absurd (by rw [ekey, ek]) (firstOn_none hf eve heve)
          | some c1 =>
            obtain ⟨ev1, h1, k1, c1e, m1⟩ := firstOn_someR hB.sorted hf
            have hb1 := hB.base ev1 h1
            have hcls1 : ev1.id = B ∧ e.seq ≤ ev1.seq := by
              rcases m1 eve heve (by rw [ekey, ek]) with h | h
              · rw [← h]; exact ⟨eid, by rw [eseq]; exact Nat.le_refl _⟩
              · have c1' := cls_base hb1
                have c2 := cls_base (hB.base eve heve)
                have c2' := c2.2.mpr eid
                unfold RBase at h
                have hid : ev1.id = B := c1'.2.mp (by omega)
                have n1 := hB.memN ev1 h1 hid
                have n2 := hB.memN eve heve eid
                refine ⟨hid, ?_⟩
                omega
            rw [habs, hB.abs, hf, ← c1e]
            rcases hW.core.evDur ev1 (hlog0 ev1 h1) with ⟨e1, he1, a1, a2, a3⟩ | ⟨_, a2⟩
            · have hd1 : e1 ∈ durableLog y.st := hdurable e1 he1 (by rw [a1]; exact Nat.le_trans (hB.seqLe ev1 h1) hS)
              have := emax e1 hd1 (by rw [a2, k1])
              have heq : e1 = e := wal_eq_of_seq hW.core.walSorted he1 hew (by omega)
              rw [← a3, heq, ec]
            · have := hW.core.truncT e hew; omega
        · intro w' hw' hb' c' hs' hdur
          obtain ⟨b', hb''⟩ := Option.ne_none_iff_exists'.mp hb'
          have hsg := hW.seqGe w' hw' hb'
          rcases durable_casesB hw hL hW hw' hb'' hs' hdur with ⟨e', he', a1, a2⟩ | ⟨ev', hev', a1, a2, a3, a4, _⟩
          · have := emax e' he' a1; omega
          · have := hW.core.truncT e hew; omega
  | none =>
    rw [hlast] at habs
    simp only at habs
    rw [hW.core.lvG k] at habs
    have hnoD := (lastFor_none hlast).2
    -- no base event on `k` has its entry in the surviving log
    have hbaseglv : ∀ ev' ∈ log0, ev'.key = k → ev' ∈ g.glv := by
      intro ev' hev' hk'
      rcases hW.core.evDur ev' (hlog0 ev' hev') with ⟨e1, he1, a1, a2, _⟩ | ⟨a1, _⟩
      · exact absurd (by rw [a2, hk']) (hnoD e1 (hdurable e1 he1 (by rw [a1]; exact Nat.le_trans (hB.seqLe ev' hev') hS)))
      · exact a1
    cases hfirst : firstOn k g.glv with
    | some c =>
      rw [hfirst] at habs
      obtain ⟨ev, hev, ek, ec, emax⟩ := firstOn_someR hglv hfirst
      by_cases hevb : ev.id < B
      · left
        obtain ⟨w, hwf, wid, wst, ⟨bw, hbw, hbe⟩, wend⟩ := frame_of_eventB hL (hglvlog ev hev) hevb
        rw [ek, ec] at wst
        refine ⟨w, hwf, by rw [hbw]; simp, by rw [habs]; exact wst, ?_⟩
        intro w' hw' b' c' hb' hs' hdur e0 he0 hlt
        have := wend e0 he0
        rcases durable_casesB hw hL hW hw' hb' hs' hdur with ⟨e', he', a1, a2⟩ | ⟨ev', hev', a1, a2, a3, a4, a5⟩
        · exact hnoD e' he' a1
        · rcases emax ev' hev' a1 with h | h
          · rw [h] at a2; omega
          · have c0 : ev.cls B = 0 := cls_zero.mpr hevb
            have c0' : ev'.cls B = 0 := cls_zero.mpr (by rw [a5]; exact hL.idLt w' hw')
            unfold RBase at h
            omega
      · right
        have hevB : B ≤ ev.id := by omega
        have hev0 : ev ∈ log0 := hbase0 ev (hglvlog ev hev) hevB
        refine ⟨?_, ?_⟩
        · rw [habs, ← ec, ← ek]
          show ev.cell = abs0 ev.key
          apply base_val hB hev0
          intro ev' hev' hk'
          exact emax ev' (hbaseglv ev' hev' (by rw [hk', ek])) (by rw [hk', ek])
        · intro w' hw' hb' c' hs' hdur
          obtain ⟨b', hb''⟩ := Option.ne_none_iff_exists'.mp hb'
          rcases durable_casesB hw hL hW hw' hb'' hs' hdur with ⟨e', he', a1, a2⟩ | ⟨ev', hev', a1, a2, a3, a4, a5⟩
          · exact hnoD e' he' a1
          · have hid' : ev'.id < B := by rw [a5]; exact hL.idLt w' hw'
            rcases emax ev' hev' a1 with h | h
            · rw [h] at hid'; omega
            · have c0 := (cls_base hevB).1
              have c0' : ev'.cls B = 0 := cls_zero.mpr hid'
              unfold RBase at h
              omega
    | none =>
      right
      rw [hfirst] at habs
      refine ⟨?_, ?_⟩
      · rw [habs, hB.abs, firstOn_eq_none]
        intro ev' hev' hk'
        exact firstOn_none hfirst ev' (hbaseglv ev' hev' hk') hk'
      · intro w hwf hb c hs hdur
        cases hbw : w.b with
        | none => exact hb hbw
        | some b' =>
          rcases durable_casesB hw hL hW hwf hbw hs hdur with ⟨e', he', a1, a2⟩ | ⟨ev', hev', a1, a2, a3, a4, _⟩
          · exact hnoD e' he' a1
          · exact firstOn_none hfirst ev' hev' a1

end

end HappyModel.C15
