import HappyProofs.C20.Stream
import HappyModel.C20.Merkle
/-! Merkle tree: structure lemmas (build, key ranges, lookups). -/
namespace HappyModel.C20

/-- keys strictly increasing (what `sorted(data.items())` of a dict gives) -/
def SortedKeys (l : List (Nat × Nat)) : Prop := l.Pairwise (fun p q => p.1 < q.1)

namespace MTree

/-- all subtrees, the tree itself included -/
def subs : MTree → List MTree
  | leaf k v => [leaf k v]
  | node l r => node l r :: (subs l ++ subs r)

theorem self_mem_subs (t : MTree) : t ∈ subs t := by cases t <;> simp [subs]

theorem subs_left (l r : MTree) (s : MTree) (h : s ∈ subs l) : s ∈ subs (node l r) := by
  simp [subs, h]
theorem subs_right (l r : MTree) (s : MTree) (h : s ∈ subs r) : s ∈ subs (node l r) := by
  simp [subs, h]

theorem items_ne_nil (t : MTree) : t.items ≠ [] := by
  induction t with
  | leaf k v => simp [items]
  | node l r ihl _ => simp [items, ihl]

end MTree

/-- "the node hash is injective on the values compared": on the subtrees of the two trees -/
def HashInjOn (hl hc : Nat → Nat → Nat) (a b : MTree) : Prop :=
  ∀ s ∈ a.subs, ∀ t ∈ b.subs, s.hash hl hc = t.hash hl hc → s = t

theorem HashInjOn.left {hl hc : Nat → Nat → Nat} {al ar bl br : MTree}
    (h : HashInjOn hl hc (.node al ar) (.node bl br)) : HashInjOn hl hc al bl :=
  fun s hs t ht => h s (MTree.subs_left _ _ _ hs) t (MTree.subs_left _ _ _ ht)

theorem HashInjOn.right {hl hc : Nat → Nat → Nat} {al ar bl br : MTree}
    (h : HashInjOn hl hc (.node al ar) (.node bl br)) : HashInjOn hl hc ar br :=
  fun s hs t ht => h s (MTree.subs_right _ _ _ hs) t (MTree.subs_right _ _ _ ht)

/-- `_build_tree` keeps exactly the items it was given, in order -/
theorem items_buildF (f : Nat) (l : List (Nat × Nat)) (hne : l ≠ []) (hf : l.length ≤ f) :
    (buildF f l).items = l := by
  induction f generalizing l with
  | zero => cases l with
    | nil => exact absurd rfl hne
    | cons a l => simp at hf
  | succ f ih =>
    match l, hne, hf with
    | [(k, v)], _, _ => simp [buildF, MTree.items]
    | a :: b :: l', _, hf =>
      simp only [buildF, MTree.items]
      generalize hL : a :: b :: l' = L at hf ⊢
      have hlen : L.length = l'.length + 2 := by rw [← hL]; simp
      rw [ih, ih, List.take_append_drop]
      · intro h
        have := congrArg List.length h
        simp only [List.length_drop, List.length_nil] at this; omega
      · simp only [List.length_drop]; omega
      · intro h
        have := congrArg List.length h
        simp only [List.length_take, List.length_nil] at this; omega
      · simp only [List.length_take]; omega

theorem items_build (l : List (Nat × Nat)) (t : MTree) (h : build l = some t) : t.items = l := by
  unfold build at h
  split at h
  · simp at h
  · next hne =>
    simp only [Option.some.injEq] at h
    rw [← h]
    exact items_buildF _ l (by intro he; simp [he] at hne) (Nat.le_refl _)

theorem build_eq_none (l : List (Nat × Nat)) : build l = none ↔ l = [] := by
  unfold build; split
  · next h => simp [List.isEmpty_iff.mp h]
  · next h => simp; intro he; simp [he] at h

/-! lookups -/

theorem lookupKV_append (l r : List (Nat × Nat)) (k : Nat) :
    lookupKV (l ++ r) k = (lookupKV l k).or (lookupKV r k) := by
  unfold lookupKV
  rw [List.find?_append]
  cases List.find? (fun x => x.1 == k) l <;> simp

theorem key_mem_of_lookup (l : List (Nat × Nat)) (k : Nat) (h : lookupKV l k ≠ none) :
    ∃ p ∈ l, p.1 = k := by
  unfold lookupKV at h
  cases hf : l.find? (fun x => x.1 == k) with
  | none => simp [hf] at h
  | some p => exact ⟨p, List.mem_of_find?_eq_some hf, by simpa using List.find?_some hf⟩

/-- in a tree whose items are sorted, `lo`/`hi` are keys of the tree and bound every key -/
theorem range_bounds (t : MTree) (hs : SortedKeys t.items) :
    (∃ p ∈ t.items, p.1 = t.lo) ∧ (∃ p ∈ t.items, p.1 = t.hi) ∧
      ∀ p ∈ t.items, t.lo ≤ p.1 ∧ p.1 ≤ t.hi := by
  induction t with
  | leaf k v => simp [MTree.items, MTree.lo, MTree.hi]
  | node l r ihl ihr =>
    simp only [MTree.items, SortedKeys, List.pairwise_append] at hs
    obtain ⟨hsl, hsr, hlr⟩ := hs
    obtain ⟨⟨pl, hpl, hple⟩, _, hbl⟩ := ihl hsl
    obtain ⟨_, ⟨pr, hpr, hpre⟩, hbr⟩ := ihr hsr
    refine ⟨⟨pl, by simp [MTree.items, hpl], by simpa [MTree.lo] using hple⟩,
            ⟨pr, by simp [MTree.items, hpr], by simpa [MTree.hi] using hpre⟩, ?_⟩
    intro p hp
    simp only [MTree.items, List.mem_append] at hp
    simp only [MTree.lo, MTree.hi]
    rcases hp with hp | hp
    · have := hlr p hp pr hpr
      exact ⟨(hbl p hp).1, by omega⟩
    · have := hlr pl hpl p hp
      exact ⟨by omega, (hbr p hp).2⟩

end HappyModel.C20
