import HappyProofs.C20.Stream
import HappyModel.C20.Reservoir
/-! Reservoir: size = min(k, n), every sampled element occurs in the stream, for every script. -/
namespace HappyModel.C20

/-- invariant of a sampler that has seen the arrivals `seen` -/
structure ResInv (s : Res) (seen : List Nat) : Prop where
  n_eq : s.n = seen.length
  size : s.items.length = min s.k s.n
  sub : ∀ x ∈ s.items, x ∈ seen

theorem ResInv.empty (k : Nat) : ResInv (Res.empty k) [] :=
  ⟨rfl, by simp [Res.empty], by simp [Res.empty]⟩

@[simp] theorem Res.addOne_k (s : Res) (x : Nat) (sc : List Nat) : (s.addOne x sc).1.k = s.k := by
  unfold Res.addOne; split
  · rfl
  · simp only; split <;> rfl

theorem ResInv.addOne (s : Res) (seen : List Nat) (x : Nat) (sc : List Nat) (inv : ResInv s seen) :
    ResInv (s.addOne x sc).1 (seen ++ [x]) := by
  obtain ⟨h1, h2, h3⟩ := inv
  unfold Res.addOne
  split
  · next hlt =>
    refine ⟨by simp [h1], ?_, ?_⟩
    · simp only [List.length_append, List.length_cons, List.length_nil]; omega
    · intro y hy
      simp only [List.mem_append, List.mem_cons, List.not_mem_nil, or_false] at hy ⊢
      rcases hy with hy | hy
      · exact Or.inl (h3 y hy)
      · exact Or.inr hy
  · next hge =>
    simp only
    split
    · next hj =>
      refine ⟨by simp [h1], ?_, ?_⟩
      · simp only [List.length_set]; omega
      · intro y hy
        simp only [List.mem_append, List.mem_cons, List.not_mem_nil, or_false]
        rcases List.mem_or_eq_of_mem_set hy with hy | hy
        · exact Or.inl (h3 y hy)
        · exact Or.inr hy
    · refine ⟨by simp [h1], ?_, ?_⟩
      · simp only; omega
      · intro y hy
        simp only [List.mem_append]
        exact Or.inl (h3 y hy)

theorem ResInv.run (s : Res) (seen xs sc : List Nat) (inv : ResInv s seen) :
    ResInv (s.run xs sc).1 (seen ++ xs) := by
  induction xs generalizing s seen sc with
  | nil => simpa [Res.run] using inv
  | cons x xs ih =>
    simp only [Res.run]
    have := ih _ (seen ++ [x]) (s.addOne x sc).2 (inv.addOne s seen x sc)
    simpa using this

theorem Res.run_k (s : Res) (xs sc : List Nat) : (s.run xs sc).1.k = s.k := by
  induction xs generalizing s sc with
  | nil => rfl
  | cons x xs ih => simp only [Res.run]; rw [ih]; simp

/-! merge -/

theorem mergePick_mem (a b : Res) (sc : List Nat) (x : Nat) (h : (mergePick a b sc).1 = some x) :
    x ∈ a.items ∨ x ∈ b.items := by
  unfold mergePick at h
  simp only at h
  split at h
  · split at h
    · simp at h
    · exact Or.inl (List.mem_of_getElem? h)
  · split at h
    · simp at h
    · exact Or.inr (List.mem_of_getElem? h)

/-- a pick yields an element unless the chosen side is empty; with `random() ∈ [0,1)` an empty
    side (which has seen nothing) is never chosen -/
theorem mergePick_some (a b : Res) (sc : List Nat)
    (ha : a.items = [] → a.n = 0) (hb : b.items = [] → b.n = 0) (hn : 0 < a.n + b.n) :
    ((mergePick a b sc).1).isSome = true := by
  unfold mergePick
  simp only
  split
  · next hlt =>
    split
    · next he =>
      have : a.n = 0 := ha (by simpa using he)
      simp [this] at hlt
    · next he =>
      have hpos : 0 < a.items.length := by
        cases hi : a.items with
        | nil => simp [hi] at he
        | cons y ys => simp
      simp only [Option.isSome_iff_ne_none, ne_eq, List.getElem?_eq_none_iff, Nat.not_le]
      exact Nat.mod_lt _ hpos
  · next hge =>
    split
    · next he =>
      have hb0 : b.n = 0 := hb (by simpa using he)
      have : (nextDraw sc).1 % 64 < 64 := Nat.mod_lt _ (by omega)
      rw [hb0, Nat.add_zero] at hge hn
      exact absurd (Nat.mul_lt_mul_of_pos_right this hn) hge
    · next he =>
      have hpos : 0 < b.items.length := by
        cases hi : b.items with
        | nil => simp [hi] at he
        | cons y ys => simp
      simp only [Option.isSome_iff_ne_none, ne_eq, List.getElem?_eq_none_iff, Nat.not_le]
      exact Nat.mod_lt _ hpos

theorem mergeLoop_mem (a b : Res) (i : Nat) (sc : List Nat) (x : Nat)
    (h : x ∈ (mergeLoop a b i sc).1) : x ∈ a.items ∨ x ∈ b.items := by
  induction i generalizing sc with
  | zero => simp [mergeLoop] at h
  | succ i ih =>
    simp only [mergeLoop] at h
    split at h
    · next y hy =>
      rcases List.mem_cons.mp h with rfl | h
      · exact mergePick_mem a b sc _ hy
      · exact ih _ h
    · exact ih _ h

theorem mergeLoop_length (a b : Res) (i : Nat) (sc : List Nat)
    (ha : a.items = [] → a.n = 0) (hb : b.items = [] → b.n = 0) (hn : 0 < a.n + b.n) :
    (mergeLoop a b i sc).1.length = i := by
  induction i generalizing sc with
  | zero => simp [mergeLoop]
  | succ i ih =>
    simp only [mergeLoop]
    have hs := mergePick_some a b sc ha hb hn
    split
    · simp [ih]
    · next hnone => simp [hnone] at hs

end HappyModel.C20
