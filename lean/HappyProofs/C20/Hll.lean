import HappyProofs.C20.Stream
/-! HyperLogLog: registers after a merge = registers of the concatenated stream. -/
namespace HappyModel.C20

/-- largest run length the stream sends to register `i` (0 if none) -/
def regMax (h : Nat → Nat) (p : Nat) : Stream → Nat → Nat
  | [], _ => 0
  | (x, c) :: rest, i =>
    max (if c ≠ 0 ∧ i = hllIdx p (h x) then hllRun p (h x) else 0) (regMax h p rest i)

theorem regMax_append (h : Nat → Nat) (p : Nat) (xs ys : Stream) (i : Nat) :
    regMax h p (xs ++ ys) i = max (regMax h p xs i) (regMax h p ys i) := by
  induction xs with
  | nil => simp [regMax]
  | cons q qs ih => obtain ⟨y, c⟩ := q; simp only [List.cons_append, regMax, ih]; omega

@[simp] theorem HLL.add_p (h : Nat → Nat) (s : HLL) (x c : Nat) : (s.add h x c).p = s.p := by
  unfold HLL.add; split <;> rfl

theorem HLL.reg_add (h : Nat → Nat) (s : HLL) (x c i : Nat) :
    (s.add h x c).reg i
      = max (s.reg i) (if c ≠ 0 ∧ i = hllIdx s.p (h x) then hllRun s.p (h x) else 0) := by
  unfold HLL.add HLL.reg
  split
  · next hc => simp [hc]
  · next hc =>
    simp only [Vec.get_maxAt]
    by_cases hi : i = hllIdx s.p (h x) <;> simp [hi, hc]

theorem HLL.reg_fold (h : Nat → Nat) (xs : Stream) (s : HLL) (i : Nat) :
    (xs.foldl (fun s q => s.add h q.1 q.2) s).reg i = max (s.reg i) (regMax h s.p xs i) := by
  induction xs generalizing s with
  | nil => simp [regMax]
  | cons q qs ih =>
    obtain ⟨y, c⟩ := q
    simp only [List.foldl_cons, regMax]
    rw [ih, HLL.reg_add, HLL.add_p]
    omega

theorem HLL.fold_n (h : Nat → Nat) (xs : Stream) (s : HLL) :
    (xs.foldl (fun s q => s.add h q.1 q.2) s).n = s.n + total xs := by
  induction xs generalizing s with
  | nil => simp [total]
  | cons q qs ih =>
    obtain ⟨y, c⟩ := q
    simp only [List.foldl_cons, total]
    rw [ih]
    unfold HLL.add
    split
    · next hc => simp [hc]
    · simp; omega

theorem HLL.reg_ofStream (h : Nat → Nat) (p : Nat) (xs : Stream) (i : Nat) :
    (HLL.ofStream h p xs).reg i = regMax h p xs i := by
  unfold HLL.ofStream
  rw [HLL.reg_fold]
  simp [HLL.empty, HLL.reg]

theorem HLL.reg_merge (a b : HLL) (i : Nat) : (a.merge b).reg i = max (a.reg i) (b.reg i) := by
  simp [HLL.merge, HLL.reg, Vec.get_vmax]

end HappyModel.C20
