import HappyProofs.C20.MerkleBase
/-! Merkle diff: empty ⇔ equal, and the ranges cover every differing key. -/
namespace HappyModel.C20

/-- an empty node diff forces equal hashes (no injectivity needed) -/
theorem hash_eq_of_diffNodes_nil (hl hc : Nat → Nat → Nat) (a b : MTree)
    (h : diffNodes hl hc a b = []) : a.hash hl hc = b.hash hl hc := by
  induction a generalizing b with
  | leaf k v =>
    unfold diffNodes at h
    split at h
    · next he => exact he
    · simp at h
  | node al ar ihl ihr =>
    cases b with
    | leaf k v =>
      unfold diffNodes at h
      split at h
      · next he => exact he
      · simp at h
    | node bl br =>
      unfold diffNodes at h
      split at h
      · next he => exact he
      · simp only [List.append_eq_nil_iff] at h
        simp only [MTree.hash]
        rw [ihl bl h.1, ihr br h.2]

theorem covered_append (r1 r2 : List (Nat × Nat)) (k : Nat) :
    covered (r1 ++ r2) k = (covered r1 k || covered r2 k) := by
  simp [covered, List.any_append]

/-- local covering claim for two aligned subtrees -/
theorem diffNodes_covers (hl hc : Nat → Nat → Nat) (a b : MTree)
    (sa : SortedKeys a.items) (sb : SortedKeys b.items) (inj : HashInjOn hl hc a b) (k : Nat)
    (hk : lookupKV a.items k ≠ lookupKV b.items k) : covered (diffNodes hl hc a b) k = true := by
  have hne : a.hash hl hc ≠ b.hash hl hc := by
    intro he
    have := inj a (MTree.self_mem_subs a) b (MTree.self_mem_subs b) he
    rw [this] at hk; exact hk rfl
  -- the "some side is a leaf" answer: one range spanning both nodes
  have span : covered [(min a.lo b.lo, max a.hi b.hi)] k = true := by
    have : lookupKV a.items k ≠ none ∨ lookupKV b.items k ≠ none := by
      by_cases h1 : lookupKV a.items k = none
      · right; intro h2; rw [h1, h2] at hk; exact hk rfl
      · left; exact h1
    simp only [covered, List.any_cons, List.any_nil, Bool.or_false, Bool.and_eq_true, decide_eq_true_eq]
    rcases this with h | h
    · obtain ⟨p, hp, rfl⟩ := key_mem_of_lookup _ _ h
      have := (range_bounds a sa).2.2 p hp
      omega
    · obtain ⟨p, hp, rfl⟩ := key_mem_of_lookup _ _ h
      have := (range_bounds b sb).2.2 p hp
      omega
  induction a generalizing b with
  | leaf ka va =>
    unfold diffNodes
    simp only [hne, ↓reduceIte]; exact span
  | node al ar ihl ihr =>
    cases b with
    | leaf kb vb =>
      unfold diffNodes
      simp only [hne, ↓reduceIte]; exact span
    | node bl br =>
      unfold diffNodes
      simp only [hne, ↓reduceIte]
      simp only [MTree.items, SortedKeys, List.pairwise_append] at sa sb
      rw [covered_append, Bool.or_eq_true]
      simp only [MTree.items, lookupKV_append] at hk
      by_cases hL : lookupKV al.items k = lookupKV bl.items k
      · have hR : lookupKV ar.items k ≠ lookupKV br.items k := by
          intro hR; rw [hL, hR] at hk; exact hk rfl
        right
        have hne' : ar.hash hl hc ≠ br.hash hl hc := by
          intro he
          have := inj.right ar (MTree.self_mem_subs _) br (MTree.self_mem_subs _) he
          rw [this] at hR; exact hR rfl
        exact ihr br sa.2.1 sb.2.1 inj.right hR hne' (span_of ar br sa.2.1 sb.2.1 hR)
      · left
        have hne' : al.hash hl hc ≠ bl.hash hl hc := by
          intro he
          have := inj.left al (MTree.self_mem_subs _) bl (MTree.self_mem_subs _) he
          rw [this] at hL; exact hL rfl
        exact ihl bl sa.1 sb.1 inj.left hL hne' (span_of al bl sa.1 sb.1 hL)
where
  span_of (a b : MTree) (sa : SortedKeys a.items) (sb : SortedKeys b.items)
      {k : Nat} (hk : lookupKV a.items k ≠ lookupKV b.items k) :
      covered [(min a.lo b.lo, max a.hi b.hi)] k = true := by
    have : lookupKV a.items k ≠ none ∨ lookupKV b.items k ≠ none := by
      by_cases h1 : lookupKV a.items k = none
      · right; intro h2; rw [h1, h2] at hk; exact hk rfl
      · left; exact h1
    simp only [covered, List.any_cons, List.any_nil, Bool.or_false, Bool.and_eq_true, decide_eq_true_eq]
    rcases this with h | h
    · obtain ⟨p, hp, rfl⟩ := key_mem_of_lookup _ _ h
      have := (range_bounds a sa).2.2 p hp
      omega
    · obtain ⟨p, hp, rfl⟩ := key_mem_of_lookup _ _ h
      have := (range_bounds b sb).2.2 p hp
      omega

/-- hypothesis of the Merkle theorems for the two (possibly empty) trees -/
def HashInjOnOpt (hl hc : Nat → Nat → Nat) : Option MTree → Option MTree → Prop
  | some a, some b => HashInjOn hl hc a b
  | _, _ => True

/-- `diff` is empty exactly when the two maps are equal -/
theorem diff_nil_iff (hl hc : Nat → Nat → Nat) (la lb : List (Nat × Nat))
    (inj : HashInjOnOpt hl hc (build la) (build lb)) :
    diffTrees hl hc (build la) (build lb) = [] ↔ la = lb := by
  cases ha : build la with
  | none =>
    have hla := (build_eq_none la).mp ha
    cases hb : build lb with
    | none => simp [diffTrees, hla, (build_eq_none lb).mp hb]
    | some b =>
      have : lb ≠ [] := by intro h; rw [(build_eq_none lb).mpr h] at hb; simp at hb
      simp only [diffTrees, List.cons_ne_nil, false_iff, hla]
      exact fun h => this h.symm
  | some a =>
    have hia := items_build la a ha
    cases hb : build lb with
    | none =>
      have hlb := (build_eq_none lb).mp hb
      have : la ≠ [] := by intro h; rw [(build_eq_none la).mpr h] at ha; simp at ha
      simp only [diffTrees, List.cons_ne_nil, false_iff, hlb]
      exact this
    | some b =>
      have hib := items_build lb b hb
      rw [ha, hb] at inj
      simp only [diffTrees]
      constructor
      · intro h
        have he : a.hash hl hc = b.hash hl hc := by
          split at h
          · next he => exact he
          · exact hash_eq_of_diffNodes_nil hl hc a b h
        have := inj a (MTree.self_mem_subs a) b (MTree.self_mem_subs b) he
        rw [← hia, ← hib, this]
      · intro h
        have : a = b := by
          have h1 : build la = build lb := by rw [h]
          rw [ha, hb] at h1; exact Option.some.inj h1
        simp [this]

/-- every key whose value differs (or that exists on one side only) lies in a reported range -/
theorem diff_covers (hl hc : Nat → Nat → Nat) (la lb : List (Nat × Nat))
    (sa : SortedKeys la) (sb : SortedKeys lb)
    (inj : HashInjOnOpt hl hc (build la) (build lb)) (k : Nat)
    (hk : lookupKV la k ≠ lookupKV lb k) :
    covered (diffTrees hl hc (build la) (build lb)) k = true := by
  cases ha : build la with
  | none =>
    have hla := (build_eq_none la).mp ha
    cases hb : build lb with
    | none => rw [hla, (build_eq_none lb).mp hb] at hk; exact absurd rfl hk
    | some b =>
      have hib := items_build lb b hb
      subst hla
      have : lookupKV lb k ≠ none := by intro h; rw [h] at hk; exact hk rfl
      rw [← hib] at this sb
      obtain ⟨p, hp, rfl⟩ := key_mem_of_lookup _ _ this
      have := (range_bounds b sb).2.2 p hp
      simp [diffTrees, covered, this]
  | some a =>
    have hia := items_build la a ha
    cases hb : build lb with
    | none =>
      have hlb := (build_eq_none lb).mp hb
      subst hlb
      have : lookupKV la k ≠ none := by intro h; rw [h] at hk; exact hk rfl
      rw [← hia] at this sa
      obtain ⟨p, hp, rfl⟩ := key_mem_of_lookup _ _ this
      have := (range_bounds a sa).2.2 p hp
      simp [diffTrees, covered, this]
    | some b =>
      have hib := items_build lb b hb
      rw [ha, hb] at inj
      rw [← hia, ← hib] at hk
      rw [← hia] at sa
      rw [← hib] at sb
      simp only [diffTrees]
      have hne : a.hash hl hc ≠ b.hash hl hc := by
        intro he
        have := inj a (MTree.self_mem_subs a) b (MTree.self_mem_subs b) he
        rw [this] at hk; exact hk rfl
      simp only [hne, ↓reduceIte]
      exact diffNodes_covers hl hc a b sa sb inj k hk

end HappyModel.C20
