import HappyProofs.C20.TopKStep
/-! Space-Saving: the invariant after an arbitrary stream, and what it gives for the queries. -/
namespace HappyModel.C20

theorem TKInv.congr {s : TopK} {t t' : Nat → Nat} {N : Nat} (inv : TKInv s t N)
    (h : ∀ y, t' y = t y) : TKInv s t' N where
  nodup := inv.nodup
  len := inv.len
  lower := by intro c hc; rw [h]; exact inv.lower c hc
  upper := by intro c hc; rw [h]; exact inv.upper c hc
  sum := inv.sum
  cnt := inv.cnt
  untracked := by intro x hx; rw [h]; exact inv.untracked x hx

theorem TKInv.fold (xs pre : Stream) (s : TopK) (hk : 0 < s.k)
    (inv : TKInv s (trueCount pre) (total pre)) :
    TKInv (xs.foldl (fun s p => s.add p.1 p.2) s) (trueCount (pre ++ xs)) (total (pre ++ xs)) := by
  induction xs generalizing s pre with
  | nil => simpa using inv
  | cons p ps ih =>
    obtain ⟨x, c⟩ := p
    simp only [List.foldl_cons]
    have hpre : pre ++ (x, c) :: ps = (pre ++ [(x, c)]) ++ ps := by simp
    rw [hpre]
    apply ih
    · simpa using hk
    · by_cases hc : c = 0
      · subst hc
        have hs : s.add x 0 = s := by simp [TopK.add]
        rw [hs]
        have ht : total (pre ++ [(x, 0)]) = total pre := by simp [total_append, total]
        rw [ht]
        exact inv.congr (fun y => by simp [trueCount_append, trueCount])
      · have ht : total (pre ++ [(x, c)]) = total pre + c := by simp [total_append, total]
        rw [ht]
        apply TKInv.step s (trueCount pre) _ (total pre) x c hk hc _ inv
        intro y
        simp only [trueCount_append, trueCount, Nat.add_zero]
        by_cases hy : y = x
        · subst hy; simp
        · have : ¬ x = y := fun e => hy e.symm
          simp [hy, this]

theorem TKInv.ofStream (k : Nat) (hk : 0 < k) (xs : Stream) :
    TKInv (TopK.ofStream k xs) (trueCount xs) (total xs) := by
  have := TKInv.fold xs [] (TopK.empty k) hk (by simpa [trueCount, total] using TKInv.init k)
  simpa [TopK.ofStream] using this

theorem TopK.fold_k (xs : Stream) (s : TopK) : (xs.foldl (fun s p => s.add p.1 p.2) s).k = s.k := by
  induction xs generalizing s with
  | nil => rfl
  | cons p ps ih => simp only [List.foldl_cons]; rw [ih]; simp

/-- observation the driver prints for probe `x` -/
def TopK.obs (s : TopK) (x : Nat) : TObs := ⟨x, (s.query x).1, (s.query x).2.1, (s.query x).2.2⟩

theorem find_isTracked (cs : List Ctr) (x : Nat) :
    (cs.find? (fun c => c.item == x) = none ↔ isTracked cs x = false) := by
  rw [List.find?_eq_none, isTracked_false_iff]; simp

theorem TKInv.boundOk {s : TopK} {xs : Stream} (inv : TKInv s (trueCount xs) (total xs)) (x : Nat) :
    topkBoundOk xs (s.obs x) = true := by
  unfold TopK.obs TopK.query TopK.find topkBoundOk
  cases hf : s.cs.find? (fun c => c.item == x) with
  | some c =>
    have hc := List.mem_of_find?_eq_some hf
    have hx : c.item = x := by simpa using List.find?_some hf
    have h1 := inv.lower c hc
    have h2 := inv.upper c hc
    rw [hx] at h1 h2
    simp [h1, h2]
  | none =>
    have hu := inv.untracked x ((find_isTracked _ _).mp hf)
    simp only [Nat.zero_le, decide_true, Bool.false_eq_true, ↓reduceIte, BEq.rfl, Bool.true_and,
      decide_eq_true_eq]
    split at hu
    · omega
    · exact hu

theorem TKInv.heavyOk {s : TopK} {xs : Stream} (inv : TKInv s (trueCount xs) (total xs))
    (hk : 0 < s.k) (x : Nat) : topkHeavyOk xs s.k (s.obs x) = true := by
  unfold topkHeavyOk TopK.obs TopK.query TopK.find
  cases hf : s.cs.find? (fun c => c.item == x) with
  | some c => simp
  | none =>
    have hu := inv.untracked x ((find_isTracked _ _).mp hf)
    simp only [Bool.or_false, Bool.not_eq_eq_eq_not, Bool.not_true, decide_eq_false_iff_not, Nat.not_lt]
    split at hu
    · rw [hu]; exact Nat.zero_le _
    · next hlen =>
      have hl : s.cs.length = s.k := by have := inv.len; omega
      have h1 := minCount_mul_le s.cs
      rw [hl, inv.sum] at h1
      exact Nat.le_trans hu ((Nat.le_div_iff_mul_le hk).mpr h1)

theorem sumList_perm {a b : List Nat} (h : a.Perm b) : sumList a = sumList b := by
  induction h with
  | nil => rfl
  | cons x _ ih => simp [sumList, ih]
  | swap x y l => simp only [sumList]; omega
  | trans _ _ ih1 ih2 => rw [ih1, ih2]

theorem TKInv.sumOk {s : TopK} {xs : Stream} (inv : TKInv s (trueCount xs) (total xs)) :
    topkSumOk xs (s.top.map (·.count)) s.n = true := by
  unfold topkSumOk TopK.top
  have hp : (s.cs.mergeSort (fun a b => decide (a.count ≥ b.count))).Perm s.cs := List.mergeSort_perm _ _
  have := sumList_perm (hp.map (·.count))
  rw [this]
  have hs := inv.sum
  unfold sumCounts at hs
  simp [hs, inv.cnt]

end HappyModel.C20
