import HappyProofs.C20.MerkleBase
/-! Sorted association lists are determined by their lookups (ties the Spec's pointwise reading of
"the two maps are equal" to equality of the sorted item lists). -/
namespace HappyModel.C20

theorem lookupKV_cons (k' v' : Nat) (l : List (Nat × Nat)) (k : Nat) :
    lookupKV ((k', v') :: l) k = if k' = k then some v' else lookupKV l k := by
  unfold lookupKV
  by_cases h : k' = k <;> simp [List.find?_cons, h]

theorem lookupKV_none_of_ne (l : List (Nat × Nat)) (k : Nat) (h : ∀ p ∈ l, p.1 ≠ k) :
    lookupKV l k = none := by
  unfold lookupKV
  rw [Option.map_eq_none_iff, List.find?_eq_none]
  intro p hp; simpa using h p hp

theorem sorted_ext (la lb : List (Nat × Nat)) (sa : SortedKeys la) (sb : SortedKeys lb)
    (h : ∀ k, lookupKV la k = lookupKV lb k) : la = lb := by
  induction la generalizing lb with
  | nil =>
    cases lb with
    | nil => rfl
    | cons q l2 =>
      obtain ⟨k2, v2⟩ := q
      have := h k2
      simp [lookupKV] at this
  | cons p l1 ih =>
    obtain ⟨k1, v1⟩ := p
    cases lb with
    | nil =>
      have := h k1
      simp [lookupKV] at this
    | cons q l2 =>
      obtain ⟨k2, v2⟩ := q
      simp only [SortedKeys, List.pairwise_cons] at sa sb
      have h1 := h k1
      have h2 := h k2
      simp only [lookupKV_cons, ↓reduceIte] at h1 h2
      have hk : k1 = k2 := by
        by_cases hk : k1 = k2
        · exact hk
        · have hk' : ¬ k2 = k1 := fun e => hk e.symm
          simp only [hk, hk', ↓reduceIte] at h1 h2
          obtain ⟨p1, hp1, he1⟩ := key_mem_of_lookup l2 k1 (by rw [← h1]; simp)
          obtain ⟨p2, hp2, he2⟩ := key_mem_of_lookup l1 k2 (by rw [h2]; simp)
          have := sb.1 p1 hp1
          have := sa.1 p2 hp2
          omega
      subst hk
      simp only [↓reduceIte, Option.some.injEq] at h1
      subst h1
      congr 1
      apply ih l2 sa.2 sb.2
      intro k
      by_cases hkk : k1 = k
      · subst hkk
        rw [lookupKV_none_of_ne l1 k1 (fun p hp => by have := sa.1 p hp; omega),
            lookupKV_none_of_ne l2 k1 (fun p hp => by have := sb.1 p hp; omega)]
      · have := h k
        simpa [lookupKV_cons, hkk] using this

/-- the Spec's pointwise test of map equality, on sorted maps, is equality of the item lists -/
theorem keys_all_iff (la lb : List (Nat × Nat)) (sa : SortedKeys la) (sb : SortedKeys lb) :
    ((la.map (·.1) ++ lb.map (·.1)).all fun k => lookupKV la k == lookupKV lb k) = true ↔ la = lb := by
  constructor
  · intro h
    apply sorted_ext la lb sa sb
    intro k
    rw [List.all_eq_true] at h
    by_cases hk : k ∈ la.map (·.1) ++ lb.map (·.1)
    · simpa using h k hk
    · simp only [List.mem_append, List.mem_map, not_or, not_exists, not_and] at hk
      rw [lookupKV_none_of_ne la k (fun p hp => hk.1 p hp), lookupKV_none_of_ne lb k (fun p hp => hk.2 p hp)]
  · rintro rfl; simp

end HappyModel.C20
