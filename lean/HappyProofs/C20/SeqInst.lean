import HappyProofs.C20.Seq
import HappyProofs.C20.Bloom
import HappyProofs.C20.Cms
import HappyProofs.C20.Hll
/-!
The three mergeable sketches are lawful sketch algebras (`Lawful`, `Seq.lean`) for their
observational equivalences, so `seqRun_refines` applies to them.
-/
namespace HappyModel.C20

/-! ## Count-Min -/

/-- same cells, same item count, same dimensions -/
def CMS.Eqv (a b : CMS) : Prop :=
  (∀ r c, a.cell r c = b.cell r c) ∧ a.n = b.n ∧ a.w = b.w ∧ a.d = b.d ∧ a.rows.length = b.rows.length

/-- registers that may be merged: same hash family and dimensions (`merge` checks width, depth, seed) -/
def cmsSame (h : Nat → Nat → Nat → Nat) (w d : Nat → Nat) (t s : Nat) : Prop :=
  h t = h s ∧ w t = w s ∧ d t = d s

theorem cmsAlg_ofStream (h : Nat → Nat → Nat → Nat) (w d : Nat → Nat) (r : Nat) (xs : Stream) :
    (cmsAlg h w d).ofStream r xs = CMS.ofStream (h r) (w r) (d r) xs := rfl

theorem length_mergeRows (a b : List Vec) : (mergeRows a b).length = max a.length b.length := by
  induction a generalizing b with
  | nil => simp [mergeRows]
  | cons x xs ih =>
    cases b with
    | nil => simp [mergeRows]
    | cons y ys => simp [mergeRows, ih]

theorem CMS.fold_len (h : Nat → Nat → Nat) (xs : Stream) (s : CMS) :
    (xs.foldl (fun s p => s.add h p.1 p.2) s).rows.length = s.rows.length := by
  induction xs generalizing s with
  | nil => rfl
  | cons p ps ih => simp only [List.foldl_cons]; rw [ih, CMS.add_len]

theorem CMS.ofStream_facts (h : Nat → Nat → Nat) (w d : Nat) (xs : Stream) :
    (CMS.ofStream h w d xs).n = total xs ∧ (CMS.ofStream h w d xs).w = w ∧
      (CMS.ofStream h w d xs).d = d ∧ (CMS.ofStream h w d xs).rows.length = d := by
  unfold CMS.ofStream
  refine ⟨?_, ?_, ?_, ?_⟩
  · rw [CMS.fold_n]; simp [CMS.empty]
  · rw [(CMS.fold_dims h xs _).2]; rfl
  · rw [(CMS.fold_dims h xs _).1]; rfl
  · rw [CMS.fold_len]; simp [CMS.empty]

theorem CMS.add_n (h : Nat → Nat → Nat) (s : CMS) (x c : Nat) : (s.add h x c).n = s.n + c := by
  unfold CMS.add; split
  · next hc => simp [hc]
  · rfl

theorem cms_lawful (h : Nat → Nat → Nat → Nat) (w d : Nat → Nat) :
    Lawful (cmsAlg h w d) CMS.Eqv (cmsSame h w d) where
  refl s := ⟨fun _ _ => rfl, rfl, rfl, rfl, rfl⟩
  add r s s' x c := by
    rintro ⟨hc, hn, hw, hd, hl⟩
    refine ⟨?_, ?_, ?_, ?_, ?_⟩
    · intro row col
      show (CMS.add (h r) s x c).cell row col = (CMS.add (h r) s' x c).cell row col
      rw [CMS.cell_add, CMS.cell_add, hc, hl]
    · show (CMS.add (h r) s x c).n = (CMS.add (h r) s' x c).n
      rw [CMS.add_n, CMS.add_n, hn]
    · show (CMS.add (h r) s x c).w = (CMS.add (h r) s' x c).w
      simp [hw]
    · show (CMS.add (h r) s x c).d = (CMS.add (h r) s' x c).d
      simp [hd]
    · show (CMS.add (h r) s x c).rows.length = (CMS.add (h r) s' x c).rows.length
      rw [CMS.add_len, CMS.add_len, hl]
  merge t s xs ys a b := by
    rintro ⟨hh, hw, hd⟩ ⟨ac, an, aw, ad, al⟩ ⟨bc, bn, bw, bd, bl⟩
    rw [cmsAlg_ofStream] at ac an aw ad al ⊢
    rw [cmsAlg_ofStream, ← hh, ← hw, ← hd] at bc bn bw bd bl
    have fx := CMS.ofStream_facts (h t) (w t) (d t) xs
    have fy := CMS.ofStream_facts (h t) (w t) (d t) ys
    have fxy := CMS.ofStream_facts (h t) (w t) (d t) (xs ++ ys)
    refine ⟨?_, ?_, ?_, ?_, ?_⟩
    · intro row col
      show (CMS.merge a b).cell row col = _
      have := CMS.cell_merge_ofStream (h t) (w t) (d t) xs ys row col
      rw [CMS.cell_merge] at this
      rw [CMS.cell_merge, ac, bc, this]
    · show (CMS.merge a b).n = _
      simp only [CMS.merge]; rw [an, bn, fx.1, fy.1, fxy.1, total_append]
    · show (CMS.merge a b).w = _
      simp only [CMS.merge]; rw [aw, fx.2.1, fxy.2.1]
    · show (CMS.merge a b).d = _
      simp only [CMS.merge]; rw [ad, fx.2.2.1, fxy.2.2.1]
    · show (CMS.merge a b).rows.length = _
      simp only [CMS.merge]; rw [length_mergeRows, al, bl, fx.2.2.2, fy.2.2.2, fxy.2.2.2]; omega
  clear r s := ⟨fun _ _ => rfl, rfl, rfl, rfl, rfl⟩

/-! ## Bloom -/

def Bloom.Eqv (a b : Bloom) : Prop := (∀ p, a.bit p = b.bit p) ∧ a.n = b.n ∧ a.m = b.m ∧ a.k = b.k

def bloomSame (h : Nat → Nat → Nat → Nat) (m k : Nat → Nat) (t s : Nat) : Prop :=
  h t = h s ∧ m t = m s ∧ k t = k s

theorem bloomAlg_ofStream (h : Nat → Nat → Nat → Nat) (m k : Nat → Nat) (r : Nat) (xs : Stream) :
    (bloomAlg h m k).ofStream r xs = Bloom.ofStream (h r) (m r) (k r) xs := rfl

theorem Bloom.ofStream_facts (h : Nat → Nat → Nat) (m k : Nat) (xs : Stream) :
    (Bloom.ofStream h m k xs).n = total xs ∧ (Bloom.ofStream h m k xs).m = m ∧
      (Bloom.ofStream h m k xs).k = k := by
  unfold Bloom.ofStream
  refine ⟨?_, ?_, ?_⟩
  · rw [Bloom.fold_n]; simp [Bloom.empty]
  · rw [(Bloom.fold_k h xs _).2]; rfl
  · rw [(Bloom.fold_k h xs _).1]; rfl

theorem Bloom.bit_add (h : Nat → Nat → Nat) (b : Bloom) (x c p : Nat) :
    (b.add h x c).bit p = (if c = 0 then b.bit p else ((positions h b.k x).contains p || b.bit p)) := by
  unfold Bloom.add Bloom.bit
  split
  · rfl
  · simp [List.contains_eq_mem, List.mem_append]

theorem Bloom.add_n (h : Nat → Nat → Nat) (b : Bloom) (x c : Nat) : (b.add h x c).n = b.n + c := by
  unfold Bloom.add; split
  · next hc => simp [hc]
  · rfl

theorem Bloom.bit_merge (a b : Bloom) (p : Nat) : (a.merge b).bit p = (a.bit p || b.bit p) := by
  simp [Bloom.merge, Bloom.bit, List.contains_eq_mem, List.mem_append]

theorem bloom_lawful (h : Nat → Nat → Nat → Nat) (m k : Nat → Nat) :
    Lawful (bloomAlg h m k) Bloom.Eqv (bloomSame h m k) where
  refl s := ⟨fun _ => rfl, rfl, rfl, rfl⟩
  add r s s' x c := by
    rintro ⟨hb, hn, hm, hk⟩
    refine ⟨?_, ?_, ?_, ?_⟩
    · intro p
      show (Bloom.add (h r) s x c).bit p = (Bloom.add (h r) s' x c).bit p
      rw [Bloom.bit_add, Bloom.bit_add, hb, hk]
    · show (Bloom.add (h r) s x c).n = (Bloom.add (h r) s' x c).n
      rw [Bloom.add_n, Bloom.add_n, hn]
    · show (Bloom.add (h r) s x c).m = (Bloom.add (h r) s' x c).m
      simp [hm]
    · show (Bloom.add (h r) s x c).k = (Bloom.add (h r) s' x c).k
      simp [hk]
  merge t s xs ys a b := by
    rintro ⟨hh, hm, hk⟩ ⟨ab, an, am, ak⟩ ⟨bb, bn, _, _⟩
    rw [bloomAlg_ofStream] at ab an am ak ⊢
    rw [bloomAlg_ofStream, ← hh, ← hm, ← hk] at bb bn
    have fx := Bloom.ofStream_facts (h t) (m t) (k t) xs
    have fy := Bloom.ofStream_facts (h t) (m t) (k t) ys
    have fxy := Bloom.ofStream_facts (h t) (m t) (k t) (xs ++ ys)
    refine ⟨?_, ?_, ?_, ?_⟩
    · intro p
      show (Bloom.merge a b).bit p = _
      have := Bloom.bit_merge_ofStream (h t) (m t) (k t) xs ys p
      rw [Bloom.bit_merge] at this
      rw [Bloom.bit_merge, ab, bb, this]
    · show (Bloom.merge a b).n = _
      simp only [Bloom.merge]; rw [an, bn, fx.1, fy.1, fxy.1, total_append]
    · show (Bloom.merge a b).m = _
      simp only [Bloom.merge]; rw [am, fx.2.1, fxy.2.1]
    · show (Bloom.merge a b).k = _
      simp only [Bloom.merge]; rw [ak, fx.2.2, fxy.2.2]
  clear r s := ⟨fun _ => rfl, rfl, rfl, rfl⟩

/-! ## HyperLogLog -/

def HLL.Eqv (a b : HLL) : Prop := (∀ i, a.reg i = b.reg i) ∧ a.n = b.n ∧ a.p = b.p

def hllSame (h : Nat → Nat → Nat) (p : Nat → Nat) (t s : Nat) : Prop := h t = h s ∧ p t = p s

theorem hllAlg_ofStream (h : Nat → Nat → Nat) (p : Nat → Nat) (r : Nat) (xs : Stream) :
    (hllAlg h p).ofStream r xs = HLL.ofStream (h r) (p r) xs := rfl

theorem HLL.fold_p (h : Nat → Nat) (xs : Stream) (s : HLL) :
    (xs.foldl (fun s q => s.add h q.1 q.2) s).p = s.p := by
  induction xs generalizing s with
  | nil => rfl
  | cons q qs ih => simp only [List.foldl_cons]; rw [ih, HLL.add_p]

theorem HLL.ofStream_facts (h : Nat → Nat) (p : Nat) (xs : Stream) :
    (HLL.ofStream h p xs).n = total xs ∧ (HLL.ofStream h p xs).p = p := by
  unfold HLL.ofStream
  refine ⟨?_, ?_⟩
  · rw [HLL.fold_n]; simp [HLL.empty]
  · rw [HLL.fold_p]; rfl

theorem HLL.add_n (h : Nat → Nat) (s : HLL) (x c : Nat) : (s.add h x c).n = s.n + c := by
  unfold HLL.add; split
  · next hc => simp [hc]
  · rfl

theorem hll_lawful (h : Nat → Nat → Nat) (p : Nat → Nat) :
    Lawful (hllAlg h p) HLL.Eqv (hllSame h p) where
  refl s := ⟨fun _ => rfl, rfl, rfl⟩
  add r s s' x c := by
    rintro ⟨hr, hn, hp⟩
    refine ⟨?_, ?_, ?_⟩
    · intro i
      show (HLL.add (h r) s x c).reg i = (HLL.add (h r) s' x c).reg i
      rw [HLL.reg_add, HLL.reg_add, hr, hp]
    · show (HLL.add (h r) s x c).n = (HLL.add (h r) s' x c).n
      rw [HLL.add_n, HLL.add_n, hn]
    · show (HLL.add (h r) s x c).p = (HLL.add (h r) s' x c).p
      simp [hp]
  merge t s xs ys a b := by
    rintro ⟨hh, hp⟩ ⟨ar, an, ap⟩ ⟨br, bn, _⟩
    rw [hllAlg_ofStream] at ar an ap ⊢
    rw [hllAlg_ofStream, ← hh, ← hp] at br bn
    have fx := HLL.ofStream_facts (h t) (p t) xs
    have fy := HLL.ofStream_facts (h t) (p t) ys
    have fxy := HLL.ofStream_facts (h t) (p t) (xs ++ ys)
    refine ⟨?_, ?_, ?_⟩
    · intro i
      show (HLL.merge a b).reg i = _
      rw [HLL.reg_merge, ar, br, HLL.reg_ofStream, HLL.reg_ofStream, HLL.reg_ofStream, regMax_append]
    · show (HLL.merge a b).n = _
      simp only [HLL.merge]; rw [an, bn, fx.1, fy.1, fxy.1, total_append]
    · show (HLL.merge a b).p = _
      simp only [HLL.merge]; rw [ap, fx.2, fxy.2]
  clear r s := ⟨fun _ => rfl, rfl, rfl⟩

end HappyModel.C20
