import HappyProofs.C20.Stream
/-! Count-Min sketch: never underestimates; merge = sketch of the concatenated stream. -/
namespace HappyModel.C20

/-- total weight the stream adds to cell (r, col) -/
def hits (h : Nat → Nat → Nat) : Stream → Nat → Nat → Nat
  | [], _, _ => 0
  | (x, c) :: rest, r, col => (if col = h x r then c else 0) + hits h rest r col

theorem hits_append (h : Nat → Nat → Nat) (xs ys : Stream) (r col : Nat) :
    hits h (xs ++ ys) r col = hits h xs r col + hits h ys r col := by
  induction xs with
  | nil => simp [hits]
  | cons p ps ih => obtain ⟨y, c⟩ := p; simp [hits, ih]; omega

theorem trueCount_le_hits (h : Nat → Nat → Nat) (xs : Stream) (x r : Nat) :
    trueCount xs x ≤ hits h xs r (h x r) := by
  induction xs with
  | nil => simp [trueCount]
  | cons p ps ih =>
    obtain ⟨y, c⟩ := p
    simp only [trueCount, hits]
    by_cases hy : y = x
    · subst hy; simp; omega
    · simp [hy]; omega

theorem length_addRows (h : Nat → Nat → Nat) (x c r0 : Nat) (rows : List Vec) :
    (addRows h x c r0 rows).length = rows.length := by
  induction rows generalizing r0 with
  | nil => simp [addRows]
  | cons v vs ih => simp [addRows, ih]

theorem get_addRows (h : Nat → Nat → Nat) (x c r0 : Nat) (rows : List Vec) (i col : Nat) :
    Vec.get ((addRows h x c r0 rows).getD i []) col
      = Vec.get (rows.getD i []) col + (if i < rows.length ∧ col = h x (r0 + i) then c else 0) := by
  induction rows generalizing r0 i with
  | nil => simp [addRows]
  | cons v vs ih =>
    cases i with
    | zero =>
      simp only [addRows, List.getD_cons_zero, Vec.get_addAt, List.length_cons, Nat.add_zero]
      by_cases hc : col = h x r0 <;> simp [hc]
    | succ i =>
      simp only [addRows, List.getD_cons_succ, List.length_cons]
      rw [ih (r0 + 1) i]
      have : r0 + 1 + i = r0 + (i + 1) := by omega
      rw [this]
      by_cases hi : i < vs.length <;> simp [hi]

theorem get_mergeRows (a b : List Vec) (i col : Nat) :
    Vec.get ((mergeRows a b).getD i []) col = Vec.get (a.getD i []) col + Vec.get (b.getD i []) col := by
  induction a generalizing b i with
  | nil => simp [mergeRows]
  | cons x xs ih =>
    cases b with
    | nil => simp [mergeRows]
    | cons y ys =>
      cases i with
      | zero => simp [mergeRows, Vec.get_vadd]
      | succ i => simp only [mergeRows, List.getD_cons_succ]; exact ih ys i

@[simp] theorem CMS.add_d (h : Nat → Nat → Nat) (s : CMS) (x c : Nat) : (s.add h x c).d = s.d := by
  unfold CMS.add; split <;> rfl
@[simp] theorem CMS.add_w (h : Nat → Nat → Nat) (s : CMS) (x c : Nat) : (s.add h x c).w = s.w := by
  unfold CMS.add; split <;> rfl
theorem CMS.add_len (h : Nat → Nat → Nat) (s : CMS) (x c : Nat) :
    (s.add h x c).rows.length = s.rows.length := by
  unfold CMS.add; split
  · rfl
  · simp [length_addRows]

theorem CMS.cell_add (h : Nat → Nat → Nat) (s : CMS) (x c r col : Nat) :
    (s.add h x c).cell r col
      = s.cell r col + (if r < s.rows.length ∧ col = h x r then c else 0) := by
  unfold CMS.add CMS.cell
  split
  · next hc => simp [hc]
  · simp only [get_addRows, Nat.zero_add]

/-- every cell after feeding a stream: start value plus the weight that hashes there -/
theorem CMS.cell_fold (h : Nat → Nat → Nat) (xs : Stream) (s : CMS) (r col : Nat) :
    (xs.foldl (fun s p => s.add h p.1 p.2) s).cell r col
      = s.cell r col + (if r < s.rows.length then hits h xs r col else 0) := by
  induction xs generalizing s with
  | nil => simp [hits]
  | cons p ps ih =>
    obtain ⟨y, c⟩ := p
    simp only [List.foldl_cons, hits]
    rw [ih, CMS.cell_add, CMS.add_len]
    by_cases hr : r < s.rows.length <;> by_cases hc : col = h y r <;> simp [hr, hc] <;> omega

theorem CMS.fold_dims (h : Nat → Nat → Nat) (xs : Stream) (s : CMS) :
    (xs.foldl (fun s p => s.add h p.1 p.2) s).d = s.d ∧ (xs.foldl (fun s p => s.add h p.1 p.2) s).w = s.w := by
  induction xs generalizing s with
  | nil => simp
  | cons p ps ih => simp only [List.foldl_cons]; rw [(ih _).1, (ih _).2]; simp

theorem CMS.fold_n (h : Nat → Nat → Nat) (xs : Stream) (s : CMS) :
    (xs.foldl (fun s q => s.add h q.1 q.2) s).n = s.n + total xs := by
  induction xs generalizing s with
  | nil => simp [total]
  | cons q qs ih =>
    obtain ⟨y, c⟩ := q
    simp only [List.foldl_cons, total]
    rw [ih]
    unfold CMS.add
    split
    · next hc => simp [hc]
    · simp; omega

theorem CMS.cell_ofStream (h : Nat → Nat → Nat) (w d : Nat) (xs : Stream) (r col : Nat) :
    (CMS.ofStream h w d xs).cell r col = if r < d then hits h xs r col else 0 := by
  unfold CMS.ofStream
  rw [CMS.cell_fold]
  have h0 : (CMS.empty w d).cell r col = 0 := by
    simp only [CMS.empty, CMS.cell, List.getD_eq_getElem?_getD, List.getElem?_replicate]
    split <;> simp
  rw [h0]
  simp [CMS.empty]

theorem le_minList (l : List Nat) (k : Nat) (hne : l ≠ []) (h : ∀ a ∈ l, k ≤ a) : k ≤ minList l := by
  induction l with
  | nil => exact absurd rfl hne
  | cons a l ih =>
    cases l with
    | nil => simpa [minList] using h a (by simp)
    | cons b l =>
      simp only [minList]
      exact Nat.le_min.mpr ⟨h a (by simp), ih (by simp) (fun x hx => h x (List.mem_cons_of_mem _ hx))⟩

theorem CMS.estimate_ge (h : Nat → Nat → Nat) (w d : Nat) (hd : 0 < d) (xs : Stream) (x : Nat) :
    trueCount xs x ≤ (CMS.ofStream h w d xs).estimate h x := by
  unfold CMS.estimate
  have hdd : (CMS.ofStream h w d xs).d = d := by
    unfold CMS.ofStream; rw [(CMS.fold_dims h xs _).1]; rfl
  rw [hdd]
  apply le_minList
  · cases d with
    | zero => omega
    | succ d => simp [List.range_succ]
  · intro a ha
    simp only [List.mem_map, List.mem_range] at ha
    obtain ⟨r, hr, rfl⟩ := ha
    rw [CMS.cell_ofStream]
    simp only [hr, ↓reduceIte]
    exact trueCount_le_hits h xs x r

theorem CMS.cell_merge (a b : CMS) (r col : Nat) :
    (a.merge b).cell r col = a.cell r col + b.cell r col := by
  simp only [CMS.merge, CMS.cell]; exact get_mergeRows _ _ _ _

theorem CMS.cell_merge_ofStream (h : Nat → Nat → Nat) (w d : Nat) (xs ys : Stream) (r col : Nat) :
    ((CMS.ofStream h w d xs).merge (CMS.ofStream h w d ys)).cell r col
      = (CMS.ofStream h w d (xs ++ ys)).cell r col := by
  rw [CMS.cell_merge]
  simp only [CMS.cell_ofStream, hits_append]
  split <;> rfl

end HappyModel.C20
