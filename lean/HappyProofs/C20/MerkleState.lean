import HappyModel.C20.MerkleState
import HappyModel.C20.Spec
import HappyProofs.C20.MerkleDiff
import HappyProofs.C20.MerkleExt
/-!
The stateful `MerkleTree` (`HappyModel/C20/MerkleState.lean`): after any sequence of `update` /
`remove` calls the stored tree is the tree of the present contents, and the contents are the logical
map (what the calls say was stored).  With that the diff laws hold after every operation sequence.
-/
namespace HappyModel.C20

/-! ### `mapPut` / `mapDel` keep the association list sorted with distinct keys -/

theorem mapPut_keys (m : List (Nat × Nat)) (k v : Nat) (p : Nat × Nat) (hp : p ∈ mapPut m k v) :
    p.1 = k ∨ p ∈ m := by
  induction m with
  | nil => simp [mapPut] at hp; exact Or.inl (by rw [hp])
  | cons q rest ih =>
    obtain ⟨k', v'⟩ := q
    unfold mapPut at hp
    split at hp
    · rcases List.mem_cons.mp hp with h | h
      · exact Or.inl (by rw [h])
      · exact Or.inr h
    · split at hp
      · rcases List.mem_cons.mp hp with h | h
        · exact Or.inl (by rw [h])
        · exact Or.inr (List.mem_cons_of_mem _ h)
      · rcases List.mem_cons.mp hp with h | h
        · exact Or.inr (by rw [h]; exact List.mem_cons_self)
        · rcases ih h with h | h
          · exact Or.inl h
          · exact Or.inr (List.mem_cons_of_mem _ h)

theorem mapPut_sorted (m : List (Nat × Nat)) (k v : Nat) (hs : SortedKeys m) : SortedKeys (mapPut m k v) := by
  induction m with
  | nil => simp [mapPut, SortedKeys]
  | cons q rest ih =>
    obtain ⟨k', v'⟩ := q
    unfold SortedKeys at hs ih ⊢
    have hh := List.pairwise_cons.mp hs
    unfold mapPut
    split
    · next h1 =>
      refine List.pairwise_cons.mpr ⟨?_, hs⟩
      intro p hp
      rcases List.mem_cons.mp hp with h | h
      · rw [h]; exact h1
      · have := hh.1 p h; simp only at this ⊢; omega
    · next h1 =>
      split
      · next h2 =>
        refine List.pairwise_cons.mpr ⟨fun p hp => ?_, hh.2⟩
        have := hh.1 p hp; simp only at this ⊢; omega
      · next h2 =>
        refine List.pairwise_cons.mpr ⟨?_, ih hh.2⟩
        intro p hp
        rcases mapPut_keys rest k v p hp with h | h
        · simp only; omega
        · exact hh.1 p h

theorem mapDel_sorted (m : List (Nat × Nat)) (k : Nat) (hs : SortedKeys m) : SortedKeys (mapDel m k) := by
  unfold SortedKeys mapDel at *
  exact hs.sublist List.filter_sublist

theorem mapDel_absent (m : List (Nat × Nat)) (k : Nat) (h : m.any (fun p => p.1 == k) = false) :
    mapDel m k = m := by
  unfold mapDel
  rw [List.filter_eq_self]
  intro p hp
  have := List.any_eq_false.mp h p hp
  simp only [bne_iff_ne, ne_eq]
  intro e; apply this; simp [e]

/-! ### the invariant: sorted contents, stored tree = tree of the contents -/

structure MT.Inv (t : MT) : Prop where
  sorted : SortedKeys t.data
  fresh : t.root = build t.data

theorem foldPut_sorted (m acc : List (Nat × Nat)) (h : SortedKeys acc) :
    SortedKeys (m.foldl (fun acc p => mapPut acc p.1 p.2) acc) := by
  induction m generalizing acc with
  | nil => exact h
  | cons p rest ih => exact ih _ (mapPut_sorted acc p.1 p.2 h)

theorem MT.ofList_inv (m : List (Nat × Nat)) : (MT.ofList m).Inv :=
  ⟨foldPut_sorted m [] (by simp [SortedKeys]), rfl⟩

theorem MT.step_inv (t : MT) (o : MOp) (h : t.Inv) : (t.step o).Inv := by
  cases o with
  | upd k v => exact ⟨mapPut_sorted _ _ _ h.sorted, rfl⟩
  | del k =>
    simp only [MT.step, MT.remove]
    split
    · exact ⟨mapDel_sorted _ _ h.sorted, rfl⟩
    · exact h

theorem MT.run_inv (t : MT) (ops : List MOp) (h : t.Inv) : (t.run ops).Inv := by
  induction ops generalizing t with
  | nil => exact h
  | cons o os ih => exact ih _ (MT.step_inv t o h)

/-- the logical map (`mlogical`): what the calls say is stored -/
def mlogical (d : List (Nat × Nat)) : List MOp → List (Nat × Nat)
  | [] => d
  | .upd k v :: os => mlogical (mapPut d k v) os
  | .del k :: os => mlogical (mapDel d k) os

theorem MT.step_data (t : MT) (o : MOp) : (t.step o).data = mlogical t.data [o] := by
  cases o with
  | upd k v => rfl
  | del k =>
    simp only [MT.step, MT.remove, mlogical]
    split
    · rfl
    · next h => exact (mapDel_absent _ _ (Bool.eq_false_iff.mpr h)).symm

theorem MT.run_data (t : MT) (ops : List MOp) : (t.run ops).data = mlogical t.data ops := by
  induction ops generalizing t with
  | nil => rfl
  | cons o os ih =>
    simp only [MT.run]
    rw [ih, MT.step_data]
    cases o <;> rfl

/-! ### lookups through `mapVals` -/

theorem lookupKV_mapVals (c : Nat → Nat) (m : List (Nat × Nat)) (k : Nat) :
    lookupKV (mapVals c m) k = (lookupKV m k).map c := by
  induction m with
  | nil => rfl
  | cons p rest ih =>
    obtain ⟨k', v'⟩ := p
    have e : mapVals c ((k', v') :: rest) = (k', c v') :: mapVals c rest := rfl
    rw [e, lookupKV_cons, lookupKV_cons]
    by_cases h : k' = k
    · simp [h]
    · simp [h, ih]

theorem mapVals_keys (c : Nat → Nat) (m : List (Nat × Nat)) : (mapVals c m).map (·.1) = m.map (·.1) := by
  simp [mapVals, List.map_map, Function.comp_def]

theorem mapVals_sorted (c : Nat → Nat) (m : List (Nat × Nat)) (h : SortedKeys m) : SortedKeys (mapVals c m) := by
  unfold SortedKeys mapVals at *
  rw [List.pairwise_map]
  exact h

end HappyModel.C20
