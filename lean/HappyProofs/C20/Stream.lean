import HappyModel.C20.Spec
/-! Facts about weighted streams shared by the C20 proofs. -/
namespace HappyModel.C20

theorem trueCount_append (xs ys : Stream) (x : Nat) :
    trueCount (xs ++ ys) x = trueCount xs x + trueCount ys x := by
  induction xs with
  | nil => simp [trueCount]
  | cons p ps ih => obtain ⟨y, c⟩ := p; simp [trueCount, ih]; omega

theorem total_append (xs ys : Stream) : total (xs ++ ys) = total xs + total ys := by
  induction xs with
  | nil => simp [total]
  | cons p ps ih => obtain ⟨y, c⟩ := p; simp [total, ih]; omega

/-- an item with a positive count occurs in the stream with a positive weight -/
theorem exists_of_trueCount_pos (xs : Stream) (x : Nat) (h : 0 < trueCount xs x) :
    ∃ c, (x, c) ∈ xs ∧ c ≠ 0 := by
  induction xs with
  | nil => simp [trueCount] at h
  | cons p ps ih =>
    obtain ⟨y, c⟩ := p
    simp only [trueCount] at h
    by_cases hy : y = x
    · by_cases hc : c = 0
      · subst hc; simp at h
        obtain ⟨c', h1, h2⟩ := ih h
        exact ⟨c', List.mem_cons_of_mem _ h1, h2⟩
      · exact ⟨c, by simp [hy], hc⟩
    · simp [hy] at h
      obtain ⟨c', h1, h2⟩ := ih h
      exact ⟨c', List.mem_cons_of_mem _ h1, h2⟩

theorem lowerOk_map (lower f : Nat → Nat) (ps : List Nat) (h : ∀ x, lower x ≤ f x) :
    lowerOk lower ps (ps.map f) = true := by
  induction ps with
  | nil => simp [lowerOk]
  | cons p ps ih => simp [lowerOk, ih, h p]

end HappyModel.C20
