import HappyProofs.C20.TopKInv
/-! Space-Saving: `TKInv` holds after every stream. -/
namespace HappyModel.C20

/-- `t` = true counts of the stream seen so far, `N` = its total weight -/
structure TKInv (s : TopK) (t : Nat → Nat) (N : Nat) : Prop where
  nodup : (s.cs.map (·.item)).Nodup
  len : s.cs.length ≤ s.k
  lower : ∀ c ∈ s.cs, t c.item ≤ c.count
  upper : ∀ c ∈ s.cs, c.count ≤ t c.item + c.err
  sum : sumCounts s.cs = N
  cnt : s.n = N
  untracked : ∀ x, isTracked s.cs x = false →
    (if s.cs.length < s.k then t x = 0 else t x ≤ minCount s.cs)

theorem TKInv.init (k : Nat) : TKInv (TopK.empty k) (fun _ => 0) 0 where
  nodup := by simp [TopK.empty]
  len := by simp [TopK.empty]
  lower := by simp [TopK.empty]
  upper := by simp [TopK.empty]
  sum := rfl
  cnt := rfl
  untracked := by intro x _; split <;> simp

@[simp] theorem TopK.add_k (s : TopK) (x c : Nat) : (s.add x c).k = s.k := by
  unfold TopK.add
  split; · rfl
  split; · rfl
  split; · rfl
  split <;> rfl

theorem TKInv.step (s : TopK) (t t' : Nat → Nat) (N x c : Nat) (hk : 0 < s.k) (hc : c ≠ 0)
    (ht : ∀ y, t' y = if y = x then t y + c else t y) (inv : TKInv s t N) :
    TKInv (s.add x c) t' (N + c) := by
  obtain ⟨nd, len, lo, up, sm, cnt, unt⟩ := inv
  have htx : t' x = t x + c := by simp [ht]
  have hty : ∀ y, y ≠ x → t' y = t y := by intro y hy; simp [ht, hy]
  unfold TopK.add
  simp only [hc, ↓reduceIte]
  by_cases htr : isTracked s.cs x = true
  · -- already tracked: increment
    simp only [htr, ↓reduceIte]
    have hex := (isTracked_iff _ _).mp htr
    have hmem : ∀ c' ∈ incr x c s.cs, ∃ a ∈ s.cs, c' = if a.item = x then { a with count := a.count + c } else a := by
      intro c' h'; simpa [incr, eq_comm] using h'
    refine ⟨by simpa [map_item_incr] using nd, by simpa [incr] using len, ?_, ?_, ?_, by simp [cnt], ?_⟩
    · intro c' h'
      obtain ⟨a, ha, rfl⟩ := hmem c' h'
      have := lo a ha
      by_cases hax : a.item = x
      · simp only [hax, ↓reduceIte]; rw [htx]; rw [hax] at this; omega
      · simp only [hax, ↓reduceIte]; rw [hty _ hax]; exact this
    · intro c' h'
      obtain ⟨a, ha, rfl⟩ := hmem c' h'
      have := up a ha
      by_cases hax : a.item = x
      · simp only [hax, ↓reduceIte]; rw [htx]; rw [hax] at this; omega
      · simp only [hax, ↓reduceIte]; rw [hty _ hax]; exact this
    · simp only; rw [sumCounts_incr x c s.cs nd hex, sm]
    · intro y hy
      simp only at hy ⊢
      have hy' : isTracked s.cs y = false := by
        rw [isTracked_false_iff] at hy ⊢
        intro a ha
        have : a.item ∈ (incr x c s.cs).map (·.item) := by
          rw [map_item_incr]; exact List.mem_map.mpr ⟨a, ha, rfl⟩
        obtain ⟨b, hb, hbe⟩ := List.mem_map.mp this
        rw [← hbe]; exact hy b hb
      have hyx : y ≠ x := by
        intro h; subst h; rw [htr] at hy'; exact absurd hy' (by simp)
      have hlen : (incr x c s.cs).length = s.cs.length := by simp [incr]
      have := unt y hy'
      rw [hlen, hty y hyx]
      split
      · next hl => simpa [hl] using this
      · next hl =>
        simp only [hl, ↓reduceIte] at this
        refine Nat.le_trans this ?_
        apply le_minCount
        · intro he
          have : (incr x c s.cs).length = 0 := by rw [he]; rfl
          omega
        · intro c' h'
          obtain ⟨a, ha, rfl⟩ := hmem c' h'
          have := minCount_le _ a ha
          split <;> simp <;> omega
  · have htr' : isTracked s.cs x = false := by simpa using htr
    have hnx : ∀ a ∈ s.cs, a.item ≠ x := (isTracked_false_iff _ _).mp htr'
    simp only [htr', Bool.false_eq_true, ↓reduceIte]
    by_cases hlen : s.cs.length < s.k
    · -- free slot
      simp only [hlen, ↓reduceIte]
      have htx0 : t x = 0 := by simpa [hlen] using unt x htr'
      refine ⟨?_, ?_, ?_, ?_, ?_, by simp [cnt], ?_⟩
      · simp only [List.map_append, List.map_cons, List.map_nil]
        rw [List.nodup_append]
        refine ⟨nd, by simp, ?_⟩
        intro a ha b hb
        simp only [List.mem_cons, List.not_mem_nil, or_false] at hb
        obtain ⟨a', ha', rfl⟩ := List.mem_map.mp ha
        rw [hb]; exact hnx a' ha'
      · simp only [List.length_append, List.length_cons, List.length_nil]; omega
      · intro c' h'
        rcases List.mem_append.mp h' with h' | h'
        · rw [hty _ (hnx c' h')]; exact lo c' h'
        · simp only [List.mem_cons, List.not_mem_nil, or_false] at h'; subst h'
          simp only; rw [htx, htx0]; omega
      · intro c' h'
        rcases List.mem_append.mp h' with h' | h'
        · rw [hty _ (hnx c' h')]; exact up c' h'
        · simp only [List.mem_cons, List.not_mem_nil, or_false] at h'; subst h'
          simp only; rw [htx]; omega
      · simp only [sumCounts_append, sumCounts_cons, sumCounts_nil, sm]; omega
      · intro y hy
        simp only at hy ⊢
        rw [isTracked_false_iff] at hy
        have hyx : y ≠ x := by
          intro h; exact hy ⟨x, c, 0⟩ (by simp) (by simp [h])
        have hy' : isTracked s.cs y = false := by
          rw [isTracked_false_iff]; intro a ha; exact hy a (List.mem_append_left _ ha)
        have h0 : t y = 0 := by simpa [hlen] using unt y hy'
        rw [hty y hyx, h0]
        split <;> simp
    · -- evict the first minimal counter
      simp only [hlen, ↓reduceIte]
      have hleq : s.cs.length = s.k := by omega
      have hne : s.cs ≠ [] := by intro h; rw [h] at hleq; simp at hleq; omega
      obtain ⟨m, hfm, hm, hmc⟩ := firstMin_spec s.cs hne
      simp only [hfm]
      obtain ⟨hflen, hfsum⟩ := filter_remove s.cs m nd hm
      have htxm : t x ≤ minCount s.cs := by simpa [hlen] using unt x htr'
      have hfmem : ∀ a, a ∈ s.cs.filter (fun ct => ct.item != m.item) → a ∈ s.cs ∧ a.item ≠ m.item := by
        intro a ha; simpa using List.mem_filter.mp ha
      refine ⟨?_, ?_, ?_, ?_, ?_, by simp [cnt], ?_⟩
      · simp only [List.map_append, List.map_cons, List.map_nil]
        rw [List.nodup_append]
        refine ⟨(List.filter_sublist.map _).nodup nd, by simp, ?_⟩
        intro a ha b hb
        simp only [List.mem_cons, List.not_mem_nil, or_false] at hb
        obtain ⟨a', ha', rfl⟩ := List.mem_map.mp ha
        rw [hb]; exact hnx a' (hfmem a' ha').1
      · simp only [List.length_append, List.length_cons, List.length_nil]; omega
      · intro c' h'
        rcases List.mem_append.mp h' with h' | h'
        · have := (hfmem c' h').1
          rw [hty _ (hnx c' this)]; exact lo c' this
        · simp only [List.mem_cons, List.not_mem_nil, or_false] at h'; subst h'
          simp only; rw [htx]; omega
      · intro c' h'
        rcases List.mem_append.mp h' with h' | h'
        · have := (hfmem c' h').1
          rw [hty _ (hnx c' this)]; exact up c' this
        · simp only [List.mem_cons, List.not_mem_nil, or_false] at h'; subst h'
          simp only; rw [htx]; omega
      · simp only [sumCounts_append, sumCounts_cons, sumCounts_nil]; omega
      · intro y hy
        simp only at hy ⊢
        rw [isTracked_false_iff] at hy
        have hyx : y ≠ x := by
          intro h; exact hy ⟨x, m.count + c, m.count⟩ (by simp) (by simp [h])
        have hlen' : ¬ ((s.cs.filter (fun ct => ct.item != m.item)) ++ [(⟨x, m.count + c, m.count⟩ : Ctr)]).length < s.k := by
          simp only [List.length_append, List.length_cons, List.length_nil]; omega
        simp only [hlen', ↓reduceIte]
        rw [hty y hyx]
        have hty_le : t y ≤ minCount s.cs := by
          by_cases hym : y = m.item
          · rw [hym, ← hmc]; exact lo m hm
          · have hy' : isTracked s.cs y = false := by
              rw [isTracked_false_iff]; intro a ha hay
              exact hy a (List.mem_append_left _ (List.mem_filter.mpr ⟨ha, by simpa [hay] using hym⟩)) hay
            simpa [hlen] using unt y hy'
        refine Nat.le_trans hty_le ?_
        apply le_minCount
        · simp
        · intro c' h'
          rcases List.mem_append.mp h' with h' | h'
          · exact minCount_le _ c' (hfmem c' h').1
          · simp only [List.mem_cons, List.not_mem_nil, or_false] at h'; subst h'
            simp only; omega

end HappyModel.C20
