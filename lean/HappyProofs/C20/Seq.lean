import HappyModel.C20.Seq
import HappyProofs.C20.Stream
/-!
Sketch programs (`HappyModel/C20/Seq.lean`): whatever a program does *after* a merge, every register
is observationally the sketch of its logical stream.

`seqRun_refines` is generic in the sketch algebra and in the observational equivalence `E`; the three
instances (Bloom, Count-Min, HyperLogLog) are in `SeqInst.lean`.
-/
namespace HappyModel.C20

theorem seqStep_length {σ α : Type} (A : SeqAlg σ α) (regs : List σ) (op : SeqOp α) :
    (seqStep A regs op).length = regs.length := by
  cases op with
  | add r x c => simp only [seqStep]; split <;> simp
  | merge t s => simp only [seqStep]; split <;> simp
  | clear r => simp only [seqStep]; split <;> simp
  | skip => rfl

/-- frame: one step changes no register but the operation's target -/
theorem seqStep_frame {σ α : Type} (A : SeqAlg σ α) (regs : List σ) (op : SeqOp α) (r : Nat)
    (h : op.target ≠ some r) : (seqStep A regs op)[r]? = regs[r]? := by
  cases op with
  | add t x c =>
    have ht : t ≠ r := fun e => h (by simp [SeqOp.target, e])
    simp only [seqStep]; split
    · exact List.getElem?_set_ne ht
    · rfl
  | merge t s =>
    have ht : t ≠ r := fun e => h (by simp [SeqOp.target, e])
    simp only [seqStep]; split
    · exact List.getElem?_set_ne ht
    · rfl
  | clear t =>
    have ht : t ≠ r := fun e => h (by simp [SeqOp.target, e])
    simp only [seqStep]; split
    · exact List.getElem?_set_ne ht
    · rfl
  | skip => rfl

theorem seqInit_get {σ α : Type} (A : SeqAlg σ α) (n r : Nat) (h : r < n) :
    (seqInit A n)[r]? = some (A.empty r) := by
  simp [seqInit, h]

theorem SeqAlg.ofStream_nil {σ α : Type} (A : SeqAlg σ α) (r : Nat) : A.ofStream r [] = A.empty r := rfl

theorem SeqAlg.ofStream_snoc {σ α : Type} (A : SeqAlg σ α) (r : Nat) (xs : List (α × Nat)) (x : α) (c : Nat) :
    A.ofStream r (xs ++ [(x, c)]) = A.add r (A.ofStream r xs) x c := by
  simp [SeqAlg.ofStream, List.foldl_append]

/-- registers and logical streams march in step: same length, and every register is `E`-equivalent
    to the sketch of its logical stream -/
structure Refines {σ α : Type} (A : SeqAlg σ α) (E : σ → σ → Prop)
    (regs : List σ) (ls : List (List (α × Nat))) : Prop where
  len : regs.length = ls.length
  eqv : ∀ r s xs, regs[r]? = some s → ls[r]? = some xs → E s (A.ofStream r xs)

/-- what an algebra must satisfy (w.r.t. an observational equivalence `E` and a relation `same` on
    registers that may be merged) for programs to respect logical streams -/
structure Lawful {σ α : Type} (A : SeqAlg σ α) (E : σ → σ → Prop) (same : Nat → Nat → Prop) : Prop where
  refl : ∀ s, E s s
  add : ∀ r s s' x c, E s s' → E (A.add r s x c) (A.add r s' x c)
  merge : ∀ t s xs ys a b, same t s → E a (A.ofStream t xs) → E b (A.ofStream s ys) →
    E (A.merge a b) (A.ofStream t (xs ++ ys))
  clear : ∀ r s, E (A.clear r s) (A.empty r)

def SeqOp.okFor {α : Type} (same : Nat → Nat → Prop) : SeqOp α → Prop
  | .merge t s => same t s
  | _ => True

theorem seqStep_refines {σ α : Type} (A : SeqAlg σ α) (E : σ → σ → Prop) (same : Nat → Nat → Prop)
    (L : Lawful A E same) (regs : List σ) (ls : List (List (α × Nat))) (op : SeqOp α)
    (hop : op.okFor same) (R : Refines A E regs ls) :
    Refines A E (seqStep A regs op) (seqStep (logicalAlg α) ls op) := by
  refine ⟨by rw [seqStep_length, seqStep_length, R.len], ?_⟩
  intro r s xs hs hxs
  by_cases ht : op.target = some r
  · cases op with
    | skip => simp [SeqOp.target] at ht
    | add t x c =>
      simp only [SeqOp.target, Option.some.injEq] at ht; subst ht
      simp only [seqStep] at hs hxs
      cases hreg : regs[t]? with
      | none =>
        have : ls[t]? = none := by
          rw [List.getElem?_eq_none_iff] at hreg ⊢; rw [← R.len]; exact hreg
        rw [hreg] at hs; rw [this] at hxs; simp only at hs hxs
        rw [hreg] at hs; simp at hs
      | some s0 =>
        have hlt : t < ls.length := by
          rw [← R.len]; exact (List.getElem?_eq_some_iff.mp hreg).1
        obtain ⟨xs0, hxs0⟩ : ∃ xs0, ls[t]? = some xs0 := ⟨ls[t], List.getElem?_eq_getElem hlt⟩
        rw [hreg] at hs; rw [hxs0] at hxs; simp only at hs hxs
        have hlt' : t < regs.length := by rw [R.len]; exact hlt
        rw [List.getElem?_set_self hlt'] at hs
        rw [List.getElem?_set_self hlt] at hxs
        simp only [Option.some.injEq] at hs hxs
        subst hs; subst hxs
        simp only [logicalAlg]
        rw [SeqAlg.ofStream_snoc]
        exact L.add _ _ _ _ _ (R.eqv t s0 xs0 hreg hxs0)
    | clear t =>
      simp only [SeqOp.target, Option.some.injEq] at ht; subst ht
      simp only [seqStep] at hs hxs
      cases hreg : regs[t]? with
      | none =>
        rw [hreg] at hs; simp only at hs; rw [hreg] at hs; simp at hs
      | some s0 =>
        have hlt : t < ls.length := by
          rw [← R.len]; exact (List.getElem?_eq_some_iff.mp hreg).1
        obtain ⟨xs0, hxs0⟩ : ∃ xs0, ls[t]? = some xs0 := ⟨ls[t], List.getElem?_eq_getElem hlt⟩
        rw [hreg] at hs; rw [hxs0] at hxs; simp only at hs hxs
        have hlt' : t < regs.length := by rw [R.len]; exact hlt
        rw [List.getElem?_set_self hlt'] at hs
        rw [List.getElem?_set_self hlt] at hxs
        simp only [Option.some.injEq] at hs hxs
        subst hs; subst hxs
        simp only [logicalAlg]
        exact L.clear _ _
    | merge t u =>
      simp only [SeqOp.target, Option.some.injEq] at ht; subst ht
      simp only [seqStep] at hs hxs
      cases hreg : regs[t]? with
      | none =>
        rw [hreg] at hs; simp only at hs; rw [hreg] at hs; simp at hs
      | some a =>
        cases hreg2 : regs[u]? with
        | none =>
          have : ls[u]? = none := by
            rw [List.getElem?_eq_none_iff] at hreg2 ⊢; rw [← R.len]; exact hreg2
          rw [hreg, hreg2] at hs; simp only at hs
          have hlt : t < ls.length := by
            rw [← R.len]; exact (List.getElem?_eq_some_iff.mp hreg).1
          obtain ⟨xs0, hxs0⟩ : ∃ xs0, ls[t]? = some xs0 := ⟨ls[t], List.getElem?_eq_getElem hlt⟩
          rw [hxs0, this] at hxs; simp only at hxs
          rw [hreg] at hs; rw [hxs0] at hxs
          simp only [Option.some.injEq] at hs hxs
          subst hs; subst hxs
          exact R.eqv t a xs0 hreg hxs0
        | some b =>
          have hlt : t < ls.length := by
            rw [← R.len]; exact (List.getElem?_eq_some_iff.mp hreg).1
          have hlu : u < ls.length := by
            rw [← R.len]; exact (List.getElem?_eq_some_iff.mp hreg2).1
          obtain ⟨xs0, hxs0⟩ : ∃ xs0, ls[t]? = some xs0 := ⟨ls[t], List.getElem?_eq_getElem hlt⟩
          obtain ⟨ys0, hys0⟩ : ∃ ys0, ls[u]? = some ys0 := ⟨ls[u], List.getElem?_eq_getElem hlu⟩
          rw [hreg, hreg2] at hs; rw [hxs0, hys0] at hxs; simp only at hs hxs
          have hlt' : t < regs.length := by rw [R.len]; exact hlt
          rw [List.getElem?_set_self hlt'] at hs
          rw [List.getElem?_set_self hlt] at hxs
          simp only [Option.some.injEq] at hs hxs
          subst hs; subst hxs
          simp only [logicalAlg]
          exact L.merge t u xs0 ys0 a b hop (R.eqv t a xs0 hreg hxs0) (R.eqv u b ys0 hreg2 hys0)
  · rw [seqStep_frame A regs op r ht] at hs
    rw [seqStep_frame (logicalAlg α) ls op r ht] at hxs
    exact R.eqv r s xs hs hxs

theorem seqInit_refines {σ α : Type} (A : SeqAlg σ α) (E : σ → σ → Prop) (same : Nat → Nat → Prop)
    (L : Lawful A E same) (n : Nat) :
    Refines A E (seqInit A n) (seqInit (logicalAlg α) n) := by
  refine ⟨by simp [seqInit], ?_⟩
  intro r s xs hs hxs
  have hr : r < n := by
    have := (List.getElem?_eq_some_iff.mp hs).1
    simpa [seqInit] using this
  rw [seqInit_get A n r hr] at hs
  rw [seqInit_get (logicalAlg α) n r hr] at hxs
  simp only [Option.some.injEq] at hs hxs
  subst hs; subst hxs
  exact L.refl _

theorem seqRun_refines_from {σ α : Type} (A : SeqAlg σ α) (E : σ → σ → Prop) (same : Nat → Nat → Prop)
    (L : Lawful A E same) (ops : List (SeqOp α)) (hops : ∀ op ∈ ops, op.okFor same)
    (regs : List σ) (ls : List (List (α × Nat))) (R : Refines A E regs ls) :
    Refines A E (seqRun A regs ops) (seqRun (logicalAlg α) ls ops) := by
  induction ops generalizing regs ls with
  | nil => exact R
  | cons op ops ih =>
    simp only [seqRun, List.foldl_cons]
    exact ih (fun o ho => hops o (List.mem_cons_of_mem _ ho)) _ _
      (seqStep_refines A E same L regs ls op (hops op (List.mem_cons_self ..)) R)

/-- **every register is, at every moment, the sketch of its logical stream** (up to `E`) -/
theorem seqRun_refines {σ α : Type} (A : SeqAlg σ α) (E : σ → σ → Prop) (same : Nat → Nat → Prop)
    (L : Lawful A E same) (n : Nat) (ops : List (SeqOp α)) (hops : ∀ op ∈ ops, op.okFor same)
    (r : Nat) (s : σ) (xs : List (α × Nat))
    (hs : (seqRun A (seqInit A n) ops)[r]? = some s) (hxs : (logical n ops)[r]? = some xs) :
    E s (A.ofStream r xs) :=
  (seqRun_refines_from A E same L ops hops _ _ (seqInit_refines A E same L n)).eqv r s xs hs hxs

end HappyModel.C20
