import HappyModel.C20.TDigest
/-!
# C20 — t-digest: quantiles are nondecreasing in q and lie within [min, max]

For every well-formed digest (`TD.WF`: centroids sorted by mean, positive weights, means within the
observed `[lo, hi]`) and every pair of quantiles `a₁/b ≤ a₂/b` the walk of `TDigest.quantile`
(`tdWalk`, exact arithmetic) answers `v₁ ≤ v₂`, and every answer lies within `[lo, hi]` — more
precisely within the bracket of the rule that produced it, which itself lies within `[lo, hi]`.
-/
namespace HappyModel.C20
set_option linter.unusedVariables false

/-! ### fractions -/

theorem Frac.le_via (x y : Frac) (k : Int) (hx : 0 < x.den) (hy : 0 < y.den)
    (h1 : x.num ≤ k * (x.den : Int)) (h2 : k * (y.den : Int) ≤ y.num) : x.le y := by
  unfold Frac.le
  have a : x.num * (y.den : Int) ≤ k * (x.den : Int) * (y.den : Int) :=
    Int.mul_le_mul_of_nonneg_right h1 (by omega)
  have b : k * (y.den : Int) * (x.den : Int) ≤ y.num * (x.den : Int) :=
    Int.mul_le_mul_of_nonneg_right h2 (by omega)
  grind

theorem Frac.le_same_den (n1 n2 : Int) (d : Nat) (h : n1 ≤ n2) : Frac.le ⟨n1, d⟩ ⟨n2, d⟩ := by
  unfold Frac.le
  exact Int.mul_le_mul_of_nonneg_right h (by omega)

/-- `lo·D + X·(m − lo)` with `0 ≤ X ≤ D` lies between `lo·D` and `m·D` -/
theorem interp_bounds (lo m D X : Int) (h0 : 0 ≤ X) (h1 : X ≤ D) (h2 : lo ≤ m) :
    lo * D ≤ lo * D + X * (m - lo) ∧ lo * D + X * (m - lo) ≤ m * D := by
  have a : 0 ≤ X * (m - lo) := Int.mul_nonneg h0 (by omega)
  have b : X * (m - lo) ≤ D * (m - lo) := Int.mul_le_mul_of_nonneg_right h1 (by omega)
  constructor
  · omega
  · grind

theorem interp_mono (lo m D X1 X2 : Int) (h : X1 ≤ X2) (h2 : lo ≤ m) :
    lo * D + X1 * (m - lo) ≤ lo * D + X2 * (m - lo) := by
  have := Int.mul_le_mul_of_nonneg_right h (show 0 ≤ m - lo by omega)
  omega

/-! ### the rule applied at one centroid

`headAns` is the answer `tdWalk` gives when the target falls into the head centroid's range. -/

def headAns (T b : Nat) (lo hi : Int) (first : Bool) (prev : Int) (run : Nat) (m : Int) (c : Nat)
    (last : Bool) : QAns :=
  if first then
    if T < b * c then ⟨lo, m, ⟨lo * ((b * c : Nat) : Int) + (T : Int) * (m - lo), b * c⟩⟩
    else .flat m
  else if last then
    if 2 * b * run + b * c < T then
      ⟨m, hi, ⟨m * ((b * c : Nat) : Int) + ((T : Int) - ((2 * b * run + b * c : Nat) : Int)) * (hi - m), b * c⟩⟩
    else .flat m
  else
    if T < 2 * b * run + b * c then
      ⟨prev, m, ⟨prev * ((2 * b * c : Nat) : Int)
                  + (m - prev) * (((b * c : Nat) : Int) + (T : Int) - ((2 * b * run : Nat) : Int)), 2 * b * c⟩⟩
    else .flat m

theorem tdWalk_cons (T b : Nat) (lo hi : Int) (first : Bool) (prev : Int) (run : Nat) (m : Int) (c : Nat)
    (rest : List (Int × Nat)) :
    tdWalk T b lo hi first prev run ((m, c) :: rest) =
      if 2 * b * run ≤ T ∧ T ≤ 2 * b * (run + c) then headAns T b lo hi first prev run m c rest.isEmpty
      else tdWalk T b lo hi false m (run + c) rest := by
  simp only [tdWalk, headAns]

/-- bracket inside `[prev, hi]`, positive denominator, value inside the bracket -/
def QAns.Good (prev hi : Int) (r : QAns) : Prop :=
  prev ≤ r.lo ∧ r.lo ≤ r.hi ∧ r.hi ≤ hi ∧ 0 < r.v.den ∧ r.v.within r.lo r.hi

/-- the head rule: bracket inside `[prev, hi]`, value inside the bracket -/
theorem headAns_bounds (T b : Nat) (hb : 0 < b) (lo hi : Int) (first : Bool) (prev : Int) (run : Nat)
    (m : Int) (c : Nat) (last : Bool) (hc : 0 < c) (hpm : prev ≤ m) (hmh : m ≤ hi)
    (hf : first = true → prev = lo) (hT : 2 * b * run ≤ T ∧ T ≤ 2 * b * (run + c)) :
    QAns.Good prev hi (headAns T b lo hi first prev run m c last) := by
  have hbc : 0 < b * c := Nat.mul_pos hb hc
  have flatOk : QAns.Good prev hi (QAns.flat m) := by
    simp only [QAns.Good, QAns.flat, Frac.within]
    refine ⟨hpm, Int.le_refl _, hmh, by omega, ?_, ?_⟩ <;> simp
  unfold headAns
  by_cases hfirst : first = true
  · have hpl : prev = lo := hf hfirst
    simp only [hfirst, if_true]
    split
    · next hlt =>
      have hlm : lo ≤ m := hpl ▸ hpm
      have := interp_bounds lo m ((b * c : Nat) : Int) (T : Int) (by omega) (by omega) hlm
      refine ⟨by simp [hpl], hlm, hmh, hbc, ?_⟩
      simpa only [Frac.within] using this
    · exact flatOk
  · have hfirst' : first = false := by cases first <;> simp_all
    simp only [hfirst', Bool.false_eq_true, if_false]
    by_cases hlast : last = true
    · simp only [hlast, if_true]
      split
      · next hgt =>
        have h2 : (2 * b * (run + c) : Nat) = 2 * b * run + b * c + b * c := by
          rw [Nat.mul_add]; have : 2 * b * c = b * c + b * c := by rw [Nat.mul_assoc, Nat.two_mul]
          omega
        have := interp_bounds m hi ((b * c : Nat) : Int)
          ((T : Int) - ((2 * b * run + b * c : Nat) : Int)) (by omega) (by omega) hmh
        refine ⟨hpm, hmh, Int.le_refl _, hbc, ?_⟩
        simpa only [Frac.within] using this
      · exact flatOk
    · have hlast' : last = false := by cases last <;> simp_all
      simp only [hlast', Bool.false_eq_true, if_false]
      split
      · next hlt =>
        have h2 : (2 * b * c : Nat) = b * c + b * c := by rw [Nat.mul_assoc, Nat.two_mul]
        have := interp_bounds prev m ((2 * b * c : Nat) : Int)
          (((b * c : Nat) : Int) + (T : Int) - ((2 * b * run : Nat) : Int)) (by omega) (by omega) hpm
        refine ⟨Int.le_refl _, hpm, hmh, (by show 0 < 2 * b * c; omega), ?_⟩
        have e : (m - prev) * (((b * c : Nat) : Int) + (T : Int) - ((2 * b * run : Nat) : Int))
            = (((b * c : Nat) : Int) + (T : Int) - ((2 * b * run : Nat) : Int)) * (m - prev) := Int.mul_comm _ _
        simp only [Frac.within]
        rw [e]
        exact this
      · exact flatOk

/-- unless it is the rule of the last (non-first) centroid, the head rule never answers above `m` -/
theorem headAns_hi (T b : Nat) (lo hi : Int) (first : Bool) (prev : Int) (run : Nat) (m : Int) (c : Nat)
    (last : Bool) (h : first = true ∨ last = false) :
    (headAns T b lo hi first prev run m c last).hi = m := by
  unfold headAns
  rcases h with h | h
  · simp only [h, if_true]; split <;> rfl
  · by_cases hf : first = true
    · simp only [hf, if_true]; split <;> rfl
    · have hf' : first = false := by cases first <;> simp_all
      simp only [hf', h, Bool.false_eq_true, if_false]; split <;> rfl

/-- the head rule is monotone in the target -/
theorem headAns_mono (T1 T2 b : Nat) (hb : 0 < b) (lo hi : Int) (first : Bool) (prev : Int) (run : Nat)
    (m : Int) (c : Nat) (last : Bool) (hc : 0 < c) (hpm : prev ≤ m) (hmh : m ≤ hi)
    (hf : first = true → prev = lo) (h12 : T1 ≤ T2)
    (hT1 : 2 * b * run ≤ T1 ∧ T1 ≤ 2 * b * (run + c)) (hT2 : 2 * b * run ≤ T2 ∧ T2 ≤ 2 * b * (run + c)) :
    (headAns T1 b lo hi first prev run m c last).v.le (headAns T2 b lo hi first prev run m c last).v := by
  have B1 := headAns_bounds T1 b hb lo hi first prev run m c last hc hpm hmh hf hT1
  have B2 := headAns_bounds T2 b hb lo hi first prev run m c last hc hpm hmh hf hT2
  have flatW : ∀ r : QAns, r = QAns.flat m → r.v.num = m * (r.v.den : Int) := by
    intro r hr; subst hr; simp [QAns.flat]
  by_cases hfirst : first = true
  · have hpl : prev = lo := hf hfirst
    have hlm : lo ≤ m := hpl ▸ hpm
    by_cases h1 : T1 < b * c
    · by_cases h2 : T2 < b * c
      · have e1 : headAns T1 b lo hi first prev run m c last =
            ⟨lo, m, ⟨lo * ((b * c : Nat) : Int) + (T1 : Int) * (m - lo), b * c⟩⟩ := by
          simp [headAns, hfirst, h1]
        have e2 : headAns T2 b lo hi first prev run m c last =
            ⟨lo, m, ⟨lo * ((b * c : Nat) : Int) + (T2 : Int) * (m - lo), b * c⟩⟩ := by
          simp [headAns, hfirst, h2]
        rw [e1, e2]
        exact Frac.le_same_den _ _ _ (interp_mono lo m _ _ _ (by omega) hlm)
      · have e2 : headAns T2 b lo hi first prev run m c last = QAns.flat m := by
          simp [headAns, hfirst, h2]
        have hh : (headAns T1 b lo hi first prev run m c last).hi = m := headAns_hi _ _ _ _ _ _ _ _ _ _ (Or.inl hfirst)
        refine Frac.le_via _ _ m B1.2.2.2.1 B2.2.2.2.1 ?_ ?_
        · have := B1.2.2.2.2.2; rw [hh] at this; exact this
        · rw [flatW _ e2]; exact Int.le_refl _
    · have e1 : headAns T1 b lo hi first prev run m c last = QAns.flat m := by
        simp [headAns, hfirst, h1]
      have e2 : headAns T2 b lo hi first prev run m c last = QAns.flat m := by
        have : ¬ T2 < b * c := by omega
        simp [headAns, hfirst, this]
      rw [e1, e2]; simp [Frac.le]
  · have hfirst' : first = false := by cases first <;> simp_all
    by_cases hlast : last = true
    · by_cases h1 : 2 * b * run + b * c < T1
      · have h2 : 2 * b * run + b * c < T2 := by omega
        have e1 : headAns T1 b lo hi first prev run m c last =
            ⟨m, hi, ⟨m * ((b * c : Nat) : Int) + ((T1 : Int) - ((2 * b * run + b * c : Nat) : Int)) * (hi - m), b * c⟩⟩ := by
          simp [headAns, hfirst', hlast, h1]
        have e2 : headAns T2 b lo hi first prev run m c last =
            ⟨m, hi, ⟨m * ((b * c : Nat) : Int) + ((T2 : Int) - ((2 * b * run + b * c : Nat) : Int)) * (hi - m), b * c⟩⟩ := by
          simp [headAns, hfirst', hlast, h2]
        rw [e1, e2]
        exact Frac.le_same_den _ _ _ (interp_mono m hi _ _ _ (by omega) hmh)
      · have e1 : headAns T1 b lo hi first prev run m c last = QAns.flat m := by
          simp [headAns, hfirst', hlast, h1]
        have hl2 : m ≤ (headAns T2 b lo hi first prev run m c last).lo := by
          unfold headAns; simp only [hfirst', hlast, Bool.false_eq_true, if_false, if_true]
          split <;> simp [QAns.flat]
        refine Frac.le_via _ _ m B1.2.2.2.1 B2.2.2.2.1 ?_ ?_
        · rw [flatW _ e1]; exact Int.le_refl _
        · have h := B2.2.2.2.2.1
          have : m * ((headAns T2 b lo hi first prev run m c last).v.den : Int)
              ≤ (headAns T2 b lo hi first prev run m c last).lo * ((headAns T2 b lo hi first prev run m c last).v.den : Int) :=
            Int.mul_le_mul_of_nonneg_right hl2 (by omega)
          omega
    · have hlast' : last = false := by cases last <;> simp_all
      by_cases h1 : T1 < 2 * b * run + b * c
      · by_cases h2 : T2 < 2 * b * run + b * c
        · have e1 : headAns T1 b lo hi first prev run m c last =
              ⟨prev, m, ⟨prev * ((2 * b * c : Nat) : Int)
                + (m - prev) * (((b * c : Nat) : Int) + (T1 : Int) - ((2 * b * run : Nat) : Int)), 2 * b * c⟩⟩ := by
            simp [headAns, hfirst', hlast', h1]
          have e2 : headAns T2 b lo hi first prev run m c last =
              ⟨prev, m, ⟨prev * ((2 * b * c : Nat) : Int)
                + (m - prev) * (((b * c : Nat) : Int) + (T2 : Int) - ((2 * b * run : Nat) : Int)), 2 * b * c⟩⟩ := by
            simp [headAns, hfirst', hlast', h2]
          rw [e1, e2]
          apply Frac.le_same_den
          have := Int.mul_le_mul_of_nonneg_left
            (show ((b * c : Nat) : Int) + (T1 : Int) - ((2 * b * run : Nat) : Int)
                ≤ ((b * c : Nat) : Int) + (T2 : Int) - ((2 * b * run : Nat) : Int) by omega)
            (show 0 ≤ m - prev by omega)
          omega
        · have e2 : headAns T2 b lo hi first prev run m c last = QAns.flat m := by
            simp [headAns, hfirst', hlast', h2]
          have hh : (headAns T1 b lo hi first prev run m c last).hi = m :=
            headAns_hi _ _ _ _ _ _ _ _ _ _ (Or.inr hlast')
          refine Frac.le_via _ _ m B1.2.2.2.1 B2.2.2.2.1 ?_ ?_
          · have := B1.2.2.2.2.2; rw [hh] at this; exact this
          · rw [flatW _ e2]; exact Int.le_refl _
      · have e1 : headAns T1 b lo hi first prev run m c last = QAns.flat m := by
          simp [headAns, hfirst', hlast', h1]
        have e2 : headAns T2 b lo hi first prev run m c last = QAns.flat m := by
          have : ¬ T2 < 2 * b * run + b * c := by omega
          simp [headAns, hfirst', hlast', this]
        rw [e1, e2]; simp [Frac.le]

/-! ### the whole walk -/

theorem tdWalk_bounds (T b : Nat) (hb : 0 < b) (lo hi : Int) :
    ∀ (cs : List (Int × Nat)) (first : Bool) (prev : Int) (run : Nat),
      sortedFrom prev cs → (∀ mc ∈ cs, mc.1 ≤ hi) → prev ≤ hi → (first = true → prev = lo) →
      QAns.Good prev hi (tdWalk T b lo hi first prev run cs) := by
  intro cs
  induction cs with
  | nil =>
    intro first prev run _ _ hph _
    simp only [tdWalk, QAns.Good, QAns.flat, Frac.within]
    refine ⟨Int.le_refl _, Int.le_refl _, hph, by omega, ?_, ?_⟩ <;> simp
  | cons mc rest ih =>
    intro first prev run hs ht hph hf
    obtain ⟨m, c⟩ := mc
    obtain ⟨hpm, hc, hs'⟩ := hs
    have hmh : m ≤ hi := ht (m, c) (List.mem_cons_self)
    rw [tdWalk_cons]
    split
    · next hT => exact headAns_bounds T b hb lo hi first prev run m c rest.isEmpty hc hpm hmh hf hT
    · have := ih false m (run + c) hs' (fun x hx => ht x (List.mem_cons_of_mem _ hx)) hmh (by simp)
      exact ⟨Int.le_trans hpm this.1, this.2⟩

theorem tdWalk_mono (b : Nat) (hb : 0 < b) (lo hi : Int) :
    ∀ (cs : List (Int × Nat)) (first : Bool) (prev : Int) (run T1 T2 : Nat),
      sortedFrom prev cs → (∀ mc ∈ cs, mc.1 ≤ hi) → prev ≤ hi → (first = true → prev = lo) →
      T1 ≤ T2 → 2 * b * run ≤ T1 → T2 ≤ 2 * b * (run + sumW cs) →
      (tdWalk T1 b lo hi first prev run cs).v.le (tdWalk T2 b lo hi first prev run cs).v := by
  intro cs
  induction cs with
  | nil => intro first prev run T1 T2 _ _ _ _ _ _ _; simp [tdWalk, QAns.flat, Frac.le]
  | cons mc rest ih =>
    intro first prev run T1 T2 hs ht hph hf h12 hlo hup
    obtain ⟨m, c⟩ := mc
    obtain ⟨hpm, hc, hs'⟩ := hs
    have hmh : m ≤ hi := ht (m, c) (List.mem_cons_self)
    have ht' : ∀ x ∈ rest, x.1 ≤ hi := fun x hx => ht x (List.mem_cons_of_mem _ hx)
    simp only [sumW] at hup
    rw [tdWalk_cons, tdWalk_cons]
    by_cases c1 : 2 * b * run ≤ T1 ∧ T1 ≤ 2 * b * (run + c)
    · by_cases c2 : 2 * b * run ≤ T2 ∧ T2 ≤ 2 * b * (run + c)
      · rw [if_pos c1, if_pos c2]
        exact headAns_mono T1 T2 b hb lo hi first prev run m c rest.isEmpty hc hpm hmh hf h12 c1 c2
      · rw [if_pos c1, if_neg c2]
        -- the second target lies beyond this centroid: its answer is at least `m`
        have B1 := headAns_bounds T1 b hb lo hi first prev run m c rest.isEmpty hc hpm hmh hf c1
        have B2 := tdWalk_bounds T2 b hb lo hi rest false m (run + c) hs' ht' hmh (by simp)
        have hne : rest.isEmpty = false := by
          cases rest with
          | nil => simp only [sumW, Nat.add_zero] at hup; exact absurd ⟨by omega, hup⟩ c2
          | cons _ _ => rfl
        have hh : (headAns T1 b lo hi first prev run m c rest.isEmpty).hi = m :=
          headAns_hi _ _ _ _ _ _ _ _ _ _ (Or.inr hne)
        refine Frac.le_via _ _ m B1.2.2.2.1 B2.2.2.2.1 ?_ ?_
        · have := B1.2.2.2.2.2; rw [hh] at this; exact this
        · have h := B2.2.2.2.2.1
          have : m * ((tdWalk T2 b lo hi false m (run + c) rest).v.den : Int)
              ≤ (tdWalk T2 b lo hi false m (run + c) rest).lo * ((tdWalk T2 b lo hi false m (run + c) rest).v.den : Int) :=
            Int.mul_le_mul_of_nonneg_right B2.1 (by omega)
          omega
    · have c2 : ¬ (2 * b * run ≤ T2 ∧ T2 ≤ 2 * b * (run + c)) := by
        intro h; exact c1 ⟨hlo, by omega⟩
      rw [if_neg c1, if_neg c2]
      have hgt : 2 * b * (run + c) ≤ T1 := by
        have : ¬ T1 ≤ 2 * b * (run + c) := fun h => c1 ⟨hlo, h⟩
        omega
      exact ih false m (run + c) T1 T2 hs' ht' hmh (by simp) h12 hgt (by rw [Nat.add_assoc]; exact hup)

/-! ### the theorems -/

theorem Frac.within_flat (m lo hi : Int) (h1 : lo ≤ m) (h2 : m ≤ hi) : (QAns.flat m).v.within lo hi := by
  simp only [QAns.flat, Frac.within]; constructor <;> simpa

/-- every answer lies in the bracket of its rule, and the bracket lies within `[lo, hi]` -/
theorem quantile_in_bracket (d : TD) (wf : d.WF) (a b : Nat) (hb : 0 < b) :
    QAns.Good d.lo d.hi (d.quantile a b) := by
  unfold TD.quantile
  split
  · exact ⟨Int.le_refl _, Int.le_refl _, wf.lohi, by simp [QAns.flat],
      Frac.within_flat _ _ _ (Int.le_refl _) (Int.le_refl _)⟩
  · split
    · exact ⟨wf.lohi, Int.le_refl _, Int.le_refl _, by simp [QAns.flat],
        Frac.within_flat _ _ _ (Int.le_refl _) (Int.le_refl _)⟩
    · exact tdWalk_bounds _ b hb d.lo d.hi d.cs true d.lo 0 wf.sorted wf.top wf.lohi (fun _ => rfl)

theorem Frac.within_widen (v : Frac) (lo hi lo' hi' : Int) (h : v.within lo hi) (h1 : lo' ≤ lo) (h2 : hi ≤ hi') :
    v.within lo' hi' := by
  unfold Frac.within at *
  have a : lo' * (v.den : Int) ≤ lo * (v.den : Int) := Int.mul_le_mul_of_nonneg_right h1 (by omega)
  have b : hi * (v.den : Int) ≤ hi' * (v.den : Int) := Int.mul_le_mul_of_nonneg_right h2 (by omega)
  omega

/-- **t-digest quantiles lie within the observed minimum and maximum** -/
theorem TD.quantile_within (d : TD) (wf : d.WF) (a b : Nat) (hb : 0 < b) :
    (d.quantile a b).v.within d.lo d.hi := by
  have h := quantile_in_bracket d wf a b hb
  exact Frac.within_widen _ _ _ _ _ h.2.2.2.2 h.1 h.2.2.1

/-- an observed value admitted by the model answer's bracket lies within `[min, max]` -/
theorem TD.admitted_within (d : TD) (wf : d.WF) (a b : Nat) (hb : 0 < b) (r : Int)
    (h : (d.quantile a b).admits r = true) : d.lo ≤ r ∧ r ≤ d.hi := by
  obtain ⟨q1, q2, q3, _, _⟩ := quantile_in_bracket d wf a b hb
  simp only [QAns.admits, Bool.and_eq_true, decide_eq_true_eq] at h
  omega

/-- **t-digest quantiles are nondecreasing in q** (`a₁/b ≤ a₂/b ≤ 1`) -/
theorem TD.quantile_mono (d : TD) (wf : d.WF) (a1 a2 b : Nat) (hb : 0 < b) (h12 : a1 ≤ a2)
    (h2b : a2 ≤ b) : (d.quantile a1 b).v.le (d.quantile a2 b).v := by
  have W1 := TD.quantile_within d wf a1 b hb
  have W2 := TD.quantile_within d wf a2 b hb
  have D1 := (quantile_in_bracket d wf a1 b hb).2.2.2.1
  have D2 := (quantile_in_bracket d wf a2 b hb).2.2.2.1
  by_cases z1 : a1 = 0
  · -- the smaller quantile answers `min`
    have e : d.quantile a1 b = QAns.flat d.lo := by simp [TD.quantile, z1]
    refine Frac.le_via _ _ d.lo D1 D2 ?_ W2.1
    rw [e]; simp [QAns.flat]
  · by_cases z2 : a2 = b
    · have e : d.quantile a2 b = QAns.flat d.hi := by
        simp [TD.quantile, z2]
        intro h; omega
      refine Frac.le_via _ _ d.hi D1 D2 W1.2 ?_
      rw [e]; simp [QAns.flat]
    · have n1 : a1 ≠ b := by omega
      have n2 : a2 ≠ 0 := by omega
      have e1 : d.quantile a1 b = tdWalk (2 * a1 * d.N) b d.lo d.hi true d.lo 0 d.cs := by
        simp [TD.quantile, z1, n1]
      have e2 : d.quantile a2 b = tdWalk (2 * a2 * d.N) b d.lo d.hi true d.lo 0 d.cs := by
        simp [TD.quantile, z2, n2]
      rw [e1, e2]
      apply tdWalk_mono b hb d.lo d.hi d.cs true d.lo 0 _ _ wf.sorted wf.top wf.lohi (fun _ => rfl)
      · exact Nat.mul_le_mul_right _ (Nat.mul_le_mul_left _ h12)
      · simp
      · simp only [Nat.zero_add]
        show 2 * a2 * sumW d.cs ≤ 2 * b * sumW d.cs
        exact Nat.mul_le_mul_right _ (Nat.mul_le_mul_left _ h2b)

/-- the executable well-formedness test of the judge decides `TD.WF` -/
theorem sortedFromB_iff (prev : Int) (cs : List (Int × Nat)) : sortedFromB prev cs = true ↔ sortedFrom prev cs := by
  induction cs generalizing prev with
  | nil => simp [sortedFromB, sortedFrom]
  | cons mc rest ih =>
    obtain ⟨m, c⟩ := mc
    simp [sortedFromB, sortedFrom, ih, and_assoc]

theorem TD.wf_of_wfB (d : TD) (h : d.wfB = true) : d.WF := by
  simp only [TD.wfB, Bool.and_eq_true, List.all_eq_true, decide_eq_true_eq] at h
  exact ⟨(sortedFromB_iff _ _).1 h.1.1, fun mc hm => h.1.2 mc hm, h.2⟩

end HappyModel.C20
