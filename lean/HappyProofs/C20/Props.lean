import HappyProofs.C20.Bloom
import HappyProofs.C20.Cms
import HappyProofs.C20.Hll
import HappyProofs.C20.Reservoir
import HappyProofs.C20.TopKMain
import HappyProofs.C20.MerkleDiff
import HappyProofs.C20.MerkleExt
import HappyProofs.C20.MerkleState
import HappyProofs.C20.SeqInst
import HappyProofs.C20.TDigest
/-!
# C20 — property theorems

"For any input stream, a Bloom filter reports every inserted item as present, a Count-Min sketch
never underestimates a count, and space-saving TopK estimates exceed true counts by at most the
reported error while tracking every item more frequent than N/k. Merging two Bloom, Count-Min or
HyperLogLog sketches gives exactly the sketch of the concatenated streams; t-digest quantiles are
non-decreasing in q and lie within the observed minimum and maximum; a reservoir holds min(k, n)
items of the stream; a Merkle-tree diff is empty exactly when the two maps are equal and otherwise
its ranges cover every key whose value differs."

Every theorem says: the Spec predicate of `HappyModel/C20/Spec.lean` (the one the driver evaluates
on the implementation's transcripts) is true of what the *model* answers — for every hash function
`h`, every stream, every split, every random script.  t-digest: the float centroid arithmetic of
`add` / `_compress` has no model; the *quantile function* has (`HappyModel/C20/TDigest.lean`: the walk of
`TDigest.quantile` over an arbitrary sorted centroid list, exact arithmetic) and the two clauses are proved
for it; the driver ties the real object to it on the centroid lists the real object holds.
-/
namespace HappyModel.C20

/-! ## observable states, exactly as `Run.lean` prints them -/

def bloomObs (h : Nat → Nat → Nat) (b : Bloom) (probes : List Nat) : SObs :=
  ⟨(List.range b.m).filter b.bit, b.n, probes.map fun x => if b.contains h x then 1 else 0⟩

def cmsObs (h : Nat → Nat → Nat) (s : CMS) (probes : List Nat) : SObs :=
  ⟨(List.range s.d).flatMap fun r => (List.range s.w).map fun c => s.cell r c, s.n,
   probes.map (s.estimate h)⟩

/-! ## Bloom -/

/-- every inserted item is reported present — for every hash family, size, stream -/
theorem bloom_no_false_negative (h : Nat → Nat → Nat) (m k : Nat) (xs : Stream) (probes : List Nat) :
    lowerOk (bloomLower xs) probes (bloomObs h (Bloom.ofStream h m k xs) probes).q = true := by
  apply lowerOk_map
  intro x
  unfold bloomLower
  by_cases hx : 0 < trueCount xs x
  · rw [Bloom.contains_ofStream h m k xs x hx]; simp; omega
  · have : trueCount xs x = 0 := by omega
    simp [this]

example : (Bloom.ofStream (fun x i => (x + 3 * i) % 8) 8 2 [(3, 1), (5, 2), (4, 0)]).contains
    (fun x i => (x + 3 * i) % 8) 5 = true := by decide
example : (Bloom.ofStream (fun x i => (x + 3 * i) % 8) 8 2 [(3, 1), (5, 2), (4, 0)]).contains
    (fun x i => (x + 3 * i) % 8) 4 = false := by decide

/-- merging the filters of two streams gives exactly the filter of the concatenated stream:
    same bits, same item count, same answers -/
theorem bloom_merge_is_union (h : Nat → Nat → Nat) (m k : Nat) (xs ys : Stream) (probes : List Nat) :
    mergeIsConcat
      (bloomObs h ((Bloom.ofStream h m k xs).merge (Bloom.ofStream h m k ys)) probes)
      (bloomObs h (Bloom.ofStream h m k (xs ++ ys)) probes) = true := by
  have hbit := Bloom.bit_merge_ofStream h m k xs ys
  have hfun : ((Bloom.ofStream h m k xs).merge (Bloom.ofStream h m k ys)).bit
      = (Bloom.ofStream h m k (xs ++ ys)).bit := funext hbit
  have km : ∀ zs, (Bloom.ofStream h m k zs).k = k ∧ (Bloom.ofStream h m k zs).m = m := by
    intro zs; unfold Bloom.ofStream; rw [(Bloom.fold_k h zs _).1, (Bloom.fold_k h zs _).2]; simp [Bloom.empty]
  have hn : ∀ zs, (Bloom.ofStream h m k zs).n = total zs := by
    intro zs; unfold Bloom.ofStream; rw [Bloom.fold_n]; simp [Bloom.empty]
  unfold mergeIsConcat bloomObs
  simp only [Bool.and_eq_true, beq_iff_eq]
  refine ⟨⟨?_, ?_⟩, ?_⟩
  · simp only [Bloom.merge, (km xs).2, (km (xs ++ ys)).2]
    exact congrArg (fun f => List.filter f (List.range m)) hfun
  · simp [Bloom.merge, hn, total_append]
  · apply List.map_congr_left
    intro x _
    unfold Bloom.contains
    rw [hfun]
    simp [Bloom.merge, (km xs).1, (km (xs ++ ys)).1]

example : (bloomObs (fun x i => (x + 3 * i) % 8)
    ((Bloom.ofStream (fun x i => (x + 3 * i) % 8) 8 2 [(3, 1)]).merge
      (Bloom.ofStream (fun x i => (x + 3 * i) % 8) 8 2 [(5, 2)])) [3, 4, 5]).st = [0, 3, 5, 6] := by decide

/-! ## Count-Min -/

/-- never underestimates — for every hash family, width, depth > 0 (constructor guard), stream -/
theorem cms_never_under (h : Nat → Nat → Nat) (w d : Nat) (hd : 0 < d) (xs : Stream)
    (probes : List Nat) :
    lowerOk (cmsLower xs) probes (cmsObs h (CMS.ofStream h w d xs) probes).q = true :=
  lowerOk_map _ _ _ (fun x => CMS.estimate_ge h w d hd xs x)

example : (CMS.ofStream (fun x r => (x * (r + 1)) % 3) 3 2 [(1, 2), (4, 5), (2, 1)]).estimate
    (fun x r => (x * (r + 1)) % 3) 1 = 7 := by decide   -- true count 2, collides with item 4

/-- merging two sketches gives exactly the sketch of the concatenated stream -/
theorem cms_merge_is_concat (h : Nat → Nat → Nat) (w d : Nat) (xs ys : Stream) (probes : List Nat) :
    mergeIsConcat
      (cmsObs h ((CMS.ofStream h w d xs).merge (CMS.ofStream h w d ys)) probes)
      (cmsObs h (CMS.ofStream h w d (xs ++ ys)) probes) = true := by
  have hcell := CMS.cell_merge_ofStream h w d xs ys
  have dims : ∀ zs, (CMS.ofStream h w d zs).d = d ∧ (CMS.ofStream h w d zs).w = w := by
    intro zs; unfold CMS.ofStream; rw [(CMS.fold_dims h zs _).1, (CMS.fold_dims h zs _).2]; simp [CMS.empty]
  have hn : ∀ zs, (CMS.ofStream h w d zs).n = total zs := by
    intro zs; unfold CMS.ofStream; rw [CMS.fold_n]; simp [CMS.empty]
  have hd' : ((CMS.ofStream h w d xs).merge (CMS.ofStream h w d ys)).d = d := by simp [CMS.merge, dims]
  have hw' : ((CMS.ofStream h w d xs).merge (CMS.ofStream h w d ys)).w = w := by simp [CMS.merge, dims]
  unfold mergeIsConcat cmsObs
  simp only [Bool.and_eq_true, beq_iff_eq]
  refine ⟨⟨?_, ?_⟩, ?_⟩
  · rw [hd', hw', (dims (xs ++ ys)).1, (dims (xs ++ ys)).2]
    simp only [hcell]
  · simp [CMS.merge, hn, total_append]
  · apply List.map_congr_left
    intro x _
    unfold CMS.estimate
    rw [hd', (dims (xs ++ ys)).1]
    simp only [hcell]

/-! ## HyperLogLog -/

/-- registers after a merge = registers of the sketch of the concatenated stream (and the item
    counts add up) — for every hash function and precision -/
theorem hll_merge_is_concat (h : Nat → Nat) (p : Nat) (xs ys : Stream) :
    (∀ i, ((HLL.ofStream h p xs).merge (HLL.ofStream h p ys)).reg i = (HLL.ofStream h p (xs ++ ys)).reg i)
    ∧ ((HLL.ofStream h p xs).merge (HLL.ofStream h p ys)).n = (HLL.ofStream h p (xs ++ ys)).n := by
  constructor
  · intro i
    rw [HLL.reg_merge]
    simp only [HLL.reg_ofStream, regMax_append]
  · simp [HLL.merge, HLL.ofStream, HLL.fold_n, HLL.empty, total_append]

example : (HLL.ofStream (fun x => x * 2 ^ 58) 4 [(5, 1), (37, 3), (1, 0)]).regs = [0, 2, 0, 0, 0, 0, 0, 0, 0, 2] := by
  decide

/-! ## TopK (space saving) -/

/-- for every stream and every `k > 0` (constructor guard), for every probed item:
    true ≤ estimate ≤ true + error (an untracked item reports 0 ± the sketch-wide bound, which
    covers its true count); every item with true count > N / k is tracked; the counters sum to N -/
theorem topk_bounds (k : Nat) (hk : 0 < k) (xs : Stream) (x : Nat) :
    topkBoundOk xs ((TopK.ofStream k xs).obs x) = true
    ∧ topkHeavyOk xs k ((TopK.ofStream k xs).obs x) = true
    ∧ topkSumOk xs ((TopK.ofStream k xs).top.map (·.count)) (TopK.ofStream k xs).n = true := by
  have inv := TKInv.ofStream k hk xs
  have hkk : (TopK.ofStream k xs).k = k := by unfold TopK.ofStream; rw [TopK.fold_k]; rfl
  refine ⟨inv.boundOk x, ?_, inv.sumOk⟩
  have := inv.heavyOk (by rw [hkk]; exact hk) x
  rwa [hkk] at this

-- eviction happens and the inherited error is reported: k = 2, stream a a b c
example : (TopK.ofStream 2 [(0, 1), (0, 1), (1, 1), (2, 1)]).cs = [⟨0, 2, 0⟩, ⟨2, 2, 1⟩] := by decide

/-! ## reservoir -/

/-- a reservoir holds min(k, n) items — for every script of random draws -/
theorem reservoir_size (k : Nat) (arrivals script : List Nat) :
    reservoirSizeOk k arrivals.length ((Res.empty k).run arrivals script).1.items = true := by
  have inv := ResInv.run (Res.empty k) [] arrivals script (ResInv.empty k)
  have hk := Res.run_k (Res.empty k) arrivals script
  have h1 := inv.size
  have h2 := inv.n_eq
  simp only [List.nil_append] at h2
  simp only [reservoirSizeOk, beq_iff_eq]
  rw [h1, h2, hk]; rfl

/-- every sampled element occurs in the stream -/
theorem reservoir_subset_of_stream (k : Nat) (arrivals script : List Nat) :
    reservoirSubsetOk arrivals ((Res.empty k).run arrivals script).1.items = true := by
  have inv := ResInv.run (Res.empty k) [] arrivals script (ResInv.empty k)
  simp only [reservoirSubsetOk, List.all_eq_true, List.contains_eq_mem, decide_eq_true_eq]
  intro x hx
  simpa using inv.sub x hx

example : ((Res.empty 2).run [7, 8, 9, 10] [1, 5]).1.items = [7, 10] := by decide

/-- the same two clauses for a merged reservoir (set reading: `merge` samples with replacement) -/
theorem reservoir_merge (k : Nat) (hk : 0 < k) (xa xb sa sb sm : List Nat) :
    let a := ((Res.empty k).run xa sa).1
    let b := ((Res.empty k).run xb sb).1
    reservoirSizeOk k (xa ++ xb).length (a.merge b sm).1.items = true
    ∧ reservoirSubsetOk (xa ++ xb) (a.merge b sm).1.items = true := by
  intro a b
  have ia := ResInv.run (Res.empty k) [] xa sa (ResInv.empty k)
  have ib := ResInv.run (Res.empty k) [] xb sb (ResInv.empty k)
  have ka : a.k = k := Res.run_k _ _ _
  have kb : b.k = k := Res.run_k _ _ _
  simp only [List.nil_append] at ia ib
  have hea : a.items = [] → a.n = 0 := by
    intro he
    have h1 := ia.size
    rw [show ((Res.empty k).run xa sa).1 = a from rfl] at h1
    rw [he, ka] at h1
    simp only [List.length_nil] at h1; omega
  have heb : b.items = [] → b.n = 0 := by
    intro he
    have h1 := ib.size
    rw [show ((Res.empty k).run xb sb).1 = b from rfl] at h1
    rw [he, kb] at h1
    simp only [List.length_nil] at h1; omega
  have na : a.n = xa.length := ia.n_eq
  have nb : b.n = xb.length := ib.n_eq
  unfold Res.merge
  split
  · next h0 =>
    have hxa : xa = [] := by cases xa with | nil => rfl | cons _ _ => simp at na; omega
    have hxb : xb = [] := by cases xb with | nil => rfl | cons _ _ => simp at nb; omega
    subst hxa; subst hxb
    have : a.items = [] := by simp [a, Res.run, Res.empty]
    simp [reservoirSizeOk, reservoirSubsetOk, this]
  · next h0 =>
    have hpos : 0 < a.n + b.n := by omega
    constructor
    · simp only [reservoirSizeOk, beq_iff_eq, List.length_take, List.length_append,
        mergeLoop_length a b _ sm hea heb hpos, ka, na, nb]
      omega
    · simp only [reservoirSubsetOk, List.all_eq_true, List.contains_eq_mem, decide_eq_true_eq]
      intro x hx
      rcases mergeLoop_mem a b _ sm x (List.mem_of_mem_take hx) with h | h
      · exact List.mem_append_left _ (ia.sub x h)
      · exact List.mem_append_right _ (ib.sub x h)

/-! ## sketch programs: the merge law and the one-sided bounds hold *later* too

Several sketches of one kind; any interleaving of `add`, `merge` (of compatibly configured
sketches), `clear`.  At every moment every sketch is observably the sketch of its *logical stream* —
the adds it received, with the source's logical stream appended at each merge *as it was then*.
What happens to a merge's inputs afterwards (more adds, `clear()`, further merges) cannot change
the merge result.  (`logical` is the same program run on plain lists, `Seq.lean`.) -/

theorem mergeIsConcat_self (o : SObs) : mergeIsConcat o o = true := by simp [mergeIsConcat]

theorem cmsObs_congr (h : Nat → Nat → Nat) (a b : CMS) (probes : List Nat) (e : CMS.Eqv a b) :
    cmsObs h a probes = cmsObs h b probes := by
  obtain ⟨hc, hn, hw, hd, _⟩ := e
  unfold cmsObs CMS.estimate
  simp only [hc, hn, hw, hd]

theorem bloomObs_congr (h : Nat → Nat → Nat) (a b : Bloom) (probes : List Nat) (e : Bloom.Eqv a b) :
    bloomObs h a probes = bloomObs h b probes := by
  obtain ⟨hb, hn, hm, hk⟩ := e
  have hf : a.bit = b.bit := funext hb
  unfold bloomObs Bloom.contains
  simp only [hf, hn, hm, hk]

/-- Count-Min, any program: every register reports exactly what the sketch of its logical stream
    reports (cells, item count, estimates), hence never underestimates the logical stream -/
theorem cms_program_registers_are_sketches (h : Nat → Nat → Nat → Nat) (w d : Nat → Nat) (n : Nat)
    (ops : List (SeqOp Nat)) (hops : ∀ op ∈ ops, op.okFor (cmsSame h w d)) (probes : List Nat)
    (r : Nat) (s : CMS) (xs : Stream)
    (hs : (seqRun (cmsAlg h w d) (seqInit (cmsAlg h w d) n) ops)[r]? = some s)
    (hxs : (logical n ops)[r]? = some xs) :
    mergeIsConcat (cmsObs (h r) s probes) (cmsObs (h r) (CMS.ofStream (h r) (w r) (d r) xs) probes) = true
    ∧ (0 < d r → lowerOk (cmsLower xs) probes (cmsObs (h r) s probes).q = true) := by
  have e := seqRun_refines _ _ _ (cms_lawful h w d) n ops hops r s xs hs hxs
  rw [cmsAlg_ofStream] at e
  rw [cmsObs_congr (h r) s _ probes e]
  exact ⟨mergeIsConcat_self _, fun hd => cms_never_under (h r) (w r) (d r) hd xs probes⟩

/-- Bloom, any program: same bits / count / answers as the filter of the logical stream; every item
    of the logical stream is reported present -/
theorem bloom_program_registers_are_sketches (h : Nat → Nat → Nat → Nat) (m k : Nat → Nat) (n : Nat)
    (ops : List (SeqOp Nat)) (hops : ∀ op ∈ ops, op.okFor (bloomSame h m k)) (probes : List Nat)
    (r : Nat) (s : Bloom) (xs : Stream)
    (hs : (seqRun (bloomAlg h m k) (seqInit (bloomAlg h m k) n) ops)[r]? = some s)
    (hxs : (logical n ops)[r]? = some xs) :
    mergeIsConcat (bloomObs (h r) s probes) (bloomObs (h r) (Bloom.ofStream (h r) (m r) (k r) xs) probes) = true
    ∧ lowerOk (bloomLower xs) probes (bloomObs (h r) s probes).q = true := by
  have e := seqRun_refines _ _ _ (bloom_lawful h m k) n ops hops r s xs hs hxs
  rw [bloomAlg_ofStream] at e
  rw [bloomObs_congr (h r) s _ probes e]
  exact ⟨mergeIsConcat_self _, bloom_no_false_negative (h r) (m r) (k r) xs probes⟩

/-- HyperLogLog, any program: registers and item count of the sketch of the logical stream -/
theorem hll_program_registers_are_sketches (h : Nat → Nat → Nat) (p : Nat → Nat) (n : Nat)
    (ops : List (SeqOp Nat)) (hops : ∀ op ∈ ops, op.okFor (hllSame h p))
    (r : Nat) (s : HLL) (xs : Stream)
    (hs : (seqRun (hllAlg h p) (seqInit (hllAlg h p) n) ops)[r]? = some s)
    (hxs : (logical n ops)[r]? = some xs) :
    (∀ i, s.reg i = (HLL.ofStream (h r) (p r) xs).reg i) ∧ s.n = (HLL.ofStream (h r) (p r) xs).n := by
  have e := seqRun_refines _ _ _ (hll_lawful h p) n ops hops r s xs hs hxs
  rw [hllAlg_ofStream] at e
  exact ⟨e.1, e.2.1⟩

/-- the frame clause the judge evaluates on snapshots (`frameOk`) is true of the model, for every
    sketch algebra and every way `f` of printing a register: an operation changes its target only -/
theorem sketch_program_frame {σ α : Type} (A : SeqAlg σ α) (f : σ → List String) (regs : List σ)
    (op : SeqOp α) :
    frameOk op.target (regs.map f) ((seqStep A regs op).map f) = true := by
  unfold frameOk
  simp only [List.length_map, seqStep_length, beq_self_eq_true, Bool.true_and, List.all_eq_true,
    List.mem_range, Bool.or_eq_true, beq_iff_eq]
  intro r _
  by_cases ht : op.target = some r
  · exact Or.inl ht
  · right
    rw [List.getElem?_map, List.getElem?_map, seqStep_frame A regs op r ht]

-- merge into an empty aggregate, then clear and refill the source: the aggregate keeps the
-- stream it was given at merge time
example :
    let h : Nat → Nat → Nat → Nat := fun _ x r => (x * (r + 1)) % 3
    let ops : List (SeqOp Nat) := [.add 1 4 2, .merge 0 1, .clear 1, .add 1 2 1, .add 0 5 1]
    (logical 2 ops = [[(4, 2), (5, 1)], [(2, 1)]])
    ∧ ((seqRun (cmsAlg h (fun _ => 3) (fun _ => 2)) (seqInit (cmsAlg h (fun _ => 3) (fun _ => 2)) 2) ops).map
        (fun s => (s.n, s.estimate (h 0) 4)) = [(3, 2), (1, 0)]) := by decide
example : ∀ op ∈ ([.add 1 4 2, .merge 0 1, .clear 1] : List (SeqOp Nat)),
    op.okFor (cmsSame (fun _ x r => (x * (r + 1)) % 3) (fun _ => 3) (fun _ => 2)) := by
  intro op hop
  simp only [List.mem_cons, List.not_mem_nil, or_false] at hop
  rcases hop with rfl | rfl | rfl <;> simp [SeqOp.okFor, cmsSame]

/-! ## Merkle -/

instance (hl hc : Nat → Nat → Nat) (a b : MTree) : Decidable (HashInjOn hl hc a b) := by
  unfold HashInjOn; exact inferInstance

instance (hl hc : Nat → Nat → Nat) (a b : Option MTree) : Decidable (HashInjOnOpt hl hc a b) := by
  cases a <;> cases b <;> unfold HashInjOnOpt <;> exact inferInstance

/-- diff is empty exactly when the two maps are equal — for every pair of leaf/inner hash functions
    that is injective on the subtrees of the two trees compared -/
theorem merkle_diff_empty_iff_equal (hl hc : Nat → Nat → Nat) (la lb : List (Nat × Nat))
    (sa : SortedKeys la) (sb : SortedKeys lb) (inj : HashInjOnOpt hl hc (build la) (build lb)) :
    merkleEmptyIffEqual la lb (diffTrees hl hc (build la) (build lb)) = true := by
  unfold merkleEmptyIffEqual
  have h1 := diff_nil_iff hl hc la lb inj
  have h2 := keys_all_iff la lb sa sb
  simp only [beq_iff_eq]
  rw [Bool.eq_iff_iff, List.isEmpty_iff, h1, h2]

/-- the diff ranges cover every key whose value differs or that exists on one side only -/
theorem merkle_diff_covers (hl hc : Nat → Nat → Nat) (la lb : List (Nat × Nat))
    (sa : SortedKeys la) (sb : SortedKeys lb) (inj : HashInjOnOpt hl hc (build la) (build lb)) :
    merkleCovers la lb (diffTrees hl hc (build la) (build lb)) = true := by
  unfold merkleCovers
  simp only [List.all_eq_true, Bool.or_eq_true, beq_iff_eq]
  intro k _
  by_cases hk : lookupKV la k = lookupKV lb k
  · exact Or.inl hk
  · exact Or.inr (diff_covers hl hc la lb sa sb inj k hk)

-- the hypotheses are satisfiable on maps that really differ (key 2 changed, key 4 only on one side)
example : HashInjOnOpt (fun k v => 2 * (100 * k + v)) (fun a b => 2 * (1000000 * a + b) + 1)
    (build [(1, 0), (2, 0), (3, 0)]) (build [(1, 0), (2, 5), (3, 0), (4, 1)]) := by decide
example : diffTrees (fun k v => 2 * (100 * k + v)) (fun a b => 2 * (1000000 * a + b) + 1)
    (build [(1, 0), (2, 0), (3, 0)]) (build [(1, 0), (2, 5), (3, 0), (4, 1)]) = [(1, 2), (2, 3), (3, 4)] := by
  decide
example : SortedKeys [(1, 0), (2, 5), (3, 0), (4, 1)] := by unfold SortedKeys; decide

/-! ### the stateful tree: the laws hold after every operation sequence

`MerkleTree` stores its tree; `update` / `remove` must rebuild it, whatever the new value is (an object
equal to the old one, the same object changed in place, a value equal under `==` but serialised
differently).  In the model they do, so after any two call sequences on any two initial maps the diff
of the *stored* trees is judged correctly against the *logical* maps (what the calls stored). -/

/-- after any sequence of `update` / `remove` calls the stored tree is the tree of the present
    contents, the contents are sorted with distinct keys, and they are the logical map (`mlogical`) -/
theorem merkle_root_tracks_data (m : List (Nat × Nat)) (ops : List MOp) :
    ((MT.ofList m).run ops).root = build ((MT.ofList m).run ops).data ∧
      SortedKeys ((MT.ofList m).run ops).data ∧
      ((MT.ofList m).run ops).data = mlogical (MT.ofList m).data ops :=
  ⟨(MT.run_inv _ ops (MT.ofList_inv m)).fresh, (MT.run_inv _ ops (MT.ofList_inv m)).sorted, MT.run_data _ ops⟩

/-- both diff clauses, for the stored trees of two replicas after arbitrary call sequences, against
    the logical maps -/
theorem merkle_ops_diff_laws (hl hc : Nat → Nat → Nat) (ma mb : List (Nat × Nat)) (opsA opsB : List MOp)
    (inj : HashInjOnOpt hl hc ((MT.ofList ma).run opsA).root ((MT.ofList mb).run opsB).root) :
    merkleEmptyIffEqual (mlogical (MT.ofList ma).data opsA) (mlogical (MT.ofList mb).data opsB)
        (MT.diff hl hc ((MT.ofList ma).run opsA) ((MT.ofList mb).run opsB)) = true ∧
      merkleCovers (mlogical (MT.ofList ma).data opsA) (mlogical (MT.ofList mb).data opsB)
        (MT.diff hl hc ((MT.ofList ma).run opsA) ((MT.ofList mb).run opsB)) = true := by
  have ia := MT.run_inv _ opsA (MT.ofList_inv ma)
  have ib := MT.run_inv _ opsB (MT.ofList_inv mb)
  rw [← MT.run_data, ← MT.run_data]
  unfold MT.diff
  rw [ia.fresh, ib.fresh] at inj ⊢
  exact ⟨merkle_diff_empty_iff_equal hl hc _ _ ia.sorted ib.sorted inj,
    merkle_diff_covers hl hc _ _ ia.sorted ib.sorted inj⟩

/-- non-vacuity: a record replaced (`upd 2 7`), the other replica following, a key dropped on one side -/
example :
    let A := (MT.ofList [(1, 0), (2, 0), (3, 0)]).run [.upd 2 7, .del 3]
    let B := (MT.ofList [(1, 0), (2, 0), (3, 0)]).run [.upd 2 7]
    A.data = [(1, 0), (2, 7)] ∧ B.data = [(1, 0), (2, 7), (3, 0)] ∧
      MT.diff (fun k v => 2 * (100 * k + v)) (fun a b => 2 * (1000000 * a + b) + 1) A B ≠ [] := by decide

/-! ### "equal" read as Python's `==` on dicts

`{k: 1} == {k: 1.0}` in Python, but the tree hashes `repr(value)`: the code that exists reports a
difference between two maps that are equal as dicts (variant `current`, finding
`merkle/diff/nonempty-but-python-equal`).  A tree that hashed a canonical form of each value
(`canon`: serialisation id ↦ equality class) meets both clauses under that reading (variant
`repaired`). -/

theorem merkle_diff_python_equal_repaired (canon : Nat → Nat) (hl hc : Nat → Nat → Nat)
    (la lb : List (Nat × Nat)) (sa : SortedKeys la) (sb : SortedKeys lb)
    (inj : HashInjOnOpt hl hc (build (mapVals canon la)) (build (mapVals canon lb))) :
    merkleEmptyIffEqualC canon la lb (diffTrees hl hc (build (mapVals canon la)) (build (mapVals canon lb))) = true ∧
      merkleCoversC canon la lb (diffTrees hl hc (build (mapVals canon la)) (build (mapVals canon lb))) = true := by
  have h1 := merkle_diff_empty_iff_equal hl hc _ _ (mapVals_sorted canon la sa) (mapVals_sorted canon lb sb) inj
  have h2 := merkle_diff_covers hl hc _ _ (mapVals_sorted canon la sa) (mapVals_sorted canon lb sb) inj
  unfold merkleEmptyIffEqual at h1
  unfold merkleCovers at h2
  unfold merkleEmptyIffEqualC merkleCoversC pyEqualMaps
  simp only [mapVals_keys, lookupKV_mapVals] at h1 h2
  exact ⟨h1, h2⟩

/-- the code that exists: `1` (id 1) and `1.0` (id 16) are one equality class, two serialisations —
    the maps are equal as dicts and the diff is not empty -/
theorem merkle_python_equal_nonempty_current :
    pyEqualMaps (fun v => if v = 16 then 1 else v) [(0, 1)] [(0, 16)] = true ∧
      merkleEmptyIffEqualC (fun v => if v = 16 then 1 else v) [(0, 1)] [(0, 16)]
        (diffTrees (fun k v => 2 * (100 * k + v)) (fun a b => 2 * (1000000 * a + b) + 1)
          (build [(0, 1)]) (build [(0, 16)])) = false := by decide

/-- … and the same two maps through the canonical form: empty diff (non-vacuity of the repaired theorem) -/
example :
    diffTrees (fun k v => 2 * (100 * k + v)) (fun a b => 2 * (1000000 * a + b) + 1)
      (build (mapVals (fun v => if v = 16 then 1 else v) [(0, 1)]))
      (build (mapVals (fun v => if v = 16 then 1 else v) [(0, 16)])) = [] := by decide

/-! ## t-digest: the quantile walk over any well-formed digest -/

/-- **t-digest quantiles are non-decreasing in q**: for every digest with centroids sorted by mean,
    positive weights and means within `[lo, hi]`, and all `a₁ ≤ a₂ ≤ b`:
    `quantile(a₁/b) ≤ quantile(a₂/b)` (exact fractions) -/
theorem tdigest_quantile_monotone (d : TD) (wf : d.WF) (a1 a2 b : Nat) (hb : 0 < b) (h12 : a1 ≤ a2)
    (h2b : a2 ≤ b) : (d.quantile a1 b).v.le (d.quantile a2 b).v :=
  TD.quantile_mono d wf a1 a2 b hb h12 h2b

/-- **… and lie within the observed minimum and maximum** -/
theorem tdigest_quantile_within_min_max (d : TD) (wf : d.WF) (a b : Nat) (hb : 0 < b) :
    (d.quantile a b).v.within d.lo d.hi :=
  TD.quantile_within d wf a b hb

/-- the tie the judge evaluates (`Judge.tdTieCheck`): on a digest that passes the executable
    well-formedness test, every observed value the model answer *admits* (it lies in the bracket of the
    rule the walk applies; for `return centroid.mean` it is that mean) lies within `[lo, hi]`, and the
    exact answer lies in the same bracket -/
theorem tdigest_tie_sound (d : TD) (h : d.wfB = true) (a b : Nat) (hb : 0 < b) (r : Int)
    (hr : (d.quantile a b).admits r = true) :
    (d.lo ≤ r ∧ r ≤ d.hi) ∧ (d.quantile a b).v.within (d.quantile a b).lo (d.quantile a b).hi :=
  ⟨TD.admitted_within d (TD.wf_of_wfB d h) a b hb r hr,
   (quantile_in_bracket d (TD.wf_of_wfB d h) a b hb).2.2.2.2⟩

/-- not vacuous: a digest with three centroids between min 5 and max 50 is well formed; its quantiles on the
    grid i/16 use every rule: min, interpolation from min (7.5), first mean, interpolation between centroids
    (16⅔, 18⅓), a middle mean, the last mean, interpolation to max (43⅓, 46⅔), max; the bracket of 1/16 is [5, 10] -/
def demoTD : TD := ⟨[(10, 2), (20, 3), (40, 3)], 5, 50⟩

example : demoTD.wfB = true ∧ demoTD.N = 8 := by decide

example :
    (List.range 17).map (fun i => (demoTD.quantile i 16).v) =
      [⟨5, 1⟩, ⟨240, 32⟩, ⟨10, 1⟩, ⟨10, 1⟩, ⟨10, 1⟩, ⟨1600, 96⟩, ⟨1760, 96⟩, ⟨20, 1⟩, ⟨20, 1⟩, ⟨20, 1⟩, ⟨20, 1⟩,
       ⟨40, 1⟩, ⟨40, 1⟩, ⟨40, 1⟩, ⟨2080, 48⟩, ⟨2240, 48⟩, ⟨50, 1⟩] ∧
    (demoTD.quantile 1 16).admits 7 = true ∧ (demoTD.quantile 1 16).admits 11 = false ∧
    (demoTD.quantile 2 16).admits 11 = false ∧ (demoTD.quantile 2 16).admits 10 = true := by decide

end HappyModel.C20
