import HappyProofs.C20.Stream
/-! Bloom filter: no false negatives; merge = filter of the concatenated stream. -/
namespace HappyModel.C20

@[simp] theorem Bloom.add_k (h : Nat → Nat → Nat) (b : Bloom) (x c : Nat) : (b.add h x c).k = b.k := by
  unfold Bloom.add; split <;> rfl
@[simp] theorem Bloom.add_m (h : Nat → Nat → Nat) (b : Bloom) (x c : Nat) : (b.add h x c).m = b.m := by
  unfold Bloom.add; split <;> rfl

theorem Bloom.fold_k (h : Nat → Nat → Nat) (xs : Stream) (s : Bloom) :
    (xs.foldl (fun s p => s.add h p.1 p.2) s).k = s.k ∧ (xs.foldl (fun s p => s.add h p.1 p.2) s).m = s.m := by
  induction xs generalizing s with
  | nil => simp
  | cons p ps ih => simp only [List.foldl_cons]; rw [(ih _).1, (ih _).2]; simp

/-- which bits are set after feeding a stream -/
theorem Bloom.mem_fold (h : Nat → Nat → Nat) (xs : Stream) (s : Bloom) (p : Nat) :
    p ∈ (xs.foldl (fun s q => s.add h q.1 q.2) s).bits ↔
      p ∈ s.bits ∨ ∃ x c, (x, c) ∈ xs ∧ c ≠ 0 ∧ p ∈ positions h s.k x := by
  induction xs generalizing s with
  | nil => simp
  | cons q qs ih =>
    obtain ⟨y, c⟩ := q
    simp only [List.foldl_cons]
    rw [ih]
    simp only [Bloom.add_k]
    by_cases hc : c = 0
    · subst hc
      simp only [Bloom.add, ↓reduceIte, List.mem_cons, Prod.mk.injEq]
      constructor
      · rintro (h1 | ⟨x, c, h1, h2, h3⟩)
        · exact Or.inl h1
        · exact Or.inr ⟨x, c, Or.inr h1, h2, h3⟩
      · rintro (h1 | ⟨x, c, (⟨rfl, rfl⟩ | h1), h2, h3⟩)
        · exact Or.inl h1
        · exact absurd rfl h2
        · exact Or.inr ⟨x, c, h1, h2, h3⟩
    · simp only [Bloom.add, hc, ↓reduceIte, List.mem_append, List.mem_cons, Prod.mk.injEq]
      constructor
      · rintro ((h1 | h1) | ⟨x, c', h1, h2, h3⟩)
        · exact Or.inr ⟨y, c, Or.inl ⟨rfl, rfl⟩, hc, h1⟩
        · exact Or.inl h1
        · exact Or.inr ⟨x, c', Or.inr h1, h2, h3⟩
      · rintro (h1 | ⟨x, c', (⟨rfl, rfl⟩ | h1), h2, h3⟩)
        · exact Or.inl (Or.inr h1)
        · exact Or.inl (Or.inl h3)
        · exact Or.inr ⟨x, c', h1, h2, h3⟩

theorem Bloom.fold_n (h : Nat → Nat → Nat) (xs : Stream) (s : Bloom) :
    (xs.foldl (fun s q => s.add h q.1 q.2) s).n = s.n + total xs := by
  induction xs generalizing s with
  | nil => simp [total]
  | cons q qs ih =>
    obtain ⟨y, c⟩ := q
    simp only [List.foldl_cons, total]
    rw [ih]
    unfold Bloom.add
    split
    · next hc => simp [hc]
    · simp; omega

theorem Bloom.bit_iff (b : Bloom) (p : Nat) : b.bit p = true ↔ p ∈ b.bits := by
  simp [Bloom.bit]

theorem Bloom.contains_ofStream (h : Nat → Nat → Nat) (m k : Nat) (xs : Stream) (x : Nat)
    (hx : 0 < trueCount xs x) : (Bloom.ofStream h m k xs).contains h x = true := by
  obtain ⟨c, hmem, hc⟩ := exists_of_trueCount_pos xs x hx
  unfold Bloom.contains Bloom.ofStream
  rw [List.all_eq_true]
  intro p hp
  rw [Bloom.bit_iff, Bloom.mem_fold]
  rw [(Bloom.fold_k h xs (Bloom.empty m k)).1] at hp
  exact Or.inr ⟨x, c, hmem, hc, hp⟩

theorem Bloom.bit_merge_ofStream (h : Nat → Nat → Nat) (m k : Nat) (xs ys : Stream) (p : Nat) :
    ((Bloom.ofStream h m k xs).merge (Bloom.ofStream h m k ys)).bit p
      = (Bloom.ofStream h m k (xs ++ ys)).bit p := by
  rw [Bool.eq_iff_iff, Bloom.bit_iff, Bloom.bit_iff]
  simp only [Bloom.merge, Bloom.ofStream, List.mem_append, Bloom.mem_fold, Bloom.empty,
    List.not_mem_nil, false_or]
  constructor
  · rintro (⟨x, c, h1, h2, h3⟩ | ⟨x, c, h1, h2, h3⟩)
    · exact ⟨x, c, Or.inl h1, h2, h3⟩
    · exact ⟨x, c, Or.inr h1, h2, h3⟩
  · rintro ⟨x, c, (h1 | h1), h2, h3⟩
    · exact Or.inl ⟨x, c, h1, h2, h3⟩
    · exact Or.inr ⟨x, c, h1, h2, h3⟩

end HappyModel.C20
