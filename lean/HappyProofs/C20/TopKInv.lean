import HappyProofs.C20.Stream
import HappyModel.C20.TopK
/-! Space-Saving: the counter invariant and its preservation by `add`. -/
namespace HappyModel.C20

def sumCounts (cs : List Ctr) : Nat := sumList (cs.map (·.count))

@[simp] theorem sumCounts_nil : sumCounts [] = 0 := rfl
@[simp] theorem sumCounts_cons (c : Ctr) (cs : List Ctr) : sumCounts (c :: cs) = c.count + sumCounts cs := rfl
theorem sumCounts_append (a b : List Ctr) : sumCounts (a ++ b) = sumCounts a + sumCounts b := by
  induction a with
  | nil => simp
  | cons c cs ih => simp [ih]; omega

theorem minCount_le (cs : List Ctr) (c : Ctr) (h : c ∈ cs) : minCount cs ≤ c.count := by
  induction cs with
  | nil => simp at h
  | cons a l ih =>
    cases l with
    | nil => simp at h; subst h; simp [minCount]
    | cons b l =>
      simp only [minCount]
      rcases List.mem_cons.mp h with rfl | h
      · exact Nat.min_le_left _ _
      · exact Nat.le_trans (Nat.min_le_right _ _) (ih h)

theorem le_minCount (cs : List Ctr) (m : Nat) (hne : cs ≠ []) (h : ∀ c ∈ cs, m ≤ c.count) :
    m ≤ minCount cs := by
  induction cs with
  | nil => exact absurd rfl hne
  | cons a l ih =>
    cases l with
    | nil => simpa [minCount] using h a (by simp)
    | cons b l =>
      simp only [minCount]
      exact Nat.le_min.mpr ⟨h a (by simp), ih (by simp) (fun c hc => h c (List.mem_cons_of_mem _ hc))⟩

/-- some counter attains the minimum -/
theorem exists_minCount (cs : List Ctr) (hne : cs ≠ []) : ∃ c ∈ cs, c.count = minCount cs := by
  induction cs with
  | nil => exact absurd rfl hne
  | cons a l ih =>
    cases l with
    | nil => exact ⟨a, by simp, by simp [minCount]⟩
    | cons b l =>
      obtain ⟨c, hc, he⟩ := ih (by simp)
      simp only [minCount]
      by_cases hle : a.count ≤ minCount (b :: l)
      · exact ⟨a, by simp, by rw [Nat.min_eq_left hle]⟩
      · exact ⟨c, List.mem_cons_of_mem _ hc, by rw [Nat.min_eq_right (by omega)]; exact he⟩

theorem firstMin_spec (cs : List Ctr) (hne : cs ≠ []) :
    ∃ m, firstMin cs = some m ∧ m ∈ cs ∧ m.count = minCount cs := by
  obtain ⟨c, hc, he⟩ := exists_minCount cs hne
  unfold firstMin
  cases hf : cs.find? (fun c => c.count == minCount cs) with
  | none =>
    rw [List.find?_eq_none] at hf
    exact absurd (by simpa using he) (hf c hc)
  | some m =>
    exact ⟨m, rfl, List.mem_of_find?_eq_some hf, by simpa using List.find?_some hf⟩

theorem minCount_mul_le (cs : List Ctr) : minCount cs * cs.length ≤ sumCounts cs := by
  induction cs with
  | nil => simp
  | cons a l ih =>
    have h1 : minCount (a :: l) ≤ a.count := minCount_le _ a (by simp)
    have h2 : minCount (a :: l) * l.length ≤ sumCounts l := by
      cases l with
      | nil => simp
      | cons b l' =>
        have : minCount (a :: b :: l') ≤ minCount (b :: l') := by simp only [minCount]; exact Nat.min_le_right _ _
        exact Nat.le_trans (Nat.mul_le_mul_right _ this) ih
    simp only [List.length_cons, sumCounts_cons, Nat.mul_succ]
    omega

theorem isTracked_iff (cs : List Ctr) (x : Nat) : isTracked cs x = true ↔ ∃ c ∈ cs, c.item = x := by
  simp [isTracked]

theorem isTracked_false_iff (cs : List Ctr) (x : Nat) : isTracked cs x = false ↔ ∀ c ∈ cs, c.item ≠ x := by
  rw [← Bool.not_eq_true, isTracked_iff]; simp

theorem map_item_incr (x c : Nat) (cs : List Ctr) : (incr x c cs).map (·.item) = cs.map (·.item) := by
  unfold incr
  rw [List.map_map]
  apply List.map_congr_left
  intro a _
  simp only [Function.comp]
  split <;> rfl

theorem sumCounts_incr_of_not_mem (x c : Nat) (cs : List Ctr) (h : ∀ a ∈ cs, a.item ≠ x) :
    sumCounts (incr x c cs) = sumCounts cs := by
  induction cs with
  | nil => rfl
  | cons a l ih =>
    have ha : a.item ≠ x := h a (by simp)
    have := ih (fun b hb => h b (List.mem_cons_of_mem _ hb))
    simp only [incr, List.map_cons, sumCounts_cons] at this ⊢
    simp [ha, this]

theorem sumCounts_incr (x c : Nat) (cs : List Ctr) (nd : (cs.map (·.item)).Nodup)
    (h : ∃ a ∈ cs, a.item = x) : sumCounts (incr x c cs) = sumCounts cs + c := by
  induction cs with
  | nil => simp at h
  | cons a l ih =>
    simp only [List.map_cons, List.nodup_cons] at nd
    by_cases ha : a.item = x
    · have hrest : ∀ b ∈ l, b.item ≠ x := by
        intro b hb hbx
        exact nd.1 (List.mem_map.mpr ⟨b, hb, by rw [hbx, ha]⟩)
      have := sumCounts_incr_of_not_mem x c l hrest
      simp only [incr, List.map_cons, sumCounts_cons] at this ⊢
      simp [ha, this]; omega
    · obtain ⟨b, hb, hbx⟩ := h
      have hb' : b ∈ l := by
        rcases List.mem_cons.mp hb with rfl | hb
        · exact absurd hbx ha
        · exact hb
      have := ih nd.2 ⟨b, hb', hbx⟩
      simp only [incr, List.map_cons, sumCounts_cons] at this ⊢
      simp [ha, this]; omega

/-- deleting the (unique) counter of `m.item` -/
theorem filter_remove (cs : List Ctr) (m : Ctr) (nd : (cs.map (·.item)).Nodup) (hm : m ∈ cs) :
    (cs.filter (fun ct => ct.item != m.item)).length + 1 = cs.length ∧
    sumCounts (cs.filter (fun ct => ct.item != m.item)) + m.count = sumCounts cs := by
  induction cs with
  | nil => simp at hm
  | cons a l ih =>
    simp only [List.map_cons, List.nodup_cons] at nd
    by_cases ha : a.item = m.item
    · have hrest : ∀ b ∈ l, b.item ≠ m.item := by
        intro b hb hbx
        exact nd.1 (List.mem_map.mpr ⟨b, hb, by rw [hbx, ha]⟩)
      have ham : a = m := by
        rcases List.mem_cons.mp hm with h | h
        · exact h.symm
        · exact absurd rfl (hrest m h)
      have hfil : l.filter (fun ct => ct.item != m.item) = l := by
        rw [List.filter_eq_self]; intro b hb; simpa using hrest b hb
      subst ham
      simp only [List.filter_cons, bne_self_eq_false, Bool.false_eq_true, ↓reduceIte, hfil,
        List.length_cons, sumCounts_cons]
      exact ⟨trivial, Nat.add_comm _ _⟩
    · have hm' : m ∈ l := by
        rcases List.mem_cons.mp hm with h | h
        · exact absurd (by rw [h]) ha
        · exact h
      have := ih nd.2 hm'
      have hne : (a.item != m.item) = true := by simpa using ha
      simp only [List.filter_cons, hne, ↓reduceIte, List.length_cons, sumCounts_cons]
      omega

end HappyModel.C20
