import HappyProofs.C05.Tree
import HappyProofs.C05.Coord
/-!
The potential of a partition: what it has delivered up to `T` plus the delivery trees of everything
still pending (heap and outbox).  One loop iteration that delivers (does not discard) preserves it
as a multiset; so does a whole window.
-/
namespace HappyModel.C05

variable {σ : Type}

section
variable (em : PEv → List Emit) (rank : PEv → Nat) (T : Nat)

/-- delivery trees (up to `T`) of a list of pending events -/
def F (l : List Ev) : List PEv := (l.map proj).flatMap (tree em rank T)

theorem F_append (a b : List Ev) : F em rank T (a ++ b) = F em rank T a ++ F em rank T b := by
  simp [F, List.map_append, List.flatMap_append]

theorem F_cons (m : Ev) (l : List Ev) : F em rank T (m :: l) = tree em rank T (proj m) ++ F em rank T l := by
  simp [F, List.flatMap_cons]

theorem F_perm {a b : List Ev} (h : a.Perm b) : (F em rank T a).Perm (F em rank T b) :=
  (h.map proj).flatMap_right _

theorem F_nil_of_gt (l : List Ev) (h : ∀ e ∈ l, T < e.time) : F em rank T l = [] := by
  unfold F
  apply flatMap_tree_nil
  intro e he
  simp only [List.mem_map] at he
  obtain ⟨x, hx, rfl⟩ := he
  exact h x hx

def logPart (p : Part σ) : List PEv := (p.log.map proj).filter (fun e => e.time ≤ T)

def pot (p : Part σ) : List PEv :=
  logPart T p ++ (F em rank T p.heap ++ F em rank T (p.outbox.map (·.1)))

end

theorem split_loc_out (r : Nat → Route) (evs : List Ev) (hnb : evs.any (isBad r) = false) :
    evs.Perm (evs.filter (isLoc r) ++ evs.filter (isOut r)) := by
  induction evs with
  | nil => simp
  | cons e es ih =>
    simp only [List.any_cons, Bool.or_eq_false_iff] at hnb
    have ih' := ih hnb.2
    have hb := hnb.1
    simp only [List.filter_cons, isLoc, isOut, isBad] at hb ⊢
    by_cases h1 : r e.tgt = .loc
    · simpa [h1] using ih'.cons e
    · by_cases h2 : r e.tgt = .out
      · simp only [h2]
        exact (ih'.cons e).trans List.perm_middle.symm
      · exfalso
        cases h3 : r e.tgt <;> simp_all

theorem map_fst_pair (l : List Ev) (t : Nat) : (l.map (fun x => (x, t))).map (·.1) = l := by
  induction l with
  | nil => rfl
  | cons a l ih => simp_all

variable {em : PEv → List Emit} {rank : PEv → Nat} {T : Nat}

theorem pot_deliver {h : Handler σ} {r : Nat → Route} (hr : Ranked em rank) (hed : EventDetermined h em)
    (p : Part σ) (m : Ev) (rest : List Ev) (hp : p.heap.Perm (m :: rest))
    (hnb : (deliver h r p m rest).bad = false) :
    (pot em rank T (deliver h r p m rest)).Perm (pot em rank T p) := by
  have hch : (mkEvents m.time p.ctr (h p.st m).2).map proj = childrenOf em (proj m) := by
    rw [proj_mkEvents, hed]; rfl
  have hnb' : (mkEvents m.time p.ctr (h p.st m).2).any (isBad r) = false := by
    simp only [deliver, Bool.or_eq_false_iff] at hnb
    exact hnb.2
  have hsplit := split_loc_out r _ hnb'
  rw [List.perm_iff_count]
  intro a
  have c1 := (F_perm em rank T hp).count_eq a
  have c2 := (F_perm em rank T hsplit).count_eq a
  rw [F_cons] at c1
  rw [F_append] at c2
  have hFe : F em rank T (mkEvents m.time p.ctr (h p.st m).2)
      = (childrenOf em (proj m)).flatMap (tree em rank T) := by
    unfold F; rw [hch]
  have e_out : ((p.outbox ++ ((mkEvents m.time p.ctr (h p.st m).2).filter (isOut r)).map
        (fun x => (x, m.time))).map (·.1))
      = p.outbox.map (·.1) ++ (mkEvents m.time p.ctr (h p.st m).2).filter (isOut r) := by
    rw [List.map_append, map_fst_pair]
  have e_pot : pot em rank T (deliver h r p m rest)
      = ((proj m :: p.log.map proj).filter (fun e => e.time ≤ T))
        ++ ((F em rank T rest ++ F em rank T ((mkEvents m.time p.ctr (h p.st m).2).filter (isLoc r)))
        ++ (F em rank T (p.outbox.map (·.1))
            ++ F em rank T ((mkEvents m.time p.ctr (h p.st m).2).filter (isOut r)))) := by
    simp only [pot, logPart, deliver, List.map_cons, F_append, e_out]
  rw [e_pot]
  simp only [pot, logPart, List.count_append] at c1 c2 ⊢
  by_cases hT : m.time ≤ T
  · have ht : tree em rank T (proj m) = proj m :: (childrenOf em (proj m)).flatMap (tree em rank T) := by
      rw [tree_unfold hr]; simp [proj, hT]
    rw [ht, ← hFe] at c1
    have hf : (proj m :: p.log.map proj).filter (fun e => e.time ≤ T)
        = proj m :: (p.log.map proj).filter (fun e => e.time ≤ T) := by
      simp [proj, hT]
    rw [hf]
    simp only [List.count_cons] at c1 ⊢
    omega
  · have ht : tree em rank T (proj m) = [] := tree_of_gt T _ (by simp [proj]; omega)
    have hz : F em rank T (mkEvents m.time p.ctr (h p.st m).2) = [] := by
      apply F_nil_of_gt
      intro e he
      have := mkEvents_time_ge he
      omega
    rw [ht] at c1
    rw [hz] at c2
    have hf : (proj m :: p.log.map proj).filter (fun e => e.time ≤ T)
        = (p.log.map proj).filter (fun e => e.time ≤ T) := by
      simp [proj, hT]
    rw [hf]
    simp only [List.count_nil] at c1 c2
    omega

/-- window-level invariant: `WInv`, ownership of everything delivered, potential preserved -/
structure PInv (em : PEv → List Emit) (rank : PEv → Nat) (T : Nat) (r : Nat → Route)
    (own : Ev → Prop) (b : Nat) (p0 p : Part σ) : Prop where
  w : WInv r own b p
  logOwned : ∀ d ∈ p.log, own d
  pot : p.bad = false → (pot em rank T p).Perm (pot em rank T p0)

theorem PInv.step {h : Handler σ} {r : Nat → Route} {own : Ev → Prop} {b : Nat} {strict : Bool}
    {we : Nat} {p0 p p' : Part σ} (hr : Ranked em rank) (hed : EventDetermined h em)
    (hown : ∀ ev : Ev, r ev.tgt = .loc → own ev)
    (inv : PInv em rank T r own b p0 p) (hs : stepWin h r strict we p = some p') :
    PInv em rank T r own b p0 p' := by
  have hw' := inv.w.step hown hs
  obtain ⟨x, xs, hx, hpb, _, _, hc⟩ := stepWin_cases h r strict we p p' hs
  have hmem : minOf x xs ∈ p.heap := hx ▸ minOf_mem x xs
  rcases hc with ⟨hlt, rfl⟩ | ⟨hge, rfl⟩
  · have := inv.w.geClock _ hmem
    omega
  · refine ⟨hw', ?_, ?_⟩
    · intro d hd
      simp only [deliver, List.mem_cons] at hd
      rcases hd with rfl | hd
      · exact inv.w.owned _ hmem
      · exact inv.logOwned d hd
    · intro hnb
      have hp : p.heap.Perm (minOf x xs :: (x :: xs).erase (minOf x xs)) := hx ▸ heap_perm_pop x xs
      exact (pot_deliver hr hed p _ _ hp hnb).trans (inv.pot hpb)

theorem PInv.run {h : Handler σ} {r : Nat → Route} {own : Ev → Prop} {b : Nat} {strict : Bool}
    {we : Nat} {p0 : Part σ} (hr : Ranked em rank) (hed : EventDetermined h em)
    (hown : ∀ ev : Ev, r ev.tgt = .loc → own ev) (n : Nat) {p : Part σ}
    (inv : PInv em rank T r own b p0 p) : PInv em rank T r own b p0 (runWin h r strict we n p) :=
  runWin_induct h r strict we (PInv em rank T r own b p0) (fun _ _ i hs => i.step hr hed hown hs) n p inv

theorem PInv.refl {r : Nat → Route} {own : Ev → Prop} {b : Nat} {p : Part σ}
    (w : WInv r own b p) (lo : ∀ d ∈ p.log, own d) : PInv em rank T r own b p p :=
  ⟨w, lo, fun _ => List.Perm.refl _⟩

end HappyModel.C05
