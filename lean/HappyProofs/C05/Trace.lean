import HappyProofs.C05.Tree
/-!
The abstract asynchronous system behind both engines, for entity-local stateful handlers.

State: the entities' states and the multiset of pending events (without creation indices).  An
*execution* is a list of deliveries, each taken from what is pending.  Both the sequential engine
and the partitioned coordinator produce executions of this system (`HappyProofs/C05/Sim.lean`).

`confluence`: an execution that always delivers a time-minimal pending event (the sequential
engine) and any execution that delivers to every entity in time order (the partitioned run), both
complete up to `T`, deliver the same multiset of events and end in the same entity states —
provided two deliveries of the second execution to one entity at one timestamp commute for the
handler (`CommAt`; vacuous when the second execution has no such pair).  The proof moves the first
delivery of the sequential execution to the front of the other one: it passes deliveries to other
entities (independent) and same-timestamp deliveries to the same entity (commute by hypothesis);
a delivery to the same entity at an earlier time cannot stand before it.
-/
namespace HappyModel.C05

variable {τ : Type}

/-- an entity's handler on events without creation index -/
abbrev EHandler (τ : Type) := τ → PEv → τ × List Emit

def emitAt (t : Nat) (ems : List Emit) : List PEv := ems.map (fun x => ⟨t + x.delay, x.tgt, x.kind⟩)

structure AS (τ : Type) where
  st : Nat → τ
  pend : List PEv

def astep (hE : EHandler τ) (s : AS τ) (d : PEv) : AS τ :=
  { st := fun x => if x = d.tgt then (hE (s.st d.tgt) d).1 else s.st x
    pend := s.pend.erase d ++ emitAt d.time (hE (s.st d.tgt) d).2 }

def arun (hE : EHandler τ) : AS τ → List PEv → AS τ
  | s, [] => s
  | s, d :: ds => arun hE (astep hE s d) ds

/-- every delivery was pending -/
def Valid (hE : EHandler τ) : AS τ → List PEv → Prop
  | _, [] => True
  | s, d :: ds => d ∈ s.pend ∧ Valid hE (astep hE s d) ds

/-- every delivery was a time-minimum of what was pending (the sequential engine) -/
def MinFirst (hE : EHandler τ) : AS τ → List PEv → Prop
  | _, [] => True
  | s, d :: ds => (∀ e ∈ s.pend, d.time ≤ e.time) ∧ MinFirst hE (astep hE s d) ds

/-- same entity states, same pending events as a multiset -/
structure AEq (s s' : AS τ) : Prop where
  st : s.st = s'.st
  pend : s.pend.Perm s'.pend

theorem AEq.refl (s : AS τ) : AEq s s := ⟨rfl, List.Perm.refl _⟩
theorem AEq.symm {s s' : AS τ} (h : AEq s s') : AEq s' s := ⟨h.st.symm, h.pend.symm⟩
theorem AEq.trans {a b c : AS τ} (h1 : AEq a b) (h2 : AEq b c) : AEq a c :=
  ⟨h1.st.trans h2.st, h1.pend.trans h2.pend⟩

theorem astep_congr (hE : EHandler τ) {s s' : AS τ} (h : AEq s s') (d : PEv) :
    AEq (astep hE s d) (astep hE s' d) := by
  constructor
  · simp only [astep, h.st]
  · simp only [astep, h.st]
    exact (h.pend.erase d).append (List.Perm.refl _)

theorem arun_congr (hE : EHandler τ) (ds : List PEv) : ∀ {s s' : AS τ}, AEq s s' →
    AEq (arun hE s ds) (arun hE s' ds) := by
  induction ds with
  | nil => intro s s' h; exact h
  | cons d ds ih => intro s s' h; exact ih (astep_congr hE h d)

theorem Valid_congr (hE : EHandler τ) (ds : List PEv) : ∀ {s s' : AS τ}, AEq s s' →
    Valid hE s ds → Valid hE s' ds := by
  induction ds with
  | nil => intro s s' _ _; trivial
  | cons d ds ih =>
    intro s s' h hv
    exact ⟨h.pend.mem_iff.mp hv.1, ih (astep_congr hE h d) hv.2⟩

theorem arun_append (hE : EHandler τ) (a b : List PEv) : ∀ s : AS τ,
    arun hE s (a ++ b) = arun hE (arun hE s a) b := by
  induction a with
  | nil => intro s; rfl
  | cons d ds ih => intro s; exact ih (astep hE s d)

theorem Valid_append (hE : EHandler τ) (a b : List PEv) : ∀ s : AS τ,
    Valid hE s (a ++ b) ↔ Valid hE s a ∧ Valid hE (arun hE s a) b := by
  induction a with
  | nil => intro s; simp [Valid, arun]
  | cons d ds ih =>
    intro s
    simp only [List.cons_append, Valid, arun, ih, and_assoc]

/-- a pending event stays pending until it is delivered -/
theorem persist (hE : EHandler τ) (e : PEv) (ds : List PEv) : ∀ s : AS τ, e ∈ s.pend →
    e ∈ ds ∨ e ∈ (arun hE s ds).pend := by
  induction ds with
  | nil => intro s h; exact Or.inr h
  | cons d ds ih =>
    intro s h
    by_cases hed : e = d
    · exact Or.inl (by simp [hed])
    · have : e ∈ (astep hE s d).pend := by
        simp only [astep, List.mem_append]
        exact Or.inl ((List.mem_erase_of_ne hed).mpr h)
      rcases ih _ this with h1 | h1
      · exact Or.inl (by simp [h1])
      · exact Or.inr h1

theorem mem_emitAt {t : Nat} {ems : List Emit} {e : PEv} (h : e ∈ emitAt t ems) : t ≤ e.time := by
  simp only [emitAt, List.mem_map] at h
  obtain ⟨x, _, rfl⟩ := h
  simp

/-- nothing earlier than everything pending is ever delivered -/
theorem ge_of_valid (hE : EHandler τ) (t : Nat) (ds : List PEv) : ∀ s : AS τ,
    (∀ e ∈ s.pend, t ≤ e.time) → Valid hE s ds → ∀ e ∈ ds, t ≤ e.time := by
  induction ds with
  | nil => intro s _ _ e he; simp at he
  | cons d ds ih =>
    intro s hp hv e he
    simp only [List.mem_cons] at he
    rcases he with rfl | he
    · exact hp _ hv.1
    · refine ih (astep hE s d) ?_ hv.2 e he
      intro x hx
      simp only [astep, List.mem_append] at hx
      rcases hx with hx | hx
      · exact hp x (List.mem_of_mem_erase hx)
      · exact Nat.le_trans (hp _ hv.1) (mem_emitAt hx)

/-- two deliveries to one entity at one timestamp commute for the handler: same state afterwards,
    the same emissions as a multiset -/
def CommAt (hE : EHandler τ) (a d : PEv) : Prop :=
  ∀ σ0 : τ, (hE (hE σ0 a).1 d).1 = (hE (hE σ0 d).1 a).1
    ∧ ((hE σ0 a).2 ++ (hE (hE σ0 a).1 d).2).Perm ((hE σ0 d).2 ++ (hE (hE σ0 d).1 a).2)

theorem emitAt_append (t : Nat) (a b : List Emit) : emitAt t (a ++ b) = emitAt t a ++ emitAt t b := by
  simp [emitAt]

/-- adjacent deliveries to different entities, or to one entity at one timestamp when the handler
    commutes there, can be exchanged -/
theorem swap (hE : EHandler τ) (s : AS τ) (a d : PEv) (hd : d ∈ s.pend) (ha : a ∈ s.pend) (hne : a ≠ d)
    (hc : a.tgt ≠ d.tgt ∨ (a.time = d.time ∧ a.tgt = d.tgt ∧ CommAt hE a d)) :
    AEq (astep hE (astep hE s a) d) (astep hE (astep hE s d) a) := by
  have hd' : d ∈ s.pend.erase a := (List.mem_erase_of_ne (Ne.symm hne)).mpr hd
  have ha' : a ∈ s.pend.erase d := (List.mem_erase_of_ne hne).mpr ha
  rcases hc with hc | ⟨ht, hx, hcomm⟩
  · have hc' : d.tgt ≠ a.tgt := Ne.symm hc
    constructor
    · funext x
      simp only [astep]
      by_cases h1 : x = d.tgt
      · subst h1; simp [hc']
      · by_cases h2 : x = a.tgt
        · subst h2; simp [hc]
        · simp [h1, h2]
    · simp only [astep, hc, hc', if_false]
      rw [List.erase_append_left _ hd', List.erase_append_left _ ha', List.erase_comm]
      simp only [List.append_assoc]
      exact List.Perm.append (List.Perm.refl _) List.perm_append_comm
  · obtain ⟨h1, h2⟩ := hcomm (s.st a.tgt)
    constructor
    · funext x
      simp only [astep, hx]
      by_cases hxx : x = d.tgt
      · simp only [hxx, if_true]; rw [← hx]; exact h1
      · simp [hxx]
    · simp only [astep, hx, if_true]
      rw [List.erase_append_left _ hd', List.erase_append_left _ ha', List.erase_comm]
      simp only [List.append_assoc, ht]
      refine List.Perm.append (List.Perm.refl _) ?_
      rw [← emitAt_append, ← emitAt_append]
      rw [← hx]
      exact h2.map _

/-- move a pending delivery `d` to the front, past deliveries it can be exchanged with -/
theorem pull (hE : EHandler τ) (d : PEv) (B : List PEv) : ∀ (A : List PEv) (s : AS τ),
    Valid hE s (A ++ d :: B) → d ∈ s.pend →
    (∀ a ∈ A, a ≠ d ∧ (a.tgt ≠ d.tgt ∨ (a.time = d.time ∧ a.tgt = d.tgt ∧ CommAt hE a d))) →
    Valid hE s (d :: (A ++ B)) ∧ AEq (arun hE s (d :: (A ++ B))) (arun hE s (A ++ d :: B)) := by
  intro A
  induction A with
  | nil => intro s hv _ _; exact ⟨hv, AEq.refl _⟩
  | cons a A ih =>
    intro s hv hd hA
    obtain ⟨hne, hc⟩ := hA a (by simp)
    have hva : a ∈ s.pend := hv.1
    have hd1 : d ∈ (astep hE s a).pend := by
      simp only [astep, List.mem_append]
      exact Or.inl ((List.mem_erase_of_ne (Ne.symm hne)).mpr hd)
    obtain ⟨h1, h2⟩ := ih (astep hE s a) hv.2 hd1 (fun b hb => hA b (by simp [hb]))
    have hsw := swap hE s a d hd hva hne hc
    have ha1 : a ∈ (astep hE s d).pend := by
      simp only [astep, List.mem_append]
      exact Or.inl ((List.mem_erase_of_ne hne).mpr hva)
    refine ⟨⟨hd, ha1, Valid_congr hE _ hsw h1.2⟩, ?_⟩
    exact (arun_congr hE (A ++ B) hsw.symm).trans h2

theorem split_first {α} [DecidableEq α] (d : α) : ∀ l : List α, d ∈ l →
    ∃ A B, l = A ++ d :: B ∧ d ∉ A := by
  intro l
  induction l with
  | nil => intro h; simp at h
  | cons x xs ih =>
    intro h
    by_cases hx : x = d
    · exact ⟨[], xs, by simp [hx], by simp⟩
    · have : d ∈ xs := by
        simp only [List.mem_cons] at h
        rcases h with h | h
        · exact absurd h.symm hx
        · exact h
      obtain ⟨A, B, rfl, hA⟩ := ih this
      refine ⟨x :: A, B, rfl, ?_⟩
      simp only [List.mem_cons, not_or]
      exact ⟨fun h => hx h.symm, hA⟩

/-- deliveries to one entity are in time order -/
def TgtSorted (E : List PEv) : Prop := E.Pairwise (fun a b => a.tgt = b.tgt → a.time ≤ b.time)

/-- the handler commutes on every pair of deliveries of `E` to one entity at one timestamp -/
def TieComm (hE : EHandler τ) (E : List PEv) : Prop :=
  ∀ a ∈ E, ∀ d ∈ E, a ≠ d → a.tgt = d.tgt → a.time = d.time → CommAt hE a d

/-- **confluence** of the abstract system, see the header -/
theorem confluence (hE : EHandler τ) (T : Nat) : ∀ (E1 E2 : List PEv) (s s' : AS τ), AEq s s' →
    Valid hE s E1 → MinFirst hE s E1 → (∀ e ∈ E1, e.time ≤ T) →
    (∀ e ∈ (arun hE s E1).pend, T < e.time) →
    Valid hE s' E2 → TgtSorted E2 → (∀ e ∈ E2, e.time ≤ T) →
    (∀ e ∈ (arun hE s' E2).pend, T < e.time) → TieComm hE E2 →
    E1.Perm E2 ∧ (arun hE s E1).st = (arun hE s' E2).st := by
  intro E1
  induction E1 with
  | nil =>
    intro E2 s s' heq _ _ _ hfin hv2 _ hle2 _ _
    cases E2 with
    | nil => exact ⟨List.Perm.refl _, heq.st⟩
    | cons a E2 =>
      exfalso
      have h1 : a ∈ s.pend := heq.pend.mem_iff.mpr hv2.1
      have := hfin a h1
      have := hle2 a (by simp)
      omega
  | cons d E1 ih =>
    intro E2 s s' heq hv1 hm1 hle1 hfin1 hv2 hs2 hle2 hfin2 hc2
    have hdT : d.time ≤ T := hle1 d (by simp)
    have hd' : d ∈ s'.pend := heq.pend.mem_iff.mp hv1.1
    have hdE2 : d ∈ E2 := by
      rcases persist hE d E2 s' hd' with h | h
      · exact h
      · have := hfin2 d h; omega
    obtain ⟨A, B, rfl, hdA⟩ := split_first d E2 hdE2
    have hge : ∀ e ∈ A ++ d :: B, d.time ≤ e.time :=
      ge_of_valid hE d.time _ s' (fun e he => hm1.1 e (heq.pend.mem_iff.mpr he)) hv2
    have hA : ∀ a ∈ A, a ≠ d ∧ (a.tgt ≠ d.tgt ∨ (a.time = d.time ∧ a.tgt = d.tgt ∧ CommAt hE a d)) := by
      intro a ha
      have hne : a ≠ d := fun h => hdA (h ▸ ha)
      refine ⟨hne, ?_⟩
      by_cases ht : a.tgt = d.tgt
      · right
        have h1 : a.time ≤ d.time := by
          have := (List.pairwise_append.mp hs2).2.2 a ha d (by simp)
          exact this ht
        have h2 := hge a (by simp [ha])
        have hte : a.time = d.time := by omega
        exact ⟨hte, ht, hc2 a (by simp [ha]) d (by simp) hne ht hte⟩
      · exact Or.inl ht
    obtain ⟨hvp, heqp⟩ := pull hE d B A s' hv2 hd' hA
    have hsub : (A ++ B).Sublist (A ++ d :: B) :=
      List.Sublist.append (List.Sublist.refl _) (List.sublist_cons_self d B)
    have hmem : ∀ e ∈ A ++ B, e ∈ A ++ d :: B := fun e he => hsub.subset he
    have key := ih (A ++ B) (astep hE s d) (astep hE s' d) (astep_congr hE heq d) hv1.2 hm1.2
      (fun e he => hle1 e (by simp [he])) hfin1 hvp.2 (List.Pairwise.sublist hsub hs2)
      (fun e he => hle2 e (hmem e he))
      (fun e he => hfin2 e (heqp.pend.mem_iff.mp he))
      (fun a ha b hb => hc2 a (hmem a ha) b (hmem b hb))
    refine ⟨?_, ?_⟩
    · exact (key.1.cons d).trans List.perm_middle.symm
    · show (arun hE (astep hE s d) E1).st = _
      rw [key.2]
      exact heqp.st

end HappyModel.C05
