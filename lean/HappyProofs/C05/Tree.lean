import HappyProofs.C05.Exchange
/-!
Delivery trees.  For a handler whose emissions are a function of the delivered event only
(`EventDetermined`), the multiset of deliveries up to time `T` that an event causes is a function
of the event: itself plus the trees of its children.  Both engines deliver exactly
`flatMap tree` of their initial events, whatever the order — this is the confluence argument
behind `par_eq_seq_partial`.
-/
namespace HappyModel.C05

/-- an event without its creation index: what the property compares -/
structure PEv where
  time : Nat
  tgt : Nat
  kind : Nat
deriving DecidableEq, Repr

def proj (e : Ev) : PEv := ⟨e.time, e.tgt, e.kind⟩

def childrenOf (em : PEv → List Emit) (e : PEv) : List PEv :=
  (em e).map (fun x => ⟨e.time + x.delay, x.tgt, x.kind⟩)

/-- the handler's emissions depend on the delivered event only (not on entity state / history) -/
def EventDetermined {σ} (h : Handler σ) (em : PEv → List Emit) : Prop :=
  ∀ st e, (h st e).2 = em (proj e)

/-- emission strictly decreases a rank: programs are finite -/
def Ranked (em : PEv → List Emit) (rank : PEv → Nat) : Prop :=
  ∀ e c, c ∈ childrenOf em e → rank c < rank e

theorem proj_mkEvents (now ctr : Nat) (ems : List Emit) :
    (mkEvents now ctr ems).map proj = ems.map (fun x => ⟨now + x.delay, x.tgt, x.kind⟩) := by
  induction ems generalizing ctr with
  | nil => simp [mkEvents]
  | cons s ss ih => simp [mkEvents, proj, ih]

def treeN (em : PEv → List Emit) (T : Nat) : Nat → PEv → List PEv
  | 0, _ => []
  | n + 1, e => if e.time ≤ T then e :: (childrenOf em e).flatMap (treeN em T n) else []

def tree (em : PEv → List Emit) (rank : PEv → Nat) (T : Nat) (e : PEv) : List PEv :=
  treeN em T (rank e + 1) e

theorem flatMap_congr_mem {α β} {l : List α} {f g : α → List β} (h : ∀ a ∈ l, f a = g a) :
    l.flatMap f = l.flatMap g := by
  induction l with
  | nil => rfl
  | cons a l ih =>
    simp only [List.flatMap_cons]
    rw [h a (by simp), ih (fun b hb => h b (by simp [hb]))]

theorem treeN_stable {em : PEv → List Emit} {rank : PEv → Nat} (hr : Ranked em rank) (T : Nat) :
    ∀ (n m : Nat) (e : PEv), rank e < n → rank e < m → treeN em T n e = treeN em T m e := by
  intro n
  induction n with
  | zero => intro m e h; omega
  | succ n ih =>
    intro m e hn hm
    cases m with
    | zero => omega
    | succ m =>
      simp only [treeN]
      split
      · congr 1
        apply flatMap_congr_mem
        intro c hc
        have := hr e c hc
        exact ih m c (by omega) (by omega)
      · rfl

theorem tree_unfold {em : PEv → List Emit} {rank : PEv → Nat} (hr : Ranked em rank) (T : Nat) (e : PEv) :
    tree em rank T e
      = if e.time ≤ T then e :: (childrenOf em e).flatMap (tree em rank T) else [] := by
  have h0 : tree em rank T e = treeN em T (rank e + 1) e := rfl
  rw [h0, treeN]
  split
  · congr 1
    apply flatMap_congr_mem
    intro c hc
    have := hr e c hc
    show treeN em T (rank e) c = treeN em T (rank c + 1) c
    exact treeN_stable hr T _ _ c (by omega) (by omega)
  · rfl

theorem tree_of_gt {em : PEv → List Emit} {rank : PEv → Nat} (T : Nat) (e : PEv) (h : T < e.time) :
    tree em rank T e = [] := by
  unfold tree
  simp only [treeN]
  split
  · omega
  · rfl

theorem flatMap_tree_nil {em : PEv → List Emit} {rank : PEv → Nat} (T : Nat) (l : List PEv)
    (h : ∀ e ∈ l, T < e.time) : l.flatMap (tree em rank T) = [] := by
  induction l with
  | nil => rfl
  | cons a l ih =>
    simp only [List.flatMap_cons]
    rw [tree_of_gt T a (h a (by simp)), ih (fun b hb => h b (by simp [hb]))]
    rfl

end HappyModel.C05
