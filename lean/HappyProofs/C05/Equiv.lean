import HappyProofs.C05.ParSeq
import HappyModel.C05.Spec
/-!
Assembly of `par_eq_seq_partial`: both engines deliver, up to the end time, the delivery trees of
the initial events; per-entity logs are sorted by time; hence they are equal up to the order inside
one timestamp.
-/
namespace HappyModel.C05

variable {σ : Type} {em : PEv → List Emit} {rank : PEv → Nat}

/-- what a harness entity `x` observes: (time, kind) of its deliveries, in delivery order -/
def obsOf (e : Ev) : Obs := (e.time, e.kind)

def Part.obsLog (p : Part σ) (x : Nat) : List Obs :=
  ((p.log.reverse).filter (fun e => e.tgt == x)).map obsOf

/-- the log entity `x` observes in a partitioned run (only its own partition delivers to it) -/
def parObs (ps : List (Part σ)) (x : Nat) : List Obs :=
  ((ps.flatMap (fun p => p.log.reverse)).filter (fun e => e.tgt == x)).map obsOf

theorem exchange_logInv (c : Cfg) (ps : List (Part σ)) (hl : ∀ p ∈ ps, LogInv p) :
    ∀ p ∈ exchange c ps, LogInv p := by
  intro p hp
  simp only [exchange, List.mem_map] at hp
  obtain ⟨q, hq, rfl⟩ := hp
  exact ⟨(hl q hq).sorted, (hl q hq).leClock⟩

theorem oneWindow_logInv (h : Handler σ) (c : Cfg) (strict : Bool) (fuel we : Nat) (ps : List (Part σ))
    (hl : ∀ p ∈ ps, LogInv p) : ∀ p ∈ oneWindow h c strict fuel we ps, LogInv p := by
  apply exchange_logInv
  intro p hp
  simp only [execAll, List.mem_map] at hp
  obtain ⟨q, hq, rfl⟩ := hp
  exact (hl q hq).run fuel

theorem obsLog_sorted {p : Part σ} (inv : LogInv p) (x : Nat) : TimeSorted (p.obsLog x) := by
  unfold TimeSorted Part.obsLog
  rw [List.pairwise_map]
  apply List.Pairwise.filter
  rw [List.pairwise_reverse]
  exact inv.sorted.imp (fun hab => by simpa [obsOf] using hab)

/-! ### the final pass leaves nothing at or before the end time -/

theorem oneWindow_heap_gt (h : Handler σ) (c : Cfg) (fuel b we w : Nat) (ps : List (Part σ))
    (hw : WindowLeLat c w) (hb : b ≤ we) (hgt : we < b + w) (safe : Safe c b ps)
    (ok : WindowOk h c fuel we ps) :
    ∀ p ∈ oneWindow h c true fuel we ps, ∀ e ∈ p.heap, we < e.time := by
  intro p hp e he
  simp only [oneWindow, exchange, List.mem_map] at hp
  obtain ⟨q', hq', rfl⟩ := hp
  have hq'' := hq'
  simp only [execAll, List.mem_map] at hq''
  obtain ⟨q, hq, rfl⟩ := hq''
  have hcl : (runWin h (c.route q.pid) true we fuel q).clock ≤ we :=
    strict_clock_le fuel (Nat.le_trans (safe.clock q hq) hb)
  simp only [inject, List.mem_append, List.mem_map, List.mem_filter] at he
  rcases he with he | ⟨m, ⟨hm, _⟩, rfl⟩
  · exact halted_strict_heap_gt (ok.halt _ hq') (ok.good _ hq') hcl e he
  · obtain ⟨s', hs', x, hx, rfl⟩ := mem_allMsgs hm
    simp only [execAll, List.mem_map] at hs'
    obtain ⟨s, hs, rfl⟩ := hs'
    have h1 := ((WInv.run (h := h) (strict := true) (we := we) (route_loc_owns c s.pid) fuel
      (safe.inv s hs)).out x hx).1
    have h2 : x.2 + w ≤ x.1.time := latOk_arrival hw (ok.lat _ hm)
    show we < x.1.time
    omega

/-! ### the parallel run delivers the trees of its initial events -/

theorem par_delivers_tree (h : Handler σ) (c : Cfg) (ids : List Nat) (fuel wEff endT n : Nat)
    (s : Coord σ) (hr : Ranked em rank) (hed : EventDetermined h em)
    (hids : ids.Nodup) (hlinks : ∀ l ∈ c.links, l.dst ∈ ids)
    (hw : WindowLeLat c wEff) (hpos : 0 < wEff) (he : s.err = none) (hcur : s.cur ≤ endT)
    (P0 : List PEv) (inv : SInv em rank endT c ids P0 s.cur s.parts) (hl : ∀ p ∈ s.parts, LogInv p)
    (hres : (coordLoop h c true fuel wEff endT n s).err = none) :
    (sysLog endT (coordLoop h c true fuel wEff endT n s).parts).Perm P0
    ∧ (∀ p ∈ (coordLoop h c true fuel wEff endT n s).parts, ∀ d ∈ p.log, Owns c p.pid d)
    ∧ (∀ p ∈ (coordLoop h c true fuel wEff endT n s).parts, LogInv p)
    ∧ (coordLoop h c true fuel wEff endT n s).parts.map (·.pid) = ids := by
  have key := coordLoop_inv h c fuel wEff endT
    (fun b ps => SInv em rank endT c ids P0 b ps ∧ ∀ p ∈ ps, LogInv p)
    (fun ps => ∀ p ∈ ps, ∀ e ∈ p.heap, endT < e.time)
    (fun b we ps i hb hle ok =>
      ⟨i.1.window hr hed hids hlinks hw hb hle ok, oneWindow_logInv h c true fuel we ps i.2⟩)
    (fun ps hem p hp e he => by
      have := List.all_eq_true.mp hem p hp
      simp only [List.isEmpty_iff] at this
      simp [this] at he)
    (fun ps i ok => oneWindow_heap_gt h c fuel endT endT wEff ps hw (Nat.le_refl _) (by omega) i.1.safe ok)
    n s he hcur ⟨inv, hl⟩ hres
  obtain ⟨⟨sinv, hlog⟩, hQ⟩ := key
  refine ⟨?_, sinv.logOwned, hlog, sinv.pids⟩
  have hpend : F em rank endT (sysPend (coordLoop h c true fuel wEff endT n s).parts) = [] := by
    apply F_nil_of_gt
    intro e he'
    simp only [sysPend, List.mem_flatMap, List.mem_append, List.mem_map] at he'
    obtain ⟨p, hp, he' | ⟨x, hx, _⟩⟩ := he'
    · exact hQ p hp e he'
    · rw [sinv.safe.outEmpty p hp] at hx; simp at hx
  have := (sysPot_split (em := em) (rank := rank) (T := endT)
    (coordLoop h c true fuel wEff endT n s).parts).symm.trans sinv.pot
  rw [hpend, List.append_nil] at this
  exact this

/-! ### the sequential run delivers the trees of its initial events -/

theorem halted_loose_heap_gt {h : Handler σ} {r : Nat → Route} {we : Nat} {p : Part σ}
    (hh : Halted h r false we p) (hb : p.bad = false) (hge : ∀ e ∈ p.heap, p.clock ≤ e.time) :
    ∀ e ∈ p.heap, we < e.time := by
  unfold Halted stepWin at hh
  split at hh
  · rename_i hx; intro e he; simp [hx] at he
  · rename_i x xs hx
    simp only [hb, Bool.false_eq_true, if_false, Bool.false_and] at hh
    by_cases hc : we < p.clock
    · intro e he; have := hge e he; omega
    · simp only [hc, if_false] at hh
      split at hh <;> simp at hh

theorem seq_bad_false {h : Handler σ} {strict : Bool} {we : Nat} (n : Nat) {p : Part σ}
    (hb : p.bad = false) : (runWin h seqRoute strict we n p).bad = false := by
  refine runWin_induct h seqRoute strict we (fun q => q.bad = false) ?_ n p hb
  intro q q' hq hs
  obtain ⟨x, xs, _, _, _, _, hcs⟩ := stepWin_cases h seqRoute strict we q q' hs
  rcases hcs with ⟨_, rfl⟩ | ⟨_, rfl⟩
  · simpa [discard] using hq
  · simp [deliver, hq, isBad, seqRoute]

theorem seq_delivers_tree (h : Handler σ) (T fuel start : Nat) (st : σ) (evs : List Ev)
    (hr : Ranked em rank) (hed : EventDetermined h em) (hstart : ∀ e ∈ evs, start ≤ e.time)
    (hhalt : Halted h seqRoute false T (runSeq h T fuel (Part.init 0 start st evs))) :
    (logPart T (runSeq h T fuel (Part.init 0 start st evs))).Perm (F em rank T evs) := by
  have w0 : WInv seqRoute (fun _ => True) start (Part.init 0 start st evs) :=
    ⟨by simpa [Part.init] using hstart, by simpa [Part.init] using hstart, fun _ _ => trivial,
     rfl, by simp [Part.init]⟩
  have pin : PInv em rank T seqRoute (fun _ => True) start (Part.init 0 start st evs)
      (runSeq h T fuel (Part.init 0 start st evs)) :=
    PInv.run hr hed (fun _ _ => trivial) fuel (PInv.refl w0 (fun _ _ => trivial))
  have hb : (runSeq h T fuel (Part.init 0 start st evs)).bad = false := seq_bad_false fuel rfl
  have hp := pin.pot hb
  have hheap := F_nil_of_gt em rank T _ (halted_loose_heap_gt hhalt hb pin.w.geClock)
  have hout : (runSeq h T fuel (Part.init 0 start st evs)).outbox = [] := by
    rw [List.eq_nil_iff_forall_not_mem]
    intro x hx
    have := (pin.w.out x hx).2.2
    simp [seqRoute] at this
  have h0 : pot em rank T (Part.init 0 start st evs) = F em rank T evs := by
    simp [pot, logPart, Part.init, F]
  rw [h0] at hp
  have h1 : pot em rank T (runSeq h T fuel (Part.init 0 start st evs))
      = logPart T (runSeq h T fuel (Part.init 0 start st evs)) := by
    unfold pot
    rw [hheap, hout]
    simp [F]
  rw [h1] at hp
  exact hp

/-! ### from multisets of deliveries to per-entity logs -/

def entProj (x : Nat) (l : List PEv) : List Obs :=
  (l.filter (fun e => e.tgt == x)).map (fun e => (e.time, e.kind))

theorem upTo_obs (T x : Nat) (l : List Ev) :
    upTo T ((l.filter (fun e => e.tgt == x)).map obsOf)
      = entProj x ((l.map proj).filter (fun e => e.time ≤ T)) := by
  induction l with
  | nil => rfl
  | cons a l ih =>
    unfold upTo entProj at ih ⊢
    by_cases h1 : a.tgt = x <;> by_cases h2 : a.time ≤ T <;>
      simp [h1, h2, obsOf, proj, ih]

theorem entProj_perm {x : Nat} {a b : List PEv} (h : a.Perm b) : (entProj x a).Perm (entProj x b) :=
  (h.filter _).map _

theorem sysLog_eq (T : Nat) (ps : List (Part σ)) :
    (((ps.flatMap (fun p => p.log.reverse)).map proj).filter (fun e => e.time ≤ T)).Perm (sysLog T ps) := by
  unfold sysLog
  rw [List.map_flatMap, List.filter_flatMap]
  apply flatMap_perm_pointwise
  intro p _
  exact ((List.reverse_perm p.log).map proj).filter _

theorem parObs_sorted (c : Cfg) (ps : List (Part σ)) (x : Nat)
    (hn : (ps.map (·.pid)).Nodup) (hown : ∀ p ∈ ps, ∀ d ∈ p.log, Owns c p.pid d)
    (hl : ∀ p ∈ ps, LogInv p) : TimeSorted (parObs ps x) := by
  unfold TimeSorted parObs
  rw [List.pairwise_map, List.filter_flatMap, List.pairwise_flatMap]
  constructor
  · intro p hp
    apply List.Pairwise.filter
    rw [List.pairwise_reverse]
    exact (hl p hp).sorted.imp (fun hab => by simpa [obsOf] using hab)
  · have hp : ps.Pairwise (fun a b => a.pid ≠ b.pid) := by
      have := hn
      unfold List.Nodup at this
      rwa [List.pairwise_map] at this
    refine hp.imp_of_mem ?_
    intro a b ha hb hne u hu v hv
    simp only [List.mem_filter, List.mem_reverse, beq_iff_eq] at hu hv
    have h1 := hown a ha u hu.1
    have h2 := hown b hb v hv.1
    unfold Owns at h1 h2
    rw [hu.2] at h1
    rw [hv.2] at h2
    exact absurd (h1.symm.trans h2) hne

end HappyModel.C05
