import HappyProofs.C05.CoordR
import HappyProofs.C05.Prefix
/-!
The stateful-handler theorems for what the driver's `runs` mode executes: the stateful harness entity
`ruleHandlerL` (= `liftP (ruleHandler …)`), the coordinator with the code's creation indices
`coordLoopR`, and runs whose creation counters start at the number of pre-run events (`Part.initCtr`).
-/
namespace HappyModel.C05

/-- the stateful harness entity as an entity-local handler on events without index -/
def ruleHandler (prog : List (Nat × Nat × Emit)) (sprog : List SRule) : EHandler ESt :=
  fun σ d => ruleStep prog sprog σ d.tgt d.kind

theorem ruleHandlerL_eq (prog : List (Nat × Nat × Emit)) (sprog : List SRule) :
    ruleHandlerL prog sprog = liftP (ruleHandler prog sprog) := rfl

def SRule.notFirst : SRule → Prop
  | .first _ _ _ _ => False
  | _ => True

theorem fire_comm (σ0 : ESt) (me ka kd : Nat) (r : SRule) (hr : r.notFirst) (x : Emit) :
    (fireRule σ0 me ka r).count x
      + (fireRule ⟨σ0.cnt + 1, fun j => j == ka || σ0.seen j⟩ me kd r).count x
    = (fireRule σ0 me kd r).count x
      + (fireRule ⟨σ0.cnt + 1, fun j => j == kd || σ0.seen j⟩ me ka r).count x := by
  cases r with
  | first e kA kB em => exact absurd hr (by simp [SRule.notFirst])
  | nth e n em => simp [fireRule]
  | dedup e k0 em =>
    simp only [fireRule]
    have h2s : (k0 = ka) = (ka = k0) := propext eq_comm
    have h3s : (k0 = kd) = (kd = k0) := propext eq_comm
    by_cases h1 : (e == me) = true <;> by_cases h2 : ka = k0 <;> by_cases h3 : kd = k0 <;>
      by_cases h4 : σ0.seen k0 = true <;> simp_all

theorem fire_comm_list (σ0 : ESt) (me ka kd : Nat) (x : Emit) : ∀ (rs : List SRule),
    (∀ r ∈ rs, r.notFirst) →
    (rs.flatMap (fireRule σ0 me ka)).count x
      + (rs.flatMap (fireRule ⟨σ0.cnt + 1, fun j => j == ka || σ0.seen j⟩ me kd)).count x
    = (rs.flatMap (fireRule σ0 me kd)).count x
      + (rs.flatMap (fireRule ⟨σ0.cnt + 1, fun j => j == kd || σ0.seen j⟩ me ka)).count x := by
  intro rs
  induction rs with
  | nil => intro _; rfl
  | cons r rs ih =>
    intro h
    have h1 := fire_comm σ0 me ka kd r (h r (by simp)) x
    have h2 := ih (fun q hq => h q (by simp [hq]))
    simp only [List.flatMap_cons, List.count_append]
    omega

/-- **ruleHandler_tieCommutative** — a stateful harness entity without `first` rules (script lines,
    `nth`, `dedup`: family `stateful` of the check) commutes on same-timestamp deliveries, so
    `par_eq_seq_tie_commutative_R` applies to it -/
theorem ruleHandler_tieCommutative (prog : List (Nat × Nat × Emit)) (sprog : List SRule)
    (h : ∀ r ∈ sprog, r.notFirst) : TieCommutative (ruleHandler prog sprog) := by
  intro a d htg _ σ0
  refine ⟨?_, ?_⟩
  · simp only [ruleHandler, ruleStep]
    congr 1
    · funext j
      cases (j == kindOf d.kind) <;> cases (j == kindOf a.kind) <;> simp
  · simp only [ruleHandler, ruleStep, htg]
    rw [← List.map_append, ← List.map_append]
    apply List.Perm.map
    rw [List.perm_iff_count]
    intro x
    have := fire_comm_list σ0 d.tgt (kindOf a.kind) (kindOf d.kind) x sprog h
    simp only [List.count_append]
    omega

variable {τ : Type}

/-- **par_eq_seq_tie_commutative_R** — `par_eq_seq_tie_commutative` for the coordinator with the
    code's creation indices (`coordLoopR`: events injected at a barrier are re-indexed by the
    destination) and any initial creation counters -/
theorem par_eq_seq_tie_commutative_R (hE : EHandler τ) (c : Cfg) (ids : List Nat)
    (fuel wEff endT n start n0 : Nat) (st : Nat → τ) (evs : List Ev) (ps : List (Part (Nat → τ)))
    (htc : TieCommutative hE) (hids : ids.Nodup) (hlinks : ∀ l ∈ c.links, l.dst ∈ ids)
    (hw : WindowLeLat c wEff) (hpos : 0 < wEff) (hse : start ≤ endT)
    (hstart : ∀ e ∈ evs, start ≤ e.time) (hi : ParInit c ids start evs ps) (hst : ∀ p ∈ ps, p.st = st)
    (hpar : (coordLoopR (liftP hE) c true fuel wEff endT n
        { parts := ps, cur := start, windows := 0, injected := 0, outboxed := 0, err := none }).err = none)
    (hseq : Halted (liftP hE) seqRoute false endT (runSeq (liftP hE) endT fuel (Part.initCtr 0 start st evs n0))) :
    (∀ x, TieEquiv (upTo endT ((runSeq (liftP hE) endT fuel (Part.initCtr 0 start st evs n0)).obsLog x))
      (upTo endT (parObs (coordLoopR (liftP hE) c true fuel wEff endT n
        { parts := ps, cur := start, windows := 0, injected := 0, outboxed := 0, err := none }).parts x)))
    ∧ (∀ p ∈ (coordLoopR (liftP hE) c true fuel wEff endT n
        { parts := ps, cur := start, windows := 0, injected := 0, outboxed := 0, err := none }).parts,
        ∀ x, c.part x = p.pid →
          p.st x = replay hE (st x) ((seqTrace hE endT fuel start st evs n0).filter (fun d => d.tgt == x))) :=
  tie_commutative_of hE c ids fuel endT start n0 st evs _ htc hids hstart hseq
    (par_execR hE c ids fuel wEff endT n
      { parts := ps, cur := start, windows := 0, injected := 0, outboxed := 0, err := none }
      ⟨st, evs.map proj⟩ hids hlinks hw hpos rfl hse (TInv.init hi hstart hse hst) hpar)

/-- **par_eq_seq_no_ties_R** — `par_eq_seq_no_ties` for `coordLoopR` -/
theorem par_eq_seq_no_ties_R (hE : EHandler τ) (c : Cfg) (ids : List Nat)
    (fuel wEff endT n start n0 : Nat) (st : Nat → τ) (evs : List Ev) (ps : List (Part (Nat → τ)))
    (hids : ids.Nodup) (hlinks : ∀ l ∈ c.links, l.dst ∈ ids)
    (hw : WindowLeLat c wEff) (hpos : 0 < wEff) (hse : start ≤ endT)
    (hstart : ∀ e ∈ evs, start ≤ e.time) (hi : ParInit c ids start evs ps) (hst : ∀ p ∈ ps, p.st = st)
    (hpar : (coordLoopR (liftP hE) c true fuel wEff endT n
        { parts := ps, cur := start, windows := 0, injected := 0, outboxed := 0, err := none }).err = none)
    (hseq : Halted (liftP hE) seqRoute false endT (runSeq (liftP hE) endT fuel (Part.initCtr 0 start st evs n0)))
    (hnt : ∀ x, NoTies (upTo endT ((runSeq (liftP hE) endT fuel (Part.initCtr 0 start st evs n0)).obsLog x))) :
    (∀ x, upTo endT ((runSeq (liftP hE) endT fuel (Part.initCtr 0 start st evs n0)).obsLog x)
      = upTo endT (parObs (coordLoopR (liftP hE) c true fuel wEff endT n
        { parts := ps, cur := start, windows := 0, injected := 0, outboxed := 0, err := none }).parts x))
    ∧ (∀ p ∈ (coordLoopR (liftP hE) c true fuel wEff endT n
        { parts := ps, cur := start, windows := 0, injected := 0, outboxed := 0, err := none }).parts,
        ∀ x, c.part x = p.pid →
          p.st x = replay hE (st x) ((seqTrace hE endT fuel start st evs n0).filter (fun d => d.tgt == x))) :=
  no_ties_of hE c ids fuel endT start n0 st evs _ hids hstart hseq
    (par_execR hE c ids fuel wEff endT n
      { parts := ps, cur := start, windows := 0, injected := 0, outboxed := 0, err := none }
      ⟨st, evs.map proj⟩ hids hlinks hw hpos rfl hse (TInv.init hi hstart hse hst) hpar) hnt

/-- **agree_before_first_tie_R** — what the check's stateful families can show at most: for every
    entity-local handler (the order-sensitive `first` rules included) the logs of the sequential run
    and of the index-faithful partitioned run agree up to any `T' ≤ end_time` before which the
    sequential run has no two deliveries to one entity with one timestamp; a divergence of the model
    (judge: `par/tie-order/…`) always starts at or after the first such group. -/
theorem agree_before_first_tie_R (hE : EHandler τ) (c : Cfg) (ids : List Nat)
    (fuel wEff endT n start n0 T' : Nat) (st : Nat → τ) (evs : List Ev) (ps : List (Part (Nat → τ)))
    (hids : ids.Nodup) (hlinks : ∀ l ∈ c.links, l.dst ∈ ids)
    (hw : WindowLeLat c wEff) (hpos : 0 < wEff) (hse : start ≤ endT) (hT : T' ≤ endT)
    (hstart : ∀ e ∈ evs, start ≤ e.time) (hi : ParInit c ids start evs ps) (hst : ∀ p ∈ ps, p.st = st)
    (hpar : (coordLoopR (liftP hE) c true fuel wEff endT n
        { parts := ps, cur := start, windows := 0, injected := 0, outboxed := 0, err := none }).err = none)
    (hseq : Halted (liftP hE) seqRoute false endT (runSeq (liftP hE) endT fuel (Part.initCtr 0 start st evs n0)))
    (hnt : ∀ x, NoTies (upTo T' ((runSeq (liftP hE) endT fuel (Part.initCtr 0 start st evs n0)).obsLog x))) :
    ∀ x, upTo T' ((runSeq (liftP hE) endT fuel (Part.initCtr 0 start st evs n0)).obsLog x)
      = upTo T' (parObs (coordLoopR (liftP hE) c true fuel wEff endT n
        { parts := ps, cur := start, windows := 0, injected := 0, outboxed := 0, err := none }).parts x) :=
  agree_before_first_tie_of hE c ids fuel endT start n0 T' st evs _ hids hT hstart hseq
    (par_execR hE c ids fuel wEff endT n
      { parts := ps, cur := start, windows := 0, injected := 0, outboxed := 0, err := none }
      ⟨st, evs.map proj⟩ hids hlinks hw hpos rfl hse (TInv.init hi hstart hse hst) hpar) hnt

/-! ## non-vacuity: the corpus witness `corpus/C05/tie-order-first-kind-wins.json` as the driver runs it -/

def tieProg : List (Nat × Nat × Emit) := [(0, 0, ⟨100, 1, 2⟩), (1, 0, ⟨50, 1, 1⟩)]
def tieRules : List SRule := [.first 1 2 1 ⟨10, 1, 7⟩]
def tieStR : Nat → ESt := fun _ => ESt.init
def tiePartsR : List (Part (Nat → ESt)) :=
  [Part.initCtr 0 0 tieStR [⟨0, 0, 0, 0⟩] 2, Part.initCtr 1 0 tieStR [⟨50, 1, 1, 0⟩] 2]

example : ParInit tieCfg [0, 1] 0 tieEvs tiePartsR ∧ (∀ p ∈ tiePartsR, p.st = tieStR) := by
  refine ⟨by constructor <;> simp [tiePartsR, tieCfg, tieEvs, Part.initCtr, Part.init, Cfg.part],
    by simp [tiePartsR, Part.initCtr, Part.init]⟩

/-- kinds on the wire carry the sender: `66 = k2 from e0`, `129 = k1 from e1`, `135 = k7 from e1`.
    Up to 99 ns no ties and equal logs; the tie at 100 ns is delivered in opposite orders; `k7` exists
    only sequentially. -/
example :
    (coordLoopR (ruleHandlerL tieProg tieRules) tieCfg true 10 100 1000 20
        { parts := tiePartsR, cur := 0, windows := 0, injected := 0, outboxed := 0, err := none }).err = none
    ∧ haltedB (ruleHandlerL tieProg tieRules) seqRoute false 1000
        (runSeq (ruleHandlerL tieProg tieRules) 1000 10 (Part.initCtr 0 0 tieStR tieEvs 2)) = true
    ∧ (runSeq (ruleHandlerL tieProg tieRules) 1000 10 (Part.initCtr 0 0 tieStR tieEvs 2)).obsLog 1
        = [(50, 0), (100, 66), (100, 129), (110, 135)]
    ∧ parObs (coordLoopR (ruleHandlerL tieProg tieRules) tieCfg true 10 100 1000 20
        { parts := tiePartsR, cur := 0, windows := 0, injected := 0, outboxed := 0, err := none }).parts 1
        = [(50, 0), (100, 129), (100, 66)]
    ∧ (∀ x ∈ [0, 1], NoTies (upTo 99
        ((runSeq (ruleHandlerL tieProg tieRules) 1000 10 (Part.initCtr 0 0 tieStR tieEvs 2)).obsLog x))) := by
  decide

/-- `ruleHandler_tieCommutative`: the hypothesis holds for a rule set with `nth` and `dedup` -/
example : ∀ r ∈ [SRule.nth 1 3 ⟨10, 1, 7⟩, SRule.dedup 0 2 ⟨100, 1, 4⟩], r.notFirst := by
  intro r hr
  simp only [List.mem_cons, List.not_mem_nil, or_false] at hr
  rcases hr with rfl | rfl <;> trivial

end HappyModel.C05
