import HappyProofs.C05.CoordR
import HappyProofs.C05.Prefix
import HappyModel.C05.SpecS
/-!
The stateful-handler theorems for what the driver's `runs` mode executes: the stateful harness entity
`ruleHandlerL` (= `liftP (ruleHandler …)`), the coordinator with the code's creation indices
`coordLoopR`, and runs whose creation counters start at the number of pre-run events (`Part.initCtr`).
-/
namespace HappyModel.C05

/-- the stateful harness entity as an entity-local handler on events without index -/
def ruleHandler (prog : List (Nat × Nat × Emit)) (sprog : List SRule) : EHandler ESt :=
  fun σ d => ruleStep prog sprog σ d.time d.tgt d.kind

theorem ruleHandlerL_eq (prog : List (Nat × Nat × Emit)) (sprog : List SRule) :
    ruleHandlerL prog sprog = liftP (ruleHandler prog sprog) := rfl

def SRule.notFirst : SRule → Prop
  | .first _ _ _ _ => False
  | _ => True

/-- a cancelled timer popped by the engine -/
def gh (σ : ESt) (k : Nat) : Bool := isTimer k && σ.cancelled (codeOf k)

/-- the state after a delivery that is not a ghost -/
def upd (σ : ESt) (kEnc : Nat) : ESt :=
  { cnt := σ.cnt + 1, seen := fun j => j == kindOf kEnc || σ.seen j,
    cancelled := fun c => (isCanceller kEnc && c == codeOf kEnc && !σ.fired c) || σ.cancelled c,
    fired := fun c => (isTimer kEnc && c == codeOf kEnc) || σ.fired c }

def rawEms (prog : List (Nat × Nat × Emit)) (sprog : List SRule) (σ : ESt) (t me kEnc : Nat) : List Emit :=
  ((prog.filter (fun x => x.1 == me && x.2.1 == kindOf kEnc)).map (·.2.2))
    ++ sprog.flatMap (fireRule σ me (kindOf kEnc) t kEnc)

theorem ruleStep_eq (prog : List (Nat × Nat × Emit)) (sprog : List SRule) (σ : ESt) (t me kEnc : Nat) :
    ruleStep prog sprog σ t me kEnc
      = if gh σ kEnc then (σ, [])
        else (upd σ kEnc, (rawEms prog sprog σ t me kEnc).map (fun x => ⟨x.delay, x.tgt, x.kind + 64 * (me + 1)⟩)) := rfl

/-- **ghost_is_silent** — the delivery of a cancelled timer (what the code's engine pops and skips)
    changes no state and emits nothing -/
theorem ghost_is_silent (prog : List (Nat × Nat × Emit)) (sprog : List SRule) (σ : ESt) (t me kEnc : Nat)
    (h : isTimer kEnc = true) (hc : σ.cancelled (codeOf kEnc) = true) :
    ruleStep prog sprog σ t me kEnc = (σ, []) := by
  rw [ruleStep_eq]; simp [gh, h, hc]

/-- a timer and the canceller of that very timer -/
def conflict (ka kd : Nat) : Prop :=
  codeOf ka = codeOf kd ∧ ((isTimer ka = true ∧ isCanceller kd = true) ∨ (isCanceller ka = true ∧ isTimer kd = true))

instance (ka kd : Nat) : Decidable (conflict ka kd) := by unfold conflict; infer_instance

theorem gh_upd (σ : ESt) (ka kd : Nat) (hnc : ¬ conflict ka kd) : gh (upd σ ka) kd = gh σ kd := by
  unfold gh upd
  by_cases h1 : isTimer kd = true
  · by_cases h2 : isCanceller ka = true
    · by_cases h3 : codeOf kd = codeOf ka
      · exact absurd ⟨h3.symm, Or.inr ⟨h2, h1⟩⟩ hnc
      · simp [h1, h2, h3]
    · simp [h1, h2]
  · simp [h1]

theorem upd_comm (σ : ESt) (ka kd : Nat) (hnc : ¬ conflict ka kd) :
    upd (upd σ ka) kd = upd (upd σ kd) ka := by
  have n1 : ¬ (isTimer ka = true ∧ isCanceller kd = true ∧ codeOf ka = codeOf kd) :=
    fun h => hnc ⟨h.2.2, Or.inl ⟨h.1, h.2.1⟩⟩
  have n2 : ¬ (isCanceller ka = true ∧ isTimer kd = true ∧ codeOf ka = codeOf kd) :=
    fun h => hnc ⟨h.2.2, Or.inr ⟨h.1, h.2.1⟩⟩
  unfold upd
  simp only [ESt.mk.injEq]
  refine ⟨trivial, ?_, ?_, ?_⟩
  · funext j
    cases (j == kindOf kd) <;> cases (j == kindOf ka) <;> simp
  · funext c
    cases e1 : (c == codeOf ka) <;> cases e2 : (c == codeOf kd) <;>
      cases h1 : isTimer ka <;> cases h2 : isCanceller ka <;> cases h3 : isTimer kd <;>
      cases h4 : isCanceller kd <;> cases h5 : σ.fired c <;> cases h6 : σ.cancelled c <;> simp_all
  · funext c
    cases (isTimer kd && c == codeOf kd) <;> cases (isTimer ka && c == codeOf ka) <;> simp

theorem fire_comm (σ0 : ESt) (me ka kd t wa wd : Nat) (r : SRule) (hr : r.notFirst) (x : Emit)
    (σa σd : ESt) (ha : σa.cnt = σ0.cnt + 1 ∧ σa.seen = fun j => j == ka || σ0.seen j)
    (hd : σd.cnt = σ0.cnt + 1 ∧ σd.seen = fun j => j == kd || σ0.seen j) :
    (fireRule σ0 me ka t wa r).count x + (fireRule σa me kd t wd r).count x
    = (fireRule σ0 me kd t wd r).count x + (fireRule σd me ka t wa r).count x := by
  cases r with
  | first e kA kB em => exact absurd hr (by simp [SRule.notFirst])
  | nth e n em => simp [fireRule, ha.1, hd.1]
  | tmr e k0 dt kt dc kc => simp only [fireRule]; omega
  | dedup e k0 em =>
    simp only [fireRule, ha.2, hd.2]
    have h2s : (k0 = ka) = (ka = k0) := propext eq_comm
    have h3s : (k0 = kd) = (kd = k0) := propext eq_comm
    by_cases h1 : (e == me) = true <;> by_cases h2 : ka = k0 <;> by_cases h3 : kd = k0 <;>
      by_cases h4 : σ0.seen k0 = true <;> simp_all

theorem fire_comm_list (σ0 : ESt) (me ka kd t wa wd : Nat) (x : Emit) (σa σd : ESt)
    (ha : σa.cnt = σ0.cnt + 1 ∧ σa.seen = fun j => j == ka || σ0.seen j)
    (hd : σd.cnt = σ0.cnt + 1 ∧ σd.seen = fun j => j == kd || σ0.seen j) : ∀ (rs : List SRule),
    (∀ r ∈ rs, r.notFirst) →
    (rs.flatMap (fireRule σ0 me ka t wa)).count x + (rs.flatMap (fireRule σa me kd t wd)).count x
    = (rs.flatMap (fireRule σ0 me kd t wd)).count x + (rs.flatMap (fireRule σd me ka t wa)).count x := by
  intro rs
  induction rs with
  | nil => intro _; rfl
  | cons r rs ih =>
    intro h
    have h1 := fire_comm σ0 me ka kd t wa wd r (h r (by simp)) x σa σd ha hd
    have h2 := ih (fun q hq => h q (by simp [hq]))
    simp only [List.flatMap_cons, List.count_append]
    omega

/-- **ruleHandler_commAt** — a stateful harness entity without `first` rules (script lines, `nth`,
    `dedup`, `tmr`: families `stateful` and `timers` of the check) commutes on two deliveries to one
    entity at one timestamp, unless the two are a timer and the canceller of that very timer (which
    the `tmr` rule creates together, in this order, in the same partition). -/
theorem ruleHandler_commAt (prog : List (Nat × Nat × Emit)) (sprog : List SRule)
    (h : ∀ r ∈ sprog, r.notFirst) (a d : PEv) (htg : a.tgt = d.tgt) (htm : a.time = d.time)
    (hnc : ¬ conflict a.kind d.kind) : CommAt (ruleHandler prog sprog) a d := by
  have hnc' : ¬ conflict d.kind a.kind := fun hc =>
    hnc ⟨hc.1.symm, hc.2.elim (fun x => Or.inr ⟨x.2, x.1⟩) (fun x => Or.inl ⟨x.2, x.1⟩)⟩
  intro σ0
  simp only [ruleHandler, ruleStep_eq, htg, htm]
  by_cases ga : gh σ0 a.kind = true <;> by_cases gd : gh σ0 d.kind = true
  · simp [ga, gd]
  · simp [ga, gd, gh_upd σ0 d.kind a.kind hnc']
  · simp [ga, gd, gh_upd σ0 a.kind d.kind hnc]
  · simp only [ga, gd, gh_upd σ0 a.kind d.kind hnc, gh_upd σ0 d.kind a.kind hnc', Bool.false_eq_true,
      if_false]
    refine ⟨upd_comm σ0 a.kind d.kind hnc, ?_⟩
    rw [← List.map_append, ← List.map_append]
    apply List.Perm.map
    rw [List.perm_iff_count]
    intro x
    have := fire_comm_list σ0 d.tgt (kindOf a.kind) (kindOf d.kind) d.time a.kind d.kind x
      (upd σ0 a.kind) (upd σ0 d.kind) ⟨rfl, rfl⟩ ⟨rfl, rfl⟩ sprog h
    simp only [rawEms, List.count_append]
    omega

variable {τ : Type}

/-- **par_eq_seq_tie_commutative_R** — `par_eq_seq_tie_commutative` for the coordinator with the
    code's creation indices (`coordLoopR`: events injected at a barrier are re-indexed by the
    destination) and any initial creation counters -/
theorem par_eq_seq_tie_commutative_R (hE : EHandler τ) (c : Cfg) (ids : List Nat)
    (fuel wEff endT n start n0 : Nat) (st : Nat → τ) (evs : List Ev) (ps : List (Part (Nat → τ)))
    (htc : TieCommutative hE) (hids : ids.Nodup) (hlinks : ∀ l ∈ c.links, l.dst ∈ ids)
    (hw : WindowLeLat c wEff) (hpos : 0 < wEff) (hse : start ≤ endT)
    (hstart : ∀ e ∈ evs, start ≤ e.time) (hi : ParInit c ids start evs ps) (hst : ∀ p ∈ ps, p.st = st)
    (hpar : (coordLoopR (liftP hE) c true fuel wEff endT n
        { parts := ps, cur := start, windows := 0, injected := 0, outboxed := 0, err := none }).err = none)
    (hseq : Halted (liftP hE) seqRoute false endT (runSeq (liftP hE) endT fuel (Part.initCtr 0 start st evs n0))) :
    (∀ x, TieEquiv (upTo endT ((runSeq (liftP hE) endT fuel (Part.initCtr 0 start st evs n0)).obsLog x))
      (upTo endT (parObs (coordLoopR (liftP hE) c true fuel wEff endT n
        { parts := ps, cur := start, windows := 0, injected := 0, outboxed := 0, err := none }).parts x)))
    ∧ (∀ p ∈ (coordLoopR (liftP hE) c true fuel wEff endT n
        { parts := ps, cur := start, windows := 0, injected := 0, outboxed := 0, err := none }).parts,
        ∀ x, c.part x = p.pid →
          p.st x = replay hE (st x) ((seqTrace hE endT fuel start st evs n0).filter (fun d => d.tgt == x))) :=
  tie_commutative_of hE c ids fuel endT start n0 st evs _ htc hids hstart hseq
    (par_execR hE c ids fuel wEff endT n
      { parts := ps, cur := start, windows := 0, injected := 0, outboxed := 0, err := none }
      ⟨st, evs.map proj⟩ hids hlinks hw hpos rfl hse (TInv.init hi hstart hse hst) hpar)

/-- **par_eq_seq_no_ties_R** — `par_eq_seq_no_ties` for `coordLoopR` -/
theorem par_eq_seq_no_ties_R (hE : EHandler τ) (c : Cfg) (ids : List Nat)
    (fuel wEff endT n start n0 : Nat) (st : Nat → τ) (evs : List Ev) (ps : List (Part (Nat → τ)))
    (hids : ids.Nodup) (hlinks : ∀ l ∈ c.links, l.dst ∈ ids)
    (hw : WindowLeLat c wEff) (hpos : 0 < wEff) (hse : start ≤ endT)
    (hstart : ∀ e ∈ evs, start ≤ e.time) (hi : ParInit c ids start evs ps) (hst : ∀ p ∈ ps, p.st = st)
    (hpar : (coordLoopR (liftP hE) c true fuel wEff endT n
        { parts := ps, cur := start, windows := 0, injected := 0, outboxed := 0, err := none }).err = none)
    (hseq : Halted (liftP hE) seqRoute false endT (runSeq (liftP hE) endT fuel (Part.initCtr 0 start st evs n0)))
    (hnt : ∀ x, NoTies (upTo endT ((runSeq (liftP hE) endT fuel (Part.initCtr 0 start st evs n0)).obsLog x))) :
    (∀ x, upTo endT ((runSeq (liftP hE) endT fuel (Part.initCtr 0 start st evs n0)).obsLog x)
      = upTo endT (parObs (coordLoopR (liftP hE) c true fuel wEff endT n
        { parts := ps, cur := start, windows := 0, injected := 0, outboxed := 0, err := none }).parts x))
    ∧ (∀ p ∈ (coordLoopR (liftP hE) c true fuel wEff endT n
        { parts := ps, cur := start, windows := 0, injected := 0, outboxed := 0, err := none }).parts,
        ∀ x, c.part x = p.pid →
          p.st x = replay hE (st x) ((seqTrace hE endT fuel start st evs n0).filter (fun d => d.tgt == x))) :=
  no_ties_of hE c ids fuel endT start n0 st evs _ hids hstart hseq
    (par_execR hE c ids fuel wEff endT n
      { parts := ps, cur := start, windows := 0, injected := 0, outboxed := 0, err := none }
      ⟨st, evs.map proj⟩ hids hlinks hw hpos rfl hse (TInv.init hi hstart hse hst) hpar) hnt

/-- **agree_before_first_tie_R** — what the check's stateful families can show at most: for every
    entity-local handler (the order-sensitive `first` rules included) the logs of the sequential run
    and of the index-faithful partitioned run agree up to any `T' ≤ end_time` before which the
    sequential run has no two deliveries to one entity with one timestamp; a divergence of the model
    (judge: `par/tie-order/…`) always starts at or after the first such group. -/
theorem agree_before_first_tie_R (hE : EHandler τ) (c : Cfg) (ids : List Nat)
    (fuel wEff endT n start n0 T' : Nat) (st : Nat → τ) (evs : List Ev) (ps : List (Part (Nat → τ)))
    (hids : ids.Nodup) (hlinks : ∀ l ∈ c.links, l.dst ∈ ids)
    (hw : WindowLeLat c wEff) (hpos : 0 < wEff) (hse : start ≤ endT) (hT : T' ≤ endT)
    (hstart : ∀ e ∈ evs, start ≤ e.time) (hi : ParInit c ids start evs ps) (hst : ∀ p ∈ ps, p.st = st)
    (hpar : (coordLoopR (liftP hE) c true fuel wEff endT n
        { parts := ps, cur := start, windows := 0, injected := 0, outboxed := 0, err := none }).err = none)
    (hseq : Halted (liftP hE) seqRoute false endT (runSeq (liftP hE) endT fuel (Part.initCtr 0 start st evs n0)))
    (hnt : ∀ x, NoTies (upTo T' ((runSeq (liftP hE) endT fuel (Part.initCtr 0 start st evs n0)).obsLog x))) :
    ∀ x, upTo T' ((runSeq (liftP hE) endT fuel (Part.initCtr 0 start st evs n0)).obsLog x)
      = upTo T' (parObs (coordLoopR (liftP hE) c true fuel wEff endT n
        { parts := ps, cur := start, windows := 0, injected := 0, outboxed := 0, err := none }).parts x) :=
  agree_before_first_tie_of hE c ids fuel endT start n0 T' st evs _ hids hT hstart hseq
    (par_execR hE c ids fuel wEff endT n
      { parts := ps, cur := start, windows := 0, injected := 0, outboxed := 0, err := none }
      ⟨st, evs.map proj⟩ hids hlinks hw hpos rfl hse (TInv.init hi hstart hse hst) hpar) hnt

/-- **parallelRunFrom_spec** — runs with `start_time ≠ epoch` (`parallelRunFrom`, `parallelRunRFrom`: what
    the driver executes when a case has a start time): at the epoch they are `parallelRun` / `parallelRunR`;
    without links every partition is the sequential engine on its own state; with links they are the
    coordinator loops from barrier `start`, the form every coordinator theorem (`no_time_travel_run`,
    `par_eq_seq_*`, `agree_before_first_tie*`) is stated for. -/
theorem parallelRunFrom_spec {σ : Type} (h : Handler σ) (c : Cfg) (strict : Bool) (fuel wEff endT n start : Nat)
    (ps : List (Part σ)) :
    parallelRunFrom h c strict fuel wEff endT n 0 ps = parallelRun h c strict fuel wEff endT n ps
    ∧ parallelRunRFrom h c strict fuel wEff endT n 0 ps = parallelRunR h c strict fuel wEff endT n ps
    ∧ (c.links = [] → (parallelRunFrom h c strict fuel wEff endT n start ps).parts = ps.map (runSeq h endT fuel)
        ∧ (parallelRunRFrom h c strict fuel wEff endT n start ps).parts = ps.map (runSeq h endT fuel))
    ∧ (c.links ≠ [] →
        parallelRunFrom h c strict fuel wEff endT n start ps = coordLoop h c strict fuel wEff endT n
          { parts := ps, cur := start, windows := 0, injected := 0, outboxed := 0, err := none }
        ∧ parallelRunRFrom h c strict fuel wEff endT n start ps = coordLoopR h c strict fuel wEff endT n
          { parts := ps, cur := start, windows := 0, injected := 0, outboxed := 0, err := none }) := by
  refine ⟨rfl, rfl, ?_, ?_⟩
  · intro hno
    simp [parallelRunFrom, parallelRunRFrom, hno, runIndependent]
  · intro hl
    have : c.links.isEmpty = false := by
      cases hc : c.links with
      | nil => exact absurd hc hl
      | cons _ _ => rfl
    simp [parallelRunFrom, parallelRunRFrom, this]

/-- **judgeAccepted_none_iff** — the accepted-configuration clause passes exactly when the effective window
    is at most every effective link minimum (`WindowLeLat`, the hypothesis of every coordinator theorem) -/
theorem judgeAccepted_none_iff (wEff : Nat) (effLats : List Nat) :
    judgeAccepted wEff effLats = none ↔ ∀ l ∈ effLats, wEff ≤ l := by
  unfold judgeAccepted
  constructor
  · intro h l hl
    by_cases hlt : l < wEff
    · have : effLats.any (fun l => decide (l < wEff)) = true :=
        List.any_eq_true.mpr ⟨l, hl, by simpa using hlt⟩
      simp [this] at h
    · omega
  · intro h
    have : effLats.any (fun l => decide (l < wEff)) = false := by
      rw [List.any_eq_false]
      intro l hl
      have := h l hl
      simp; omega
    simp [this]

example : judgeAccepted 50000000 [49999999, 100000000] = some "par/invalid-configuration-accepted"
    ∧ judgeAccepted 49999999 [49999999, 100000000] = none := by decide

/-! ## non-vacuity: the corpus witness `corpus/C05/tie-order-first-kind-wins.json` as the driver runs it -/

def tieProg : List (Nat × Nat × Emit) := [(0, 0, ⟨100, 1, 2⟩), (1, 0, ⟨50, 1, 1⟩)]
def tieRules : List SRule := [.first 1 2 1 ⟨10, 1, 7⟩]
def tieStR : Nat → ESt := fun _ => ESt.init
def tiePartsR : List (Part (Nat → ESt)) :=
  [Part.initCtr 0 0 tieStR [⟨0, 0, 0, 0⟩] 2, Part.initCtr 1 0 tieStR [⟨50, 1, 1, 0⟩] 2]

example : ParInit tieCfg [0, 1] 0 tieEvs tiePartsR ∧ (∀ p ∈ tiePartsR, p.st = tieStR) := by
  refine ⟨by constructor <;> simp [tiePartsR, tieCfg, tieEvs, Part.initCtr, Part.init, Cfg.part],
    by simp [tiePartsR, Part.initCtr, Part.init]⟩

/-- kinds on the wire carry the sender: `66 = k2 from e0`, `129 = k1 from e1`, `135 = k7 from e1`.
    Up to 99 ns no ties and equal logs; the tie at 100 ns is delivered in opposite orders; `k7` exists
    only sequentially. -/
example :
    (coordLoopR (ruleHandlerL tieProg tieRules) tieCfg true 10 100 1000 20
        { parts := tiePartsR, cur := 0, windows := 0, injected := 0, outboxed := 0, err := none }).err = none
    ∧ haltedB (ruleHandlerL tieProg tieRules) seqRoute false 1000
        (runSeq (ruleHandlerL tieProg tieRules) 1000 10 (Part.initCtr 0 0 tieStR tieEvs 2)) = true
    ∧ (runSeq (ruleHandlerL tieProg tieRules) 1000 10 (Part.initCtr 0 0 tieStR tieEvs 2)).obsLog 1
        = [(50, 0), (100, 66), (100, 129), (110, 135)]
    ∧ parObs (coordLoopR (ruleHandlerL tieProg tieRules) tieCfg true 10 100 1000 20
        { parts := tiePartsR, cur := 0, windows := 0, injected := 0, outboxed := 0, err := none }).parts 1
        = [(50, 0), (100, 129), (100, 66)]
    ∧ (∀ x ∈ [0, 1], NoTies (upTo 99
        ((runSeq (ruleHandlerL tieProg tieRules) 1000 10 (Part.initCtr 0 0 tieStR tieEvs 2)).obsLog x))) := by
  decide

/-- `ruleHandler_commAt`: the hypotheses hold for a rule set with `nth`, `dedup` and `tmr`, and two plain
    (role 0) events never conflict -/
example : (∀ r ∈ [SRule.nth 1 3 ⟨10, 1, 7⟩, SRule.dedup 0 2 ⟨100, 1, 4⟩, SRule.tmr 1 0 40 4 10 5], r.notFirst)
    ∧ ¬ conflict 66 129 := by
  refine ⟨?_, by decide⟩
  intro r hr
  simp only [List.mem_cons, List.not_mem_nil, or_false] at hr
  rcases hr with rfl | rfl | rfl <;> trivial

/-- `ghost_is_silent` / cancellation as the driver runs it: entity 1 arms a timer (+40 ns) and its
    canceller (+10 ns) at 10 ns; the timer's ghost is popped at 50 ns and changes nothing; the tick
    at 250 ns comes after the cross-partition message at 140 ns in both runs (window 100 ns) -/
example :
    (parObs (coordLoopR (ruleHandlerL [(0, 0, ⟨100, 1, 2⟩), (1, 0, ⟨240, 1, 3⟩)] [.tmr 1 0 40 4 10 5]) tieCfg true 20 100 1000 20
        { parts := [Part.initCtr 0 0 tieStR [⟨40, 0, 0, 0⟩] 2, Part.initCtr 1 0 tieStR [⟨10, 1, 1, 0⟩] 2],
          cur := 0, windows := 0, injected := 0, outboxed := 0, err := none }).parts 1).map
        (fun o => (o.1, kindOf o.2)) = [(10, 0), (20, 5), (50, 4), (140, 2), (250, 3)] := by
  decide

end HappyModel.C05
