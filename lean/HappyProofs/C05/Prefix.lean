import HappyProofs.C05.Stateful
/-!
`agree_before_first_tie`: for *every* entity-local stateful handler (order-sensitive ones included)
the two runs agree on every entity's deliveries up to any time `T' ≤ end_time` before which the
sequential run has no two deliveries to one entity with one timestamp.  Hence whenever the runs
diverge, the divergence starts at or after the first same-timestamp group of the sequential run:
the model's divergences for entity-local handlers are always of the tie-order kind.

Abstractly (`confluence_prefix`): the deliveries up to `T'` of a complete execution in per-entity time
order form a complete execution up to `T'` by themselves (`filter_upto`, later deliveries are dropped
with `drop`), and `confluence_noties` applies to the two prefixes.
-/
namespace HappyModel.C05

variable {τ : Type}

def upToT (T' : Nat) (E : List PEv) : List PEv := E.filter (fun e => e.time ≤ T')

theorem mem_upToT {T' : Nat} {E : List PEv} {e : PEv} : e ∈ upToT T' E ↔ e ∈ E ∧ e.time ≤ T' := by
  simp [upToT, List.mem_filter]

theorem filter_upto (hE : EHandler τ) (T' : Nat) : ∀ (E : List PEv) (s : AS τ),
    Valid hE s E → TgtSorted E →
    Valid hE s (upToT T' E)
    ∧ ∀ e ∈ (arun hE s (upToT T' E)).pend, e.time ≤ T' → e ∈ (arun hE s E).pend := by
  intro E
  induction E with
  | nil => intro s _ _; exact ⟨trivial, fun e he _ => he⟩
  | cons a E ih =>
    intro s hv hs
    have hs' : TgtSorted E := (List.pairwise_cons.mp hs).2
    obtain ⟨h1, h2⟩ := ih (astep hE s a) hv.2 hs'
    by_cases hat : a.time ≤ T'
    · have : upToT T' (a :: E) = a :: upToT T' E := by simp [upToT, hat]
      rw [this]
      exact ⟨⟨hv.1, h1⟩, h2⟩
    · have : upToT T' (a :: E) = upToT T' E := by simp [upToT, hat]
      rw [this]
      have hF : ∀ f ∈ upToT T' E, f.tgt ≠ a.tgt ∧ f.time < a.time := by
        intro f hf
        obtain ⟨hfE, hft⟩ := mem_upToT.mp hf
        refine ⟨?_, by omega⟩
        intro he
        have := (List.pairwise_cons.mp hs).1 f hfE he.symm
        omega
      obtain ⟨hv', heq⟩ := drop hE a (upToT T' E) s hv.1 h1 hF
      refine ⟨hv', ?_⟩
      intro e he het
      apply h2 e ?_ het
      apply heq.pend.mem_iff.mpr
      simp only [astep, List.mem_append]
      refine Or.inl ((List.mem_erase_of_ne ?_).mpr he)
      intro h; rw [h] at het; omega

/-- the two executions agree up to any time before which the sequential one has no ties -/
theorem confluence_prefix (hE : EHandler τ) (T T' : Nat) (hT : T' ≤ T) (E1 E2 : List PEv) (s : AS τ)
    (hv1 : Valid hE s E1) (hm1 : MinFirst hE s E1) (hfin1 : ∀ e ∈ (arun hE s E1).pend, T < e.time)
    (hnt : NoTieL (upToT T' E1))
    (hv2 : Valid hE s E2) (hs2 : TgtSorted E2) (hfin2 : ∀ e ∈ (arun hE s E2).pend, T < e.time) :
    (upToT T' E1).Perm (upToT T' E2) := by
  have hsorted := minFirst_sorted hE E1 s hv1 hm1
  have hs1 : TgtSorted E1 := by
    unfold TgtSorted
    rw [List.pairwise_iff_forall_sublist] at hsorted ⊢
    intro a b hab _
    exact hsorted hab
  obtain ⟨f1v, f1c⟩ := filter_upto hE T' E1 s hv1 hs1
  obtain ⟨f2v, f2c⟩ := filter_upto hE T' E2 s hv2 hs2
  obtain ⟨b, hsplit, _⟩ := sorted_split T' E1 hsorted
  have hm1' : MinFirst hE s (upToT T' E1) := by
    have : MinFirst hE s (upToT T' E1 ++ b) := by
      unfold upToT; rw [← hsplit]; exact hm1
    exact MinFirst_append hE _ _ _ this
  refine (confluence_noties hE T' _ _ s s (AEq.refl _) f1v hm1' (fun e he => (mem_upToT.mp he).2) ?_ hnt
    f2v (List.Pairwise.sublist List.filter_sublist hs2) (fun e he => (mem_upToT.mp he).2) ?_).1
  · intro e he
    by_cases h : e.time ≤ T'
    · have := hfin1 e (f1c e he h); omega
    · omega
  · intro e he
    by_cases h : e.time ≤ T'
    · have := hfin2 e (f2c e he h); omega
    · omega

theorem upTo_le (T T' : Nat) (hT : T' ≤ T) (l : List PEv) :
    (l.filter (fun e => e.time ≤ T)).filter (fun e => e.time ≤ T') = l.filter (fun e => e.time ≤ T') := by
  rw [List.filter_filter]
  apply List.filter_congr
  intro e _
  by_cases h : e.time ≤ T'
  · have : e.time ≤ T := by omega
    simp [h, this]
  · simp [h]

/-- generic `agree_before_first_tie` -/
theorem agree_before_first_tie_of (hE : EHandler τ) (c : Cfg) (ids : List Nat) (fuel endT start n0 T' : Nat)
    (st : Nat → τ) (evs : List Ev) (parts : List (Part (Nat → τ)))
    (hids : ids.Nodup) (hT : T' ≤ endT) (hstart : ∀ e ∈ evs, start ≤ e.time)
    (hseq : Halted (liftP hE) seqRoute false endT (runSeq (liftP hE) endT fuel (Part.initCtr 0 start st evs n0)))
    (hex : ParExecOf hE c ids ⟨st, evs.map proj⟩ endT parts)
    (hnt : ∀ x, NoTies (upTo T' ((runSeq (liftP hE) endT fuel (Part.initCtr 0 start st evs n0)).obsLog x))) :
    ∀ x, upTo T' ((runSeq (liftP hE) endT fuel (Part.initCtr 0 start st evs n0)).obsLog x)
      = upTo T' (parObs parts x) := by
  obtain ⟨hv1, hm1, _, hfin1⟩ := seq_exec hE endT fuel start st evs n0 hstart hseq
  obtain ⟨E2, hv2, hs2, _, hfin2, _, hlogs, htg, hpids, hlinv⟩ := hex
  have hseqx : ∀ x, upTo T' ((runSeq (liftP hE) endT fuel (Part.initCtr 0 start st evs n0)).obsLog x)
      = entProj x (upToT T' (seqTrace hE endT fuel start st evs n0)) := by
    intro x
    unfold Part.obsLog seqTrace upToT
    rw [upTo_obs, upTo_le endT T' hT]
  have hntl : NoTieL (upToT T' (seqTrace hE endT fuel start st evs n0)) := by
    intro a ha b hb hne htg' htm
    have mk : ∀ e ∈ upToT T' (seqTrace hE endT fuel start st evs n0), e.tgt = a.tgt →
        (e.time, e.kind) ∈ upTo T' ((runSeq (liftP hE) endT fuel (Part.initCtr 0 start st evs n0)).obsLog a.tgt) := by
      intro e he hte
      rw [hseqx]
      simp only [entProj, List.mem_map, List.mem_filter, beq_iff_eq]
      exact ⟨e, ⟨he, hte⟩, rfl⟩
    have := (hnt a.tgt).inj _ (mk a ha rfl) _ (mk b hb htg'.symm) htm
    simp only [Prod.mk.injEq] at this
    apply hne
    cases a; cases b
    simp_all
  have hperm := confluence_prefix hE endT T' hT _ E2 _ hv1 hm1 hfin1 hntl hv2 hs2 hfin2
  intro x
  have hte : TieEquiv (upTo T' (parObs parts x))
      (upTo T' ((runSeq (liftP hE) endT fuel (Part.initCtr 0 start st evs n0)).obsLog x)) := by
    refine ⟨?_, ?_, ?_⟩
    · exact List.Pairwise.filter _ (parObs_sorted c _ x (hpids ▸ hids) (owned_of_filters hlogs) hlinv)
    · exact List.Pairwise.filter _ (obsLog_sorted ((LogInv.initCtr 0 start st evs n0).run fuel) x)
    · rw [hseqx]
      exact (parObs_entProj hids hpids hlogs htg T' x).trans (entProj_perm hperm.symm)
  exact (hte.eq_of_noTies (hnt x)).symm

/-- **agree_before_first_tie** — every entity-local stateful handler, order-sensitive or not: for
    every `T' ≤ end_time` such that in the sequential run no entity receives two deliveries with one
    timestamp up to `T'`, the per-entity logs of the sequential and of the partitioned run (executable
    `coordLoop`, repaired window rule) are *equal* up to `T'`.  So a divergence between the two runs
    never starts before the first same-timestamp group of the sequential run. -/
theorem agree_before_first_tie (hE : EHandler τ) (c : Cfg) (ids : List Nat)
    (fuel wEff endT n start n0 T' : Nat) (st : Nat → τ) (evs : List Ev) (ps : List (Part (Nat → τ)))
    (hids : ids.Nodup) (hlinks : ∀ l ∈ c.links, l.dst ∈ ids)
    (hw : WindowLeLat c wEff) (hpos : 0 < wEff) (hse : start ≤ endT) (hT : T' ≤ endT)
    (hstart : ∀ e ∈ evs, start ≤ e.time) (hi : ParInit c ids start evs ps) (hst : ∀ p ∈ ps, p.st = st)
    (hpar : (coordLoop (liftP hE) c true fuel wEff endT n
        { parts := ps, cur := start, windows := 0, injected := 0, outboxed := 0, err := none }).err = none)
    (hseq : Halted (liftP hE) seqRoute false endT (runSeq (liftP hE) endT fuel (Part.initCtr 0 start st evs n0)))
    (hnt : ∀ x, NoTies (upTo T' ((runSeq (liftP hE) endT fuel (Part.initCtr 0 start st evs n0)).obsLog x))) :
    ∀ x, upTo T' ((runSeq (liftP hE) endT fuel (Part.initCtr 0 start st evs n0)).obsLog x)
      = upTo T' (parObs (coordLoop (liftP hE) c true fuel wEff endT n
        { parts := ps, cur := start, windows := 0, injected := 0, outboxed := 0, err := none }).parts x) :=
  agree_before_first_tie_of hE c ids fuel endT start n0 T' st evs _ hids hT hstart hseq
    (par_exec hE c ids fuel wEff endT n
      { parts := ps, cur := start, windows := 0, injected := 0, outboxed := 0, err := none }
      ⟨st, evs.map proj⟩ hids hlinks hw hpos rfl hse (TInv.init hi hstart hse hst) hpar) hnt

/-- non-vacuity on the order-sensitive witness (`tieHandlerP 50`, tie at 100 ns): up to 99 ns the
    sequential run has no ties and the logs agree; at 100 ns the first tie, after it the divergence -/
example :
    (∀ x ∈ [0, 1], NoTies (upTo 99 ((runSeq (liftP (tieHandlerP 50)) 1000 10 (Part.initCtr 0 0 tieSt tieEvs 0)).obsLog x)))
    ∧ ¬ NoTies (upTo 100 ((runSeq (liftP (tieHandlerP 50)) 1000 10 (Part.initCtr 0 0 tieSt tieEvs 0)).obsLog 1))
    ∧ upTo 99 ((runSeq (liftP (tieHandlerP 50)) 1000 10 (Part.initCtr 0 0 tieSt tieEvs 0)).obsLog 1)
      = upTo 99 (parObs (coordLoop (liftP (tieHandlerP 50)) tieCfg true 10 100 1000 20
        { parts := tieParts, cur := 0, windows := 0, injected := 0, outboxed := 0, err := none }).parts 1) := by
  decide

end HappyModel.C05
