import HappyProofs.C05.SeqExec
import HappyProofs.C05.Instant
/-!
Generic form of the main clause for entity-local *stateful* handlers: for any outcome `parts` of a
partitioned run that is an execution of the abstract system (`ParExecOf`: the executable `coordLoop`
by `par_exec`, the index-faithful `coordLoopR` by `par_execR`) and the sequential run started with any
creation counter `n0`.  `Stateful.lean` / `StatefulR.lean` instantiate it.
-/
namespace HappyModel.C05

variable {τ : Type}

/-- the state an entity reaches from `σ0` on a list of deliveries -/
def replay (hE : EHandler τ) (σ0 : τ) (ds : List PEv) : τ := ds.foldl (fun σ d => (hE σ d).1) σ0

theorem arun_st_replay (hE : EHandler τ) (x : Nat) (E : List PEv) : ∀ s : AS τ,
    (arun hE s E).st x = replay hE (s.st x) (E.filter (fun d => d.tgt == x)) := by
  induction E with
  | nil => intro s; rfl
  | cons d ds ih =>
    intro s
    simp only [arun]
    rw [ih]
    by_cases h : d.tgt = x
    · subst h
      simp [astep, replay]
    · have h' : ¬ x = d.tgt := fun e => h e.symm
      simp [astep, h, h']

theorem TInv.init {hE : EHandler τ} {c : Cfg} {ids : List Nat} {start T : Nat} {evs : List Ev}
    {ps : List (Part (Nat → τ))} {st : Nat → τ} (hi : ParInit c ids start evs ps)
    (hstart : ∀ e ∈ evs, start ≤ e.time) (hT : start ≤ T) (hst : ∀ p ∈ ps, p.st = st) :
    TInv hE c ids ⟨st, evs.map proj⟩ T start ps := by
  have hmem : ∀ p ∈ ps, ∀ e ∈ p.heap, e ∈ evs := fun p hp e he =>
    hi.split.mem_iff.mp (List.mem_flatMap.mpr ⟨p, hp, he⟩)
  refine ⟨Safe.init c start ps hi.clock (fun p hp e he => hstart e (hmem p hp e he)) hi.owned
      (fun p hp => ⟨(hi.fresh p hp).2.1, (hi.fresh p hp).2.2.1, (hi.fresh p hp).2.2.2⟩), hT, hi.pids, ?_,
      [], trivial, ⟨?_, ?_⟩, ?_, by simp⟩
  · intro p hp
    refine ⟨by simp [(hi.fresh p hp).1], by simp [(hi.fresh p hp).1]⟩
  · intro p hp x _
    rw [hst p hp]; rfl
  · have h2 : sysPend ps = ps.flatMap (·.heap) := by
      unfold sysPend
      apply flatMap_congr_mem
      intro p hp
      simp [(hi.fresh p hp).2.2.1]
    simp only [arun, List.append_nil, h2]
    exact (hi.split.map proj).symm
  · intro p hp
    simp [(hi.fresh p hp).1]


theorem TieEquiv.symm {a b : List Obs} (h : TieEquiv a b) : TieEquiv b a := ⟨h.2.1, h.1, h.2.2.symm⟩

theorem seqTrace_entProj (hE : EHandler τ) (T fuel start : Nat) (st : Nat → τ) (evs : List Ev) (n0 x : Nat) :
    upTo T ((runSeq (liftP hE) T fuel (Part.initCtr 0 start st evs n0)).obsLog x)
      = entProj x (seqTrace hE T fuel start st evs n0) := by
  unfold Part.obsLog seqTrace
  rw [upTo_obs]

theorem owned_of_filters {c : Cfg} {parts : List (Part (Nat → τ))} {E : List PEv}
    (hlogs : ∀ p ∈ parts, E.filter (ownB c p.pid) = p.log.reverse.map proj) :
    ∀ p ∈ parts, ∀ d ∈ p.log, Owns c p.pid d := by
  intro p hp d hd
  have h1 : proj d ∈ p.log.reverse.map proj := List.mem_map.mpr ⟨d, by simpa using hd, rfl⟩
  rw [← hlogs p hp] at h1
  have := (List.mem_filter.mp h1).2
  simpa [ownB, Owns, proj] using this

/-- what an entity observes of the partitioned outcome, as a projection of the abstract execution -/
theorem parObs_entProj {c : Cfg} {ids : List Nat} {parts : List (Part (Nat → τ))} {E : List PEv}
    (hids : ids.Nodup) (hpids : parts.map (·.pid) = ids)
    (hlogs : ∀ p ∈ parts, E.filter (ownB c p.pid) = p.log.reverse.map proj)
    (htg : ∀ d ∈ E, c.part d.tgt ∈ ids) (T x : Nat) :
    (upTo T (parObs parts x)).Perm (entProj x (E.filter (fun e => e.time ≤ T))) := by
  unfold parObs
  rw [upTo_obs]
  have h1 : (parts.flatMap (fun p => p.log.reverse)).map proj
      = (parts.map (·.pid)).flatMap (fun i => E.filter (fun a => c.part a.tgt == i)) := by
    rw [List.map_flatMap, List.flatMap_map]
    apply flatMap_congr_mem
    intro p hp
    exact (hlogs p hp).symm
  rw [h1, hpids]
  exact entProj_perm ((partition_perm ids hids (fun d : PEv => c.part d.tgt) E htg).filter _)

/-- both runs as executions of the abstract system, `confluence` / `confluence_noties` applied -/
theorem stateful_core_of (hE : EHandler τ) (c : Cfg) (ids : List Nat) (fuel endT start n0 : Nat)
    (st : Nat → τ) (evs : List Ev) (parts : List (Part (Nat → τ)))
    (hids : ids.Nodup) (hstart : ∀ e ∈ evs, start ≤ e.time)
    (hseq : Halted (liftP hE) seqRoute false endT (runSeq (liftP hE) endT fuel (Part.initCtr 0 start st evs n0)))
    (hex : ParExecOf hE c ids ⟨st, evs.map proj⟩ endT parts)
    (hcomm : NoTieL (seqTrace hE endT fuel start st evs n0) ∨ ∀ E2 : List PEv,
      (∀ p ∈ parts, E2.filter (ownB c p.pid) = p.log.reverse.map proj) →
      (∀ d ∈ E2, ∃ p ∈ parts, c.part d.tgt = p.pid) → TieComm hE E2) :
    (∀ x, TieEquiv (upTo endT ((runSeq (liftP hE) endT fuel (Part.initCtr 0 start st evs n0)).obsLog x))
      (upTo endT (parObs parts x)))
    ∧ (∀ p ∈ parts, ∀ x, c.part x = p.pid →
          p.st x = replay hE (st x) ((seqTrace hE endT fuel start st evs n0).filter (fun d => d.tgt == x))) := by
  obtain ⟨hv1, hm1, hle1, hfin1⟩ := seq_exec hE endT fuel start st evs n0 hstart hseq
  obtain ⟨E2, hv2, hs2, hle2, hfin2, hst2, hlogs, htg, hpids, hlinv⟩ := hex
  have hown' : ∀ d ∈ E2, ∃ p ∈ parts, c.part d.tgt = p.pid := by
    intro d hd
    have := htg d hd
    rw [← hpids, List.mem_map] at this
    obtain ⟨p, hp, he⟩ := this
    exact ⟨p, hp, he.symm⟩
  obtain ⟨hperm, hsteq⟩ : (seqTrace hE endT fuel start st evs n0).Perm E2
      ∧ (arun hE ⟨st, evs.map proj⟩ (seqTrace hE endT fuel start st evs n0)).st
        = (arun hE ⟨st, evs.map proj⟩ E2).st := by
    rcases hcomm with hnt | hcomm
    · exact confluence_noties hE endT _ E2 _ _ (AEq.refl _) hv1 hm1 hle1 hfin1 hnt hv2 hs2 hle2 hfin2
    · exact confluence hE endT _ E2 _ _ (AEq.refl _) hv1 hm1 hle1 hfin1 hv2 hs2 hle2 hfin2
        (hcomm E2 hlogs hown')
  refine ⟨?_, ?_⟩
  · intro x
    refine ⟨?_, ?_, ?_⟩
    · exact List.Pairwise.filter _ (obsLog_sorted ((LogInv.initCtr 0 start st evs n0).run fuel) x)
    · exact List.Pairwise.filter _ (parObs_sorted c _ x (hpids ▸ hids) (owned_of_filters hlogs) hlinv)
    · rw [seqTrace_entProj]
      have h3 : E2.filter (fun e => e.time ≤ endT) = E2 := by
        rw [List.filter_eq_self]
        intro e he
        simpa using hle2 e he
      have h4 := parObs_entProj hids hpids hlogs htg endT x
      rw [h3] at h4
      exact (entProj_perm hperm).trans h4.symm
  · intro p hp x hx
    rw [← hst2 p hp x hx, ← hsteq, arun_st_replay]

/-- the handler commutes on any two deliveries to one entity at one timestamp -/
def TieCommutative (hE : EHandler τ) : Prop :=
  ∀ a d : PEv, a.tgt = d.tgt → a.time = d.time → CommAt hE a d

/-- no two deliveries of the log carry the same timestamp -/
def NoTies (l : List Obs) : Prop := l.Pairwise (fun a b => a.1 < b.1)

instance (l : List Obs) : Decidable (NoTies l) := by unfold NoTies; infer_instance

theorem pairwise_mem_sym {α} {R : α → α → Prop} (hsym : ∀ a b, R a b → R b a) (hrefl : ∀ a, R a a) :
    ∀ l : List α, l.Pairwise R → ∀ a ∈ l, ∀ b ∈ l, R a b := by
  intro l
  induction l with
  | nil => intro _ a ha; simp at ha
  | cons x xs ih =>
    intro hp a ha b hb
    rw [List.pairwise_cons] at hp
    simp only [List.mem_cons] at ha hb
    rcases ha with rfl | ha <;> rcases hb with rfl | hb
    · exact hrefl _
    · exact hp.1 b hb
    · exact hsym _ _ (hp.1 a ha)
    · exact ih hp.2 a ha b hb

theorem NoTies.inj {l : List Obs} (h : NoTies l) : ∀ u ∈ l, ∀ v ∈ l, u.1 = v.1 → u = v := by
  have h' : l.Pairwise (fun u v => u.1 = v.1 → u = v) := h.imp (fun hlt he => by omega)
  exact pairwise_mem_sym (fun a b hab he => (hab he.symm).symm) (fun _ _ => rfl) l h'

/-- a time-sorted permutation of a log without ties is that log -/
theorem TieEquiv.eq_of_noTies {a b : List Obs} (h : TieEquiv a b) (hn : NoTies b) : a = b := by
  obtain ⟨ha, hb, hp⟩ := h
  unfold TimeSorted at ha hb
  refine List.Perm.eq_of_pairwise (le := fun (u v : Obs) => u.1 ≤ v.1) ?_ ha hb hp
  intro u v hu hv h1 h2
  exact hn.inj u (hp.mem_iff.mp hu) v hv (by omega)

/-- generic `par_eq_seq_tie_commutative` -/
theorem tie_commutative_of (hE : EHandler τ) (c : Cfg) (ids : List Nat) (fuel endT start n0 : Nat)
    (st : Nat → τ) (evs : List Ev) (parts : List (Part (Nat → τ))) (htc : TieCommutative hE)
    (hids : ids.Nodup) (hstart : ∀ e ∈ evs, start ≤ e.time)
    (hseq : Halted (liftP hE) seqRoute false endT (runSeq (liftP hE) endT fuel (Part.initCtr 0 start st evs n0)))
    (hex : ParExecOf hE c ids ⟨st, evs.map proj⟩ endT parts) :
    (∀ x, TieEquiv (upTo endT ((runSeq (liftP hE) endT fuel (Part.initCtr 0 start st evs n0)).obsLog x))
      (upTo endT (parObs parts x)))
    ∧ (∀ p ∈ parts, ∀ x, c.part x = p.pid →
          p.st x = replay hE (st x) ((seqTrace hE endT fuel start st evs n0).filter (fun d => d.tgt == x))) :=
  stateful_core_of hE c ids fuel endT start n0 st evs parts hids hstart hseq hex
    (Or.inr (fun _ _ _ a _ d _ _ ht htm => htc a d ht htm))

/-- generic `par_eq_seq_no_ties_observed` -/
theorem no_ties_observed_of (hE : EHandler τ) (c : Cfg) (ids : List Nat) (fuel endT start n0 : Nat)
    (st : Nat → τ) (evs : List Ev) (parts : List (Part (Nat → τ)))
    (hids : ids.Nodup) (hstart : ∀ e ∈ evs, start ≤ e.time)
    (hseq : Halted (liftP hE) seqRoute false endT (runSeq (liftP hE) endT fuel (Part.initCtr 0 start st evs n0)))
    (hex : ParExecOf hE c ids ⟨st, evs.map proj⟩ endT parts)
    (hnt : ∀ x, NoTies (parObs parts x)) :
    (∀ x, upTo endT ((runSeq (liftP hE) endT fuel (Part.initCtr 0 start st evs n0)).obsLog x)
      = upTo endT (parObs parts x))
    ∧ (∀ p ∈ parts, ∀ x, c.part x = p.pid →
          p.st x = replay hE (st x) ((seqTrace hE endT fuel start st evs n0).filter (fun d => d.tgt == x))) := by
  have core := stateful_core_of hE c ids fuel endT start n0 st evs parts hids hstart hseq hex (Or.inr ?_)
  · refine ⟨fun x => (core.1 x).eq_of_noTies ?_, core.2⟩
    exact List.Pairwise.filter _ (hnt x)
  · intro E2 hlogs hown a ha d hd hne ht htm
    exfalso
    obtain ⟨p, hp, hpa⟩ := hown a ha
    have mk : ∀ e ∈ E2, e.tgt = a.tgt → (e.time, e.kind) ∈ parObs parts a.tgt := by
      intro e he hte
      have h1 : e ∈ E2.filter (ownB c p.pid) := by
        simp [List.mem_filter, he, ownB, hte, hpa]
      rw [hlogs p hp, List.mem_map] at h1
      obtain ⟨ev, hev, rfl⟩ := h1
      simp only [parObs, List.mem_map, List.mem_filter, List.mem_flatMap]
      exact ⟨ev, ⟨⟨p, hp, hev⟩, by simpa [proj] using hte⟩, rfl⟩
    have := (hnt a.tgt).inj _ (mk a ha rfl) _ (mk d hd ht.symm) htm
    simp only [Prod.mk.injEq] at this
    apply hne
    cases a; cases d
    simp_all

theorem noTieL_of_noTies (hE : EHandler τ) (T fuel start : Nat) (st : Nat → τ) (evs : List Ev) (n0 : Nat)
    (hnt : ∀ x, NoTies (upTo T ((runSeq (liftP hE) T fuel (Part.initCtr 0 start st evs n0)).obsLog x))) :
    NoTieL (seqTrace hE T fuel start st evs n0) := by
  intro a ha b hb hne htg htm
  have mk : ∀ e ∈ seqTrace hE T fuel start st evs n0, e.tgt = a.tgt →
      (e.time, e.kind) ∈ upTo T ((runSeq (liftP hE) T fuel (Part.initCtr 0 start st evs n0)).obsLog a.tgt) := by
    intro e he hte
    rw [seqTrace_entProj]
    simp only [entProj, List.mem_map, List.mem_filter, beq_iff_eq]
    exact ⟨e, ⟨he, hte⟩, rfl⟩
  have := (hnt a.tgt).inj _ (mk a ha rfl) _ (mk b hb htg.symm) htm
  simp only [Prod.mk.injEq] at this
  apply hne
  cases a; cases b
  simp_all

/-- generic `par_eq_seq_no_ties` -/
theorem no_ties_of (hE : EHandler τ) (c : Cfg) (ids : List Nat) (fuel endT start n0 : Nat)
    (st : Nat → τ) (evs : List Ev) (parts : List (Part (Nat → τ)))
    (hids : ids.Nodup) (hstart : ∀ e ∈ evs, start ≤ e.time)
    (hseq : Halted (liftP hE) seqRoute false endT (runSeq (liftP hE) endT fuel (Part.initCtr 0 start st evs n0)))
    (hex : ParExecOf hE c ids ⟨st, evs.map proj⟩ endT parts)
    (hnt : ∀ x, NoTies (upTo endT ((runSeq (liftP hE) endT fuel (Part.initCtr 0 start st evs n0)).obsLog x))) :
    (∀ x, upTo endT ((runSeq (liftP hE) endT fuel (Part.initCtr 0 start st evs n0)).obsLog x)
      = upTo endT (parObs parts x))
    ∧ (∀ p ∈ parts, ∀ x, c.part x = p.pid →
          p.st x = replay hE (st x) ((seqTrace hE endT fuel start st evs n0).filter (fun d => d.tgt == x))) := by
  have core := stateful_core_of hE c ids fuel endT start n0 st evs parts hids hstart hseq hex
    (Or.inl (noTieL_of_noTies hE endT fuel start st evs n0 hnt))
  exact ⟨fun x => ((core.1 x).symm.eq_of_noTies (hnt x)).symm, core.2⟩

end HappyModel.C05
