import HappyProofs.C05.Equiv
import HappyProofs.C05.Idle
import HappyProofs.C05.Reject
import HappyProofs.C05.Full
import HappyProofs.C05.Stateful
import HappyProofs.C05.StatefulR
import HappyModel.C05.Driver
/-!
# C05 — property theorems

"Running a model split into partitions connected by links with a positive minimum latency delivers
to every entity the same deliveries (time, event type) in the same time order as running the same
model in a single sequential simulation (only the relative order of deliveries carrying the same
timestamp may differ), for any window size up to the minimum link latency, whenever cross-partition
delays respect the declared minimum. No cross-partition event is lost, duplicated or discarded as
being in the past, and independent partitions (no links) behave exactly like separate simulations."

Handlers are universally quantified functions `σ → Ev → σ × List Emit` of the partition's whole
entity state; window ends, fuel, configurations and initial heaps are universally quantified.
The window rule is the repaired one (`strict = true`); `no_time_travel_current_false` refutes the
clause for the rule of the unpatched code.

The main clause: `par_eq_seq_full` (`Full.lean`, every entity-local stateful handler) is *refuted* by
`par_eq_seq_full_false_for_order_sensitive_handlers`; what is true is proved in three theorems —
`par_eq_seq_partial` (below: emissions a function of the delivered event), and in `Stateful.lean`
`par_eq_seq_tie_commutative` (stateful handlers that commute on same-timestamp deliveries to one entity) and
`par_eq_seq_no_ties` / `par_eq_seq_no_ties_observed` (arbitrary stateful handlers, no entity receives two
deliveries with one timestamp: logs equal), with `seq_final_state` for the final entity states, and in
`Prefix.lean` `agree_before_first_tie` (any handler: the runs agree up to the first same-timestamp group).
`StatefulR.lean` has the same theorems for the coordinator with the code's creation indices (`coordLoopR`,
what the driver's `runs` mode executes for the stateful harness entities) and `ruleHandler_tieCommutative`.
-/
namespace HappyModel.C05

variable {σ : Type}

/-! ## no cross-partition event is discarded as being in the past -/

/-- **no_time_travel** — for every handler, configuration, window `w` not larger than any link
    latency, barrier `b`, window end `b ≤ we ≤ b + w` and every safe state (clocks ≤ b, heaps ≥ b,
    nothing discarded so far): if the windows ran to completion and the cross-partition delays
    respect the declared minimum (the coordinator's validation passes), every event injected at
    the barrier has time ≥ its destination's clock — so the engine's "time travel" branch cannot
    fire on it — and the state is safe again at `we`. -/
theorem no_time_travel (h : Handler σ) (c : Cfg) (fuel b we w : Nat) (ps : List (Part σ))
    (hw : WindowLeLat c w) (hb : b ≤ we) (hwe : we ≤ b + w) (safe : Safe c b ps)
    (hgood : ∀ p ∈ execAll h c true fuel we ps, p.bad = false)
    (hhalt : ∀ p ∈ execAll h c true fuel we ps, Halted h (c.route p.pid) true we p)
    (hlat : ∀ m ∈ allMsgs (execAll h c true fuel we ps), c.latOk m = true) :
    (∀ p ∈ execAll h c true fuel we ps, ∀ m ∈ allMsgs (execAll h c true fuel we ps),
        c.dest m = p.pid → p.clock ≤ m.ev.time)
    ∧ Safe c we (oneWindow h c true fuel we ps) :=
  oneWindow_safe h c fuel b we w ps hw hb hwe safe hgood hhalt hlat

/-- **no_time_travel_run** — the executable coordinator loop (the function the driver runs), for
    every handler, configuration, effective window ≤ every link latency, end time and fuel: a run
    from a safe state that returns without error has discarded nothing in any partition. -/
theorem no_time_travel_run (h : Handler σ) (c : Cfg) (fuel wEff endT n : Nat) (s : Coord σ)
    (hw : WindowLeLat c wEff) (he : s.err = none) (hcur : s.cur ≤ endT) (safe : Safe c s.cur s.parts)
    (hr : (coordLoop h c true fuel wEff endT n s).err = none) :
    ∀ p ∈ (coordLoop h c true fuel wEff endT n s).parts, p.tt = [] :=
  (coordLoop_safe h c fuel wEff endT hw n s he hcur safe hr).noTT

/-- **exchange_conserves** — none lost, none duplicated: after the barrier the heaps hold, as a
    multiset, exactly what they held before plus every outboxed event, and all outboxes are empty. -/
theorem exchange_conserves (c : Cfg) (ps : List (Part σ)) (hn : (ps.map (·.pid)).Nodup)
    (hd : ∀ m ∈ allMsgs ps, c.dest m ∈ ps.map (·.pid)) :
    ((exchange c ps).flatMap (·.heap)).Perm (ps.flatMap (·.heap) ++ (allMsgs ps).map (·.ev))
    ∧ ∀ p ∈ exchange c ps, p.outbox = [] :=
  ⟨exchange_heaps_perm c ps hn hd, exchange_outbox_empty c ps⟩

/-! ## each partition's delivery log is in time order -/

theorem coordRun_logInv (h : Handler σ) (c : Cfg) (strict : Bool) (fuel : Nat) (ws : List Nat) :
    ∀ ps : List (Part σ), (∀ p ∈ ps, LogInv p) → ∀ p ∈ coordRun h c strict fuel ws ps, LogInv p := by
  induction ws with
  | nil => intro ps hl; simpa [coordRun] using hl
  | cons we ws ih =>
    intro ps hl
    simp only [coordRun]
    apply ih
    apply exchange_logInv
    intro p hp
    simp only [execAll, List.mem_map] at hp
    obtain ⟨q, hq, rfl⟩ := hp
    exact (hl q hq).run fuel

/-- **partition_order** — for every handler, configuration, window rule, fuel and sequence of window
    ends: in every partition the log any entity observes is sorted by time, and the whole
    partition log is sorted (newest first) and never ahead of the clock. -/
theorem partition_order (h : Handler σ) (c : Cfg) (strict : Bool) (fuel : Nat) (ws : List Nat)
    (ps : List (Part σ)) (hl : ∀ p ∈ ps, LogInv p) :
    ∀ p ∈ coordRun h c strict fuel ws ps, LogInv p ∧ ∀ x, TimeSorted (p.obsLog x) :=
  fun p hp =>
    have inv := coordRun_logInv h c strict fuel ws ps hl p hp
    ⟨inv, obsLog_sorted inv⟩

/-- the same for the plain sequential engine -/
theorem seq_order (h : Handler σ) (endT fuel : Nat) (p : Part σ) (hl : LogInv p) :
    ∀ x, TimeSorted ((runSeq h endT fuel p).obsLog x) :=
  obsLog_sorted (hl.run fuel)

/-! ## independent partitions behave exactly like separate simulations -/

/-- **independent_eq_separate** — with no links the parallel run is, partition by partition,
    literally the sequential engine on that partition's own state (no router, no windows). -/
theorem independent_eq_separate (h : Handler σ) (c : Cfg) (strict : Bool) (fuel wEff endT n : Nat)
    (ps : List (Part σ)) (hno : c.links = []) :
    (parallelRun h c strict fuel wEff endT n ps).parts = ps.map (runSeq h endT fuel)
    ∧ (parallelRun h c strict fuel wEff endT n ps).err = none
    ∧ ∀ i : Nat, (parallelRun h c strict fuel wEff endT n ps).parts[i]? = ps[i]?.map (runSeq h endT fuel) := by
  simp [parallelRun, hno, runIndependent]

/-! ## the main clause: per-entity delivery sequences equal up to the order inside one timestamp -/

theorem ParInit.sinv {em : PEv → List Emit} {rank : PEv → Nat} {T : Nat} {c : Cfg} {ids : List Nat}
    {start : Nat} {evs : List Ev} {ps : List (Part σ)} (hi : ParInit c ids start evs ps)
    (hstart : ∀ e ∈ evs, start ≤ e.time) :
    SInv em rank T c ids (F em rank T evs) start ps ∧ ∀ p ∈ ps, LogInv p := by
  have hmem : ∀ p ∈ ps, ∀ e ∈ p.heap, e ∈ evs := fun p hp e he =>
    hi.split.mem_iff.mp (List.mem_flatMap.mpr ⟨p, hp, he⟩)
  refine ⟨⟨Safe.init c start ps hi.clock (fun p hp e he => hstart e (hmem p hp e he)) hi.owned
      (fun p hp => ⟨(hi.fresh p hp).2.1, (hi.fresh p hp).2.2.1, (hi.fresh p hp).2.2.2⟩), ?_, ?_, hi.pids⟩, ?_⟩
  · intro p hp d hd
    rw [(hi.fresh p hp).1] at hd
    simp at hd
  · refine (sysPot_split ps).trans ?_
    have h1 : sysLog T ps = [] := by
      unfold sysLog
      rw [List.flatMap_eq_nil_iff]
      intro p hp
      simp [logPart, (hi.fresh p hp).1]
    have h2 : sysPend ps = ps.flatMap (·.heap) := by
      unfold sysPend
      apply flatMap_congr_mem
      intro p hp
      simp [(hi.fresh p hp).2.2.1]
    rw [h1, h2, List.nil_append]
    exact F_perm em rank T hi.split
  · intro p hp
    refine ⟨by simp [(hi.fresh p hp).1], by simp [(hi.fresh p hp).1]⟩

/-- **par_eq_seq_partial** — the main clause for every handler whose emissions are a function of the
    delivered event (time, target, kind) only, *including every tie*: for every such handler
    (arbitrary state updates), finite program (`Ranked`), valid configuration, window `0 < wEff ≤`
    every link latency, start/end time, fuel and partitioning of the initial events: if the
    coordinated run (the executable `coordLoop`, repaired window rule) returns without error and
    the sequential run halts, then for every entity the deliveries up to the end time observed in
    the sequential run and in the parallel run are both sorted by time and are permutations of
    each other. -/
theorem par_eq_seq_partial (h : Handler σ) (em : PEv → List Emit) (rank : PEv → Nat)
    (c : Cfg) (ids : List Nat) (fuel wEff endT n start : Nat) (st : σ) (evs : List Ev)
    (ps : List (Part σ))
    (hr : Ranked em rank) (hed : EventDetermined h em)
    (hids : ids.Nodup) (hlinks : ∀ l ∈ c.links, l.dst ∈ ids)
    (hw : WindowLeLat c wEff) (hpos : 0 < wEff) (hse : start ≤ endT)
    (hstart : ∀ e ∈ evs, start ≤ e.time) (hi : ParInit c ids start evs ps)
    (hpar : (coordLoop h c true fuel wEff endT n
        { parts := ps, cur := start, windows := 0, injected := 0, outboxed := 0, err := none }).err = none)
    (hseq : Halted h seqRoute false endT (runSeq h endT fuel (Part.init 0 start st evs))) :
    ∀ x, TieEquiv (upTo endT ((runSeq h endT fuel (Part.init 0 start st evs)).obsLog x))
      (upTo endT (parObs (coordLoop h c true fuel wEff endT n
        { parts := ps, cur := start, windows := 0, injected := 0, outboxed := 0, err := none }).parts x)) := by
  intro x
  obtain ⟨sinv, hlog⟩ := hi.sinv (em := em) (rank := rank) (T := endT) hstart
  obtain ⟨hperm, hown, hlog', hpids⟩ := par_delivers_tree h c ids fuel wEff endT n
    { parts := ps, cur := start, windows := 0, injected := 0, outboxed := 0, err := none }
    hr hed hids hlinks hw hpos rfl hse _ sinv hlog hpar
  have hsq := seq_delivers_tree h endT fuel start st evs hr hed hstart hseq
  refine ⟨?_, ?_, ?_⟩
  · exact List.Pairwise.filter _ (obsLog_sorted ((LogInv.init 0 start st evs).run fuel) x)
  · exact List.Pairwise.filter _ (parObs_sorted c _ x (hpids ▸ hids) hown hlog')
  · unfold Part.obsLog parObs
    rw [upTo_obs, upTo_obs]
    apply entProj_perm
    refine List.Perm.trans ?_ ((sysLog_eq endT _).trans hperm).symm
    exact (((List.reverse_perm _).map proj).filter _).trans hsq

/-! ## the unpatched window rule falsifies the clause -/

open Driver in
/-- DESIGN §9 item 3 as a model run: `pb` (partition 1) has a local event at 0.3 s, `pa` sends to
    `pb` at 0.05 s with delay 0.1 s = link latency = window.  Under the unpatched rule
    (`strict = false`) `pb` overshoots the first window and the arrival is discarded. -/
def witnessCfg : Cfg := { partOf := #[0, 1], nparts := 2, links := [⟨0, 1, 100⟩] }
def witnessProg : List (Nat × Nat × Emit) := [(0, 0, ⟨100, 1, 1⟩)]
def witnessParts : List (Part Unit) :=
  [Part.init 0 0 () [⟨50, 0, 0, 0⟩], Part.init 1 0 () [⟨300, 1, 1, 2⟩]]

theorem no_time_travel_current_false :
    ((coordRun (Driver.scriptHandler witnessProg) witnessCfg false 10 [100, 200, 300] witnessParts).map
        (·.tt.length)) = [0, 1]
    ∧ ((coordRun (Driver.scriptHandler witnessProg) witnessCfg true 10 [100, 200, 300] witnessParts).map
        (·.tt.length)) = [0, 0] := by
  decide

/-! ## non-vacuity -/

/-- the witness initial state is `Safe`, the window equals the link latency, and one repaired
    window satisfies every hypothesis of `no_time_travel` with a real cross-partition message -/
example : Safe witnessCfg 0 witnessParts ∧ WindowLeLat witnessCfg 100 := by
  refine ⟨Safe.init _ 0 _ ?_ ?_ ?_ ?_, ?_⟩ <;> simp [witnessParts, witnessCfg, Part.init, WindowLeLat, Cfg.part]

example :
    (allMsgs (execAll (Driver.scriptHandler witnessProg) witnessCfg true 10 100 witnessParts)).length = 1
    ∧ (execAll (Driver.scriptHandler witnessProg) witnessCfg true 10 100 witnessParts).all
        (fun p => !p.bad && haltedB (Driver.scriptHandler witnessProg) (witnessCfg.route p.pid) true 100 p) = true
    ∧ (allMsgs (execAll (Driver.scriptHandler witnessProg) witnessCfg true 10 100 witnessParts)).all
        witnessCfg.latOk = true := by
  decide

/-- `exchange_conserves`: hypotheses hold on the witness after the first window -/
example :
    ((execAll (Driver.scriptHandler witnessProg) witnessCfg true 10 100 witnessParts).map (·.pid)).Nodup
    ∧ ∀ m ∈ allMsgs (execAll (Driver.scriptHandler witnessProg) witnessCfg true 10 100 witnessParts),
        witnessCfg.dest m ∈ (execAll (Driver.scriptHandler witnessProg) witnessCfg true 10 100 witnessParts).map (·.pid) := by
  decide

example : ∀ p ∈ witnessParts, LogInv p := by
  intro p hp
  simp only [witnessParts, List.mem_cons, List.not_mem_nil, or_false] at hp
  rcases hp with rfl | rfl <;> exact LogInv.init _ _ _ _

/-! ## the hypothesis "cross-partition delays respect the declared minimum" as judged on observations -/

/-- what the decidable `validConf` of the Spec says, clause by clause: every observed cross-partition
    emission went over a declared link, with a delay of at least the (effective) minimum of every declaration
    of that link, and a requested window is at most every declared minimum. -/
theorem valid_conf_respects_minimum (c : ConfObs) (hv : validConf c = true) :
    (∀ s ∈ c.sends, c.linked s.1 s.2.1 = true ∧
        ∀ l ∈ c.links, l.src = s.1 → l.dst = s.2.1 → l.eff ≤ s.2.2) ∧
    (∀ w, c.window = some w → ∀ l ∈ c.links, w ≤ l.decl) ∧
    (∀ l ∈ c.links, 0 < l.decl ∧ 0 < l.eff ∧ l.src ≠ l.dst) := by
  unfold validConf at hv
  simp only [Bool.and_eq_true, List.all_eq_true] at hv
  obtain ⟨⟨⟨hl, _⟩, hw⟩, hs⟩ := hv
  refine ⟨?_, ?_, ?_⟩
  · intro s hs'
    have h1 := hs s hs'
    refine ⟨h1.1, ?_⟩
    intro l hl' e1 e2
    have h2 := h1.2 l hl'
    simpa [e1, e2] using h2
  · intro w hw'
    rw [hw'] at hw
    simp only [Bool.and_eq_true, List.all_eq_true, decide_eq_true_eq] at hw
    exact hw.2
  · intro l hl'
    have h1 := hl l hl'
    simp only [decide_eq_true_eq, bne_iff_ne, ne_eq] at h1
    exact ⟨h1.1.1.1.1, h1.1.1.1.2, h1.1.1.2⟩

/-- 0.067 s declared on both directions, every hop takes exactly the minimum: valid, so an aborted run is a
    violation; one nanosecond less: outside the hypothesis, the rejection is correct -/
example :
    judgeRejected { nparts := 2, links := [⟨0, 1, 67000000, 67000000⟩, ⟨1, 0, 67000000, 67000000⟩], window := none,
                    refs := [(0, 1), (1, 0)], sends := [(0, 1, 67000000), (1, 0, 67000000)] }
      = some "par/valid-configuration-rejected" ∧
    judgeRejected { nparts := 2, links := [⟨0, 1, 67000000, 67000000⟩, ⟨1, 0, 67000000, 67000000⟩], window := none,
                    refs := [(0, 1), (1, 0)], sends := [(0, 1, 67000000), (1, 0, 66999999)] } = none := by decide

end HappyModel.C05

namespace HappyModel.C05

/-! ## non-vacuity of `par_eq_seq_partial`: every hypothesis holds on the witness program -/

def witnessEm : PEv → List Emit := fun e =>
  (witnessProg.filter (fun x => x.1 == e.tgt && x.2.1 == e.kind)).map (·.2.2)

def witnessEvs : List Ev := [⟨50, 0, 0, 0⟩, ⟨300, 1, 1, 2⟩]

example : EventDetermined (Driver.scriptHandler witnessProg) witnessEm := fun _ _ => rfl

example : Ranked witnessEm (fun e => 2 - e.kind) := by
  intro e c hc
  simp only [childrenOf, witnessEm, witnessProg, List.filter_cons, List.filter_nil] at hc
  split at hc
  · rename_i hk
    simp only [Bool.and_eq_true, beq_iff_eq] at hk
    simp only [List.map_cons, List.map_nil, List.mem_singleton] at hc
    subst hc
    simp only
    omega
  · simp at hc

example : ParInit witnessCfg [0, 1] 0 witnessEvs witnessParts := by
  constructor <;> simp [witnessParts, witnessCfg, witnessEvs, Part.init, Cfg.part]

example : [0, 1].Nodup ∧ (∀ l ∈ witnessCfg.links, l.dst ∈ [0, 1]) ∧ WindowLeLat witnessCfg 100 := by
  simp [witnessCfg, WindowLeLat]

example :
    (coordLoop (Driver.scriptHandler witnessProg) witnessCfg true 10 100 1000 10
        { parts := witnessParts, cur := 0, windows := 0, injected := 0, outboxed := 0, err := none }).err = none
    ∧ haltedB (Driver.scriptHandler witnessProg) seqRoute false 1000
        (runSeq (Driver.scriptHandler witnessProg) 1000 10 (Part.init 0 0 () witnessEvs)) = true
    ∧ parObs (coordLoop (Driver.scriptHandler witnessProg) witnessCfg true 10 100 1000 10
        { parts := witnessParts, cur := 0, windows := 0, injected := 0, outboxed := 0, err := none }).parts 1
      = [(150, 1), (300, 2)] := by
  decide

end HappyModel.C05
