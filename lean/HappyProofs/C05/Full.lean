import HappyProofs.C05.Equiv
/-!
The full statement of the main clause for entity-local *stateful* handlers (`par_eq_seq_full`), the
initial state of a partitioned run (`ParInit`), and the refutation of the full statement:
`par_eq_seq_full_false_for_order_sensitive_handlers`.

Two deliveries to one entity that carry the same timestamp can reach it in different orders in the two
runs (sequentially the creation index decides; in the partitioned run an event that crosses a link is
injected at the barrier *after* the destination has already executed the window up to and including
that instant).  A handler whose emissions depend on that order then emits different events, so the
logs differ by more than the order inside one timestamp.  The true envelope of the clause is proved in
`HappyProofs/C05/Stateful.lean`.
-/
namespace HappyModel.C05

variable {σ : Type}

/-- an entity-local stateful handler: `hE` sees and updates only the state of the entity the event
    is addressed to -/
def liftLocal {τ : Type} (hE : τ → Ev → τ × List Emit) : Handler (Nat → τ) :=
  fun st e => (fun x => if x = e.tgt then (hE (st e.tgt) e).1 else st x, (hE (st e.tgt) e).2)

/-- the initial state of a partitioned run of the events `evs` (what `ParallelSimulation.__init__`
    and `schedule(..., partition=…)` build) -/
structure ParInit (c : Cfg) (ids : List Nat) (start : Nat) (evs : List Ev) (ps : List (Part σ)) : Prop where
  pids : ps.map (·.pid) = ids
  clock : ∀ p ∈ ps, p.clock = start
  fresh : ∀ p ∈ ps, p.log = [] ∧ p.tt = [] ∧ p.outbox = [] ∧ p.bad = false
  owned : ∀ p ∈ ps, ∀ e ∈ p.heap, c.part e.tgt = p.pid
  split : (ps.flatMap (·.heap)).Perm evs

/-- **par_eq_seq** (full statement, not proved): for every entity-local stateful handler, every
    valid configuration (window ≤ every link latency, links point to existing partitions), every
    partitioning of the initial events: if the coordinated run returns without error and the
    sequential run halts, every entity observes the same deliveries in both runs up to the end
    time, up to the order inside one timestamp. -/
def par_eq_seq_full : Prop :=
  ∀ (τ : Type) (hE : τ → Ev → τ × List Emit) (c : Cfg) (ids : List Nat)
    (fuel wEff endT n start : Nat) (st : Nat → τ) (evs : List Ev) (ps : List (Part (Nat → τ))),
    ids.Nodup → (∀ l ∈ c.links, l.dst ∈ ids) → WindowLeLat c wEff → 0 < wEff → start ≤ endT →
    (∀ e ∈ evs, start ≤ e.time) → ParInit c ids start evs ps → (∀ p ∈ ps, p.st = st) →
    (coordLoop (liftLocal hE) c true fuel wEff endT n
        { parts := ps, cur := start, windows := 0, injected := 0, outboxed := 0, err := none }).err = none →
    Halted (liftLocal hE) seqRoute false endT (runSeq (liftLocal hE) endT fuel (Part.init 0 start st evs)) →
    ∀ x, TieEquiv (upTo endT ((runSeq (liftLocal hE) endT fuel (Part.init 0 start st evs)).obsLog x))
      (upTo endT (parObs (coordLoop (liftLocal hE) c true fuel wEff endT n
        { parts := ps, cur := start, windows := 0, injected := 0, outboxed := 0, err := none }).parts x))

/-! ## the full statement is false: an order-sensitive entity-local handler -/

/-- entity 0 forwards kind 0 to entity 1 as kind 2 after 100 ns (the link minimum); entity 1 turns
    kind 0 into a kind-1 event to itself after 50 ns, remembers whether it has seen kind 1
    (state 1), and answers a kind-2 delivery that arrives *before* any kind-1 delivery with a
    kind-7 event to itself after 10 ns.  Entity-local and order-sensitive inside one timestamp. -/
def tieHandler : Nat → Ev → Nat × List Emit := fun s e =>
  if e.tgt = 0 then (s, if e.kind = 0 then [⟨100, 1, 2⟩] else [])
  else if e.kind = 0 then (s, [⟨50, 1, 1⟩])
  else if e.kind = 1 then (1, [])
  else if e.kind = 2 then (s, if s = 0 then [⟨10, 1, 7⟩] else [])
  else (s, [])

def tieCfg : Cfg := { partOf := #[0, 1], nparts := 2, links := [⟨0, 1, 100⟩] }
def tieEvs : List Ev := [⟨0, 0, 0, 0⟩, ⟨50, 1, 1, 0⟩]
def tieSt : Nat → Nat := fun _ => 0
def tieParts : List (Part (Nat → Nat)) :=
  [Part.init 0 0 tieSt [⟨0, 0, 0, 0⟩], Part.init 1 0 tieSt [⟨50, 1, 1, 0⟩]]

/-- what entity 1 observes: sequentially the cross event (created first) is delivered before the
    local one at 100 ns and triggers the kind-7 event; in the partitioned run the local event at 100 ns
    is delivered inside the first window, the cross event only after the barrier, and kind 7 never
    exists. -/
theorem tie_witness_logs :
    (runSeq (liftLocal tieHandler) 1000 10 (Part.init 0 0 tieSt tieEvs)).obsLog 1
      = [(50, 0), (100, 2), (100, 1), (110, 7)]
    ∧ parObs (coordLoop (liftLocal tieHandler) tieCfg true 10 100 1000 20
        { parts := tieParts, cur := 0, windows := 0, injected := 0, outboxed := 0, err := none }).parts 1
      = [(50, 0), (100, 1), (100, 2)] := by
  decide

/-- **par_eq_seq_full_false_for_order_sensitive_handlers** — the main clause as the property states it
    ("only the relative order of deliveries carrying the same timestamp may differ") is *false* for
    entity-local stateful handlers: on the two-partition witness (window = link latency = 100 ns,
    every hypothesis of the full statement holds, the coordinated run returns without error, nothing
    is discarded) entity 1 receives `(110, 7)` sequentially and never in the partitioned run. -/
theorem par_eq_seq_full_false_for_order_sensitive_handlers : ¬ par_eq_seq_full := by
  intro hfull
  have h := hfull Nat tieHandler tieCfg [0, 1] 10 100 1000 20 0 tieSt tieEvs tieParts
    (by decide) (by decide) (by simp [WindowLeLat, tieCfg]) (by decide) (by decide) (by decide)
    (by constructor <;> simp [tieParts, tieCfg, tieEvs, Part.init, Cfg.part])
    (by simp [tieParts, Part.init])
    (by decide) (by unfold Halted; decide) 1
  rw [tie_witness_logs.1, tie_witness_logs.2] at h
  exact absurd h (by decide)

end HappyModel.C05
