import HappyProofs.C05.Coord
import HappyModel.C05.Driver
/-!
A configuration whose handler respects the declared links (every cross-partition emission goes over
a declared link and is delayed by at least that link's minimum latency) is never rejected by the
coordinator with a `RuntimeError`: neither the partition routers nor the min-latency validation of
`_exchange_events` can raise.  The only remaining error exit of the model is its own fuel.
-/
namespace HappyModel.C05

variable {σ : Type}

/-- every cross-partition emission of the handler goes over a declared link and its delay is at least
    that link's declared minimum latency -/
def RespectsMin {σ} (h : Handler σ) (c : Cfg) : Prop :=
  ∀ (st : σ) (e : Ev) (em : Emit), em ∈ (h st e).2 →
    c.part em.tgt = c.part e.tgt ∨
    ∃ L, c.latOf (c.part e.tgt) (c.part em.tgt) = some L ∧ L ≤ em.delay

/-- per-partition invariant: heap events are owned, the router never raised, every outbox entry passes
    the coordinator's min-latency validation -/
structure RejInv (c : Cfg) (p : Part σ) : Prop where
  owned : ∀ e ∈ p.heap, c.part e.tgt = p.pid
  good : p.bad = false
  outOk : ∀ x ∈ p.outbox, c.latOk ⟨p.pid, x.1, x.2⟩ = true

theorem latOf_some_linked {c : Cfg} {i j L : Nat} (hl : c.latOf i j = some L) : c.linked i j = true := by
  unfold Cfg.latOf at hl
  simp only [Option.map_eq_some_iff] at hl
  obtain ⟨l, hf, _⟩ := hl
  have hmem : l ∈ c.links := by simpa using List.mem_of_find?_eq_some hf
  have hp := List.find?_some hf
  unfold Cfg.linked
  exact List.any_eq_true.mpr ⟨l, hmem, hp⟩

theorem route_out_ne {c : Cfg} {pid t : Nat} (h : c.route pid t = .out) : c.part t ≠ pid := by
  unfold Cfg.route at h
  split at h
  · simp at h
  · rename_i h1; simpa using h1

theorem route_not_bad {c : Cfg} {pid t : Nat} (h : c.part t = pid ∨ c.linked pid (c.part t) = true) :
    c.route pid t ≠ .bad := by
  unfold Cfg.route
  rcases h with h | h
  · simp [h]
  · split
    · simp
    · simp

theorem RejInv.step {h : Handler σ} {c : Cfg} {strict : Bool} {we : Nat} {p p' : Part σ}
    (hr : RespectsMin h c) (inv : RejInv c p) (hs : stepWin h (c.route p.pid) strict we p = some p') :
    p'.pid = p.pid ∧ RejInv c p' := by
  obtain ⟨x, xs, hx, _, _, _, hc⟩ := stepWin_cases h (c.route p.pid) strict we p p' hs
  have hmem : minOf x xs ∈ p.heap := hx ▸ minOf_mem x xs
  have hrest : ∀ e ∈ (x :: xs).erase (minOf x xs), e ∈ p.heap := fun e he => hx ▸ mem_of_mem_rest he
  have hown : c.part (minOf x xs).tgt = p.pid := inv.owned _ hmem
  rcases hc with ⟨_, rfl⟩ | ⟨_, rfl⟩
  · exact ⟨rfl, ⟨fun e he => inv.owned e (hrest e he), inv.good, inv.outOk⟩⟩
  · refine ⟨rfl, ⟨?_, ?_, ?_⟩⟩
    · intro e he
      simp only [deliver, List.mem_append, List.mem_filter] at he ⊢
      rcases he with he | ⟨_, hl⟩
      · exact inv.owned e (hrest e he)
      · exact route_loc_owns c p.pid e (by simpa [isLoc] using hl)
    · simp only [deliver, inv.good, Bool.false_or]
      rw [Bool.eq_false_iff]
      intro hany
      obtain ⟨ev, hev, hb⟩ := List.any_eq_true.mp hany
      have hb' : c.route p.pid ev.tgt = .bad := by simpa [isBad] using hb
      obtain ⟨em, hm, _, htg, _⟩ := mem_mkEvents hev
      refine route_not_bad ?_ hb'
      rcases hr p.st (minOf x xs) em hm with h1 | ⟨L, hL, _⟩
      · left; rw [htg, h1, hown]
      · right; rw [htg]; rw [hown] at hL; exact latOf_some_linked hL
    · intro y hy
      simp only [deliver, List.mem_append, List.mem_map, List.mem_filter] at hy
      rcases hy with hy | ⟨ev, ⟨hev, ho⟩, rfl⟩
      · exact inv.outOk y hy
      · have ho' : c.route p.pid ev.tgt = .out := by simpa [isOut] using ho
        have hne := route_out_ne ho'
        obtain ⟨em, hm, htm, htg, _⟩ := mem_mkEvents hev
        rcases hr p.st (minOf x xs) em hm with h1 | ⟨L, hL, hle⟩
        · exact absurd (by rw [htg, h1, hown]) hne
        · rw [hown, ← htg] at hL
          simp only [deliver, Cfg.latOk, Cfg.dest, hL, decide_eq_true_eq]
          omega

theorem RejInv.run {h : Handler σ} {c : Cfg} {strict : Bool} {we : Nat} (hr : RespectsMin h c) (n : Nat)
    {p : Part σ} (inv : RejInv c p) : RejInv c (runWin h (c.route p.pid) strict we n p) := by
  have := runWin_induct h (c.route p.pid) strict we (fun q => q.pid = p.pid ∧ RejInv c q)
    (fun q q' hq hs => by
      have hs' : stepWin h (c.route q.pid) strict we q = some q' := by rw [hq.1]; exact hs
      obtain ⟨h1, h2⟩ := RejInv.step hr hq.2 hs'
      exact ⟨h1.trans hq.1, h2⟩) n p ⟨rfl, inv⟩
  exact this.2

theorem execAll_rej {h : Handler σ} {c : Cfg} (strict : Bool) (fuel we : Nat) {ps : List (Part σ)}
    (hr : RespectsMin h c) (inv : ∀ p ∈ ps, RejInv c p) :
    ∀ p ∈ execAll h c strict fuel we ps, RejInv c p := by
  intro p hp
  simp only [execAll, List.mem_map] at hp
  obtain ⟨q, hq, rfl⟩ := hp
  exact RejInv.run hr fuel (inv q hq)

theorem exchange_rej {c : Cfg} {ps : List (Part σ)} (inv : ∀ p ∈ ps, RejInv c p) :
    ∀ p ∈ exchange c ps, RejInv c p := by
  intro p hp
  simp only [exchange, List.mem_map] at hp
  obtain ⟨q, hq, rfl⟩ := hp
  refine ⟨?_, (inv q hq).good, ?_⟩
  · intro e he
    simp only [inject, List.mem_append, List.mem_map, List.mem_filter] at he ⊢
    rcases he with he | ⟨m, ⟨_, hdm⟩, rfl⟩
    · exact (inv q hq).owned e he
    · simpa [Cfg.dest] using hdm
  · intro x hx
    simp [inject] at hx

/-- one coordinator iteration from a state satisfying the invariant never raises `RuntimeError`,
    and when it performs the barrier the invariant holds again -/
theorem windowStep_rej {h : Handler σ} {c : Cfg} (strict : Bool) (fuel we : Nat) (s : Coord σ)
    (hr : RespectsMin h c) (inv : ∀ p ∈ s.parts, RejInv c p) :
    (windowStep h c strict fuel we s).err ≠ some .runtime ∧
    ((windowStep h c strict fuel we s).err = none →
      ∀ p ∈ (windowStep h c strict fuel we s).parts, RejInv c p) := by
  have hex := execAll_rej strict fuel we hr inv
  have hbad : ¬ (execAll h c strict fuel we s.parts).any (·.bad) = true := by
    intro hany
    obtain ⟨p, hp, hb⟩ := List.any_eq_true.mp hany
    simp [(hex p hp).good] at hb
  have hlat : (allMsgs (execAll h c strict fuel we s.parts)).all c.latOk = true := by
    rw [List.all_eq_true]
    intro m hm
    obtain ⟨q, hq, x, hx, rfl⟩ := mem_allMsgs hm
    exact (hex q hq).outOk x hx
  unfold windowStep
  simp only [hbad, Bool.false_eq_true, if_false, hlat, Bool.not_true]
  split
  · exact ⟨by simp, by simp⟩
  · exact ⟨by simp, fun _ => exchange_rej hex⟩

theorem coordLoop_rej {h : Handler σ} {c : Cfg} (strict : Bool) (fuel wEff endT : Nat)
    (hr : RespectsMin h c) :
    ∀ (n : Nat) (s : Coord σ), s.err ≠ some .runtime → (s.err = none → ∀ p ∈ s.parts, RejInv c p) →
      (coordLoop h c strict fuel wEff endT n s).err ≠ some .runtime := by
  intro n
  induction n with
  | zero => intro s _ _; simp [coordLoop]
  | succ n ih =>
    intro s he inv
    unfold coordLoop
    by_cases h0 : s.err.isSome = true
    · simpa only [h0, if_true] using he
    · simp only [h0, Bool.false_eq_true, if_false]
      have hnone : s.err = none := by
        cases hx : s.err <;> simp_all
      have inv' := inv hnone
      by_cases hend : endT ≤ s.cur
      · simp only [hend, if_true]
        exact (windowStep_rej strict fuel endT s hr inv').1
      · simp only [hend, if_false]
        generalize (if s.cur + wEff > endT then endT else s.cur + wEff) = we
        obtain ⟨h1, h2⟩ := windowStep_rej strict fuel we s hr inv'
        by_cases h3 : (windowStep h c strict fuel we s).err.isSome = true
        · simpa only [h3, if_true] using h1
        · simp only [h3, Bool.false_eq_true, if_false]
          have h3' : (windowStep h c strict fuel we s).err = none := by
            cases hx : (windowStep h c strict fuel we s).err <;> simp_all
          split
          · simp [h3']
          · exact ih _ (by simp [h3']) (fun _ => h2 h3')

/-- **A valid configuration is never rejected**: if the handler only emits across partitions over
    declared links with at least their minimum latency, and the run starts from owned heaps with
    empty outboxes, `ParallelSimulation.run` never ends in a `RuntimeError` (unreachable target in
    a router, or `min_latency` violated at the barrier), for either window rule. -/
theorem valid_config_never_rejected {σ} (h : Handler σ) (c : Cfg) (strict : Bool) (fuel wEff endT n : Nat)
    (ps : List (Part σ)) (hr : RespectsMin h c)
    (h0 : ∀ p ∈ ps, (∀ e ∈ p.heap, c.part e.tgt = p.pid) ∧ p.bad = false ∧ p.outbox = []) :
    (parallelRun h c strict fuel wEff endT n ps).err ≠ some .runtime := by
  unfold parallelRun
  split
  · simp
  · refine coordLoop_rej strict fuel wEff endT hr n _ (by simp) ?_
    intro _ p hp
    obtain ⟨h1, h2, h3⟩ := h0 p hp
    exact ⟨h1, h2, by simp [h3]⟩

/-! ## non-vacuity -/

def rejCfg : Cfg := { partOf := #[0, 1], nparts := 2, links := [⟨0, 1, 100⟩] }
def rejParts : List (Part Unit) :=
  [Part.init 0 0 () [⟨50, 0, 0, 0⟩], Part.init 1 0 () [⟨300, 1, 1, 2⟩]]

/-- the hypotheses hold on a configuration with a real cross-partition emission -/
example : RespectsMin (Driver.scriptHandler [(0, 0, ⟨100, 1, 1⟩)]) rejCfg := by
  intro st e em hm
  simp only [Driver.scriptHandler, List.filter_cons, List.filter_nil] at hm
  split at hm
  · rename_i hk
    simp only [Bool.and_eq_true, beq_iff_eq] at hk
    simp only [List.map_cons, List.map_nil, List.mem_singleton] at hm
    subst hm
    right
    refine ⟨100, ?_, Nat.le_refl _⟩
    rw [← hk.1]
    decide
  · simp at hm

example : ∀ p ∈ rejParts, (∀ e ∈ p.heap, rejCfg.part e.tgt = p.pid) ∧ p.bad = false ∧ p.outbox = [] := by
  decide

/-- the run actually exchanges a message and ends without error -/
example :
    (parallelRun (Driver.scriptHandler [(0, 0, ⟨100, 1, 1⟩)]) rejCfg true 10 100 1000 10 rejParts).err = none
    ∧ (parallelRun (Driver.scriptHandler [(0, 0, ⟨100, 1, 1⟩)]) rejCfg true 10 100 1000 10 rejParts).injected = 1 := by
  decide

/-- the hypothesis is necessary: one nanosecond below the link's minimum latency and the coordinator
    rejects the run with a `RuntimeError` -/
example :
    (parallelRun (Driver.scriptHandler [(0, 0, ⟨99, 1, 1⟩)]) rejCfg true 10 100 1000 10 rejParts).err
      = some .runtime := by
  decide

end HappyModel.C05
