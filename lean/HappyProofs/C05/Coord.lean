import HappyProofs.C05.Exchange
/-!
The executable coordinator loop (`coordLoop`, what the driver runs) keeps the `Safe` invariant:
its own exits (router raised / fuel / min-latency validation) are exactly the side conditions of
`oneWindow_safe`, so a run that returns without error never discarded an event.
-/
namespace HappyModel.C05

variable {σ : Type}

theorem haltedB_iff {h : Handler σ} {r : Nat → Route} {strict : Bool} {we : Nat} {p : Part σ} :
    haltedB h r strict we p = true ↔ Halted h r strict we p := by
  unfold haltedB Halted
  cases stepWin h r strict we p <;> simp

/-- the side conditions under which the coordinator performs a barrier at `we` -/
structure WindowOk (h : Handler σ) (c : Cfg) (fuel we : Nat) (ps : List (Part σ)) : Prop where
  good : ∀ p ∈ execAll h c true fuel we ps, p.bad = false
  halt : ∀ p ∈ execAll h c true fuel we ps, Halted h (c.route p.pid) true we p
  lat : ∀ m ∈ allMsgs (execAll h c true fuel we ps), c.latOk m = true

theorem windowStep_ok (h : Handler σ) (c : Cfg) (fuel we : Nat) (s : Coord σ)
    (hr : (windowStep h c true fuel we s).err = none) :
    WindowOk h c fuel we s.parts ∧ (windowStep h c true fuel we s).cur = we
    ∧ (windowStep h c true fuel we s).parts = oneWindow h c true fuel we s.parts := by
  unfold windowStep at hr ⊢
  by_cases hbad : (execAll h c true fuel we s.parts).any (·.bad) = true
  · simp [hbad] at hr
  · simp only [hbad, Bool.false_eq_true, if_false] at hr ⊢
    by_cases hh : (execAll h c true fuel we s.parts).all (fun p => haltedB h (c.route p.pid) true we p) = true
    · simp only [hh, Bool.not_true, Bool.false_eq_true, if_false] at hr ⊢
      by_cases hl : (allMsgs (execAll h c true fuel we s.parts)).all c.latOk = true
      · simp only [hl, Bool.not_true, Bool.false_eq_true, if_false] at hr ⊢
        refine ⟨⟨?_, ?_, ?_⟩, by first | trivial | rfl, by first | trivial | rfl⟩
        · intro p hp
          simp only [List.any_eq_true, not_exists, not_and] at hbad
          simpa using hbad p hp
        · intro p hp
          exact haltedB_iff.mp (List.all_eq_true.mp hh p hp)
        · exact fun m hm => List.all_eq_true.mp hl m hm
      · simp [hl] at hr
    · simp [hh] at hr

/-- generic induction over the executable coordinator loop (every barrier is at or before the end time): an invariant `I b ps` preserved by
    every barrier the coordinator actually performs holds at the end, together with a
    postcondition `Q` established at both exits (all heaps empty / final pass at the end time) -/
theorem coordLoop_inv' (h : Handler σ) (c : Cfg) (fuel wEff endT : Nat)
    (I : Nat → List (Part σ) → Prop) (Q : List (Part σ) → Prop)
    (hstep : ∀ b we ps, I b ps → b ≤ we → we ≤ b + wEff → we ≤ endT → WindowOk h c fuel we ps →
      I we (oneWindow h c true fuel we ps))
    (hempty : ∀ ps : List (Part σ), ps.all (·.heap.isEmpty) = true → Q ps)
    (hfinal : ∀ ps, I endT ps → WindowOk h c fuel endT ps → Q (oneWindow h c true fuel endT ps)) :
    ∀ (n : Nat) (s : Coord σ), s.err = none → s.cur ≤ endT → I s.cur s.parts →
      (coordLoop h c true fuel wEff endT n s).err = none →
      I (coordLoop h c true fuel wEff endT n s).cur (coordLoop h c true fuel wEff endT n s).parts
      ∧ Q (coordLoop h c true fuel wEff endT n s).parts := by
  intro n
  induction n with
  | zero => intro s _ _ _ hr; simp [coordLoop] at hr
  | succ n ih =>
    intro s he hcur inv hr
    unfold coordLoop at hr ⊢
    simp only [he, Option.isSome_none, Bool.false_eq_true, if_false] at hr ⊢
    by_cases hend : endT ≤ s.cur
    · simp only [hend, if_true] at hr ⊢
      have hce : s.cur = endT := by omega
      obtain ⟨hok, h2, h3⟩ := windowStep_ok h c fuel endT s hr
      rw [h2, h3]
      exact ⟨hstep s.cur endT s.parts inv (by omega) (by omega) (Nat.le_refl _) hok, hfinal s.parts (hce ▸ inv) hok⟩
    · simp only [hend, if_false] at hr ⊢
      generalize hwe : (if s.cur + wEff > endT then endT else s.cur + wEff) = we at hr ⊢
      have hb : s.cur ≤ we := by subst hwe; split <;> omega
      have hle : we ≤ s.cur + wEff := by subst hwe; split <;> omega
      have hwT : we ≤ endT := by subst hwe; split <;> omega
      by_cases h1 : (windowStep h c true fuel we s).err.isSome = true
      · simp only [h1, if_true] at hr
        simp [hr] at h1
      · simp only [h1, Bool.false_eq_true, if_false] at hr ⊢
        have h1' : (windowStep h c true fuel we s).err = none := by
          cases hx : (windowStep h c true fuel we s).err <;> simp_all
        obtain ⟨hok, hc, hp⟩ := windowStep_ok h c fuel we s h1'
        have hI := hstep s.cur we s.parts inv hb hle hwT hok
        split
        · rename_i hem
          refine ⟨by simpa [hc, hp] using hI, hempty _ (by simpa using hem)⟩
        · rename_i hne
          simp only [hne, Bool.false_eq_true, if_false] at hr
          exact ih _ (by simpa using h1') (by simpa [hc] using hwT) (by simpa [hc, hp] using hI) hr

/-- generic induction over the executable coordinator loop: an invariant `I b ps` preserved by
    every barrier the coordinator actually performs holds at the end, together with a
    postcondition `Q` established at both exits (all heaps empty / final pass at the end time) -/
theorem coordLoop_inv (h : Handler σ) (c : Cfg) (fuel wEff endT : Nat)
    (I : Nat → List (Part σ) → Prop) (Q : List (Part σ) → Prop)
    (hstep : ∀ b we ps, I b ps → b ≤ we → we ≤ b + wEff → WindowOk h c fuel we ps →
      I we (oneWindow h c true fuel we ps))
    (hempty : ∀ ps : List (Part σ), ps.all (·.heap.isEmpty) = true → Q ps)
    (hfinal : ∀ ps, I endT ps → WindowOk h c fuel endT ps → Q (oneWindow h c true fuel endT ps)) :
    ∀ (n : Nat) (s : Coord σ), s.err = none → s.cur ≤ endT → I s.cur s.parts →
      (coordLoop h c true fuel wEff endT n s).err = none →
      I (coordLoop h c true fuel wEff endT n s).cur (coordLoop h c true fuel wEff endT n s).parts
      ∧ Q (coordLoop h c true fuel wEff endT n s).parts :=
  coordLoop_inv' h c fuel wEff endT I Q (fun b we ps i hb hle _ ok => hstep b we ps i hb hle ok) hempty hfinal

theorem coordLoop_safe (h : Handler σ) (c : Cfg) (fuel wEff endT : Nat) (hw : WindowLeLat c wEff)
    (n : Nat) (s : Coord σ) (he : s.err = none) (hcur : s.cur ≤ endT) (safe : Safe c s.cur s.parts)
    (hr : (coordLoop h c true fuel wEff endT n s).err = none) :
    Safe c (coordLoop h c true fuel wEff endT n s).cur (coordLoop h c true fuel wEff endT n s).parts :=
  (coordLoop_inv h c fuel wEff endT (Safe c) (fun _ => True)
    (fun b we ps inv hb hle ok =>
      (oneWindow_safe h c fuel b we wEff ps hw hb hle inv ok.good ok.halt ok.lat).2)
    (fun _ _ => trivial) (fun _ _ _ => trivial) n s he hcur safe hr).1

theorem Safe.noTT {c : Cfg} {b : Nat} {ps : List (Part σ)} (s : Safe c b ps) : ∀ p ∈ ps, p.tt = [] :=
  fun p hp => (s.inv p hp).noTT

/-- the initial state of a partitioned run is safe: clocks at the start time, every scheduled event
    at or after it and addressed to an entity of the partition it was scheduled on -/
theorem Safe.init (c : Cfg) (start : Nat) (ps : List (Part σ))
    (hc : ∀ p ∈ ps, p.clock = start) (ht : ∀ p ∈ ps, ∀ e ∈ p.heap, start ≤ e.time)
    (ho : ∀ p ∈ ps, ∀ e ∈ p.heap, c.part e.tgt = p.pid)
    (hz : ∀ p ∈ ps, p.tt = [] ∧ p.outbox = [] ∧ p.bad = false) : Safe c start ps := by
  constructor
  · intro p hp
    exact ⟨fun e he => hc p hp ▸ ht p hp e he, ht p hp, ho p hp, (hz p hp).1,
           by simp [(hz p hp).2.1]⟩
  · intro p hp; exact Nat.le_of_eq (hc p hp)
  · intro p hp; exact (hz p hp).2.1
  · intro p hp; exact (hz p hp).2.2

end HappyModel.C05
