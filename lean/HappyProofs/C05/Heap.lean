import HappyModel.C05.Parallel
/-! Minimum extraction is sound: the popped event is in the heap and no heap event is earlier. -/
namespace HappyModel.C05

theorem minOf_mem (m : Ev) (l : List Ev) : minOf m l ∈ m :: l := by
  induction l generalizing m with
  | nil => simp [minOf]
  | cons x xs ih =>
    simp only [minOf]
    split
    · have := ih x
      simp only [List.mem_cons] at this ⊢
      rcases this with h | h
      · exact Or.inr (Or.inl h)
      · exact Or.inr (Or.inr h)
    · have := ih m
      simp only [List.mem_cons] at this ⊢
      rcases this with h | h
      · exact Or.inl h
      · exact Or.inr (Or.inr h)

theorem minOf_time_le_self (m : Ev) (l : List Ev) : (minOf m l).time ≤ m.time := by
  induction l generalizing m with
  | nil => simp [minOf]
  | cons x xs ih =>
    simp only [minOf]
    split
    · rename_i h
      have h1 := ih x
      simp only [keyLt, Bool.or_eq_true, Bool.and_eq_true, decide_eq_true_eq, beq_iff_eq] at h
      omega
    · exact ih m

theorem minOf_time_le (m : Ev) (l : List Ev) : ∀ y ∈ m :: l, (minOf m l).time ≤ y.time := by
  induction l generalizing m with
  | nil => intro y hy; simp at hy; subst hy; simp [minOf]
  | cons x xs ih =>
    intro y hy
    simp only [minOf]
    simp only [List.mem_cons] at hy
    split
    · rename_i h
      simp only [keyLt, Bool.or_eq_true, Bool.and_eq_true, decide_eq_true_eq, beq_iff_eq] at h
      rcases hy with rfl | rfl | hy
      · have := minOf_time_le_self x xs; omega
      · exact minOf_time_le_self _ xs
      · exact ih x y (by simp [hy])
    · rename_i h
      simp only [keyLt, Bool.or_eq_true, Bool.and_eq_true, decide_eq_true_eq, beq_iff_eq] at h
      rcases hy with rfl | rfl | hy
      · exact minOf_time_le_self _ xs
      · have := minOf_time_le_self m xs; omega
      · exact ih m y (by simp [hy])

/-- the rest of the heap after the pop is a sub-multiset: heap ~ min :: rest -/
theorem heap_perm_pop (x : Ev) (xs : List Ev) :
    (x :: xs).Perm (minOf x xs :: (x :: xs).erase (minOf x xs)) :=
  List.perm_cons_erase (minOf_mem x xs)

theorem mem_of_mem_rest {x : Ev} {xs : List Ev} {e : Ev}
    (h : e ∈ (x :: xs).erase (minOf x xs)) : e ∈ x :: xs :=
  List.mem_of_mem_erase h

end HappyModel.C05
