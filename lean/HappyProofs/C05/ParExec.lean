import HappyProofs.C05.SysSim
/-!
The whole coordinated run (the executable `coordLoop`, repaired window rule) of an entity-local
handler is one execution `E` of the abstract system: valid, in time order for every entity, complete
up to the end time, ending in the partitions' entity states, and — restricted to the entities of a
partition — equal to that partition's delivery log.
-/
namespace HappyModel.C05

variable {τ : Type}

structure TInv (hE : EHandler τ) (c : Cfg) (ids : List Nat) (s0 : AS τ) (T b : Nat)
    (ps : List (Part (Nat → τ))) : Prop where
  safe : Safe c b ps
  le : b ≤ T
  pids : ps.map (·.pid) = ids
  logInv : ∀ p ∈ ps, LogInv p
  exec : ∃ E, Valid hE s0 E ∧ SSim c (arun hE s0 E) ps []
    ∧ (∀ p ∈ ps, E.filter (ownB c p.pid) = p.log.reverse.map proj)
    ∧ (∀ d ∈ E, c.part d.tgt ∈ ids)

theorem TInv.window {hE : EHandler τ} {c : Cfg} {ids : List Nat} {s0 : AS τ} {fuel T b we w : Nat}
    {ps : List (Part (Nat → τ))} (hids : ids.Nodup) (hlinks : ∀ l ∈ c.links, l.dst ∈ ids)
    (hw : WindowLeLat c w) (hb : b ≤ we) (hwe : we ≤ b + w) (hT : we ≤ T)
    (inv : TInv hE c ids s0 T b ps) (ok : WindowOk (liftP hE) c fuel we ps) :
    TInv hE c ids s0 T we (oneWindow (liftP hE) c true fuel we ps) := by
  have hsafe := (oneWindow_safe (liftP hE) c fuel b we w ps hw hb hwe inv.safe ok.good ok.halt ok.lat).2
  have hranpids : (execAll (liftP hE) c true fuel we ps).map (·.pid) = ids := by
    rw [execAll_pids]; exact inv.pids
  have hdest : ∀ m ∈ allMsgs (execAll (liftP hE) c true fuel we ps),
      c.dest m ∈ (execAll (liftP hE) c true fuel we ps).map (·.pid) := by
    intro m hm
    rw [hranpids]
    obtain ⟨q', hq', x, hx, rfl⟩ := mem_allMsgs hm
    simp only [execAll, List.mem_map] at hq'
    obtain ⟨q, hq, rfl⟩ := hq'
    have := ((WInv.run (h := liftP hE) (strict := true) (we := we) (route_loc_owns c q.pid) fuel
      (inv.safe.inv q hq)).out x hx).2.2
    obtain ⟨l, hl, hd⟩ := route_out_dest this
    simpa [Cfg.dest, hd] using hlinks l hl
  obtain ⟨E, hv, sim, hlogs, htg⟩ := inv.exec
  obtain ⟨seg, hvs, sim', hlog', htg'⟩ := execAll_sim hE c b fuel we true ps (arun hE s0 E) []
    (inv.pids ▸ hids) inv.safe.inv sim ok.good
  refine ⟨hsafe, hT, ?_, oneWindow_logInv (liftP hE) c true fuel we ps inv.logInv, E ++ seg, ?_, ?_, ?_, ?_⟩
  · simp only [oneWindow]; rw [exchange_pids]; exact hranpids
  · exact (Valid_append hE E seg s0).mpr ⟨hv, hvs⟩
  · rw [arun_append]
    exact exchange_ssim c _ _ [] (hranpids ▸ hids) hdest sim'
  · intro p hp
    simp only [oneWindow, exchange, execAll, List.mem_map] at hp
    obtain ⟨q', ⟨q, hq, rfl⟩, rfl⟩ := hp
    have h1 := hlog' q hq
    have h2 := hlogs q hq
    simp only [inject, runWin_pid]
    rw [List.filter_append, h2]
    exact h1.symm
  · intro d hd
    simp only [List.mem_append] at hd
    rcases hd with hd | hd
    · exact htg d hd
    · rw [← inv.pids]; exact htg' d hd

theorem tgtSorted_of_filters {c : Cfg} {ids : List Nat} {ps : List (Part (Nat → τ))} {E : List PEv}
    (htg : ∀ d ∈ E, c.part d.tgt ∈ ids) (hp : ps.map (·.pid) = ids)
    (hf : ∀ p ∈ ps, E.filter (ownB c p.pid) = p.log.reverse.map proj)
    (hl : ∀ p ∈ ps, LogInv p) : TgtSorted E := by
  unfold TgtSorted
  rw [List.pairwise_iff_forall_sublist]
  intro a b hsub htgt
  have ha : a ∈ E := hsub.subset (by simp)
  have := htg a ha
  rw [← hp, List.mem_map] at this
  obtain ⟨p, hpm, hpid⟩ := this
  have h1 : ([a, b].filter (ownB c p.pid)).Sublist (E.filter (ownB c p.pid)) := hsub.filter _
  have h2 : [a, b].filter (ownB c p.pid) = [a, b] := by
    simp [ownB, hpid, ← htgt]
  rw [h2, hf p hpm] at h1
  have h3 : (p.log.reverse.map proj).Pairwise (fun x y => x.time ≤ y.time) := by
    rw [List.pairwise_map, List.pairwise_reverse]
    exact (hl p hpm).sorted.imp (fun h => by simpa [proj] using h)
  have := List.Pairwise.sublist h1 h3
  simpa using this

/-- `parts` is the outcome of a run that is an execution of the abstract system from `s0`: valid, in
    time order for every entity, complete up to `T`, ending in the partitions' entity states and —
    restricted to the entities of a partition — equal to that partition's delivery log -/
def ParExecOf (hE : EHandler τ) (c : Cfg) (ids : List Nat) (s0 : AS τ) (T : Nat)
    (parts : List (Part (Nat → τ))) : Prop :=
  ∃ E, Valid hE s0 E ∧ TgtSorted E ∧ (∀ e ∈ E, e.time ≤ T)
    ∧ (∀ e ∈ (arun hE s0 E).pend, T < e.time)
    ∧ (∀ p ∈ parts, ∀ x, c.part x = p.pid → (arun hE s0 E).st x = p.st x)
    ∧ (∀ p ∈ parts, E.filter (ownB c p.pid) = p.log.reverse.map proj)
    ∧ (∀ d ∈ E, c.part d.tgt ∈ ids)
    ∧ parts.map (·.pid) = ids
    ∧ (∀ p ∈ parts, LogInv p)

/-- a `TInv` state at a barrier `b ≤ T` whose heaps hold nothing up to `T` is such an outcome -/
theorem TInv.execOf {hE : EHandler τ} {c : Cfg} {ids : List Nat} {s0 : AS τ} {T b : Nat}
    {ps : List (Part (Nat → τ))} (tinv : TInv hE c ids s0 T b ps)
    (hQ : ∀ p ∈ ps, ∀ e ∈ p.heap, T < e.time) : ParExecOf hE c ids s0 T ps := by
  obtain ⟨E, hv, sim, hlogs, htg⟩ := tinv.exec
  refine ⟨E, hv, tgtSorted_of_filters htg tinv.pids hlogs tinv.logInv, ?_, ?_, sim.st, hlogs, htg,
    tinv.pids, tinv.logInv⟩
  · intro e he
    have := htg e he
    rw [← tinv.pids, List.mem_map] at this
    obtain ⟨p, hp, hpid⟩ := this
    have h1 : e ∈ E.filter (ownB c p.pid) := by
      simp [List.mem_filter, he, ownB, hpid]
    rw [hlogs p hp] at h1
    simp only [List.mem_map, List.mem_reverse] at h1
    obtain ⟨d, hd, rfl⟩ := h1
    have h2 := (tinv.logInv p hp).leClock d hd
    have h3 := tinv.safe.clock p hp
    have h4 := tinv.le
    simp only [proj]
    omega
  · intro e he
    have := sim.pend.mem_iff.mp he
    simp only [List.append_nil, List.mem_map, sysPend, List.mem_flatMap, List.mem_append] at this
    obtain ⟨e0, ⟨p, hp, h1 | h1⟩, rfl⟩ := this
    · exact hQ p hp e0 h1
    · rw [tinv.safe.outEmpty p hp] at h1; simp at h1

/-- **the coordinated run is an abstract execution** -/
theorem par_exec (hE : EHandler τ) (c : Cfg) (ids : List Nat) (fuel wEff endT n : Nat)
    (s : Coord (Nat → τ)) (s0 : AS τ) (hids : ids.Nodup) (hlinks : ∀ l ∈ c.links, l.dst ∈ ids)
    (hw : WindowLeLat c wEff) (hpos : 0 < wEff) (he : s.err = none) (hcur : s.cur ≤ endT)
    (inv : TInv hE c ids s0 endT s.cur s.parts)
    (hres : (coordLoop (liftP hE) c true fuel wEff endT n s).err = none) :
    ParExecOf hE c ids s0 endT (coordLoop (liftP hE) c true fuel wEff endT n s).parts := by
  have key := coordLoop_inv' (liftP hE) c fuel wEff endT
    (fun b ps => TInv hE c ids s0 endT b ps)
    (fun ps => ∀ p ∈ ps, ∀ e ∈ p.heap, endT < e.time)
    (fun b we ps i hb hle hT ok => i.window hids hlinks hw hb hle hT ok)
    (fun ps hem p hp e he => by
      have := List.all_eq_true.mp hem p hp
      simp only [List.isEmpty_iff] at this
      simp [this] at he)
    (fun ps i ok => oneWindow_heap_gt (liftP hE) c fuel endT endT wEff ps hw (Nat.le_refl _) (by omega) i.safe ok)
    n s he hcur inv hres
  exact key.1.execOf key.2

end HappyModel.C05
