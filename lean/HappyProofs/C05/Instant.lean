import HappyProofs.C05.Trace
/-!
`confluence_noties`: the confluence theorem with the hypothesis on the *sequential* execution only —
if the min-first execution delivers no two different events to one entity at one timestamp, neither
does any other complete execution in per-entity time order, and the two deliver the same events and
end in the same states, for an arbitrary (order-sensitive) handler.

The new ingredient is the *instant* argument: the deliveries of an execution at the earliest pending
time `t` form an execution by themselves (`filter_instant`: later deliveries to other entities can
be dropped, `drop`); for the two executions these instant executions are both min-first, so
`confluence` applies with the tie-free sequential instant in the role of the second execution, and
the instants are permutations of each other (`instant_perm`).
-/
namespace HappyModel.C05

variable {τ : Type}

theorem pend_ge_step (hE : EHandler τ) (t : Nat) (s : AS τ) (d : PEv) (hp : ∀ e ∈ s.pend, t ≤ e.time)
    (hd : d ∈ s.pend) : ∀ e ∈ (astep hE s d).pend, t ≤ e.time := by
  intro x hx
  simp only [astep, List.mem_append] at hx
  rcases hx with hx | hx
  · exact hp x (List.mem_of_mem_erase hx)
  · exact Nat.le_trans (hp _ hd) (mem_emitAt hx)

theorem pend_ge (hE : EHandler τ) (t : Nat) (ds : List PEv) : ∀ s : AS τ,
    (∀ e ∈ s.pend, t ≤ e.time) → Valid hE s ds → ∀ e ∈ (arun hE s ds).pend, t ≤ e.time := by
  induction ds with
  | nil => intro s hp _; exact hp
  | cons d ds ih => intro s hp hv; exact ih _ (pend_ge_step hE t s d hp hv.1) hv.2

/-- a delivery later than, and to another entity than, everything that follows can be dropped -/
theorem drop (hE : EHandler τ) (a : PEv) : ∀ (F : List PEv) (s : AS τ), a ∈ s.pend →
    Valid hE (astep hE s a) F → (∀ f ∈ F, f.tgt ≠ a.tgt ∧ f.time < a.time) →
    Valid hE s F ∧ AEq (arun hE (astep hE s a) F) (astep hE (arun hE s F) a) := by
  intro F
  induction F with
  | nil => intro s _ _ _; exact ⟨trivial, AEq.refl _⟩
  | cons f F ih =>
    intro s ha hv hF
    obtain ⟨htg, htm⟩ := hF f (by simp)
    have hne : a ≠ f := fun h => by rw [h] at htm; omega
    have hf : f ∈ s.pend := by
      have := hv.1
      simp only [astep, List.mem_append] at this
      rcases this with h | h
      · exact List.mem_of_mem_erase h
      · have := mem_emitAt h; omega
    have hsw := swap hE s a f hf ha hne (Or.inl (Ne.symm htg))
    have ha' : a ∈ (astep hE s f).pend := by
      simp only [astep, List.mem_append]
      exact Or.inl ((List.mem_erase_of_ne hne).mpr ha)
    obtain ⟨h1, h2⟩ := ih (astep hE s f) ha' (Valid_congr hE F hsw hv.2) (fun g hg => hF g (by simp [hg]))
    exact ⟨⟨hf, h1⟩, (arun_congr hE F hsw).trans h2⟩

/-- the deliveries at time `t` -/
def atT (t : Nat) (E : List PEv) : List PEv := E.filter (fun e => e.time == t)

theorem mem_atT {t : Nat} {E : List PEv} {e : PEv} : e ∈ atT t E ↔ e ∈ E ∧ e.time = t := by
  simp [atT, List.mem_filter]

/-- at the earliest pending time, the deliveries of that instant form an execution by themselves,
    and it delivers everything of that instant the whole execution delivers -/
theorem filter_instant (hE : EHandler τ) (t : Nat) : ∀ (E : List PEv) (s : AS τ),
    (∀ e ∈ s.pend, t ≤ e.time) → Valid hE s E → TgtSorted E →
    Valid hE s (atT t E)
    ∧ ∀ e ∈ (arun hE s (atT t E)).pend, e.time = t → e ∈ (arun hE s E).pend := by
  intro E
  induction E with
  | nil => intro s _ _ _; exact ⟨trivial, fun e he _ => he⟩
  | cons a E ih =>
    intro s hp hv hs
    have hs' : TgtSorted E := (List.pairwise_cons.mp hs).2
    obtain ⟨h1, h2⟩ := ih (astep hE s a) (pend_ge_step hE t s a hp hv.1) hv.2 hs'
    by_cases hat : a.time = t
    · have : atT t (a :: E) = a :: atT t E := by simp [atT, hat]
      rw [this]
      exact ⟨⟨hv.1, h1⟩, h2⟩
    · have : atT t (a :: E) = atT t E := by simp [atT, hat]
      rw [this]
      have hgt : t < a.time := by have := hp a hv.1; omega
      have hF : ∀ f ∈ atT t E, f.tgt ≠ a.tgt ∧ f.time < a.time := by
        intro f hf
        obtain ⟨hfE, hft⟩ := mem_atT.mp hf
        refine ⟨?_, by omega⟩
        intro he
        have := (List.pairwise_cons.mp hs).1 f hfE he.symm
        omega
      obtain ⟨hv', heq⟩ := drop hE a (atT t E) s hv.1 h1 hF
      refine ⟨hv', ?_⟩
      intro e he het
      apply h2 e ?_ het
      apply heq.pend.mem_iff.mpr
      simp only [astep, List.mem_append]
      refine Or.inl ((List.mem_erase_of_ne ?_).mpr he)
      intro h; rw [h] at het; omega

theorem minFirst_sorted (hE : EHandler τ) : ∀ (E : List PEv) (s : AS τ), Valid hE s E →
    MinFirst hE s E → E.Pairwise (fun a b => a.time ≤ b.time) := by
  intro E
  induction E with
  | nil => intro _ _ _; exact List.Pairwise.nil
  | cons d E ih =>
    intro s hv hm
    rw [List.pairwise_cons]
    refine ⟨?_, ih _ hv.2 hm.2⟩
    exact ge_of_valid hE d.time E (astep hE s d) (pend_ge_step hE d.time s d hm.1 hv.1) hv.2

theorem minFirst_of_instant (hE : EHandler τ) (t : Nat) : ∀ (F : List PEv) (s : AS τ),
    (∀ e ∈ s.pend, t ≤ e.time) → (∀ e ∈ F, e.time = t) → Valid hE s F → MinFirst hE s F := by
  intro F
  induction F with
  | nil => intro _ _ _ _; trivial
  | cons f F ih =>
    intro s hp hF hv
    refine ⟨?_, ih _ (pend_ge_step hE t s f hp hv.1) (fun e he => hF e (by simp [he])) hv.2⟩
    intro e he
    rw [hF f (by simp)]
    exact hp e he

/-- no two *different* events go to one entity at one timestamp -/
def NoTieL (E : List PEv) : Prop := ∀ a ∈ E, ∀ b ∈ E, a ≠ b → a.tgt = b.tgt → a.time ≠ b.time

/-- at the earliest pending time the two executions deliver the same events -/
theorem instant_perm (hE : EHandler τ) (T t : Nat) (E1 E2 : List PEv) (s s' : AS τ) (heq : AEq s s')
    (hv1 : Valid hE s E1) (hm1 : MinFirst hE s E1) (hfin1 : ∀ e ∈ (arun hE s E1).pend, T < e.time)
    (hnt : NoTieL E1)
    (hv2 : Valid hE s' E2) (hs2 : TgtSorted E2) (hfin2 : ∀ e ∈ (arun hE s' E2).pend, T < e.time)
    (ht : t ≤ T) (hpt : ∀ e ∈ s.pend, t ≤ e.time) : (atT t E2).Perm (atT t E1) := by
  have hpt' : ∀ e ∈ s'.pend, t ≤ e.time := fun e he => hpt e (heq.pend.mem_iff.mpr he)
  have hs1 : TgtSorted E1 := by
    unfold TgtSorted
    have h0 := minFirst_sorted hE E1 s hv1 hm1
    rw [List.pairwise_iff_forall_sublist] at h0 ⊢
    intro a b hab _
    exact h0 hab
  obtain ⟨f1v, f1c⟩ := filter_instant hE t E1 s hpt hv1 hs1
  obtain ⟨f2v, f2c⟩ := filter_instant hE t E2 s' hpt' hv2 hs2
  have hall1 : ∀ e ∈ atT t E1, e.time = t := fun e he => (mem_atT.mp he).2
  have hall2 : ∀ e ∈ atT t E2, e.time = t := fun e he => (mem_atT.mp he).2
  refine (confluence hE t (atT t E2) (atT t E1) s' s heq.symm f2v
    (minFirst_of_instant hE t _ s' hpt' hall2 f2v) (fun e he => Nat.le_of_eq (hall2 e he)) ?_ f1v ?_
    (fun e he => Nat.le_of_eq (hall1 e he)) ?_ ?_).1
  · intro e he
    have h1 := pend_ge hE t _ s' hpt' f2v e he
    by_cases h2 : e.time = t
    · have := hfin2 e (f2c e he h2); omega
    · omega
  · exact List.Pairwise.sublist List.filter_sublist hs1
  · intro e he
    have h1 := pend_ge hE t _ s hpt f1v e he
    by_cases h2 : e.time = t
    · have := hfin1 e (f1c e he h2); omega
    · omega
  · intro a ha d hd hne htg htm
    exact absurd htm (hnt a (mem_atT.mp ha).1 d (mem_atT.mp hd).1 hne htg)

/-- **confluence_noties**, see the header -/
theorem confluence_noties (hE : EHandler τ) (T : Nat) : ∀ (E1 E2 : List PEv) (s s' : AS τ), AEq s s' →
    Valid hE s E1 → MinFirst hE s E1 → (∀ e ∈ E1, e.time ≤ T) →
    (∀ e ∈ (arun hE s E1).pend, T < e.time) → NoTieL E1 →
    Valid hE s' E2 → TgtSorted E2 → (∀ e ∈ E2, e.time ≤ T) →
    (∀ e ∈ (arun hE s' E2).pend, T < e.time) →
    E1.Perm E2 ∧ (arun hE s E1).st = (arun hE s' E2).st := by
  intro E1
  induction E1 with
  | nil =>
    intro E2 s s' heq _ _ _ hfin _ hv2 _ hle2 _
    cases E2 with
    | nil => exact ⟨List.Perm.refl _, heq.st⟩
    | cons a E2 =>
      exfalso
      have h1 : a ∈ s.pend := heq.pend.mem_iff.mpr hv2.1
      have := hfin a h1
      have := hle2 a (by simp)
      omega
  | cons d E1 ih =>
    intro E2 s s' heq hv1 hm1 hle1 hfin1 hnt hv2 hs2 hle2 hfin2
    have hdT : d.time ≤ T := hle1 d (by simp)
    have hd' : d ∈ s'.pend := heq.pend.mem_iff.mp hv1.1
    have hdE2 : d ∈ E2 := by
      rcases persist hE d E2 s' hd' with h | h
      · exact h
      · have := hfin2 d h; omega
    have hinst := instant_perm hE T d.time (d :: E1) E2 s s' heq hv1 hm1 hfin1 hnt hv2 hs2 hfin2 hdT hm1.1
    obtain ⟨A, B, rfl, hdA⟩ := split_first d E2 hdE2
    have hge : ∀ e ∈ A ++ d :: B, d.time ≤ e.time :=
      ge_of_valid hE d.time _ s' (fun e he => hm1.1 e (heq.pend.mem_iff.mpr he)) hv2
    have hA : ∀ a ∈ A, a ≠ d ∧ (a.tgt ≠ d.tgt ∨ (a.time = d.time ∧ a.tgt = d.tgt ∧ CommAt hE a d)) := by
      intro a ha
      have hne : a ≠ d := fun h => hdA (h ▸ ha)
      refine ⟨hne, ?_⟩
      by_cases ht : a.tgt = d.tgt
      · exfalso
        have h1 : a.time ≤ d.time := by
          have := (List.pairwise_append.mp hs2).2.2 a ha d (by simp)
          exact this ht
        have h2 := hge a (by simp [ha])
        have hte : a.time = d.time := by omega
        have h3 : a ∈ atT d.time (A ++ d :: B) := mem_atT.mpr ⟨by simp [ha], hte⟩
        have h4 := (mem_atT.mp (hinst.mem_iff.mp h3)).1
        exact hnt a h4 d (by simp) hne ht hte
      · exact Or.inl ht
    obtain ⟨hvp, heqp⟩ := pull hE d B A s' hv2 hd' hA
    have hsub : (A ++ B).Sublist (A ++ d :: B) :=
      List.Sublist.append (List.Sublist.refl _) (List.sublist_cons_self d B)
    have hmem : ∀ e ∈ A ++ B, e ∈ A ++ d :: B := fun e he => hsub.subset he
    have key := ih (A ++ B) (astep hE s d) (astep hE s' d) (astep_congr hE heq d) hv1.2 hm1.2
      (fun e he => hle1 e (by simp [he])) hfin1
      (fun a ha b hb => hnt a (by simp [ha]) b (by simp [hb]))
      hvp.2 (List.Pairwise.sublist hsub hs2)
      (fun e he => hle2 e (hmem e he))
      (fun e he => hfin2 e (heqp.pend.mem_iff.mp he))
    refine ⟨?_, ?_⟩
    · exact (key.1.cons d).trans List.perm_middle.symm
    · show (arun hE (astep hE s d) E1).st = _
      rw [key.2]
      exact heqp.st

end HappyModel.C05
