import HappyProofs.C05.StatefulCore
/-!
The main clause for entity-local *stateful* handlers (emissions may depend on the entity's own
state, i.e. on its whole delivery history), on the executable coordinator loop `coordLoop`
(`StatefulR.lean`: the same for `coordLoopR`, the coordinator with the code's creation indices):

* `par_eq_seq_tie_commutative` — handlers that commute on two deliveries to one entity at one
  timestamp: logs equal up to the order inside a timestamp, final entity states determined;
* `par_eq_seq_no_ties` — arbitrary handlers, when the sequential run delivers no two events to one
  entity at one timestamp: per-entity logs are *equal* (`par_eq_seq_no_ties_observed`: hypothesis on
  the partitioned run's logs).

The sequential run starts with any creation counter `n0` (`Part.initCtr … n0`; `n0 = 0` is `Part.init`).
-/
namespace HappyModel.C05

variable {τ : Type}

/-- **par_eq_seq_tie_commutative** — the main clause for entity-local *stateful* handlers (emissions
    may depend on the entity's state, hence on its whole delivery history) that commute on two
    deliveries to one entity at one timestamp (same state afterwards, same emissions as a multiset;
    no condition on deliveries at different times): for every valid configuration, window
    `0 < wEff ≤` every link latency, start/end time, fuel and partitioning of the initial events, if
    the coordinated run (executable `coordLoop`, repaired window rule) returns without error and the
    sequential run halts, then every entity's deliveries up to the end time in the two runs are both
    sorted by time and permutations of each other, and every entity ends the partitioned run in the
    state the handler reaches on the sequential run's deliveries to it up to the end time. -/
theorem par_eq_seq_tie_commutative (hE : EHandler τ) (c : Cfg) (ids : List Nat)
    (fuel wEff endT n start n0 : Nat) (st : Nat → τ) (evs : List Ev) (ps : List (Part (Nat → τ)))
    (htc : TieCommutative hE)
    (hids : ids.Nodup) (hlinks : ∀ l ∈ c.links, l.dst ∈ ids)
    (hw : WindowLeLat c wEff) (hpos : 0 < wEff) (hse : start ≤ endT)
    (hstart : ∀ e ∈ evs, start ≤ e.time) (hi : ParInit c ids start evs ps) (hst : ∀ p ∈ ps, p.st = st)
    (hpar : (coordLoop (liftP hE) c true fuel wEff endT n
        { parts := ps, cur := start, windows := 0, injected := 0, outboxed := 0, err := none }).err = none)
    (hseq : Halted (liftP hE) seqRoute false endT (runSeq (liftP hE) endT fuel (Part.initCtr 0 start st evs n0))) :
    (∀ x, TieEquiv (upTo endT ((runSeq (liftP hE) endT fuel (Part.initCtr 0 start st evs n0)).obsLog x))
      (upTo endT (parObs (coordLoop (liftP hE) c true fuel wEff endT n
        { parts := ps, cur := start, windows := 0, injected := 0, outboxed := 0, err := none }).parts x)))
    ∧ (∀ p ∈ (coordLoop (liftP hE) c true fuel wEff endT n
        { parts := ps, cur := start, windows := 0, injected := 0, outboxed := 0, err := none }).parts,
        ∀ x, c.part x = p.pid →
          p.st x = replay hE (st x) ((seqTrace hE endT fuel start st evs n0).filter (fun d => d.tgt == x))) :=
  tie_commutative_of hE c ids fuel endT start n0 st evs _ htc hids hstart hseq
    (par_exec hE c ids fuel wEff endT n
      { parts := ps, cur := start, windows := 0, injected := 0, outboxed := 0, err := none }
      ⟨st, evs.map proj⟩ hids hlinks hw hpos rfl hse (TInv.init hi hstart hse hst) hpar)

/-- **par_eq_seq_no_ties_observed** — arbitrary entity-local stateful handlers (no commutation
    assumed): if in the partitioned run no entity received two deliveries with the same timestamp,
    the per-entity logs of the two runs up to the end time are *equal*, and the final entity states
    are the ones the sequential deliveries produce. -/
theorem par_eq_seq_no_ties_observed (hE : EHandler τ) (c : Cfg) (ids : List Nat)
    (fuel wEff endT n start n0 : Nat) (st : Nat → τ) (evs : List Ev) (ps : List (Part (Nat → τ)))
    (hids : ids.Nodup) (hlinks : ∀ l ∈ c.links, l.dst ∈ ids)
    (hw : WindowLeLat c wEff) (hpos : 0 < wEff) (hse : start ≤ endT)
    (hstart : ∀ e ∈ evs, start ≤ e.time) (hi : ParInit c ids start evs ps) (hst : ∀ p ∈ ps, p.st = st)
    (hpar : (coordLoop (liftP hE) c true fuel wEff endT n
        { parts := ps, cur := start, windows := 0, injected := 0, outboxed := 0, err := none }).err = none)
    (hseq : Halted (liftP hE) seqRoute false endT (runSeq (liftP hE) endT fuel (Part.initCtr 0 start st evs n0)))
    (hnt : ∀ x, NoTies (parObs (coordLoop (liftP hE) c true fuel wEff endT n
        { parts := ps, cur := start, windows := 0, injected := 0, outboxed := 0, err := none }).parts x)) :
    (∀ x, upTo endT ((runSeq (liftP hE) endT fuel (Part.initCtr 0 start st evs n0)).obsLog x)
      = upTo endT (parObs (coordLoop (liftP hE) c true fuel wEff endT n
        { parts := ps, cur := start, windows := 0, injected := 0, outboxed := 0, err := none }).parts x))
    ∧ (∀ p ∈ (coordLoop (liftP hE) c true fuel wEff endT n
        { parts := ps, cur := start, windows := 0, injected := 0, outboxed := 0, err := none }).parts,
        ∀ x, c.part x = p.pid →
          p.st x = replay hE (st x) ((seqTrace hE endT fuel start st evs n0).filter (fun d => d.tgt == x))) :=
  no_ties_observed_of hE c ids fuel endT start n0 st evs _ hids hstart hseq
    (par_exec hE c ids fuel wEff endT n
      { parts := ps, cur := start, windows := 0, injected := 0, outboxed := 0, err := none }
      ⟨st, evs.map proj⟩ hids hlinks hw hpos rfl hse (TInv.init hi hstart hse hst) hpar) hnt

/-- **par_eq_seq_no_ties** — arbitrary entity-local stateful handlers (order-sensitive ones included):
    if in the *sequential* run no entity receives two deliveries with the same timestamp up to the
    end time, then the partitioned run has no such pair either, the per-entity logs of the two runs
    up to the end time are *equal*, and every entity ends the partitioned run in the state the
    handler reaches on the sequential deliveries to it. -/
theorem par_eq_seq_no_ties (hE : EHandler τ) (c : Cfg) (ids : List Nat)
    (fuel wEff endT n start n0 : Nat) (st : Nat → τ) (evs : List Ev) (ps : List (Part (Nat → τ)))
    (hids : ids.Nodup) (hlinks : ∀ l ∈ c.links, l.dst ∈ ids)
    (hw : WindowLeLat c wEff) (hpos : 0 < wEff) (hse : start ≤ endT)
    (hstart : ∀ e ∈ evs, start ≤ e.time) (hi : ParInit c ids start evs ps) (hst : ∀ p ∈ ps, p.st = st)
    (hpar : (coordLoop (liftP hE) c true fuel wEff endT n
        { parts := ps, cur := start, windows := 0, injected := 0, outboxed := 0, err := none }).err = none)
    (hseq : Halted (liftP hE) seqRoute false endT (runSeq (liftP hE) endT fuel (Part.initCtr 0 start st evs n0)))
    (hnt : ∀ x, NoTies (upTo endT ((runSeq (liftP hE) endT fuel (Part.initCtr 0 start st evs n0)).obsLog x))) :
    (∀ x, upTo endT ((runSeq (liftP hE) endT fuel (Part.initCtr 0 start st evs n0)).obsLog x)
      = upTo endT (parObs (coordLoop (liftP hE) c true fuel wEff endT n
        { parts := ps, cur := start, windows := 0, injected := 0, outboxed := 0, err := none }).parts x))
    ∧ (∀ p ∈ (coordLoop (liftP hE) c true fuel wEff endT n
        { parts := ps, cur := start, windows := 0, injected := 0, outboxed := 0, err := none }).parts,
        ∀ x, c.part x = p.pid →
          p.st x = replay hE (st x) ((seqTrace hE endT fuel start st evs n0).filter (fun d => d.tgt == x))) :=
  no_ties_of hE c ids fuel endT start n0 st evs _ hids hstart hseq
    (par_exec hE c ids fuel wEff endT n
      { parts := ps, cur := start, windows := 0, injected := 0, outboxed := 0, err := none }
      ⟨st, evs.map proj⟩ hids hlinks hw hpos rfl hse (TInv.init hi hstart hse hst) hpar) hnt

/-- **seq_final_state** — when the sequential run delivered nothing beyond the end time (no horizon
    overshoot), its final entity states are the replay of its own per-entity logs; together with the
    state clause of the three theorems above: the final entity states of the two runs are equal. -/
theorem seq_final_state (hE : EHandler τ) (T fuel start : Nat) (st : Nat → τ) (evs : List Ev) (n0 : Nat)
    (hstart : ∀ e ∈ evs, start ≤ e.time)
    (hno : ∀ d ∈ (runSeq (liftP hE) T fuel (Part.initCtr 0 start st evs n0)).log, d.time ≤ T) (x : Nat) :
    (runSeq (liftP hE) T fuel (Part.initCtr 0 start st evs n0)).st x
      = replay hE (st x) ((seqTrace hE T fuel start st evs n0).filter (fun d => d.tgt == x)) := by
  have w0 : WInv seqRoute (fun _ => True) start (Part.initCtr 0 start st evs n0) :=
    ⟨by simpa [Part.initCtr, Part.init] using hstart, by simpa [Part.initCtr, Part.init] using hstart, fun _ _ => trivial,
     rfl, by simp [Part.initCtr, Part.init]⟩
  have sim0 : PSim (fun _ => True) (⟨st, evs.map proj⟩ : AS τ) (Part.initCtr 0 start st evs n0) [] :=
    ⟨fun _ _ => rfl, by simp [Part.initCtr, Part.init]⟩
  have hb : (runSeq (liftP hE) T fuel (Part.initCtr 0 start st evs n0)).bad = false := seq_bad_false fuel rfl
  obtain ⟨seg, _, sim, hlog, _, _⟩ := runWin_sim hE seqRoute (fun _ => True) (fun _ _ => trivial)
    start false T fuel (Part.initCtr 0 start st evs n0) ⟨st, evs.map proj⟩ [] w0 sim0 hb
  have hseg : (runSeq (liftP hE) T fuel (Part.initCtr 0 start st evs n0)).log.reverse.map proj = seg := by
    have : (runSeq (liftP hE) T fuel (Part.initCtr 0 start st evs n0)).log.reverse.map proj
        = (Part.initCtr 0 start st evs n0).log.reverse.map proj ++ seg := hlog
    simpa [Part.initCtr, Part.init] using this
  have htr : seqTrace hE T fuel start st evs n0 = seg := by
    unfold seqTrace
    rw [hseg, List.filter_eq_self]
    intro e he
    rw [← hseg] at he
    simp only [List.mem_map, List.mem_reverse] at he
    obtain ⟨d, hd, rfl⟩ := he
    exact decide_eq_true (hno d hd)
  rw [htr, ← arun_st_replay hE x seg ⟨st, evs.map proj⟩]
  exact (sim.st x trivial).symm

/-! ## non-vacuity -/

/-- a counting handler: scripted emissions per (entity, kind), plus — state-dependent — a kind-7 event
    to itself when its delivery counter reaches 3.  Which delivery is the third depends on the order
    inside a timestamp; the handler nevertheless commutes on ties. -/
def countHandler : EHandler Nat := fun σ d =>
  (σ + 1,
   (if d.tgt = 0 ∧ d.kind = 0 then [⟨100, 1, 2⟩] else if d.tgt = 1 ∧ d.kind = 0 then [⟨50, 1, 1⟩] else [])
     ++ (if σ + 1 = 3 then [⟨10, d.tgt, 7⟩] else []))

theorem countHandler_tieCommutative : TieCommutative countHandler := by
  intro a d htg _ σ0
  refine ⟨rfl, ?_⟩
  simp only [countHandler, htg]
  rw [List.perm_iff_count]
  intro x
  simp only [List.count_append]
  omega

/-- `par_eq_seq_tie_commutative`: every hypothesis holds on the two-partition tie scenario
    (`tieCfg`, window = link latency = 100 ns); entity 1 receives its two 100 ns deliveries in
    different orders in the two runs, the third delivery — a different event in each run — triggers
    the kind-7 event in both. -/
example :
    ParInit tieCfg [0, 1] 0 tieEvs tieParts ∧ (∀ p ∈ tieParts, p.st = tieSt)
    ∧ [0, 1].Nodup ∧ (∀ l ∈ tieCfg.links, l.dst ∈ [0, 1]) ∧ WindowLeLat tieCfg 100 := by
  refine ⟨by constructor <;> simp [tieParts, tieCfg, tieEvs, Part.init, Cfg.part],
    by simp [tieParts, Part.init], by decide, by decide, by simp [WindowLeLat, tieCfg]⟩

example :
    (coordLoop (liftP countHandler) tieCfg true 10 100 1000 20
        { parts := tieParts, cur := 0, windows := 0, injected := 0, outboxed := 0, err := none }).err = none
    ∧ haltedB (liftP countHandler) seqRoute false 1000
        (runSeq (liftP countHandler) 1000 10 (Part.initCtr 0 0 tieSt tieEvs 0)) = true
    ∧ (runSeq (liftP countHandler) 1000 10 (Part.initCtr 0 0 tieSt tieEvs 0)).obsLog 1
        = [(50, 0), (100, 2), (100, 1), (110, 7)]
    ∧ parObs (coordLoop (liftP countHandler) tieCfg true 10 100 1000 20
        { parts := tieParts, cur := 0, windows := 0, injected := 0, outboxed := 0, err := none }).parts 1
        = [(50, 0), (100, 1), (100, 2), (110, 7)] := by
  decide

/-- the order-sensitive witness handler of `par_eq_seq_full_false_for_order_sensitive_handlers`, on
    events without index, with the delay `dl` of entity 1's local kind-1 event as a parameter
    (`dl = 50`: tie at 100 ns; `dl = 49`: no tie) -/
def tieHandlerP (dl : Nat) : EHandler Nat := fun s e =>
  if e.tgt = 0 then (s, if e.kind = 0 then [⟨100, 1, 2⟩] else [])
  else if e.kind = 0 then (s, [⟨dl, 1, 1⟩])
  else if e.kind = 1 then (1, [])
  else if e.kind = 2 then (s, if s = 0 then [⟨10, 1, 7⟩] else [])
  else (s, [])

/-- `par_eq_seq_no_ties` / `par_eq_seq_no_ties_observed`: with `dl = 49` the sequential run has no
    ties, the runs return without error, and the logs are equal (local 99 ns, cross 100 ns);
    with `dl = 50` the hypothesis fails in both runs — and so does the conclusion. -/
example :
    (coordLoop (liftP (tieHandlerP 49)) tieCfg true 10 100 1000 20
        { parts := tieParts, cur := 0, windows := 0, injected := 0, outboxed := 0, err := none }).err = none
    ∧ haltedB (liftP (tieHandlerP 49)) seqRoute false 1000
        (runSeq (liftP (tieHandlerP 49)) 1000 10 (Part.initCtr 0 0 tieSt tieEvs 0)) = true
    ∧ (∀ x ∈ [0, 1], NoTies (upTo 1000 ((runSeq (liftP (tieHandlerP 49)) 1000 10 (Part.initCtr 0 0 tieSt tieEvs 0)).obsLog x)))
    ∧ (∀ x ∈ [0, 1], NoTies (parObs (coordLoop (liftP (tieHandlerP 49)) tieCfg true 10 100 1000 20
        { parts := tieParts, cur := 0, windows := 0, injected := 0, outboxed := 0, err := none }).parts x))
    ∧ parObs (coordLoop (liftP (tieHandlerP 49)) tieCfg true 10 100 1000 20
        { parts := tieParts, cur := 0, windows := 0, injected := 0, outboxed := 0, err := none }).parts 1
        = [(50, 0), (99, 1), (100, 2)] := by
  decide

example :
    ¬ NoTies (upTo 1000 ((runSeq (liftP (tieHandlerP 50)) 1000 10 (Part.initCtr 0 0 tieSt tieEvs 0)).obsLog 1))
    ∧ ¬ NoTies (parObs (coordLoop (liftP (tieHandlerP 50)) tieCfg true 10 100 1000 20
        { parts := tieParts, cur := 0, windows := 0, injected := 0, outboxed := 0, err := none }).parts 1)
    ∧ upTo 1000 ((runSeq (liftP (tieHandlerP 50)) 1000 10 (Part.initCtr 0 0 tieSt tieEvs 0)).obsLog 1)
      ≠ upTo 1000 (parObs (coordLoop (liftP (tieHandlerP 50)) tieCfg true 10 100 1000 20
        { parts := tieParts, cur := 0, windows := 0, injected := 0, outboxed := 0, err := none }).parts 1) := by
  decide

end HappyModel.C05
