import HappyProofs.C05.SeqExec
import HappyProofs.C05.Instant
/-!
The main clause for entity-local *stateful* handlers (emissions may depend on the entity's own
state, i.e. on its whole delivery history), on the executable coordinator loop:

* `par_eq_seq_tie_commutative` — handlers that commute on two deliveries to one entity at one
  timestamp: logs equal up to the order inside a timestamp, final entity states determined;
* `par_eq_seq_no_ties` — arbitrary handlers, when no entity receives two deliveries with the same
  timestamp: per-entity logs are *equal*.

Both from `stateful_core`: the sequential run is a min-first execution of the abstract system, the
coordinated run is an execution in per-entity time order, and `confluence` applies.
-/
namespace HappyModel.C05

variable {τ : Type}

/-- the state an entity reaches from `σ0` on a list of deliveries -/
def replay (hE : EHandler τ) (σ0 : τ) (ds : List PEv) : τ := ds.foldl (fun σ d => (hE σ d).1) σ0

theorem arun_st_replay (hE : EHandler τ) (x : Nat) (E : List PEv) : ∀ s : AS τ,
    (arun hE s E).st x = replay hE (s.st x) (E.filter (fun d => d.tgt == x)) := by
  induction E with
  | nil => intro s; rfl
  | cons d ds ih =>
    intro s
    simp only [arun]
    rw [ih]
    by_cases h : d.tgt = x
    · subst h
      simp [astep, replay]
    · have h' : ¬ x = d.tgt := fun e => h e.symm
      simp [astep, h, h']

theorem TInv.init {hE : EHandler τ} {c : Cfg} {ids : List Nat} {start T : Nat} {evs : List Ev}
    {ps : List (Part (Nat → τ))} {st : Nat → τ} (hi : ParInit c ids start evs ps)
    (hstart : ∀ e ∈ evs, start ≤ e.time) (hT : start ≤ T) (hst : ∀ p ∈ ps, p.st = st) :
    TInv hE c ids ⟨st, evs.map proj⟩ T start ps := by
  have hmem : ∀ p ∈ ps, ∀ e ∈ p.heap, e ∈ evs := fun p hp e he =>
    hi.split.mem_iff.mp (List.mem_flatMap.mpr ⟨p, hp, he⟩)
  refine ⟨Safe.init c start ps hi.clock (fun p hp e he => hstart e (hmem p hp e he)) hi.owned
      (fun p hp => ⟨(hi.fresh p hp).2.1, (hi.fresh p hp).2.2.1, (hi.fresh p hp).2.2.2⟩), hT, hi.pids, ?_,
      [], trivial, ⟨?_, ?_⟩, ?_, by simp⟩
  · intro p hp
    refine ⟨by simp [(hi.fresh p hp).1], by simp [(hi.fresh p hp).1]⟩
  · intro p hp x _
    rw [hst p hp]; rfl
  · have h2 : sysPend ps = ps.flatMap (·.heap) := by
      unfold sysPend
      apply flatMap_congr_mem
      intro p hp
      simp [(hi.fresh p hp).2.2.1]
    simp only [arun, List.append_nil, h2]
    exact (hi.split.map proj).symm
  · intro p hp
    simp [(hi.fresh p hp).1]

/-- both runs as executions of the abstract system, `confluence` applied -/
theorem stateful_core (hE : EHandler τ) (c : Cfg) (ids : List Nat) (fuel wEff endT n start : Nat)
    (st : Nat → τ) (evs : List Ev) (ps : List (Part (Nat → τ)))
    (hids : ids.Nodup) (hlinks : ∀ l ∈ c.links, l.dst ∈ ids)
    (hw : WindowLeLat c wEff) (hpos : 0 < wEff) (hse : start ≤ endT)
    (hstart : ∀ e ∈ evs, start ≤ e.time) (hi : ParInit c ids start evs ps) (hst : ∀ p ∈ ps, p.st = st)
    (hpar : (coordLoop (liftP hE) c true fuel wEff endT n
        { parts := ps, cur := start, windows := 0, injected := 0, outboxed := 0, err := none }).err = none)
    (hseq : Halted (liftP hE) seqRoute false endT (runSeq (liftP hE) endT fuel (Part.init 0 start st evs)))
    (hcomm : NoTieL (seqTrace hE endT fuel start st evs) ∨ ∀ E2 : List PEv,
      (∀ p ∈ (coordLoop (liftP hE) c true fuel wEff endT n
          { parts := ps, cur := start, windows := 0, injected := 0, outboxed := 0, err := none }).parts,
        E2.filter (ownB c p.pid) = p.log.reverse.map proj) →
      (∀ d ∈ E2, ∃ p ∈ (coordLoop (liftP hE) c true fuel wEff endT n
          { parts := ps, cur := start, windows := 0, injected := 0, outboxed := 0, err := none }).parts,
        c.part d.tgt = p.pid) →
      TieComm hE E2) :
    (∀ x, TieEquiv (upTo endT ((runSeq (liftP hE) endT fuel (Part.init 0 start st evs)).obsLog x))
      (upTo endT (parObs (coordLoop (liftP hE) c true fuel wEff endT n
        { parts := ps, cur := start, windows := 0, injected := 0, outboxed := 0, err := none }).parts x)))
    ∧ (∀ p ∈ (coordLoop (liftP hE) c true fuel wEff endT n
        { parts := ps, cur := start, windows := 0, injected := 0, outboxed := 0, err := none }).parts,
        ∀ x, c.part x = p.pid →
          p.st x = replay hE (st x) ((seqTrace hE endT fuel start st evs).filter (fun d => d.tgt == x))) := by
  obtain ⟨hv1, hm1, hle1, hfin1⟩ := seq_exec hE endT fuel start st evs hstart hseq
  obtain ⟨E2, hv2, hs2, hle2, hfin2, hst2, hlogs, htg, hpids, hlinv⟩ :=
    par_exec hE c ids fuel wEff endT n
      { parts := ps, cur := start, windows := 0, injected := 0, outboxed := 0, err := none }
      ⟨st, evs.map proj⟩ hids hlinks hw hpos rfl hse (TInv.init hi hstart hse hst) hpar
  have hown' : ∀ d ∈ E2, ∃ p ∈ (coordLoop (liftP hE) c true fuel wEff endT n
      { parts := ps, cur := start, windows := 0, injected := 0, outboxed := 0, err := none }).parts,
      c.part d.tgt = p.pid := by
    intro d hd
    have := htg d hd
    rw [← hpids, List.mem_map] at this
    obtain ⟨p, hp, he⟩ := this
    exact ⟨p, hp, he.symm⟩
  obtain ⟨hperm, hsteq⟩ : (seqTrace hE endT fuel start st evs).Perm E2
      ∧ (arun hE ⟨st, evs.map proj⟩ (seqTrace hE endT fuel start st evs)).st
        = (arun hE ⟨st, evs.map proj⟩ E2).st := by
    rcases hcomm with hnt | hcomm
    · exact confluence_noties hE endT _ E2 _ _ (AEq.refl _) hv1 hm1 hle1 hfin1 hnt hv2 hs2 hle2 hfin2
    · exact confluence hE endT _ E2 _ _ (AEq.refl _) hv1 hm1 hle1 hfin1 hv2 hs2 hle2 hfin2
        (hcomm E2 hlogs hown')
  refine ⟨?_, ?_⟩
  · intro x
    have hown : ∀ p ∈ (coordLoop (liftP hE) c true fuel wEff endT n
        { parts := ps, cur := start, windows := 0, injected := 0, outboxed := 0, err := none }).parts,
        ∀ d ∈ p.log, Owns c p.pid d := by
      intro p hp d hd
      have h1 : proj d ∈ p.log.reverse.map proj := List.mem_map.mpr ⟨d, by simpa using hd, rfl⟩
      rw [← hlogs p hp] at h1
      have := (List.mem_filter.mp h1).2
      simpa [ownB, Owns, proj] using this
    refine ⟨?_, ?_, ?_⟩
    · exact List.Pairwise.filter _ (obsLog_sorted ((LogInv.init 0 start st evs).run fuel) x)
    · exact List.Pairwise.filter _ (parObs_sorted c _ x (hpids ▸ hids) hown hlinv)
    · unfold Part.obsLog parObs
      rw [upTo_obs, upTo_obs]
      show (entProj x (seqTrace hE endT fuel start st evs)).Perm _
      have h1 : ((coordLoop (liftP hE) c true fuel wEff endT n
          { parts := ps, cur := start, windows := 0, injected := 0, outboxed := 0, err := none }).parts.flatMap
            (fun p => p.log.reverse)).map proj = ((coordLoop (liftP hE) c true fuel wEff endT n
          { parts := ps, cur := start, windows := 0, injected := 0, outboxed := 0, err := none }).parts.map
            (·.pid)).flatMap (fun i => E2.filter (fun a => c.part a.tgt == i)) := by
        rw [List.map_flatMap, List.flatMap_map]
        apply flatMap_congr_mem
        intro p hp
        exact (hlogs p hp).symm
      rw [h1, hpids]
      have h2 := partition_perm ids hids (fun d : PEv => c.part d.tgt) E2 htg
      have h3 : E2.filter (fun e => e.time ≤ endT) = E2 := by
        rw [List.filter_eq_self]
        intro e he
        simpa using hle2 e he
      have h4 := h2.filter (fun e => decide (e.time ≤ endT))
      rw [h3] at h4
      exact entProj_perm (hperm.trans h4.symm)
  · intro p hp x hx
    rw [← hst2 p hp x hx, ← hsteq, arun_st_replay]

/-- the handler commutes on any two deliveries to one entity at one timestamp -/
def TieCommutative (hE : EHandler τ) : Prop :=
  ∀ a d : PEv, a.tgt = d.tgt → a.time = d.time → CommAt hE a d

/-- no two deliveries of the log carry the same timestamp -/
def NoTies (l : List Obs) : Prop := l.Pairwise (fun a b => a.1 < b.1)

instance (l : List Obs) : Decidable (NoTies l) := by unfold NoTies; infer_instance

theorem pairwise_mem_sym {α} {R : α → α → Prop} (hsym : ∀ a b, R a b → R b a) (hrefl : ∀ a, R a a) :
    ∀ l : List α, l.Pairwise R → ∀ a ∈ l, ∀ b ∈ l, R a b := by
  intro l
  induction l with
  | nil => intro _ a ha; simp at ha
  | cons x xs ih =>
    intro hp a ha b hb
    rw [List.pairwise_cons] at hp
    simp only [List.mem_cons] at ha hb
    rcases ha with rfl | ha <;> rcases hb with rfl | hb
    · exact hrefl _
    · exact hp.1 b hb
    · exact hsym _ _ (hp.1 a ha)
    · exact ih hp.2 a ha b hb

theorem NoTies.inj {l : List Obs} (h : NoTies l) : ∀ u ∈ l, ∀ v ∈ l, u.1 = v.1 → u = v := by
  have h' : l.Pairwise (fun u v => u.1 = v.1 → u = v) := h.imp (fun hlt he => by omega)
  exact pairwise_mem_sym (fun a b hab he => (hab he.symm).symm) (fun _ _ => rfl) l h'

/-- a time-sorted permutation of a log without ties is that log -/
theorem TieEquiv.eq_of_noTies {a b : List Obs} (h : TieEquiv a b) (hn : NoTies b) : a = b := by
  obtain ⟨ha, hb, hp⟩ := h
  unfold TimeSorted at ha hb
  refine List.Perm.eq_of_pairwise (le := fun (u v : Obs) => u.1 ≤ v.1) ?_ ha hb hp
  intro u v hu hv h1 h2
  exact hn.inj u (hp.mem_iff.mp hu) v hv (by omega)

/-- **par_eq_seq_tie_commutative** — the main clause for entity-local *stateful* handlers (emissions
    may depend on the entity's state, hence on its whole delivery history) that commute on two
    deliveries to one entity at one timestamp (same state afterwards, same emissions as a multiset;
    no condition on deliveries at different times): for every valid configuration, window
    `0 < wEff ≤` every link latency, start/end time, fuel and partitioning of the initial events, if
    the coordinated run (executable `coordLoop`, repaired window rule) returns without error and the
    sequential run halts, then every entity's deliveries up to the end time in the two runs are both
    sorted by time and permutations of each other, and every entity ends the partitioned run in the
    state the handler reaches on the sequential run's deliveries to it up to the end time. -/
theorem par_eq_seq_tie_commutative (hE : EHandler τ) (c : Cfg) (ids : List Nat)
    (fuel wEff endT n start : Nat) (st : Nat → τ) (evs : List Ev) (ps : List (Part (Nat → τ)))
    (htc : TieCommutative hE)
    (hids : ids.Nodup) (hlinks : ∀ l ∈ c.links, l.dst ∈ ids)
    (hw : WindowLeLat c wEff) (hpos : 0 < wEff) (hse : start ≤ endT)
    (hstart : ∀ e ∈ evs, start ≤ e.time) (hi : ParInit c ids start evs ps) (hst : ∀ p ∈ ps, p.st = st)
    (hpar : (coordLoop (liftP hE) c true fuel wEff endT n
        { parts := ps, cur := start, windows := 0, injected := 0, outboxed := 0, err := none }).err = none)
    (hseq : Halted (liftP hE) seqRoute false endT (runSeq (liftP hE) endT fuel (Part.init 0 start st evs))) :
    (∀ x, TieEquiv (upTo endT ((runSeq (liftP hE) endT fuel (Part.init 0 start st evs)).obsLog x))
      (upTo endT (parObs (coordLoop (liftP hE) c true fuel wEff endT n
        { parts := ps, cur := start, windows := 0, injected := 0, outboxed := 0, err := none }).parts x)))
    ∧ (∀ p ∈ (coordLoop (liftP hE) c true fuel wEff endT n
        { parts := ps, cur := start, windows := 0, injected := 0, outboxed := 0, err := none }).parts,
        ∀ x, c.part x = p.pid →
          p.st x = replay hE (st x) ((seqTrace hE endT fuel start st evs).filter (fun d => d.tgt == x))) :=
  stateful_core hE c ids fuel wEff endT n start st evs ps hids hlinks hw hpos hse hstart hi hst hpar hseq
    (Or.inr (fun _ _ _ a _ d _ _ ht htm => htc a d ht htm))

/-- **par_eq_seq_no_ties_observed** — arbitrary entity-local stateful handlers (no commutation
    assumed): if in the partitioned run no entity received two deliveries with the same timestamp,
    the per-entity logs of the two runs up to the end time are *equal*, and the final entity states
    are the ones the sequential deliveries produce. -/
theorem par_eq_seq_no_ties_observed (hE : EHandler τ) (c : Cfg) (ids : List Nat)
    (fuel wEff endT n start : Nat) (st : Nat → τ) (evs : List Ev) (ps : List (Part (Nat → τ)))
    (hids : ids.Nodup) (hlinks : ∀ l ∈ c.links, l.dst ∈ ids)
    (hw : WindowLeLat c wEff) (hpos : 0 < wEff) (hse : start ≤ endT)
    (hstart : ∀ e ∈ evs, start ≤ e.time) (hi : ParInit c ids start evs ps) (hst : ∀ p ∈ ps, p.st = st)
    (hpar : (coordLoop (liftP hE) c true fuel wEff endT n
        { parts := ps, cur := start, windows := 0, injected := 0, outboxed := 0, err := none }).err = none)
    (hseq : Halted (liftP hE) seqRoute false endT (runSeq (liftP hE) endT fuel (Part.init 0 start st evs)))
    (hnt : ∀ x, NoTies (parObs (coordLoop (liftP hE) c true fuel wEff endT n
        { parts := ps, cur := start, windows := 0, injected := 0, outboxed := 0, err := none }).parts x)) :
    (∀ x, upTo endT ((runSeq (liftP hE) endT fuel (Part.init 0 start st evs)).obsLog x)
      = upTo endT (parObs (coordLoop (liftP hE) c true fuel wEff endT n
        { parts := ps, cur := start, windows := 0, injected := 0, outboxed := 0, err := none }).parts x))
    ∧ (∀ p ∈ (coordLoop (liftP hE) c true fuel wEff endT n
        { parts := ps, cur := start, windows := 0, injected := 0, outboxed := 0, err := none }).parts,
        ∀ x, c.part x = p.pid →
          p.st x = replay hE (st x) ((seqTrace hE endT fuel start st evs).filter (fun d => d.tgt == x))) := by
  have core := stateful_core hE c ids fuel wEff endT n start st evs ps hids hlinks hw hpos hse hstart hi hst
    hpar hseq (Or.inr ?_)
  · refine ⟨fun x => (core.1 x).eq_of_noTies ?_, core.2⟩
    exact List.Pairwise.filter _ (hnt x)
  · intro E2 hlogs hown a ha d hd hne ht htm
    exfalso
    obtain ⟨p, hp, hpa⟩ := hown a ha
    have mk : ∀ e ∈ E2, e.tgt = a.tgt → (e.time, e.kind) ∈ parObs (coordLoop (liftP hE) c true fuel wEff endT n
        { parts := ps, cur := start, windows := 0, injected := 0, outboxed := 0, err := none }).parts a.tgt := by
      intro e he hte
      have h1 : e ∈ E2.filter (ownB c p.pid) := by
        simp [List.mem_filter, he, ownB, hte, hpa]
      rw [hlogs p hp, List.mem_map] at h1
      obtain ⟨ev, hev, rfl⟩ := h1
      simp only [parObs, List.mem_map, List.mem_filter, List.mem_flatMap]
      exact ⟨ev, ⟨⟨p, hp, hev⟩, by simpa [proj] using hte⟩, rfl⟩
    have := (hnt a.tgt).inj _ (mk a ha rfl) _ (mk d hd ht.symm) htm
    simp only [Prod.mk.injEq] at this
    apply hne
    cases a; cases d
    simp_all

theorem TieEquiv.symm {a b : List Obs} (h : TieEquiv a b) : TieEquiv b a := ⟨h.2.1, h.1, h.2.2.symm⟩

theorem seqTrace_entProj (hE : EHandler τ) (T fuel start : Nat) (st : Nat → τ) (evs : List Ev) (x : Nat) :
    upTo T ((runSeq (liftP hE) T fuel (Part.init 0 start st evs)).obsLog x)
      = entProj x (seqTrace hE T fuel start st evs) := by
  unfold Part.obsLog seqTrace
  rw [upTo_obs]

/-- **par_eq_seq_no_ties** — arbitrary entity-local stateful handlers (order-sensitive ones included):
    if in the *sequential* run no entity receives two deliveries with the same timestamp up to the
    end time, then the partitioned run has no such pair either, the per-entity logs of the two runs
    up to the end time are *equal*, and every entity ends the partitioned run in the state the
    handler reaches on the sequential deliveries to it. -/
theorem par_eq_seq_no_ties (hE : EHandler τ) (c : Cfg) (ids : List Nat)
    (fuel wEff endT n start : Nat) (st : Nat → τ) (evs : List Ev) (ps : List (Part (Nat → τ)))
    (hids : ids.Nodup) (hlinks : ∀ l ∈ c.links, l.dst ∈ ids)
    (hw : WindowLeLat c wEff) (hpos : 0 < wEff) (hse : start ≤ endT)
    (hstart : ∀ e ∈ evs, start ≤ e.time) (hi : ParInit c ids start evs ps) (hst : ∀ p ∈ ps, p.st = st)
    (hpar : (coordLoop (liftP hE) c true fuel wEff endT n
        { parts := ps, cur := start, windows := 0, injected := 0, outboxed := 0, err := none }).err = none)
    (hseq : Halted (liftP hE) seqRoute false endT (runSeq (liftP hE) endT fuel (Part.init 0 start st evs)))
    (hnt : ∀ x, NoTies (upTo endT ((runSeq (liftP hE) endT fuel (Part.init 0 start st evs)).obsLog x))) :
    (∀ x, upTo endT ((runSeq (liftP hE) endT fuel (Part.init 0 start st evs)).obsLog x)
      = upTo endT (parObs (coordLoop (liftP hE) c true fuel wEff endT n
        { parts := ps, cur := start, windows := 0, injected := 0, outboxed := 0, err := none }).parts x))
    ∧ (∀ p ∈ (coordLoop (liftP hE) c true fuel wEff endT n
        { parts := ps, cur := start, windows := 0, injected := 0, outboxed := 0, err := none }).parts,
        ∀ x, c.part x = p.pid →
          p.st x = replay hE (st x) ((seqTrace hE endT fuel start st evs).filter (fun d => d.tgt == x))) := by
  have core := stateful_core hE c ids fuel wEff endT n start st evs ps hids hlinks hw hpos hse hstart hi hst
    hpar hseq (Or.inl ?_)
  · refine ⟨fun x => ((core.1 x).symm.eq_of_noTies (hnt x)).symm, core.2⟩
  · intro a ha b hb hne htg htm
    have mk : ∀ e ∈ seqTrace hE endT fuel start st evs, e.tgt = a.tgt →
        (e.time, e.kind) ∈ upTo endT ((runSeq (liftP hE) endT fuel (Part.init 0 start st evs)).obsLog a.tgt) := by
      intro e he hte
      rw [seqTrace_entProj]
      simp only [entProj, List.mem_map, List.mem_filter, beq_iff_eq]
      exact ⟨e, ⟨he, hte⟩, rfl⟩
    have := (hnt a.tgt).inj _ (mk a ha rfl) _ (mk b hb htg.symm) htm
    simp only [Prod.mk.injEq] at this
    apply hne
    cases a; cases b
    simp_all

/-- **seq_final_state** — when the sequential run delivered nothing beyond the end time (no horizon
    overshoot), its final entity states are the replay of its own per-entity logs; together with the
    state clause of the three theorems above: the final entity states of the two runs are equal. -/
theorem seq_final_state (hE : EHandler τ) (T fuel start : Nat) (st : Nat → τ) (evs : List Ev)
    (hstart : ∀ e ∈ evs, start ≤ e.time)
    (hno : ∀ d ∈ (runSeq (liftP hE) T fuel (Part.init 0 start st evs)).log, d.time ≤ T) (x : Nat) :
    (runSeq (liftP hE) T fuel (Part.init 0 start st evs)).st x
      = replay hE (st x) ((seqTrace hE T fuel start st evs).filter (fun d => d.tgt == x)) := by
  have w0 : WInv seqRoute (fun _ => True) start (Part.init 0 start st evs) :=
    ⟨by simpa [Part.init] using hstart, by simpa [Part.init] using hstart, fun _ _ => trivial,
     rfl, by simp [Part.init]⟩
  have sim0 : PSim (fun _ => True) (⟨st, evs.map proj⟩ : AS τ) (Part.init 0 start st evs) [] :=
    ⟨fun _ _ => rfl, by simp [Part.init]⟩
  have hb : (runSeq (liftP hE) T fuel (Part.init 0 start st evs)).bad = false := seq_bad_false fuel rfl
  obtain ⟨seg, _, sim, hlog, _, _⟩ := runWin_sim hE seqRoute (fun _ => True) (fun _ _ => trivial)
    start false T fuel (Part.init 0 start st evs) ⟨st, evs.map proj⟩ [] w0 sim0 hb
  have hseg : (runSeq (liftP hE) T fuel (Part.init 0 start st evs)).log.reverse.map proj = seg := by
    have : (runSeq (liftP hE) T fuel (Part.init 0 start st evs)).log.reverse.map proj
        = (Part.init 0 start st evs).log.reverse.map proj ++ seg := hlog
    simpa [Part.init] using this
  have htr : seqTrace hE T fuel start st evs = seg := by
    unfold seqTrace
    rw [hseg, List.filter_eq_self]
    intro e he
    rw [← hseg] at he
    simp only [List.mem_map, List.mem_reverse] at he
    obtain ⟨d, hd, rfl⟩ := he
    exact decide_eq_true (hno d hd)
  rw [htr, ← arun_st_replay hE x seg ⟨st, evs.map proj⟩]
  exact (sim.st x trivial).symm

/-! ## non-vacuity -/

/-- a counting handler: scripted emissions per (entity, kind), plus — state-dependent — a kind-7 event
    to itself when its delivery counter reaches 3.  Which delivery is the third depends on the order
    inside a timestamp; the handler nevertheless commutes on ties. -/
def countHandler : EHandler Nat := fun σ d =>
  (σ + 1,
   (if d.tgt = 0 ∧ d.kind = 0 then [⟨100, 1, 2⟩] else if d.tgt = 1 ∧ d.kind = 0 then [⟨50, 1, 1⟩] else [])
     ++ (if σ + 1 = 3 then [⟨10, d.tgt, 7⟩] else []))

theorem countHandler_tieCommutative : TieCommutative countHandler := by
  intro a d htg _ σ0
  refine ⟨rfl, ?_⟩
  simp only [countHandler, htg]
  rw [List.perm_iff_count]
  intro x
  simp only [List.count_append]
  omega

/-- `par_eq_seq_tie_commutative`: every hypothesis holds on the two-partition tie scenario
    (`tieCfg`, window = link latency = 100 ns); entity 1 receives its two 100 ns deliveries in
    different orders in the two runs, the third delivery — a different event in each run — triggers
    the kind-7 event in both. -/
example :
    ParInit tieCfg [0, 1] 0 tieEvs tieParts ∧ (∀ p ∈ tieParts, p.st = tieSt)
    ∧ [0, 1].Nodup ∧ (∀ l ∈ tieCfg.links, l.dst ∈ [0, 1]) ∧ WindowLeLat tieCfg 100 := by
  refine ⟨by constructor <;> simp [tieParts, tieCfg, tieEvs, Part.init, Cfg.part],
    by simp [tieParts, Part.init], by decide, by decide, by simp [WindowLeLat, tieCfg]⟩

example :
    (coordLoop (liftP countHandler) tieCfg true 10 100 1000 20
        { parts := tieParts, cur := 0, windows := 0, injected := 0, outboxed := 0, err := none }).err = none
    ∧ haltedB (liftP countHandler) seqRoute false 1000
        (runSeq (liftP countHandler) 1000 10 (Part.init 0 0 tieSt tieEvs)) = true
    ∧ (runSeq (liftP countHandler) 1000 10 (Part.init 0 0 tieSt tieEvs)).obsLog 1
        = [(50, 0), (100, 2), (100, 1), (110, 7)]
    ∧ parObs (coordLoop (liftP countHandler) tieCfg true 10 100 1000 20
        { parts := tieParts, cur := 0, windows := 0, injected := 0, outboxed := 0, err := none }).parts 1
        = [(50, 0), (100, 1), (100, 2), (110, 7)] := by
  decide

/-- the order-sensitive witness handler of `par_eq_seq_full_false_for_order_sensitive_handlers`, on
    events without index, with the delay `dl` of entity 1's local kind-1 event as a parameter
    (`dl = 50`: tie at 100 ns; `dl = 49`: no tie) -/
def tieHandlerP (dl : Nat) : EHandler Nat := fun s e =>
  if e.tgt = 0 then (s, if e.kind = 0 then [⟨100, 1, 2⟩] else [])
  else if e.kind = 0 then (s, [⟨dl, 1, 1⟩])
  else if e.kind = 1 then (1, [])
  else if e.kind = 2 then (s, if s = 0 then [⟨10, 1, 7⟩] else [])
  else (s, [])

/-- `par_eq_seq_no_ties` / `par_eq_seq_no_ties_observed`: with `dl = 49` the sequential run has no
    ties, the runs return without error, and the logs are equal (local 99 ns, cross 100 ns);
    with `dl = 50` the hypothesis fails in both runs — and so does the conclusion. -/
example :
    (coordLoop (liftP (tieHandlerP 49)) tieCfg true 10 100 1000 20
        { parts := tieParts, cur := 0, windows := 0, injected := 0, outboxed := 0, err := none }).err = none
    ∧ haltedB (liftP (tieHandlerP 49)) seqRoute false 1000
        (runSeq (liftP (tieHandlerP 49)) 1000 10 (Part.init 0 0 tieSt tieEvs)) = true
    ∧ (∀ x ∈ [0, 1], NoTies (upTo 1000 ((runSeq (liftP (tieHandlerP 49)) 1000 10 (Part.init 0 0 tieSt tieEvs)).obsLog x)))
    ∧ (∀ x ∈ [0, 1], NoTies (parObs (coordLoop (liftP (tieHandlerP 49)) tieCfg true 10 100 1000 20
        { parts := tieParts, cur := 0, windows := 0, injected := 0, outboxed := 0, err := none }).parts x))
    ∧ parObs (coordLoop (liftP (tieHandlerP 49)) tieCfg true 10 100 1000 20
        { parts := tieParts, cur := 0, windows := 0, injected := 0, outboxed := 0, err := none }).parts 1
        = [(50, 0), (99, 1), (100, 2)] := by
  decide

example :
    ¬ NoTies (upTo 1000 ((runSeq (liftP (tieHandlerP 50)) 1000 10 (Part.init 0 0 tieSt tieEvs)).obsLog 1))
    ∧ ¬ NoTies (parObs (coordLoop (liftP (tieHandlerP 50)) tieCfg true 10 100 1000 20
        { parts := tieParts, cur := 0, windows := 0, injected := 0, outboxed := 0, err := none }).parts 1)
    ∧ upTo 1000 ((runSeq (liftP (tieHandlerP 50)) 1000 10 (Part.init 0 0 tieSt tieEvs)).obsLog 1)
      ≠ upTo 1000 (parObs (coordLoop (liftP (tieHandlerP 50)) tieCfg true 10 100 1000 20
        { parts := tieParts, cur := 0, windows := 0, injected := 0, outboxed := 0, err := none }).parts 1) := by
  decide

end HappyModel.C05
