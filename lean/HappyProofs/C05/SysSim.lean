import HappyProofs.C05.Sim
/-!
The EXECUTE phase of all partitions, and the barrier exchange, as executions of the abstract system:
the windows of the partitions, one after the other, extend an abstract execution `E`; restricted to
the entities of one partition, `E` is exactly that partition's delivery log.
-/
namespace HappyModel.C05

variable {τ : Type}

def ownB (c : Cfg) (pid : Nat) (d : PEv) : Bool := c.part d.tgt == pid

structure SSim (c : Cfg) (s : AS τ) (ps : List (Part (Nat → τ))) (R : List PEv) : Prop where
  st : ∀ p ∈ ps, ∀ x, c.part x = p.pid → s.st x = p.st x
  pend : s.pend.Perm ((sysPend ps).map proj ++ R)

theorem sysPend_cons {σ} (q : Part σ) (qs : List (Part σ)) :
    sysPend (q :: qs) = (q.heap ++ q.outbox.map (·.1)) ++ sysPend qs := by
  simp [sysPend]

theorem execAll_cons {σ} (h : Handler σ) (c : Cfg) (strict : Bool) (fuel we : Nat) (q : Part σ)
    (qs : List (Part σ)) :
    execAll h c strict fuel we (q :: qs)
      = runWin h (c.route q.pid) strict we fuel q :: execAll h c strict fuel we qs := by
  simp [execAll]

theorem execAll_sim (hE : EHandler τ) (c : Cfg) (b fuel we : Nat) (strict : Bool) :
    ∀ (ps : List (Part (Nat → τ))) (s : AS τ) (R : List PEv), (ps.map (·.pid)).Nodup →
      (∀ p ∈ ps, WInv (c.route p.pid) (Owns c p.pid) b p) → SSim c s ps R →
      (∀ p ∈ execAll (liftP hE) c strict fuel we ps, p.bad = false) →
      ∃ seg, Valid hE s seg
        ∧ SSim c (arun hE s seg) (execAll (liftP hE) c strict fuel we ps) R
        ∧ (∀ p ∈ ps, (runWin (liftP hE) (c.route p.pid) strict we fuel p).log.reverse.map proj
              = p.log.reverse.map proj ++ seg.filter (ownB c p.pid))
        ∧ (∀ d ∈ seg, c.part d.tgt ∈ ps.map (·.pid)) := by
  intro ps
  induction ps with
  | nil =>
    intro s R _ _ sim _
    exact ⟨[], trivial, sim, by simp, by simp⟩
  | cons q qs ih =>
    intro s R hn hw sim hgood
    rw [execAll_cons] at hgood ⊢
    simp only [List.map_cons, List.nodup_cons] at hn
    have simQ : PSim (fun x => c.part x = q.pid) s q ((sysPend qs).map proj ++ R) := by
      refine ⟨sim.st q (by simp), ?_⟩
      have := sim.pend
      rw [sysPend_cons, List.map_append, List.append_assoc] at this
      exact this
    obtain ⟨seg1, hv1, sim1, hlog1, hown1, _⟩ :=
      runWin_sim hE (c.route q.pid) (fun x => c.part x = q.pid) (route_loc_owns c q.pid) b strict we
        fuel q s _ (hw q (by simp)) simQ (hgood _ (by simp))
    have hne : ∀ p ∈ qs, p.pid ≠ q.pid := by
      intro p hp he
      exact hn.1 (List.mem_map.mpr ⟨p, hp, he⟩)
    have simQs : SSim c (arun hE s seg1) qs
        ((((runWin (liftP hE) (c.route q.pid) strict we fuel q).heap
          ++ (runWin (liftP hE) (c.route q.pid) strict we fuel q).outbox.map (·.1)).map proj) ++ R) := by
      refine ⟨?_, ?_⟩
      · intro p hp x hx
        rw [arun_st_other hE x seg1 s ?_]
        · exact sim.st p (by simp [hp]) x hx
        · intro d hd hdx
          have := hown1 d hd
          rw [hdx, hx] at this
          exact hne p hp this
      · refine sim1.pend.trans ?_
        rw [List.perm_iff_count]
        intro a
        simp only [List.map_append, List.count_append]
        omega
    obtain ⟨seg2, hv2, sim2, hlog2, hown2⟩ := ih (arun hE s seg1) _ hn.2
      (fun p hp => hw p (by simp [hp])) simQs (fun p hp => hgood p (by simp [hp]))
    refine ⟨seg1 ++ seg2, ?_, ?_, ?_, ?_⟩
    · exact (Valid_append hE seg1 seg2 s).mpr ⟨hv1, hv2⟩
    · rw [arun_append]
      refine ⟨?_, ?_⟩
      · intro p hp x hx
        simp only [List.mem_cons] at hp
        rcases hp with rfl | hp
        · rw [runWin_pid] at hx
          rw [arun_st_other hE x seg2 _ ?_]
          · exact sim1.st x hx
          · intro d hd hdx
            have := hown2 d hd
            rw [hdx, hx] at this
            exact hn.1 this
        · exact sim2.st p hp x hx
      · refine sim2.pend.trans ?_
        rw [sysPend_cons]
        rw [List.perm_iff_count]
        intro a
        simp only [List.map_append, List.count_append]
        omega
    · intro p hp
      simp only [List.mem_cons] at hp
      rw [List.filter_append]
      rcases hp with rfl | hp
      · have h1 : seg1.filter (ownB c p.pid) = seg1 := by
          rw [List.filter_eq_self]
          intro d hd
          simpa [ownB] using hown1 d hd
        have h2 : seg2.filter (ownB c p.pid) = [] := by
          rw [List.filter_eq_nil_iff]
          intro d hd hb
          have h3 : c.part d.tgt = p.pid := by simpa [ownB] using hb
          have := hown2 d hd
          rw [h3] at this
          exact hn.1 this
        rw [h1, h2, List.append_nil]
        exact hlog1
      · have h1 : seg1.filter (ownB c p.pid) = [] := by
          rw [List.filter_eq_nil_iff]
          intro d hd hb
          have h3 : c.part d.tgt = p.pid := by simpa [ownB] using hb
          have := hown1 d hd
          rw [h3] at this
          exact hne p hp this
        rw [h1, List.nil_append]
        exact hlog2 p hp
    · intro d hd
      simp only [List.mem_append] at hd
      simp only [List.map_cons, List.mem_cons]
      rcases hd with hd | hd
      · exact Or.inl (hown1 d hd)
      · exact Or.inr (hown2 d hd)

theorem exchange_ssim (c : Cfg) (s : AS τ) (ps : List (Part (Nat → τ))) (R : List PEv)
    (hn : (ps.map (·.pid)).Nodup) (hd : ∀ m ∈ allMsgs ps, c.dest m ∈ ps.map (·.pid))
    (sim : SSim c s ps R) : SSim c s (exchange c ps) R := by
  refine ⟨?_, ?_⟩
  · intro p hp x hx
    simp only [exchange, List.mem_map] at hp
    obtain ⟨q, hq, rfl⟩ := hp
    exact sim.st q hq x hx
  · exact sim.pend.trans (((sysPend_exchange c ps hn hd).symm.map proj).append_right R)

end HappyModel.C05
