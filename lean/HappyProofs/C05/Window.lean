import HappyProofs.C05.Heap
/-!
Per-partition invariants of the window loop (`stepWin` / `runWin`), for an arbitrary handler.

* `LogInv`  — the delivery log is sorted by time and never ahead of the clock (any rule);
* `WInv`    — nothing in the heap is behind the clock (hence nothing is ever discarded as
              "time travel"), everything is at or after the last barrier `b`, outbox entries were
              sent at or after `b`;
* `strict_clock_le` — under the repaired rule the clock never passes the window end.
-/
namespace HappyModel.C05

variable {σ : Type}

theorem mem_mkEvents {now ctr : Nat} {ems : List Emit} {ev : Ev} (h : ev ∈ mkEvents now ctr ems) :
    ∃ em ∈ ems, ev.time = now + em.delay ∧ ev.tgt = em.tgt ∧ ev.kind = em.kind := by
  induction ems generalizing ctr with
  | nil => simp [mkEvents] at h
  | cons s ss ih =>
    simp only [mkEvents, List.mem_cons] at h
    rcases h with rfl | h
    · exact ⟨s, by simp, rfl, rfl, rfl⟩
    · obtain ⟨em, hm, h1⟩ := ih h
      exact ⟨em, by simp [hm], h1⟩

theorem mkEvents_time_ge {now ctr : Nat} {ems : List Emit} {ev : Ev} (h : ev ∈ mkEvents now ctr ems) :
    now ≤ ev.time := by
  obtain ⟨em, _, ht, _⟩ := mem_mkEvents h
  omega

/-! ### case analysis of one loop iteration -/

/-- what `stepWin` can do, as a disjunction usable by `rcases` -/
theorem stepWin_cases (h : Handler σ) (r : Nat → Route) (strict : Bool) (we : Nat) (p p' : Part σ)
    (hs : stepWin h r strict we p = some p') :
    ∃ x xs, p.heap = x :: xs ∧ p.bad = false ∧ p.clock ≤ we ∧
      (strict = true → (minOf x xs).time ≤ we) ∧
      (((minOf x xs).time < p.clock ∧ p' = discard p (minOf x xs) ((x :: xs).erase (minOf x xs))) ∨
       (p.clock ≤ (minOf x xs).time ∧ p' = deliver h r p (minOf x xs) ((x :: xs).erase (minOf x xs)))) := by
  unfold stepWin at hs
  split at hs
  · simp at hs
  · rename_i x xs hx
    by_cases hb : p.bad = true
    · simp [hb] at hs
    · simp only [hb] at hs
      by_cases hc : we < p.clock
      · simp [hc] at hs
      · simp only [hc] at hs
        by_cases hst : (strict && decide (we < (minOf x xs).time)) = true
        · simp [hst] at hs
        · simp only [hst] at hs
          refine ⟨x, xs, hx, by simpa using hb, by omega, ?_, ?_⟩
          · intro hstr
            simp only [hstr, Bool.true_and, decide_eq_true_eq] at hst
            omega
          · by_cases ht : (minOf x xs).time < p.clock
            · simp only [ht, if_true, Bool.false_eq_true, if_false] at hs
              left; exact ⟨ht, by simpa using hs.symm⟩
            · simp only [ht, if_false, Bool.false_eq_true] at hs
              right; exact ⟨by omega, by simpa using hs.symm⟩

/-- induction principle for `runWin`: a step-preserved predicate holds at the end -/
theorem runWin_induct (h : Handler σ) (r : Nat → Route) (strict : Bool) (we : Nat)
    (P : Part σ → Prop)
    (hstep : ∀ p p', P p → stepWin h r strict we p = some p' → P p')
    (n : Nat) (p : Part σ) (hp : P p) : P (runWin h r strict we n p) := by
  induction n generalizing p with
  | zero => simpa [runWin] using hp
  | succ n ih =>
    simp only [runWin]
    split
    · exact hp
    · rename_i p' hs
      exact ih p' (hstep p p' hp hs)

/-! ### the log is sorted by time (any horizon rule, any handler) -/

structure LogInv (p : Part σ) : Prop where
  sorted : p.log.Pairwise (fun a b => b.time ≤ a.time)
  leClock : ∀ d ∈ p.log, d.time ≤ p.clock

theorem LogInv.step {h : Handler σ} {r : Nat → Route} {strict : Bool} {we : Nat} {p p' : Part σ}
    (inv : LogInv p) (hs : stepWin h r strict we p = some p') : LogInv p' := by
  obtain ⟨x, xs, _, _, _, _, hc⟩ := stepWin_cases h r strict we p p' hs
  rcases hc with ⟨_, rfl⟩ | ⟨hge, rfl⟩
  · exact ⟨inv.sorted, inv.leClock⟩
  · constructor
    · simp only [deliver, List.pairwise_cons]
      exact ⟨fun d hd => Nat.le_trans (inv.leClock d hd) hge, inv.sorted⟩
    · intro d hd
      simp only [deliver, List.mem_cons] at hd ⊢
      rcases hd with rfl | hd
      · exact Nat.le_refl _
      · exact Nat.le_trans (inv.leClock d hd) hge

theorem LogInv.run {h : Handler σ} {r : Nat → Route} {strict : Bool} {we : Nat} (n : Nat) {p : Part σ}
    (inv : LogInv p) : LogInv (runWin h r strict we n p) :=
  runWin_induct h r strict we LogInv (fun _ _ i hs => i.step hs) n p inv

theorem LogInv.init (pid start : Nat) (st : σ) (evs : List Ev) : LogInv (Part.init pid start st evs) :=
  ⟨by simp [Part.init], by simp [Part.init]⟩

/-! ### conservative-synchronisation invariant inside one window -/

structure WInv (r : Nat → Route) (own : Ev → Prop) (b : Nat) (p : Part σ) : Prop where
  geClock : ∀ e ∈ p.heap, p.clock ≤ e.time
  geB : ∀ e ∈ p.heap, b ≤ e.time
  owned : ∀ e ∈ p.heap, own e
  noTT : p.tt = []
  out : ∀ x ∈ p.outbox, b ≤ x.2 ∧ x.2 ≤ x.1.time ∧ r x.1.tgt = .out

theorem WInv.step {h : Handler σ} {r : Nat → Route} {own : Ev → Prop} {b : Nat} {strict : Bool}
    {we : Nat} {p p' : Part σ}
    (hown : ∀ ev : Ev, r ev.tgt = .loc → own ev)
    (inv : WInv r own b p) (hs : stepWin h r strict we p = some p') : WInv r own b p' := by
  obtain ⟨x, xs, hx, _, _, _, hc⟩ := stepWin_cases h r strict we p p' hs
  have hmem : minOf x xs ∈ p.heap := hx ▸ minOf_mem x xs
  have hrest : ∀ e ∈ (x :: xs).erase (minOf x xs), e ∈ p.heap := fun e he => hx ▸ mem_of_mem_rest he
  rcases hc with ⟨hlt, rfl⟩ | ⟨hge, rfl⟩
  · -- impossible: the minimum is not behind the clock
    have := inv.geClock _ hmem
    omega
  · have hmin : ∀ e ∈ p.heap, (minOf x xs).time ≤ e.time := fun e he => minOf_time_le x xs e (hx ▸ he)
    constructor
    · intro e he
      simp only [deliver, List.mem_append, List.mem_filter] at he ⊢
      rcases he with he | ⟨he, _⟩
      · exact hmin e (hrest e he)
      · exact mkEvents_time_ge he
    · intro e he
      simp only [deliver, List.mem_append, List.mem_filter] at he
      rcases he with he | ⟨he, _⟩
      · exact inv.geB e (hrest e he)
      · exact Nat.le_trans (inv.geB _ hmem) (mkEvents_time_ge he)
    · intro e he
      simp only [deliver, List.mem_append, List.mem_filter] at he
      rcases he with he | ⟨_, hl⟩
      · exact inv.owned e (hrest e he)
      · exact hown e (by simpa [isLoc] using hl)
    · simpa [deliver] using inv.noTT
    · intro y hy
      simp only [deliver, List.mem_append, List.mem_map, List.mem_filter] at hy
      rcases hy with hy | ⟨ev, ⟨hev, ho⟩, rfl⟩
      · exact inv.out y hy
      · have ho' : r ev.tgt = .out := by simpa [isOut] using ho
        exact ⟨inv.geB _ hmem, mkEvents_time_ge hev, ho'⟩

theorem WInv.run {h : Handler σ} {r : Nat → Route} {own : Ev → Prop} {b : Nat} {strict : Bool}
    {we : Nat} (hown : ∀ ev : Ev, r ev.tgt = .loc → own ev)
    (n : Nat) {p : Part σ} (inv : WInv r own b p) : WInv r own b (runWin h r strict we n p) :=
  runWin_induct h r strict we (WInv r own b) (fun _ _ i hs => i.step hown hs) n p inv

/-! ### the repaired rule keeps the clock inside the window -/

theorem strict_clock_le {h : Handler σ} {r : Nat → Route} {we : Nat} (n : Nat) {p : Part σ}
    (hc : p.clock ≤ we) : (runWin h r true we n p).clock ≤ we := by
  refine runWin_induct h r true we (fun q => q.clock ≤ we) ?_ n p hc
  intro q q' hq hs
  obtain ⟨x, xs, _, _, _, hst, hcs⟩ := stepWin_cases h r true we q q' hs
  rcases hcs with ⟨_, rfl⟩ | ⟨_, rfl⟩
  · simpa [discard] using hq
  · simpa [deliver] using hst rfl

/-- a halted strict window leaves only events after the window end in the heap -/
theorem halted_strict_heap_gt {h : Handler σ} {r : Nat → Route} {we : Nat} {p : Part σ}
    (hh : Halted h r true we p) (hb : p.bad = false) (hc : p.clock ≤ we) :
    ∀ e ∈ p.heap, we < e.time := by
  unfold Halted stepWin at hh
  split at hh
  · rename_i hx; intro e he; simp [hx] at he
  · rename_i x xs hx
    simp only [hb, Bool.false_eq_true, if_false] at hh
    have hnc : ¬ we < p.clock := by omega
    simp only [hnc, if_false] at hh
    by_cases hst : we < (minOf x xs).time
    · intro e he
      have := minOf_time_le x xs e (hx ▸ he)
      omega
    · simp [hst] at hh
      split at hh <;> simp at hh

/-- pid, and the things a window never touches -/
theorem runWin_pid {h : Handler σ} {r : Nat → Route} {strict : Bool} {we : Nat} (n : Nat) (p : Part σ) :
    (runWin h r strict we n p).pid = p.pid := by
  refine runWin_induct h r strict we (fun q => q.pid = p.pid) ?_ n p rfl
  intro q q' hq hs
  obtain ⟨x, xs, _, _, _, _, hcs⟩ := stepWin_cases h r strict we q q' hs
  rcases hcs with ⟨_, rfl⟩ | ⟨_, rfl⟩ <;> simpa [discard, deliver] using hq

end HappyModel.C05
