import HappyProofs.C05.StatefulCore
/-!
`coordLoopR` — the coordinator with the code's creation indices (`HappyModel/C05/Stateful.lean`: an
event injected at a barrier gets a fresh index from the destination's counter) — is an execution of
the abstract system exactly like `coordLoop`: re-indexing changes no event's time, target or kind, so
`Safe`, the pending multiset without indices, logs and states are those of `exchange`.
-/
namespace HappyModel.C05

variable {τ : Type} {σ : Type}

theorem reindex_map_proj (k : Nat) (l : List Ev) : (reindex k l).map proj = l.map proj := by
  induction l generalizing k with
  | nil => rfl
  | cons e es ih => simp [reindex, proj, ih]

theorem mem_reindex {k : Nat} {l : List Ev} {e : Ev} (h : e ∈ reindex k l) :
    ∃ e0 ∈ l, e.time = e0.time ∧ e.tgt = e0.tgt := by
  induction l generalizing k with
  | nil => simp [reindex] at h
  | cons x xs ih =>
    simp only [reindex, List.mem_cons] at h
    rcases h with rfl | h
    · exact ⟨x, by simp, rfl, rfl⟩
    · obtain ⟨e0, h0, h1⟩ := ih h
      exact ⟨e0, by simp [h0], h1⟩

/-- every event of the re-indexed heap has a twin (same time and target) in the plain one -/
theorem injectR_heap_twin (c : Cfg) (msgs : List Msg) (q : Part σ) {e : Ev} (h : e ∈ (injectR c msgs q).heap) :
    ∃ e0 ∈ (inject c msgs q).heap, e.time = e0.time ∧ e.tgt = e0.tgt := by
  simp only [injectR, List.mem_append] at h
  rcases h with h | h
  · exact ⟨e, by simp [inject, h], rfl, rfl⟩
  · obtain ⟨e0, h0, h1⟩ := mem_reindex h
    exact ⟨e0, by simp only [inject, List.mem_append]; exact Or.inr h0, h1⟩

theorem Safe.toR {c : Cfg} {b : Nat} {ps : List (Part σ)} (safe : Safe c b (exchange c ps)) :
    Safe c b (exchangeR c ps) := by
  have hmem : ∀ q ∈ ps, inject c (allMsgs ps) q ∈ exchange c ps := fun q hq =>
    List.mem_map.mpr ⟨q, hq, rfl⟩
  constructor
  · intro p hp
    simp only [exchangeR, List.mem_map] at hp
    obtain ⟨q, hq, rfl⟩ := hp
    have w := safe.inv _ (hmem q hq)
    constructor
    · intro e he
      obtain ⟨e0, h0, ht, _⟩ := injectR_heap_twin c _ q he
      have := w.geClock e0 h0
      simp only [inject, injectR] at this ⊢
      omega
    · intro e he
      obtain ⟨e0, h0, ht, _⟩ := injectR_heap_twin c _ q he
      have := w.geB e0 h0
      omega
    · intro e he
      obtain ⟨e0, h0, _, htg⟩ := injectR_heap_twin c _ q he
      have := w.owned e0 h0
      simp only [Owns, inject, injectR] at this ⊢
      rw [htg]; exact this
    · simpa [inject, injectR] using w.noTT
    · intro x hx
      simp [injectR] at hx
  · intro p hp
    simp only [exchangeR, List.mem_map] at hp
    obtain ⟨q, hq, rfl⟩ := hp
    simpa [inject, injectR] using safe.clock _ (hmem q hq)
  · intro p hp
    simp only [exchangeR, List.mem_map] at hp
    obtain ⟨q, _, rfl⟩ := hp
    rfl
  · intro p hp
    simp only [exchangeR, List.mem_map] at hp
    obtain ⟨q, hq, rfl⟩ := hp
    simpa [inject, injectR] using safe.good _ (hmem q hq)

theorem heap_gt_exchangeR {c : Cfg} {T : Nat} {ps : List (Part σ)}
    (h : ∀ p ∈ exchange c ps, ∀ e ∈ p.heap, T < e.time) :
    ∀ p ∈ exchangeR c ps, ∀ e ∈ p.heap, T < e.time := by
  intro p hp e he
  simp only [exchangeR, List.mem_map] at hp
  obtain ⟨q, hq, rfl⟩ := hp
  obtain ⟨e0, h0, ht, _⟩ := injectR_heap_twin c _ q he
  have := h _ (List.mem_map.mpr ⟨q, hq, rfl⟩) e0 h0
  omega

theorem sysPend_exchangeR_proj (c : Cfg) (ps : List (Part σ)) :
    (sysPend (exchangeR c ps)).map proj = (sysPend (exchange c ps)).map proj := by
  unfold sysPend exchangeR exchange
  generalize allMsgs ps = msgs
  induction ps with
  | nil => rfl
  | cons p ps ih =>
    simp only [List.map_cons, List.flatMap_cons, List.map_append, ih]
    simp [inject, injectR, reindex_map_proj]

theorem exchangeR_ssim (c : Cfg) (s : AS τ) (ps : List (Part (Nat → τ))) (R : List PEv)
    (sim : SSim c s (exchange c ps) R) : SSim c s (exchangeR c ps) R := by
  refine ⟨?_, ?_⟩
  · intro p hp x hx
    simp only [exchangeR, List.mem_map] at hp
    obtain ⟨q, hq, rfl⟩ := hp
    exact sim.st (inject c (allMsgs ps) q) (List.mem_map.mpr ⟨q, hq, rfl⟩) x hx
  · rw [sysPend_exchangeR_proj]; exact sim.pend

theorem exchangeR_pids (c : Cfg) (ps : List (Part σ)) : (exchangeR c ps).map (·.pid) = ps.map (·.pid) := by
  simp [exchangeR, injectR]

theorem exchangeR_logInv (c : Cfg) (ps : List (Part σ)) (hl : ∀ p ∈ ps, LogInv p) :
    ∀ p ∈ exchangeR c ps, LogInv p := by
  intro p hp
  simp only [exchangeR, List.mem_map] at hp
  obtain ⟨q, hq, rfl⟩ := hp
  exact ⟨(hl q hq).sorted, (hl q hq).leClock⟩

theorem windowStepR_ok (h : Handler σ) (c : Cfg) (fuel we : Nat) (s : Coord σ)
    (hr : (windowStepR h c true fuel we s).err = none) :
    WindowOk h c fuel we s.parts ∧ (windowStepR h c true fuel we s).cur = we
    ∧ (windowStepR h c true fuel we s).parts = oneWindowR h c true fuel we s.parts := by
  unfold windowStepR at hr ⊢
  by_cases hbad : (execAll h c true fuel we s.parts).any (·.bad) = true
  · simp [hbad] at hr
  · simp only [hbad, Bool.false_eq_true, if_false] at hr ⊢
    by_cases hh : (execAll h c true fuel we s.parts).all (fun p => haltedB h (c.route p.pid) true we p) = true
    · simp only [hh, Bool.not_true, Bool.false_eq_true, if_false] at hr ⊢
      by_cases hl : (allMsgs (execAll h c true fuel we s.parts)).all c.latOk = true
      · simp only [hl, Bool.not_true, Bool.false_eq_true, if_false] at hr ⊢
        refine ⟨⟨?_, ?_, ?_⟩, by first | trivial | rfl, by first | trivial | rfl⟩
        · intro p hp
          simp only [List.any_eq_true, not_exists, not_and] at hbad
          simpa using hbad p hp
        · intro p hp
          exact haltedB_iff.mp (List.all_eq_true.mp hh p hp)
        · exact fun m hm => List.all_eq_true.mp hl m hm
      · simp [hl] at hr
    · simp [hh] at hr

/-- `coordLoop_inv'` for the re-indexing coordinator -/
theorem coordLoopR_inv' (h : Handler σ) (c : Cfg) (fuel wEff endT : Nat)
    (I : Nat → List (Part σ) → Prop) (Q : List (Part σ) → Prop)
    (hstep : ∀ b we ps, I b ps → b ≤ we → we ≤ b + wEff → we ≤ endT → WindowOk h c fuel we ps →
      I we (oneWindowR h c true fuel we ps))
    (hempty : ∀ ps : List (Part σ), ps.all (·.heap.isEmpty) = true → Q ps)
    (hfinal : ∀ ps, I endT ps → WindowOk h c fuel endT ps → Q (oneWindowR h c true fuel endT ps)) :
    ∀ (n : Nat) (s : Coord σ), s.err = none → s.cur ≤ endT → I s.cur s.parts →
      (coordLoopR h c true fuel wEff endT n s).err = none →
      I (coordLoopR h c true fuel wEff endT n s).cur (coordLoopR h c true fuel wEff endT n s).parts
      ∧ Q (coordLoopR h c true fuel wEff endT n s).parts := by
  intro n
  induction n with
  | zero => intro s _ _ _ hr; simp [coordLoopR] at hr
  | succ n ih =>
    intro s he hcur inv hr
    unfold coordLoopR at hr ⊢
    simp only [he, Option.isSome_none, Bool.false_eq_true, if_false] at hr ⊢
    by_cases hend : endT ≤ s.cur
    · simp only [hend, if_true] at hr ⊢
      have hce : s.cur = endT := by omega
      obtain ⟨hok, h2, h3⟩ := windowStepR_ok h c fuel endT s hr
      rw [h2, h3]
      exact ⟨hstep s.cur endT s.parts inv (by omega) (by omega) (Nat.le_refl _) hok, hfinal s.parts (hce ▸ inv) hok⟩
    · simp only [hend, if_false] at hr ⊢
      generalize hwe : (if s.cur + wEff > endT then endT else s.cur + wEff) = we at hr ⊢
      have hb : s.cur ≤ we := by subst hwe; split <;> omega
      have hle : we ≤ s.cur + wEff := by subst hwe; split <;> omega
      have hwT : we ≤ endT := by subst hwe; split <;> omega
      by_cases h1 : (windowStepR h c true fuel we s).err.isSome = true
      · simp only [h1, if_true] at hr
        simp [hr] at h1
      · simp only [h1, Bool.false_eq_true, if_false] at hr ⊢
        have h1' : (windowStepR h c true fuel we s).err = none := by
          cases hx : (windowStepR h c true fuel we s).err <;> simp_all
        obtain ⟨hok, hc, hp⟩ := windowStepR_ok h c fuel we s h1'
        have hI := hstep s.cur we s.parts inv hb hle hwT hok
        split
        · rename_i hem
          refine ⟨by simpa [hc, hp] using hI, hempty _ (by simpa using hem)⟩
        · rename_i hne
          simp only [hne, Bool.false_eq_true, if_false] at hr
          exact ih _ (by simpa using h1') (by simpa [hc] using hwT) (by simpa [hc, hp] using hI) hr

/-- one barrier of the re-indexing coordinator keeps `TInv` (from `TInv.window`) -/
theorem TInv.windowR {hE : EHandler τ} {c : Cfg} {ids : List Nat} {s0 : AS τ} {fuel T b we w : Nat}
    {ps : List (Part (Nat → τ))} (hids : ids.Nodup) (hlinks : ∀ l ∈ c.links, l.dst ∈ ids)
    (hw : WindowLeLat c w) (hb : b ≤ we) (hwe : we ≤ b + w) (hT : we ≤ T)
    (inv : TInv hE c ids s0 T b ps) (ok : WindowOk (liftP hE) c fuel we ps) :
    TInv hE c ids s0 T we (oneWindowR (liftP hE) c true fuel we ps) := by
  have base := inv.window hids hlinks hw hb hwe hT ok
  obtain ⟨E, hv, sim, hlogs, htg⟩ := base.exec
  refine ⟨base.safe.toR, hT, ?_, ?_, E, hv, exchangeR_ssim c _ _ [] sim, ?_, htg⟩
  · have := base.pids
    simp only [oneWindow, oneWindowR, exchange_pids, exchangeR_pids] at this ⊢
    exact this
  · apply exchangeR_logInv
    intro p hp
    simp only [execAll, List.mem_map] at hp
    obtain ⟨q, hq, rfl⟩ := hp
    exact (inv.logInv q hq).run fuel
  · intro p hp
    simp only [oneWindowR, exchangeR, List.mem_map] at hp
    obtain ⟨q, hq, rfl⟩ := hp
    have := hlogs (inject c (allMsgs (execAll (liftP hE) c true fuel we ps)) q)
      (by simp only [oneWindow, exchange, List.mem_map]; exact ⟨q, hq, rfl⟩)
    simpa [inject, injectR] using this

/-- **the re-indexing coordinated run is an abstract execution** -/
theorem par_execR (hE : EHandler τ) (c : Cfg) (ids : List Nat) (fuel wEff endT n : Nat)
    (s : Coord (Nat → τ)) (s0 : AS τ) (hids : ids.Nodup) (hlinks : ∀ l ∈ c.links, l.dst ∈ ids)
    (hw : WindowLeLat c wEff) (hpos : 0 < wEff) (he : s.err = none) (hcur : s.cur ≤ endT)
    (inv : TInv hE c ids s0 endT s.cur s.parts)
    (hres : (coordLoopR (liftP hE) c true fuel wEff endT n s).err = none) :
    ParExecOf hE c ids s0 endT (coordLoopR (liftP hE) c true fuel wEff endT n s).parts := by
  have key := coordLoopR_inv' (liftP hE) c fuel wEff endT
    (fun b ps => TInv hE c ids s0 endT b ps)
    (fun ps => ∀ p ∈ ps, ∀ e ∈ p.heap, endT < e.time)
    (fun b we ps i hb hle hT ok => i.windowR hids hlinks hw hb hle hT ok)
    (fun ps hem p hp e he => by
      have := List.all_eq_true.mp hem p hp
      simp only [List.isEmpty_iff] at this
      simp [this] at he)
    (fun ps i ok => heap_gt_exchangeR
      (oneWindow_heap_gt (liftP hE) c fuel endT endT wEff ps hw (Nat.le_refl _) (by omega) i.safe ok))
    n s he hcur inv hres
  exact key.1.execOf key.2

end HappyModel.C05
