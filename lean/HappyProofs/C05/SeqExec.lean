import HappyProofs.C05.ParExec
import HappyModel.C05.Stateful
/-!
The sequential run of an entity-local handler, cut at the end time, is a min-first execution of the
abstract system, complete up to the end time.
-/
namespace HappyModel.C05

variable {τ : Type}

theorem sorted_split (T : Nat) : ∀ l : List PEv, l.Pairwise (fun a b => a.time ≤ b.time) →
    ∃ b, l = l.filter (fun e => e.time ≤ T) ++ b ∧ ∀ e ∈ b, T < e.time := by
  intro l
  induction l with
  | nil => intro _; exact ⟨[], rfl, by simp⟩
  | cons x xs ih =>
    intro hp
    rw [List.pairwise_cons] at hp
    by_cases hx : x.time ≤ T
    · obtain ⟨b, hb, hgt⟩ := ih hp.2
      refine ⟨b, ?_, hgt⟩
      simp only [List.filter_cons, hx, decide_true, if_true, List.cons_append]
      rw [← hb]
    · refine ⟨x :: xs, ?_, ?_⟩
      · have : (x :: xs).filter (fun e => e.time ≤ T) = [] := by
          rw [List.filter_eq_nil_iff]
          intro e he
          simp only [List.mem_cons] at he
          rcases he with rfl | he
          · simpa using hx
          · have := hp.1 e he
            simp only [decide_eq_true_eq]; omega
        rw [this]; rfl
      · intro e he
        simp only [List.mem_cons] at he
        rcases he with rfl | he
        · omega
        · have := hp.1 e he; omega

theorem LogInv.initCtr (pid start : Nat) (st : Nat → τ) (evs : List Ev) (n0 : Nat) :
    LogInv (Part.initCtr pid start st evs n0) :=
  ⟨by simp [Part.initCtr, Part.init], by simp [Part.initCtr, Part.init]⟩

/-- the deliveries of the sequential run up to `T`, without creation indices; `n0` = the creation
    counter the run starts with (`0`: `Part.init`; the code: the number of pre-run events) -/
def seqTrace (hE : EHandler τ) (T fuel start : Nat) (st : Nat → τ) (evs : List Ev) (n0 : Nat) : List PEv :=
  ((runSeq (liftP hE) T fuel (Part.initCtr 0 start st evs n0)).log.reverse.map proj).filter (fun e => e.time ≤ T)

theorem seq_exec (hE : EHandler τ) (T fuel start : Nat) (st : Nat → τ) (evs : List Ev) (n0 : Nat)
    (hstart : ∀ e ∈ evs, start ≤ e.time)
    (hhalt : Halted (liftP hE) seqRoute false T (runSeq (liftP hE) T fuel (Part.initCtr 0 start st evs n0))) :
    Valid hE ⟨st, evs.map proj⟩ (seqTrace hE T fuel start st evs n0)
    ∧ MinFirst hE ⟨st, evs.map proj⟩ (seqTrace hE T fuel start st evs n0)
    ∧ (∀ e ∈ seqTrace hE T fuel start st evs n0, e.time ≤ T)
    ∧ (∀ e ∈ (arun hE ⟨st, evs.map proj⟩ (seqTrace hE T fuel start st evs n0)).pend, T < e.time) := by
  have w0 : WInv seqRoute (fun _ => True) start (Part.initCtr 0 start st evs n0) :=
    ⟨by simpa [Part.initCtr, Part.init] using hstart, by simpa [Part.initCtr, Part.init] using hstart, fun _ _ => trivial,
     rfl, by simp [Part.initCtr, Part.init]⟩
  have sim0 : PSim (fun _ => True) (⟨st, evs.map proj⟩ : AS τ) (Part.initCtr 0 start st evs n0) [] :=
    ⟨fun _ _ => rfl, by simp [Part.initCtr, Part.init]⟩
  have hb : (runSeq (liftP hE) T fuel (Part.initCtr 0 start st evs n0)).bad = false := seq_bad_false fuel rfl
  obtain ⟨seg, hv, sim, hlog, _, hmin⟩ := runWin_sim hE seqRoute (fun _ => True) (fun _ _ => trivial)
    start false T fuel (Part.initCtr 0 start st evs n0) ⟨st, evs.map proj⟩ [] w0 sim0 hb
  have hmin' := hmin rfl (fun t => by simp [seqRoute])
  have wfin : WInv seqRoute (fun _ => True) start (runSeq (liftP hE) T fuel (Part.initCtr 0 start st evs n0)) :=
    WInv.run (fun _ _ => trivial) fuel w0
  have hseg : (runSeq (liftP hE) T fuel (Part.initCtr 0 start st evs n0)).log.reverse.map proj = seg := by
    have : (runSeq (liftP hE) T fuel (Part.initCtr 0 start st evs n0)).log.reverse.map proj
        = (Part.initCtr 0 start st evs n0).log.reverse.map proj ++ seg := hlog
    simpa [Part.initCtr, Part.init] using this
  have hsorted : seg.Pairwise (fun a b => a.time ≤ b.time) := by
    rw [← hseg, List.pairwise_map, List.pairwise_reverse]
    exact ((LogInv.initCtr 0 start st evs n0).run fuel).sorted.imp (fun h => by simpa [proj] using h)
  obtain ⟨b, hsplit, hgt⟩ := sorted_split T seg hsorted
  have htr : seqTrace hE T fuel start st evs n0 = seg.filter (fun e => e.time ≤ T) := by
    unfold seqTrace; rw [hseg]
  rw [htr]
  have hv' : Valid hE ⟨st, evs.map proj⟩ (seg.filter (fun e => e.time ≤ T) ++ b) := hsplit ▸ hv
  have hm' : MinFirst hE ⟨st, evs.map proj⟩ (seg.filter (fun e => e.time ≤ T) ++ b) := hsplit ▸ hmin'
  refine ⟨((Valid_append hE _ _ _).mp hv').1, MinFirst_append hE _ _ _ hm', ?_, ?_⟩
  · intro e he
    simpa using (List.mem_filter.mp he).2
  · intro e he
    rcases persist hE e b _ he with h | h
    · exact hgt e h
    · rw [← arun_append, ← hsplit] at h
      have h1 := sim.pend.mem_iff.mp h
      have hob : (runSeq (liftP hE) T fuel (Part.initCtr 0 start st evs n0)).outbox = [] := by
        rw [List.eq_nil_iff_forall_not_mem]
        intro y hy
        have := (wfin.out y hy).2.2
        simp [seqRoute] at this
      have hob' : (runWin (liftP hE) seqRoute false T fuel (Part.initCtr 0 start st evs n0)).outbox = [] := hob
      simp only [hob', List.map_nil, List.append_nil, List.mem_map] at h1
      obtain ⟨e0, he0, rfl⟩ := h1
      exact halted_loose_heap_gt hhalt hb wfin.geClock e0 he0

end HappyModel.C05
