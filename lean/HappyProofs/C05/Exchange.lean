import HappyProofs.C05.Window
/-!
The barrier: `exchange` moves every outbox entry into exactly one heap (conservation), and from a
`Safe` state one coordinator iteration under the repaired window rule injects no event behind its
destination's clock and re-establishes `Safe` at the new barrier.
-/
namespace HappyModel.C05

variable {σ : Type}

/-! ### splitting a list by a key with values in a duplicate-free index list is a permutation -/

theorem sum_indicator (ids : List Nat) (hn : ids.Nodup) (k c : Nat) :
    (ids.map (fun i => if k = i then c else 0)).sum = if k ∈ ids then c else 0 := by
  induction ids with
  | nil => simp
  | cons i is ih =>
    have hn' := List.nodup_cons.mp hn
    simp only [List.map_cons, List.sum_cons, List.mem_cons, ih hn'.2]
    by_cases h1 : k = i
    · subst h1
      simp [hn'.1]
    · simp [h1]

theorem count_filter_ite {α} [DecidableEq α] (l : List α) (p : α → Bool) (x : α) :
    (l.filter p).count x = if p x then l.count x else 0 := by
  by_cases h : p x = true
  · simp [h, List.count_filter h]
  · simp only [h, Bool.false_eq_true, if_false]
    rw [List.count_eq_zero]
    intro hm
    exact h (List.mem_filter.mp hm).2

theorem partition_perm {α} [DecidableEq α] (ids : List Nat) (hn : ids.Nodup) (f : α → Nat)
    (l : List α) (hall : ∀ a ∈ l, f a ∈ ids) :
    (ids.flatMap (fun i => l.filter (fun a => f a == i))).Perm l := by
  rw [List.perm_iff_count]
  intro x
  rw [List.count_flatMap]
  have hm : List.map (List.count x ∘ fun i => l.filter (fun a => f a == i)) ids
      = ids.map (fun i => if f x = i then l.count x else 0) := by
    apply List.map_congr_left
    intro i _
    simp [Function.comp, count_filter_ite]
  rw [hm, sum_indicator ids hn]
  split
  · rfl
  · rename_i h
    symm
    rw [List.count_eq_zero]
    intro hx
    exact h (hall x hx)

theorem flatMap_append_fun {α β} [DecidableEq β] (l : List α) (f g : α → List β) :
    (l.flatMap (fun a => f a ++ g a)).Perm (l.flatMap f ++ l.flatMap g) := by
  induction l with
  | nil => simp
  | cons a l ih =>
    rw [List.perm_iff_count] at ih ⊢
    intro x
    have := ih x
    simp only [List.flatMap_cons, List.count_append] at this ⊢
    omega

/-! ### conservation at the barrier -/

theorem inject_heaps_eq (c : Cfg) (msgs : List Msg) (ps : List (Part σ)) :
    ps.flatMap (fun p => (msgs.filter (fun m => c.dest m == p.pid)).map (·.ev))
      = ((ps.map (·.pid)).flatMap (fun i => msgs.filter (fun m => c.dest m == i))).map (·.ev) := by
  induction ps with
  | nil => simp
  | cons p ps ih => simp [List.flatMap_cons, List.map_append, ih]

theorem inject_map_heaps (c : Cfg) (msgs : List Msg) (ps : List (Part σ)) :
    (ps.map (inject c msgs)).flatMap (·.heap)
      = ps.flatMap (fun p => p.heap ++ (msgs.filter (fun m => c.dest m == p.pid)).map (·.ev)) := by
  induction ps with
  | nil => simp
  | cons p ps ih => simp [List.flatMap_cons, inject, ih]

/-- every outbox entry ends up in exactly one heap: the heaps after the exchange are, as a multiset,
    the heaps before plus all outboxed events -/
theorem exchange_heaps_perm (c : Cfg) (ps : List (Part σ)) (hn : (ps.map (·.pid)).Nodup)
    (hd : ∀ m ∈ allMsgs ps, c.dest m ∈ ps.map (·.pid)) :
    ((exchange c ps).flatMap (·.heap)).Perm (ps.flatMap (·.heap) ++ (allMsgs ps).map (·.ev)) := by
  rw [show exchange c ps = ps.map (inject c (allMsgs ps)) from rfl, inject_map_heaps]
  refine (flatMap_append_fun ps _ _).trans (List.Perm.append (List.Perm.refl _) ?_)
  rw [inject_heaps_eq]
  exact (partition_perm _ hn c.dest (allMsgs ps) hd).map _

theorem exchange_outbox_empty (c : Cfg) (ps : List (Part σ)) : ∀ p ∈ exchange c ps, p.outbox = [] := by
  intro p hp
  simp only [exchange, List.mem_map] at hp
  obtain ⟨q, _, rfl⟩ := hp
  rfl

theorem exchange_pids (c : Cfg) (ps : List (Part σ)) : (exchange c ps).map (·.pid) = ps.map (·.pid) := by
  simp [exchange, inject]

theorem execAll_pids (h : Handler σ) (c : Cfg) (strict : Bool) (fuel we : Nat) (ps : List (Part σ)) :
    (execAll h c strict fuel we ps).map (·.pid) = ps.map (·.pid) := by
  simp [execAll, runWin_pid]

/-! ### the conservative-synchronisation argument -/

/-- partition `p` owns the events addressed to its entities -/
def Owns (c : Cfg) (pid : Nat) (e : Ev) : Prop := c.part e.tgt = pid

theorem route_loc_owns (c : Cfg) (pid : Nat) (ev : Ev) (h : c.route pid ev.tgt = .loc) : Owns c pid ev := by
  unfold Cfg.route at h
  unfold Owns
  split at h
  · rename_i h1; simpa using h1
  · split at h <;> simp at h

/-- the state between two coordinator iterations, at barrier time `b` -/
structure Safe (c : Cfg) (b : Nat) (ps : List (Part σ)) : Prop where
  inv : ∀ p ∈ ps, WInv (c.route p.pid) (Owns c p.pid) b p
  clock : ∀ p ∈ ps, p.clock ≤ b
  outEmpty : ∀ p ∈ ps, p.outbox = []
  good : ∀ p ∈ ps, p.bad = false

/-- every declared link latency is at least the window -/
def WindowLeLat (c : Cfg) (w : Nat) : Prop := ∀ l ∈ c.links, w ≤ l.lat

theorem latOk_arrival {c : Cfg} {w : Nat} (hw : WindowLeLat c w) {m : Msg} (hok : c.latOk m = true) :
    m.sent + w ≤ m.ev.time := by
  unfold Cfg.latOk at hok
  split at hok
  · rename_i L hL
    unfold Cfg.latOf at hL
    simp only [Option.map_eq_some_iff] at hL
    obtain ⟨l, hf, rfl⟩ := hL
    have hmem : l ∈ c.links := by
      have := List.mem_of_find?_eq_some hf
      simpa using this
    have := hw l hmem
    simp only [decide_eq_true_eq] at hok
    omega
  · simp at hok

theorem mem_allMsgs {ps : List (Part σ)} {m : Msg} (hm : m ∈ allMsgs ps) :
    ∃ q ∈ ps, ∃ x ∈ q.outbox, m = ⟨q.pid, x.1, x.2⟩ := by
  simp only [allMsgs, List.mem_flatMap, msgsOf, List.mem_map] at hm
  obtain ⟨q, hq, x, hx, rfl⟩ := hm
  exact ⟨q, hq, x, hx, rfl⟩

/-- **One coordinator iteration from a safe state** (repaired window rule, any handler):
    if the windows ran to completion, no router raised and the coordinator's own min-latency
    validation passed, then every event injected at the barrier is at or after the clock of its
    destination partition, nothing has been discarded, and the state is safe at the new barrier. -/
theorem oneWindow_safe (h : Handler σ) (c : Cfg) (fuel b we w : Nat) (ps : List (Part σ))
    (hw : WindowLeLat c w) (hb : b ≤ we) (hwe : we ≤ b + w)
    (safe : Safe c b ps)
    (hgood : ∀ p ∈ execAll h c true fuel we ps, p.bad = false)
    (hhalt : ∀ p ∈ execAll h c true fuel we ps, Halted h (c.route p.pid) true we p)
    (hlat : ∀ m ∈ allMsgs (execAll h c true fuel we ps), c.latOk m = true) :
    (∀ p ∈ execAll h c true fuel we ps, ∀ m ∈ allMsgs (execAll h c true fuel we ps),
        c.dest m = p.pid → p.clock ≤ m.ev.time)
    ∧ Safe c we (oneWindow h c true fuel we ps) := by
  -- facts about every partition after its window
  have hran : ∀ p ∈ execAll h c true fuel we ps,
      WInv (c.route p.pid) (Owns c p.pid) b p ∧ p.clock ≤ we := by
    intro p hp
    simp only [execAll, List.mem_map] at hp
    obtain ⟨q, hq, rfl⟩ := hp
    rw [runWin_pid]
    exact ⟨WInv.run (route_loc_owns c q.pid) fuel (safe.inv q hq),
           strict_clock_le fuel (Nat.le_trans (safe.clock q hq) hb)⟩
  -- every message arrives at or after the new barrier
  have harr : ∀ m ∈ allMsgs (execAll h c true fuel we ps), we ≤ m.ev.time := by
    intro m hm
    obtain ⟨q, hq, x, hx, rfl⟩ := mem_allMsgs hm
    have h1 := ((hran q hq).1.out x hx).1
    have h2 : x.2 + w ≤ x.1.time := latOk_arrival hw (hlat _ hm)
    show we ≤ x.1.time
    omega
  refine ⟨?_, ?_⟩
  · intro p hp m hm _
    have := (hran p hp).2
    have := harr m hm
    omega
  · constructor
    · intro p hp
      simp only [oneWindow, exchange, List.mem_map] at hp
      obtain ⟨q, hq, rfl⟩ := hp
      obtain ⟨inv, hcl⟩ := hran q hq
      have hgt := halted_strict_heap_gt (hhalt q hq) (hgood q hq) hcl
      constructor
      · intro e he
        simp only [inject, List.mem_append, List.mem_map, List.mem_filter] at he
        rcases he with he | ⟨m, ⟨hm, _⟩, rfl⟩
        · exact inv.geClock e he
        · have := harr m hm
          simp only [inject]
          omega
      · intro e he
        simp only [inject, List.mem_append, List.mem_map, List.mem_filter] at he
        rcases he with he | ⟨m, ⟨hm, _⟩, rfl⟩
        · exact Nat.le_of_lt (hgt e he)
        · exact harr m hm
      · intro e he
        simp only [inject, List.mem_append, List.mem_map, List.mem_filter] at he
        rcases he with he | ⟨m, ⟨_, hdm⟩, rfl⟩
        · exact inv.owned e he
        · simpa [Owns, Cfg.dest, inject] using hdm
      · simpa [inject] using inv.noTT
      · intro x hx
        simp [inject] at hx
    · intro p hp
      simp only [oneWindow, exchange, List.mem_map] at hp
      obtain ⟨q, hq, rfl⟩ := hp
      simpa [inject] using (hran q hq).2
    · exact exchange_outbox_empty c _
    · intro p hp
      simp only [oneWindow, exchange, List.mem_map] at hp
      obtain ⟨q, hq, rfl⟩ := hp
      simpa [inject] using hgood q hq

end HappyModel.C05
