import HappyProofs.C05.Full
import HappyProofs.C05.Trace
/-!
One window of one partition (and the whole sequential run) is an execution of the abstract system of
`Trace.lean`: the deliveries the engine appends to its log are a valid abstract execution from any
abstract state that agrees with the partition on the entities it owns and whose pending multiset is
the partition's heap and outbox plus a remainder `R` (what the other partitions hold).
-/
namespace HappyModel.C05

variable {τ : Type}

/-- the engine handler of an entity-local handler that does not look at creation indices -/
def liftP (hE : EHandler τ) : Handler (Nat → τ) := liftLocal (fun s e => hE s (proj e))

theorem liftP_fst (hE : EHandler τ) (st : Nat → τ) (e : Ev) (x : Nat) :
    (liftP hE st e).1 x = if x = e.tgt then (hE (st e.tgt) (proj e)).1 else st x := rfl

theorem liftP_snd (hE : EHandler τ) (st : Nat → τ) (e : Ev) :
    (liftP hE st e).2 = (hE (st e.tgt) (proj e)).2 := rfl

structure PSim (own : Nat → Prop) (s : AS τ) (p : Part (Nat → τ)) (R : List PEv) : Prop where
  st : ∀ x, own x → s.st x = p.st x
  pend : s.pend.Perm ((p.heap ++ p.outbox.map (·.1)).map proj ++ R)

theorem runWin_bad_stuck {σ} {h : Handler σ} {r : Nat → Route} {strict : Bool} {we : Nat} (n : Nat)
    {p : Part σ} (hb : p.bad = true) : runWin h r strict we n p = p := by
  cases n with
  | zero => rfl
  | succ n =>
    simp only [runWin]
    have : stepWin h r strict we p = none := by
      unfold stepWin
      split
      · rfl
      · simp [hb]
    rw [this]

theorem emitAt_eq_proj (t ctr : Nat) (ems : List Emit) : emitAt t ems = (mkEvents t ctr ems).map proj := by
  rw [proj_mkEvents]; rfl

/-- one delivering loop iteration is one abstract delivery -/
theorem deliver_sim (hE : EHandler τ) (r : Nat → Route) (own : Nat → Prop) (s : AS τ)
    (p : Part (Nat → τ)) (R : List PEv) (m : Ev) (rest : List Ev)
    (hp : p.heap.Perm (m :: rest)) (hown : own m.tgt) (sim : PSim own s p R)
    (hnb : (deliver (liftP hE) r p m rest).bad = false) :
    proj m ∈ s.pend ∧ PSim own (astep hE s (proj m)) (deliver (liftP hE) r p m rest) R := by
  have hmem : proj m ∈ s.pend := by
    apply sim.pend.mem_iff.mpr
    simp only [List.map_append, List.mem_append, List.mem_map]
    exact Or.inl (Or.inl ⟨m, hp.mem_iff.mpr (by simp), rfl⟩)
  have hst : s.st m.tgt = p.st m.tgt := sim.st _ hown
  refine ⟨hmem, ?_, ?_⟩
  · intro x hx
    simp only [astep, deliver, liftP_fst]
    show (if x = m.tgt then _ else _) = _
    by_cases h1 : x = m.tgt
    · simp only [h1, if_true]; show (hE (s.st m.tgt) (proj m)).1 = _; rw [hst]
    · simp only [h1, if_false]; exact sim.st x hx
  · have hnb' : (mkEvents m.time p.ctr (liftP hE p.st m).2).any (isBad r) = false := by
      simp only [deliver, Bool.or_eq_false_iff] at hnb
      exact hnb.2
    have hsplit := (split_loc_out r _ hnb').map proj
    have hems : (hE (s.st (proj m).tgt) (proj m)).2 = (liftP hE p.st m).2 := by
      rw [liftP_snd]; show (hE (s.st m.tgt) (proj m)).2 = _; rw [hst]
    have h1 : (s.pend.erase (proj m)).Perm
        (rest.map proj ++ (p.outbox.map (·.1)).map proj ++ R) := by
      have h2 : s.pend.Perm (proj m :: (rest.map proj ++ (p.outbox.map (·.1)).map proj ++ R)) := by
        refine sim.pend.trans ?_
        simp only [List.map_append, List.append_assoc]
        exact ((hp.map proj).append_right _)
      have := h2.erase (proj m)
      simpa using this
    simp only [astep, hems]
    rw [emitAt_eq_proj (proj m).time p.ctr]
    show ((s.pend.erase (proj m)) ++ (mkEvents m.time p.ctr (liftP hE p.st m).2).map proj).Perm _
    refine (h1.append hsplit).trans ?_
    simp only [deliver, List.map_append, map_fst_pair]
    rw [List.perm_iff_count]
    intro a
    simp only [List.count_append]
    omega

/-- **one window is an abstract execution** -/
theorem runWin_sim (hE : EHandler τ) (r : Nat → Route) (own : Nat → Prop)
    (hown : ∀ ev : Ev, r ev.tgt = .loc → own ev.tgt) (b : Nat) (strict : Bool) (we : Nat) :
    ∀ (n : Nat) (p : Part (Nat → τ)) (s : AS τ) (R : List PEv),
      WInv r (fun e => own e.tgt) b p → PSim own s p R →
      (runWin (liftP hE) r strict we n p).bad = false →
      ∃ seg, Valid hE s seg
        ∧ PSim own (arun hE s seg) (runWin (liftP hE) r strict we n p) R
        ∧ (runWin (liftP hE) r strict we n p).log.reverse.map proj = p.log.reverse.map proj ++ seg
        ∧ (∀ d ∈ seg, own d.tgt)
        ∧ (R = [] → (∀ t, r t ≠ .out) → MinFirst hE s seg) := by
  intro n
  induction n with
  | zero =>
    intro p s R _ sim _
    exact ⟨[], trivial, sim, by simp [runWin], by simp, fun _ _ => trivial⟩
  | succ n ih =>
    intro p s R winv sim hnb
    simp only [runWin] at hnb ⊢
    cases hs : stepWin (liftP hE) r strict we p with
    | none => exact ⟨[], trivial, sim, by simp, by simp, fun _ _ => trivial⟩
    | some p1 =>
      simp only [hs] at hnb ⊢
      have winv1 := winv.step (h := liftP hE) hown hs
      obtain ⟨x, xs, hx, _, _, _, hc⟩ := stepWin_cases (liftP hE) r strict we p p1 hs
      have hmem : minOf x xs ∈ p.heap := hx ▸ minOf_mem x xs
      rcases hc with ⟨hlt, _⟩ | ⟨_, rfl⟩
      · have := winv.geClock _ hmem; omega
      · have hb1 : (deliver (liftP hE) r p (minOf x xs) ((x :: xs).erase (minOf x xs))).bad = false := by
          cases hbb : (deliver (liftP hE) r p (minOf x xs) ((x :: xs).erase (minOf x xs))).bad with
          | false => rfl
          | true => rw [runWin_bad_stuck n hbb] at hnb; rw [hbb] at hnb; exact hnb
        have hp : p.heap.Perm (minOf x xs :: (x :: xs).erase (minOf x xs)) := hx ▸ heap_perm_pop x xs
        obtain ⟨hd, sim1⟩ := deliver_sim hE r own s p R _ _ hp (winv.owned _ hmem) sim hb1
        obtain ⟨seg, hv, sim2, hlog, hsegown, hmin⟩ := ih _ _ R winv1 sim1 hnb
        refine ⟨proj (minOf x xs) :: seg, ⟨hd, hv⟩, sim2, ?_, ?_, ?_⟩
        · rw [hlog]; simp [deliver]
        · intro d hd'
          simp only [List.mem_cons] at hd'
          rcases hd' with rfl | hd'
          · exact winv.owned _ hmem
          · exact hsegown d hd'
        · intro hR hno
          refine ⟨?_, hmin hR hno⟩
          intro e he
          have he' := sim.pend.mem_iff.mp he
          have hob : p.outbox = [] := by
            rw [List.eq_nil_iff_forall_not_mem]
            intro y hy
            exact hno _ (winv.out y hy).2.2
          simp only [hR, hob, List.map_nil, List.append_nil, List.mem_map] at he'
          obtain ⟨e0, he0, rfl⟩ := he'
          exact minOf_time_le x xs e0 (hx ▸ he0)

theorem arun_st_other (hE : EHandler τ) (x : Nat) (ds : List PEv) : ∀ s : AS τ,
    (∀ d ∈ ds, d.tgt ≠ x) → (arun hE s ds).st x = s.st x := by
  induction ds with
  | nil => intro s _; rfl
  | cons d ds ih =>
    intro s h
    simp only [arun]
    rw [ih _ (fun e he => h e (by simp [he]))]
    have := h d (by simp)
    simp only [astep]
    rw [if_neg (Ne.symm this)]

theorem MinFirst_append (hE : EHandler τ) (a b : List PEv) : ∀ s : AS τ,
    MinFirst hE s (a ++ b) → MinFirst hE s a := by
  induction a with
  | nil => intro s _; trivial
  | cons d ds ih => intro s h; exact ⟨h.1, ih _ h.2⟩

end HappyModel.C05
