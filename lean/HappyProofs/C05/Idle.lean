import HappyProofs.C05.Coord
import HappyModel.C05.Idle
import HappyModel.C05.Driver
/-!
Idle fast-forward: which barrier moves keep the conservative-synchronisation invariant.

* `idle_skip_safe` — from a safe state the barrier may move to any instant not after the earliest
  pending event, without running a window;
* `idle_window_noop` — a window in which no partition has anything due changes nothing at all, so
  skipping it and executing it are the same;
* `sched_no_time_travel` — every schedule of windows (`b ≤ we ≤ b + w`) and such skips never
  discards an event;
* `idle_skip_round_unsafe` — a skip that rounds the idle stretch to the *nearest* window
  moves the barrier past a pending event, and the very next window discards a cross-partition
  event whose delay equals the link latency.
-/
namespace HappyModel.C05

variable {σ : Type}

/-- **idle_skip_safe** — the barrier can be advanced to any `b'` that is not after any pending
    event: the state is safe at `b'` (no window needs to be run for the skipped stretch). -/
theorem idle_skip_safe (c : Cfg) (b b' : Nat) (ps : List (Part σ)) (safe : Safe c b ps)
    (hb : b ≤ b') (hdue : ∀ p ∈ ps, ∀ e ∈ p.heap, b' ≤ e.time) : Safe c b' ps := by
  constructor
  · intro p hp
    have inv := safe.inv p hp
    refine ⟨inv.geClock, hdue p hp, inv.owned, inv.noTT, ?_⟩
    intro x hx
    simp [safe.outEmpty p hp] at hx
  · intro p hp
    have := safe.clock p hp
    omega
  · exact safe.outEmpty
  · exact safe.good

theorem nextDue_le {ps : List (Part σ)} {d : Nat} (hd : nextDue ps = some d) :
    ∀ p ∈ ps, ∀ e ∈ p.heap, d ≤ e.time := by
  intro p hp e he
  unfold nextDue at hd
  have hmem : e.time ∈ (ps.flatMap (·.heap)).map (·.time) :=
    List.mem_map.mpr ⟨e, List.mem_flatMap.mpr ⟨p, hp, he⟩, rfl⟩
  exact (List.min?_eq_some_iff.mp hd).2 _ hmem

/-- the same with the coordinator's own measurement: any `b' ≤ nextDue` is a sound target -/
theorem idle_skip_nextDue (c : Cfg) (b b' d : Nat) (ps : List (Part σ)) (safe : Safe c b ps)
    (hd : nextDue ps = some d) (hb : b ≤ b') (hle : b' ≤ d) : Safe c b' ps :=
  idle_skip_safe c b b' ps safe hb (fun p hp e he => Nat.le_trans hle (nextDue_le hd p hp e he))

/-- flooring the idle stretch to whole windows never passes the earliest pending event -/
theorem floor_skip_le (b d w : Nat) (hbd : b ≤ d) : b + (d - b) / w * w ≤ d := by
  have := Nat.div_mul_le_self (d - b) w
  omega

theorem runWin_idle (h : Handler σ) (r : Nat → Route) (we : Nat) (p : Part σ)
    (hgt : ∀ e ∈ p.heap, we < e.time) : ∀ n, runWin h r true we n p = p := by
  intro n
  cases n with
  | zero => rfl
  | succ n =>
    have hs : stepWin h r true we p = none := by
      unfold stepWin
      split
      · rfl
      · rename_i x xs hx
        have hm : we < (minOf x xs).time := hgt _ (hx ▸ minOf_mem x xs)
        by_cases hb : p.bad = true
        · simp [hb]
        · by_cases hc : we < p.clock
          · simp [hb, hc]
          · simp [hb, hc, hm]
    simp [runWin, hs]

/-- **idle_window_noop** — a window up to `we` in which every pending event lies after `we` and no
    outbox holds anything leaves every partition exactly as it was: nothing is delivered, sent,
    injected or discarded.  Skipping such a window is indistinguishable from executing it. -/
theorem idle_window_noop (h : Handler σ) (c : Cfg) (fuel we : Nat) (ps : List (Part σ))
    (hout : ∀ p ∈ ps, p.outbox = []) (hidle : ∀ p ∈ ps, ∀ e ∈ p.heap, we < e.time) :
    oneWindow h c true fuel we ps = ps := by
  have hex : execAll h c true fuel we ps = ps := by
    unfold execAll
    conv => rhs; rw [← List.map_id ps]
    apply List.map_congr_left
    intro p hp
    simpa using runWin_idle h (c.route p.pid) we p (hidle p hp) fuel
  have hmsgs : allMsgs ps = [] := by
    simp only [allMsgs, List.flatMap_eq_nil_iff]
    intro p hp
    simp [msgsOf, hout p hp]
  unfold oneWindow exchange
  rw [hex, hmsgs]
  conv => rhs; rw [← List.map_id ps]
  apply List.map_congr_left
  intro p hp
  have := hout p hp
  cases p
  simp_all [inject]

/-- a schedule is admissible when every window ends within one window size of the barrier and
    passes the coordinator's own checks, and every skip stays at or before every pending event -/
def SchedOk (h : Handler σ) (c : Cfg) (fuel w : Nat) : List Act → Nat × List (Part σ) → Prop
  | [], _ => True
  | .win we :: as, s =>
      s.1 ≤ we ∧ we ≤ s.1 + w ∧ WindowOk h c fuel we s.2 ∧
        SchedOk h c fuel w as (we, oneWindow h c true fuel we s.2)
  | .skip b' :: as, s =>
      s.1 ≤ b' ∧ (∀ p ∈ s.2, ∀ e ∈ p.heap, b' ≤ e.time) ∧ SchedOk h c fuel w as (b', s.2)

theorem sched_safe (h : Handler σ) (c : Cfg) (fuel w : Nat) (hw : WindowLeLat c w) :
    ∀ (as : List Act) (s : Nat × List (Part σ)), Safe c s.1 s.2 → SchedOk h c fuel w as s →
      Safe c (schedRun h c true fuel as s).1 (schedRun h c true fuel as s).2 := by
  intro as
  induction as with
  | nil => intro s safe _; simpa [schedRun] using safe
  | cons a as ih =>
    intro s safe ok
    cases a with
    | win we =>
      obtain ⟨hb, hle, wok, rest⟩ := ok
      simp only [schedRun]
      exact ih _ (oneWindow_safe h c fuel s.1 we w s.2 hw hb hle safe wok.good wok.halt wok.lat).2 rest
    | skip b' =>
      obtain ⟨hb, hdue, rest⟩ := ok
      simp only [schedRun]
      exact ih _ (idle_skip_safe c s.1 b' s.2 safe hb hdue) rest

/-- **sched_no_time_travel** — for every handler, configuration, window `w` not larger than any
    link latency and every admissible schedule of windows and idle skips (any number of either, in
    any order) from a safe state: no partition ever discards an event as being in the past. -/
theorem sched_no_time_travel (h : Handler σ) (c : Cfg) (fuel w : Nat) (hw : WindowLeLat c w)
    (as : List Act) (b : Nat) (ps : List (Part σ)) (safe : Safe c b ps)
    (ok : SchedOk h c fuel w as (b, ps)) :
    ∀ p ∈ (schedRun h c true fuel as (b, ps)).2, p.tt = [] :=
  (sched_safe h c fuel w hw as (b, ps) safe ok).noTT

/-! ## rounding the idle stretch to the nearest window is not sound -/

/-- node a (partition 0) handles `go` at 560 and sends to node b (partition 1) with delay 100 =
    link latency = window; node b has a local `tick` at 670.  Everything is idle before 560. -/
def idleCfg : Cfg := { partOf := #[0, 1], nparts := 2, links := [⟨0, 1, 100⟩] }
def idleProg : List (Nat × Nat × Emit) := [(0, 0, ⟨100, 1, 1⟩)]
def idleParts : List (Part Unit) :=
  [Part.init 0 0 () [⟨560, 0, 0, 0⟩], Part.init 1 0 () [⟨670, 1, 1, 2⟩]]

/-- **idle_skip_round_unsafe** — at barrier 100 the earliest pending event is at 560; rounding the
    idle stretch 460 to the nearest multiple of the window gives 5 windows, i.e. barrier 600 > 560
    (flooring gives 500 ≤ 560).  With the rounded skip the next window `(600, 700]` runs the sender
    at 560 and the destination's tick at 670 together, and the message due at 660 is discarded;
    with the floored skip (or none) it is delivered. -/
theorem idle_skip_round_unsafe :
    nextDue idleParts = some 560
    ∧ 100 + roundDiv (560 - 100) 100 * 100 = 600
    ∧ 100 + (560 - 100) / 100 * 100 = 500
    ∧ ((schedRun (Driver.scriptHandler idleProg) idleCfg true 10
          [.win 100, .skip 600, .win 700, .win 800] (0, idleParts)).2.map (·.tt.length)) = [0, 1]
    ∧ ((schedRun (Driver.scriptHandler idleProg) idleCfg true 10
          [.win 100, .skip 500, .win 600, .win 700, .win 800] (0, idleParts)).2.map (·.tt.length)) = [0, 0]
    ∧ ((schedRun (Driver.scriptHandler idleProg) idleCfg true 10
          [.win 100, .skip 500, .win 600, .win 700, .win 800] (0, idleParts)).2.map (·.log.length)) = [1, 2] := by
  decide

/-! ## non-vacuity -/

/-- the idle witness state is safe, and the floored schedule is admissible: every hypothesis of
    `sched_no_time_travel` holds on a run with a real skip and a real cross-partition message -/
example : Safe idleCfg 0 idleParts ∧ WindowLeLat idleCfg 100 := by
  refine ⟨Safe.init _ 0 _ ?_ ?_ ?_ ?_, ?_⟩ <;> simp [idleParts, idleCfg, Part.init, WindowLeLat, Cfg.part]

/-- hypotheses of `idle_window_noop` / `idle_skip_safe` on the witness: first window idle, skip to 500 sound -/
example :
    (∀ p ∈ idleParts, p.outbox = []) ∧ (∀ p ∈ idleParts, ∀ e ∈ p.heap, 100 < e.time)
    ∧ (∀ p ∈ idleParts, ∀ e ∈ p.heap, 500 ≤ e.time) := by
  simp [idleParts, Part.init]

end HappyModel.C05
