import HappyProofs.C05.Potential
/-!
System level: the sum of the partitions' potentials is invariant under EXECUTE (each window) and
EXCHANGE (conservation), hence under the whole coordinator loop; at the end nothing with
`time ≤ T` is pending, so what was delivered up to `T` is `flatMap tree` of the initial events —
the same multiset the sequential engine delivers.
-/
namespace HappyModel.C05

variable {σ : Type} {em : PEv → List Emit} {rank : PEv → Nat} {T : Nat}

def sysPot (em : PEv → List Emit) (rank : PEv → Nat) (T : Nat) (ps : List (Part σ)) : List PEv :=
  ps.flatMap (pot em rank T)

def sysLog (T : Nat) (ps : List (Part σ)) : List PEv := ps.flatMap (logPart T)

def sysPend (ps : List (Part σ)) : List Ev := ps.flatMap (fun p => p.heap ++ p.outbox.map (·.1))

theorem flatMap_perm_pointwise {α β} {l : List α} {f g : α → List β}
    (h : ∀ a ∈ l, (f a).Perm (g a)) : (l.flatMap f).Perm (l.flatMap g) := by
  induction l with
  | nil => simp
  | cons a l ih =>
    simp only [List.flatMap_cons]
    exact (h a (by simp)).append (ih (fun b hb => h b (by simp [hb])))

theorem F_flatMap (g : Part σ → List Ev) (ps : List (Part σ)) :
    ps.flatMap (fun p => F em rank T (g p)) = F em rank T (ps.flatMap g) := by
  induction ps with
  | nil => simp [F]
  | cons p ps ih => simp [List.flatMap_cons, F_append, ih]

theorem sysPot_split (ps : List (Part σ)) :
    (sysPot em rank T ps).Perm (sysLog T ps ++ F em rank T (sysPend ps)) := by
  unfold sysPot sysLog sysPend
  rw [← F_flatMap]
  have : (fun p : Part σ => pot em rank T p)
      = fun p => logPart T p ++ F em rank T (p.heap ++ p.outbox.map (·.1)) := by
    funext p; simp [pot, F_append]
  show (ps.flatMap (fun p => pot em rank T p)).Perm _
  rw [this]
  exact flatMap_append_fun ps _ _

theorem sysLog_exchange (c : Cfg) (ps : List (Part σ)) : sysLog T (exchange c ps) = sysLog T ps := by
  unfold sysLog exchange
  generalize allMsgs ps = msgs
  induction ps with
  | nil => rfl
  | cons p ps ih => simp [List.flatMap_cons, inject, logPart, ih]

theorem outbox_flat_eq (ps : List (Part σ)) :
    ps.flatMap (fun p => p.outbox.map (·.1)) = (allMsgs ps).map (·.ev) := by
  induction ps with
  | nil => rfl
  | cons p ps ih =>
    simp only [List.flatMap_cons, allMsgs, List.map_append] at ih ⊢
    rw [ih]
    simp [msgsOf, List.map_map, Function.comp]

theorem sysPend_inject (c : Cfg) (msgs : List Msg) (ps : List (Part σ)) :
    sysPend (ps.map (inject c msgs)) = (ps.map (inject c msgs)).flatMap (·.heap) := by
  unfold sysPend
  induction ps with
  | nil => rfl
  | cons p ps ih => simp [List.flatMap_cons, inject, ih]

theorem sysPend_exchange (c : Cfg) (ps : List (Part σ)) (hn : (ps.map (·.pid)).Nodup)
    (hd : ∀ m ∈ allMsgs ps, c.dest m ∈ ps.map (·.pid)) :
    (sysPend (exchange c ps)).Perm (sysPend ps) := by
  have h1 : sysPend (exchange c ps) = (exchange c ps).flatMap (·.heap) := sysPend_inject c _ ps
  rw [h1]
  refine (exchange_heaps_perm c ps hn hd).trans ?_
  unfold sysPend
  rw [← outbox_flat_eq]
  exact (flatMap_append_fun ps _ _).symm

theorem sysPot_exchange (c : Cfg) (ps : List (Part σ)) (hn : (ps.map (·.pid)).Nodup)
    (hd : ∀ m ∈ allMsgs ps, c.dest m ∈ ps.map (·.pid)) :
    (sysPot em rank T (exchange c ps)).Perm (sysPot em rank T ps) := by
  refine (sysPot_split _).trans (List.Perm.trans ?_ (sysPot_split ps).symm)
  rw [sysLog_exchange]
  exact List.Perm.append (List.Perm.refl _) (F_perm em rank T (sysPend_exchange c ps hn hd))

/-! ### the system invariant between coordinator iterations -/

structure SInv (em : PEv → List Emit) (rank : PEv → Nat) (T : Nat) (c : Cfg) (ids : List Nat)
    (P0 : List PEv) (b : Nat) (ps : List (Part σ)) : Prop where
  safe : Safe c b ps
  logOwned : ∀ p ∈ ps, ∀ d ∈ p.log, Owns c p.pid d
  pot : (sysPot em rank T ps).Perm P0
  pids : ps.map (·.pid) = ids

theorem route_out_dest {c : Cfg} {i t : Nat} (h : c.route i t = .out) :
    ∃ l ∈ c.links, l.dst = c.part t := by
  unfold Cfg.route at h
  split at h
  · simp at h
  · split at h
    · rename_i hl
      simp only [Cfg.linked, List.any_eq_true, Bool.and_eq_true, beq_iff_eq] at hl
      obtain ⟨l, hm, _, hd⟩ := hl
      exact ⟨l, hm, hd⟩
    · simp at h

theorem SInv.window {h : Handler σ} {c : Cfg} {ids : List Nat} {P0 : List PEv} {fuel b we w : Nat}
    {ps : List (Part σ)} (hr : Ranked em rank) (hed : EventDetermined h em)
    (hids : ids.Nodup) (hlinks : ∀ l ∈ c.links, l.dst ∈ ids)
    (hw : WindowLeLat c w) (hb : b ≤ we) (hwe : we ≤ b + w)
    (inv : SInv em rank T c ids P0 b ps) (ok : WindowOk h c fuel we ps) :
    SInv em rank T c ids P0 we (oneWindow h c true fuel we ps) := by
  have hsafe := (oneWindow_safe h c fuel b we w ps hw hb hwe inv.safe ok.good ok.halt ok.lat).2
  -- per-partition facts after the window
  have hpin : ∀ q ∈ ps, PInv em rank T (c.route q.pid) (Owns c q.pid) b q
      (runWin h (c.route q.pid) true we fuel q) := fun q hq =>
    PInv.run hr hed (route_loc_owns c q.pid) fuel (PInv.refl (inv.safe.inv q hq) (inv.logOwned q hq))
  have hranpids : (execAll h c true fuel we ps).map (·.pid) = ids := by
    rw [execAll_pids]; exact inv.pids
  have hdest : ∀ m ∈ allMsgs (execAll h c true fuel we ps),
      c.dest m ∈ (execAll h c true fuel we ps).map (·.pid) := by
    intro m hm
    rw [hranpids]
    obtain ⟨q', hq', x, hx, rfl⟩ := mem_allMsgs hm
    simp only [execAll, List.mem_map] at hq'
    obtain ⟨q, hq, rfl⟩ := hq'
    have := ((hpin q hq).w.out x hx).2.2
    obtain ⟨l, hl, hd⟩ := route_out_dest this
    simpa [Cfg.dest, hd] using hlinks l hl
  refine ⟨hsafe, ?_, ?_, ?_⟩
  · intro p hp d hd
    simp only [oneWindow, exchange, execAll, List.mem_map] at hp
    obtain ⟨q', ⟨q, hq, rfl⟩, rfl⟩ := hp
    have := (hpin q hq).logOwned d (by simpa [inject] using hd)
    simpa [inject, runWin_pid] using this
  · refine (sysPot_exchange c _ (hranpids ▸ hids) hdest).trans (List.Perm.trans ?_ inv.pot)
    unfold sysPot execAll
    rw [List.flatMap_map]
    apply flatMap_perm_pointwise
    intro q hq
    exact (hpin q hq).pot (ok.good _ (by simp only [execAll, List.mem_map]; exact ⟨q, hq, rfl⟩))
  · simp only [oneWindow]
    rw [exchange_pids]; exact hranpids

end HappyModel.C05
