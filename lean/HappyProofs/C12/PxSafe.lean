import HappyProofs.C12.PxPick
namespace HappyModel.C12.Px

/-- The heart of Paxos: a value computed from a quorum of promises for `b` is safe at `b`. -/
theorem safe_from_quorum {s : St} (n1 : Net1 s) (sem : Sem s) (b : Nat)
    (hnone : s.started2 b = none) (hq : s.cfg.q1 ≤ (s.p1 b).length) :
    SafeAt s b (phase2Val s b) := by
  classical
  intro c hc
  obtain ⟨hnd, hfacts⟩ := n1.p1 b
  -- facts about every promiser
  have hmem : ∀ a ∈ (s.p1 b).map (·.1), ∃ r, (a, r) ∈ s.p1 b := by
    intro a ha
    obtain ⟨⟨a', r⟩, hx, rfl⟩ := List.mem_map.mp ha
    exact ⟨r, hx⟩
  have noVoteAtB : ∀ a v', ¬ Voted s a b v' := by
    intro a v' hv; have := sem.one a b v' hv; rw [hnone] at this; cases this
  cases hpick : pickVal (s.p1 b) none with
  | none =>
    obtain ⟨_, hall⟩ := pickVal_none hpick
    refine ⟨(s.p1 b).map (·.1), hnd, ?_, by simpa using hq⟩
    intro a ha
    obtain ⟨r, har⟩ := hmem a ha
    obtain ⟨han, hpr⟩ := hfacts a r har
    obtain ⟨_, ⟨q, hq1, hq2⟩, c3, _⟩ := sem.pr a b r hpr
    have hrn : r = none := hall a r har
    refine ⟨han, Or.inr ⟨?_, q, hq1, by omega⟩⟩
    intro v' hv'
    obtain ⟨bm, vm, hr, _⟩ := c3 c v' hv' hc
    rw [hrn] at hr; cases hr
  | some bv =>
    obtain ⟨bm, vm⟩ := bv
    have hval : phase2Val s b = vm := by unfold phase2Val; rw [hpick]
    rw [hval]
    obtain ⟨hwit, hmax, _⟩ := pickVal_some hpick
    have ⟨f0, hf0⟩ : ∃ f, (f, some (bm, vm)) ∈ s.p1 b := by
      rcases hwit with h | h
      · exact h
      · cases h
    obtain ⟨_, hpr0⟩ := hfacts f0 _ hf0
    obtain ⟨_, _, _, c40⟩ := sem.pr f0 b _ hpr0
    obtain ⟨hv0, hbmle⟩ := c40 bm vm rfl
    have hbmlt : bm < b := by
      rcases Nat.lt_or_ge bm b with h | h
      · exact h
      · have : bm = b := by omega
        subst this; exact absurd hv0 (noVoteAtB f0 vm)
    have hstm : s.started2 bm = some vm := sem.one f0 bm vm hv0
    rcases Nat.lt_trichotomy c bm with hlt | heq | hgt
    · -- below the reported ballot: inherited from SafeAt bm vm
      exact sem.safe bm vm hstm c hlt
    · subst heq
      refine ⟨(s.p1 b).map (·.1), hnd, ?_, by simpa using hq⟩
      intro a ha
      obtain ⟨r, har⟩ := hmem a ha
      obtain ⟨han, hpr⟩ := hfacts a r har
      obtain ⟨_, ⟨q, hq1, hq2⟩, _, _⟩ := sem.pr a b r hpr
      refine ⟨han, ?_⟩
      by_cases hex : ∃ v', Voted s a c v'
      · obtain ⟨v', hv'⟩ := hex
        have := sem.one a c v' hv'
        rw [hstm] at this; cases this
        exact Or.inl hv'
      · exact Or.inr ⟨fun v' hv' => hex ⟨v', hv'⟩, q, hq1, by omega⟩
    · refine ⟨(s.p1 b).map (·.1), hnd, ?_, by simpa using hq⟩
      intro a ha
      obtain ⟨r, har⟩ := hmem a ha
      obtain ⟨han, hpr⟩ := hfacts a r har
      obtain ⟨_, ⟨q, hq1, hq2⟩, c3, _⟩ := sem.pr a b r hpr
      refine ⟨han, Or.inr ⟨?_, q, hq1, by omega⟩⟩
      intro v' hv'
      obtain ⟨bm', vm', hr, hle⟩ := c3 c v' hv' hc
      subst hr
      have := hmax a bm' vm' har
      omega

end HappyModel.C12.Px
