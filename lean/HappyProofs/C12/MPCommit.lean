import HappyModel.C12.MPObs
/-!
# C12 — Multi-Paxos / Flexible Paxos: the leader commits a slot only on a phase-2 quorum

For **every** action list (any cluster size, any `q1`, `q2`, any interleaving, duplication or loss of
messages) the observations of a run of the model `MP.step` satisfy `Spec.commitQuorum q2`: whenever
an `Accepted` delivery raises the receiver's commit index, at least `q2` acknowledgements for that
slot exist (the receiver's own entry plus the `Accepted` messages delivered to it).  Phase 1 uses
`q1`, the commit uses `q2` — a node that commits on `q1` acknowledgements does not satisfy the clause
(`MP.commit_on_phase1_quorum_violates_spec` in Props.lean).

The invariant: the per-slot counter `_slot_acks[slot]` of node `p` never exceeds
`1 + #(Accepted for slot delivered to p)`.
-/
namespace HappyModel.C12.MP
open HappyModel.C12.Spec

/-! ### `lookup` / `setKV` -/

theorem lookup_filter_ne (l : List (Nat × Nat)) (k k' : Nat) (h : k' ≠ k) :
    lookup (l.filter (·.1 != k)) k' = lookup l k' := by
  unfold lookup
  induction l with
  | nil => rfl
  | cons x xs ih =>
    simp only [List.filter_cons]
    by_cases hx : x.1 = k
    · have h1 : (x.1 != k) = false := by simp [hx]
      have h2 : (x.1 == k') = false := by
        simp only [beq_eq_false_iff_ne, ne_eq]; omega
      rw [h1]
      simp only [Bool.false_eq_true, if_false, List.find?_cons, h2]
      exact ih
    · have h1 : (x.1 != k) = true := by simp [hx]
      rw [h1]
      simp only [if_true, List.find?_cons]
      cases hk : (x.1 == k') with
      | true => rfl
      | false => exact ih

def ackOf (nd : Node) (k : Nat) : Nat := (lookup nd.acks k).getD 0

theorem getD_lookup_setKV (l : List (Nat × Nat)) (k v k' : Nat) :
    (lookup (setKV l k v) k').getD 0 = if k' = k then v else (lookup l k').getD 0 := by
  by_cases h : k' = k
  · subst h
    simp [lookup, setKV]
  · simp only [h, if_false]
    have h2 : (k == k') = false := by
      simp only [beq_eq_false_iff_ne, ne_eq]; omega
    have : lookup (setKV l k v) k' = lookup (l.filter (·.1 != k)) k' := by
      simp [lookup, setKV, h2]
    rw [this, lookup_filter_ne l k k' h]

/-- every per-slot counter of the node is bounded by `B` -/
def AcksLe (B : Nat → Nat) (nd : Node) : Prop := ∀ k, ackOf nd k ≤ B k

theorem acksLe_congr {B : Nat → Nat} {nd nd' : Node} (hle : AcksLe B nd) (h : nd'.acks = nd.acks) :
    AcksLe B nd' := by
  intro k; have := hle k; unfold ackOf at *; rw [h]; exact this

theorem assignSlots_acksLe (n : Nat) (B : Nat → Nat) (hB : ∀ k, 1 ≤ B k) :
    ∀ (l : List (Nat × Nat)) (nd : Node), AcksLe B nd → AcksLe B (assignSlots n nd l) := by
  intro l
  induction l with
  | nil => intro nd h; exact h
  | cons x xs ih =>
    intro nd h
    obtain ⟨c, f⟩ := x
    simp only [assignSlots]
    apply ih
    intro k
    simp only [ackOf, getD_lookup_setKV]
    split
    · exact hB k
    · exact h k

theorem applyFrom_acks : ∀ (es : List Entry) (nd : Node) (idx : Nat), (applyFrom nd idx es).1.acks = nd.acks := by
  intro es
  induction es with
  | nil => intro nd idx; rfl
  | cons e es ih =>
    intro nd idx
    simp only [applyFrom]
    split
    · rw [ih]
    · rw [ih]

theorem advanceCommit_acks (nd : Node) (c : Nat) : (advanceCommit nd c).1.acks = nd.acks := by
  unfold advanceCommit
  split
  · rfl
  · simp only [applyFrom_acks]

theorem becomeLeader_acksLe (s : St) (p : Nat) (nd : Node) (B : Nat → Nat) (hB : ∀ k, 1 ≤ B k)
    (h : AcksLe B nd) : AcksLe B (becomeLeader s p nd).1 := by
  have h1 : AcksLe B { nd with isLeader := true, leader := some p } := acksLe_congr h rfl
  have h2 := assignSlots_acksLe s.n B hB nd.pending _ h1
  exact acksLe_congr h2 rfl

/-! ### `getNode` / `setNode` -/

theorem getNode_setNode_ne (s : St) (p i : Nat) (x : Node) (h : i ≠ p) :
    getNode (setNode s p x) i = getNode s i := by
  simp only [getNode, setNode, List.getD_eq_getElem?_getD]
  rw [List.getElem?_set_ne (by omega)]

theorem getNode_setNode_self (s : St) (p : Nat) (x : Node) :
    getNode (setNode s p x) p = x ∨ getNode (setNode s p x) p = getNode s p := by
  by_cases h : p < s.nodes.length
  · left
    simp [getNode, setNode, List.getD_eq_getElem?_getD, h]
  · right
    have : s.nodes.set p x = s.nodes := List.set_eq_of_length_le (by omega)
    simp [getNode, setNode, this]

/-- all nodes of the state are bounded by `B` -/
def InvB (s : St) (B : Nat → Nat → Nat) : Prop := ∀ i, AcksLe (B i) (getNode s i)

theorem invB_setNode {s : St} {B : Nat → Nat → Nat} (p : Nat) (x : Node) (h : InvB s B)
    (hx : AcksLe (B p) x) : InvB (setNode s p x) B := by
  intro i
  by_cases hi : i = p
  · subst hi
    rcases getNode_setNode_self s i x with e | e
    · rw [e]; exact hx
    · rw [e]; exact h i
  · rw [getNode_setNode_ne s p i x hi]; exact h i

theorem invB_nodes {s s' : St} {B : Nat → Nat → Nat} (e : s'.nodes = s.nodes) (h : InvB s B) : InvB s' B := by
  intro i
  have : getNode s' i = getNode s i := by simp [getNode, e]
  rw [this]; exact h i

/-! ### every handler except `Accepted` keeps the counters below any bound `≥ 1` -/

theorem step_invB_other (s : St) (a : Act) (B : Nat → Nat → Nat) (hB : ∀ i k, 1 ≤ B i k)
    (hna : ∀ p slot, a ≠ .accepted p slot) (h : InvB s B) : InvB (step s a).1 B := by
  cases a with
  | start p =>
    simp only [step]
    split
    · exact invB_setNode p _ h (becomeLeader_acksLe s p _ (B p) (hB p) (acksLe_congr (h p) rfl))
    · exact invB_setNode p _ h (acksLe_congr (h p) rfl)
  | submit p c =>
    simp only [step]
    split
    · refine invB_setNode p _ (invB_nodes (s := s) rfl h) ?_
      exact assignSlots_acksLe s.n (B p) (hB p) _ _ (h p)
    · refine invB_setNode p _ (invB_nodes (s := s) rfl h) ?_
      exact acksLe_congr (h p) rfl
  | prepare d b =>
    simp only [step]
    split
    · exact h
    · exact invB_setNode d _ h (acksLe_congr (h d) rfl)
  | promise p bnum =>
    simp only [step]
    split
    · exact h
    · split
      · refine invB_setNode p _ h (becomeLeader_acksLe s p _ (B p) (hB p) ?_)
        exact acksLe_congr (h p) rfl
      · exact invB_setNode p _ h (acksLe_congr (h p) rfl)
  | accept d src b slot cmd ci =>
    simp only [step]
    split
    · exact h
    · refine invB_nodes (s := setNode s d _) rfl (invB_setNode d _ h ?_)
      refine acksLe_congr ?_ (advanceCommit_acks _ _)
      split
      · exact acksLe_congr (h d) rfl
      · split
        · split
          · exact acksLe_congr (h d) rfl
          · exact acksLe_congr (h d) rfl
        · exact acksLe_congr (h d) rfl
  | accepted p slot => exact absurd rfl (hna p slot)
  | hb d b ci =>
    simp only [step]
    split
    · refine invB_nodes (s := setNode s d _) rfl (invB_setNode d _ h ?_)
      exact acksLe_congr (acksLe_congr (h d) rfl) (advanceCommit_acks _ _)
    · exact h
  | selfhb p b ci =>
    simp only [step]
    split
    · split <;> exact h
    · split
      · refine invB_nodes (s := setNode s p _) rfl (invB_setNode p _ h ?_)
        exact acksLe_congr (acksLe_congr (h p) rfl) (advanceCommit_acks _ _)
      · exact h
  | nack p b =>
    simp only [step]
    split
    · exact invB_setNode p _ h (acksLe_congr (h p) rfl)
    · exact h

theorem step_q2 (s : St) (a : Act) : (step s a).1.q2 = s.q2 := by
  cases a <;> simp only [step] <;> (repeat' split) <;> rfl

/-! ### observations -/

def notAck : LogObs → Bool
  | .ack _ _ _ _ _ _ => false
  | _ => true

theorem ackCnt_append_notAck (l hist : List LogObs) (hl : ∀ o ∈ l, notAck o = true) (p k : Nat) :
    ackCnt (l.reverse ++ hist) p k = ackCnt hist p k := by
  unfold ackCnt
  rw [List.countP_append, List.countP_reverse]
  have : List.countP (isAck p k) l = 0 := by
    rw [List.countP_eq_zero]
    intro o ho
    have := hl o ho
    cases o <;> simp_all [notAck, isAck]
  omega

/-- a clause that holds of every observation of the list, whatever came before -/
theorem checkAll_of_forall (ok : List LogObs → LogObs → Bool) : ∀ (l hist : List LogObs),
    (∀ o ∈ l, ∀ h, ok h o = true) → checkAll ok hist l = true := by
  intro l
  induction l with
  | nil => intro _ _; rfl
  | cons o os ih =>
    intro hist hl
    simp only [checkAll, Bool.and_eq_true]
    exact ⟨hl o List.mem_cons_self hist, ih _ (fun o' ho' => hl o' (List.mem_cons_of_mem _ ho'))⟩

theorem checkAll_append (ok : List LogObs → LogObs → Bool) : ∀ (l1 l2 hist : List LogObs),
    checkAll ok hist (l1 ++ l2) = (checkAll ok hist l1 && checkAll ok (l1.reverse ++ hist) l2) := by
  intro l1
  induction l1 with
  | nil => intro l2 hist; simp [checkAll]
  | cons o os ih =>
    intro l2 hist
    simp only [List.cons_append, checkAll, ih, List.reverse_cons, List.append_assoc,
      List.nil_append, Bool.and_assoc, List.singleton_append]

theorem commitQuorum_notAck (q2 : Nat) (l hist : List LogObs) (hl : ∀ o ∈ l, notAck o = true) :
    commitQuorum q2 hist l = true := by
  apply checkAll_of_forall
  intro o ho h
  have := hl o ho
  cases o <;> simp_all [notAck, commitAcksOk]

theorem propOf_notAck (p : Nat) (ms : List Msg) : ∀ o ∈ ms.filterMap (propOf p), notAck o = true := by
  intro o ho
  simp only [List.mem_filterMap] at ho
  obtain ⟨m, _, hm⟩ := ho
  cases m with
  | accept d b slot cmd ci => simp only [propOf, Option.some.injEq] at hm; subst hm; rfl
  | _ => simp [propOf] at hm

theorem pcarsOf_mem (dst b : Nat) : ∀ (es : List Entry) (k : Nat) (o : LogObs),
    o ∈ pcarsOf dst b k es → ∃ k' c, o = .pcar dst b k' c := by
  intro es
  induction es with
  | nil => intro k o ho; cases ho
  | cons e es ih =>
    intro k o ho
    simp only [pcarsOf, List.mem_cons] at ho
    rcases ho with rfl | ho
    · exact ⟨k, e.cmd, rfl⟩
    · exact ih _ o ho

theorem obsStep_notAck (s : St) (a : Act) (hna : ∀ p slot, a ≠ .accepted p slot) :
    ∀ o ∈ obsStep s a, notAck o = true := by
  intro o ho
  cases a with
  | accepted p slot => exact absurd rfl (hna p slot)
  | accept d src b slot cmd ci =>
    simp only [obsStep] at ho
    split at ho
    · cases ho
    · simp only [List.mem_singleton] at ho; subst ho; rfl
  | start p =>
    simp only [obsStep, List.mem_cons] at ho
    rcases ho with rfl | ho
    · rfl
    · exact propOf_notAck _ _ o ho
  | promise p bn =>
    simp only [obsStep, List.mem_cons] at ho
    rcases ho with rfl | ho
    · rfl
    · exact propOf_notAck _ _ o ho
  | prepare d b =>
    simp only [obsStep] at ho
    split at ho
    · cases ho
    · simp only [List.mem_cons] at ho
      rcases ho with rfl | ho
      · rfl
      · obtain ⟨k', c, rfl⟩ := pcarsOf_mem _ _ _ _ o ho; rfl
  | submit p c =>
    simp only [obsStep] at ho
    split at ho
    · simp only [List.mem_singleton] at ho; subst ho; rfl
    · cases ho
  | _ =>
    simp only [obsStep] at ho
    exact propOf_notAck _ _ o ho

/-- the invariant tying the model's counters to the observed history -/
def Inv (s : St) (hist : List LogObs) : Prop := InvB s (fun p k => 1 + ackCnt hist p k)

theorem init_inv (n q1 q2 : Nat) (flex : Bool) : Inv (init n q1 q2 flex) [] := by
  intro i k
  simp only [ackOf, getNode, init, List.getD_eq_getElem?_getD]
  cases h : ((List.range n).map fun i => ({ ballot := i } : Node))[i]? with
  | none => simp [lookup]
  | some nd =>
    have := List.mem_of_getElem? h
    simp only [List.mem_map] at this
    obtain ⟨j, _, rfl⟩ := this
    simp [lookup]

theorem step_inv (s : St) (a : Act) (hist : List LogObs) (h : Inv s hist) :
    commitQuorum s.q2 hist (obsStep s a) = true ∧ Inv (step s a).1 ((obsStep s a).reverse ++ hist) := by
  by_cases hacc : ∃ p slot, a = .accepted p slot
  · obtain ⟨p, slot, rfl⟩ := hacc
    -- the counter after this delivery
    have hk : ackOf (getNode s p) slot ≤ 1 + ackCnt hist p slot := h p slot
    simp only [ackOf] at hk
    -- new history: one more ack for (p, slot)
    have hcnt : ∀ i k, ackCnt ((obsStep s (.accepted p slot)).reverse ++ hist) i k =
        ackCnt hist i k + (if i = p ∧ k = slot then 1 else 0) := by
      intro i k
      simp only [obsStep, List.reverse_cons, List.reverse_nil, List.nil_append, List.singleton_append, ackCnt,
        List.countP_cons, isAck]
      by_cases hi : i = p <;> by_cases hs : k = slot <;> simp [hi, hs] <;> omega
    constructor
    · -- the observation is fine
      simp only [obsStep, commitQuorum, checkAll, commitAcksOk, Bool.and_true, Bool.or_eq_true, decide_eq_true_eq]
      simp only [step]
      split
      · rename_i hc
        right
        have := hc.1
        omega
      · left
        rcases getNode_setNode_self s p { getNode s p with acks := setKV (getNode s p).acks slot ((lookup (getNode s p).acks slot).getD 0 + 1) } with e | e
        · rw [e]; exact Nat.le_refl _
        · rw [e]; exact Nat.le_refl _
    · -- the counters stay below the history
      have hx : AcksLe (fun k => 1 + ackCnt ((obsStep s (.accepted p slot)).reverse ++ hist) p k)
          { getNode s p with acks := setKV (getNode s p).acks slot ((lookup (getNode s p).acks slot).getD 0 + 1) } := by
        intro k
        simp only [ackOf, getD_lookup_setKV, hcnt]
        split
        · rename_i hks; subst hks; simp; omega
        · have : ackOf (getNode s p) k ≤ 1 + ackCnt hist p k := h p k
          simp only [ackOf] at this; omega
      have hrest : InvB s (fun i k => 1 + ackCnt ((obsStep s (.accepted p slot)).reverse ++ hist) i k) := by
        intro i k
        have : ackOf (getNode s i) k ≤ 1 + ackCnt hist i k := h i k
        simp only [hcnt]
        omega
      unfold Inv
      simp only [step]
      split
      · refine invB_nodes (s := setNode s p _) rfl (invB_setNode p _ hrest ?_)
        exact acksLe_congr hx (advanceCommit_acks _ _)
      · exact invB_setNode p _ hrest hx
  · have hna : ∀ p slot, a ≠ .accepted p slot := fun p slot e => hacc ⟨p, slot, e⟩
    have hno := obsStep_notAck s a hna
    refine ⟨commitQuorum_notAck _ _ _ hno, ?_⟩
    unfold Inv
    have e : (fun p k => 1 + ackCnt ((obsStep s a).reverse ++ hist) p k) = (fun p k => 1 + ackCnt hist p k) := by
      funext p k; rw [ackCnt_append_notAck _ _ hno]
    rw [e]
    exact step_invB_other s a _ (fun _ _ => by omega) hna h

theorem run_commitQuorum : ∀ (as : List Act) (s : St) (hist : List LogObs), Inv s hist →
    commitQuorum s.q2 hist (obsRun s as) = true := by
  intro as
  induction as with
  | nil => intro s hist _; rfl
  | cons a as ih =>
    intro s hist h
    obtain ⟨h1, h2⟩ := step_inv s a hist h
    have := ih (step s a).1 _ h2
    rw [step_q2] at this
    unfold commitQuorum at *
    simp only [obsRun, checkAll_append, Bool.and_eq_true]
    exact ⟨h1, this⟩

end HappyModel.C12.MP
