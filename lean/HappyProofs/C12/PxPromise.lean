import HappyProofs.C12.PxStepE
import HappyModel.C12.Spec
/-!
# C12 — phase-1 reports: a promise names the acceptor's highest accepted proposal

`Spec.promiseCovers` / `Spec.promiseReal` evaluated on the model's own history variables (`votes`: every
(acceptor, ballot, value) ever accepted, self-accepts included; `proms`: every (acceptor, ballot, reported)
ever promised, self-promises included) hold after every action sequence — for every value, in particular
for values the implementation language treats as false (the model's values are opaque naturals).  The judge
evaluates the same predicates on the messages seen on the network, with a lower bound of the votes for
`promiseCovers` and an upper bound for `promiseReal`; both are monotone in the right direction.
-/
namespace HappyModel.C12
open Px

theorem promiseCovers_of_sem {s : St} (sem : Sem s) {p : Spec.Prom} (hp : p ∈ s.proms) :
    Spec.promiseCovers s.votes p = true := by
  obtain ⟨f, b, r⟩ := p
  obtain ⟨_, _, h3, _⟩ := sem.pr f b r hp
  simp only [Spec.promiseCovers, List.all_eq_true]
  intro w hw
  obtain ⟨a, b', v'⟩ := w
  by_cases hc : a = f ∧ b' < b
  · obtain ⟨rfl, hlt⟩ := hc
    obtain ⟨bm, vm, hr, hle⟩ := h3 b' v' hw hlt
    subst hr
    simp [hle]
  · have : (a == f && decide (b' < b)) = false := by
      cases h : (a == f && decide (b' < b))
      · rfl
      · simp only [Bool.and_eq_true, beq_iff_eq, decide_eq_true_eq] at h; exact absurd h hc
    simp [this]

theorem promiseReal_of_sem {s : St} (sem : Sem s) {p : Spec.Prom} (hp : p ∈ s.proms) :
    Spec.promiseReal s.votes p = true := by
  obtain ⟨f, b, r⟩ := p
  obtain ⟨_, _, _, h4⟩ := sem.pr f b r hp
  cases r with
  | none => rfl
  | some x =>
    obtain ⟨bm, vm⟩ := x
    obtain ⟨hv, hle⟩ := h4 bm vm rfl
    simp only [Spec.promiseReal, Bool.and_eq_true, decide_eq_true_eq, List.contains_iff_mem]
    exact ⟨hv, hle⟩

/-- PHASE-1 REPORT, all action sequences, all values, flexible quorums: every promise ever made (to another
    node or to itself) reports a proposal that covers every vote the acceptor cast below the promised ballot,
    and a reported proposal is one the acceptor voted for. -/
theorem promise_reports_accepted (n q1 q2 : Nat) (as : List Act) :
    (runActs (init n q1 q2) as).proms.all (Spec.promiseCovers (runActs (init n q1 q2) as).votes) = true ∧
    (runActs (init n q1 q2) as).proms.all (Spec.promiseReal (runActs (init n q1 q2) as).votes) = true := by
  have inv := run_inv (init n q1 q2) as (init_inv n q1 q2)
  constructor
  · rw [List.all_eq_true]; intro p hp; exact promiseCovers_of_sem inv.sem hp
  · rw [List.all_eq_true]; intro p hp; exact promiseReal_of_sem inv.sem hp

/-- fewer votes known: `promiseCovers` still holds -/
theorem promiseCovers_anti {lo votes : List Spec.Vote} (h : ∀ w ∈ lo, w ∈ votes) {p : Spec.Prom}
    (hp : Spec.promiseCovers votes p = true) : Spec.promiseCovers lo p = true := by
  simp only [Spec.promiseCovers, List.all_eq_true] at hp ⊢
  intro w hw
  exact hp w (h w hw)

/-- more votes assumed: `promiseReal` still holds -/
theorem promiseReal_mono {votes hi : List Spec.Vote} (h : ∀ w ∈ votes, w ∈ hi) {p : Spec.Prom}
    (hp : Spec.promiseReal votes p = true) : Spec.promiseReal hi p = true := by
  obtain ⟨f, b, r⟩ := p
  cases r with
  | none => rfl
  | some x =>
    obtain ⟨bm, vm⟩ := x
    simp only [Spec.promiseReal, Bool.and_eq_true, decide_eq_true_eq, List.contains_iff_mem] at hp ⊢
    exact ⟨h _ hp.1, hp.2⟩

/-- the judge is silent on every model run, whatever part of the votes (`lo` ⊆ votes ⊆ `hi`) and of the
    promises the network observer saw -/
theorem promise_judge_silent (pfx : String) (n q1 q2 : Nat) (as : List Act) (lo hi : List Spec.Vote)
    (proms : List Spec.Prom)
    (hlo : ∀ w ∈ lo, w ∈ (runActs (init n q1 q2) as).votes)
    (hhi : ∀ w ∈ (runActs (init n q1 q2) as).votes, w ∈ hi)
    (hpr : ∀ p ∈ proms, p ∈ (runActs (init n q1 q2) as).proms) :
    Spec.judgePromises pfx lo hi proms = none := by
  have inv := run_inv (init n q1 q2) as (init_inv n q1 q2)
  have h1 : proms.all (Spec.promiseCovers lo) = true := by
    rw [List.all_eq_true]; intro p hp
    exact promiseCovers_anti hlo (promiseCovers_of_sem inv.sem (hpr p hp))
  have h2 : proms.all (Spec.promiseReal hi) = true := by
    rw [List.all_eq_true]; intro p hp
    exact promiseReal_mono hhi (promiseReal_of_sem inv.sem (hpr p hp))
  simp [Spec.judgePromises, h1, h2]

/-- non-vacuity: a run in which node 1 accepts value 0 (a value Python treats as false) under ballot 3 and
    then promises ballot 5 reporting it -/
def promWitness : List Act :=
  [.propose 0 3 0, .recvPrepare 3 1, .recvPromise 3 1, .recvAccept 3 1, .propose 2 5 7, .recvPrepare 5 1]

example : (runActs (init 3 2 2) promWitness).proms.contains (1, 5, some (3, 0)) = true := by decide
example : (runActs (init 3 2 2) promWitness).votes.contains (1, 3, 0) = true := by decide

/-- the Spec flags a promise that hides an accepted proposal (what an acceptor testing the truth value of
    its accepted value does when that value is 0) -/
theorem promise_hiding_accepted_violates_spec :
    Spec.judgePromises "paxos" [(1, 3, 0)] [(1, 3, 0), (0, 3, 0)] [(1, 5, none)]
      = some "paxos/promise/hides-accepted-value" := by decide

/-! ### `propose()` on a node that has already learned the decision -/

/-- the future returned by `propose()` on a decided node is resolved at once with the decided value — whatever
    that value is (the code tests the `_decided` flag, not the truth value of `_decided_value`) -/
theorem propose_on_decided_resolves (s : St) (p b : Nat) (v d : Val) (hp : p < s.cfg.n)
    (hd : s.decided p = some d) :
    (step s (.propose p b v)).futRes s.nfut = some d ∧ (step s (.propose p b v)).nfut = s.nfut + 1 ∧
    (step s (.propose p b v)).decided p = some d := by
  simp [step, hp, hd]

/-- the judge's clause on any model state: the pair (report before the call, resolution of the new future) is accepted -/
theorem propose_call_judge_silent (s : St) (p b : Nat) (v : Val) (hp : p < s.cfg.n) :
    Spec.proposeCallOk (s.decided p, (step s (.propose p b v)).futRes s.nfut) = true := by
  cases hd : s.decided p with
  | none => simp [Spec.proposeCallOk]
  | some d =>
    have h := (propose_on_decided_resolves s p b v d hp hd).1
    simp [Spec.proposeCallOk, h]

/-- non-vacuity: after node 0 has decided value 0 (ballot 3, acceptors 0 and 1), `propose` on node 0 -/
example : (runActs (init 3 2 2) [.propose 0 3 0, .recvPrepare 3 1, .recvPromise 3 1, .recvAccept 3 1,
    .recvAccepted 3 1]).decided 0 = some 0 := by decide

/-- the Spec flags a call on a decided node whose future stays pending -/
theorem propose_call_pending_violates_spec :
    Spec.judgeCalls "paxos" [(none, none), (some 0, none)] = some "paxos/future/unresolved-on-decided-node" := by
  decide

end HappyModel.C12
