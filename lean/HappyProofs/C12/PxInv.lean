import HappyModel.C12.Paxos
namespace HappyModel.C12.Px

def Voted (s : St) (a c : Nat) (v : Val) : Prop := (a, c, v) ∈ s.votes
def PromGt (s : St) (a c : Nat) : Prop := ∃ q, (s.acc a).promised = some q ∧ c < q
def PromGe (s : St) (a c : Nat) : Prop := ∃ q, (s.acc a).promised = some q ∧ c ≤ q

/-- acceptor `a` either voted for `v` in ballot `c`, or has not voted in `c` and never will -/
def DidOrWont (s : St) (a c : Nat) (v : Val) : Prop :=
  Voted s a c v ∨ ((∀ v', ¬ Voted s a c v') ∧ PromGt s a c)

def SafeAt (s : St) (b : Nat) (v : Val) : Prop :=
  ∀ c, c < b → ∃ Q : List Nat, Q.Nodup ∧ (∀ a ∈ Q, a < s.cfg.n ∧ DidOrWont s a c v) ∧ s.cfg.q1 ≤ Q.length

def Chosen (s : St) (b : Nat) (v : Val) : Prop :=
  ∃ Q : List Nat, Q.Nodup ∧ (∀ a ∈ Q, a < s.cfg.n ∧ Voted s a b v) ∧ s.cfg.q2 ≤ Q.length

/-- phase-1 pipeline: each (ballot, acceptor) is in at most one of: prepare in flight, promise in
    flight, promise counted -/
structure Net1 (s : St) : Prop where
  prep : ∀ b d, s.mPrep b d = true → d < s.cfg.n ∧ s.mProm b d = none ∧ d ∉ (s.p1 b).map (·.1)
  prom : ∀ b f r, s.mProm b f = some r → f < s.cfg.n ∧ f ∉ (s.p1 b).map (·.1) ∧ (f, b, r) ∈ s.proms
  p1 : ∀ b, ((s.p1 b).map (·.1)).Nodup ∧ ∀ f r, (f, r) ∈ s.p1 b → f < s.cfg.n ∧ (f, b, r) ∈ s.proms
  fresh : ∀ b, s.ownVal b = none → s.p1 b = [] ∧ ∀ d, s.mPrep b d = false ∧ s.mProm b d = none

/-- phase-2 pipeline -/
structure Net2 (s : St) : Prop where
  none_ : ∀ b, s.started2 b = none → s.acks b = [] ∧ ∀ d, s.mAcpt b d = none ∧ s.mAcptd b d = false
  acpt : ∀ b d v, s.mAcpt b d = some v → s.started2 b = some v ∧ s.mAcptd b d = false ∧ d ∉ s.acks b ∧
            (∀ v', ¬ Voted s d b v')
  acptd : ∀ b f, s.mAcptd b f = true → f < s.cfg.n ∧ f ∉ s.acks b ∧ ∃ v, s.started2 b = some v ∧ Voted s f b v
  acks : ∀ b, (s.acks b).Nodup ∧ ∀ f ∈ s.acks b, f < s.cfg.n ∧ ∃ v, s.started2 b = some v ∧ Voted s f b v
  fresh : ∀ b, s.ownVal b = none → s.started2 b = none

/-- votes, promises, safety of phase-2 values -/
structure Sem (s : St) : Prop where
  one : ∀ a b v, Voted s a b v → s.started2 b = some v
  vprom : ∀ a b v, Voted s a b v → a < s.cfg.n ∧ PromGe s a b
  vacc : ∀ a b v, (s.acc a).accepted = some (b, v) → Voted s a b v
  vmax : ∀ a b' v', Voted s a b' v' → ∃ b v, (s.acc a).accepted = some (b, v) ∧ b' ≤ b
  pr : ∀ f b r, (f, b, r) ∈ s.proms →
        f < s.cfg.n ∧ PromGe s f b ∧
        (∀ b' v', Voted s f b' v' → b' < b → ∃ bm vm, r = some (bm, vm) ∧ b' ≤ bm) ∧
        (∀ bm vm, r = some (bm, vm) → Voted s f bm vm ∧ bm ≤ b)
  safe : ∀ b v, s.started2 b = some v → SafeAt s b v

structure Learn (s : St) : Prop where
  node : ∀ d v, s.decided d = some v → ∃ b, Chosen s b v
  msg : ∀ f d v, s.mDec f d = some v → ∃ b, Chosen s b v

structure Inv (s : St) : Prop where
  n1 : Net1 s
  n2 : Net2 s
  sem : Sem s
  learn : Learn s

theorem init_inv (n q1 q2 : Nat) : Inv (init n q1 q2) := by
  refine ⟨⟨?_, ?_, ?_, ?_⟩, ⟨?_, ?_, ?_, ?_, ?_⟩, ⟨?_, ?_, ?_, ?_, ?_, ?_⟩, ⟨?_, ?_⟩⟩ <;> simp [init, Voted]

theorem didOrWont_mono {s s' : St} {a c : Nat} {v : Val}
    (hv : ∀ x, x ∈ s.votes → x ∈ s'.votes)
    (hp : ∀ q, (s.acc a).promised = some q → ∃ q', (s'.acc a).promised = some q' ∧ q ≤ q')
    (hnew : ∀ v', (a, c, v') ∈ s'.votes → (a, c, v') ∈ s.votes ∨ ¬ PromGt s a c)
    (h : DidOrWont s a c v) : DidOrWont s' a c v := by
  rcases h with h | ⟨h1, h2⟩
  · exact Or.inl (hv _ h)
  · right
    refine ⟨?_, ?_⟩
    · intro v' hv'
      rcases hnew v' hv' with h' | h'
      · exact h1 v' h'
      · exact h' h2
    · obtain ⟨q, hq, hlt⟩ := h2
      obtain ⟨q', hq', hle⟩ := hp q hq
      exact ⟨q', hq', by omega⟩

theorem safeAt_mono {s s' : St} {b : Nat} {v : Val} (hn : s'.cfg = s.cfg)
    (hv : ∀ x, x ∈ s.votes → x ∈ s'.votes)
    (hp : ∀ a q, (s.acc a).promised = some q → ∃ q', (s'.acc a).promised = some q' ∧ q ≤ q')
    (hnew : ∀ a c v', (a, c, v') ∈ s'.votes → (a, c, v') ∈ s.votes ∨ ¬ PromGt s a c)
    (h : SafeAt s b v) : SafeAt s' b v := by
  intro c hc
  obtain ⟨Q, h1, h2, h3⟩ := h c hc
  refine ⟨Q, h1, ?_, by rw [hn]; exact h3⟩
  intro a ha
  obtain ⟨ha1, ha2⟩ := h2 a ha
  exact ⟨by rw [hn]; exact ha1, didOrWont_mono hv (hp a) (hnew a c) ha2⟩

theorem chosen_mono {s s' : St} {b : Nat} {v : Val} (hn : s'.cfg = s.cfg)
    (hv : ∀ x, x ∈ s.votes → x ∈ s'.votes) (h : Chosen s b v) : Chosen s' b v := by
  obtain ⟨Q, h1, h2, h3⟩ := h
  exact ⟨Q, h1, fun a ha => ⟨by rw [hn]; exact (h2 a ha).1, hv _ (h2 a ha).2⟩, by rw [hn]; exact h3⟩

/-! ### frame lemmas: a group survives when the components it reads are unchanged (or grow) -/

theorem Net1.frame {s s' : St} (h : Net1 s) (hn : s'.cfg = s.cfg) (e1 : s'.mPrep = s.mPrep)
    (e2 : s'.mProm = s.mProm) (e3 : s'.p1 = s.p1) (e4 : s'.ownVal = s.ownVal)
    (hp : ∀ x, x ∈ s.proms → x ∈ s'.proms) : Net1 s' := by
  refine ⟨?_, ?_, ?_, ?_⟩
  · intro b d hb; rw [e1] at hb; rw [hn, e2, e3]; exact h.prep b d hb
  · intro b f r hb; rw [e2] at hb; rw [hn, e3]
    obtain ⟨a1, a2, a3⟩ := h.prom b f r hb; exact ⟨a1, a2, hp _ a3⟩
  · intro b; rw [e3, hn]
    obtain ⟨a1, a2⟩ := h.p1 b
    exact ⟨a1, fun f r hfr => ⟨(a2 f r hfr).1, hp _ (a2 f r hfr).2⟩⟩
  · intro b hb; rw [e4] at hb; rw [e1, e2, e3]; exact h.fresh b hb

theorem Net2.frame {s s' : St} (h : Net2 s) (hn : s'.cfg = s.cfg) (e1 : s'.started2 = s.started2)
    (e2 : s'.acks = s.acks) (e3 : s'.mAcpt = s.mAcpt) (e4 : s'.mAcptd = s.mAcptd)
    (e5 : s'.votes = s.votes) (e6 : s'.ownVal = s.ownVal) : Net2 s' := by
  refine ⟨?_, ?_, ?_, ?_, ?_⟩
  · intro b hb; rw [e1] at hb; rw [e2, e3, e4]; exact h.none_ b hb
  · intro b d v hb; rw [e3] at hb; rw [e1, e4, e2]
    obtain ⟨a1, a2, a3, a4⟩ := h.acpt b d v hb
    exact ⟨a1, a2, a3, fun v' hv' => a4 v' (by unfold Voted at *; rw [e5] at hv'; exact hv')⟩
  · intro b f hb; rw [e4] at hb; rw [hn, e2, e1]
    obtain ⟨a1, a2, v, a3, a4⟩ := h.acptd b f hb
    exact ⟨a1, a2, v, a3, by unfold Voted at *; rw [e5]; exact a4⟩
  · intro b; rw [e2, hn, e1]
    obtain ⟨a1, a2⟩ := h.acks b
    refine ⟨a1, fun f hf => ?_⟩
    obtain ⟨b1, v, b2, b3⟩ := a2 f hf
    exact ⟨b1, v, b2, by unfold Voted at *; rw [e5]; exact b3⟩
  · intro b hb; rw [e6] at hb; rw [e1]; exact h.fresh b hb

theorem Sem.frame {s s' : St} (h : Sem s) (hn : s'.cfg = s.cfg) (e1 : s'.votes = s.votes)
    (e2 : s'.acc = s.acc) (e3 : s'.started2 = s.started2) (e4 : s'.proms = s.proms) : Sem s' := by
  have hv : ∀ a b v, Voted s' a b v ↔ Voted s a b v := by intro a b v; unfold Voted; rw [e1]
  have hg : ∀ a b, PromGe s' a b ↔ PromGe s a b := by intro a b; unfold PromGe; rw [e2]
  refine ⟨?_, ?_, ?_, ?_, ?_, ?_⟩
  · intro a b v hh; rw [e3]; exact h.one a b v ((hv a b v).mp hh)
  · intro a b v hh; rw [hn]; obtain ⟨a1, a2⟩ := h.vprom a b v ((hv a b v).mp hh); exact ⟨a1, (hg a b).mpr a2⟩
  · intro a b v hh; rw [e2] at hh; exact (hv a b v).mpr (h.vacc a b v hh)
  · intro a b v hh; rw [e2]; exact h.vmax a b v ((hv a b v).mp hh)
  · intro f b r hh; rw [e4] at hh; rw [hn]
    obtain ⟨a1, a2, a3, a4⟩ := h.pr f b r hh
    refine ⟨a1, (hg f b).mpr a2, ?_, ?_⟩
    · intro b' v' hb' hlt; exact a3 b' v' ((hv f b' v').mp hb') hlt
    · intro bm vm hr; obtain ⟨c1, c2⟩ := a4 bm vm hr; exact ⟨(hv f bm vm).mpr c1, c2⟩
  · intro b v hh; rw [e3] at hh
    exact safeAt_mono hn (by intro x hx; rw [e1]; exact hx)
      (by intro a q hq; rw [e2]; exact ⟨q, hq, Nat.le_refl _⟩)
      (by intro a c v' hx; left; rw [e1] at hx; exact hx) (h.safe b v hh)

theorem Learn.frame {s s' : St} (h : Learn s) (hn : s'.cfg = s.cfg) (e1 : s'.decided = s.decided)
    (e2 : s'.mDec = s.mDec) (hv : ∀ x, x ∈ s.votes → x ∈ s'.votes) : Learn s' := by
  refine ⟨?_, ?_⟩
  · intro d v hd; rw [e1] at hd; obtain ⟨b, hb⟩ := h.node d v hd; exact ⟨b, chosen_mono hn hv hb⟩
  · intro f d v hd; rw [e2] at hd; obtain ⟨b, hb⟩ := h.msg f d v hd; exact ⟨b, chosen_mono hn hv hb⟩

end HappyModel.C12.Px
