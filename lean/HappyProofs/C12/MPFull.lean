import HappyProofs.C12.MPSetup
import HappyProofs.C12.MPLeader
/-!
# C12 — end to end: commands parked on a node of a fresh cluster, its `start()`, the promises it needs, then any
stable action sequence that delivers the acknowledgements: every command is committed and its future resolved.
-/
namespace HappyModel.C12.MP

theorem run_append (s : St) (l1 l2 : List Act) : run s (l1 ++ l2) = run (run s l1) l2 := by
  induction l1 generalizing s with
  | nil => rfl
  | cons a as ih => exact ih (step s a).1

theorem step_n (s : St) (a : Act) : (step s a).1.n = s.n := by
  cases a <;> simp only [step] <;> (repeat' split) <;> rfl

theorem run_n (s : St) (as : List Act) : (run s as).n = s.n := by
  induction as generalizing s with
  | nil => rfl
  | cons a as ih => exact (ih _).trans (step_n s a)

theorem run_q1 (s : St) (as : List Act) : (run s as).q1 = s.q1 := by
  induction as generalizing s with
  | nil => rfl
  | cons a as ih => exact (ih _).trans (step_q1 s a)

theorem run_q2 (s : St) (as : List Act) : (run s as).q2 = s.q2 := by
  induction as generalizing s with
  | nil => rfl
  | cons a as ih => exact (ih _).trans (step_q2 s a)

theorem run_nodes_length (s : St) (as : List Act) : (run s as).nodes.length = s.nodes.length := by
  induction as generalizing s with
  | nil => rfl
  | cons a as ih => exact (ih _).trans (step_nodes_length s a)

/-- the fields of the future leader that the set-up phase never touches, and its parked commands -/
def Parked (nd : Node) (P : List (Nat × Nat)) : Prop :=
  nd.pending = P ∧ nd.log = [] ∧ nd.commit = 0 ∧ nd.applied = 0

/-! ### phase A: `submit()` on a node that does not lead parks the command -/

theorem submit_node (s : St) (p c : Nat) (hp : p < s.nodes.length) (hl : (getNode s p).isLeader = false) :
    getNode (step s (.submit p c)).1 p =
      { getNode s p with pending := (getNode s p).pending ++ [(c, s.nfut)] } ∧
    (step s (.submit p c)).1.nfut = s.nfut + 1 := by
  have e : (step s (.submit p c)).1 =
      setNode { s with nfut := s.nfut + 1 } p { getNode s p with pending := (getNode s p).pending ++ [(c, s.nfut)] } := by
    simp [step, hl]
  rw [e]
  exact ⟨getNode_setNode_eq _ p _ hp, rfl⟩

theorem run_submits (p : Nat) : ∀ (cs : List Nat) (s : St), p < s.nodes.length →
    (getNode s p).isLeader = false →
    getNode (run s (cs.map (.submit p))) p =
      { getNode s p with pending := (getNode s p).pending ++ cs.zipIdx s.nfut } := by
  intro cs
  induction cs with
  | nil => intro s _ _; simp [run]
  | cons c cs ih =>
    intro s hp hl
    obtain ⟨h1, h2⟩ := submit_node s p c hp hl
    have hp' : p < (step s (.submit p c)).1.nodes.length := by rw [step_nodes_length]; exact hp
    have hl' : (getNode (step s (.submit p c)).1 p).isLeader = false := by rw [h1]; exact hl
    show getNode (run (step s (.submit p c)).1 (cs.map (.submit p))) p = _
    rw [ih _ hp' hl', h1, h2]
    simp [List.zipIdx_cons, List.append_assoc]

/-! ### phase B: `start()` -/

theorem start_ballot_number (n p : Nat) (hp : p < n) : ((p / n + 1) * n + p) / n = 1 := by
  rw [Nat.div_eq_of_lt hp]
  simp only [Nat.zero_add, Nat.one_mul]
  rw [Nat.add_div_left _ (by omega), Nat.div_eq_of_lt hp]

theorem start_waits (s : St) (p : Nat) (hp : p < s.nodes.length) (hq : ¬ s.q1 ≤ 1) (hpn : p < s.n)
    (hb : (getNode s p).ballot = p) (P : List (Nat × Nat)) (hP : Parked (getNode s p) P) :
    Parked (getNode (step s (.start p)).1 p) P ∧ lookup (getNode (step s (.start p)).1 p).p1 1 = some 1 := by
  have e : (step s (.start p)).1 = setNode s p { getNode s p with ballot := ((getNode s p).ballot / s.n + 1) * s.n + p, p1 := setKV (getNode s p).p1 ((((getNode s p).ballot / s.n + 1) * s.n + p) / s.n) 1 } := by
    simp only [step, if_neg hq]
  rw [e, getNode_setNode_eq s p _ hp]
  refine ⟨hP, ?_⟩
  simp only [hb, start_ballot_number s.n p hpn]
  exact lookup_setKV_self _ _ _

/-! ### phase C: promises below the quorum are counted -/

theorem promise_counts (s : St) (p k : Nat) (hp : p < s.nodes.length) (hk : lookup (getNode s p).p1 1 = some k)
    (hq : ¬ k + 1 ≥ s.q1) (P : List (Nat × Nat)) (hP : Parked (getNode s p) P) :
    Parked (getNode (step s (.promise p 1)).1 p) P ∧ lookup (getNode (step s (.promise p 1)).1 p).p1 1 = some (k + 1) := by
  have e : (step s (.promise p 1)).1 = setNode s p { getNode s p with p1 := setKV (getNode s p).p1 1 (k + 1) } := by
    simp only [step, hk, if_neg hq]
  rw [e, getNode_setNode_eq s p _ hp]
  exact ⟨hP, lookup_setKV_self _ _ _⟩

theorem run_promises (p : Nat) (P : List (Nat × Nat)) : ∀ (j : Nat) (s : St) (k : Nat), p < s.nodes.length →
    lookup (getNode s p).p1 1 = some k → k + j < s.q1 → Parked (getNode s p) P →
    Parked (getNode (run s (List.replicate j (.promise p 1))) p) P ∧
    lookup (getNode (run s (List.replicate j (.promise p 1))) p).p1 1 = some (k + j) := by
  intro j
  induction j with
  | zero => intro s k _ hk _ hP; exact ⟨hP, hk⟩
  | succ j ih =>
    intro s k hp hk hlt hP
    obtain ⟨h1, h2⟩ := promise_counts s p k hp hk (by omega) P hP
    have hp' : p < (step s (.promise p 1)).1.nodes.length := by rw [step_nodes_length]; exact hp
    have := ih (step s (.promise p 1)).1 (k + 1) hp' h2 (by rw [step_q1]; omega) h1
    rw [List.replicate_succ]
    show Parked (getNode (run (step s (.promise p 1)).1 (List.replicate j (.promise p 1))) p) P ∧ _
    have e : k + (j + 1) = k + 1 + j := by omega
    rw [e]; exact this

/-! ### the set-up phase ends in `_become_leader` with the commands parked -/

theorem init_node (n q1 q2 : Nat) (flex : Bool) (p : Nat) (hp : p < n) :
    getNode (init n q1 q2 flex) p = { ballot := p } := by
  simp [getNode, init, List.getD_eq_getElem?_getD, hp]

theorem reach_leader (n q1 q2 : Nat) (flex : Bool) (p : Nat) (cs : List Nat) (hp : p < n) (hq1 : 1 ≤ q1) :
    ∃ (s : St) (nd : Node),
      run (init n q1 q2 flex) (cs.map (.submit p) ++ [.start p] ++ List.replicate (q1 - 1) (.promise p 1)) =
        setNode s p (becomeLeader s p nd).1 ∧
      s.nodes.length = n ∧ s.q2 = q2 ∧ s.n = n ∧ Parked nd (cs.zipIdx 0) := by
  let sA := run (init n q1 q2 flex) (cs.map (.submit p))
  have hlenA : sA.nodes.length = n := by
    show (run _ _).nodes.length = n
    rw [run_nodes_length]; simp [init]
  have hnA : sA.n = n := by show (run _ _).n = n; rw [run_n]; rfl
  have hq1A : sA.q1 = q1 := by show (run _ _).q1 = q1; rw [run_q1]; rfl
  have hq2A : sA.q2 = q2 := by show (run _ _).q2 = q2; rw [run_q2]; rfl
  have hnodeA : getNode sA p = { ballot := p, pending := cs.zipIdx 0 } := by
    show getNode (run _ _) p = _
    rw [run_submits p cs _ (by simp [init]; exact hp) (by rw [init_node _ _ _ _ _ hp]), init_node _ _ _ _ _ hp]
    simp [init]
  have hPA : Parked (getNode sA p) (cs.zipIdx 0) := by rw [hnodeA]; exact ⟨rfl, rfl, rfl, rfl⟩
  rw [run_append, run_append]
  show ∃ s nd, run (run sA [.start p]) _ = _ ∧ _
  by_cases hq : q1 ≤ 1
  · have hq1' : q1 - 1 = 0 := by omega
    rw [hq1']
    refine ⟨sA, { getNode sA p with ballot := ((getNode sA p).ballot / sA.n + 1) * sA.n + p, p1 := setKV (getNode sA p).p1 ((((getNode sA p).ballot / sA.n + 1) * sA.n + p) / sA.n) 1 }, ?_, hlenA, hq2A, hnA, ?_⟩
    · show (step sA (.start p)).1 = _
      exact start_alone_becomes_leader sA p (by rw [hq1A]; exact hq)
    · exact hPA
  · obtain ⟨hPB, hkB⟩ := start_waits sA p (by rw [hlenA]; exact hp) (by rw [hq1A]; exact hq) (by rw [hnA]; exact hp)
      (by rw [hnodeA]) (cs.zipIdx 0) hPA
    have hsplit : q1 - 1 = (q1 - 2) + 1 := by omega
    rw [hsplit, List.replicate_succ', run_append]
    let sB := (step sA (.start p)).1
    have hlenB : sB.nodes.length = n := by show (step _ _).1.nodes.length = n; rw [step_nodes_length]; exact hlenA
    have hq1B : sB.q1 = q1 := by show (step _ _).1.q1 = q1; rw [step_q1]; exact hq1A
    obtain ⟨hPC, hkC⟩ := run_promises p (cs.zipIdx 0) (q1 - 2) sB 1 (by rw [hlenB]; exact hp) hkB
      (by rw [hq1B]; omega) hPB
    let sC := run sB (List.replicate (q1 - 2) (.promise p 1))
    have hlenC : sC.nodes.length = n := by show (run _ _).nodes.length = n; rw [run_nodes_length]; exact hlenB
    have hq1C : sC.q1 = q1 := by show (run _ _).q1 = q1; rw [run_q1]; exact hq1B
    have hq2C : sC.q2 = q2 := by
      show (run _ _).q2 = q2; rw [run_q2]; show (step _ _).1.q2 = q2; rw [step_q2]; exact hq2A
    have hnC : sC.n = n := by
      show (run _ _).n = n; rw [run_n]; show (step _ _).1.n = n; rw [step_n]; exact hnA
    refine ⟨sC, { getNode sC p with p1 := setKV (getNode sC p).p1 1 (1 + (q1 - 2) + 1) }, ?_, hlenC, hq2C, hnC, ?_⟩
    · show (step sC (.promise p 1)).1 = _
      exact promise_quorum_becomes_leader sC p 1 (1 + (q1 - 2)) hkC (by rw [hq1C]; omega)
    · exact hPC

/-! ### the stable phase keeps the leader caught up and its log unchanged -/

theorem stable_run_caught (p : Nat) : ∀ (as : List Act) (s : St), p < s.nodes.length →
    (∀ a ∈ as, StableAct p a) → Caught (getNode s p) →
    Caught (getNode (run s as) p) ∧ (getNode (run s as) p).log = (getNode s p).log := by
  intro as
  induction as with
  | nil => intro s _ _ h; exact ⟨h, rfl⟩
  | cons a rest ih =>
    intro s hp hall hca
    have hp' : p < (step s a).1.nodes.length := by rw [step_nodes_length]; exact hp
    have hall' : ∀ a' ∈ rest, StableAct p a' := fun a' ha' => hall a' (List.mem_cons_of_mem _ ha')
    show Caught (getNode (run (step s a).1 rest) p) ∧ (getNode (run (step s a).1 rest) p).log = (getNode s p).log
    by_cases hA : ∃ slot, a = .accepted p slot
    · obtain ⟨slot, rfl⟩ := hA
      have hnode := step_accepted_node s p slot hp
      have := ih _ hp' hall' (by rw [hnode]; exact ackNode_caught _ _ _ hca)
      rw [hnode, ackNode_log] at this
      exact this
    · obtain ⟨hact, _⟩ := stable_not_ack 0 (hall a List.mem_cons_self) hA
      have hnode := step_other_node s a p hact
      have := ih _ hp' hall' (by rw [hnode]; exact hca)
      rw [hnode] at this
      exact this

theorem becomeLeader_log (s : St) (p : Nat) (nd : Node) :
    (becomeLeader s p nd).1.log = nd.log ++ nd.pending.map (fun cf => (⟨nd.ballot / s.n, cf.1⟩ : Entry)) :=
  (assignSlots_spec s.n nd.pending { nd with isLeader := true, leader := some p }).1

theorem becomeLeader_caught (s : St) (p : Nat) (nd : Node) (h : Caught nd) :
    Caught (becomeLeader s p nd).1 ∧ (becomeLeader s p nd).1.log.length = nd.log.length + nd.pending.length := by
  obtain ⟨ha, hcl⟩ := h
  obtain ⟨h1, h2, h3, _, _, _⟩ := assignSlots_spec s.n nd.pending { nd with isLeader := true, leader := some p }
  simp only [] at h1 h2 h3
  have hlog : (becomeLeader s p nd).1.log = nd.log ++ nd.pending.map (fun cf => (⟨nd.ballot / s.n, cf.1⟩ : Entry)) := h1
  have hcom : (becomeLeader s p nd).1.commit = nd.commit := h2
  have happ : (becomeLeader s p nd).1.applied = nd.applied := h3
  have hlen : (becomeLeader s p nd).1.log.length = nd.log.length + nd.pending.length := by rw [hlog]; simp
  exact ⟨⟨by rw [happ, hcom]; exact ha, by rw [hcom, hlen]; omega⟩, hlen⟩

/-- END TO END (the full statement of `MPProgressFut.lean`).  `cs` are submitted to node `p` of a fresh cluster,
    then its only `start()`, then the `q1 - 1` promises it needs; after any stable action sequence in which every
    slot gets its acknowledgements — in any order — all of `cs` are committed on `p` and the i-th `submit()`
    future is resolved with `(i + 1, cs[i])`. -/
theorem stable_leader_progress : stable_leader_progress_full := by
  intro n q1 q2 flex p cs as hp hq1 hq2 hall hacks
  obtain ⟨s, nd, hrun, hlen, hsq2, _, hP⟩ := reach_leader n q1 q2 flex p cs hp hq1
  obtain ⟨hpend, hlog, hcom, happ⟩ := hP
  have hca : Caught nd := ⟨by rw [happ, hcom], by rw [hcom]; omega⟩
  have hps : p < s.nodes.length := by rw [hlen]; exact hp
  rw [run_append, hrun]
  have hlog0 : nd.log.length = 0 := by rw [hlog]; rfl
  have each : ∀ k, k < cs.length →
      k + 1 ≤ (getNode (run (setNode s p (becomeLeader s p nd).1) as) p).commit ∧
      (k, k + 1, cs.getD k 0) ∈ (run (setNode s p (becomeLeader s p nd).1) as).futRes := by
    intro k hk
    have hget : cs.getD k 0 = cs[k] := by simp [List.getD_eq_getElem?_getD, hk]
    have hp1 : nd.pending[k]? = some (cs[k], k) := by
      rw [hpend, List.getElem?_zipIdx]; simp [hk]
    obtain ⟨h0, hqq⟩ := hacks (k + 1) (by omega) (by omega)
    have := new_leader_commits_parked_commands s p nd as k cs[k] k hps hca hp1 hall
      (by rw [hlog0]; simpa using h0) (by rw [hlog0, hsq2]; simpa using hqq)
    rw [hlog0] at this
    rw [hget]
    simpa using this
  obtain ⟨hcb, hlb⟩ := becomeLeader_caught s p nd hca
  have hnode : getNode (setNode s p (becomeLeader s p nd).1) p = (becomeLeader s p nd).1 :=
    getNode_setNode_eq s p _ hps
  have hps' : p < (setNode s p (becomeLeader s p nd).1).nodes.length := by simp [setNode]; exact hps
  obtain ⟨hcend, hlend⟩ := stable_run_caught p as _ hps' hall (by rw [hnode]; exact hcb)
  refine ⟨?_, fun k hk => (each k hk).2⟩
  have hup : (getNode (run (setNode s p (becomeLeader s p nd).1) as) p).commit ≤ cs.length := by
    have := hcend.2
    rw [hlend, hnode, hlb, hlog0, hpend] at this
    simpa using this
  by_cases hz : cs.length = 0
  · omega
  · have := (each (cs.length - 1) (by omega)).1
    omega

end HappyModel.C12.MP
