import HappyProofs.C12.MPProgressFut
/-!
# C12 — the set-up phase of a stable leader: parked commands, `start()`, promises, `_become_leader`
-/
namespace HappyModel.C12.MP

theorem lookup_setKV_self (l : List (Nat × Nat)) (k v : Nat) : lookup (setKV l k v) k = some v := by
  simp [lookup, setKV]

theorem lookup_setKV_ne (l : List (Nat × Nat)) (k v k' : Nat) (h : k' ≠ k) :
    lookup (setKV l k v) k' = lookup l k' := by
  have h2 : (k == k') = false := by
    simp only [beq_eq_false_iff_ne, ne_eq]; omega
  have : lookup (setKV l k v) k' = lookup (l.filter (·.1 != k)) k' := by
    simp [lookup, setKV, h2]
  rw [this, lookup_filter_ne l k k' h]

/-- what `_assign_slot`, repeated over the pending commands, leaves behind -/
theorem assignSlots_spec (n : Nat) : ∀ (l : List (Nat × Nat)) (nd : Node),
    (assignSlots n nd l).log = nd.log ++ l.map (fun cf => (⟨nd.ballot / n, cf.1⟩ : Entry)) ∧
    (assignSlots n nd l).commit = nd.commit ∧ (assignSlots n nd l).applied = nd.applied ∧
    (assignSlots n nd l).ballot = nd.ballot ∧
    (∀ j, j ≤ nd.log.length →
      lookup (assignSlots n nd l).futs j = lookup nd.futs j ∧ ackOf (assignSlots n nd l) j = ackOf nd j) ∧
    (∀ i, i < l.length →
      lookup (assignSlots n nd l).futs (nd.log.length + i + 1) = (l[i]?).map (·.2) ∧
      ackOf (assignSlots n nd l) (nd.log.length + i + 1) = 1) := by
  intro l
  induction l with
  | nil =>
    intro nd
    refine ⟨by simp [assignSlots], rfl, rfl, rfl, fun j _ => ⟨rfl, rfl⟩, fun i hi => by simp at hi⟩
  | cons cf rest ih =>
    intro nd
    obtain ⟨c, f⟩ := cf
    simp only [assignSlots]
    obtain ⟨h1, h2, h3, h4, h5, h6⟩ := ih { nd with log := nd.log ++ [⟨nd.ballot / n, c⟩], futs := setKV nd.futs (nd.log.length + 1) f, acks := setKV nd.acks (nd.log.length + 1) 1 }
    simp only [List.length_append, List.length_cons, List.length_nil, Nat.zero_add] at h5 h6
    refine ⟨?_, h2, h3, h4, ?_, ?_⟩
    · rw [h1]; simp
    · intro j hj
      obtain ⟨a, b⟩ := h5 j (by omega)
      refine ⟨?_, ?_⟩
      · rw [a]; exact lookup_setKV_ne _ _ _ _ (by omega)
      · rw [b]; unfold ackOf; simp only []
        rw [getD_lookup_setKV, if_neg (by omega)]
    · intro i hi
      cases i with
      | zero =>
        obtain ⟨a, b⟩ := h5 (nd.log.length + 1) (by omega)
        refine ⟨?_, ?_⟩
        · rw [a]; simp only [Nat.add_zero, List.getElem?_cons_zero, Option.map_some]
          exact lookup_setKV_self _ _ _
        · rw [b]; unfold ackOf; simp only [Nat.add_zero]
          rw [getD_lookup_setKV, if_pos rfl]
      | succ i' =>
        simp only [List.length_cons] at hi
        obtain ⟨a, b⟩ := h6 i' (by omega)
        have e : nd.log.length + (i' + 1) + 1 = nd.log.length + 1 + i' + 1 := by omega
        rw [e]
        exact ⟨by rw [a]; simp, b⟩

/-- NEW LEADER, PARKED COMMANDS.  At the instant a node `p` (which has applied what it committed) becomes leader —
    `_become_leader`, reached from `start()` when `q1 ≤ 1` or from the promise that completes the phase-1 quorum —
    its i-th parked command `(c, f)` gets slot `len + i + 1` with one acknowledgement (its own).  From there, along any
    stable action sequence whose acknowledgements for that slot complete the phase-2 quorum, in any order relative
    to the other slots: the slot is committed on `p` and the `submit()` future `f` is resolved with `(slot, c)`. -/
theorem new_leader_commits_parked_commands (s : St) (p : Nat) (nd : Node) (as : List Act) (i c f : Nat)
    (hp : p < s.nodes.length) (hca : Caught nd) (hpend : nd.pending[i]? = some (c, f))
    (hall : ∀ a ∈ as, StableAct p a)
    (hin : 0 < as.countP (isAck p (nd.log.length + i + 1)))
    (hq : s.q2 ≤ 1 + as.countP (isAck p (nd.log.length + i + 1))) :
    nd.log.length + i + 1 ≤ (getNode (run (setNode s p (becomeLeader s p nd).1) as) p).commit ∧
    (f, nd.log.length + i + 1, c) ∈ (run (setNode s p (becomeLeader s p nd).1) as).futRes := by
  obtain ⟨ha, hcl⟩ := hca
  have hi : i < nd.pending.length := (List.getElem?_eq_some_iff.1 hpend).1
  obtain ⟨h1, h2, h3, h4, _, h6⟩ := assignSlots_spec s.n nd.pending { nd with isLeader := true, leader := some p }
  obtain ⟨h6a, h6b⟩ := h6 i hi
  simp only [] at h1 h2 h3 h4 h6a h6b
  have hnode : getNode (setNode s p (becomeLeader s p nd).1) p = (becomeLeader s p nd).1 :=
    getNode_setNode_eq s p _ hp
  have hlog : (becomeLeader s p nd).1.log = nd.log ++ nd.pending.map (fun cf => (⟨nd.ballot / s.n, cf.1⟩ : Entry)) := h1
  have hcom : (becomeLeader s p nd).1.commit = nd.commit := h2
  have happ : (becomeLeader s p nd).1.applied = nd.applied := h3
  have hfut : lookup (becomeLeader s p nd).1.futs (nd.log.length + i + 1) = some f := by
    have : lookup (becomeLeader s p nd).1.futs (nd.log.length + i + 1) = (nd.pending[i]?).map (·.2) := h6a
    rw [this, hpend]; rfl
  have hack : ackOf (becomeLeader s p nd).1 (nd.log.length + i + 1) = 1 := h6b
  have hent : (becomeLeader s p nd).1.log[nd.log.length + i + 1 - 1]? = some ⟨nd.ballot / s.n, c⟩ := by
    rw [hlog]
    have : nd.log.length + i + 1 - 1 = nd.log.length + i := by omega
    rw [this, List.getElem?_append_right (by omega)]
    simp only [Nat.add_sub_cancel_left, List.getElem?_map, hpend, Option.map_some]
  have hlen : (becomeLeader s p nd).1.log.length = nd.log.length + nd.pending.length := by
    rw [hlog]; simp
  have hcaught : Caught (getNode (setNode s p (becomeLeader s p nd).1) p) := by
    rw [hnode]; exact ⟨by rw [happ, hcom]; exact ha, by rw [hcom, hlen]; omega⟩
  have hp' : p < (setNode s p (becomeLeader s p nd).1).nodes.length := by simp [setNode]; exact hp
  have hq2 : (setNode s p (becomeLeader s p nd).1).q2 = s.q2 := rfl
  refine ⟨?_, ?_⟩
  · refine (stable_leader_commits_any_ack_order _ p (nd.log.length + i + 1) as hp' hall hcaught.2
      (by rw [hnode, hlen]; omega) hin (by rw [hq2, hnode, hack]; exact hq)).1
  · have := stable_leader_resolves_future (setNode s p (becomeLeader s p nd).1) p (nd.log.length + i + 1) f
      ⟨nd.ballot / s.n, c⟩ as hp' hall hcaught (by omega) (by rw [hnode]; exact hent) (by rw [hnode]; exact hfut)
      (by rw [hnode, hcom]; omega) hin (by rw [hq2, hnode, hack]; exact hq)
    exact this

/-- the two places where the code calls `_become_leader` produce exactly the state of the theorem above -/
theorem promise_quorum_becomes_leader (s : St) (p bn k : Nat) (hk : lookup (getNode s p).p1 bn = some k)
    (hq : k + 1 ≥ s.q1) :
    (step s (.promise p bn)).1 =
      setNode s p (becomeLeader s p { getNode s p with p1 := setKV (getNode s p).p1 bn (k + 1) }).1 := by
  simp only [step, hk, if_pos hq]

theorem start_alone_becomes_leader (s : St) (p : Nat) (hq : s.q1 ≤ 1) :
    (step s (.start p)).1 =
      setNode s p (becomeLeader s p { getNode s p with ballot := ((getNode s p).ballot / s.n + 1) * s.n + p, p1 := setKV (getNode s p).p1 ((((getNode s p).ballot / s.n + 1) * s.n + p) / s.n) 1 }).1 := by
  simp only [step, if_pos hq]

/-- non-vacuity: node 0 of a 3-node cluster with two parked commands, after `start()`, at the promise that
    completes its quorum: caught up, second parked command = (2, future 1), slots 1 and 2 to come -/
example :
    let s := run (init 3 2 2 false) [.submit 0 1, .submit 0 2, .start 0]
    lookup (getNode s 0).p1 1 = some 1 ∧ 1 + 1 ≥ s.q1 ∧ (getNode s 0).applied = (getNode s 0).commit ∧
    (getNode s 0).commit ≤ (getNode s 0).log.length ∧ (getNode s 0).pending[1]? = some (2, 1) ∧
    (getNode s 0).log.length + 1 + 1 = 2 := by decide

end HappyModel.C12.MP
