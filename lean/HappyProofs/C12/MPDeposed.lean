import HappyProofs.C12.MPLeader
/-!
# C12 — Multi-Paxos / Flexible Paxos: a node that promised another node's ballot does not lead

For **every** action list the observations of a run of `MP.step` satisfy
* `Spec.promiseClears`: right after a node answered a `Prepare` with a `Promise`, its `is_leader` is false;
* `Spec.deposedSilent q1`: from that promise until a phase-1 response makes it leader again, the node
  neither assigns a slot to a submitted command nor sends an `Accept`.

Invariant: a node that is *deposed* according to the observed history is not leader in the state.
-/
namespace HappyModel.C12.MP
open HappyModel.C12.Spec

/-! ### `getNode` / `setNode`, leadership of the touched node -/

theorem getNode_setNode_eq (s : St) (p : Nat) (x : Node) (h : p < s.nodes.length) :
    getNode (setNode s p x) p = x := by
  simp [getNode, setNode, List.getD_eq_getElem?_getD, h]

theorem getNode_oob (s : St) (p : Nat) (h : ¬ p < s.nodes.length) : getNode s p = { ballot := p } := by
  have : s.nodes[p]? = none := List.getElem?_eq_none (by omega)
  simp [getNode, List.getD_eq_getElem?_getD, this]

/-- writing a non-leader record never leaves the node leader -/
theorem isLeader_setNode_false (s : St) (p : Nat) (x : Node) (hx : x.isLeader = false) :
    (getNode (setNode s p x) p).isLeader = false := by
  by_cases h : p < s.nodes.length
  · rw [getNode_setNode_eq s p x h]; exact hx
  · have e : getNode (setNode s p x) p = getNode s p := by
      have : s.nodes.set p x = s.nodes := List.set_eq_of_length_le (by omega)
      simp [getNode, setNode, this]
    rw [e, getNode_oob s p h]

/-- leadership is not gained by writing a record that is leader only if the old one was -/
theorem noGain_setNode (s : St) (p : Nat) (x : Node)
    (hx : x.isLeader = true → (getNode s p).isLeader = true) (q : Nat) :
    (getNode (setNode s p x) q).isLeader = true → (getNode s q).isLeader = true := by
  by_cases hq : q = p
  · subst hq
    rcases getNode_setNode_self s q x with e | e
    · rw [e]; exact hx
    · rw [e]; exact id
  · rw [getNode_setNode_ne s p q x hq]; exact id

theorem assignSlots_isLeader (n : Nat) : ∀ (l : List (Nat × Nat)) (nd : Node),
    (assignSlots n nd l).isLeader = nd.isLeader := by
  intro l
  induction l with
  | nil => intro nd; rfl
  | cons x xs ih =>
    intro nd
    obtain ⟨c, f⟩ := x
    simp only [assignSlots]
    rw [ih]

theorem applyFrom_isLeader : ∀ (es : List Entry) (nd : Node) (idx : Nat),
    (applyFrom nd idx es).1.isLeader = nd.isLeader := by
  intro es
  induction es with
  | nil => intro nd idx; rfl
  | cons e es ih =>
    intro nd idx
    simp only [applyFrom]
    split
    · rw [ih]
    · rw [ih]

theorem advanceCommit_isLeader (nd : Node) (c : Nat) : (advanceCommit nd c).1.isLeader = nd.isLeader := by
  unfold advanceCommit
  split
  · rfl
  · simp only [applyFrom_isLeader]

theorem becomeLeader_isLeader (s : St) (p : Nat) (nd : Node) : (becomeLeader s p nd).1.isLeader = true := by
  simp only [becomeLeader, assignSlots_isLeader]

theorem getNode_nodes {s s' : St} (e : s'.nodes = s.nodes) (i : Nat) : getNode s' i = getNode s i := by
  simp [getNode, e]

theorem step_len (s : St) (a : Act) : (step s a).1.nodes.length = s.nodes.length := by
  cases a <;> simp only [step] <;> (repeat' split) <;> simp [setNode]

/-- the same for any state whose node list is the old one with one record replaced -/
theorem noGain_nodes (s s' : St) (p : Nat) (x : Node) (e : s'.nodes = s.nodes.set p x)
    (hx : x.isLeader = true → (getNode s p).isLeader = true) (q : Nat) :
    (getNode s' q).isLeader = true → (getNode s q).isLeader = true := by
  have : getNode s' q = getNode (setNode s p x) q := by simp [getNode, setNode, e]
  rw [this]
  exact noGain_setNode s p x hx q

/-- no handler except `start` / `Promise` makes a node leader -/
theorem step_noGain (s : St) (a : Act) (hns : ∀ p, a ≠ .start p) (hnp : ∀ p bn, a ≠ .promise p bn) (q : Nat) :
    (getNode (step s a).1 q).isLeader = true → (getNode s q).isLeader = true := by
  cases a with
  | start p => exact absurd rfl (hns p)
  | promise p bnum => exact absurd rfl (hnp p bnum)
  | submit p c =>
    simp only [step]
    split
    · refine noGain_nodes s _ p _ rfl ?_ q
      rw [assignSlots_isLeader]; exact id
    · refine noGain_nodes s _ p _ rfl ?_ q
      exact id
  | prepare d b =>
    simp only [step]
    split
    · exact id
    · refine noGain_nodes s _ d _ rfl ?_ q
      intro hx; cases hx
  | accept d src b slot cmd ci =>
    simp only [step]
    split
    · exact id
    · refine noGain_nodes s _ d _ rfl ?_ q
      rw [advanceCommit_isLeader]
      split
      · exact id
      · split
        · split <;> exact id
        · exact id
  | accepted p slot =>
    simp only [step]
    split
    · refine noGain_nodes s _ p _ rfl ?_ q
      rw [advanceCommit_isLeader]; exact id
    · refine noGain_nodes s _ p _ rfl ?_ q
      exact id
  | hb d b ci =>
    simp only [step]
    split
    · refine noGain_nodes s _ d _ rfl ?_ q
      rw [advanceCommit_isLeader]; intro hx; cases hx
    · exact id
  | selfhb p b ci =>
    simp only [step]
    split
    · split <;> exact id
    · split
      · refine noGain_nodes s _ p _ rfl ?_ q
        rw [advanceCommit_isLeader]; intro hx; cases hx
      · exact id
  | nack p b =>
    simp only [step]
    split
    · refine noGain_nodes s _ p _ rfl ?_ q
      intro hx; cases hx
    · exact id

/-! ### observations that neither depose nor reinstate -/

def neutralD : LogObs → Bool
  | .pled _ _ _ => false
  | .prom _ _ _ _ => false
  | _ => true

theorem deposed_cons_neutral (q1 : Nat) (o : LogObs) (hist : List LogObs) (p : Nat) (h : neutralD o = true) :
    deposed q1 (o :: hist) p = deposed q1 hist p := by
  cases o <;> simp_all [neutralD, deposed]

theorem deposed_append_neutral (q1 : Nat) (p : Nat) : ∀ (l hist : List LogObs), (∀ o ∈ l, neutralD o = true) →
    deposed q1 (l ++ hist) p = deposed q1 hist p := by
  intro l
  induction l with
  | nil => intro hist _; rfl
  | cons o os ih =>
    intro hist hl
    rw [List.cons_append, deposed_cons_neutral q1 o _ p (hl o List.mem_cons_self)]
    exact ih hist (fun o' ho' => hl o' (List.mem_cons_of_mem _ ho'))

theorem deposed_reverse_neutral (q1 : Nat) (p : Nat) (l hist : List LogObs) (hl : ∀ o ∈ l, neutralD o = true) :
    deposed q1 (l.reverse ++ hist) p = deposed q1 hist p :=
  deposed_append_neutral q1 p l.reverse hist (fun o ho => hl o (List.mem_reverse.mp ho))

theorem propOf_mem (p : Nat) (ms : List Msg) : ∀ o ∈ ms.filterMap (propOf p), ∃ b s c, o = .prop p b s c := by
  intro o ho
  simp only [List.mem_filterMap] at ho
  obtain ⟨m, _, hm⟩ := ho
  cases m with
  | accept d b slot cmd ci => simp only [propOf, Option.some.injEq] at hm; exact ⟨b, slot, cmd, hm.symm⟩
  | _ => simp [propOf] at hm

theorem propOf_neutral (p : Nat) (ms : List Msg) : ∀ o ∈ ms.filterMap (propOf p), neutralD o = true := by
  intro o ho
  obtain ⟨b, s, c, rfl⟩ := propOf_mem p ms o ho
  rfl

theorem pcarsOf_neutral (dst b : Nat) (es : List Entry) (k : Nat) : ∀ o ∈ pcarsOf dst b k es, neutralD o = true := by
  intro o ho
  obtain ⟨k', c, rfl⟩ := pcarsOf_mem dst b es k o ho
  rfl

/-- a list of `Accept`s of a node that is not deposed passes the clause -/
theorem deposedSilent_props (q1 p : Nat) : ∀ (props hist : List LogObs),
    (∀ o ∈ props, ∃ b s c, o = .prop p b s c) → deposed q1 hist p = false →
    deposedSilent q1 hist props = true := by
  intro props
  induction props with
  | nil => intro _ _ _; rfl
  | cons o os ih =>
    intro hist hp hd
    obtain ⟨b, sl, c, rfl⟩ := hp _ List.mem_cons_self
    simp only [deposedSilent, checkAll, assignOk, hd, Bool.not_false, Bool.true_and]
    refine ih _ (fun o' ho' => hp o' (List.mem_cons_of_mem _ ho')) ?_
    rw [deposed_cons_neutral q1 _ _ p rfl]; exact hd

theorem deposedSilent_neutral_other (q1 : Nat) : ∀ (l hist : List LogObs),
    (∀ o ∈ l, ∃ d b k c, o = .pcar d b k c) → deposedSilent q1 hist l = true := by
  intro l
  induction l with
  | nil => intro _ _; rfl
  | cons o os ih =>
    intro hist hl
    obtain ⟨d, b, k, c, rfl⟩ := hl _ List.mem_cons_self
    simp only [deposedSilent, checkAll, assignOk, Bool.true_and]
    exact ih _ (fun o' ho' => hl o' (List.mem_cons_of_mem _ ho'))

/-! ### the invariant -/

def InvD (s : St) (hist : List LogObs) : Prop :=
  ∀ p, deposed s.q1 hist p = true → (getNode s p).isLeader = false

theorem bool_not_true_false {b : Bool} (h : b ≠ true) : b = false := by cases b <;> simp_all

/-- a phase-1 response (`start` or a delivered `Promise`): observation `prom p bn l0 l1` followed by `props` -/
theorem phase1_invD (s s' : St) (p bn : Nat) (hist props : List LogObs)
    (h : InvD s hist) (hq : s'.q1 = s.q1)
    (hprops : ∀ o ∈ props, ∃ b sl c, o = .prop p b sl c)
    (hother : ∀ q, q ≠ p → getNode s' q = getNode s q)
    (hlead : props ≠ [] → (getNode s' p).isLeader = true) :
    deposedSilent s.q1 hist (.prom p bn (getNode s p).isLeader (getNode s' p).isLeader :: props) = true ∧
    InvD s' ((LogObs.prom p bn (getNode s p).isLeader (getNode s' p).isLeader :: props).reverse ++ hist) := by
  have hneutral : ∀ o ∈ props, neutralD o = true := by
    intro o ho; obtain ⟨b, sl, c, rfl⟩ := hprops o ho; rfl
  -- deposedness of `p` right after the phase-1 observation
  have hdep : deposed s.q1 (.prom p bn (getNode s p).isLeader (getNode s' p).isLeader :: hist) p = true →
      (getNode s' p).isLeader = false ∧ deposed s.q1 hist p = true := by
    intro hd
    simp only [deposed, beq_self_eq_true, Bool.true_and] at hd
    split at hd
    · cases hd
    · rename_i hre
      have hl0 := h p hd
      rw [hl0] at hre
      simp only [Bool.not_false, Bool.true_or, Bool.and_true] at hre
      exact ⟨bool_not_true_false hre, hd⟩
  constructor
  · simp only [deposedSilent, checkAll, assignOk, Bool.true_and]
    by_cases hne : props = []
    · subst hne; rfl
    · refine deposedSilent_props s.q1 p props _ hprops ?_
      apply bool_not_true_false
      intro hd
      have := (hdep hd).1
      rw [hlead hne] at this
      cases this
  · intro q hd
    rw [hq] at hd
    simp only [List.reverse_cons, List.append_assoc, List.singleton_append] at hd
    rw [deposed_reverse_neutral s.q1 q props _ hneutral] at hd
    by_cases hqp : q = p
    · subst hqp
      exact (hdep hd).1
    · rw [hother q hqp]
      apply h q
      simp only [deposed] at hd
      have : (p == q) = false := by simp; omega
      simpa [this] using hd

theorem step_q1' (s : St) (a : Act) : (step s a).1.q1 = s.q1 := step_q1 s a

theorem prepare_msgs_noProp (p : Nat) (l : List Nat) (b : Nat) :
    (l.map fun d => Msg.prepare d b).filterMap (propOf p) = [] := by
  induction l with
  | nil => rfl
  | cons x xs ih => simp [propOf]

theorem step_invD (s : St) (a : Act) (hist : List LogObs) (ha : actor a < s.nodes.length) (h : InvD s hist) :
    deposedSilent s.q1 hist (obsStep s a) = true ∧ InvD (step s a).1 ((obsStep s a).reverse ++ hist) := by
  cases a with
  | start p =>
    simp only [actor] at ha
    have hother : ∀ q, q ≠ p → getNode (step s (.start p)).1 q = getNode s q := by
      intro q hqp
      simp only [step]
      split <;> exact getNode_setNode_ne s p q _ hqp
    have hlead : (step s (.start p)).2.filterMap (propOf p) ≠ [] → (getNode (step s (.start p)).1 p).isLeader = true := by
      simp only [step]
      split
      · intro _
        rw [getNode_setNode_eq s p _ ha]; exact becomeLeader_isLeader _ _ _
      · intro hne
        exact absurd (prepare_msgs_noProp p _ _) hne
    exact phase1_invD s (step s (.start p)).1 p (startNum s p) hist _ h (step_q1 s _) (propOf_mem p _) hother hlead
  | promise p bn =>
    simp only [actor] at ha
    have hother : ∀ q, q ≠ p → getNode (step s (.promise p bn)).1 q = getNode s q := by
      intro q hqp
      simp only [step]
      split
      · rfl
      · split <;> exact getNode_setNode_ne s p q _ hqp
    have hlead : (step s (.promise p bn)).2.filterMap (propOf p) ≠ [] → (getNode (step s (.promise p bn)).1 p).isLeader = true := by
      simp only [step]
      split
      · intro hne; exact absurd rfl hne
      · split
        · intro _
          rw [getNode_setNode_eq s p _ ha]; exact becomeLeader_isLeader _ _ _
        · intro hne; exact absurd rfl hne
    exact phase1_invD s (step s (.promise p bn)).1 p bn hist _ h (step_q1 s _) (propOf_mem p _) hother hlead
  | prepare d b =>
    simp only [obsStep]
    split
    · rename_i hgt
      refine ⟨rfl, ?_⟩
      simp only [step, hgt, if_true]
      exact h
    · rename_i hgt
      constructor
      · simp only [deposedSilent, checkAll, assignOk, Bool.true_and]
        exact deposedSilent_neutral_other _ _ _ (fun o ho => by obtain ⟨k', c, rfl⟩ := pcarsOf_mem _ _ _ _ o ho; exact ⟨_, _, _, _, rfl⟩)
      · intro q hd
        rw [step_q1] at hd
        simp only [List.reverse_cons, List.append_assoc, List.singleton_append] at hd
        rw [deposed_reverse_neutral s.q1 q _ _ (pcarsOf_neutral _ _ _ _)] at hd
        simp only [step, hgt, if_false]
        by_cases hqd : q = d
        · subst hqd
          exact isLeader_setNode_false s q _ rfl
        · rw [getNode_setNode_ne s d q _ hqd]
          apply h q
          have : (d == q) = false := by simp; omega
          simpa [deposed, this] using hd
  | submit p c =>
    have hng := step_noGain s (.submit p c) (by intro q; simp) (by intro q b; simp)
    simp only [obsStep]
    split
    · rename_i hl
      constructor
      · simp only [deposedSilent, checkAll, assignOk, Bool.and_true, Bool.not_eq_true']
        apply bool_not_true_false
        intro hd
        have := h p hd
        rw [hl] at this; cases this
      · intro q hd
        rw [step_q1] at hd
        simp only [List.reverse_cons, List.reverse_nil, List.nil_append, List.singleton_append] at hd
        rw [deposed_cons_neutral s.q1 _ _ q rfl] at hd
        apply bool_not_true_false
        intro hl'
        have := h q hd
        rw [hng q hl'] at this; cases this
    · refine ⟨rfl, ?_⟩
      intro q hd
      rw [step_q1] at hd
      simp only [List.reverse_nil, List.nil_append] at hd
      apply bool_not_true_false
      intro hl'
      have := h q hd
      rw [hng q hl'] at this; cases this
  | accept d src b slot cmd ci => exact other s _ hist h (by intro q; simp) (by intro q b; simp) (by intro q b; simp) (by intro q b; simp)
  | accepted p slot => exact other s _ hist h (by intro q; simp) (by intro q b; simp) (by intro q b; simp) (by intro q b; simp)
  | hb d b ci => exact other s _ hist h (by intro q; simp) (by intro q b; simp) (by intro q b; simp) (by intro q b; simp)
  | selfhb p b ci => exact other s _ hist h (by intro q; simp) (by intro q b; simp) (by intro q b; simp) (by intro q b; simp)
  | nack p b => exact other s _ hist h (by intro q; simp) (by intro q b; simp) (by intro q b; simp) (by intro q b; simp)
where
  /-- handlers whose observations are `acc` / `ack` / `prop` of nobody (no message of theirs is an `Accept`) -/
  other (s : St) (a : Act) (hist : List LogObs) (h : InvD s hist)
      (hns : ∀ p, a ≠ .start p) (hnp : ∀ p bn, a ≠ .promise p bn)
      (hnq : ∀ p b, a ≠ .prepare p b) (hnu : ∀ p c, a ≠ .submit p c) :
      deposedSilent s.q1 hist (obsStep s a) = true ∧ InvD (step s a).1 ((obsStep s a).reverse ++ hist) := by
    have hng := step_noGain s a hns hnp
    have hobs : ∀ o ∈ obsStep s a, (∃ d b k c, o = .acc d b k c) ∨ (∃ p k c0 c1 b c, o = .ack p k c0 c1 b c) := by
      intro o ho
      cases a with
      | start p => exact absurd rfl (hns p)
      | promise p bn => exact absurd rfl (hnp p bn)
      | prepare d b => exact absurd rfl (hnq d b)
      | submit p c => exact absurd rfl (hnu p c)
      | accepted p slot =>
        simp only [obsStep, List.mem_singleton] at ho
        exact Or.inr ⟨_, _, _, _, _, _, ho⟩
      | accept d src b slot cmd ci =>
        simp only [obsStep] at ho
        split at ho
        · cases ho
        · simp only [List.mem_singleton] at ho
          exact Or.inl ⟨_, _, _, _, ho⟩
      | hb d b ci =>
        simp only [obsStep, step] at ho
        split at ho <;> simp at ho
      | selfhb p b ci =>
        simp only [obsStep, step] at ho
        exfalso
        split at ho
        · split at ho
          · simp only [sendHeartbeat, List.filterMap_append, List.filterMap_map] at ho
            simp [propOf, Function.comp_def] at ho
          · simp at ho
        · split at ho <;> simp at ho
      | nack p b =>
        simp only [obsStep, step] at ho
        split at ho <;> simp at ho
    have hneutral : ∀ o ∈ obsStep s a, neutralD o = true := by
      intro o ho
      rcases hobs o ho with ⟨d, b, k, c, rfl⟩ | ⟨p, k, c0, c1, b, c, rfl⟩ <;> rfl
    constructor
    · unfold deposedSilent
      apply checkAll_of_forall
      intro o ho hh
      rcases hobs o ho with ⟨d, b, k, c, rfl⟩ | ⟨p, k, c0, c1, b, c, rfl⟩ <;> rfl
    · intro q hd
      rw [step_q1, deposed_reverse_neutral s.q1 q _ _ hneutral] at hd
      apply bool_not_true_false
      intro hl'
      have := h q hd
      rw [hng q hl'] at this; cases this

theorem run_deposedSilent : ∀ (as : List Act) (s : St) (hist : List LogObs), InvD s hist →
    (∀ a ∈ as, actor a < s.nodes.length) → deposedSilent s.q1 hist (obsRun s as) = true := by
  intro as
  induction as with
  | nil => intro s hist _ _; rfl
  | cons a as ih =>
    intro s hist h hr
    obtain ⟨h1, h2⟩ := step_invD s a hist (hr a List.mem_cons_self) h
    have := ih (step s a).1 _ h2 (fun a' ha' => by rw [step_len]; exact hr a' (List.mem_cons_of_mem _ ha'))
    rw [step_q1] at this
    unfold deposedSilent at *
    simp only [obsRun, checkAll_append, Bool.and_eq_true]
    exact ⟨h1, this⟩

/-! ### after a promise the node is not leader (no hypothesis on the node indices) -/

theorem obsStep_promiseClears (s : St) (a : Act) : ∀ o ∈ obsStep s a, promiseClearsOk o = true := by
  intro o ho
  cases a with
  | prepare d b =>
    simp only [obsStep] at ho
    split at ho
    · cases ho
    · rename_i hgt
      simp only [List.mem_cons] at ho
      rcases ho with rfl | ho
      · simp only [promiseClearsOk, step, hgt, if_false, Bool.not_eq_true']
        exact isLeader_setNode_false s d _ rfl
      · obtain ⟨k', c, rfl⟩ := pcarsOf_mem _ _ _ _ o ho; rfl
  | submit p c =>
    simp only [obsStep] at ho
    split at ho
    · simp only [List.mem_singleton] at ho; subst ho; rfl
    · cases ho
  | start p =>
    simp only [obsStep, List.mem_cons] at ho
    rcases ho with rfl | ho
    · rfl
    · obtain ⟨b, sl, c, rfl⟩ := propOf_mem _ _ o ho; rfl
  | promise p bn =>
    simp only [obsStep, List.mem_cons] at ho
    rcases ho with rfl | ho
    · rfl
    · obtain ⟨b, sl, c, rfl⟩ := propOf_mem _ _ o ho; rfl
  | accepted p slot =>
    simp only [obsStep, List.mem_singleton] at ho; subst ho; rfl
  | accept d src b slot cmd ci =>
    simp only [obsStep] at ho
    split at ho
    · cases ho
    · simp only [List.mem_singleton] at ho; subst ho; rfl
  | hb d b ci => simp only [obsStep] at ho; obtain ⟨b, sl, c, rfl⟩ := propOf_mem _ _ o ho; rfl
  | selfhb p b ci => simp only [obsStep] at ho; obtain ⟨b, sl, c, rfl⟩ := propOf_mem _ _ o ho; rfl
  | nack p b => simp only [obsStep] at ho; obtain ⟨b, sl, c, rfl⟩ := propOf_mem _ _ o ho; rfl

theorem run_promiseClears : ∀ (as : List Act) (s : St) (hist : List LogObs),
    promiseClears hist (obsRun s as) = true := by
  intro as s hist
  unfold promiseClears
  apply checkAll_of_forall
  intro o ho _
  induction as generalizing s with
  | nil => cases ho
  | cons a as ih =>
    simp only [obsRun, List.mem_append] at ho
    rcases ho with ho | ho
    · exact obsStep_promiseClears s a o ho
    · exact ih _ ho

end HappyModel.C12.MP
