import HappyModel.C12.Election
/-!
# C12 — the ring of `RingStrategy` when a node knows all of `0 … n-1`

`ringNext members d` (next node on the sorted ring of `members ∪ {d}`) is `(d + 1) % n` whenever `members`
is a duplicate-free list of exactly the indices below `n` (in any insertion order) and `d < n`.
-/
namespace HappyModel.C12.El

theorem insertSorted_perm (x : Nat) (l : List Nat) : (insertSorted x l).Perm (x :: l) := by
  induction l with
  | nil => exact List.Perm.refl _
  | cons y ys ih =>
    simp only [insertSorted]
    split
    · exact List.Perm.refl _
    · exact (List.Perm.cons y ih).trans (List.Perm.swap x y ys)

theorem sortNat_cons (x : Nat) (l : List Nat) : sortNat (x :: l) = insertSorted x (sortNat l) := rfl

theorem sortNat_perm (l : List Nat) : (sortNat l).Perm l := by
  induction l with
  | nil => exact List.Perm.refl _
  | cons x xs ih => rw [sortNat_cons]; exact (insertSorted_perm x _).trans (List.Perm.cons x ih)

theorem insertSorted_sorted (x : Nat) (l : List Nat) (h : l.Pairwise (· ≤ ·)) :
    (insertSorted x l).Pairwise (· ≤ ·) := by
  induction l with
  | nil => simp [insertSorted]
  | cons y ys ih =>
    have h' := List.pairwise_cons.1 h
    simp only [insertSorted]
    split
    · rename_i hxy
      refine List.Pairwise.cons ?_ h
      intro z hz
      rcases List.mem_cons.1 hz with rfl | hz
      · exact hxy
      · exact Nat.le_trans hxy (h'.1 z hz)
    · rename_i hxy
      refine List.Pairwise.cons ?_ (ih h'.2)
      intro z hz
      have hz' := (insertSorted_perm x ys).subset hz
      rcases List.mem_cons.1 hz' with rfl | hz''
      · omega
      · exact h'.1 z hz''

theorem sortNat_sorted (l : List Nat) : (sortNat l).Pairwise (· ≤ ·) := by
  induction l with
  | nil => simp [sortNat]
  | cons x xs ih => rw [sortNat_cons]; exact insertSorted_sorted x _ ih

/-- sorting a duplicate-free list of exactly the naturals below `n` gives `0, 1, …, n-1` -/
theorem sortNat_eq_range (l : List Nat) (n : Nat) (hnd : l.Nodup) (hm : ∀ x, x ∈ l ↔ x < n) :
    sortNat l = List.range n := by
  have hp : (sortNat l).Perm (List.range n) :=
    (sortNat_perm l).trans ((List.perm_ext_iff_of_nodup hnd List.nodup_range).2 (by intro a; simp [hm]))
  refine List.Perm.eq_of_pairwise (le := (· ≤ ·)) ?_ (sortNat_sorted l) ?_ hp
  · intro a b _ _ h1 h2; exact Nat.le_antisymm h1 h2
  · exact List.pairwise_lt_range.imp Nat.le_of_lt

theorem ringNext_eq (members : List Nat) (n d : Nat) (hnd : members.Nodup)
    (hm : ∀ x, x ∈ members ↔ x < n) (hd : d < n) : ringNext members d = (d + 1) % n := by
  have hL : sortNat (members.filter (· != d) ++ [d]) = List.range n := by
    apply sortNat_eq_range
    · rw [List.nodup_append]
      refine ⟨hnd.filter _, by simp, ?_⟩
      intro a ha b hb
      simp only [List.mem_filter, bne_iff_ne, ne_eq] at ha
      simp only [List.mem_singleton] at hb
      subst hb; exact ha.2
    · intro x
      simp only [List.mem_append, List.mem_filter, bne_iff_ne, ne_eq, List.mem_singleton, hm]
      constructor
      · rintro (⟨h, _⟩ | rfl)
        · exact h
        · exact hd
      · intro h
        by_cases hx : x = d
        · exact Or.inr hx
        · exact Or.inl ⟨h, hx⟩
  have hidx : (List.range n).findIdx? (· == d) = some d := by
    rw [List.findIdx?_eq_some_iff_getElem]
    refine ⟨by simpa using hd, by simp, ?_⟩
    intro j hj
    simp only [List.getElem_range, beq_iff_eq]
    omega
  have hlt : (d + 1) % n < n := Nat.mod_lt _ (by omega)
  unfold ringNext
  simp only [hL, hidx, Option.getD_some, List.length_range]
  simp [List.getD_eq_getElem?_getD, hlt]

end HappyModel.C12.El
