import HappyProofs.C12.PxStepC
namespace HappyModel.C12.Px

/-- Sem survives raising one acceptor's promise (votes, accepted, started2 unchanged), possibly with a
    new promise-ledger entry for that acceptor -/
theorem sem_raise_promise {s : St} (h : Sem s) (d b : Nat) (hdn : d < s.cfg.n)
    (hle : leOpt (s.acc d).promised b) (newProms : List (Nat × Nat × AccV))
    (hnew : ∀ x, x ∈ newProms → x ∈ s.proms ∨ x = (d, b, (s.acc d).accepted)) :
    Sem { s with acc := upd s.acc d { (s.acc d) with promised := some b }, proms := newProms } := by
  have hge : ∀ a c, PromGe s a c →
      PromGe { s with acc := upd s.acc d { (s.acc d) with promised := some b }, proms := newProms } a c := by
    intro a c ⟨q, hq, hqc⟩
    by_cases had : a = d
    · subst had; exact ⟨b, by simp, by have := leOpt_some hle hq; omega⟩
    · exact ⟨q, by simp [upd_other _ _ _ _ had]; exact hq, hqc⟩
  refine ⟨h.one, ?_, ?_, ?_, ?_, ?_⟩
  · intro a b' v' hv'
    obtain ⟨a1, a2⟩ := h.vprom a b' v' hv'
    exact ⟨a1, hge a b' a2⟩
  · intro a b' v' hacc
    by_cases had : a = d
    · subst had; simp at hacc; exact h.vacc a b' v' hacc
    · simp [upd_other _ _ _ _ had] at hacc; exact h.vacc a b' v' hacc
  · intro a b' v' hv'
    obtain ⟨b2, v2, c1, c2⟩ := h.vmax a b' v' hv'
    refine ⟨b2, v2, ?_, c2⟩
    by_cases had : a = d
    · subst had; simp; exact c1
    · simp [upd_other _ _ _ _ had]; exact c1
  · intro f b0 r hpr
    rcases hnew _ hpr with hold | hnw
    · obtain ⟨a1, a2, a3, a4⟩ := h.pr f b0 r hold
      exact ⟨a1, hge f b0 a2, a3, a4⟩
    · simp at hnw; obtain ⟨rfl, rfl, rfl⟩ := hnw
      refine ⟨hdn, ⟨b0, by simp, Nat.le_refl _⟩, ?_, ?_⟩
      · intro b' v' hv' hlt
        obtain ⟨bo, vo, c1, c2⟩ := h.vmax f b' v' hv'
        exact ⟨bo, vo, c1, c2⟩
      · intro bm vm hr
        have hv := h.vacc f bm vm hr
        obtain ⟨_, q, hq, hqb⟩ := h.vprom f bm vm hv
        exact ⟨hv, by have := leOpt_some hle hq; omega⟩
  · intro b' v' hs'
    refine safeAt_mono (s := s) ?_ ?_ ?_ ?_ (h.safe b' v' hs')
    · rfl
    · exact fun _ hx => hx
    · intro a q hq
      by_cases had : a = d
      · subst had; exact ⟨b, by simp, leOpt_some hle hq⟩
      · exact ⟨q, by simp [upd_other _ _ _ _ had]; exact hq, Nat.le_refl _⟩
    · intro a c v'' hx; exact Or.inl hx

theorem recvPrepare_inv (s : St) (b d : Nat) (inv : Inv s) : Inv (step s (.recvPrepare b d)) := by
  unfold step
  simp only []
  split
  · rename_i hc
    obtain ⟨hslot, hdn⟩ := hc
    obtain ⟨_, hnoprom, hnotin⟩ := inv.n1.prep b d hslot
    split
    · rename_i hle
      refine ⟨⟨?_, ?_, ?_, ?_⟩, inv.n2.frame rfl rfl rfl rfl rfl rfl rfl, ?_,
              inv.learn.frame rfl rfl rfl (fun _ h => h)⟩
      · intro b' d' hb'
        obtain ⟨hb1, hb2⟩ := upd2_false_true hb'
        obtain ⟨a1, a2, a3⟩ := inv.n1.prep b' d' hb1
        refine ⟨a1, ?_, a3⟩
        simp only [upd2_eq]; split
        · rename_i h; exact absurd h hb2
        · exact a2
      · intro b' f' r hb'
        simp only [upd2_eq] at hb'
        split at hb'
        · rename_i h; obtain ⟨rfl, rfl⟩ := h
          cases hb'
          exact ⟨hdn, hnotin, List.mem_cons_self⟩
        · obtain ⟨a1, a2, a3⟩ := inv.n1.prom b' f' r hb'
          exact ⟨a1, a2, List.mem_cons_of_mem _ a3⟩
      · intro b'
        obtain ⟨a1, a2⟩ := inv.n1.p1 b'
        exact ⟨a1, fun f r hfr => ⟨(a2 f r hfr).1, List.mem_cons_of_mem _ (a2 f r hfr).2⟩⟩
      · intro b' hb'
        obtain ⟨a1, a2⟩ := inv.n1.fresh b' hb'
        refine ⟨a1, fun d' => ⟨upd2_false_of (a2 d').1, ?_⟩⟩
        simp only [upd2_eq]; split
        · rename_i h; obtain ⟨rfl, rfl⟩ := h
          have := (a2 d').1; rw [hslot] at this; cases this
        · exact (a2 d').2
      · have := sem_raise_promise inv.sem d b hdn hle ((d, b, (s.acc d).accepted) :: s.proms)
          (by intro x hx; rcases List.mem_cons.mp hx with h | h
              · exact Or.inr h
              · exact Or.inl h)
        exact this.frame rfl rfl rfl rfl rfl
    · exact ⟨clearPrep_net1 inv.n1 b d, inv.n2.frame rfl rfl rfl rfl rfl rfl rfl,
             inv.sem.frame rfl rfl rfl rfl rfl, inv.learn.frame rfl rfl rfl (fun _ h => h)⟩
  · exact inv

end HappyModel.C12.Px
