import HappyProofs.C12.PxFut
import HappyProofs.C12.PxLiveEx
/-!
# C12 — single-decree Paxos, bounded progress: a single proposer whose quorum traffic is delivered decides

Message-soup model `Px` (repaired code).  One ballot `b` of proposer `p = b % n` exists; the schedule after
`propose` consists of deliveries of ballot-`b` traffic and of `Decided` messages, to any nodes, in any order, with
repetitions (a delivery from an empty slot is a no-op).  Loss = a message that is never delivered.
-/
namespace HappyModel.C12.Px

theorem upd2_apply {β} (f : Nat → Nat → β) (i j : Nat) (x : β) (a c : Nat) :
    upd2 f i j x a c = if a = i ∧ c = j then x else f a c := by simp [upd2]

theorem nodup_subset_length : ∀ (l m : List Nat), l.Nodup → (∀ x ∈ l, x ∈ m) → l.length ≤ m.length := by
  intro l
  induction l with
  | nil => intro m _ _; simp
  | cons x xs ih =>
    intro m hnd hsub
    have hx : x ∈ m := hsub x List.mem_cons_self
    have hnd' := List.nodup_cons.1 hnd
    have := ih (m.erase x) hnd'.2 (by
      intro y hy
      have hne : y ≠ x := fun e => hnd'.1 (e ▸ hy)
      exact (List.mem_erase_of_ne hne).2 (hsub y (List.mem_cons_of_mem _ hy)))
    rw [List.length_erase_of_mem hx] at this
    have hpos : 0 < m.length := List.length_pos_of_mem hx
    simp only [List.length_cons]; omega

/-- deliveries of ballot-`b` traffic and of `Decided` messages -/
def DelivB (b : Nat) : Act → Prop
  | .recvPrepare b' _ => b' = b
  | .recvPromise b' _ => b' = b
  | .recvAccept b' _ => b' = b
  | .recvAccepted b' _ => b' = b
  | .recvDecided _ _ => True
  | _ => False

/-- `Decided` messages are never addressed to the node that decided -/
def NotTo (p : Nat) : Act → Prop
  | .recvDecided _ d => d ≠ p
  | _ => True

section
variable (n q1 q2 p b : Nat) (v : Val)

/-- cumulative stages of acceptor `d` in phase 1 / phase 2 of ballot `b` -/
def S2 (s : St) (d : Nat) : Prop := d ∈ (s.p1 b).map (·.1)
def S1 (s : St) (d : Nat) : Prop := (s.mProm b d).isSome ∨ S2 b s d
def S0 (s : St) (d : Nat) : Prop := s.mPrep b d = true ∨ S1 b s d
def T2 (s : St) (d : Nat) : Prop := d ∈ s.acks b
def T1 (s : St) (d : Nat) : Prop := s.mAcptd b d = true ∨ T2 b s d
def T0 (s : St) (d : Nat) : Prop := (s.mAcpt b d).isSome ∨ T1 b s d

structure G (s : St) : Prop where
  cfg : s.cfg = ⟨n, q1, q2⟩
  own : (s.ownVal b).isSome
  live : s.live b = true
  fut : s.futOf b = some 0
  pl : ∀ d, leOpt (s.acc d).promised b
  selfp : (s.acc p).promised = some b
  pdec : (s.decided p).isSome → s.futRes 0 = s.decided p
  i1 : q1 ≤ (s.p1 b).length → (s.started2 b).isSome
  i2 : (s.started2 b).isSome → T2 b s p ∧ (∀ d, d ≠ p → d < n → T0 b s d) ∧
        (q2 ≤ (s.acks b).length → (s.decided p).isSome)
  pre : (s.started2 b).isNone → s.acks b = [] ∧ ∀ d, s.mAcptd b d = false ∧ s.mAcpt b d = none
  dec : (s.decided p).isSome → ∀ d, d ≠ p → d < n → (s.decided d).isSome ∨ s.mDec p d = s.decided p
  pv : s.proposedVals = [v]

/-- stages never go back -/
structure Mono (s s' : St) : Prop where
  s0 : ∀ d, S0 b s d → S0 b s' d
  s1 : ∀ d, S1 b s d → S1 b s' d
  s2 : ∀ d, S2 b s d → S2 b s' d
  t0 : ∀ d, T0 b s d → T0 b s' d
  t1 : ∀ d, T1 b s d → T1 b s' d
  t2 : ∀ d, T2 b s d → T2 b s' d
  dc : ∀ d, (s.decided d).isSome → (s'.decided d).isSome
  st : (s.started2 b).isSome → (s'.started2 b).isSome

theorem Mono.refl (s : St) : Mono b s s := ⟨fun _ h => h, fun _ h => h, fun _ h => h, fun _ h => h, fun _ h => h, fun _ h => h, fun _ h => h, fun h => h⟩

theorem Mono.trans {s s' s'' : St} (h1 : Mono b s s') (h2 : Mono b s' s'') : Mono b s s'' :=
  ⟨fun d h => h2.s0 d (h1.s0 d h), fun d h => h2.s1 d (h1.s1 d h), fun d h => h2.s2 d (h1.s2 d h),
   fun d h => h2.t0 d (h1.t0 d h), fun d h => h2.t1 d (h1.t1 d h), fun d h => h2.t2 d (h1.t2 d h),
   fun d h => h2.dc d (h1.dc d h), fun h => h2.st (h1.st h)⟩

/-! ### `Prepare` delivered -/

theorem prepare_step (s : St) (d : Nat) (g : G n q1 q2 p b v s) :
    G n q1 q2 p b v (step s (.recvPrepare b d)) ∧ Mono b s (step s (.recvPrepare b d)) ∧
    (d < n → S0 b s d → S1 b (step s (.recvPrepare b d)) d) := by
  by_cases hc : s.mPrep b d = true ∧ d < s.cfg.n
  · have hle : leOpt (s.acc d).promised b := g.pl d
    have e : step s (.recvPrepare b d) =
        { s with mPrep := upd2 s.mPrep b d false,
                 acc := upd s.acc d { (s.acc d) with promised := some b },
                 proms := (d, b, (s.acc d).accepted) :: s.proms,
                 mProm := upd2 s.mProm b d (some (s.acc d).accepted) } := by
      simp only [step, if_pos hc, if_pos hle]
    rw [e]
    refine ⟨⟨g.cfg, g.own, g.live, g.fut, ?_, ?_, g.pdec, g.i1, g.i2, g.pre, g.dec, g.pv⟩, ⟨?_, ?_, fun _ h => h, fun _ h => h, fun _ h => h, fun _ h => h, fun _ h => h, fun h => h⟩, ?_⟩
    · intro d'
      simp only [upd]
      split
      · simp [leOpt]
      · exact g.pl d'
    · simp only [upd]
      split
      · rfl
      · exact g.selfp
    · intro d' h
      rcases h with h | h | h
      · by_cases hd : d' = d
        · subst hd; right; left; simp [upd2_apply]
        · left; simp only [upd2_apply]; rw [if_neg (by intro hh; exact hd hh.2)]; exact h
      · right; left
        simp only [upd2_apply]; split
        · rfl
        · exact h
      · right; right; exact h
    · intro d' h
      rcases h with h | h
      · left
        simp only [upd2_apply]; split
        · rfl
        · exact h
      · right; exact h
    · intro _ _
      left; simp [upd2_apply]
  · have e : step s (.recvPrepare b d) = s := by simp only [step, if_neg hc]
    rw [e]
    refine ⟨g, Mono.refl b s, ?_⟩
    intro hd h
    rcases h with h | h
    · exact absurd ⟨h, by rw [g.cfg]; exact hd⟩ hc
    · exact h

/-! ### `Accept` delivered -/

theorem accept_step (s : St) (d : Nat) (g : G n q1 q2 p b v s) :
    G n q1 q2 p b v (step s (.recvAccept b d)) ∧ Mono b s (step s (.recvAccept b d)) ∧
    (d < n → T0 b s d → T1 b (step s (.recvAccept b d)) d) := by
  cases hm : s.mAcpt b d with
  | none =>
    have e : step s (.recvAccept b d) = s := by simp only [step, hm]
    rw [e]
    refine ⟨g, Mono.refl b s, ?_⟩
    intro _ h
    rcases h with h | h
    · rw [hm] at h; cases h
    · exact h
  | some w =>
    by_cases hd : d < s.cfg.n
    · have hle : leOpt (s.acc d).promised b := g.pl d
      have e : step s (.recvAccept b d) =
          { s with mAcpt := upd2 s.mAcpt b d none,
                   acc := upd s.acc d { promised := some b, accepted := some (b, w) },
                   votes := (d, b, w) :: s.votes,
                   mAcptd := upd2 s.mAcptd b d true } := by
        simp only [step, hm, if_pos hd, if_pos hle]
      rw [e]
      have t1m : ∀ d', T1 b s d' → T1 b { s with mAcpt := upd2 s.mAcpt b d none, acc := upd s.acc d { promised := some b, accepted := some (b, w) }, votes := (d, b, w) :: s.votes, mAcptd := upd2 s.mAcptd b d true } d' := by
        intro d' h
        rcases h with h | h
        · left; simp only [upd2_apply]; split
          · rfl
          · exact h
        · right; exact h
      have t0m : ∀ d', T0 b s d' → T0 b { s with mAcpt := upd2 s.mAcpt b d none, acc := upd s.acc d { promised := some b, accepted := some (b, w) }, votes := (d, b, w) :: s.votes, mAcptd := upd2 s.mAcptd b d true } d' := by
        intro d' h
        rcases h with h | h
        · by_cases hdd : d' = d
          · subst hdd; right; left; simp [upd2_apply]
          · left; simp only [upd2_apply]; rw [if_neg (by intro hh; exact hdd hh.2)]; exact h
        · right; exact t1m d' h
      have hst : (s.started2 b).isSome := by
        cases hs : s.started2 b with
        | some _ => rfl
        | none => have := ((g.pre (by rw [hs]; rfl)).2 d).2; rw [hm] at this; cases this
      refine ⟨⟨g.cfg, g.own, g.live, g.fut, ?_, ?_, g.pdec, g.i1, ?_, (fun h => by rw [Option.isNone_iff_eq_none] at h; rw [h] at hst; cases hst), g.dec, g.pv⟩, ⟨fun _ h => h, fun _ h => h, fun _ h => h, t0m, t1m, fun _ h => h, fun _ h => h, fun h => h⟩, ?_⟩
      · intro d'
        simp only [upd]
        split
        · simp [leOpt]
        · exact g.pl d'
      · simp only [upd]
        split
        · rfl
        · exact g.selfp
      · intro hs
        obtain ⟨a1, a2, a3⟩ := g.i2 hs
        exact ⟨a1, fun d' h1 h2 => t0m d' (a2 d' h1 h2), a3⟩
      · intro _ _
        left; simp [upd2_apply]
    · have e : step s (.recvAccept b d) = s := by simp only [step, hm, if_neg hd]
      rw [e]
      refine ⟨g, Mono.refl b s, ?_⟩
      intro hdn _
      exact absurd (by rw [g.cfg]; exact hdn) hd

/-! ### `Decided` delivered (to a node other than the proposer) -/

theorem decided_step (s : St) (f d : Nat) (hd : d ≠ p) (g : G n q1 q2 p b v s) :
    G n q1 q2 p b v (step s (.recvDecided f d)) ∧ Mono b s (step s (.recvDecided f d)) := by
  cases hm : s.mDec f d with
  | none =>
    have e : step s (.recvDecided f d) = s := by simp only [step, hm]
    rw [e]; exact ⟨g, Mono.refl b s⟩
  | some w =>
    by_cases hdec : (s.decided d).isSome
    · have e : step s (.recvDecided f d) = { s with mDec := upd2 s.mDec f d none } := by
        simp only [step, hm, if_pos hdec]
      rw [e]
      refine ⟨⟨g.cfg, g.own, g.live, g.fut, g.pl, g.selfp, g.pdec, g.i1, g.i2, g.pre, ?_, g.pv⟩, ⟨fun _ h => h, fun _ h => h, fun _ h => h, fun _ h => h, fun _ h => h, fun _ h => h, fun _ h => h, fun h => h⟩⟩
      intro h d' h1 h2
      rcases g.dec h d' h1 h2 with h3 | h3
      · left; exact h3
      · by_cases hdd : d' = d
        · subst hdd; left; exact hdec
        · right; simp only [upd2_apply]; rw [if_neg (by intro hh; exact hdd hh.2)]; exact h3
    · have e : step s (.recvDecided f d) = { s with mDec := upd2 s.mDec f d none, decided := upd s.decided d (some w) } := by
        simp only [step, hm, if_neg hdec]
      rw [e]
      have hp : upd s.decided d (some w) p = s.decided p := upd_other _ _ _ _ (fun e => hd e.symm)
      refine ⟨⟨g.cfg, g.own, g.live, g.fut, g.pl, g.selfp, ?_, g.i1, ?_, g.pre, ?_, g.pv⟩, ⟨fun _ h => h, fun _ h => h, fun _ h => h, fun _ h => h, fun _ h => h, fun _ h => h, ?_, fun h => h⟩⟩
      · intro h; simp only [hp] at h ⊢; exact g.pdec h
      · intro hs
        obtain ⟨a1, a2, a3⟩ := g.i2 hs
        exact ⟨a1, a2, fun h => by simp only [hp]; exact a3 h⟩
      · intro h d' h1 h2
        simp only [hp] at h ⊢
        by_cases hdd : d' = d
        · subst hdd; left; simp [upd]
        · rcases g.dec h d' h1 h2 with h3 | h3
          · left; simp only [upd]; rw [if_neg hdd]; exact h3
          · right; simp only [upd2_apply]; rw [if_neg (by intro hh; exact hdd hh.2)]; exact h3
      · intro d' h
        simp only [upd]
        split
        · rfl
        · exact h

/-! ### `_decide` -/

theorem decide_G (t : St) (w : Val) (hb : b % n = p) (hcfg : t.cfg = ⟨n, q1, q2⟩) (own : (t.ownVal b).isSome)
    (live : t.live b = true) (fut : t.futOf b = some 0) (pl : ∀ d, leOpt (t.acc d).promised b)
    (selfp : (t.acc p).promised = some b) (pdec : (t.decided p).isSome → t.futRes 0 = t.decided p)
    (i1 : q1 ≤ (t.p1 b).length → (t.started2 b).isSome)
    (i2 : (t.started2 b).isSome → T2 b t p ∧ (∀ d, d ≠ p → d < n → T0 b t d))
    (pre : (t.started2 b).isNone → t.acks b = [] ∧ ∀ d, t.mAcptd b d = false ∧ t.mAcpt b d = none)
    (dec : (t.decided p).isSome → ∀ d, d ≠ p → d < n → (t.decided d).isSome ∨ t.mDec p d = t.decided p)
    (pv : t.proposedVals = [v]) :
    G n q1 q2 p b v (decide_ t b w) ∧ Mono b t (decide_ t b w) := by
  by_cases hdec : (t.decided p).isSome
  · have e : decide_ t b w = t := by simp only [decide_, hcfg, hb, if_pos hdec]
    rw [e]
    exact ⟨⟨hcfg, own, live, fut, pl, selfp, pdec, i1, fun hs => ⟨(i2 hs).1, (i2 hs).2, fun _ => hdec⟩, pre, dec, pv⟩, Mono.refl b t⟩
  · have e : decide_ t b w = { t with decided := upd t.decided p (some w), mDec := (fun f d => if f = p ∧ d ≠ p ∧ d < n then some w else t.mDec f d), futRes := upd t.futRes 0 (some w) } := by
      simp only [decide_, hcfg, hb, if_neg hdec, fut]
    rw [e]
    refine ⟨⟨hcfg, own, live, fut, pl, selfp, ?_, i1, ?_, pre, ?_, pv⟩, ⟨fun _ h => h, fun _ h => h, fun _ h => h, fun _ h => h, fun _ h => h, fun _ h => h, ?_, fun h => h⟩⟩
    · intro _; simp [upd]
    · intro hs; exact ⟨(i2 hs).1, (i2 hs).2, fun _ => by simp [upd]⟩
    · intro _ d h1 h2
      right
      simp [upd, h1, h2]
    · intro d h
      simp only [upd]; split
      · rfl
      · exact h

/-! ### `Accepted` delivered -/

theorem accepted_step (s : St) (f : Nat) (hb : b % n = p) (g : G n q1 q2 p b v s) :
    G n q1 q2 p b v (step s (.recvAccepted b f)) ∧ Mono b s (step s (.recvAccepted b f)) ∧
    (T1 b s f → T2 b (step s (.recvAccepted b f)) f) := by
  by_cases hm : s.mAcptd b f = true
  · -- the state after counting the acknowledgement, before `_decide`
    have t2m : ∀ d', T2 b s d' → T2 b { s with mAcptd := upd2 s.mAcptd b f false, acks := upd s.acks b (f :: s.acks b) } d' := by
      intro d' h; show d' ∈ upd s.acks b (f :: s.acks b) b; rw [upd_same]; exact List.mem_cons_of_mem _ h
    have t2f : T2 b { s with mAcptd := upd2 s.mAcptd b f false, acks := upd s.acks b (f :: s.acks b) } f := by
      show f ∈ upd s.acks b (f :: s.acks b) b; rw [upd_same]; exact List.mem_cons_self
    have t1m : ∀ d', T1 b s d' → T1 b { s with mAcptd := upd2 s.mAcptd b f false, acks := upd s.acks b (f :: s.acks b) } d' := by
      intro d' h
      by_cases hd : d' = f
      · subst hd; right; exact t2f
      · rcases h with h | h
        · left; simp only [upd2_apply]; rw [if_neg (by intro hh; exact hd hh.2)]; exact h
        · right; exact t2m d' h
    have t0m : ∀ d', T0 b s d' → T0 b { s with mAcptd := upd2 s.mAcptd b f false, acks := upd s.acks b (f :: s.acks b) } d' := by
      intro d' h
      rcases h with h | h
      · left; exact h
      · right; exact t1m d' h
    have mono1 : Mono b s { s with mAcptd := upd2 s.mAcptd b f false, acks := upd s.acks b (f :: s.acks b) } :=
      ⟨fun _ h => h, fun _ h => h, fun _ h => h, t0m, t1m, t2m, fun _ h => h, fun h => h⟩
    have i2' : (s.started2 b).isSome → T2 b { s with mAcptd := upd2 s.mAcptd b f false, acks := upd s.acks b (f :: s.acks b) } p ∧
        (∀ d, d ≠ p → d < n → T0 b { s with mAcptd := upd2 s.mAcptd b f false, acks := upd s.acks b (f :: s.acks b) } d) := by
      intro hs
      obtain ⟨a1, a2, _⟩ := g.i2 hs
      exact ⟨t2m p a1, fun d h1 h2 => t0m d (a2 d h1 h2)⟩
    cases hs : s.started2 b with
    | none =>
      have e : step s (.recvAccepted b f) = { s with mAcptd := upd2 s.mAcptd b f false, acks := upd s.acks b (f :: s.acks b) } := by
        simp only [step, if_pos hm, g.live, if_true, hs]
      rw [e]
      exfalso
      have := ((g.pre (by rw [hs]; rfl)).2 f).1; rw [hm] at this; cases this
    | some w =>
      by_cases hq : s.cfg.q2 ≤ (f :: s.acks b).length
      · have e : step s (.recvAccepted b f) = decide_ { s with mAcptd := upd2 s.mAcptd b f false, acks := upd s.acks b (f :: s.acks b) } b w := by
          simp only [step, if_pos hm, g.live, if_true, hs, upd_same, if_pos hq]
        rw [e]
        obtain ⟨g', m'⟩ := decide_G n q1 q2 p b v { s with mAcptd := upd2 s.mAcptd b f false, acks := upd s.acks b (f :: s.acks b) } w hb
          g.cfg g.own g.live g.fut g.pl g.selfp g.pdec g.i1 (fun h => i2' (by rw [hs]; rfl))
          (fun h => by rw [show ({ s with mAcptd := upd2 s.mAcptd b f false, acks := upd s.acks b (f :: s.acks b) } : St).started2 b = s.started2 b from rfl, hs] at h; cases h)
          g.dec g.pv
        exact ⟨g', Mono.trans b mono1 m', fun _ => m'.t2 f t2f⟩
      · have e : step s (.recvAccepted b f) = { s with mAcptd := upd2 s.mAcptd b f false, acks := upd s.acks b (f :: s.acks b) } := by
          simp only [step, if_pos hm, g.live, if_true, hs, upd_same, if_neg hq]
        rw [e]
        refine ⟨⟨g.cfg, g.own, g.live, g.fut, g.pl, g.selfp, g.pdec, g.i1, ?_, (fun h => by rw [show ({ s with mAcptd := upd2 s.mAcptd b f false, acks := upd s.acks b (f :: s.acks b) } : St).started2 b = s.started2 b from rfl, hs] at h; cases h), g.dec, g.pv⟩, mono1, fun _ => t2f⟩
        intro h
        obtain ⟨a1, a2⟩ := i2' (by rw [hs]; rfl)
        refine ⟨a1, a2, ?_⟩
        intro hq'
        exfalso; apply hq
        rw [g.cfg]
        have : ({ s with mAcptd := upd2 s.mAcptd b f false, acks := upd s.acks b (f :: s.acks b) } : St).acks b = f :: s.acks b := upd_same _ _ _
        rw [this] at hq'; exact hq'
  · have e : step s (.recvAccepted b f) = s := by simp only [step, if_neg hm]
    rw [e]
    refine ⟨g, Mono.refl b s, ?_⟩
    intro h
    rcases h with h | h
    · exact absurd h hm
    · exact h

/-! ### `Promise` delivered; `_start_phase2` -/

/-- the state `_start_phase2` builds before it looks at the acknowledgement count -/
def startSt (t : St) : St :=
  { t with started2 := upd t.started2 b (some (phase2Val t b)), acc := upd t.acc p { (t.acc p) with accepted := some (b, phase2Val t b) }, acks := upd t.acks b [p], votes := (p, b, phase2Val t b) :: t.votes, mAcpt := (fun b' d => if b' = b ∧ d ≠ p ∧ d < n then some (phase2Val t b) else t.mAcpt b' d) }

theorem startPhase2_eq (t : St) (hb : b % n = p) (hcfg : t.cfg = ⟨n, q1, q2⟩) (selfp : (t.acc p).promised = some b) :
    startPhase2 t b = if q2 ≤ 1 then decide_ (startSt n p b t) b (phase2Val t b) else startSt n p b t := by
  simp [startPhase2, startSt, hcfg, hb, selfp]

/-- `G` without the two quorum guards (they do not hold between counting the promise and starting phase 2) -/
structure Gw (s : St) : Prop where
  cfg : s.cfg = ⟨n, q1, q2⟩
  own : (s.ownVal b).isSome
  live : s.live b = true
  fut : s.futOf b = some 0
  pl : ∀ d, leOpt (s.acc d).promised b
  selfp : (s.acc p).promised = some b
  pdec : (s.decided p).isSome → s.futRes 0 = s.decided p
  pre : (s.started2 b).isNone → s.acks b = [] ∧ ∀ d, s.mAcptd b d = false ∧ s.mAcpt b d = none
  dec : (s.decided p).isSome → ∀ d, d ≠ p → d < n → (s.decided d).isSome ∨ s.mDec p d = s.decided p
  pv : s.proposedVals = [v]

theorem start_G (t : St) (hb : b % n = p) (g : Gw n q1 q2 p b v t) (hnone : t.started2 b = none) :
    G n q1 q2 p b v (startPhase2 t b) ∧ Mono b t (startPhase2 t b) ∧ ((startPhase2 t b).started2 b).isSome := by
  obtain ⟨hacks, hpre⟩ := g.pre (by rw [hnone]; rfl)
  have hst : ((startSt n p b t).started2 b).isSome := by simp [startSt]
  have mono : Mono b t (startSt n p b t) := by
    refine ⟨fun _ h => h, fun _ h => h, fun _ h => h, ?_, ?_, ?_, fun _ h => h, fun _ => hst⟩
    · intro d h
      rcases h with h | h | h
      · rw [(hpre d).2] at h; cases h
      · rw [(hpre d).1] at h; cases h
      · unfold T2 at h; rw [hacks] at h; cases h
    · intro d h
      rcases h with h | h
      · rw [(hpre d).1] at h; cases h
      · unfold T2 at h; rw [hacks] at h; cases h
    · intro d h
      unfold T2 at h; rw [hacks] at h; cases h
  have hT2 : T2 b (startSt n p b t) p := by simp [T2, startSt]
  have hT0 : ∀ d, d ≠ p → d < n → T0 b (startSt n p b t) d := by
    intro d h1 h2; left; simp [startSt, h1, h2]
  have hacks' : (startSt n p b t).acks b = [p] := by simp [startSt]
  have hpl : ∀ d, leOpt ((startSt n p b t).acc d).promised b := by
    intro d
    simp only [startSt, upd]
    split
    · rename_i h; subst h; exact g.pl d
    · exact g.pl d
  have hselfp : ((startSt n p b t).acc p).promised = some b := by simp [startSt, g.selfp]
  have hpre' : ((startSt n p b t).started2 b).isNone → (startSt n p b t).acks b = [] ∧ ∀ d, (startSt n p b t).mAcptd b d = false ∧ (startSt n p b t).mAcpt b d = none := by
    intro h; rw [Option.isNone_iff_eq_none] at h; rw [h] at hst; cases hst
  rw [startPhase2_eq n q1 q2 p b t hb g.cfg g.selfp]
  by_cases hq : q2 ≤ 1
  · rw [if_pos hq]
    obtain ⟨g', m'⟩ := decide_G n q1 q2 p b v (startSt n p b t) (phase2Val t b) hb g.cfg g.own g.live g.fut hpl hselfp g.pdec
      (fun _ => hst) (fun _ => ⟨hT2, hT0⟩) hpre' g.dec g.pv
    exact ⟨g', Mono.trans b mono m', m'.st hst⟩
  · rw [if_neg hq]
    refine ⟨⟨g.cfg, g.own, g.live, g.fut, hpl, hselfp, g.pdec, fun _ => hst, ?_, hpre', g.dec, g.pv⟩, mono, hst⟩
    intro _
    refine ⟨hT2, hT0, ?_⟩
    intro h; rw [hacks'] at h; exact absurd h hq

/-- the state after the promise is counted, before the quorum test -/
def cntSt (s : St) (f : Nat) (a : AccV) : St :=
  { s with mProm := upd2 s.mProm b f none, p1 := upd s.p1 b ((f, a) :: s.p1 b) }

theorem promise_step (s : St) (f : Nat) (hb : b % n = p) (g : G n q1 q2 p b v s) :
    G n q1 q2 p b v (step s (.recvPromise b f)) ∧ Mono b s (step s (.recvPromise b f)) ∧
    (S1 b s f → S2 b (step s (.recvPromise b f)) f) := by
  cases hm : s.mProm b f with
  | none =>
    have e : step s (.recvPromise b f) = s := by simp only [step, hm]
    rw [e]
    refine ⟨g, Mono.refl b s, ?_⟩
    intro h
    rcases h with h | h
    · rw [hm] at h; cases h
    · exact h
  | some a =>
    have hp1 : (cntSt b s f a).p1 b = (f, a) :: s.p1 b := by simp [cntSt]
    have s2f : S2 b (cntSt b s f a) f := by unfold S2; rw [hp1]; simp
    have s2m : ∀ d, S2 b s d → S2 b (cntSt b s f a) d := by
      intro d h; unfold S2 at h ⊢; rw [hp1]; simp only [List.map_cons, List.mem_cons]; right; exact h
    have s1m : ∀ d, S1 b s d → S1 b (cntSt b s f a) d := by
      intro d h
      by_cases hd : d = f
      · subst hd; right; exact s2f
      · rcases h with h | h
        · left; simp only [cntSt, upd2_apply]; rw [if_neg (by intro hh; exact hd hh.2)]; exact h
        · right; exact s2m d h
    have s0m : ∀ d, S0 b s d → S0 b (cntSt b s f a) d := by
      intro d h
      rcases h with h | h
      · left; exact h
      · right; exact s1m d h
    have mono1 : Mono b s (cntSt b s f a) := ⟨s0m, s1m, s2m, fun _ h => h, fun _ h => h, fun _ h => h, fun _ h => h, fun h => h⟩
    by_cases hc : s.cfg.q1 ≤ ((f, a) :: s.p1 b).length ∧ (s.started2 b).isNone
    · have e : step s (.recvPromise b f) = startPhase2 (cntSt b s f a) b := by
        simp only [step, hm, g.own, g.live, and_self, if_true, upd_same, if_pos hc, cntSt]
      rw [e]
      have g1 : Gw n q1 q2 p b v (cntSt b s f a) :=
        ⟨g.cfg, g.own, g.live, g.fut, g.pl, g.selfp, g.pdec, g.pre, g.dec, g.pv⟩
      have hnone : (cntSt b s f a).started2 b = none := by
        have := hc.2; rw [Option.isNone_iff_eq_none] at this; exact this
      obtain ⟨g2, m2, _⟩ := start_G n q1 q2 p b v (cntSt b s f a) hb g1 hnone
      exact ⟨g2, Mono.trans b mono1 m2, fun _ => m2.s2 f s2f⟩
    · have e : step s (.recvPromise b f) = cntSt b s f a := by
        simp only [step, hm, g.own, g.live, and_self, if_true, upd_same, if_neg hc, cntSt]
      rw [e]
      refine ⟨⟨g.cfg, g.own, g.live, g.fut, g.pl, g.selfp, g.pdec, ?_, g.i2, g.pre, g.dec, g.pv⟩, mono1, fun _ => s2f⟩
      intro hq
      rw [hp1] at hq
      cases hs : s.started2 b with
      | some _ => simp [cntSt, hs]
      | none => exact absurd ⟨by rw [g.cfg]; exact hq, by rw [hs]; rfl⟩ hc

end

/-- `x` occurs in the schedule before some occurrence of `y` -/
def Before (x y : Act) (as : List Act) : Prop := ∃ l1 l2, as = l1 ++ l2 ∧ x ∈ l1 ∧ y ∈ l2

/-- SINGLE PROPOSER DECIDES, bounded-progress form — the full statement (proved in `PxLiveFull.lean`:
    `single_proposer_decides`, from the per-message steps above).  `2 ≤ q1`: the code enters phase 2 when a
    delivered Promise completes the quorum, never on the proposer's own promise alone (`PaxosNode` has `q ≥ 2`).
    From the initial state, `p` proposes `v` under ballot `b`; nobody else proposes; `as1` delivers the Prepare to the
    acceptors of `Q1` and their Promises back, `as2` the Accepts to those of `Q2` and their Accepted back — in any
    order, with repetitions, among any other deliveries of existing traffic.  Then `p` decides `v`, its future
    resolves with `v`, no node decides anything else, and every other node has decided `v` or has the `Decided(v)`
    message of `p` waiting for it. -/
def single_proposer_decides_full : Prop :=
  ∀ (n q1 q2 p b : Nat) (v : Val) (as1 as2 : List Act) (Q1 Q2 : List Nat),
    p < n → b % n = p → n < q1 + q2 → 2 ≤ q1 → 1 ≤ q2 →
    Q1.Nodup → p ∉ Q1 → (∀ d ∈ Q1, d < n) → q1 ≤ Q1.length + 1 →
    Q2.Nodup → p ∉ Q2 → (∀ d ∈ Q2, d < n) → q2 ≤ Q2.length + 1 →
    (∀ a ∈ as1 ++ as2, DelivB b a ∧ NotTo p a) →
    (∀ d ∈ Q1, Before (.recvPrepare b d) (.recvPromise b d) as1) →
    (∀ d ∈ Q2, Before (.recvAccept b d) (.recvAccepted b d) as2) →
    (runActs (init n q1 q2) (.propose p b v :: (as1 ++ as2))).decided p = some v ∧
    (runActs (init n q1 q2) (.propose p b v :: (as1 ++ as2))).futRes 0 = some v ∧
    (∀ d w, (runActs (init n q1 q2) (.propose p b v :: (as1 ++ as2))).decided d = some w → w = v) ∧
    (∀ d, d ≠ p → d < n →
      (runActs (init n q1 q2) (.propose p b v :: (as1 ++ as2))).decided d = some v ∨
      (runActs (init n q1 q2) (.propose p b v :: (as1 ++ as2))).mDec p d = some v)

/-- the hypotheses of the full statement on the concrete run of `PxLiveEx.lean` (n = 3, p = 0, b = 3, Q1 = Q2 = [1]) -/
example : Before (.recvPrepare 3 1) (.recvPromise 3 1) [.recvPrepare 3 1, .recvPromise 3 1] ∧
    Before (.recvAccept 3 1) (.recvAccepted 3 1) [.recvAccept 3 1, .recvAccepted 3 1, .recvDecided 0 1, .recvDecided 0 2] :=
  ⟨⟨[.recvPrepare 3 1], [.recvPromise 3 1], rfl, by simp, by simp⟩,
   ⟨[.recvAccept 3 1], [.recvAccepted 3 1, .recvDecided 0 1, .recvDecided 0 2], rfl, by simp, by simp⟩⟩

end HappyModel.C12.Px
