import HappyProofs.C12.PxPhase2
namespace HappyModel.C12.Px

theorem recvPromise_mid_inv (s : St) (b f : Nat) (r : AccV) (inv : Inv s) (hslot : s.mProm b f = some r)
    (hown : (s.ownVal b).isSome = true) :
    Inv { s with mProm := upd2 s.mProm b f none, p1 := upd s.p1 b ((f, r) :: s.p1 b) } := by
  obtain ⟨hfn, hfnot, hfpr⟩ := inv.n1.prom b f r hslot
  have hown' : s.ownVal b ≠ none := by
    intro h; rw [h] at hown; simp at hown
  have n1' : Net1 { s with mProm := upd2 s.mProm b f none, p1 := upd s.p1 b ((f, r) :: s.p1 b) } := by
    refine ⟨?_, ?_, ?_, ?_⟩
    · intro b' d' hb'
      obtain ⟨a1, a2, a3⟩ := inv.n1.prep b' d' hb'
      refine ⟨a1, upd2_none_of a2, ?_⟩
      by_cases hbb : b' = b
      · subst hbb; simp
        refine ⟨?_, by simpa using a3⟩
        intro hdf; subst hdf; rw [hslot] at a2; cases a2
      · simp [upd_other _ _ _ _ hbb]; simpa using a3
    · intro b' f' r' hb'
      obtain ⟨hb1, hb2⟩ := upd2_none_some hb'
      obtain ⟨a1, a2, a3⟩ := inv.n1.prom b' f' r' hb1
      refine ⟨a1, ?_, a3⟩
      by_cases hbb : b' = b
      · subst hbb; simp
        exact ⟨fun hff => hb2 ⟨rfl, hff⟩, by simpa using a2⟩
      · simp [upd_other _ _ _ _ hbb]; simpa using a2
    · intro b'
      by_cases hbb : b' = b
      · subst hbb; simp
        obtain ⟨a1, a2⟩ := inv.n1.p1 b'
        refine ⟨⟨by simpa using hfnot, a1⟩, ?_⟩
        intro f' r' hm
        rcases hm with ⟨rfl, rfl⟩ | hm
        · exact ⟨hfn, hfpr⟩
        · exact a2 f' r' hm
      · simp [upd_other _ _ _ _ hbb]; simpa using inv.n1.p1 b'
    · intro b' hb'
      have hbb : b' ≠ b := by intro h; subst h; exact hown' hb'
      obtain ⟨a1, a2⟩ := inv.n1.fresh b' hb'
      exact ⟨by simp [upd_other _ _ _ _ hbb]; exact a1, fun d' => ⟨(a2 d').1, upd2_none_of (a2 d').2⟩⟩
  exact ⟨n1', inv.n2.frame rfl rfl rfl rfl rfl rfl rfl, inv.sem.frame rfl rfl rfl rfl rfl,
         inv.learn.frame rfl rfl rfl (fun _ h => h)⟩

theorem recvPromise_inv (s : St) (b f : Nat) (inv : Inv s) : Inv (step s (.recvPromise b f)) := by
  unfold step
  simp only []
  split
  · rename_i r hslot
    obtain ⟨hfn, hfnot, hfpr⟩ := inv.n1.prom b f r hslot
    split
    · rename_i hown
      obtain ⟨hown, _⟩ := hown
      have hown' : s.ownVal b ≠ none := by
        intro h; rw [h] at hown; simp at hown
      have inv1 := recvPromise_mid_inv s b f r inv hslot hown
      split
      · rename_i hc
        obtain ⟨hq, hst⟩ := hc
        have hnone : s.started2 b = none := by
          cases h : s.started2 b with
          | none => rfl
          | some _ => rw [h] at hst; simp at hst
        exact startPhase2_inv inv1 b hnone hq hown' (Nat.mod_lt _ (Nat.lt_of_le_of_lt (Nat.zero_le _) hfn))
      · exact inv1
    · exact ⟨clearProm_net1 inv.n1 b f, inv.n2.frame rfl rfl rfl rfl rfl rfl rfl,
             inv.sem.frame rfl rfl rfl rfl rfl, inv.learn.frame rfl rfl rfl (fun _ h => h)⟩
  · exact inv

/-- every field the invariant reads is unchanged -/
theorem Inv.frame {s s' : St} (h : Inv s) (hc : s'.cfg = s.cfg) (e1 : s'.acc = s.acc)
    (e2 : s'.ownVal = s.ownVal) (e3 : s'.p1 = s.p1) (e4 : s'.started2 = s.started2)
    (e5 : s'.acks = s.acks) (e6 : s'.decided = s.decided) (e7 : s'.mPrep = s.mPrep)
    (e8 : s'.mProm = s.mProm) (e9 : s'.mAcpt = s.mAcpt) (e10 : s'.mAcptd = s.mAcptd)
    (e11 : s'.mDec = s.mDec) (e12 : s'.votes = s.votes) (e13 : s'.proms = s.proms) : Inv s' :=
  ⟨h.n1.frame hc e7 e8 e3 e2 (by intro x hx; rw [e13]; exact hx),
   h.n2.frame hc e4 e5 e9 e10 e12 e2,
   h.sem.frame hc e12 e1 e4 e13,
   h.learn.frame hc e6 e11 (by intro x hx; rw [e12]; exact hx)⟩

/-- a node opens a fresh ballot (`propose` + `start_phase1`, or `_handle_retry`) -/
theorem beginBallot_inv {s : St} (inv : Inv s) (p b : Nat) (v : Val) (hpn : p < s.cfg.n)
    (hown0 : s.ownVal b = none) : Inv (beginBallot s p b v) := by
  obtain ⟨hp1e, hslots⟩ := inv.n1.fresh b hown0
  unfold beginBallot
  simp only []
  by_cases hle : leOpt (s.acc p).promised b
  · have hd : decide (leOpt (s.acc p).promised b) = true := by simp [hle]
    simp only [hd, if_true]
    have hsem := sem_raise_promise inv.sem p b hpn hle ((p, b, (s.acc p).accepted) :: s.proms)
      (by intro x hx; rcases List.mem_cons.mp hx with h | h
          · exact Or.inr h
          · exact Or.inl h)
    refine ⟨⟨?_, ?_, ?_, ?_⟩, ⟨inv.n2.none_, inv.n2.acpt, inv.n2.acptd, inv.n2.acks, ?_⟩,
            hsem.frame rfl rfl rfl rfl rfl, inv.learn.frame rfl rfl rfl (fun _ h => h)⟩
    · intro b' d hb'
      simp only [] at hb'
      split at hb'
      · rename_i h; obtain ⟨rfl, hdp, hdn⟩ := h
        exact ⟨hdn, (hslots d).2, by simp; exact hdp⟩
      · have hbb : b' ≠ b := by intro h; subst h; rw [(hslots d).1] at hb'; cases hb'
        obtain ⟨a1, a2, a3⟩ := inv.n1.prep b' d hb'
        exact ⟨a1, a2, by simp [upd_other _ _ _ _ hbb]; simpa using a3⟩
    · intro b' f r hb'
      have hbb : b' ≠ b := by intro h; subst h; simp only [] at hb'; rw [(hslots f).2] at hb'; cases hb'
      obtain ⟨a1, a2, a3⟩ := inv.n1.prom b' f r hb'
      exact ⟨a1, by simp [upd_other _ _ _ _ hbb]; simpa using a2, List.mem_cons_of_mem _ a3⟩
    · intro b'
      by_cases hbb : b' = b
      · subst hbb; simp; exact hpn
      · obtain ⟨a1, a2⟩ := inv.n1.p1 b'
        refine ⟨by simp [upd_other _ _ _ _ hbb]; simpa using a1, ?_⟩
        intro f r hm
        simp [upd_other _ _ _ _ hbb] at hm
        exact ⟨(a2 f r hm).1, List.mem_cons_of_mem _ (a2 f r hm).2⟩
    · intro b' hb'
      have hbb : b' ≠ b := by intro h; subst h; simp at hb'
      simp [upd_other _ _ _ _ hbb] at hb'
      obtain ⟨a1, a2⟩ := inv.n1.fresh b' hb'
      refine ⟨by simp [upd_other _ _ _ _ hbb]; exact a1, fun d => ⟨?_, (a2 d).2⟩⟩
      simp only []; split
      · rename_i h; exact absurd h.1 hbb
      · exact (a2 d).1
    · intro b' hb'
      have hbb : b' ≠ b := by intro h; subst h; simp at hb'
      simp [upd_other _ _ _ _ hbb] at hb'
      exact inv.n2.fresh b' hb'
  · have hd : decide (leOpt (s.acc p).promised b) = false := by simp [hle]
    simp only [hd, Bool.false_eq_true, if_false]
    refine ⟨⟨?_, ?_, ?_, ?_⟩, ⟨inv.n2.none_, inv.n2.acpt, inv.n2.acptd, inv.n2.acks, ?_⟩,
            inv.sem.frame rfl rfl rfl rfl rfl, inv.learn.frame rfl rfl rfl (fun _ h => h)⟩
    · intro b' d hb'
      simp only [] at hb'
      split at hb'
      · rename_i h; obtain ⟨rfl, hdp, hdn⟩ := h
        exact ⟨hdn, (hslots d).2, by simp⟩
      · have hbb : b' ≠ b := by intro h; subst h; rw [(hslots d).1] at hb'; cases hb'
        obtain ⟨a1, a2, a3⟩ := inv.n1.prep b' d hb'
        exact ⟨a1, a2, by simp [upd_other _ _ _ _ hbb]; simpa using a3⟩
    · intro b' f r hb'
      have hbb : b' ≠ b := by intro h; subst h; simp only [] at hb'; rw [(hslots f).2] at hb'; cases hb'
      obtain ⟨a1, a2, a3⟩ := inv.n1.prom b' f r hb'
      exact ⟨a1, by simp [upd_other _ _ _ _ hbb]; simpa using a2, a3⟩
    · intro b'
      by_cases hbb : b' = b
      · subst hbb; simp
      · obtain ⟨a1, a2⟩ := inv.n1.p1 b'
        refine ⟨by simp [upd_other _ _ _ _ hbb]; simpa using a1, ?_⟩
        intro f r hm
        simp [upd_other _ _ _ _ hbb] at hm
        exact a2 f r hm
    · intro b' hb'
      have hbb : b' ≠ b := by intro h; subst h; simp at hb'
      simp [upd_other _ _ _ _ hbb] at hb'
      obtain ⟨a1, a2⟩ := inv.n1.fresh b' hb'
      refine ⟨by simp [upd_other _ _ _ _ hbb]; exact a1, fun d => ⟨?_, (a2 d).2⟩⟩
      simp only []; split
      · rename_i h; exact absurd h.1 hbb
      · exact (a2 d).1
    · intro b' hb'
      have hbb : b' ≠ b := by intro h; subst h; simp at hb'
      simp [upd_other _ _ _ _ hbb] at hb'
      exact inv.n2.fresh b' hb'

theorem isNone_eq {α} {o : Option α} (h : o.isNone = true) : o = none := by
  cases o with
  | none => rfl
  | some _ => simp at h

theorem propose_inv (s : St) (p b : Nat) (v : Val) (inv : Inv s) : Inv (step s (.propose p b v)) := by
  unfold step
  simp only []
  split
  · rename_i hpn
    split
    · exact inv.frame rfl rfl rfl rfl rfl rfl rfl rfl rfl rfl rfl rfl rfl rfl
    · split
      · rename_i hc
        obtain ⟨_, hfresh⟩ := hc
        refine beginBallot_inv ?_ p b v hpn (isNone_eq hfresh)
        exact inv.frame rfl rfl rfl rfl rfl rfl rfl rfl rfl rfl rfl rfl rfl rfl
      · exact inv.frame rfl rfl rfl rfl rfl rfl rfl rfl rfl rfl rfl rfl rfl rfl
  · exact inv

theorem retry_inv (s : St) (p bo bn : Nat) (inv : Inv s) : Inv (step s (.retry p bo bn)) := by
  unfold step
  simp only []
  split
  · rename_i hc
    obtain ⟨hpn, _, _, _, _, hfresh⟩ := hc
    split
    · refine beginBallot_inv ?_ p bn _ hpn (isNone_eq hfresh)
      exact inv.frame rfl rfl rfl rfl rfl rfl rfl rfl rfl rfl rfl rfl rfl rfl
    · exact inv
  · exact inv

theorem nack_inv (s : St) (b hi : Nat) (inv : Inv s) : Inv (step s (.nack b hi)) := by
  unfold step
  exact inv.frame rfl rfl rfl rfl rfl rfl rfl rfl rfl rfl rfl rfl rfl rfl

theorem step_inv (s : St) (a : Act) (inv : Inv s) : Inv (step s a) := by
  cases a with
  | propose p b v => exact propose_inv s p b v inv
  | retry p bo bn => exact retry_inv s p bo bn inv
  | nack b hi => exact nack_inv s b hi inv
  | recvPrepare b d => exact recvPrepare_inv s b d inv
  | recvPromise b f => exact recvPromise_inv s b f inv
  | recvAccept b d => exact recvAccept_inv s b d inv
  | recvAccepted b f => exact recvAccepted_inv s b f inv
  | recvDecided f d => exact recvDecided_inv s f d inv
  | dropPrep b d => exact (drop_inv s inv).1 b d
  | dropProm b f => exact (drop_inv s inv).2.1 b f
  | dropAcpt b d => exact (drop_inv s inv).2.2.1 b d
  | dropAcptd b f => exact (drop_inv s inv).2.2.2.1 b f
  | dropDec f d => exact (drop_inv s inv).2.2.2.2 f d

theorem run_inv (s : St) (as : List Act) (inv : Inv s) : Inv (runActs s as) := by
  induction as generalizing s with
  | nil => simpa [runActs]
  | cons a as ih => exact ih _ (step_inv s a inv)

end HappyModel.C12.Px
