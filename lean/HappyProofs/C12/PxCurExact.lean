import HappyModel.C12.Paxos
/-!
# C12 — where exactly `stepCur` (single-decree Paxos as on the pinned tree) is an approximation

The model keeps the network as one slot per (kind, ballot, peer).  The repaired code sends at most one message of
each kind per (ballot, peer), so for `step` the slots are exact.  The pinned tree calls `_start_phase2(b)` on
*every* promise at or beyond the quorum, and each call sends `Accept(b, v)` to every peer again (possibly with
another `v`); every delivered `Accept` is answered with an `Accepted`, and every delivered `Accepted` is counted.
So on the pinned tree two `Accept(b)` for one peer, or two `Accepted(b)` of one acceptor, can be in flight at once.
`stepCur` differs from the pinned tree in exactly these two situations:

* **A (Accept overwritten).** `_start_phase2(b)` runs again while an `Accept(b)` to peer `d` is still undelivered:
  the slot `(b, d)` then holds only the newer message (newer value); on the pinned tree both are in flight and
  either may be delivered first, the other later.  From then on the slot `(b, d)` is *ambiguous*.
* **B (Accepted merged).** acceptor `d` answers a second `Accept(b)` while its first `Accepted(b)` is still
  undelivered: the flag `(b, d)` stands for both, so the proposer counts one acknowledgement where the pinned
  tree counts two.  From then on the flag `(b, d)` is *ambiguous*.

Everything else (`propose`, `retry`, `nack`, `Prepare` / `Promise` / `Decided` traffic, a restart after the earlier
`Accept(b) → d` was delivered or lost, an `Accepted` sent after the previous one was delivered, the reset of the
acknowledgement count on a self-accept, the decision of `_proposed_values.get(b)` for an abandoned ballot) is
mirrored exactly.  A schedule is replayed exactly iff it never *delivers* from an ambiguous slot or flag (losing
such a message is harmless: both copies are then lost or still in flight, which no later delivery observes).
`curExact` decides that for a schedule; both corpus witnesses of the pinned tree satisfy it
(`Props.lean`: `witnessAgreement_exact`, `witnessNone_exact`).
-/
namespace HappyModel.C12.Px

/-- ambiguous `Accept` slots and `Accepted` flags, as (ballot, peer) -/
structure Amb where
  acpt : List (Nat × Nat) := []
  acptd : List (Nat × Nat) := []
deriving Repr

/-- the ambiguity set after the step, and whether the step itself is mirrored exactly -/
def curTrack (s : St) (m : Amb) : Act → Amb × Bool
  | .recvPromise b f =>
    if (s.mProm b f).isSome && (s.ownVal b).isSome && decide (s.cfg.q1 ≤ (s.p1 b).length + 1) then
      ({ m with acpt := m.acpt ++ ((List.range s.cfg.n).filter fun d => (s.mAcpt b d).isSome).map fun d => (b, d) }, true)
    else (m, true)
  | .recvAccept b d =>
    if m.acpt.contains (b, d) then (m, false)
    else if (s.mAcpt b d).isSome && decide (d < s.cfg.n) && decide (leOpt (s.acc d).promised b) && s.mAcptd b d then
      ({ m with acptd := (b, d) :: m.acptd }, true)
    else (m, true)
  | .recvAccepted b f => if m.acptd.contains (b, f) then (m, false) else (m, true)
  | _ => (m, true)

/-- no step of the schedule delivers from an ambiguous slot or flag -/
def curExact (s : St) (m : Amb) : List Act → Bool
  | [] => true
  | a :: as => (curTrack s m a).2 && curExact (stepCur s a) (curTrack s m a).1 as

/-- outside `_handle_promise` and `_handle_accepted` the pinned tree and the repaired code are the same function -/
theorem stepCur_eq_step (s : St) (a : Act) (h1 : ∀ b f, a ≠ .recvPromise b f) (h2 : ∀ b f, a ≠ .recvAccepted b f) :
    stepCur s a = step s a := by
  cases a with
  | recvPromise b f => exact absurd rfl (h1 b f)
  | recvAccepted b f => exact absurd rfl (h2 b f)
  | _ => rfl

end HappyModel.C12.Px
