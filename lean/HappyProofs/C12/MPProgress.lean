import HappyProofs.C12.MPCommit
/-!
# C12 — Multi-Paxos / Flexible Paxos: a stable leader commits every slot, in whatever order the acknowledgements arrive

`_handle_accepted` counts acknowledgements per slot and, when a slot with a phase-2 quorum lies above the commit
index, advances the commit index *to that slot* (committing the whole prefix).  So the order in which the
acknowledgements of different slots come back does not matter: once the last acknowledgement a slot needs has
been delivered, the slot is committed — even if a later slot reached its quorum first.
-/
namespace HappyModel.C12.MP

/-! ### `applyFrom` / `advanceCommit` keep the log and set the commit index -/

theorem applyFrom_log : ∀ (es : List Entry) (nd : Node) (idx : Nat), (applyFrom nd idx es).1.log = nd.log := by
  intro es
  induction es with
  | nil => intro nd idx; rfl
  | cons e es ih =>
    intro nd idx
    simp only [applyFrom]
    split
    · rw [ih]
    · rw [ih]

theorem applyFrom_commit : ∀ (es : List Entry) (nd : Node) (idx : Nat), (applyFrom nd idx es).1.commit = nd.commit := by
  intro es
  induction es with
  | nil => intro nd idx; rfl
  | cons e es ih =>
    intro nd idx
    simp only [applyFrom]
    split
    · rw [ih]
    · rw [ih]

theorem advanceCommit_log (nd : Node) (c : Nat) : (advanceCommit nd c).1.log = nd.log := by
  unfold advanceCommit
  split
  · rfl
  · simp only [applyFrom_log]

theorem advanceCommit_commit (nd : Node) (c : Nat) (h : nd.commit < c) :
    (advanceCommit nd c).1.commit = min c nd.log.length := by
  unfold advanceCommit
  rw [if_neg (by omega)]
  simp only [applyFrom_commit]

/-! ### one acknowledgement at the leader -/

/-- `_handle_accepted` on the node itself -/
def ackNode (q2 : Nat) (nd : Node) (slot : Nat) : Node :=
  if (lookup nd.acks slot).getD 0 + 1 ≥ q2 ∧ slot > nd.commit then
    (advanceCommit { nd with acks := setKV nd.acks slot ((lookup nd.acks slot).getD 0 + 1) } slot).1
  else { nd with acks := setKV nd.acks slot ((lookup nd.acks slot).getD 0 + 1) }

theorem getNode_setNode_eq (s : St) (p : Nat) (x : Node) (hp : p < s.nodes.length) :
    getNode (setNode s p x) p = x := by
  simp [getNode, setNode, List.getD_eq_getElem?_getD, hp]

theorem getNode_congr {s s' : St} (h : s'.nodes = s.nodes) (p : Nat) : getNode s' p = getNode s p := by
  simp [getNode, h]

theorem step_accepted_node (s : St) (p slot : Nat) (hp : p < s.nodes.length) :
    getNode (step s (.accepted p slot)).1 p = ackNode s.q2 (getNode s p) slot := by
  have e : (step s (.accepted p slot)).1.nodes = (setNode s p (ackNode s.q2 (getNode s p) slot)).nodes := by
    by_cases hc : (lookup (getNode s p).acks slot).getD 0 + 1 ≥ s.q2 ∧ slot > (getNode s p).commit
    · simp only [step, ackNode, if_pos hc, setNode]
    · simp only [step, ackNode, if_neg hc, setNode]
  rw [getNode_congr e, getNode_setNode_eq s p _ hp]

theorem ackNode_log (q2 : Nat) (nd : Node) (slot : Nat) : (ackNode q2 nd slot).log = nd.log := by
  unfold ackNode
  split
  · rw [advanceCommit_log]
  · rfl

theorem ackNode_ackOf (q2 : Nat) (nd : Node) (slot j : Nat) :
    ackOf (ackNode q2 nd slot) j = if j = slot then ackOf nd slot + 1 else ackOf nd j := by
  unfold ackNode ackOf
  split
  · rw [advanceCommit_acks]; exact getD_lookup_setKV _ _ _ _
  · exact getD_lookup_setKV _ _ _ _

theorem ackNode_commit (q2 : Nat) (nd : Node) (slot : Nat) :
    (ackNode q2 nd slot).commit =
      if ackOf nd slot + 1 ≥ q2 ∧ slot > nd.commit then min slot nd.log.length else nd.commit := by
  unfold ackNode ackOf
  split
  · rename_i hc; rw [advanceCommit_commit _ _ (by simp only []; omega)]
  · rfl

/-- the commit index of the leader never goes down on an acknowledgement (as long as it lies inside the log) -/
theorem ackNode_commit_mono (q2 : Nat) (nd : Node) (slot : Nat) (h : nd.commit ≤ nd.log.length) :
    nd.commit ≤ (ackNode q2 nd slot).commit := by
  rw [ackNode_commit]
  split
  · rename_i hc; rw [Nat.le_min]; omega
  · exact Nat.le_refl _

/-! ### the other nodes' handlers do not touch the leader -/

theorem step_nodes_length (s : St) (a : Act) : (step s a).1.nodes.length = s.nodes.length := by
  cases a <;> simp only [step] <;> (repeat' split) <;> simp [setNode]

theorem step_other_node (s : St) (a : Act) (p : Nat) (h : actor a ≠ p) :
    getNode (step s a).1 p = getNode s p := by
  have key : ∀ (i : Nat) (x : Node), i ≠ p → getNode (setNode s i x) p = getNode s p :=
    fun i x hi => getNode_setNode_ne s i p x (fun e => hi e.symm)
  cases a <;> simp only [actor] at h <;> simp only [step] <;> (repeat' split) <;>
    first
      | rfl
      | exact key _ _ h
      | (simp only [getNode]; exact key _ _ h)

/-! ### acknowledgements in any order -/

def isAck (p m : Nat) : Act → Bool
  | .accepted p' s' => p' == p && s' == m
  | _ => false

/-- what happens while a leader `p` is stable: acknowledgements arrive (for any slot, in any order, at `p` or
    elsewhere) and the other nodes run their handlers (Accepts, heartbeats, Prepares delivered to them, their own
    client calls).  No handler of `p` other than `_handle_accepted` runs. -/
def StableAct (p : Nat) : Act → Prop
  | .accepted _ _ => True
  | a => actor a ≠ p

theorem stable_not_ack {p : Nat} {a : Act} (m : Nat) (h : StableAct p a) (hn : ¬ ∃ slot, a = .accepted p slot) :
    actor a ≠ p ∧ isAck p m a = false := by
  cases a with
  | accepted p' s' =>
    have hp : p' ≠ p := fun e => hn ⟨s', by rw [e]⟩
    exact ⟨hp, by simp [isAck, hp]⟩
  | start _ => exact ⟨h, rfl⟩
  | submit _ _ => exact ⟨h, rfl⟩
  | prepare _ _ => exact ⟨h, rfl⟩
  | promise _ _ => exact ⟨h, rfl⟩
  | accept _ _ _ _ _ _ => exact ⟨h, rfl⟩
  | hb _ _ _ => exact ⟨h, rfl⟩
  | selfhb _ _ _ => exact ⟨h, rfl⟩
  | nack _ _ => exact ⟨h, rfl⟩

/-- the core: along any stable action sequence, a slot inside the leader's log that is already committed, or
    whose acknowledgements still to come complete its phase-2 quorum, is committed at the end; the log is unchanged -/
theorem stable_run_commit (p m : Nat) : ∀ (as : List Act) (s : St),
    p < s.nodes.length → (∀ a ∈ as, StableAct p a) →
    (getNode s p).commit ≤ (getNode s p).log.length → m ≤ (getNode s p).log.length →
    (m ≤ (getNode s p).commit ∨
      (0 < as.countP (isAck p m) ∧ s.q2 ≤ ackOf (getNode s p) m + as.countP (isAck p m))) →
    m ≤ (getNode (run s as) p).commit ∧ (getNode (run s as) p).log = (getNode s p).log := by
  intro as
  induction as with
  | nil =>
    intro s _ _ _ _ h
    rcases h with h | ⟨h, _⟩
    · exact ⟨h, rfl⟩
    · simp at h
  | cons a rest ih =>
    intro s hp hall hcl hml h
    have hp' : p < (step s a).1.nodes.length := by rw [step_nodes_length]; exact hp
    have hall' : ∀ a' ∈ rest, StableAct p a' := fun a' ha' => hall a' (List.mem_cons_of_mem _ ha')
    have hq : (step s a).1.q2 = s.q2 := step_q2 s a
    show m ≤ (getNode (run (step s a).1 rest) p).commit ∧ (getNode (run (step s a).1 rest) p).log = (getNode s p).log
    by_cases hA : ∃ slot, a = .accepted p slot
    · obtain ⟨slot, rfl⟩ := hA
      have hnode := step_accepted_node s p slot hp
      have hlog : (getNode (step s (.accepted p slot)).1 p).log = (getNode s p).log := by
        rw [hnode, ackNode_log]
      have hmono : (getNode s p).commit ≤ (getNode (step s (.accepted p slot)).1 p).commit := by
        rw [hnode]; exact ackNode_commit_mono _ _ _ hcl
      have hcl' : (getNode (step s (.accepted p slot)).1 p).commit ≤ (getNode (step s (.accepted p slot)).1 p).log.length := by
        rw [hlog, hnode, ackNode_commit]
        split
        · exact Nat.min_le_right _ _
        · exact hcl
      have hack : ackOf (getNode (step s (.accepted p slot)).1 p) m =
          if m = slot then ackOf (getNode s p) slot + 1 else ackOf (getNode s p) m := by
        rw [hnode, ackNode_ackOf]
      have hcnt : (Act.accepted p slot :: rest).countP (isAck p m) =
          rest.countP (isAck p m) + if slot = m then 1 else 0 := by
        rw [List.countP_cons]
        by_cases e : slot = m
        · simp [isAck, e]
        · simp [isAck, e]
      have res := ih (step s (.accepted p slot)).1 hp' hall' hcl' (by rw [hlog]; exact hml)
      rw [hlog] at res
      apply res
      rcases h with h | ⟨h0, hq2⟩
      · left; omega
      · by_cases hdone : m ≤ (getNode (step s (.accepted p slot)).1 p).commit
        · left; exact hdone
        · right
          rw [hq, hack]
          rw [hcnt] at h0 hq2
          by_cases e : slot = m
          · subst e
            simp only [if_true] at h0 hq2 ⊢
            have hc := ackNode_commit s.q2 (getNode s p) slot
            rw [← hnode] at hc
            by_cases hk : ackOf (getNode s p) slot + 1 ≥ s.q2 ∧ slot > (getNode s p).commit
            · rw [if_pos hk] at hc
              exfalso; apply hdone; rw [hc, Nat.le_min]; omega
            · have hgt : slot > (getNode s p).commit := by omega
              have : ¬ ackOf (getNode s p) slot + 1 ≥ s.q2 := fun x => hk ⟨x, hgt⟩
              omega
          · have e' : ¬ m = slot := fun x => e x.symm
            simp only [e, e', if_false, Nat.add_zero] at h0 hq2 ⊢
            exact ⟨h0, hq2⟩
    · obtain ⟨hact, hno⟩ := stable_not_ack m (hall a List.mem_cons_self) hA
      have hnode := step_other_node s a p hact
      have res := ih (step s a).1 hp' hall' (by rw [hnode]; exact hcl) (by rw [hnode]; exact hml)
      rw [hnode] at res
      apply res
      rw [hq]
      rw [List.countP_cons, hno] at h
      simpa using h

/-- STABLE LEADER, ANY ORDER OF ACKNOWLEDGEMENTS.  From any state in which node `p` holds a log of at least `m`
    entries, along any sequence of acknowledgements (for any slots, in any order, duplicated or not) interleaved
    with handlers of the other nodes: if an acknowledgement for slot `m` is among them and the acknowledgements
    counted for `m` reach the phase-2 quorum by the end, then `m` is committed on `p` at the end (its log
    unchanged) — whether or not a later slot reached its quorum before `m` did. -/
theorem stable_leader_commits_any_ack_order (s : St) (p m : Nat) (as : List Act)
    (hp : p < s.nodes.length) (hall : ∀ a ∈ as, StableAct p a)
    (hcl : (getNode s p).commit ≤ (getNode s p).log.length) (hm : m ≤ (getNode s p).log.length)
    (hin : 0 < as.countP (isAck p m))
    (hq : s.q2 ≤ ackOf (getNode s p) m + as.countP (isAck p m)) :
    m ≤ (getNode (run s as) p).commit ∧ (getNode (run s as) p).log = (getNode s p).log :=
  stable_run_commit p m as s hp hall hcl hm (Or.inr ⟨hin, hq⟩)

end HappyModel.C12.MP
