import HappyProofs.C12.MPFull
/-!
# C12 — the progress clause of the Spec accepts the model's own transcript of a stable-leader run
-/
namespace HappyModel.C12.MP
open HappyModel.C12.Spec

theorem obsRun_append (s : St) (l1 l2 : List Act) : obsRun s (l1 ++ l2) = obsRun s l1 ++ obsRun (run s l1) l2 := by
  induction l1 generalizing s with
  | nil => rfl
  | cons a as ih =>
    show obsStep s a ++ obsRun (step s a).1 (as ++ l2) = (obsStep s a ++ obsRun (step s a).1 as) ++ _
    rw [ih, List.append_assoc]; rfl

/-- no `Accept` of node `p` among the observations -/
def NoProp (p : Nat) (l : List LogObs) : Prop := ∀ b sl c, LogObs.prop p b sl c ∉ l

theorem NoProp.append {p : Nat} {l1 l2 : List LogObs} (h1 : NoProp p l1) (h2 : NoProp p l2) : NoProp p (l1 ++ l2) := by
  intro b sl c h
  rcases List.mem_append.1 h with h | h
  · exact h1 b sl c h
  · exact h2 b sl c h

theorem propOf_mem_accept {q : Nat} {ms : List Msg} {o : LogObs} (h : o ∈ ms.filterMap (propOf q)) :
    ∃ d b sl c ci, Msg.accept d b sl c ci ∈ ms ∧ o = .prop q b sl c := by
  simp only [List.mem_filterMap] at h
  obtain ⟨m, hm, hp⟩ := h
  cases m with
  | accept d b slot cmd ci =>
    simp only [propOf, Option.some.injEq] at hp
    exact ⟨d, b, slot, cmd, ci, hm, hp.symm⟩
  | _ => simp [propOf] at hp

/-- the handlers that run while the leader is stable send no `Accept` in the leader's name -/
theorem stable_obs_noProp (s : St) (p : Nat) (a : Act) (h : StableAct p a) : NoProp p (obsStep s a) := by
  intro b sl c hmem
  have other : ∀ (q : Nat) (ms : List Msg), q ≠ p → LogObs.prop p b sl c ∉ ms.filterMap (propOf q) := by
    intro q ms hq hm
    obtain ⟨_, _, _, _, _, _, he⟩ := propOf_mem_accept hm
    cases he; exact hq rfl
  cases a with
  | accepted p' slot => simp [obsStep] at hmem
  | start q =>
    have hq : q ≠ p := h
    simp only [obsStep, List.mem_cons] at hmem
    rcases hmem with hmem | hmem
    · cases hmem
    · exact other q _ hq hmem
  | promise q bn =>
    have hq : q ≠ p := h
    simp only [obsStep, List.mem_cons] at hmem
    rcases hmem with hmem | hmem
    · cases hmem
    · exact other q _ hq hmem
  | submit q c' =>
    simp only [obsStep] at hmem
    split at hmem <;> simp at hmem
  | prepare d b' =>
    simp only [obsStep] at hmem
    split at hmem
    · cases hmem
    · simp only [List.mem_cons] at hmem
      rcases hmem with hmem | hmem
      · cases hmem
      · obtain ⟨_, _, he⟩ := pcarsOf_mem _ _ _ _ _ hmem; cases he
  | accept d src b' slot cmd ci =>
    simp only [obsStep] at hmem
    split at hmem <;> simp at hmem
  | hb d b' ci => have hq : d ≠ p := h; exact other d _ hq (by simpa [obsStep, actor] using hmem)
  | selfhb q b' ci => have hq : q ≠ p := h; exact other q _ hq (by simpa [obsStep, actor] using hmem)
  | nack q b' => have hq : q ≠ p := h; exact other q _ hq (by simpa [obsStep, actor] using hmem)

theorem stable_run_noProp (p : Nat) : ∀ (as : List Act) (s : St), (∀ a ∈ as, StableAct p a) → NoProp p (obsRun s as) := by
  intro as
  induction as with
  | nil => intro s _ b sl c h; cases h
  | cons a rest ih =>
    intro s hall
    exact (stable_obs_noProp s p a (hall a List.mem_cons_self)).append
      (ih _ (fun a' ha' => hall a' (List.mem_cons_of_mem _ ha')))

theorem submits_noProp (p q : Nat) : ∀ (cs : List Nat) (s : St), NoProp p (obsRun s (cs.map (.submit q))) := by
  intro cs
  induction cs with
  | nil => intro s b sl c h; cases h
  | cons c cs ih =>
    intro s
    refine NoProp.append ?_ (ih _)
    intro b sl c' hmem
    simp only [obsStep] at hmem
    split at hmem <;> simp at hmem

/-- what `_become_leader` sends in the leader's name: `Accept(slot, cmd)` for entries of its own log -/
theorem becomeLeader_props (s : St) (p : Nat) (nd : Node) (pre : List Msg) (hpre : ∀ m ∈ pre, propOf p m = none)
    (b sl c : Nat) (h : LogObs.prop p b sl c ∈ (pre ++ (becomeLeader s p nd).2).filterMap (propOf p)) :
    1 ≤ sl ∧ ∃ e, (becomeLeader s p nd).1.log[sl - 1]? = some e ∧ e.cmd = c := by
  obtain ⟨d, b', sl', c', ci, hm, he⟩ := propOf_mem_accept h
  cases he
  rcases List.mem_append.1 hm with hm | hm
  · have := hpre _ hm; simp [propOf] at this
  · have e : (becomeLeader s p nd).2 = sendHeartbeat s p (becomeLeader s p nd).1 ++
        ((List.range ((becomeLeader s p nd).1.log.length - (becomeLeader s p nd).1.commit)).map
            (· + (becomeLeader s p nd).1.commit + 1)).flatMap (fun k =>
          match (becomeLeader s p nd).1.log[k - 1]? with
          | some e => (peers s.n p).map fun d => Msg.accept d (becomeLeader s p nd).1.ballot k e.cmd (becomeLeader s p nd).1.commit
          | none => []) := rfl
    rw [e] at hm
    rcases List.mem_append.1 hm with hm | hm
    · simp [sendHeartbeat] at hm
    · simp only [List.mem_flatMap, List.mem_map, List.mem_range] at hm
      obtain ⟨k, ⟨i, _, rfl⟩, hk⟩ := hm
      split at hk
      · rename_i e' he'
        simp only [List.mem_map] at hk
        obtain ⟨d', _, hd⟩ := hk
        cases hd
        exact ⟨by omega, e', he', rfl⟩
      · cases hk

theorem prepare_propOf (q : Nat) (n p b : Nat) : ∀ m ∈ (peers n p).map (fun d => Msg.prepare d b), propOf q m = none := by
  intro m hm
  simp only [List.mem_map] at hm
  obtain ⟨d, _, rfl⟩ := hm
  rfl

theorem start_alone_obs (s : St) (p : Nat) (hq : s.q1 ≤ 1) (b sl c : Nat)
    (h : LogObs.prop p b sl c ∈ obsStep s (.start p)) :
    1 ≤ sl ∧ ∃ e, (becomeLeader s p { getNode s p with ballot := ((getNode s p).ballot / s.n + 1) * s.n + p, p1 := setKV (getNode s p).p1 ((((getNode s p).ballot / s.n + 1) * s.n + p) / s.n) 1 }).1.log[sl - 1]? = some e ∧ e.cmd = c := by
  simp only [obsStep, List.mem_cons] at h
  rcases h with h | h
  · cases h
  · have e : (step s (.start p)).2 = (peers s.n p).map (fun d => Msg.prepare d (((getNode s p).ballot / s.n + 1) * s.n + p)) ++ (becomeLeader s p { getNode s p with ballot := ((getNode s p).ballot / s.n + 1) * s.n + p, p1 := setKV (getNode s p).p1 ((((getNode s p).ballot / s.n + 1) * s.n + p) / s.n) 1 }).2 := by
      simp only [step, if_pos hq]
    rw [e] at h
    exact becomeLeader_props s p _ _ (prepare_propOf p _ _ _) b sl c h

theorem start_waits_noProp (s : St) (p : Nat) (hq : ¬ s.q1 ≤ 1) : NoProp p (obsStep s (.start p)) := by
  intro b sl c h
  simp only [obsStep, List.mem_cons] at h
  rcases h with h | h
  · cases h
  · have e : (step s (.start p)).2 = (peers s.n p).map (fun d => Msg.prepare d (((getNode s p).ballot / s.n + 1) * s.n + p)) := by
      simp only [step, if_neg hq]
    rw [e] at h
    obtain ⟨_, _, _, _, _, hm, _⟩ := propOf_mem_accept h
    have := prepare_propOf p _ _ _ _ hm
    simp [propOf] at this

theorem promise_counts_noProp (s : St) (p k : Nat) (hk : lookup (getNode s p).p1 1 = some k) (hq : ¬ k + 1 ≥ s.q1) :
    NoProp p (obsStep s (.promise p 1)) := by
  intro b sl c h
  simp only [obsStep, List.mem_cons] at h
  rcases h with h | h
  · cases h
  · have e : (step s (.promise p 1)).2 = [] := by simp only [step, hk, if_neg hq]
    rw [e] at h; cases h

theorem promise_quorum_obs (s : St) (p k : Nat) (hk : lookup (getNode s p).p1 1 = some k) (hq : k + 1 ≥ s.q1)
    (b sl c : Nat) (h : LogObs.prop p b sl c ∈ obsStep s (.promise p 1)) :
    1 ≤ sl ∧ ∃ e, (becomeLeader s p { getNode s p with p1 := setKV (getNode s p).p1 1 (k + 1) }).1.log[sl - 1]? = some e ∧ e.cmd = c := by
  simp only [obsStep, List.mem_cons] at h
  rcases h with h | h
  · cases h
  · have e : (step s (.promise p 1)).2 = (becomeLeader s p { getNode s p with p1 := setKV (getNode s p).p1 1 (k + 1) }).2 := by
      simp only [step, hk, if_pos hq]
    rw [e] at h
    exact becomeLeader_props s p _ [] (by intro m hm; cases hm) b sl c (by simpa using h)

theorem run_promises_noProp (p : Nat) (P : List (Nat × Nat)) : ∀ (j : Nat) (s : St) (k : Nat), p < s.nodes.length →
    lookup (getNode s p).p1 1 = some k → k + j < s.q1 → Parked (getNode s p) P →
    NoProp p (obsRun s (List.replicate j (.promise p 1))) := by
  intro j
  induction j with
  | zero => intro s k _ _ _ _ b sl c h; cases h
  | succ j ih =>
    intro s k hp hk hlt hP
    obtain ⟨h1, h2⟩ := promise_counts s p k hp hk (by omega) P hP
    have hp' : p < (step s (.promise p 1)).1.nodes.length := by rw [step_nodes_length]; exact hp
    rw [List.replicate_succ]
    exact (promise_counts_noProp s p k hk (by omega)).append
      (ih (step s (.promise p 1)).1 (k + 1) hp' h2 (by rw [step_q1]; omega) h1)

/-- every `Accept` the future leader sends during the set-up phase names an entry of the log it holds at the end of it -/
theorem reach_leader_obs (n q1 q2 : Nat) (flex : Bool) (p : Nat) (cs : List Nat) (hp : p < n) (hq1 : 1 ≤ q1)
    (b sl c : Nat)
    (h : LogObs.prop p b sl c ∈ obsRun (init n q1 q2 flex)
      (cs.map (.submit p) ++ [.start p] ++ List.replicate (q1 - 1) (.promise p 1))) :
    1 ≤ sl ∧ ∃ e, (getNode (run (init n q1 q2 flex)
      (cs.map (.submit p) ++ [.start p] ++ List.replicate (q1 - 1) (.promise p 1))) p).log[sl - 1]? = some e ∧ e.cmd = c := by
  let sA := run (init n q1 q2 flex) (cs.map (.submit p))
  have hlenA : sA.nodes.length = n := by
    show (run _ _).nodes.length = n
    rw [run_nodes_length]; simp [init]
  have hnA : sA.n = n := by show (run _ _).n = n; rw [run_n]; rfl
  have hq1A : sA.q1 = q1 := by show (run _ _).q1 = q1; rw [run_q1]; rfl
  have hnodeA : getNode sA p = { ballot := p, pending := cs.zipIdx 0 } := by
    show getNode (run _ _) p = _
    rw [run_submits p cs _ (by simp [init]; exact hp) (by rw [init_node _ _ _ _ _ hp]), init_node _ _ _ _ _ hp]
    simp [init]
  have hPA : Parked (getNode sA p) (cs.zipIdx 0) := by rw [hnodeA]; exact ⟨rfl, rfl, rfl, rfl⟩
  have hnoA : NoProp p (obsRun (init n q1 q2 flex) (cs.map (.submit p))) := submits_noProp p p cs _
  rw [obsRun_append, obsRun_append] at h
  rw [run_append, run_append]
  by_cases hq : q1 ≤ 1
  · have hq1' : q1 - 1 = 0 := by omega
    rw [hq1'] at h ⊢
    have hrun : run (run sA [.start p]) (List.replicate 0 (.promise p 1)) = (step sA (.start p)).1 := rfl
    rw [show run (run (run (init n q1 q2 flex) (cs.map (.submit p))) [.start p]) (List.replicate 0 (.promise p 1))
        = (step sA (.start p)).1 from rfl]
    rw [start_alone_becomes_leader sA p (by rw [hq1A]; exact hq), getNode_setNode_eq sA p _ (by rw [hlenA]; exact hp)]
    rcases List.mem_append.1 h with h | h
    · rcases List.mem_append.1 h with h | h
      · exact absurd h (hnoA b sl c)
      · have h' : LogObs.prop p b sl c ∈ obsStep sA (.start p) := by simpa [obsRun] using h
        exact start_alone_obs sA p (by rw [hq1A]; exact hq) b sl c h'
    · cases h
  · obtain ⟨hPB, hkB⟩ := start_waits sA p (by rw [hlenA]; exact hp) (by rw [hq1A]; exact hq) (by rw [hnA]; exact hp)
      (by rw [hnodeA]) (cs.zipIdx 0) hPA
    have hsplit : q1 - 1 = (q1 - 2) + 1 := by omega
    rw [hsplit, List.replicate_succ', obsRun_append] at h
    rw [hsplit, List.replicate_succ', run_append]
    let sB := (step sA (.start p)).1
    have hlenB : sB.nodes.length = n := by show (step _ _).1.nodes.length = n; rw [step_nodes_length]; exact hlenA
    have hq1B : sB.q1 = q1 := by show (step _ _).1.q1 = q1; rw [step_q1]; exact hq1A
    obtain ⟨hPC, hkC⟩ := run_promises p (cs.zipIdx 0) (q1 - 2) sB 1 (by rw [hlenB]; exact hp) hkB
      (by rw [hq1B]; omega) hPB
    have hnoC := run_promises_noProp p (cs.zipIdx 0) (q1 - 2) sB 1 (by rw [hlenB]; exact hp) hkB
      (by rw [hq1B]; omega) hPB
    let sC := run sB (List.replicate (q1 - 2) (.promise p 1))
    have hlenC : sC.nodes.length = n := by show (run _ _).nodes.length = n; rw [run_nodes_length]; exact hlenB
    have hq1C : sC.q1 = q1 := by show (run _ _).q1 = q1; rw [run_q1]; exact hq1B
    have hB : run (init n q1 q2 flex) (cs.map (.submit p) ++ [.start p]) = sB := by rw [run_append]; rfl
    rw [hB] at h
    show 1 ≤ sl ∧ ∃ e, (getNode (step sC (.promise p 1)).1 p).log[sl - 1]? = some e ∧ e.cmd = c
    rw [promise_quorum_becomes_leader sC p 1 (1 + (q1 - 2)) hkC (by rw [hq1C]; omega),
      getNode_setNode_eq sC p _ (by rw [hlenC]; exact hp)]
    rcases List.mem_append.1 h with h | h
    · rcases List.mem_append.1 h with h | h
      · exact absurd h (hnoA b sl c)
      · have h' : LogObs.prop p b sl c ∈ obsStep sA (.start p) := by simpa [obsRun] using h
        exact absurd h' (start_waits_noProp sA p (by rw [hq1A]; exact hq) b sl c)
    · rcases List.mem_append.1 h with h | h
      · exact absurd h (hnoC b sl c)
      · have h' : LogObs.prop p b sl c ∈ obsStep sC (.promise p 1) := by simpa [obsRun] using h
        exact promise_quorum_obs sC p (1 + (q1 - 2)) hkC (by rw [hq1C]; omega) b sl c h'

theorem mem_leaderProps {obs : List LogObs} {p : Nat} {sc : Nat × Nat} (h : sc ∈ Spec.leaderProps obs p) :
    ∃ b, LogObs.prop p b sc.1 sc.2 ∈ obs := by
  simp only [Spec.leaderProps, List.mem_filterMap] at h
  obtain ⟨o, ho, hs⟩ := h
  cases o with
  | prop p' b s c =>
    simp only at hs
    split at hs
    · rename_i hp
      simp only [beq_iff_eq] at hp
      cases hs; subst hp; exact ⟨b, ho⟩
    · cases hs
  | _ => simp at hs

/-- THE JUDGE ACCEPTS THE MODEL.  The transcript of the end-to-end stable-leader run of `stable_leader_progress`
    (distinct commands `cs` parked on `p`, its `start()`, its promises, then any stable action sequence that
    delivers every slot's acknowledgements): the progress clause, evaluated on the run's own observations
    (`obsRun`), the leader's committed commands at the end, the submitted `(future, command)` pairs and the
    futures resolved, reports nothing — for every `Quiet` record naming `p` as the leader. -/
theorem progress_judge_silent (pfx : String) (n q1 q2 : Nat) (flex : Bool) (p : Nat) (cs : List Nat) (as : List Act)
    (q : Spec.Quiet) (hp : p < n) (hq1 : 1 ≤ q1) (hq2 : 1 ≤ q2) (hnd : cs.Nodup) (hl : q.leader = p)
    (hall : ∀ a ∈ as, StableAct p a)
    (hacks : ∀ m, 1 ≤ m → m ≤ cs.length → 0 < as.countP (isAck p m) ∧ q2 ≤ 1 + as.countP (isAck p m)) :
    Spec.judgeProgress pfx q
      (obsRun (init n q1 q2 flex) (cs.map (.submit p) ++ [.start p] ++ List.replicate (q1 - 1) (.promise p 1) ++ as))
      (((getNode (run (init n q1 q2 flex) (cs.map (.submit p) ++ [.start p] ++ List.replicate (q1 - 1) (.promise p 1) ++ as)) p).log.take
          (getNode (run (init n q1 q2 flex) (cs.map (.submit p) ++ [.start p] ++ List.replicate (q1 - 1) (.promise p 1) ++ as)) p).commit).map (·.cmd))
      ((cs.zipIdx 0).map (fun cf => (cf.2, cf.1)))
      (run (init n q1 q2 flex) (cs.map (.submit p) ++ [.start p] ++ List.replicate (q1 - 1) (.promise p 1) ++ as)).futRes
      = none := by
  obtain ⟨hcommit, hfut⟩ := stable_leader_progress n q1 q2 flex p cs as hp hq1 hq2 hall hacks
  obtain ⟨s, nd, hrun, hlen, _, _, hP⟩ := reach_leader n q1 q2 flex p cs hp hq1
  obtain ⟨hpend, hlog0, hcom0, happ0⟩ := hP
  have hca : Caught nd := ⟨by rw [happ0, hcom0], by rw [hcom0]; omega⟩
  have hps : p < s.nodes.length := by rw [hlen]; exact hp
  have hnodeL : getNode (run (init n q1 q2 flex) (cs.map (.submit p) ++ [.start p] ++ List.replicate (q1 - 1) (.promise p 1))) p
      = (becomeLeader s p nd).1 := by rw [hrun]; exact getNode_setNode_eq s p _ hps
  -- the leader's log, from the instant it leads to the end
  have hLlog : ∀ i : Nat, (becomeLeader s p nd).1.log[i]? = (cs[i]?).map (fun c => (⟨nd.ballot / s.n, c⟩ : Entry)) := by
    intro i
    rw [becomeLeader_log, hlog0, hpend, List.nil_append, List.getElem?_map, List.getElem?_zipIdx]
    cases cs[i]? <;> rfl
  have hLlen : (becomeLeader s p nd).1.log.length = cs.length := by
    rw [becomeLeader_log, hlog0, hpend]; simp
  have hend := stable_run_caught p as (run (init n q1 q2 flex) (cs.map (.submit p) ++ [.start p] ++ List.replicate (q1 - 1) (.promise p 1)))
    (by rw [hrun]; simp [setNode]; exact hps) hall (by rw [hnodeL]; exact (becomeLeader_caught s p nd hca).1)
  rw [← run_append, hnodeL] at hend
  obtain ⟨_, hlogEnd⟩ := hend
  -- every Accept of the leader names (k + 1, cs[k])
  have hprops : ∀ sc ∈ Spec.leaderProps (obsRun (init n q1 q2 flex)
      (cs.map (.submit p) ++ [.start p] ++ List.replicate (q1 - 1) (.promise p 1) ++ as)) q.leader,
      1 ≤ sc.1 ∧ cs[sc.1 - 1]? = some sc.2 := by
    intro sc hsc
    rw [hl] at hsc
    obtain ⟨b, hb⟩ := mem_leaderProps hsc
    rw [obsRun_append] at hb
    rcases List.mem_append.1 hb with hb | hb
    · obtain ⟨h1, e, he, hc⟩ := reach_leader_obs n q1 q2 flex p cs hp hq1 b sc.1 sc.2 hb
      rw [hnodeL, hLlog] at he
      refine ⟨h1, ?_⟩
      cases hcs : cs[sc.1 - 1]? with
      | none => rw [hcs] at he; cases he
      | some c' => rw [hcs] at he; simp only [Option.map_some, Option.some.injEq] at he; rw [← he] at hc; rw [← hc]
    · exact absurd hb (stable_run_noProp p as _ hall b sc.1 sc.2)
  have h1 : (Spec.leaderProps (obsRun (init n q1 q2 flex)
      (cs.map (.submit p) ++ [.start p] ++ List.replicate (q1 - 1) (.promise p 1) ++ as)) q.leader).all
      (Spec.slotCommitted (((getNode (run (init n q1 q2 flex) (cs.map (.submit p) ++ [.start p] ++ List.replicate (q1 - 1) (.promise p 1) ++ as)) p).log.take
          (getNode (run (init n q1 q2 flex) (cs.map (.submit p) ++ [.start p] ++ List.replicate (q1 - 1) (.promise p 1) ++ as)) p).commit).map (·.cmd))) = true := by
    rw [List.all_eq_true]
    intro sc hsc
    obtain ⟨hs1, hs2⟩ := hprops sc hsc
    have hk : sc.1 - 1 < cs.length := (List.getElem?_eq_some_iff.1 hs2).1
    simp only [Spec.slotCommitted, Bool.and_eq_true, decide_eq_true_eq, beq_iff_eq]
    refine ⟨hs1, ?_⟩
    rw [hcommit, hlogEnd, List.getElem?_map, List.getElem?_take, if_pos hk, hLlog, hs2]
    rfl
  have h2 : (Spec.leaderProps (obsRun (init n q1 q2 flex)
      (cs.map (.submit p) ++ [.start p] ++ List.replicate (q1 - 1) (.promise p 1) ++ as)) q.leader).all
      (Spec.futureResolved ((cs.zipIdx 0).map (fun cf => (cf.2, cf.1)))
        (run (init n q1 q2 flex) (cs.map (.submit p) ++ [.start p] ++ List.replicate (q1 - 1) (.promise p 1) ++ as)).futRes) = true := by
    rw [List.all_eq_true]
    intro sc hsc
    obtain ⟨hs1, hs2⟩ := hprops sc hsc
    have hk : sc.1 - 1 < cs.length := (List.getElem?_eq_some_iff.1 hs2).1
    simp only [Spec.futureResolved, List.all_eq_true, Bool.or_eq_true, bne_iff_ne, ne_eq, List.contains_iff_mem]
    intro f hf
    simp only [List.mem_map] at hf
    obtain ⟨cf, hcf, rfl⟩ := hf
    obtain ⟨c, j⟩ := cf
    have hj : cs[j]? = some c := List.mem_zipIdx_iff_getElem?.1 hcf
    by_cases hc : c = sc.2
    · right
      have hjk : j = sc.1 - 1 := by
        have hjlt : j < cs.length := (List.getElem?_eq_some_iff.1 hj).1
        exact (List.getElem?_inj hjlt hnd).1 (by rw [hj, hs2, hc])
      have := hfut (sc.1 - 1) hk
      have hget : cs.getD (sc.1 - 1) 0 = sc.2 := by simp [List.getD_eq_getElem?_getD, hs2]
      rw [hget] at this
      have e1 : sc.1 - 1 + 1 = sc.1 := by omega
      rw [e1] at this
      simp only [hjk, hc]
      exact this
    · left; exact hc
  unfold Spec.judgeProgress
  by_cases hst : q.stable = true
  · rw [if_neg (by rw [hst]; decide), if_neg (by rw [h1]; decide), if_neg (by rw [h2]; decide)]
  · rw [if_pos (by simpa using hst)]

/-- non-vacuity of `stable_leader_progress` / `progress_judge_silent`: n = 3, majority quorums, commands 1 and 2 on
    node 0, slot 2 acknowledged before slot 1 — the hypotheses hold and the leader did send Accepts -/
example : (∀ a ∈ demoAcks, StableAct 0 a) ∧ [1, 2].Nodup ∧
    (∀ m, 1 ≤ m → m ≤ [1, 2].length → 0 < demoAcks.countP (isAck 0 m) ∧ 2 ≤ 1 + demoAcks.countP (isAck 0 m)) ∧
    Spec.leaderProps (obsRun (init 3 2 2 false)
      ([1, 2].map (.submit 0) ++ [.start 0] ++ List.replicate (2 - 1) (.promise 0 1) ++ demoAcks)) 0
      = [(1, 1), (1, 1), (2, 2), (2, 2)] := by
  refine ⟨?_, by decide, ?_, by decide⟩
  · intro a ha
    simp only [demoAcks, List.mem_cons, List.not_mem_nil, or_false] at ha
    rcases ha with rfl | rfl | rfl <;> simp [StableAct, actor]
  · intro m h1 h2
    have : m = 1 ∨ m = 2 := by simp at h2; omega
    rcases this with rfl | rfl <;> decide

end HappyModel.C12.MP
