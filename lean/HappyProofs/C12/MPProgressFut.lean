import HappyProofs.C12.MPProgress
/-!
# C12 — a stable leader resolves the future of every slot it commits, with that slot's own command

`_apply_committed` walks the newly committed entries in slot order; for a leader that has applied everything it
committed (`_last_applied = commit_index`), every entry of the new prefix is applied and the future registered
for its slot is resolved with `(slot, result of that entry's command)`.
-/
namespace HappyModel.C12.MP

theorem applyFrom_resolves : ∀ (es : List Entry) (nd : Node) (idx j f : Nat),
    nd.applied < idx → idx ≤ j → j < idx + es.length → lookup nd.futs j = some f →
    ∃ e, es[j - idx]? = some e ∧ (f, j, e.cmd) ∈ (applyFrom nd idx es).2 := by
  intro es
  induction es with
  | nil => intro nd idx j f _ h1 h2 _; simp at h2; omega
  | cons e es ih =>
    intro nd idx j f ha h1 h2 hf
    simp only [applyFrom, if_pos ha]
    by_cases hj : j = idx
    · subst hj
      refine ⟨e, by simp, ?_⟩
      rw [hf]
      simp
    · have hlt : idx + 1 ≤ j := by omega
      have hf' : lookup (nd.futs.filter (·.1 != idx)) j = some f := by
        rw [lookup_filter_ne _ _ _ hj]; exact hf
      obtain ⟨e', he', hm⟩ := ih { nd with applied := idx, futs := nd.futs.filter (·.1 != idx) } (idx + 1) j f
        (by simp) hlt (by simp only [List.length_cons] at h2; omega) hf'
      refine ⟨e', ?_, List.mem_append_right _ hm⟩
      have : j - idx = (j - (idx + 1)) + 1 := by omega
      rw [this, List.getElem?_cons_succ]; exact he'

theorem applyFrom_applied : ∀ (es : List Entry) (nd : Node) (idx : Nat),
    nd.applied < idx → es ≠ [] → (applyFrom nd idx es).1.applied = idx + es.length - 1 := by
  intro es
  induction es with
  | nil => intro nd idx _ h; exact absurd rfl h
  | cons e es ih =>
    intro nd idx ha _
    simp only [applyFrom, if_pos ha]
    by_cases hes : es = []
    · subst hes; simp [applyFrom]
    · rw [ih _ (idx + 1) (by simp) hes]; simp only [List.length_cons]; omega

theorem applyFrom_futs_above : ∀ (es : List Entry) (nd : Node) (idx j : Nat),
    idx + es.length ≤ j → lookup (applyFrom nd idx es).1.futs j = lookup nd.futs j := by
  intro es
  induction es with
  | nil => intro nd idx j _; rfl
  | cons e es ih =>
    intro nd idx j h
    simp only [List.length_cons] at h
    simp only [applyFrom]
    split
    · rw [ih _ (idx + 1) j (by omega)]
      exact lookup_filter_ne _ _ _ (by omega)
    · exact ih _ (idx + 1) j (by omega)

theorem applyFrom_applied_nil (nd : Node) (idx : Nat) : (applyFrom nd idx []).1.applied = nd.applied := rfl

/-- the leader's view: everything committed is applied, the commit index lies inside the log -/
def Caught (nd : Node) : Prop := nd.applied = nd.commit ∧ nd.commit ≤ nd.log.length

theorem drop_take_getElem? (l : List Entry) (c0 c1 j : Nat) (h0 : c0 < j) (h1 : j ≤ c1) :
    ((l.drop c0).take (c1 - c0))[j - (c0 + 1)]? = l[j - 1]? := by
  rw [List.getElem?_take, if_pos (by omega), List.getElem?_drop]
  congr 1; omega

/-- one acknowledgement on a caught-up leader: still caught up; futures above the new commit index untouched;
    the future of every newly committed slot resolved with that slot's command -/
theorem ackNode_caught (q2 : Nat) (nd : Node) (slot : Nat) (h : Caught nd) : Caught (ackNode q2 nd slot) := by
  obtain ⟨ha, hc⟩ := h
  unfold ackNode
  split
  · rename_i hk
    unfold advanceCommit
    rw [if_neg (by simp only []; omega)]
    simp only []
    refine ⟨?_, ?_⟩
    · rw [applyFrom_commit]
      by_cases he : (List.take (min slot nd.log.length - nd.commit) (List.drop nd.commit nd.log)) = []
      · rw [he]
        simp only [applyFrom]
        have : min slot nd.log.length - nd.commit = 0 ∨ nd.log.length - nd.commit = 0 := by
          have hl := congrArg List.length he
          simp only [List.length_take, List.length_drop, List.length_nil] at hl
          omega
        omega
      · rw [applyFrom_applied _ _ _ (by simp only []; omega) he]
        simp only [List.length_take, List.length_drop]
        omega
    · rw [applyFrom_commit, applyFrom_log]
      exact Nat.min_le_right _ _
  · exact ⟨ha, hc⟩

theorem take_drop_length (l : List Entry) (c0 c1 : Nat) (h : c1 ≤ l.length) :
    ((l.drop c0).take (c1 - c0)).length = c1 - c0 := by
  simp only [List.length_take, List.length_drop]; omega

theorem advanceCommit_resolves (nd : Node) (c m f : Nat) (hc : Caught nd) (hlt : nd.commit < c)
    (h0 : nd.commit < m) (h1 : m ≤ min c nd.log.length) (hf : lookup nd.futs m = some f) :
    ∃ e, nd.log[m - 1]? = some e ∧ (f, m, e.cmd) ∈ (advanceCommit nd c).2 := by
  obtain ⟨ha, hcl⟩ := hc
  unfold advanceCommit
  rw [if_neg (by omega)]
  simp only []
  have hlen := take_drop_length nd.log nd.commit (min c nd.log.length) (Nat.min_le_right _ _)
  obtain ⟨e, he, hm⟩ := applyFrom_resolves ((nd.log.drop nd.commit).take (min c nd.log.length - nd.commit))
    { nd with commit := min c nd.log.length } (nd.commit + 1) m f (by simp only []; omega) (by omega)
    (by rw [hlen]; omega) hf
  rw [drop_take_getElem? nd.log nd.commit _ m h0 h1] at he
  exact ⟨e, he, hm⟩

theorem advanceCommit_futs_above (nd : Node) (c m : Nat) (hc : Caught nd) (hlt : nd.commit < c)
    (hm : min c nd.log.length < m) : lookup (advanceCommit nd c).1.futs m = lookup nd.futs m := by
  obtain ⟨ha, hcl⟩ := hc
  unfold advanceCommit
  rw [if_neg (by omega)]
  simp only []
  have hlen := take_drop_length nd.log nd.commit (min c nd.log.length) (Nat.min_le_right _ _)
  rw [applyFrom_futs_above _ _ _ m (by rw [hlen]; omega)]

theorem step_futRes_mono (s : St) (a : Act) (x : Nat × Nat × Nat) (h : x ∈ s.futRes) : x ∈ (step s a).1.futRes := by
  cases a <;> simp only [step] <;> (repeat' split) <;>
    first
      | exact h
      | exact List.mem_append_left _ h
      | (simp only [setNode]; exact h)

theorem step_accepted_futRes (s : St) (p slot : Nat) :
    (step s (.accepted p slot)).1.futRes =
      if (lookup (getNode s p).acks slot).getD 0 + 1 ≥ s.q2 ∧ slot > (getNode s p).commit then
        s.futRes ++ (advanceCommit { getNode s p with acks := setKV (getNode s p).acks slot ((lookup (getNode s p).acks slot).getD 0 + 1) } slot).2
      else s.futRes := by
  by_cases hc : (lookup (getNode s p).acks slot).getD 0 + 1 ≥ s.q2 ∧ slot > (getNode s p).commit
  · simp only [step, if_pos hc]
  · simp only [step, if_neg hc, setNode]

/-- the core for futures, same shape as `stable_run_commit` -/
theorem stable_run_future (p m f : Nat) (e : Entry) (hm1 : 1 ≤ m) : ∀ (as : List Act) (s : St),
    p < s.nodes.length → (∀ a ∈ as, StableAct p a) → Caught (getNode s p) →
    (getNode s p).log[m - 1]? = some e →
    ((f, m, e.cmd) ∈ s.futRes ∨
      (lookup (getNode s p).futs m = some f ∧ (getNode s p).commit < m ∧
        0 < as.countP (isAck p m) ∧ s.q2 ≤ ackOf (getNode s p) m + as.countP (isAck p m))) →
    (f, m, e.cmd) ∈ (run s as).futRes := by
  intro as
  induction as with
  | nil =>
    intro s _ _ _ _ h
    rcases h with h | ⟨_, _, h, _⟩
    · exact h
    · simp at h
  | cons a rest ih =>
    intro s hp hall hca hlog h
    have hp' : p < (step s a).1.nodes.length := by rw [step_nodes_length]; exact hp
    have hall' : ∀ a' ∈ rest, StableAct p a' := fun a' ha' => hall a' (List.mem_cons_of_mem _ ha')
    have hq : (step s a).1.q2 = s.q2 := step_q2 s a
    have hmlen : m ≤ (getNode s p).log.length := by
      have := (List.getElem?_eq_some_iff.1 hlog).1; omega
    show (f, m, e.cmd) ∈ (run (step s a).1 rest).futRes
    by_cases hA : ∃ slot, a = .accepted p slot
    · obtain ⟨slot, rfl⟩ := hA
      have hnode := step_accepted_node s p slot hp
      have hca' : Caught (getNode (step s (.accepted p slot)).1 p) := by rw [hnode]; exact ackNode_caught _ _ _ hca
      have hlog' : (getNode (step s (.accepted p slot)).1 p).log[m - 1]? = some e := by
        rw [hnode, ackNode_log]; exact hlog
      apply ih (step s (.accepted p slot)).1 hp' hall' hca' hlog'
      rcases h with h | ⟨hf, hcm, h0, hq2⟩
      · left; exact step_futRes_mono _ _ _ h
      · have hcnt : (Act.accepted p slot :: rest).countP (isAck p m) =
            rest.countP (isAck p m) + if slot = m then 1 else 0 := by
          rw [List.countP_cons]
          by_cases e' : slot = m
          · simp [isAck, e']
          · simp [isAck, e']
        rw [hcnt] at h0 hq2
        by_cases hc : (lookup (getNode s p).acks slot).getD 0 + 1 ≥ s.q2 ∧ slot > (getNode s p).commit
        · -- the commit index moves to min slot len
          by_cases hle : m ≤ min slot (getNode s p).log.length
          · left
            rw [step_accepted_futRes, if_pos hc]
            obtain ⟨e2, he2, hmem⟩ := advanceCommit_resolves
              { getNode s p with acks := setKV (getNode s p).acks slot ((lookup (getNode s p).acks slot).getD 0 + 1) }
              slot m f hca hc.2 hcm hle hf
            have : e2 = e := by
              have h3 : (getNode s p).log[m - 1]? = some e2 := he2
              rw [hlog] at h3; exact (Option.some.inj h3).symm
            subst this
            exact List.mem_append_right _ hmem
          · right
            have hne : ¬ slot = m := by
              intro e'; subst e'; apply hle; rw [Nat.le_min]; omega
            have hne' : ¬ m = slot := fun x => hne x.symm
            simp only [hne, if_false, Nat.add_zero] at h0 hq2
            rw [hnode, hq]
            refine ⟨?_, ?_, h0, ?_⟩
            · unfold ackNode; rw [if_pos hc]
              rw [advanceCommit_futs_above { getNode s p with acks := setKV (getNode s p).acks slot ((lookup (getNode s p).acks slot).getD 0 + 1) } slot m hca hc.2 (by simp only []; omega)]
              exact hf
            · rw [ackNode_commit]; unfold ackOf; rw [if_pos hc]; omega
            · rw [ackNode_ackOf, if_neg hne']; exact hq2
        · right
          rw [hnode, hq]
          refine ⟨?_, ?_, ?_⟩
          · unfold ackNode; rw [if_neg hc]; exact hf
          · rw [ackNode_commit]; unfold ackOf; rw [if_neg hc]; exact hcm
          · rw [ackNode_ackOf]
            by_cases e' : slot = m
            · subst e'
              simp only [if_true] at h0 hq2 ⊢
              have : ¬ (lookup (getNode s p).acks slot).getD 0 + 1 ≥ s.q2 := fun x => hc ⟨x, hcm⟩
              unfold ackOf at hq2 ⊢
              omega
            · have hne' : ¬ m = slot := fun x => e' x.symm
              simp only [e', hne', if_false, Nat.add_zero] at h0 hq2 ⊢
              exact ⟨h0, hq2⟩
    · obtain ⟨hact, hno⟩ := stable_not_ack m (hall a List.mem_cons_self) hA
      have hnode := step_other_node s a p hact
      apply ih (step s a).1 hp' hall' (by rw [hnode]; exact hca) (by rw [hnode]; exact hlog)
      rcases h with h | h
      · left; exact step_futRes_mono _ _ _ h
      · right
        rw [hnode, hq]
        rw [List.countP_cons, hno] at h
        simpa using h

/-- STABLE LEADER, FUTURES.  A leader `p` that has applied everything it committed, holds entry `e` at slot `m`
    (not yet committed) and the `submit()` future `f` registered for that slot: along any stable action sequence
    in which the acknowledgements for `m` complete its phase-2 quorum — in any order relative to the other slots —
    future `f` ends up resolved with `(m, result of e's command)`. -/
theorem stable_leader_resolves_future (s : St) (p m f : Nat) (e : Entry) (as : List Act)
    (hp : p < s.nodes.length) (hall : ∀ a ∈ as, StableAct p a) (hca : Caught (getNode s p))
    (hm1 : 1 ≤ m) (hlog : (getNode s p).log[m - 1]? = some e) (hf : lookup (getNode s p).futs m = some f)
    (hcm : (getNode s p).commit < m) (hin : 0 < as.countP (isAck p m))
    (hq : s.q2 ≤ ackOf (getNode s p) m + as.countP (isAck p m)) :
    (f, m, e.cmd) ∈ (run s as).futRes :=
  stable_run_future p m f e hm1 as s hp hall hca hlog (Or.inr ⟨hf, hcm, hin, hq⟩)

/-! ### non-vacuity, and the Spec clause on a stuck run -/

/-- 3 nodes, majority quorums: two commands parked on node 0, `start()`, one promise: node 0 leads with slots 1, 2 -/
def demoLeader : St := run (init 3 2 2 false) [.submit 0 1, .submit 0 2, .start 0, .promise 0 1]

/-- slot 2 is acknowledged before slot 1; node 1's handler runs in between -/
def demoAcks : List Act := [.accepted 0 2, .accept 1 0 3 1 1 0, .accepted 0 1]

example : 0 < demoLeader.nodes.length ∧ (getNode demoLeader 0).log.length = 2 ∧ (getNode demoLeader 0).commit = 0 ∧
    (getNode demoLeader 0).applied = 0 ∧ lookup (getNode demoLeader 0).futs 1 = some 0 ∧
    lookup (getNode demoLeader 0).futs 2 = some 1 ∧ ackOf (getNode demoLeader 0) 1 = 1 ∧ demoLeader.q2 = 2 ∧
    demoAcks.countP (isAck 0 1) = 1 := by decide

example : ∀ a ∈ demoAcks, StableAct 0 a := by
  intro a ha
  simp only [demoAcks, List.mem_cons, List.not_mem_nil, or_false] at ha
  rcases ha with rfl | rfl | rfl <;> simp [StableAct, actor]

example : (getNode (run demoLeader demoAcks) 0).commit = 2 ∧
    (run demoLeader demoAcks).futRes = [(0, 1, 1), (1, 2, 2)] := by decide

/-- the Spec flags a quiet fault-free stable-leader run in which a replicated slot stays uncommitted (what a leader
    that commits only `commit_index + 1` and never looks at later slots again leaves behind) -/
theorem stuck_stable_leader_violates_spec :
    Spec.judgeProgress "mpaxos" ⟨0, 1, 0, 12, 12⟩ [.prop 0 3 1 1, .prop 0 3 2 2] [1] [(0, 1), (1, 2)] [(0, 1, 1)]
      = some "mpaxos/progress/replicated-slot-never-committed-by-stable-leader" := by decide

/-- … and one whose slot is committed but whose future stays pending -/
theorem pending_future_violates_spec :
    Spec.judgeProgress "mpaxos" ⟨0, 1, 0, 12, 12⟩ [.prop 0 3 1 1, .prop 0 3 2 2] [1, 2] [(0, 1), (1, 2)] [(0, 1, 1)]
      = some "mpaxos/progress/future-never-resolved-by-stable-leader" := by decide

/-- silent when everything replicated is committed and resolved, and on runs that are not quiet stable-leader runs -/
example : Spec.judgeProgress "mpaxos" ⟨0, 1, 0, 12, 12⟩ [.prop 0 3 1 1, .prop 0 3 2 2] [1, 2] [(0, 1), (1, 2)]
    [(0, 1, 1), (1, 2, 2)] = none := by decide
example : Spec.judgeProgress "mpaxos" ⟨0, 2, 0, 12, 12⟩ [.prop 0 3 1 1] [] [(0, 1)] [] = none := by decide
example : Spec.judgeProgress "mpaxos" ⟨0, 1, 0, 12, 11⟩ [.prop 0 3 1 1] [] [(0, 1)] [] = none := by decide

/-- the full statement (proved in `MPFull.lean`: `stable_leader_progress`; the `decide` example above is its
    instance n = 3, cs = [1, 2]): `cs` are submitted to node `p` of a fresh cluster, then the only `start()`, then the
    `q1 - 1` promises it needs; after any stable action sequence in which every slot gets its acknowledgements, all of
    `cs` are committed on `p` and the i-th `submit()` future is resolved with `(i + 1, cs[i])`.  Its core from the
    instant the leader has assigned its slots is `stable_leader_commits_any_ack_order` /
    `stable_leader_resolves_future`; `MPSetup.lean` and `MPFull.lean` add the set-up phase (`becomeLeader` assigns
    slots 1..k with one acknowledgement each and leaves the node caught up). -/
def stable_leader_progress_full : Prop :=
  ∀ (n q1 q2 : Nat) (flex : Bool) (p : Nat) (cs : List Nat) (as : List Act),
    p < n → 1 ≤ q1 → 1 ≤ q2 →
    (∀ a ∈ as, StableAct p a) →
    (∀ m, 1 ≤ m → m ≤ cs.length → 0 < as.countP (isAck p m) ∧ q2 ≤ 1 + as.countP (isAck p m)) →
    (getNode (run (init n q1 q2 flex)
        (cs.map (.submit p) ++ [.start p] ++ List.replicate (q1 - 1) (.promise p 1) ++ as)) p).commit = cs.length ∧
    ∀ k, k < cs.length →
      (k, k + 1, cs.getD k 0) ∈ (run (init n q1 q2 flex)
        (cs.map (.submit p) ++ [.start p] ++ List.replicate (q1 - 1) (.promise p 1) ++ as)).futRes

end HappyModel.C12.MP
