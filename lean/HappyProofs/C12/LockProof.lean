import HappyModel.C12.Lock
/-! Fencing tokens strictly increase across grants: every `_grant_lock` draws from one counter. -/
namespace HappyModel.C12.Lock
open Spec

@[simp] theorem updL_same (f : Nat → LockSt) (i : Nat) (x : LockSt) : updL f i x i = x := by simp [updL]
theorem updL_other (f : Nat → LockSt) (i j : Nat) (x : LockSt) (h : j ≠ i) : updL f i x j = f j := by
  simp [updL, h]

/-- what the observer has seen so far is consistent with the manager's state -/
structure LInv (s : St) (seen : List Grant) : Prop where
  below : ∀ g ∈ seen, g.2.2 < s.next
  cur : ∀ l r, (s.locks l).holder = some r →
          seen.find? (fun h => h.1 == l) = some (l, r, (s.locks l).token)

theorem fencing_append (seen a b : List Grant) :
    fencing seen (a ++ b) = (fencing seen a && fencing (a.reverse ++ seen) b) := by
  induction a generalizing seen with
  | nil => simp [fencing]
  | cons g gs ih =>
    simp [fencing, ih, Bool.and_assoc]

/-- a fresh grant: accepted by the Spec, invariant re-established -/
theorem fresh_ok {s : St} {seen : List Grant} (inv : LInv s seen) (l r : Nat) (ws : List Nat) :
    grantOk seen (l, r, s.next) = true ∧ LInv (grant s l r ws) ((l, r, s.next) :: seen) := by
  refine ⟨?_, ?_, ?_⟩
  · unfold grantOk
    apply Bool.or_eq_true_iff.mpr; left
    rw [List.all_eq_true]
    intro h hh
    have := inv.below h hh
    simpa using this
  · intro g hg
    show g.2.2 < s.next + 1
    rcases List.mem_cons.mp hg with rfl | hg
    · exact Nat.lt_succ_self _
    · exact Nat.lt_succ_of_lt (inv.below g hg)
  · intro l' r' hh
    by_cases hl : l' = l
    · subst hl
      simp [grant] at hh ⊢
      exact hh
    · simp only [grant, updL_other _ _ _ _ hl] at hh ⊢
      have : ((l, r, s.next).1 == l') = false := by simp; exact fun e => hl e.symm
      rw [List.find?_cons, this]
      exact inv.cur l' r' hh

/-- a re-entrant acquire repeats the holder's grant -/
theorem reentrant_ok {s : St} {seen : List Grant} (inv : LInv s seen) (l r : Nat)
    (hh : (s.locks l).holder = some r) :
    grantOk seen (l, r, (s.locks l).token) = true ∧ LInv s ((l, r, (s.locks l).token) :: seen) := by
  have hf := inv.cur l r hh
  have hmem : (l, r, (s.locks l).token) ∈ seen := List.mem_of_find?_eq_some hf
  refine ⟨?_, ?_, ?_⟩
  · unfold grantOk
    apply Bool.or_eq_true_iff.mpr; right
    rw [hf]; simp
  · intro g hg
    rcases List.mem_cons.mp hg with rfl | hg
    · exact inv.below _ hmem
    · exact inv.below g hg
  · intro l' r' hh'
    by_cases hl : l' = l
    · subst hl
      rw [hh] at hh'; cases hh'
      simp [List.find?_cons]
    · have : ((l, r, (s.locks l).token).1 == l') = false := by simp; exact fun e => hl e.symm
      rw [List.find?_cons, this]
      exact inv.cur l' r' hh'

/-- holder cleared, next waiter (if any) granted -/
theorem free_ok {s : St} {seen : List Grant} (inv : LInv s seen) (l : Nat) :
    (match (freeAndWake s l).2 with
     | some (w, t) => grantOk seen (l, w, t) = true ∧ LInv (freeAndWake s l).1 ((l, w, t) :: seen)
     | none => LInv (freeAndWake s l).1 seen) := by
  unfold freeAndWake
  cases hw : (s.locks l).waiters with
  | nil =>
    simp only []
    refine ⟨inv.below, ?_⟩
    intro l' r' hh
    by_cases hl : l' = l
    · subst hl; simp at hh
    · simp only [updL_other _ _ _ _ hl] at hh ⊢
      exact inv.cur l' r' hh
  | cons w ws =>
    simp only []
    exact fresh_ok inv l w ws

theorem step_ok {s : St} {seen : List Grant} (inv : LInv s seen) (o : Op) :
    fencing seen (grantsOf o (step s o).2) = true ∧
    LInv (step s o).1 ((grantsOf o (step s o).2).reverse ++ seen) := by
  have one : ∀ (g : Grant) (t : St), grantOk seen g = true ∧ LInv t (g :: seen) →
      fencing seen [g] = true ∧ LInv t ([g].reverse ++ seen) := by
    intro g t h
    simp only [fencing, Bool.and_true, List.reverse_cons, List.reverse_nil, List.nil_append, List.singleton_append]
    exact h
  have zero : ∀ (t : St), LInv t seen → fencing seen [] = true ∧ LInv t ([].reverse ++ seen) := by
    intro t h
    exact ⟨rfl, h⟩
  cases o with
  | acquire l r =>
    cases hh : (s.locks l).holder with
    | none =>
      have e : step s (.acquire l r) = (grant s l r (s.locks l).waiters, { res := .grant s.next }) := by
        simp [step, hh]
      rw [e]
      exact one _ _ (fresh_ok inv l r _)
    | some h =>
      by_cases hr : h = r
      · subst hr
        have e : step s (.acquire l h) = (s, { res := .grant (s.locks l).token }) := by
          simp [step, hh]
        rw [e]
        exact one _ _ (reentrant_ok inv l h hh)
      · by_cases hq : s.maxW > 0 ∧ (s.locks l).waiters.length ≥ s.maxW
        · have e : step s (.acquire l r) = (s, { res := .rejected }) := by
            simp only [step, hh, if_neg hr, if_pos hq]
          rw [e]
          exact zero _ inv
        · have e : step s (.acquire l r) =
              ({ s with locks := updL s.locks l { (s.locks l) with waiters := (s.locks l).waiters ++ [r] } },
               { res := .queued }) := by
            simp only [step, hh, if_neg hr, if_neg hq]
          rw [e]
          refine zero _ ⟨inv.below, ?_⟩
          intro l' r' hh'
          by_cases hl : l' = l
          · subst hl
            simp at hh' ⊢
            exact inv.cur l' r' hh'
          · simp only [updL_other _ _ _ _ hl] at hh' ⊢
            exact inv.cur l' r' hh'
  | tryAcquire l r =>
    cases hh : (s.locks l).holder with
    | none =>
      have e : step s (.tryAcquire l r) = (grant s l r (s.locks l).waiters, { res := .grant s.next }) := by
        simp [step, hh]
      rw [e]
      exact one _ _ (fresh_ok inv l r _)
    | some h =>
      by_cases hr : h = r
      · subst hr
        have e : step s (.tryAcquire l h) = (s, { res := .grant (s.locks l).token }) := by
          simp [step, hh]
        rw [e]
        exact one _ _ (reentrant_ok inv l h hh)
      · have e : step s (.tryAcquire l r) = (s, { res := .none_ }) := by
          simp only [step, hh, if_neg hr]
        rw [e]
        exact zero _ inv
  | release l tok =>
    cases hh : (s.locks l).holder with
    | none =>
      have e : step s (.release l tok) = (s, { res := .ok false }) := by simp [step, hh]
      rw [e]; exact zero _ inv
    | some h =>
      by_cases ht : (s.locks l).token ≠ tok
      · have e : step s (.release l tok) = (s, { res := .ok false }) := by simp only [step, hh, if_pos ht]
        rw [e]; exact zero _ inv
      · have e : step s (.release l tok) =
            ((freeAndWake s l).1, { res := .ok true, wake := (freeAndWake s l).2 }) := by
          simp only [step, hh, if_neg ht]
        rw [e]
        have hf := free_ok inv l
        cases hw : (freeAndWake s l).2 with
        | none => rw [hw] at hf; exact zero _ hf
        | some wt => obtain ⟨w, t⟩ := wt; rw [hw] at hf; exact one _ _ hf
  | expire l tok =>
    cases hh : (s.locks l).holder with
    | none =>
      have e : step s (.expire l tok) = (s, { res := .unit }) := by simp [step, hh]
      rw [e]; exact zero _ inv
    | some h =>
      by_cases ht : (s.locks l).token ≠ tok
      · have e : step s (.expire l tok) = (s, { res := .unit }) := by simp only [step, hh, if_pos ht]
        rw [e]; exact zero _ inv
      · have e : step s (.expire l tok) =
            ((freeAndWake s l).1, { res := .unit, wake := (freeAndWake s l).2 }) := by
          simp only [step, hh, if_neg ht]
        rw [e]
        have hf := free_ok inv l
        cases hw : (freeAndWake s l).2 with
        | none => rw [hw] at hf; exact zero _ hf
        | some wt => obtain ⟨w, t⟩ := wt; rw [hw] at hf; exact one _ _ hf

theorem run_ok (s : St) (seen : List Grant) (inv : LInv s seen) (ops : List Op) :
    fencing seen (runGrants s ops) = true := by
  induction ops generalizing s seen with
  | nil => simp [runGrants, fencing]
  | cons o os ih =>
    obtain ⟨h1, h2⟩ := step_ok inv o
    simp only [runGrants, fencing_append, h1, Bool.true_and]
    exact ih _ _ h2

theorem init_linv (maxW : Nat) : LInv (init maxW) [] := by
  refine ⟨(by intro g hg; cases hg), ?_⟩
  intro l r hh
  simp [init] at hh

end HappyModel.C12.Lock
