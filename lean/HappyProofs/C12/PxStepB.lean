import HappyProofs.C12.PxStepA
namespace HappyModel.C12.Px

theorem decide_inv {s : St} (inv : Inv s) (b0 : Nat) (v : Val) (hc : ∃ b, Chosen s b v) :
    Inv (decide_ s b0 v) := by
  unfold decide_
  split
  · exact inv
  · refine ⟨inv.n1.frame rfl rfl rfl rfl rfl (fun _ h => h), inv.n2.frame rfl rfl rfl rfl rfl rfl rfl,
            inv.sem.frame rfl rfl rfl rfl rfl, ⟨?_, ?_⟩⟩
    · intro d' v' hd'
      by_cases hdd : d' = b0 % s.cfg.n
      · subst hdd; simp at hd'; subst hd'; exact hc
      · simp [upd_other _ _ _ _ hdd] at hd'; exact inv.learn.node d' v' hd'
    · intro f d' v' hd'
      simp only [] at hd'
      split at hd'
      · cases hd'; exact hc
      · exact inv.learn.msg f d' v' hd'

theorem decide_cfg (s : St) (b : Nat) (v : Val) : (decide_ s b v).cfg = s.cfg := by
  unfold decide_; split <;> rfl

theorem recvAccepted_inv (s : St) (b f : Nat) (inv : Inv s) : Inv (step s (.recvAccepted b f)) := by
  unfold step
  simp only []
  split
  · rename_i hslot
    obtain ⟨hfn, hfa, v, hst, hvo⟩ := inv.n2.acptd b f hslot
    -- the state after counting the ack
    have hn2 : Net2 { s with mAcptd := upd2 s.mAcptd b f false, acks := upd s.acks b (f :: s.acks b) } := by
      refine ⟨?_, ?_, ?_, ?_, inv.n2.fresh⟩
      · intro b' hb'
        by_cases hbb : b' = b
        · subst hbb; simp at hb'; rw [hst] at hb'; cases hb'
        · obtain ⟨a1, a2⟩ := inv.n2.none_ b' hb'
          refine ⟨by simp [upd_other _ _ _ _ hbb]; exact a1, fun d' => ⟨(a2 d').1, upd2_false_of (a2 d').2⟩⟩
      · intro b' d' v' hb'
        obtain ⟨a1, a2, a3, a4⟩ := inv.n2.acpt b' d' v' hb'
        refine ⟨a1, upd2_false_of a2, ?_, a4⟩
        by_cases hbb : b' = b
        · subst hbb; simp
          refine ⟨?_, a3⟩
          intro hdf; subst hdf; rw [hslot] at a2; cases a2
        · simp [upd_other _ _ _ _ hbb]; exact a3
      · intro b' f' hb'
        obtain ⟨hb1, hb2⟩ := upd2_false_true hb'
        obtain ⟨a1, a2, a3⟩ := inv.n2.acptd b' f' hb1
        refine ⟨a1, ?_, a3⟩
        by_cases hbb : b' = b
        · subst hbb; simp
          exact ⟨fun hff => hb2 ⟨rfl, hff⟩, a2⟩
        · simp [upd_other _ _ _ _ hbb]; exact a2
      · intro b'
        by_cases hbb : b' = b
        · subst hbb; simp
          obtain ⟨a1, a2⟩ := inv.n2.acks b'
          refine ⟨⟨hfa, a1⟩, ⟨hfn, v, hst, hvo⟩, a2⟩
        · simp [upd_other _ _ _ _ hbb]; exact inv.n2.acks b'
    have inv1 : Inv { s with mAcptd := upd2 s.mAcptd b f false, acks := upd s.acks b (f :: s.acks b) } :=
      ⟨inv.n1.frame rfl rfl rfl rfl rfl (fun _ h => h), hn2, inv.sem.frame rfl rfl rfl rfl rfl,
       inv.learn.frame rfl rfl rfl (fun _ h => h)⟩
    split
    · rw [hst]
      simp only []
      split
      · rename_i hq
        apply decide_inv inv1
        refine ⟨b, f :: s.acks b, ?_, ?_, by simpa using hq⟩
        · exact List.nodup_cons.mpr ⟨hfa, (inv.n2.acks b).1⟩
        · intro a ha
          rcases List.mem_cons.mp ha with rfl | ha
          · exact ⟨hfn, hvo⟩
          · obtain ⟨c1, v', c2, c3⟩ := (inv.n2.acks b).2 a ha
            rw [hst] at c2; cases c2
            exact ⟨c1, c3⟩
      · exact inv1
    · exact ⟨inv.n1.frame rfl rfl rfl rfl rfl (fun _ h => h), clearAcptd_net2 inv.n2 b f,
             inv.sem.frame rfl rfl rfl rfl rfl, inv.learn.frame rfl rfl rfl (fun _ h => h)⟩
  · exact inv

end HappyModel.C12.Px
