import HappyProofs.C12.ElStatic
/-!
# C12 — identical static member views: the invariant along every schedule, one leader per term
-/
namespace HappyModel.C12.El

/-! ### what an enabled delivery carries -/

theorem victory_enabled {n : Nat} {y : Sys} {d l : Nat} (h : SInv n y)
    (hen : enabled y (.victory d l) = true) : l = n - 1 := by
  simp only [enabled, List.any_eq_true] at hen
  obtain ⟨m, hm, hv⟩ := hen
  cases m with
  | victory d' l' t =>
    simp only [isVictoryOf, Bool.and_eq_true, beq_iff_eq] at hv
    have := h.soup _ hm
    simp only [goodMsg] at this
    omega
  | _ => simp [isVictoryOf] at hv

theorem lhb_enabled {n : Nat} {y : Sys} {d l t : Nat} (h : SInv n y)
    (hen : enabled y (.lhb d l t) = true) : l = n - 1 := by
  simp only [enabled, List.contains_iff_mem] at hen
  exact h.soup _ hen

theorem token_enabled {n : Nat} {y : Sys} {d i t : Nat} {cs : List Nat} (h : SInv n y)
    (hen : enabled y (.token d i t cs) = true) : goodMsg n (.token d i cs t) := by
  simp only [enabled, List.contains_iff_mem] at hen
  exact h.soup _ hen

theorem ring_back {n init k : Nat} (hi : init < n) (h1 : 1 ≤ k) (h2 : k ≤ n) (h : (init + k) % n = init) : k = n := by
  by_cases hc : init + k < n
  · rw [Nat.mod_eq_of_lt hc] at h; omega
  · rw [mod_wrap (by omega) (by omega)] at h; omega

theorem ring_has_top {n init : Nat} {cands : List Nat} (hi : init < n)
    (h : ∀ j, j < n → (init + j) % n ∈ cands) : n - 1 ∈ cands := by
  have := h (n - 1 - init) (by omega)
  have e : init + (n - 1 - init) = n - 1 := by omega
  rw [e, Nat.mod_eq_of_lt (by omega)] at this
  exact this

/-- the token is back at its initiator: it has collected every node, the highest one wins -/
theorem token_home {n d init t : Nat} {cands : List Nat} (hg : goodMsg n (.token d init cands t)) (he : init = d) :
    maxOf cands = n - 1 := by
  obtain ⟨hi, hc, k, h1, h2, hk, hall⟩ := hg
  have hkn : k = n := ring_back hi h1 h2 (by rw [← hk, he])
  subst hkn
  exact maxOf_eq (ring_has_top hi hall) (fun c hc' => by have := hc c hc'; omega)

/-- the token moves on: one more node collected -/
theorem token_forward {n d init t : Nat} {cands members : List Nat} (hg : goodMsg n (.token d init cands t))
    (hne : ¬ init = d) (hd : d < n) (hnd : members.Nodup) (hm : ∀ x, x ∈ members ↔ x < n) :
    goodMsg n (.token (ringNext members d) init (cands ++ [d]) t) := by
  obtain ⟨hi, hc, k, h1, h2, hk, hall⟩ := hg
  have hkn : k ≠ n := by
    intro e; subst e
    rw [Nat.add_mod_right, Nat.mod_eq_of_lt hi] at hk
    exact hne hk.symm
  refine ⟨hi, ?_, k + 1, by omega, by omega, ?_, ?_⟩
  · intro c hc'
    rcases List.mem_append.1 hc' with h | h
    · exact hc c h
    · simp only [List.mem_singleton] at h; omega
  · rw [ringNext_eq members n d hnd hm hd, hk, succ_mod_mod]; rfl
  · intro j hj
    by_cases hjk : j < k
    · exact List.mem_append.2 (Or.inl (hall j hjk))
    · have : j = k := by omega
      subst this
      exact List.mem_append.2 (Or.inr (by simp [hk]))

/-! ### every step keeps the invariant -/

theorem sysStep_inv (n : Nat) (y : Sys) (draw : Nat) (a : Act) (h : SInv n y) : SInv n (sysStep y draw a) := by
  unfold sysStep
  split
  · rename_i hc
    obtain ⟨hact, hen⟩ := hc
    rw [h.len] at hact
    cases a with
    | addMember p m => simp [enabled] at hen
    | timeout p expired =>
      simp only [actor] at hact
      simp only [step]
      split
      · rename_i hlead
        apply h.send
        intro m hm
        rcases List.mem_append.1 hm with hm | hm
        · simp only [List.mem_map] at hm
          obtain ⟨x, _, rfl⟩ := hm
          exact h.ldr p hact p hlead
        · simp only [List.mem_singleton] at hm; subst hm; trivial
      · split
        · obtain ⟨h1, h2, h3⟩ := startElection_ok n y.st.strat p (getNode y.st p) draw hact (h.mem p hact) (h.ldr p hact)
          apply h.update p _ _ h1 h2
          intro m hm
          rcases List.mem_append.1 hm with hm | hm
          · exact h3 m hm
          · simp only [List.mem_singleton] at hm; subst hm; trivial
        · apply h.send
          intro m hm
          simp only [List.mem_singleton] at hm; subst hm; trivial
    | challenge d c =>
      simp only [actor] at hact
      simp only [step]
      cases hs : y.st.strat with
      | bully =>
        simp only []
        split
        · obtain ⟨h1, h2, h3⟩ := finish_ok n .bully d (getNode y.st d) [Msg.suppress c d] none true false draw hact
            (h.mem d hact) (h.ldr d hact) (by intro m hm; simp only [List.mem_singleton] at hm; subst hm; trivial)
            (by intro l hl; cases hl)
          exact h.update d _ _ h1 h2 h3
        · exact h.send [] (by intro m hm; cases hm)
      | ring => exact h.send [] (by intro m hm; cases hm)
      | rand => exact h.send [] (by intro m hm; cases hm)
    | suppress d =>
      simp only [actor] at hact
      simp only [step]
      cases hs : y.st.strat with
      | bully =>
        simp only []
        exact h.update d _ [] rfl (h.ldr d hact) (by intro m hm; cases hm)
      | ring => exact h.send [] (by intro m hm; cases hm)
      | rand => exact h.send [] (by intro m hm; cases hm)
    | victory d leader =>
      simp only [actor] at hact
      have hl := victory_enabled h hen
      simp only [step]
      obtain ⟨h1, h2, h3⟩ := finish_ok n y.st.strat d (getNode y.st d) [] (some leader) false true draw hact
        (h.mem d hact) (h.ldr d hact) (by intro m hm; cases hm) (by intro l hl'; cases hl'; exact hl)
      exact h.update d _ _ h1 h2 h3
    | token d init term cands =>
      simp only [actor] at hact
      have hg := token_enabled h hen
      simp only [step]
      cases hs : y.st.strat with
      | ring =>
        simp only []
        split
        · rename_i he
          have hmax := token_home hg he
          obtain ⟨h1, h2, h3⟩ := finish_ok n .ring d (getNode y.st d)
            (((getNode y.st d).members.filter (· != d)).map fun m => Msg.victory m (maxOf cands) term)
            (some (maxOf cands)) false true draw hact (h.mem d hact) (h.ldr d hact)
            (by intro m hm; simp only [List.mem_map] at hm; obtain ⟨x, _, rfl⟩ := hm; exact hmax)
            (by intro l hl'; cases hl'; exact hmax)
          exact h.update d _ _ h1 h2 h3
        · rename_i hne
          have hfw := token_forward (members := (getNode y.st d).members) hg hne hact (h.mem d hact).1 (h.mem d hact).2
          obtain ⟨h1, h2, h3⟩ := finish_ok n .ring d (getNode y.st d)
            [Msg.token (ringNext (getNode y.st d).members d) init (cands ++ [d]) term] none false false draw hact
            (h.mem d hact) (h.ldr d hact)
            (by intro m hm; simp only [List.mem_singleton] at hm; subst hm; exact hfw)
            (by intro l hl'; cases hl')
          exact h.update d _ _ h1 h2 h3
      | bully => exact h.send [] (by intro m hm; cases hm)
      | rand => exact h.send [] (by intro m hm; cases hm)
    | ballot d frm term my =>
      simp only [actor] at hact
      simp only [step]
      cases hs : y.st.strat with
      | rand =>
        simp only []
        obtain ⟨h1, h2, h3⟩ := finish_ok n .rand d (getNode y.st d) [Msg.ballotResp frm d my term] none false false draw hact
          (h.mem d hact) (h.ldr d hact) (by intro m hm; simp only [List.mem_singleton] at hm; subst hm; trivial)
          (by intro l hl; cases hl)
        exact h.update d _ _ h1 h2 h3
      | bully => exact h.send [] (by intro m hm; cases hm)
      | ring => exact h.send [] (by intro m hm; cases hm)
    | ballotResp d =>
      simp only [step]
      exact h.send [] (by intro m hm; cases hm)
    | lhb d leader term =>
      simp only [actor] at hact
      have hl := lhb_enabled h hen
      simp only [step]
      split
      · exact h.update d _ [] rfl (by intro l hl'; cases hl'; exact hl) (by intro m hm; cases hm)
      · exact h.send [] (by intro m hm; cases hm)
  · exact h

theorem sysRun_inv (n : Nat) (y : Sys) (sched : List (Nat × Act)) (h : SInv n y) : SInv n (sysRun y sched) := by
  induction sched generalizing y with
  | nil => exact h
  | cons x xs ih => obtain ⟨draw, a⟩ := x; exact ih _ (sysStep_inv n y draw a h)

theorem sysInit_inv (n : Nat) (strat : Strat) (views : List (List Nat)) (hu : UniformViews n views) :
    SInv n (sysInit strat views) := by
  obtain ⟨hlen, hv⟩ := hu
  have hget : ∀ i, i < n → getNode (sysInit strat views).st i = { members := views.getD i [] } ∧ views.getD i [] ∈ views := by
    intro i hi
    have hi' : i < views.length := by omega
    constructor
    · simp [getNode, sysInit, List.getD_eq_getElem?_getD, List.getElem?_map, List.getElem?_eq_getElem hi']
    · simp [List.getD_eq_getElem?_getD, List.getElem?_eq_getElem hi']
  refine ⟨by simp [sysInit, hlen], ?_, ?_, by intro m hm; cases hm⟩
  · intro i hi
    obtain ⟨h1, h2⟩ := hget i hi
    unfold MOK; rw [h1]; exact hv _ h2
  · intro i hi l hl
    rw [(hget i hi).1] at hl; cases hl

/-- also for indices outside the cluster (`getNode` then returns an empty node) -/
theorem SInv.ldr_all {n : Nat} {y : Sys} (h : SInv n y) (i : Nat) : LOK n (getNode y.st i) := by
  by_cases hi : i < n
  · exact h.ldr i hi
  · intro l hl
    have : getNode y.st i = { members := [] } := by
      simp [getNode, List.getD_eq_getElem?_getD, List.getElem?_eq_none (show y.st.nodes.length ≤ i by rw [h.len]; omega)]
    rw [this] at hl; cases hl

theorem sysReports_leader (n : Nat) (y : Sys) (sched : List (Nat × Act)) (h : SInv n y) :
    ∀ r ∈ sysReports y sched, r.2.2 = n - 1 := by
  induction sched generalizing y with
  | nil => intro r hr; cases hr
  | cons x xs ih =>
    obtain ⟨draw, a⟩ := x
    have h' := sysStep_inv n y draw a h
    intro r hr
    simp only [sysReports] at hr
    rcases List.mem_append.1 hr with hr | hr
    · cases hrep : report (sysStep y draw a).st (actor a) with
      | none => rw [hrep] at hr; cases hr
      | some tl =>
        obtain ⟨t, l⟩ := tl
        rw [hrep] at hr
        simp only [List.mem_singleton] at hr
        subst hr
        simp only [report, Option.map_eq_some_iff] at hrep
        obtain ⟨l', hl', he⟩ := hrep
        have := h'.ldr_all (actor a) l' hl'
        cases he
        exact this
    · exact ih _ h' r hr

/-- IDENTICAL STATIC VIEWS, every strategy, every schedule of the message-passing system (any delays,
    reordering, duplication, loss, any timer verdicts, any random ballots): after any number of steps every
    node's `current_leader` is unset or the highest node. -/
theorem static_views_leader_is_highest (n : Nat) (strat : Strat) (views : List (List Nat))
    (hu : UniformViews n views) (sched : List (Nat × Act)) (i l : Nat)
    (h : (getNode (sysRun (sysInit strat views) sched).st i).leader = some l) : l = n - 1 :=
  (sysRun_inv n _ sched (sysInit_inv n strat views hu)).ldr_all i l h

/-- ONE LEADER PER TERM for identical static member views: the reports `(node, term, leader)` collected after
    every handler invocation never name two different leaders for one term — the Spec predicate the judge
    evaluates (signature `election/one-leader-per-term/two-leaders-with-identical-static-views`). -/
theorem election_one_leader_per_term_static (n : Nat) (strat : Strat) (views : List (List Nat))
    (hu : UniformViews n views) (sched : List (Nat × Act)) :
    Spec.oneLeaderPerTerm (sysReports (sysInit strat views) sched) = true ∧
    Spec.judgeElectionV true (sysReports (sysInit strat views) sched) = none := by
  have hl := sysReports_leader n _ sched (sysInit_inv n strat views hu)
  have h1 : Spec.oneLeaderPerTerm (sysReports (sysInit strat views) sched) = true := by
    simp only [Spec.oneLeaderPerTerm, List.all_eq_true, Bool.or_eq_true, bne_iff_ne, ne_eq, beq_iff_eq]
    intro a ha b hb
    right
    rw [hl a ha, hl b hb]
  exact ⟨h1, by simp [Spec.judgeElectionV, h1]⟩

/-! ### non-vacuity -/

example : UniformViews 3 [[0, 1, 2], [1, 0, 2], [2, 1, 0]] := by
  refine ⟨rfl, ?_⟩
  intro m hm
  simp only [List.mem_cons, List.not_mem_nil, or_false] at hm
  rcases hm with rfl | rfl | rfl <;> refine ⟨by decide, ?_⟩ <;> intro x <;> simp <;> omega

/-- Bully: node 2 times out, elects itself, its Victory reaches node 0 -/
example : sysReports (sysInit .bully [[0, 1, 2], [1, 0, 2], [2, 1, 0]])
    [(1, .timeout 2 true), (1, .victory 0 2), (1, .timeout 2 false), (1, .lhb 1 2 1)]
    = [(2, 1, 2), (0, 1, 2), (2, 1, 2), (1, 1, 2)] := by decide

/-- Ring: node 0's token travels 1, 2 and comes home with all three candidates; node 0 announces node 2 -/
example : sysReports (sysInit .ring [[0, 1, 2], [1, 0, 2], [2, 1, 0]])
    [(1, .timeout 0 true), (1, .token 1 0 1 [0]), (1, .token 2 0 1 [0, 1]), (1, .token 0 0 1 [0, 1, 2]), (1, .victory 1 2)]
    = [(0, 2, 2), (1, 1, 2)] := by decide

/-- a Victory nobody sent is not deliverable: the step is skipped -/
example : sysReports (sysInit .bully [[0, 1, 2], [1, 0, 2], [2, 1, 0]]) [(1, .victory 0 1)] = [] := by decide

end HappyModel.C12.El
