import HappyProofs.C12.PxStepB
namespace HappyModel.C12.Px

theorem leOpt_some {p : Option Nat} {b q : Nat} (h : leOpt p b) (hq : p = some q) : q ≤ b := by
  subst hq; simpa [leOpt] using h

theorem ltOpt_some {p : Option Nat} {b q : Nat} (h : ltOpt p b) (hq : p = some q) : q < b := by
  subst hq; simpa [ltOpt] using h

theorem recvAccept_inv (s : St) (b d : Nat) (inv : Inv s) : Inv (step s (.recvAccept b d)) := by
  unfold step
  simp only []
  split
  · rename_i v hslot
    split
    · rename_i hdn
      obtain ⟨hst, hnoad, hnack, hnovote⟩ := inv.n2.acpt b d v hslot
      split
      · rename_i hle
        -- accepted
        have hvsub : ∀ x, x ∈ s.votes → x ∈ (d, b, v) :: s.votes := fun x hx => List.mem_cons_of_mem _ hx
        refine ⟨inv.n1.frame rfl rfl rfl rfl rfl (fun _ h => h), ⟨?_, ?_, ?_, ?_, inv.n2.fresh⟩,
                ⟨?_, ?_, ?_, ?_, ?_, ?_⟩, inv.learn.frame rfl rfl rfl hvsub⟩
        · -- none_
          intro b' hb'
          obtain ⟨a1, a2⟩ := inv.n2.none_ b' hb'
          refine ⟨a1, fun d' => ⟨upd2_none_of (a2 d').1, ?_⟩⟩
          simp only [upd2_eq]; split
          · rename_i h; obtain ⟨rfl, rfl⟩ := h; simp only [] at hb'; rw [hst] at hb'; cases hb'
          · exact (a2 d').2
        · -- acpt
          intro b' d' v' hb'
          obtain ⟨hb1, hb2⟩ := upd2_none_some hb'
          obtain ⟨a1, a2, a3, a4⟩ := inv.n2.acpt b' d' v' hb1
          refine ⟨a1, ?_, a3, ?_⟩
          · simp only [upd2_eq]; split
            · rename_i h; exact absurd h hb2
            · exact a2
          · intro v'' hv''
            unfold Voted at hv''; simp only [List.mem_cons] at hv''
            rcases hv'' with h | h
            · simp at h; exact hb2 ⟨h.2.1, h.1⟩
            · exact a4 v'' h
        · -- acptd
          intro b' f' hb'
          simp only [upd2_eq] at hb'
          split at hb'
          · rename_i h; obtain ⟨rfl, rfl⟩ := h
            exact ⟨hdn, hnack, v, hst, List.mem_cons_self⟩
          · obtain ⟨a1, a2, v', a3, a4⟩ := inv.n2.acptd b' f' hb'
            exact ⟨a1, a2, v', a3, hvsub _ a4⟩
        · -- acks
          intro b'
          obtain ⟨a1, a2⟩ := inv.n2.acks b'
          refine ⟨a1, fun f hf => ?_⟩
          obtain ⟨c1, v', c2, c3⟩ := a2 f hf
          exact ⟨c1, v', c2, hvsub _ c3⟩
        · -- one
          intro a b' v' hv'
          unfold Voted at hv'; simp only [List.mem_cons] at hv'
          rcases hv' with h | h
          · simp at h; obtain ⟨rfl, rfl, rfl⟩ := h; exact hst
          · exact inv.sem.one a b' v' h
        · -- vprom
          intro a b' v' hv'
          unfold Voted at hv'; simp only [List.mem_cons] at hv'
          by_cases had : a = d
          · subst had
            refine ⟨hdn, b, by simp, ?_⟩
            rcases hv' with h | h
            · simp at h; omega
            · obtain ⟨_, q, hq, hqb⟩ := inv.sem.vprom a b' v' h
              have := leOpt_some hle hq; omega
          · rcases hv' with h | h
            · simp at h; exact absurd h.1 had
            · obtain ⟨c1, q, hq, hqb⟩ := inv.sem.vprom a b' v' h
              exact ⟨c1, q, by simp [upd_other _ _ _ _ had]; exact hq, hqb⟩
        · -- vacc
          intro a b' v' hacc
          by_cases had : a = d
          · subst had; simp at hacc; obtain ⟨rfl, rfl⟩ := hacc; exact List.mem_cons_self
          · simp [upd_other _ _ _ _ had] at hacc; exact hvsub _ (inv.sem.vacc a b' v' hacc)
        · -- vmax
          intro a b' v' hv'
          unfold Voted at hv'; simp only [List.mem_cons] at hv'
          by_cases had : a = d
          · subst had
            refine ⟨b, v, by simp, ?_⟩
            rcases hv' with h | h
            · simp at h; omega
            · obtain ⟨_, q, hq, hqb⟩ := inv.sem.vprom a b' v' h
              have := leOpt_some hle hq; omega
          · rcases hv' with h | h
            · simp at h; exact absurd h.1 had
            · obtain ⟨b2, v2, c1, c2⟩ := inv.sem.vmax a b' v' h
              exact ⟨b2, v2, by simp [upd_other _ _ _ _ had]; exact c1, c2⟩
        · -- pr
          intro f b0 r hpr
          obtain ⟨a1, ⟨q, hq, hqb⟩, a3, a4⟩ := inv.sem.pr f b0 r hpr
          refine ⟨a1, ?_, ?_, ?_⟩
          · by_cases hfd : f = d
            · subst hfd; exact ⟨b, by simp, by have := leOpt_some hle hq; omega⟩
            · exact ⟨q, by simp [upd_other _ _ _ _ hfd]; exact hq, hqb⟩
          · intro b' v' hv' hlt
            unfold Voted at hv'; simp only [List.mem_cons] at hv'
            rcases hv' with h | h
            · simp at h; obtain ⟨rfl, rfl, rfl⟩ := h
              have := leOpt_some hle hq; omega
            · exact a3 b' v' h hlt
          · intro bm vm hr
            obtain ⟨c1, c2⟩ := a4 bm vm hr
            exact ⟨hvsub _ c1, c2⟩
        · -- safe
          intro b' v' hs'
          refine safeAt_mono (s := s) ?_ ?_ ?_ ?_ (inv.sem.safe b' v' hs')
          · rfl
          · exact hvsub
          · intro a q hq
            by_cases had : a = d
            · subst had; exact ⟨b, by simp, leOpt_some hle hq⟩
            · exact ⟨q, by simp [upd_other _ _ _ _ had]; exact hq, Nat.le_refl _⟩
          · intro a c v'' hx
            simp only [List.mem_cons] at hx
            rcases hx with h | h
            · simp at h; obtain ⟨rfl, rfl, rfl⟩ := h
              right; intro ⟨q, hq, hlt⟩
              have := leOpt_some hle hq; omega
            · exact Or.inl h
      · -- rejected: only the slot is emptied
        exact ⟨inv.n1.frame rfl rfl rfl rfl rfl (fun _ h => h), clearAcpt_net2 inv.n2 b d,
               inv.sem.frame rfl rfl rfl rfl rfl, inv.learn.frame rfl rfl rfl (fun _ h => h)⟩
    · exact inv
  · exact inv

end HappyModel.C12.Px
