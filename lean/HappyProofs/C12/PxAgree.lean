import HappyProofs.C12.PxInv
namespace HappyModel.C12.Px

/-- pigeonhole: a duplicate-free list of naturals below n has at most n elements -/
theorem nodup_bounded_length : ∀ (n : Nat) (l : List Nat), l.Nodup → (∀ x ∈ l, x < n) → l.length ≤ n := by
  intro n
  induction n with
  | zero =>
    intro l _ hb
    cases l with
    | nil => simp
    | cons a _ => exact absurd (hb a List.mem_cons_self) (Nat.not_lt_zero _)
  | succ n ih =>
    intro l hnd hb
    have h1 : (l.erase n).Nodup := hnd.erase n
    have h2 : ∀ x ∈ l.erase n, x < n := by
      intro x hx
      have hm := (List.Nodup.mem_erase_iff hnd).mp hx
      have := hb x hm.2
      have hne := hm.1
      omega
    have h3 := ih (l.erase n) h1 h2
    have h4 : l.length ≤ (l.erase n).length + 1 := by
      rw [List.length_erase]; split <;> omega
    omega

/-- quorum intersection (Flexible Paxos): a phase-1 quorum and a phase-2 quorum of sizes with
    q1 + q2 > n share a member -/
theorem quorum_lists_meet (n k1 k2 : Nat) (S1 S2 : List Nat) (h1 : S1.Nodup) (h2 : S2.Nodup)
    (b1 : ∀ f ∈ S1, f < n) (b2 : ∀ f ∈ S2, f < n)
    (q1 : k1 ≤ S1.length) (q2 : k2 ≤ S2.length) (hk : n < k1 + k2) : ∃ f, f ∈ S1 ∧ f ∈ S2 := by
  apply Classical.byContradiction
  intro hne
  have hnd : (S1 ++ S2).Nodup := by
    rw [List.nodup_append]
    refine ⟨h1, h2, ?_⟩
    intro a ha b hb hab
    subst hab
    exact hne ⟨a, ha, hb⟩
  have hb : ∀ x ∈ S1 ++ S2, x < n := by
    intro x hx
    rcases List.mem_append.mp hx with h | h
    · exact b1 x h
    · exact b2 x h
  have := nodup_bounded_length n (S1 ++ S2) hnd hb
  rw [List.length_append] at this
  omega

theorem quorum_nonempty {k : Nat} {Q : List Nat} (hk : 0 < k) (h : k ≤ Q.length) : ∃ a, a ∈ Q := by
  cases Q with
  | nil => simp at h; omega
  | cons a _ => exact ⟨a, by simp⟩

theorem chosen_le {s : St} (inv : Inv s) (hqq : s.cfg.n < s.cfg.q1 + s.cfg.q2) (hq2 : 0 < s.cfg.q2)
    {b1 b2 : Nat} {v1 v2 : Val} (hle : b1 ≤ b2)
    (h1 : Chosen s b1 v1) (h2 : Chosen s b2 v2) : v1 = v2 := by
  obtain ⟨Q1, n1, m1, q1⟩ := h1
  obtain ⟨Q2, n2, m2, q2⟩ := h2
  obtain ⟨a2, ha2⟩ := quorum_nonempty hq2 q2
  have hs2 := inv.sem.one a2 b2 v2 (m2 a2 ha2).2
  rcases Nat.lt_or_ge b1 b2 with hlt | hge
  · obtain ⟨Q, nq, mq, qq⟩ := inv.sem.safe b2 v2 hs2 b1 hlt
    obtain ⟨a, haQ, haQ1⟩ := quorum_lists_meet s.cfg.n s.cfg.q1 s.cfg.q2 Q Q1 nq n1 (fun f hf => (mq f hf).1) (fun f hf => (m1 f hf).1) qq q1 hqq
    have hv1 : Voted s a b1 v1 := (m1 a haQ1).2
    rcases (mq a haQ).2 with hd | ⟨hn, _⟩
    · have e1 := inv.sem.one a b1 v1 hv1
      have e2 := inv.sem.one a b1 v2 hd
      rw [e1] at e2; exact Option.some.inj e2
    · exact absurd hv1 (hn v1)
  · have : b1 = b2 := by omega
    subst this
    obtain ⟨a1, ha1⟩ := quorum_nonempty hq2 q1
    have e1 := inv.sem.one a1 b1 v1 (m1 a1 ha1).2
    rw [e1] at hs2; exact Option.some.inj hs2

theorem chosen_unique {s : St} (inv : Inv s) (hqq : s.cfg.n < s.cfg.q1 + s.cfg.q2) (hq2 : 0 < s.cfg.q2)
    {b1 b2 : Nat} {v1 v2 : Val}
    (h1 : Chosen s b1 v1) (h2 : Chosen s b2 v2) : v1 = v2 := by
  rcases Nat.le_total b1 b2 with h | h
  · exact chosen_le inv hqq hq2 h h1 h2
  · exact (chosen_le inv hqq hq2 h h2 h1).symm

/-- agreement follows from the invariant: any two learned values coincide -/
theorem agreement_of_inv {s : St} (inv : Inv s) (hqq : s.cfg.n < s.cfg.q1 + s.cfg.q2) (hq2 : 0 < s.cfg.q2)
    {d1 d2 : Nat} {v1 v2 : Val}
    (h1 : s.decided d1 = some v1) (h2 : s.decided d2 = some v2) : v1 = v2 := by
  obtain ⟨b1, c1⟩ := inv.learn.node d1 v1 h1
  obtain ⟨b2, c2⟩ := inv.learn.node d2 v2 h2
  exact chosen_unique inv hqq hq2 c1 c2

end HappyModel.C12.Px
