import HappyProofs.C12.PxStepE
import HappyProofs.C12.PxAgree
/-! Configuration is constant, decisions are write-once, validity and future invariants. -/
namespace HappyModel.C12.Px

theorem startPhase2_cfg (s : St) (b : Nat) : (startPhase2 s b).cfg = s.cfg := by
  unfold startPhase2; simp only []
  repeat' split
  all_goals first | rfl | rw [decide_cfg]

theorem step_cfg (s : St) (a : Act) : (step s a).cfg = s.cfg := by
  cases a <;> unfold step <;> simp only [] <;> repeat' split
  all_goals first | rfl | (rw [startPhase2_cfg]) | (rw [decide_cfg]) | (unfold beginBallot; rfl)

theorem run_cfg (s : St) (as : List Act) : (runActs s as).cfg = s.cfg := by
  induction as generalizing s with
  | nil => rfl
  | cons a as ih => simp only [runActs]; rw [ih, step_cfg]

/-! ### a learned value never changes -/

theorem decide_stable (t : St) (b : Nat) (w : Val) (d : Nat) (v : Val) (ht : t.decided d = some v) :
    (decide_ t b w).decided d = some v := by
  unfold decide_; split
  · exact ht
  · rename_i hn
    by_cases hdp : d = b % t.cfg.n
    · subst hdp; rw [ht] at hn; simp at hn
    · simp [upd_other _ _ _ _ hdp]; exact ht

theorem startPhase2_stable (t : St) (b d : Nat) (v : Val) (ht : t.decided d = some v) :
    (startPhase2 t b).decided d = some v := by
  unfold startPhase2; simp only []
  repeat' split
  all_goals first | exact ht | exact decide_stable _ _ _ _ _ ht

theorem decided_stable_step (s : St) (a : Act) (d : Nat) (v : Val) (h : s.decided d = some v) :
    (step s a).decided d = some v := by
  cases a with
  | recvDecided f d' =>
    unfold step; simp only []; split
    · split
      · exact h
      · rename_i hn
        by_cases hdd : d = d'
        · subst hdd; rw [h] at hn; simp at hn
        · simp [upd_other _ _ _ _ hdd]; exact h
    · exact h
  | _ =>
    unfold step; simp only []
    repeat' split
    all_goals first | exact h | exact startPhase2_stable _ _ _ _ h | exact decide_stable _ _ _ _ _ h
                    | (unfold beginBallot; exact h)

theorem decided_stable_run (s : St) (as : List Act) (d : Nat) (v : Val) (h : s.decided d = some v) :
    (runActs s as).decided d = some v := by
  induction as generalizing s with
  | nil => exact h
  | cons a as ih => exact ih _ (decided_stable_step s a d v h)

/-! ### validity: every phase-2 value, hence every decision, was handed to propose() -/

structure Valid (s : St) : Prop where
  own : ∀ b v, s.ownVal b = some v → v ∈ s.proposedVals
  st : ∀ b v, s.started2 b = some v → v ∈ s.proposedVals

theorem Valid.frame {s s' : St} (h : Valid s) (e1 : s'.ownVal = s.ownVal) (e2 : s'.started2 = s.started2)
    (e3 : ∀ x, x ∈ s.proposedVals → x ∈ s'.proposedVals) : Valid s' :=
  ⟨fun b v hb => e3 _ (h.own b v (by rw [e1] at hb; exact hb)),
   fun b v hb => e3 _ (h.st b v (by rw [e2] at hb; exact hb))⟩

theorem decide_valid {s : St} (h : Valid s) (b : Nat) (v : Val) : Valid (decide_ s b v) := by
  unfold decide_; split
  · exact h
  · exact h.frame rfl rfl (fun _ hx => hx)

theorem phase2Val_proposed {s : St} (inv : Inv s) (val : Valid s) (b : Nat) (hown : s.ownVal b ≠ none) :
    phase2Val s b ∈ s.proposedVals := by
  unfold phase2Val
  cases hpick : pickVal (s.p1 b) none with
  | none =>
    simp only []
    cases ho : s.ownVal b with
    | none => exact absurd ho hown
    | some w => simpa using val.own b w ho
  | some bv =>
    obtain ⟨bm, vm⟩ := bv
    simp only []
    obtain ⟨hwit, _, _⟩ := pickVal_some hpick
    rcases hwit with ⟨f0, hf0⟩ | h
    · obtain ⟨_, hpr0⟩ := (inv.n1.p1 b).2 f0 _ hf0
      obtain ⟨_, _, _, c4⟩ := inv.sem.pr f0 b _ hpr0
      obtain ⟨hv0, _⟩ := c4 bm vm rfl
      exact val.st bm vm (inv.sem.one f0 bm vm hv0)
    · cases h

theorem decide_fields (s : St) (b : Nat) (v : Val) :
    (decide_ s b v).ownVal = s.ownVal ∧ (decide_ s b v).started2 = s.started2 ∧
    (decide_ s b v).proposedVals = s.proposedVals := by
  unfold decide_; split <;> exact ⟨rfl, rfl, rfl⟩

theorem startPhase2_fields (s : St) (b : Nat) :
    (startPhase2 s b).ownVal = s.ownVal ∧
    (startPhase2 s b).started2 = upd s.started2 b (some (phase2Val s b)) ∧
    (startPhase2 s b).proposedVals = s.proposedVals := by
  unfold startPhase2; simp only []
  repeat' split
  all_goals first | exact ⟨rfl, rfl, rfl⟩ | exact decide_fields _ b (phase2Val s b)

theorem startPhase2_valid {s : St} (inv : Inv s) (val : Valid s) (b : Nat) (hown : s.ownVal b ≠ none) :
    Valid (startPhase2 s b) := by
  have hv := phase2Val_proposed inv val b hown
  obtain ⟨e1, e2, e3⟩ := startPhase2_fields s b
  refine ⟨?_, ?_⟩
  · intro b' v' hb'; rw [e1] at hb'; rw [e3]; exact val.own b' v' hb'
  · intro b' v' hb'; rw [e2] at hb'; rw [e3]
    by_cases hbb : b' = b
    · subst hbb; simp at hb'; subst hb'; exact hv
    · simp [upd_other _ _ _ _ hbb] at hb'; exact val.st b' v' hb'

theorem beginBallot_valid {s : St} (val : Valid s) (p b : Nat) (v : Val) (hv : v ∈ s.proposedVals) :
    Valid (beginBallot s p b v) := by
  unfold beginBallot; simp only []
  refine ⟨?_, val.st⟩
  intro b' v' hb'
  by_cases hbb : b' = b
  · subst hbb; simp at hb'; subst hb'; exact hv
  · simp [upd_other _ _ _ _ hbb] at hb'; exact val.own b' v' hb'

theorem step_valid (s : St) (a : Act) (inv : Inv s) (val : Valid s) : Valid (step s a) := by
  cases a with
  | propose p b v =>
    unfold step; simp only []
    split
    · split
      · exact val.frame rfl rfl (fun x hx => List.mem_cons_of_mem _ hx)
      · split
        · refine beginBallot_valid ?_ p b v List.mem_cons_self
          exact val.frame rfl rfl (fun x hx => List.mem_cons_of_mem _ hx)
        · exact val.frame rfl rfl (fun x hx => List.mem_cons_of_mem _ hx)
    · exact val
  | retry p bo bn =>
    unfold step; simp only []
    split
    · split
      · rename_i w hw
        refine beginBallot_valid ?_ p bn w ?_
        · exact val.frame rfl rfl (fun _ hx => hx)
        unfold ballotVal at hw
        split at hw
        · rename_i w' hs; cases hw; exact val.st bo _ hs
        · exact val.own bo w hw
      · exact val
    · exact val
  | recvPromise b f =>
    unfold step; simp only []
    split
    · split
      · rename_i hown
        split
        · refine startPhase2_valid ?_ ?_ b ?_
          · rename_i r hslot hc
            exact recvPromise_mid_inv s b f r inv hslot hown.1
          · exact val.frame rfl rfl (fun _ hx => hx)
          · intro h; rw [h] at hown; simp at hown
        · exact val.frame rfl rfl (fun _ hx => hx)
      · exact val.frame rfl rfl (fun _ hx => hx)
    · exact val
  | recvAccepted b f =>
    unfold step; simp only []
    repeat' split
    all_goals first | exact val | exact val.frame rfl rfl (fun _ hx => hx)
                    | (refine decide_valid ?_ _ _; exact val.frame rfl rfl (fun _ hx => hx))
  | _ =>
    unfold step; simp only []
    repeat' split
    all_goals first | exact val | exact val.frame rfl rfl (fun _ hx => hx)

end HappyModel.C12.Px
