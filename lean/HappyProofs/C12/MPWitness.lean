import HappyModel.C12.MultiPaxos
import HappyModel.C12.Spec
/-! Multi-Paxos / Flexible Paxos on the pinned tree: slot agreement is false (leader change
    overwrites a decided slot).  The schedule is the one the real engine produced for
    `corpus/C12/mpaxos-leader-change-overwrites-decided-slot.json` (ballots (1,0) = 3, (2,2) = 8). -/
namespace HappyModel.C12.MP

/-- SLOT AGREEMENT (the property's clause for Multi-Paxos), as a statement about a step function:
    along every action list, two nodes that report a decided command for one slot report the same
    command.  It is *false* for `step` (the pinned tree, theorem below).  Not proved for any repaired
    variant: the repair (adopt, per slot, the highest-ballot entry reported in the promises before
    proposing; key acks by ballot) is a redesign of `_become_leader` / `_handle_accepted` — known
    finding, see fixes/C12-multipaxos-leader-change.known.md. -/
def slot_agreement_full (stp : St → Act → St × List Msg) (s0 : St) : Prop :=
  ∀ (as : List Act) (i j k : Nat) (c d : Nat),
    let s := as.foldl (fun s a => (stp s a).1) s0
    decidedAt s i k = some c → decidedAt s j k = some d → c = d

def witness : List Act :=
  [ .submit 0 1, .start 0, .prepare 1 3, .prepare 2 3, .promise 0 1,   -- node 0 leads with ballot (1,0)
    .hb 1 3 0, .hb 2 3 0,
    .accept 1 0 3 1 1 0, .accepted 0 1,                               -- slot 1 = command 1 at {0,1}: committed at 0
    .submit 2 2, .start 2, .prepare 1 8, .promise 2 2,                -- node 2 leads with (2,2); node 1's log is ignored
    .hb 1 8 0,
    .accept 1 2 8 1 2 0, .accepted 2 1 ]                              -- node 1 truncates; slot 1 = command 2 committed at 2

/-- node 0 reports command 1 for slot 1, node 2 reports command 2 (MultiPaxosNode, 3 nodes) -/
theorem slot_agreement_current_false :
    decidedAt (run (init 3 2 2 false) witness) 0 1 = some 1 ∧
    decidedAt (run (init 3 2 2 false) witness) 2 1 = some 2 := by decide

/-- the same schedule with FlexiblePaxosNode, q1 = q2 = 2 (so `q1 + q2 > n` holds) -/
theorem flexible_slot_agreement_current_false :
    (3 < 2 + 2) ∧
    decidedAt (run (init 3 2 2 true) witness) 0 1 = some 1 ∧
    decidedAt (run (init 3 2 2 true) witness) 2 1 = some 2 := by decide

/-- hence the full statement fails for the pinned step function -/
theorem slot_agreement_full_current_false : ¬ slot_agreement_full step (init 3 2 2 false) := by
  intro h
  have := h witness 0 2 1 1 2
  have e : ∀ (as : List Act) (s : St), List.foldl (fun s a => (step s a).1) s as = run s as := by
    intro as
    induction as with
    | nil => intro s; rfl
    | cons a as ih => intro s; simp only [List.foldl, run]; exact ih _
  simp only [] at this
  rw [e] at this
  have h2 := this slot_agreement_current_false.1 slot_agreement_current_false.2
  exact absurd h2 (by decide)

end HappyModel.C12.MP
