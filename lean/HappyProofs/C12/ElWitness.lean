import HappyModel.C12.Election
import HappyModel.C12.Spec
/-! `LeaderElection`: "never two different leaders for the same term" is false of the pinned tree
    once member views differ (a node that joins counts its own terms from 0).  Schedule of
    `corpus/C12/election-joiner-reuses-term.json`. -/
namespace HappyModel.C12.El

/-- the clause, for the reports of all nodes of a state -/
def one_leader_per_term (s : St) : Prop :=
  ∀ i j t l m, report s i = some (t, l) → report s j = some (t, m) → l = m

def witnessInit : St := { strat := .bully, nodes := [{ members := [0, 1] }, { members := [0, 1] }, { members := [2] }] }

def witness : List Act :=
  [ .timeout 1 false, .timeout 1 true,     -- n1 (highest id it knows) wins its term 1
    .victory 0 1,
    .addMember 2 0, .addMember 2 1,        -- n2 joins and learns the others; they have not added n2 yet
    .timeout 2 true ]                      -- n2 starts its own term 1, sees no higher id, declares victory

/-- n1 reports (term 1, leader n1) while n2 reports (term 1, leader n2) -/
theorem election_two_leaders_one_term :
    report (run witnessInit witness) 1 = some (1, 1) ∧ report (run witnessInit witness) 2 = some (1, 2) := by
  decide

theorem election_one_leader_per_term_current_false : ¬ one_leader_per_term (run witnessInit witness) := by
  intro h
  have := h 1 2 1 1 2 election_two_leaders_one_term.1 election_two_leaders_one_term.2
  exact absurd this (by decide)

/-- the Spec predicate the judge uses rejects exactly this pair of reports -/
example : Spec.oneLeaderPerTerm [(1, 1, 1), (2, 1, 2)] = false ∧ Spec.oneLeaderPerTerm [(1, 1, 1), (0, 1, 1), (2, 2, 2)] = true := by
  decide

end HappyModel.C12.El
