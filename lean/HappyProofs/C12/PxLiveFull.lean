import HappyProofs.C12.PxLive
/-!
# C12 — single proposer decides: assembly of the per-delivery steps along the schedule
-/
namespace HappyModel.C12.Px

theorem runActs_append (s : St) (l1 l2 : List Act) : runActs s (l1 ++ l2) = runActs (runActs s l1) l2 := by
  induction l1 generalizing s with
  | nil => rfl
  | cons a as ih => exact ih (step s a)

section
variable (n q1 q2 p b : Nat) (v : Val)

theorem step_all (s : St) (a : Act) (hb : b % n = p) (g : G n q1 q2 p b v s) (hd : DelivB b a) (hn : NotTo p a) :
    G n q1 q2 p b v (step s a) ∧ Mono b s (step s a) := by
  cases a with
  | recvPrepare b' d => cases hd; exact ⟨(prepare_step n q1 q2 p b v s d g).1, (prepare_step n q1 q2 p b v s d g).2.1⟩
  | recvPromise b' f => cases hd; exact ⟨(promise_step n q1 q2 p b v s f hb g).1, (promise_step n q1 q2 p b v s f hb g).2.1⟩
  | recvAccept b' d => cases hd; exact ⟨(accept_step n q1 q2 p b v s d g).1, (accept_step n q1 q2 p b v s d g).2.1⟩
  | recvAccepted b' f => cases hd; exact ⟨(accepted_step n q1 q2 p b v s f hb g).1, (accepted_step n q1 q2 p b v s f hb g).2.1⟩
  | recvDecided f d => exact decided_step n q1 q2 p b v s f d hn g
  | propose _ _ _ => exact absurd hd (by simp [DelivB])
  | retry _ _ _ => exact absurd hd (by simp [DelivB])
  | nack _ _ => exact absurd hd (by simp [DelivB])
  | dropPrep _ _ => exact absurd hd (by simp [DelivB])
  | dropProm _ _ => exact absurd hd (by simp [DelivB])
  | dropAcpt _ _ => exact absurd hd (by simp [DelivB])
  | dropAcptd _ _ => exact absurd hd (by simp [DelivB])
  | dropDec _ _ => exact absurd hd (by simp [DelivB])

theorem run_all (hb : b % n = p) : ∀ (as : List Act) (s : St), G n q1 q2 p b v s →
    (∀ a ∈ as, DelivB b a ∧ NotTo p a) → G n q1 q2 p b v (runActs s as) ∧ Mono b s (runActs s as) := by
  intro as
  induction as with
  | nil => intro s g _; exact ⟨g, Mono.refl b s⟩
  | cons a rest ih =>
    intro s g hall
    obtain ⟨g1, m1⟩ := step_all n q1 q2 p b v s a hb g (hall a List.mem_cons_self).1 (hall a List.mem_cons_self).2
    obtain ⟨g2, m2⟩ := ih (step s a) g1 (fun a' ha' => hall a' (List.mem_cons_of_mem _ ha'))
    exact ⟨g2, Mono.trans b m1 m2⟩

/-- if `x` occurs in the schedule and delivering `x` turns `P` into `Q` (both never lost), `Q` holds at the end -/
theorem reach (hb : b % n = p) (x : Act) (P Q : St → Prop)
    (hP : ∀ s s', Mono b s s' → P s → P s') (hQ : ∀ s s', Mono b s s' → Q s → Q s')
    (hx : ∀ s, G n q1 q2 p b v s → P s → Q (step s x)) :
    ∀ (as : List Act) (s : St), G n q1 q2 p b v s → (∀ a ∈ as, DelivB b a ∧ NotTo p a) → x ∈ as → P s →
      Q (runActs s as) := by
  intro as
  induction as with
  | nil => intro s _ _ h; cases h
  | cons a rest ih =>
    intro s g hall hmem hp
    have hall' : ∀ a' ∈ rest, DelivB b a' ∧ NotTo p a' := fun a' ha' => hall a' (List.mem_cons_of_mem _ ha')
    obtain ⟨g1, m1⟩ := step_all n q1 q2 p b v s a hb g (hall a List.mem_cons_self).1 (hall a List.mem_cons_self).2
    rcases List.mem_cons.1 hmem with h | h
    · subst h
      exact hQ _ _ (run_all n q1 q2 p b v hb rest _ g1 hall').2 (hx s g hp)
    · exact ih (step s a) g1 hall' h (hP _ _ m1 hp)

/-- two stages: `x` before `y` -/
theorem reach2 (hb : b % n = p) (x y : Act) (P Q R : St → Prop)
    (hP : ∀ s s', Mono b s s' → P s → P s') (hQ : ∀ s s', Mono b s s' → Q s → Q s')
    (hR : ∀ s s', Mono b s s' → R s → R s')
    (hx : ∀ s, G n q1 q2 p b v s → P s → Q (step s x)) (hy : ∀ s, G n q1 q2 p b v s → Q s → R (step s y))
    (as : List Act) (s : St) (g : G n q1 q2 p b v s) (hall : ∀ a ∈ as, DelivB b a ∧ NotTo p a)
    (hbf : Before x y as) (hp : P s) : R (runActs s as) := by
  obtain ⟨l1, l2, rfl, h1, h2⟩ := hbf
  rw [runActs_append]
  have hall1 : ∀ a ∈ l1, DelivB b a ∧ NotTo p a := fun a ha => hall a (List.mem_append_left _ ha)
  have hall2 : ∀ a ∈ l2, DelivB b a ∧ NotTo p a := fun a ha => hall a (List.mem_append_right _ ha)
  have hq := reach n q1 q2 p b v hb x P Q hP hQ hx l1 s g hall1 h1 hp
  exact reach n q1 q2 p b v hb y Q R hQ hR hy l2 _ (run_all n q1 q2 p b v hb l1 s g hall1).1 hall2 h2 hq

theorem beginBallot_fresh (t : St) (p b : Nat) (v : Val) (h : (t.acc p).promised = none) :
    beginBallot t p b v = { t with ownVal := upd t.ownVal b (some v), live := upd t.live b true, cur := upd t.cur p (b / t.cfg.n), acc := upd t.acc p { (t.acc p) with promised := some b }, p1 := upd t.p1 b [(p, (t.acc p).accepted)], proms := (p, b, (t.acc p).accepted) :: t.proms, mPrep := (fun b' d => if b' = b ∧ d ≠ p ∧ d < t.cfg.n then true else t.mPrep b' d) } := by
  have hd : decide (leOpt (t.acc p).promised b) = true := by rw [h]; rfl
  simp only [beginBallot, hd, if_true]

/-- the state right after `propose(v)` + `start_phase1()` on a fresh cluster -/
theorem init_G (hp : p < n) (hb : b % n = p) (hq1 : 2 ≤ q1) :
    G n q1 q2 p b v (step (init n q1 q2) (.propose p b v)) ∧
    (∀ d, d ≠ p → d < n → S0 b (step (init n q1 q2) (.propose p b v)) d) ∧
    S2 b (step (init n q1 q2) (.propose p b v)) p := by
  have e : step (init n q1 q2) (.propose p b v) =
      beginBallot { (init n q1 q2) with nfut := 1, futOwner := upd (init n q1 q2).futOwner 0 p, proposedVals := [v], futOf := upd (init n q1 q2).futOf b (some 0) } p b v := by
    simp [step, init, hp, hb]
  rw [e, beginBallot_fresh _ p b v rfl]
  refine ⟨⟨rfl, by simp, by simp, by simp [init], ?_, by simp, ?_, ?_, ?_, ?_, ?_, rfl⟩, ?_, ?_⟩
  · intro d
    by_cases hd : d = p
    · subst hd; simp [upd, leOpt]
    · simp [upd, hd, leOpt, init]
  · intro h; simp [init] at h
  · intro h; simp at h; omega
  · intro h; simp [init] at h
  · intro _; simp [init]
  · intro h; simp [init] at h
  · intro d h1 h2; left; simp [init, h1, h2]
  · simp [S2, init]

/-- SINGLE PROPOSER DECIDES (bounded progress; the statement `single_proposer_decides_full` of `PxLive.lean`) -/
theorem single_proposer_decides : single_proposer_decides_full := by
  intro n q1 q2 p b v as1 as2 Q1 Q2 hp hb hqq hq1 hq2 hnd1 hp1 hlt1 hc1 hnd2 hp2 hlt2 hc2 hall hbf1 hbf2
  obtain ⟨g0, hS0, hS2p⟩ := init_G n q1 q2 p b v hp hb hq1
  have hall1 : ∀ a ∈ as1, DelivB b a ∧ NotTo p a := fun a ha => hall a (List.mem_append_left _ ha)
  have hall2 : ∀ a ∈ as2, DelivB b a ∧ NotTo p a := fun a ha => hall a (List.mem_append_right _ ha)
  have hrun : runActs (init n q1 q2) (.propose p b v :: (as1 ++ as2)) =
      runActs (runActs (step (init n q1 q2) (.propose p b v)) as1) as2 := by
    show runActs (step (init n q1 q2) (.propose p b v)) (as1 ++ as2) = _
    rw [runActs_append]
  obtain ⟨gM, mM⟩ := run_all n q1 q2 p b v hb as1 _ g0 hall1
  -- phase 1: every acceptor of Q1, and the proposer itself, is counted
  have hQ1 : ∀ d ∈ Q1, S2 b (runActs (step (init n q1 q2) (.propose p b v)) as1) d := by
    intro d hd
    have hdp : d ≠ p := fun e => hp1 (e ▸ hd)
    exact reach2 n q1 q2 p b v hb (.recvPrepare b d) (.recvPromise b d) (fun s => S0 b s d) (fun s => S1 b s d) (fun s => S2 b s d)
      (fun _ _ m h => m.s0 d h) (fun _ _ m h => m.s1 d h) (fun _ _ m h => m.s2 d h)
      (fun s g h => (prepare_step n q1 q2 p b v s d g).2.2 (hlt1 d hd) h)
      (fun s g h => (promise_step n q1 q2 p b v s d hb g).2.2 h)
      as1 _ g0 hall1 (hbf1 d hd) (hS0 d hdp (hlt1 d hd))
  have hcount1 : q1 ≤ ((runActs (step (init n q1 q2) (.propose p b v)) as1).p1 b).length := by
    have := nodup_subset_length (p :: Q1) (((runActs (step (init n q1 q2) (.propose p b v)) as1).p1 b).map (·.1))
      (List.nodup_cons.2 ⟨hp1, hnd1⟩) (by
        intro x hx
        rcases List.mem_cons.1 hx with rfl | hx
        · exact mM.s2 _ hS2p
        · exact hQ1 x hx)
    simp only [List.length_cons, List.length_map] at this
    omega
  have hstM := gM.i1 hcount1
  obtain ⟨hT2p, hT0, _⟩ := gM.i2 hstM
  obtain ⟨gE, mE⟩ := run_all n q1 q2 p b v hb as2 _ gM hall2
  have hQ2 : ∀ d ∈ Q2, T2 b (runActs (runActs (step (init n q1 q2) (.propose p b v)) as1) as2) d := by
    intro d hd
    have hdp : d ≠ p := fun e => hp2 (e ▸ hd)
    exact reach2 n q1 q2 p b v hb (.recvAccept b d) (.recvAccepted b d) (fun s => T0 b s d) (fun s => T1 b s d) (fun s => T2 b s d)
      (fun _ _ m h => m.t0 d h) (fun _ _ m h => m.t1 d h) (fun _ _ m h => m.t2 d h)
      (fun s g h => (accept_step n q1 q2 p b v s d g).2.2 (hlt2 d hd) h)
      (fun s g h => (accepted_step n q1 q2 p b v s d hb g).2.2 h)
      as2 _ gM hall2 (hbf2 d hd) (hT0 d hdp (hlt2 d hd))
  have hcount2 : q2 ≤ ((runActs (runActs (step (init n q1 q2) (.propose p b v)) as1) as2).acks b).length := by
    have := nodup_subset_length (p :: Q2) ((runActs (runActs (step (init n q1 q2) (.propose p b v)) as1) as2).acks b)
      (List.nodup_cons.2 ⟨hp2, hnd2⟩) (by
        intro x hx
        rcases List.mem_cons.1 hx with rfl | hx
        · exact mE.t2 _ hT2p
        · exact hQ2 x hx)
    simp only [List.length_cons] at this
    omega
  have hdecp := (gE.i2 (mE.st hstM)).2.2 hcount2
  rw [hrun]
  -- the decided value is the proposed one (validity), nobody decides anything else (agreement)
  have inv := run_inv (init n q1 q2) (.propose p b v :: (as1 ++ as2)) (init_inv n q1 q2)
  have val := run_valid (init n q1 q2) (.propose p b v :: (as1 ++ as2)) (init_inv n q1 q2) (init_valid n q1 q2)
  have hcfg := run_cfg (init n q1 q2) (.propose p b v :: (as1 ++ as2))
  rw [hrun] at inv val hcfg
  have hval : ∀ d w, (runActs (runActs (step (init n q1 q2) (.propose p b v)) as1) as2).decided d = some w → w = v := by
    intro d w hd
    obtain ⟨b', Q, _, hQ, hlen⟩ := inv.learn.node d w hd
    have hq2' : 0 < (runActs (runActs (step (init n q1 q2) (.propose p b v)) as1) as2).cfg.q2 := by rw [hcfg]; exact hq2
    obtain ⟨a, ha⟩ := quorum_nonempty hq2' hlen
    have := val.st b' w (inv.sem.one a b' w (hQ a ha).2)
    rw [gE.pv] at this
    simpa using this
  cases hdp : (runActs (runActs (step (init n q1 q2) (.propose p b v)) as1) as2).decided p with
  | none => rw [hdp] at hdecp; cases hdecp
  | some w =>
    have hw : w = v := hval p w hdp
    rw [hw] at hdp
    refine ⟨by rw [hw], ?_, hval, ?_⟩
    · rw [gE.pdec hdecp, hdp]
    · intro d h1 h2
      rcases gE.dec hdecp d h1 h2 with h | h
      · left
        cases hd : (runActs (runActs (step (init n q1 q2) (.propose p b v)) as1) as2).decided d with
        | none => rw [hd] at h; cases h
        | some w' => rw [hval d w' hd]
      · right; rw [h, hdp]

end

/-- non-vacuity: the theorem applied to the concrete run of `PxLiveEx.lean` (n = 3, p = 0, b = 3, Q1 = Q2 = [1]) -/
example : (runActs (init 3 2 2) (.propose 0 3 7 :: ([.recvPrepare 3 1, .recvPromise 3 1] ++
    [.recvAccept 3 1, .recvAccepted 3 1, .recvDecided 0 1, .recvDecided 0 2]))).decided 0 = some 7 :=
  (single_proposer_decides 3 2 2 0 3 7 [.recvPrepare 3 1, .recvPromise 3 1]
    [.recvAccept 3 1, .recvAccepted 3 1, .recvDecided 0 1, .recvDecided 0 2] [1] [1]
    (by decide) (by decide) (by decide) (by decide) (by decide)
    (by decide) (by decide) (by simp) (by decide) (by decide) (by decide) (by simp) (by decide)
    (by
      intro a ha
      simp only [List.cons_append, List.nil_append, List.mem_cons, List.not_mem_nil, or_false] at ha
      rcases ha with rfl | rfl | rfl | rfl | rfl | rfl <;> simp [DelivB, NotTo])
    (by
      intro d hd; simp only [List.mem_singleton] at hd; subst hd
      exact ⟨[.recvPrepare 3 1], [.recvPromise 3 1], rfl, by simp, by simp⟩)
    (by
      intro d hd; simp only [List.mem_singleton] at hd; subst hd
      exact ⟨[.recvAccept 3 1], [.recvAccepted 3 1, .recvDecided 0 1, .recvDecided 0 2], rfl, by simp, by simp⟩)).1

end HappyModel.C12.Px
