import HappyProofs.C12.PxStepD
namespace HappyModel.C12.Px

theorem pickVal_none {l : List (Nat × AccV)} {best : Option (Nat × Val)} (h : pickVal l best = none) :
    best = none ∧ ∀ f r, (f, r) ∈ l → r = none := by
  induction l generalizing best with
  | nil => simp [pickVal] at h; exact ⟨h, by simp⟩
  | cons x xs ih =>
    obtain ⟨f0, r0⟩ := x
    cases r0 with
    | none =>
      simp only [pickVal] at h
      obtain ⟨a1, a2⟩ := ih h
      refine ⟨a1, ?_⟩
      intro f r hm; rcases List.mem_cons.mp hm with hm | hm
      · cases hm; rfl
      · exact a2 f r hm
    | some bv =>
      obtain ⟨b, v⟩ := bv
      cases best with
      | none => simp only [pickVal] at h; have := (ih h).1; cases this
      | some bb =>
        obtain ⟨bb, bv⟩ := bb
        simp only [pickVal] at h
        split at h <;> (have := (ih h).1; cases this)

theorem pickVal_some {l : List (Nat × AccV)} {best : Option (Nat × Val)} {bm : Nat} {vm : Val}
    (h : pickVal l best = some (bm, vm)) :
    ((∃ f, (f, some (bm, vm)) ∈ l) ∨ best = some (bm, vm)) ∧
    (∀ f b' v', (f, some (b', v')) ∈ l → b' ≤ bm) ∧ (∀ bb bv, best = some (bb, bv) → bb ≤ bm) := by
  induction l generalizing best with
  | nil => simp [pickVal] at h; subst h; exact ⟨Or.inr rfl, by simp, by intro bb bv hb; cases hb; exact Nat.le_refl _⟩
  | cons x xs ih =>
    obtain ⟨f0, r0⟩ := x
    cases r0 with
    | none =>
      simp only [pickVal] at h
      obtain ⟨a1, a2, a3⟩ := ih h
      refine ⟨?_, ?_, a3⟩
      · rcases a1 with ⟨f, hf⟩ | hb
        · exact Or.inl ⟨f, List.mem_cons_of_mem _ hf⟩
        · exact Or.inr hb
      · intro f b' v' hm; rcases List.mem_cons.mp hm with hm | hm
        · cases hm
        · exact a2 f b' v' hm
    | some bv =>
      obtain ⟨b, v⟩ := bv
      cases best with
      | none =>
        simp only [pickVal] at h
        obtain ⟨a1, a2, a3⟩ := ih h
        refine ⟨?_, ?_, by intro bb bv hb; cases hb⟩
        · rcases a1 with ⟨f, hf⟩ | hb
          · exact Or.inl ⟨f, List.mem_cons_of_mem _ hf⟩
          · cases hb; exact Or.inl ⟨f0, List.mem_cons_self⟩
        · intro f b' v' hm; rcases List.mem_cons.mp hm with hm | hm
          · cases hm; exact a3 b v rfl
          · exact a2 f b' v' hm
      | some bb =>
        obtain ⟨bb, bv⟩ := bb
        simp only [pickVal] at h
        split at h
        · rename_i hgt
          obtain ⟨a1, a2, a3⟩ := ih h
          have hb := a3 b v rfl
          refine ⟨?_, ?_, ?_⟩
          · rcases a1 with ⟨f, hf⟩ | hbst
            · exact Or.inl ⟨f, List.mem_cons_of_mem _ hf⟩
            · cases hbst; exact Or.inl ⟨f0, List.mem_cons_self⟩
          · intro f b' v' hm; rcases List.mem_cons.mp hm with hm | hm
            · cases hm; exact hb
            · exact a2 f b' v' hm
          · intro bb' bv' hbb; cases hbb; omega
        · rename_i hle
          obtain ⟨a1, a2, a3⟩ := ih h
          have hb := a3 bb bv rfl
          refine ⟨?_, ?_, ?_⟩
          · rcases a1 with ⟨f, hf⟩ | hbst
            · exact Or.inl ⟨f, List.mem_cons_of_mem _ hf⟩
            · exact Or.inr hbst
          · intro f b' v' hm; rcases List.mem_cons.mp hm with hm | hm
            · cases hm; omega
            · exact a2 f b' v' hm
          · intro bb' bv' hbb; cases hbb; exact hb

end HappyModel.C12.Px
