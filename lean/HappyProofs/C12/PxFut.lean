import HappyProofs.C12.PxFinal
/-! A future returned by `propose()` resolves only with the value its node decided. -/
namespace HappyModel.C12.Px

structure FutInv (s : St) : Prop where
  res : ∀ f v, s.futRes f = some v → s.decided (s.futOwner f) = some v
  own : ∀ b f, s.futOf b = some f → s.futOwner f = b % s.cfg.n ∧ f < s.nfut
  fresh : ∀ f, s.nfut ≤ f → s.futRes f = none

theorem init_fut (n q1 q2 : Nat) : FutInv (init n q1 q2) := by
  refine ⟨?_, ?_, ?_⟩ <;> simp [init]

/-- nothing about futures or decisions changed -/
theorem FutInv.frame {s s' : St} (h : FutInv s) (hc : s'.cfg = s.cfg) (e1 : s'.futRes = s.futRes)
    (e2 : s'.futOwner = s.futOwner) (e3 : s'.futOf = s.futOf) (e4 : s'.nfut = s.nfut)
    (e5 : s'.decided = s.decided) : FutInv s' := by
  refine ⟨?_, ?_, ?_⟩
  · intro f v hf; rw [e1] at hf; rw [e5, e2]; exact h.res f v hf
  · intro b f hf; rw [e3] at hf; rw [e2, hc, e4]; exact h.own b f hf
  · intro f hf; rw [e4] at hf; rw [e1]; exact h.fresh f hf

theorem decide_fut {s : St} (h : FutInv s) (b : Nat) (v : Val) : FutInv (decide_ s b v) := by
  unfold decide_
  split
  · exact h
  · rename_i hn
    have hnone : s.decided (b % s.cfg.n) = none := by
      cases hd : s.decided (b % s.cfg.n) with
      | none => rfl
      | some _ => rw [hd] at hn; simp at hn
    cases hfo : s.futOf b with
    | none =>
      simp only []
      refine ⟨?_, h.own, h.fresh⟩
      intro f w hf
      have := h.res f w hf
      by_cases hp : s.futOwner f = b % s.cfg.n
      · rw [hp, hnone] at this; cases this
      · show upd s.decided (b % s.cfg.n) (some v) (s.futOwner f) = some w
        rw [upd_other _ _ _ _ hp]; exact this
    | some fid =>
      simp only []
      obtain ⟨ho, hlt⟩ := h.own b fid hfo
      refine ⟨?_, h.own, ?_⟩
      · intro f w hf
        by_cases hff : f = fid
        · subst hff
          simp at hf; subst hf
          show upd s.decided (b % s.cfg.n) (some v) (s.futOwner f) = some v
          rw [ho]; simp
        · simp [upd_other _ _ _ _ hff] at hf
          have := h.res f w hf
          by_cases hp : s.futOwner f = b % s.cfg.n
          · rw [hp, hnone] at this; cases this
          · show upd s.decided (b % s.cfg.n) (some v) (s.futOwner f) = some w
            rw [upd_other _ _ _ _ hp]; exact this
      · intro f hf
        have hf' : s.nfut ≤ f := hf
        have hne : f ≠ fid := by omega
        show upd s.futRes fid (some v) f = none
        rw [upd_other _ _ _ _ hne]; exact h.fresh f hf

theorem startPhase2_fut {s : St} (h : FutInv s) (b : Nat) : FutInv (startPhase2 s b) := by
  unfold startPhase2; simp only []
  repeat' split
  all_goals first
    | exact h.frame rfl rfl rfl rfl rfl rfl
    | (refine decide_fut ?_ _ _; exact h.frame rfl rfl rfl rfl rfl rfl)

theorem beginBallot_fut {s : St} (h : FutInv s) (p b : Nat) (v : Val) : FutInv (beginBallot s p b v) := by
  unfold beginBallot; exact h.frame rfl rfl rfl rfl rfl rfl

theorem step_fut (s : St) (a : Act) (h : FutInv s) : FutInv (step s a) := by
  cases a with
  | propose p b v =>
    unfold step; simp only []
    split
    · rename_i hpn
      have hfr := h.fresh s.nfut (Nat.le_refl _)
      -- the state with the new future registered (unresolved, not yet attached to a ballot)
      have base : FutInv { s with nfut := s.nfut + 1, futOwner := upd s.futOwner s.nfut p,
                                  proposedVals := v :: s.proposedVals } := by
        refine ⟨?_, ?_, ?_⟩
        · intro f w hf
          have hne : f ≠ s.nfut := by intro e; subst e; rw [hfr] at hf; cases hf
          show s.decided (upd s.futOwner s.nfut p f) = some w
          rw [upd_other _ _ _ _ hne]; exact h.res f w hf
        · intro b' f hf
          obtain ⟨a1, a2⟩ := h.own b' f hf
          have hne : f ≠ s.nfut := by omega
          refine ⟨?_, by show f < s.nfut + 1; omega⟩
          show upd s.futOwner s.nfut p f = b' % s.cfg.n
          rw [upd_other _ _ _ _ hne]; exact a1
        · intro f hf
          exact h.fresh f (by have : s.nfut + 1 ≤ f := hf; omega)
      split
      · rename_i d hd
        refine ⟨?_, base.own, ?_⟩
        · intro f w hf
          by_cases hff : f = s.nfut
          · subst hff
            simp at hf; subst hf
            show s.decided (upd s.futOwner s.nfut p s.nfut) = some d
            simp; exact hd
          · simp [upd_other _ _ _ _ hff] at hf
            exact base.res f w hf
        · intro f hf
          have hf' : s.nfut + 1 ≤ f := hf
          have hne : f ≠ s.nfut := by omega
          show upd s.futRes s.nfut (some d) f = none
          rw [upd_other _ _ _ _ hne]; exact h.fresh f (by omega)
      · split
        · rename_i hc
          refine beginBallot_fut ?_ p b v
          refine ⟨base.res, ?_, base.fresh⟩
          intro b' f hf
          by_cases hbb : b' = b
          · subst hbb
            simp at hf; subst hf
            refine ⟨?_, by show s.nfut < s.nfut + 1; omega⟩
            show upd s.futOwner s.nfut p s.nfut = b' % s.cfg.n
            simp; exact hc.1.symm
          · simp [upd_other _ _ _ _ hbb] at hf
            exact base.own b' f hf
        · exact base
    · exact h
  | retry p bo bn =>
    unfold step; simp only []
    split
    · rename_i hc
      obtain ⟨_, hbo, hbn, _, _, _⟩ := hc
      split
      · refine beginBallot_fut ?_ p bn _
        refine ⟨h.res, ?_, h.fresh⟩
        intro b' f hf
        by_cases h1 : b' = bo
        · subst h1; simp at hf
        · simp [upd_other _ _ _ _ h1] at hf
          by_cases h2 : b' = bn
          · subst h2
            simp at hf
            obtain ⟨a1, a2⟩ := h.own bo f hf
            exact ⟨by show s.futOwner f = b' % s.cfg.n; rw [a1, hbo, hbn], a2⟩
          · simp [upd_other _ _ _ _ h2] at hf
            exact h.own b' f hf
      · exact h
    · exact h
  | recvDecided f d =>
    unfold step; simp only []
    split
    · split
      · exact h.frame rfl rfl rfl rfl rfl rfl
      · rename_i hn
        have hnone : s.decided d = none := by
          cases hd : s.decided d with
          | none => rfl
          | some _ => rw [hd] at hn; simp at hn
        refine ⟨?_, h.own, h.fresh⟩
        intro f' w hf
        have := h.res f' w hf
        by_cases hp : s.futOwner f' = d
        · rw [hp, hnone] at this; cases this
        · show upd s.decided d _ (s.futOwner f') = some w
          rw [upd_other _ _ _ _ hp]; exact this
    · exact h
  | recvPromise b f =>
    unfold step; simp only []
    repeat' split
    all_goals first
      | exact h
      | exact h.frame rfl rfl rfl rfl rfl rfl
      | (refine startPhase2_fut ?_ _; exact h.frame rfl rfl rfl rfl rfl rfl)
  | recvAccepted b f =>
    unfold step; simp only []
    repeat' split
    all_goals first
      | exact h
      | exact h.frame rfl rfl rfl rfl rfl rfl
      | (refine decide_fut ?_ _ _; exact h.frame rfl rfl rfl rfl rfl rfl)
  | _ =>
    unfold step; simp only []
    repeat' split
    all_goals first | exact h | exact h.frame rfl rfl rfl rfl rfl rfl

theorem run_fut (s : St) (as : List Act) (h : FutInv s) : FutInv (runActs s as) := by
  induction as generalizing s with
  | nil => exact h
  | cons a as ih => exact ih _ (step_fut s a h)

theorem run_valid (s : St) (as : List Act) (inv : Inv s) (val : Valid s) : Valid (runActs s as) := by
  induction as generalizing s with
  | nil => exact val
  | cons a as ih => exact ih _ (step_inv s a inv) (step_valid s a inv val)

theorem init_valid (n q1 q2 : Nat) : Valid (init n q1 q2) := by
  refine ⟨?_, ?_⟩ <;> simp [init]

end HappyModel.C12.Px
