import HappyProofs.C12.MPCommit
/-!
# C12 — Multi-Paxos / Flexible Paxos: a node becomes leader only on a phase-1 quorum

For **every** action list the observations of a run of `MP.step` satisfy `Spec.leaderQuorum q1`:
whenever `start()` or the delivery of a `Promise` turns `is_leader` from false to true, at least
`q1` phase-1 responses for that ballot number (the node's own `start()` + delivered promises) have
reached the node.  Phase 1 compares with `q1`, never with `q2`.

Invariant: the per-ballot counter `len(_phase1_responses[bn])` of node `p` never exceeds the
number of observed phase-1 responses `(p, bn)`.
-/
namespace HappyModel.C12.MP
open HappyModel.C12.Spec

def p1Of (nd : Node) (k : Nat) : Nat := (lookup nd.p1 k).getD 0

def P1Le (B : Nat → Nat) (nd : Node) : Prop := ∀ k, p1Of nd k ≤ B k

theorem p1Le_congr {B : Nat → Nat} {nd nd' : Node} (hle : P1Le B nd) (h : nd'.p1 = nd.p1) : P1Le B nd' := by
  intro k; have := hle k; unfold p1Of at *; rw [h]; exact this

theorem assignSlots_p1 (n : Nat) : ∀ (l : List (Nat × Nat)) (nd : Node), (assignSlots n nd l).p1 = nd.p1 := by
  intro l
  induction l with
  | nil => intro nd; rfl
  | cons x xs ih =>
    intro nd
    obtain ⟨c, f⟩ := x
    simp only [assignSlots]
    rw [ih]

theorem applyFrom_p1 : ∀ (es : List Entry) (nd : Node) (idx : Nat), (applyFrom nd idx es).1.p1 = nd.p1 := by
  intro es
  induction es with
  | nil => intro nd idx; rfl
  | cons e es ih =>
    intro nd idx
    simp only [applyFrom]
    split
    · rw [ih]
    · rw [ih]

theorem advanceCommit_p1 (nd : Node) (c : Nat) : (advanceCommit nd c).1.p1 = nd.p1 := by
  unfold advanceCommit
  split
  · rfl
  · simp only [applyFrom_p1]

theorem becomeLeader_p1 (s : St) (p : Nat) (nd : Node) : (becomeLeader s p nd).1.p1 = nd.p1 := by
  simp only [becomeLeader, assignSlots_p1]

def InvP (s : St) (B : Nat → Nat → Nat) : Prop := ∀ i, P1Le (B i) (getNode s i)

theorem invP_setNode {s : St} {B : Nat → Nat → Nat} (p : Nat) (x : Node) (h : InvP s B)
    (hx : P1Le (B p) x) : InvP (setNode s p x) B := by
  intro i
  by_cases hi : i = p
  · subst hi
    rcases getNode_setNode_self s i x with e | e
    · rw [e]; exact hx
    · rw [e]; exact h i
  · rw [getNode_setNode_ne s p i x hi]; exact h i

theorem invP_nodes {s s' : St} {B : Nat → Nat → Nat} (e : s'.nodes = s.nodes) (h : InvP s B) : InvP s' B := by
  intro i
  have : getNode s' i = getNode s i := by simp [getNode, e]
  rw [this]; exact h i

theorem invP_mono {s : St} {B B' : Nat → Nat → Nat} (hB : ∀ i k, B i k ≤ B' i k) (h : InvP s B) : InvP s B' :=
  fun i k => Nat.le_trans (h i k) (hB i k)

/-- every handler except `start` / `Promise` leaves the phase-1 counters alone -/
theorem step_invP_other (s : St) (a : Act) (B : Nat → Nat → Nat)
    (hns : ∀ p, a ≠ .start p) (hnp : ∀ p bn, a ≠ .promise p bn) (h : InvP s B) : InvP (step s a).1 B := by
  cases a with
  | start p => exact absurd rfl (hns p)
  | promise p bnum => exact absurd rfl (hnp p bnum)
  | submit p c =>
    simp only [step]
    split
    · refine invP_setNode p _ (invP_nodes (s := s) rfl h) ?_
      exact p1Le_congr (h p) (assignSlots_p1 _ _ _)
    · refine invP_setNode p _ (invP_nodes (s := s) rfl h) ?_
      exact p1Le_congr (h p) rfl
  | prepare d b =>
    simp only [step]
    split
    · exact h
    · exact invP_setNode d _ h (p1Le_congr (h d) rfl)
  | accept d src b slot cmd ci =>
    simp only [step]
    split
    · exact h
    · refine invP_nodes (s := setNode s d _) rfl (invP_setNode d _ h ?_)
      refine p1Le_congr ?_ (advanceCommit_p1 _ _)
      split
      · exact p1Le_congr (h d) rfl
      · split
        · split
          · exact p1Le_congr (h d) rfl
          · exact p1Le_congr (h d) rfl
        · exact p1Le_congr (h d) rfl
  | accepted p slot =>
    simp only [step]
    split
    · refine invP_nodes (s := setNode s p _) rfl (invP_setNode p _ h ?_)
      exact p1Le_congr (p1Le_congr (h p) rfl) (advanceCommit_p1 _ _)
    · exact invP_setNode p _ h (p1Le_congr (h p) rfl)
  | hb d b ci =>
    simp only [step]
    split
    · refine invP_nodes (s := setNode s d _) rfl (invP_setNode d _ h ?_)
      exact p1Le_congr (p1Le_congr (h d) rfl) (advanceCommit_p1 _ _)
    · exact h
  | selfhb p b ci =>
    simp only [step]
    split
    · split <;> exact h
    · split
      · refine invP_nodes (s := setNode s p _) rfl (invP_setNode p _ h ?_)
        exact p1Le_congr (p1Le_congr (h p) rfl) (advanceCommit_p1 _ _)
      · exact h
  | nack p b =>
    simp only [step]
    split
    · exact invP_setNode p _ h (p1Le_congr (h p) rfl)
    · exact h

theorem step_q1 (s : St) (a : Act) : (step s a).1.q1 = s.q1 := by
  cases a <;> simp only [step] <;> (repeat' split) <;> rfl

/-! ### observations -/

def notProm : LogObs → Bool
  | .prom _ _ _ _ => false
  | _ => true

theorem propOf_notProm (p : Nat) (ms : List Msg) : ∀ o ∈ ms.filterMap (propOf p), notProm o = true := by
  intro o ho
  simp only [List.mem_filterMap] at ho
  obtain ⟨m, _, hm⟩ := ho
  cases m with
  | accept d b slot cmd ci => simp only [propOf, Option.some.injEq] at hm; subst hm; rfl
  | _ => simp [propOf] at hm

theorem promCnt_append (l hist : List LogObs) (p k : Nat) :
    promCnt (l.reverse ++ hist) p k = List.countP (isProm p k) l + promCnt hist p k := by
  unfold promCnt
  rw [List.countP_append, List.countP_reverse]

theorem countP_notProm (l : List LogObs) (hl : ∀ o ∈ l, notProm o = true) (p k : Nat) :
    List.countP (isProm p k) l = 0 := by
  rw [List.countP_eq_zero]
  intro o ho
  have := hl o ho
  cases o <;> simp_all [notProm, isProm]

theorem leaderQuorum_notProm (q1 : Nat) (l hist : List LogObs) (hl : ∀ o ∈ l, notProm o = true) :
    leaderQuorum q1 hist l = true := by
  apply checkAll_of_forall
  intro o ho h
  have := hl o ho
  cases o <;> simp_all [notProm, leaderOk]

theorem obsStep_notProm (s : St) (a : Act) (hns : ∀ p, a ≠ .start p) (hnp : ∀ p bn, a ≠ .promise p bn) :
    ∀ o ∈ obsStep s a, notProm o = true := by
  intro o ho
  cases a with
  | start p => exact absurd rfl (hns p)
  | promise p bn => exact absurd rfl (hnp p bn)
  | accepted p slot =>
    simp only [obsStep, List.mem_singleton] at ho; subst ho; rfl
  | accept d src b slot cmd ci =>
    simp only [obsStep] at ho
    split at ho
    · cases ho
    · simp only [List.mem_singleton] at ho; subst ho; rfl
  | prepare d b =>
    simp only [obsStep] at ho
    split at ho
    · cases ho
    · simp only [List.mem_cons] at ho
      rcases ho with rfl | ho
      · rfl
      · obtain ⟨k', c, rfl⟩ := pcarsOf_mem _ _ _ _ o ho; rfl
  | submit p c =>
    simp only [obsStep] at ho
    split at ho
    · simp only [List.mem_singleton] at ho; subst ho; rfl
    · cases ho
  | _ =>
    simp only [obsStep] at ho
    exact propOf_notProm _ _ o ho

def InvL (s : St) (hist : List LogObs) : Prop := InvP s (fun p k => promCnt hist p k)

theorem init_invL (n q1 q2 : Nat) (flex : Bool) : InvL (init n q1 q2 flex) [] := by
  intro i k
  simp only [p1Of, getNode, init, List.getD_eq_getElem?_getD]
  cases h : ((List.range n).map fun i => ({ ballot := i } : Node))[i]? with
  | none => simp [lookup]
  | some nd =>
    have := List.mem_of_getElem? h
    simp only [List.mem_map] at this
    obtain ⟨j, _, rfl⟩ := this
    simp [lookup]

/-- history after a phase-1 observation followed by `prop`s -/
theorem promCnt_after (p bn : Nat) (l0 l1 : Bool) (props hist : List LogObs)
    (hp : ∀ o ∈ props, notProm o = true) (i k : Nat) :
    promCnt ((LogObs.prom p bn l0 l1 :: props).reverse ++ hist) i k =
      promCnt hist i k + (if i = p ∧ k = bn then 1 else 0) := by
  rw [promCnt_append, List.countP_cons, countP_notProm props hp]
  by_cases hi : i = p <;> by_cases hk : k = bn <;> simp [isProm, hi, hk] <;> omega

theorem isLeader_setNode_self (s : St) (p : Nat) (x : Node) (hx : x.isLeader = (getNode s p).isLeader) :
    (getNode (setNode s p x) p).isLeader = (getNode s p).isLeader := by
  rcases getNode_setNode_self s p x with e | e
  · rw [e, hx]
  · rw [e]

theorem bool_or_not (b : Bool) (c : Bool) : (b || !b || c) = true := by cases b <;> simp

theorem step_invL (s : St) (a : Act) (hist : List LogObs) (h : InvL s hist) :
    leaderQuorum s.q1 hist (obsStep s a) = true ∧ InvL (step s a).1 ((obsStep s a).reverse ++ hist) := by
  cases a with
  | start p =>
    have hprops := propOf_notProm p (step s (.start p)).2
    have hcnt := promCnt_after p (startNum s p) (getNode s p).isLeader (getNode (step s (.start p)).1 p).isLeader
      _ hist hprops
    have hrest : InvP s (fun i k => promCnt ((obsStep s (.start p)).reverse ++ hist) i k) := by
      refine invP_mono ?_ h
      intro i k
      simp only [obsStep, hcnt]
      omega
    have hx : P1Le (fun k => promCnt ((obsStep s (.start p)).reverse ++ hist) p k)
        { getNode s p with ballot := ((getNode s p).ballot / s.n + 1) * s.n + p, p1 := setKV (getNode s p).p1 (startNum s p) 1 } := by
      intro k
      simp only [p1Of, getD_lookup_setKV, obsStep, hcnt]
      split
      · rename_i hk; simp [hk]
      · have : p1Of (getNode s p) k ≤ promCnt hist p k := h p k
        simp only [p1Of] at this; omega
    constructor
    · simp only [obsStep, leaderQuorum, checkAll, Bool.and_eq_true]
      refine ⟨?_, leaderQuorum_notProm _ _ _ hprops⟩
      simp only [leaderOk]
      by_cases hq : s.q1 ≤ 1
      · have : s.q1 ≤ promCnt hist p (startNum s p) + 1 := by omega
        simp [this]
      · have e : (getNode (step s (.start p)).1 p).isLeader = (getNode s p).isLeader := by
          simp only [step, hq, if_false]
          exact isLeader_setNode_self s p _ rfl
        rw [e]
        exact bool_or_not _ _
    · unfold InvL
      simp only [step]
      split
      · refine invP_setNode p _ hrest ?_
        exact p1Le_congr hx (becomeLeader_p1 _ _ _)
      · exact invP_setNode p _ hrest hx
  | promise p bn =>
    have hprops := propOf_notProm p (step s (.promise p bn)).2
    have hcnt := promCnt_after p bn (getNode s p).isLeader (getNode (step s (.promise p bn)).1 p).isLeader
      _ hist hprops
    have hrest : InvP s (fun i k => promCnt ((obsStep s (.promise p bn)).reverse ++ hist) i k) := by
      refine invP_mono ?_ h
      intro i k
      simp only [obsStep, hcnt]
      omega
    have hk : p1Of (getNode s p) bn ≤ promCnt hist p bn := h p bn
    constructor
    · simp only [obsStep, leaderQuorum, checkAll, Bool.and_eq_true]
      refine ⟨?_, leaderQuorum_notProm _ _ _ hprops⟩
      simp only [leaderOk]
      simp only [step]
      split
      · exact bool_or_not _ _
      · rename_i k hlk
        have hk' : k ≤ promCnt hist p bn := by
          simp only [p1Of, hlk, Option.getD_some] at hk; exact hk
        split
        · rename_i hge
          have : s.q1 ≤ promCnt hist p bn + 1 := by omega
          simp [this]
        · simp only [isLeader_setNode_self s p { getNode s p with p1 := setKV (getNode s p).p1 bn (k + 1) } rfl]
          exact bool_or_not _ _
    · unfold InvL
      simp only [step]
      split
      · exact hrest
      · rename_i k hlk
        have hk' : k ≤ promCnt hist p bn := by
          simp only [p1Of, hlk, Option.getD_some] at hk; exact hk
        have hx : P1Le (fun j => promCnt ((obsStep s (.promise p bn)).reverse ++ hist) p j)
            { getNode s p with p1 := setKV (getNode s p).p1 bn (k + 1) } := by
          intro j
          simp only [p1Of, getD_lookup_setKV, obsStep, hcnt]
          split
          · rename_i hj; simp [hj]; omega
          · have : p1Of (getNode s p) j ≤ promCnt hist p j := h p j
            simp only [p1Of] at this; omega
        split
        · refine invP_setNode p _ hrest ?_
          exact p1Le_congr hx (becomeLeader_p1 _ _ _)
        · exact invP_setNode p _ hrest hx
  | submit p c => exact step_invL_other s _ hist h (by intro q; simp) (by intro q b; simp)
  | prepare d b => exact step_invL_other s _ hist h (by intro q; simp) (by intro q b; simp)
  | accept d src b slot cmd ci => exact step_invL_other s _ hist h (by intro q; simp) (by intro q b; simp)
  | accepted p slot => exact step_invL_other s _ hist h (by intro q; simp) (by intro q b; simp)
  | hb d b ci => exact step_invL_other s _ hist h (by intro q; simp) (by intro q b; simp)
  | selfhb p b ci => exact step_invL_other s _ hist h (by intro q; simp) (by intro q b; simp)
  | nack p b => exact step_invL_other s _ hist h (by intro q; simp) (by intro q b; simp)
where
  step_invL_other (s : St) (a : Act) (hist : List LogObs) (h : InvL s hist)
      (hns : ∀ p, a ≠ .start p) (hnp : ∀ p bn, a ≠ .promise p bn) :
      leaderQuorum s.q1 hist (obsStep s a) = true ∧ InvL (step s a).1 ((obsStep s a).reverse ++ hist) := by
    have hno := obsStep_notProm s a hns hnp
    refine ⟨leaderQuorum_notProm _ _ _ hno, ?_⟩
    unfold InvL
    have e : (fun p k => promCnt ((obsStep s a).reverse ++ hist) p k) = (fun p k => promCnt hist p k) := by
      funext p k; rw [promCnt_append, countP_notProm _ hno]; omega
    rw [e]
    exact step_invP_other s a _ hns hnp h

theorem run_leaderQuorum : ∀ (as : List Act) (s : St) (hist : List LogObs), InvL s hist →
    leaderQuorum s.q1 hist (obsRun s as) = true := by
  intro as
  induction as with
  | nil => intro s hist _; rfl
  | cons a as ih =>
    intro s hist h
    obtain ⟨h1, h2⟩ := step_invL s a hist h
    have := ih (step s a).1 _ h2
    rw [step_q1] at this
    unfold leaderQuorum at *
    simp only [obsRun, checkAll_append, Bool.and_eq_true]
    exact ⟨h1, this⟩

end HappyModel.C12.MP
