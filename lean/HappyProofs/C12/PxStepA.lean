import HappyProofs.C12.PxInv
namespace HappyModel.C12.Px

theorem upd2_eq {β} (f : Nat → Nat → β) (i j : Nat) (x : β) (a b : Nat) :
    upd2 f i j x a b = if a = i ∧ b = j then x else f a b := rfl

theorem upd2_false_true {f : Nat → Nat → Bool} {i j a b : Nat} (h : upd2 f i j false a b = true) :
    f a b = true ∧ ¬ (a = i ∧ b = j) := by
  rw [upd2_eq] at h; split at h
  · cases h
  · exact ⟨h, by assumption⟩

theorem upd2_none_some {β} {f : Nat → Nat → Option β} {i j a b : Nat} {x : β}
    (h : upd2 f i j none a b = some x) : f a b = some x ∧ ¬ (a = i ∧ b = j) := by
  rw [upd2_eq] at h; split at h
  · cases h
  · exact ⟨h, by assumption⟩

theorem upd2_false_of {f : Nat → Nat → Bool} {i j a b : Nat} (h : f a b = false) :
    upd2 f i j false a b = false := by rw [upd2_eq]; split <;> simp [h]

theorem upd2_none_of {β} {f : Nat → Nat → Option β} {i j a b : Nat} (h : f a b = none) :
    upd2 f i j none a b = none := by rw [upd2_eq]; split <;> simp [h]

/-- emptying a prepare slot -/
theorem clearPrep_net1 {s : St} (h : Net1 s) (b d : Nat) : Net1 { s with mPrep := upd2 s.mPrep b d false } := by
  refine ⟨?_, h.prom, h.p1, ?_⟩
  · intro b' d' hb; exact h.prep b' d' (upd2_false_true hb).1
  · intro b' hb'
    obtain ⟨a1, a2⟩ := h.fresh b' hb'
    exact ⟨a1, fun d' => ⟨upd2_false_of (a2 d').1, (a2 d').2⟩⟩

theorem clearProm_net1 {s : St} (h : Net1 s) (b f : Nat) : Net1 { s with mProm := upd2 s.mProm b f none } := by
  refine ⟨?_, ?_, h.p1, ?_⟩
  · intro b' d' hb
    obtain ⟨a1, a2, a3⟩ := h.prep b' d' hb
    exact ⟨a1, upd2_none_of a2, a3⟩
  · intro b' f' r hb; exact h.prom b' f' r (upd2_none_some hb).1
  · intro b' hb'
    obtain ⟨a1, a2⟩ := h.fresh b' hb'
    exact ⟨a1, fun d' => ⟨(a2 d').1, upd2_none_of (a2 d').2⟩⟩

theorem clearAcpt_net2 {s : St} (h : Net2 s) (b d : Nat) : Net2 { s with mAcpt := upd2 s.mAcpt b d none } := by
  refine ⟨?_, ?_, h.acptd, h.acks, h.fresh⟩
  · intro b' hb'
    obtain ⟨a1, a2⟩ := h.none_ b' hb'
    exact ⟨a1, fun d' => ⟨upd2_none_of (a2 d').1, (a2 d').2⟩⟩
  · intro b' d' v hb; exact h.acpt b' d' v (upd2_none_some hb).1

theorem clearAcptd_net2 {s : St} (h : Net2 s) (b f : Nat) : Net2 { s with mAcptd := upd2 s.mAcptd b f false } := by
  refine ⟨?_, ?_, ?_, h.acks, h.fresh⟩
  · intro b' hb'
    obtain ⟨a1, a2⟩ := h.none_ b' hb'
    exact ⟨a1, fun d' => ⟨(a2 d').1, upd2_false_of (a2 d').2⟩⟩
  · intro b' d' v hb
    obtain ⟨a1, a2, a3, a4⟩ := h.acpt b' d' v hb
    exact ⟨a1, upd2_false_of a2, a3, a4⟩
  · intro b' f' hb; exact h.acptd b' f' (upd2_false_true hb).1

theorem clearDec_learn {s : St} (h : Learn s) (f d : Nat) : Learn { s with mDec := upd2 s.mDec f d none } := by
  refine ⟨h.node, ?_⟩
  intro f' d' v hb; exact h.msg f' d' v (upd2_none_some hb).1

theorem drop_inv (s : St) (inv : Inv s) :
    (∀ b d, Inv (step s (.dropPrep b d))) ∧ (∀ b f, Inv (step s (.dropProm b f))) ∧
    (∀ b d, Inv (step s (.dropAcpt b d))) ∧ (∀ b f, Inv (step s (.dropAcptd b f))) ∧
    (∀ f d, Inv (step s (.dropDec f d))) := by
  refine ⟨?_, ?_, ?_, ?_, ?_⟩
  · intro b d
    exact ⟨clearPrep_net1 inv.n1 b d, inv.n2.frame rfl rfl rfl rfl rfl rfl rfl,
           inv.sem.frame rfl rfl rfl rfl rfl, inv.learn.frame rfl rfl rfl (fun _ h => h)⟩
  · intro b f
    exact ⟨clearProm_net1 inv.n1 b f, inv.n2.frame rfl rfl rfl rfl rfl rfl rfl,
           inv.sem.frame rfl rfl rfl rfl rfl, inv.learn.frame rfl rfl rfl (fun _ h => h)⟩
  · intro b d
    exact ⟨inv.n1.frame rfl rfl rfl rfl rfl (fun _ h => h), clearAcpt_net2 inv.n2 b d,
           inv.sem.frame rfl rfl rfl rfl rfl, inv.learn.frame rfl rfl rfl (fun _ h => h)⟩
  · intro b f
    exact ⟨inv.n1.frame rfl rfl rfl rfl rfl (fun _ h => h), clearAcptd_net2 inv.n2 b f,
           inv.sem.frame rfl rfl rfl rfl rfl, inv.learn.frame rfl rfl rfl (fun _ h => h)⟩
  · intro f d
    exact ⟨inv.n1.frame rfl rfl rfl rfl rfl (fun _ h => h), inv.n2.frame rfl rfl rfl rfl rfl rfl rfl,
           inv.sem.frame rfl rfl rfl rfl rfl, clearDec_learn inv.learn f d⟩

theorem recvDecided_inv (s : St) (f d : Nat) (inv : Inv s) : Inv (step s (.recvDecided f d)) := by
  unfold step
  simp only []
  split
  · rename_i v hv
    have hl := clearDec_learn inv.learn f d
    split
    · exact ⟨inv.n1.frame rfl rfl rfl rfl rfl (fun _ h => h), inv.n2.frame rfl rfl rfl rfl rfl rfl rfl,
             inv.sem.frame rfl rfl rfl rfl rfl, hl⟩
    · refine ⟨inv.n1.frame rfl rfl rfl rfl rfl (fun _ h => h), inv.n2.frame rfl rfl rfl rfl rfl rfl rfl,
             inv.sem.frame rfl rfl rfl rfl rfl, ⟨?_, hl.msg⟩⟩
      intro d' v' hd'
      by_cases hdd : d' = d
      · subst hdd; simp at hd'; subst hd'
        exact inv.learn.msg f d' v hv
      · simp [upd_other _ _ _ _ hdd] at hd'; exact inv.learn.node d' v' hd'
  · exact inv

end HappyModel.C12.Px
